import ExoVerif.Props.C19
import ExoVerif.Proofs.EvmFeeHist
/-!
# C19 — block- and chain-level completion (clause-by-clause audit, round 5)

`Props/C19.lean` proves the accounting of ONE DeliverTx for all inputs and lifts the zero-sum and the nonce count to
the transaction list of a block. This file lifts the remaining clauses to every list of transactions of a block
(shared block gas meter, several transactions per sender, any mix of outcomes) and to every sequence of blocks:

* exact fee at block level: for EVERY account the balance after the block is the balance before, minus what it paid
  as a sender (Σ gas × effective price + value moved), plus what it received as a recipient, plus — for the fee
  collector — Σ over the block's transactions of gas × effective price (`C19_hist_block_fee_exact`,
  `C19_hist_collector_receives_sum_of_fees`); rejected transactions contribute nothing to any of the sums
  (`C19_hist_rejected_contribute_nothing`) and can be erased from the block without changing anything
  (`C19_hist_rejected_erasable`: "not included");
* nonces: the nonce fields of a sender's included transactions are consecutive, starting at its account nonce
  (`C19_hist_block_nonces_consecutive`); over every sequence of blocks each account's nonce grows by exactly the
  number of its included transactions (`C19_hist_chain_nonce_count`);
* the block gas meter as the Go code treats it: the meter after the block is the meter before plus, per
  transaction, the gas charged for an executed / ApplyMessage-error transaction, the gas that overflowed for a
  block-gas overflow, and the context meter's reading for a rejected one (`C19_hist_block_gas_meter`); the gas of
  all transactions that executed fits under the block gas limit (`C19_hist_executed_gas_within_limit`); at most the
  one transaction that overflows the meter is charged without executing, and every transaction after it is rejected
  and costs nothing (`C19_hist_after_overflow_all_rejected`).
-/
namespace ExoVerif.EvmFee
open ExoVerif

/-! ## sums over the transactions of a block -/

/-- what account `a` pays as the sender of transactions of the block: gas × effective price + value moved -/
def paidBy (e : Env) (a : Nat) : List (Tx × Exec) → List (Outcome × Int) → Int
  | (t, _) :: ts, (o, g) :: os => (if a = t.sender then g * antePrice e t + movedValue o t else 0) + paidBy e a ts os
  | _, _ => 0

/-- what account `a` receives as the recipient of transactions of the block -/
def receivedBy (a : Nat) : List (Tx × Exec) → List (Outcome × Int) → Int
  | (t, _) :: ts, (o, _) :: os => (if a = t.recipient then movedValue o t else 0) + receivedBy a ts os
  | _, _ => 0

/-- Σ over the transactions of the block of gas charged × effective gas price -/
def feesOf (e : Env) : List (Tx × Exec) → List (Outcome × Int) → Int
  | (t, _) :: ts, (_, g) :: os => g * antePrice e t + feesOf e ts os
  | _, _ => 0

/-- the EVM never reports more gas than the limit (and never a negative figure) -/
def ExecSane (p : Tx × Exec) : Prop := 0 ≤ p.2.evmGasUsed ∧ p.2.evmGasUsed ≤ p.1.gasLimit

instance (p : Tx × Exec) : Decidable (ExecSane p) := by unfold ExecSane; infer_instance

/-- one DeliverTx, whatever its outcome (rejected included): every account's balance changes by exactly the fee and
the value this transaction makes it pay / receive / collect -/
theorem deliver_bal_formula (e : Env) (s : St) (t : Tx) (x : Exec) (hb : 0 ≤ e.baseFee)
    (hm0 : 0 ≤ e.minGasMult.raw) (hm1 : e.minGasMult.raw ≤ PREC) (hx : ExecSane (t, x)) (a : Nat) :
    (deliver e s t x).1.bal a = s.bal a
      - (if a = t.sender then (deliver e s t x).2.2 * antePrice e t + movedValue (deliver e s t x).2.1 t else 0)
      + (if a = t.recipient then movedValue (deliver e s t x).2.1 t else 0)
      + (if a = e.collector then (deliver e s t x).2.2 * antePrice e t else 0) := by
  cases hadm : admissible e s t
  · rw [C19_inadmissible_costs_nothing e s t x hadm]
    simp [movedValue]
  · have hL : 0 ≤ t.gasLimit := by have := (C19_admitted_checks e s t hadm).2.2.2.2.2.2.2.1; omega
    have hg := (C19_gas_used_bounds e t x hL hm0 hm1 hx.1 hx.2).2.2.2
    exact C19_fee_exact e s t x hb hadm hg a

/-! ## exact fee over the transactions of a block -/

/-- Exact fee accounting over every list of transactions of a block (several per sender, shared block gas meter, any
mix of rejected / errored / overflowing / reverted / successful ones): every account's balance changes by exactly
− Σ (gas × price + moved value) over the transactions it sent, + Σ moved value over those it receives, and — for the
fee collector — + Σ gas × price over ALL transactions of the block. -/
theorem C19_hist_block_fee_exact (e : Env) (hb : 0 ≤ e.baseFee)
    (hm0 : 0 ≤ e.minGasMult.raw) (hm1 : e.minGasMult.raw ≤ PREC) (txs : List (Tx × Exec)) (s : St)
    (hx : ∀ p ∈ txs, ExecSane p) (a : Nat) :
    (deliverAll e s txs).1.bal a = s.bal a
      - paidBy e a txs (deliverAll e s txs).2 + receivedBy a txs (deliverAll e s txs).2
      + (if a = e.collector then feesOf e txs (deliverAll e s txs).2 else 0) := by
  induction txs generalizing s with
  | nil => simp [deliverAll, paidBy, receivedBy, feesOf]
  | cons p rest ih =>
    obtain ⟨t, x⟩ := p
    have h1 := deliver_bal_formula e s t x hb hm0 hm1 (hx (t, x) (by simp)) a
    have h2 := ih (deliver e s t x).1 (fun q hq => hx q (by simp [hq]))
    rw [deliverAll_cons]
    simp only [paidBy, receivedBy, feesOf]
    rw [h2, h1]
    by_cases hc : a = e.collector
    · simp only [hc, if_true]; omega
    · simp only [hc, if_false]; omega

/-- Σ fees = fee collector delta: when the fee collector (a module account) neither sends nor receives a transaction
of the block, its balance grows by exactly Σ over the block's transactions of gas used × effective gas price. -/
theorem C19_hist_collector_receives_sum_of_fees (e : Env) (hb : 0 ≤ e.baseFee)
    (hm0 : 0 ≤ e.minGasMult.raw) (hm1 : e.minGasMult.raw ≤ PREC) (txs : List (Tx × Exec)) (s : St)
    (hx : ∀ p ∈ txs, ExecSane p) (hc : ∀ p ∈ txs, p.1.sender ≠ e.collector ∧ p.1.recipient ≠ e.collector) :
    (deliverAll e s txs).1.bal e.collector = s.bal e.collector + feesOf e txs (deliverAll e s txs).2 := by
  have h := C19_hist_block_fee_exact e hb hm0 hm1 txs s hx e.collector
  have hz : ∀ (l : List (Tx × Exec)) (os : List (Outcome × Int)),
      (∀ p ∈ l, p.1.sender ≠ e.collector ∧ p.1.recipient ≠ e.collector) →
      paidBy e e.collector l os = 0 ∧ receivedBy e.collector l os = 0 := by
    intro l
    induction l with
    | nil => intro os _; simp [paidBy, receivedBy]
    | cons p rest ih =>
      intro os hp
      obtain ⟨t, x⟩ := p
      cases os with
      | nil => simp [paidBy, receivedBy]
      | cons o os' =>
        obtain ⟨o1, g⟩ := o
        obtain ⟨n1, n2⟩ := hp (t, x) (by simp)
        obtain ⟨i1, i2⟩ := ih os' (fun q hq => hp q (by simp [hq]))
        have m1 : ¬ e.collector = t.sender := fun h => n1 h.symm
        have m2 : ¬ e.collector = t.recipient := fun h => n2 h.symm
        simp only [paidBy, receivedBy, m1, m2, if_false, i1, i2, Int.add_zero, and_self]
  obtain ⟨z1, z2⟩ := hz txs _ hc
  rw [h, z1, z2]; simp

/-- A rejected transaction contributes nothing to any of the block's sums: nothing paid, nothing received, no fee. -/
theorem C19_hist_rejected_contribute_nothing (e : Env) (s : St) (t : Tx) (x : Exec) (a : Nat)
    (h : admissible e s t = false) (rest : List (Tx × Exec)) :
    let r := deliverAll e s ((t, x) :: rest)
    let r' := deliverAll e { s with blockGas := s.blockGas + x.rejGas } rest
    r.2 = (Outcome.rejected, (0 : Int)) :: r'.2 ∧
    paidBy e a ((t, x) :: rest) r.2 = paidBy e a rest r'.2 ∧
    receivedBy a ((t, x) :: rest) r.2 = receivedBy a rest r'.2 ∧
    feesOf e ((t, x) :: rest) r.2 = feesOf e rest r'.2 ∧
    r.1 = r'.1 := by
  simp only [deliverAll_cons, C19_inadmissible_costs_nothing e s t x h, paidBy, receivedBy, feesOf, movedValue]
  simp

/-- the transactions of a block that are included (= not rejected), each evaluated in the state it meets -/
def includedTxs (e : Env) : St → List (Tx × Exec) → List (Tx × Exec)
  | _, [] => []
  | s, (t, x) :: rest =>
    if admissible e s t then (t, x) :: includedTxs e (deliver e s t x).1 rest
    else includedTxs e (deliver e s t x).1 rest

/-- "Not included": when the rejected transactions leave nothing on the context's gas meter (`rejGas = 0`: the
rejection happened after EthSetupContextDecorator installed its meter — every admission check the property names),
erasing them from the block changes neither the final state (balances, nonces, block gas meter) nor the outcome of
any other transaction. (With `rejGas ≠ 0` baseapp's deferred consumeBlockGas moves the block gas meter although the
transaction is rejected — `Exec.rejGas`; balances and nonces are then still given by `C19_hist_block_fee_exact`.) -/
theorem C19_hist_rejected_erasable (e : Env) (txs : List (Tx × Exec)) (s : St) (hz : ∀ p ∈ txs, p.2.rejGas = 0) :
    deliverAll e s (includedTxs e s txs) =
      ((deliverAll e s txs).1, (deliverAll e s txs).2.filter (fun r => decide (r.1 ≠ Outcome.rejected))) := by
  induction txs generalizing s with
  | nil => rfl
  | cons p rest ih =>
    obtain ⟨t, x⟩ := p
    have hr : x.rejGas = 0 := hz (t, x) (by simp)
    have ih' := fun s' => ih s' (fun q hq => hz q (by simp [hq]))
    cases hadm : admissible e s t
    · have hd : deliver e s t x = (s, .rejected, 0) := by
        rw [C19_inadmissible_costs_nothing e s t x hadm, hr, st_blockGas_add_zero]
      simp only [includedTxs, hadm, Bool.false_eq_true, if_false, deliverAll_cons, hd]
      rw [ih' s]
      simp
    · have hne : (deliver e s t x).2.1 ≠ .rejected := by
        intro hh; have := (C19_rejected_iff_inadmissible e s t x).mp hh; simp [hadm] at this
      simp only [includedTxs, hadm, if_true, deliverAll_cons]
      rw [ih' (deliver e s t x).1]
      simp [hne]

/-! ## nonces -/

/-- nonce fields of the included transactions of sender `a`, in block order -/
def includedNonces (a : Nat) : List (Tx × Exec) → List (Outcome × Int) → List Int
  | (t, _) :: ts, (o, _) :: os =>
    if t.sender = a ∧ o ≠ .rejected then t.nonce :: includedNonces a ts os else includedNonces a ts os
  | _, _ => []

/-- n, n+1, …, n+k−1 -/
def seqFrom (n : Int) : Nat → List Int
  | 0 => []
  | k + 1 => n :: seqFrom (n + 1) k

/-- Nonce monotonicity within a block: the nonce fields of a sender's included transactions are exactly
account nonce, account nonce + 1, … in block order — no gap, no repeat, no reordering — and the account nonce after
the block is the account nonce before plus their number. -/
theorem C19_hist_block_nonces_consecutive (e : Env) (txs : List (Tx × Exec)) (s : St) (a : Nat) :
    ∃ k : Nat, includedNonces a txs (deliverAll e s txs).2 = seqFrom (s.nonce a) k ∧
      (deliverAll e s txs).1.nonce a = s.nonce a + k ∧ includedBy a txs (deliverAll e s txs).2 = k := by
  induction txs generalizing s with
  | nil => exact ⟨0, by simp [deliverAll, includedNonces, seqFrom, includedBy]⟩
  | cons p rest ih =>
    obtain ⟨t, x⟩ := p
    obtain ⟨k, i1, i2, i3⟩ := ih (deliver e s t x).1
    rw [deliverAll_cons]
    simp only [includedNonces, includedBy]
    cases hadm : admissible e s t
    · have hd := C19_inadmissible_costs_nothing e s t x hadm
      rw [hd] at i1 i2 i3 ⊢
      refine ⟨k, ?_, i2, ?_⟩
      · simpa using i1
      · simpa using i3
    · have hne : (deliver e s t x).2.1 ≠ .rejected := by
        intro hh; have := (C19_rejected_iff_inadmissible e s t x).mp hh; simp [hadm] at this
      obtain ⟨hn, hnonce⟩ := C19_nonce_plus_one e s t x hadm a
      by_cases hs : t.sender = a
      · subst hs
        rw [hn] at i1 i2
        simp only [eq_self, if_true] at i1 i2
        refine ⟨k + 1, ?_, ?_, ?_⟩
        · simp only [hne, ne_eq, not_false_eq_true, and_self, if_true, seqFrom]
          rw [hnonce, i1]
        · rw [i2]; push_cast; omega
        · simp only [hne, ne_eq, not_false_eq_true, and_self, if_true, i3]; push_cast; omega
      · have ha : ¬ a = t.sender := fun h => hs h.symm
        rw [hn] at i1 i2
        simp only [ha, if_false, Int.add_zero] at i1 i2
        refine ⟨k, ?_, i2, ?_⟩
        · simp only [hs, false_and, if_false]; exact i1
        · simp only [hs, false_and, if_false, i3, Int.zero_add]

/-- a chain: every block has its own environment (base fee, limits), starts with an empty block gas meter, and
between blocks balances may change in any way (Begin/EndBlock: fee distribution, minting, other modules); the
Ethereum nonces are only moved by the transactions -/
def deliverChain : St → List (Env × ((Nat → Int) → (Nat → Int)) × List (Tx × Exec)) → St
  | s, [] => s
  | s, (e, g, txs) :: rest =>
    deliverChain (deliverAll e { bal := g s.bal, nonce := s.nonce, blockGas := 0 } txs).1 rest

/-- number of included transactions of account `a` over a chain -/
def includedOverChain (a : Nat) : St → List (Env × ((Nat → Int) → (Nat → Int)) × List (Tx × Exec)) → Int
  | _, [] => 0
  | s, (e, g, txs) :: rest =>
    includedBy a txs (deliverAll e { bal := g s.bal, nonce := s.nonce, blockGas := 0 } txs).2 +
      includedOverChain a (deliverAll e { bal := g s.bal, nonce := s.nonce, blockGas := 0 } txs).1 rest

/-- Over every sequence of blocks each account's nonce grows by exactly the number of its included transactions. -/
theorem C19_hist_chain_nonce_count (a : Nat) :
    ∀ (bs : List (Env × ((Nat → Int) → (Nat → Int)) × List (Tx × Exec))) (s : St),
      (deliverChain s bs).nonce a = s.nonce a + includedOverChain a s bs := by
  intro bs
  induction bs with
  | nil => intro s; simp [deliverChain, includedOverChain]
  | cons b rest ih =>
    intro s
    obtain ⟨e, g, txs⟩ := b
    simp only [deliverChain, includedOverChain]
    rw [ih, C19_block_nonce_count]
    simp only []; omega

/-! ## the block gas meter -/

/-- what one transaction adds to the block gas meter, by outcome, as baseapp / ApplyTransaction do it -/
def meterDelta (e : Env) (t : Tx) (x : Exec) (o : Outcome) : Int :=
  match o with
  | .rejected => x.rejGas
  | .applyErr => t.gasLimit
  | .blockGas => if t.gasLimit < t.intrinsic then t.gasLimit else gasUsed e t x
  | .executed _ => gasUsed e t x

def meterOver (e : Env) : List (Tx × Exec) → List (Outcome × Int) → Int
  | (t, x) :: ts, (o, _) :: os => meterDelta e t x o + meterOver e ts os
  | _, _ => 0

/-- gas charged to the transactions of the block that executed (EVM ran, or ApplyMessage returned its error) -/
def executedGas : List (Outcome × Int) → Int
  | [] => 0
  | (o, g) :: os => (if o = .blockGas ∨ o = .rejected then 0 else g) + executedGas os

theorem deliver_meterDelta (e : Env) (s : St) (t : Tx) (x : Exec) :
    (deliver e s t x).1.blockGas = s.blockGas + meterDelta e t x (deliver e s t x).2.1 := by
  by_cases hadm : admissible e s t = true
  · by_cases hi : t.gasLimit < t.intrinsic
    · by_cases hb : (decide (0 < e.blockGasLimit) && decide (e.blockGasLimit < s.blockGas + t.gasLimit)) = true
      · simp [deliver, hadm, hi, hb, meterDelta]
      · simp [deliver, hadm, hi, hb, meterDelta]
    · by_cases hb : (decide (0 < e.blockGasLimit) && decide (e.blockGasLimit < s.blockGas + gasUsed e t x)) = true
      · simp [deliver, hadm, hi, hb, meterDelta]
      · simp [deliver, hadm, hi, hb, meterDelta]
  · have hf : admissible e s t = false := by simpa using hadm
    simp [deliver, hf, meterDelta]

/-- The block gas meter over every list of transactions: meter after = meter before + Σ per-transaction
contribution (gas used for an executed transaction, the whole limit for an ApplyMessage error, the overflowing
amount for a block-gas overflow, the context meter's reading for a rejected one). -/
theorem C19_hist_block_gas_meter (e : Env) (txs : List (Tx × Exec)) (s : St) :
    (deliverAll e s txs).1.blockGas = s.blockGas + meterOver e txs (deliverAll e s txs).2 := by
  induction txs generalizing s with
  | nil => simp [deliverAll, meterOver]
  | cons p rest ih =>
    obtain ⟨t, x⟩ := p
    rw [deliverAll_cons]
    simp only [meterOver]
    rw [ih, deliver_meterDelta]; omega

/-- Once a transaction has overflowed the block gas meter (outcome `blockGas`: charged the whole limit, writes
dropped — F-19c), or the meter has reached the limit in any other way, every later transaction of the block is
rejected and costs nothing: balances and nonces stay as they are. -/
theorem C19_hist_after_overflow_all_rejected (e : Env) (pre post : List (Tx × Exec)) (t : Tx) (x : Exec) (s : St)
    (hrj : ∀ p ∈ post, 0 ≤ p.2.rejGas)
    (ho : (deliver e (deliverAll e s pre).1 t x).2.1 = .blockGas) :
    let s1 := (deliver e (deliverAll e s pre).1 t x).1
    (deliverAll e s (pre ++ (t, x) :: post)).2 =
      (deliverAll e s pre).2 ++ ((Outcome.blockGas, t.gasLimit) :: (deliverAll e s1 post).2) ∧
    (∀ r ∈ (deliverAll e s1 post).2, r = (Outcome.rejected, (0 : Int))) ∧
    (deliverAll e s (pre ++ (t, x) :: post)).1.bal = s1.bal ∧
    (deliverAll e s (pre ++ (t, x) :: post)).1.nonce = s1.nonce := by
  intro s1
  rcases deliver_meter e (deliverAll e s pre).1 t x with h | h | h | ⟨f, h⟩
  · rw [h.1] at ho; cases ho
  · rw [h.1] at ho; cases ho
  · obtain ⟨_, hg, hl, hover⟩ := h
    obtain ⟨a1, a2, a3, _⟩ := deliverAll_exhausted e post s1 hl (Int.le_of_lt hover) hrj
    rw [deliverAll_append, deliverAll_cons]
    refine ⟨?_, a1, a2, a3⟩
    simp only [ho, hg]
    rfl
  · rw [h.1] at ho; cases ho

/-- Cumulative gas against the block gas limit, as the Go code treats it: with a limited block (MaxGas > 0) the
gas charged to all transactions of the block that executed, added to the meter's reading at the start, stays within
the limit (or none executed at all). Only the single overflowing transaction — never executed — is charged beyond
it. -/
theorem C19_hist_executed_gas_within_limit (e : Env) (hl : 0 < e.blockGasLimit) (txs : List (Tx × Exec)) (s : St)
    (hrj : ∀ p ∈ txs, 0 ≤ p.2.rejGas) :
    executedGas (deliverAll e s txs).2 = 0 ∨
    s.blockGas + executedGas (deliverAll e s txs).2 ≤ e.blockGasLimit := by
  induction txs generalizing s with
  | nil => left; rfl
  | cons p rest ih =>
    obtain ⟨t, x⟩ := p
    have h0 : 0 ≤ x.rejGas := hrj (t, x) (by simp)
    have hrest : ∀ q ∈ rest, 0 ≤ q.2.rejGas := fun q hq => hrj q (by simp [hq])
    rw [deliverAll_cons]
    simp only [executedGas]
    rcases deliver_meter e s t x with h | h | h | ⟨f, h⟩
    · obtain ⟨h1, _, h3⟩ := h
      simp only [h1, or_true, if_true, Int.zero_add]
      rcases ih (deliver e s t x).1 hrest with i | i
      · exact Or.inl i
      · right; rw [h3] at i; omega
    · obtain ⟨h1, h2, h3, h4⟩ := h
      have hn : ¬ (Outcome.applyErr = Outcome.blockGas ∨ Outcome.applyErr = Outcome.rejected) := by simp
      simp only [h1, hn, if_false, h2]
      right
      rcases ih (deliver e s t x).1 hrest with i | i
      · rw [i]; have := h4 hl; rw [h3] at this; omega
      · rw [h3] at i; omega
    · obtain ⟨h1, _, _, hover⟩ := h
      obtain ⟨a1, _, _, _⟩ := deliverAll_exhausted e rest (deliver e s t x).1 hl (Int.le_of_lt hover) hrest
      simp only [h1, true_or, if_true, Int.zero_add]
      left
      have hz : ∀ (l : List (Outcome × Int)), (∀ r ∈ l, r = (Outcome.rejected, (0 : Int))) → executedGas l = 0 := by
        intro l
        induction l with
        | nil => intro _; rfl
        | cons r rs ihl =>
          intro hr
          have := hr r (by simp)
          subst this
          simp only [executedGas, or_true, if_true, Int.zero_add]
          exact ihl (fun q hq => hr q (by simp [hq]))
      exact hz _ a1
    · obtain ⟨h1, h2, h3, h4⟩ := h
      have hn : ¬ (Outcome.executed f = Outcome.blockGas ∨ Outcome.executed f = Outcome.rejected) := by simp
      simp only [h1, hn, if_false, h2]
      right
      rcases ih (deliver e s t x).1 hrest with i | i
      · rw [i]; have := h4 hl; rw [h3] at this; omega
      · rw [h3] at i; omega

/-! ## non-vacuity: a block with two senders, every outcome class, and a following block -/

private def bEnv : Env :=
  { baseFee := 875000000, blockGasLimit := 400000, minGasMult := ⟨500000000000000000⟩, minGasPrice := ⟨0⟩, collector := 0 }
private def bSt : St :=
  { bal := fun a => if a = 1 ∨ a = 3 then 5000000000000000000000 else 0, nonce := fun a => if a = 1 then 3 else 0, blockGas := 0 }
private def tx1 : Tx :=
  { ty := 2, sender := 1, recipient := 2, nonce := 3, gasLimit := 100000, feeCap := 3000000000, tipCap := 1, value := 7,
    sigOk := true, intrinsic := 21000 }
private def tx3 : Tx := { tx1 with sender := 3, nonce := 0, ty := 0, gasLimit := 150000, value := 11 }
/-- sender 1: executed, reverted, a stale nonce (rejected); sender 3: executed, ApplyMessage error (limit below
intrinsic), then a transaction that overflows the block gas meter; everything after it is rejected -/
private def blockB : List (Tx × Exec) :=
  [(tx1, { evmGasUsed := 21000, failed := false }),
   (tx3, { evmGasUsed := 100000, failed := false }),
   ({ tx1 with nonce := 4 }, { evmGasUsed := 90000, failed := true }),
   (tx1, { evmGasUsed := 21000, failed := false }),
   ({ tx3 with nonce := 1, gasLimit := 20000 }, { evmGasUsed := 0, failed := false }),
   ({ tx3 with nonce := 2 }, { evmGasUsed := 145000, failed := false }),
   ({ tx1 with nonce := 5 }, { evmGasUsed := 21000, failed := false })]

example : ∀ p ∈ blockB, ExecSane p := by decide
example : (deliverAll bEnv bSt blockB).2 =
    [(.executed false, 50000), (.executed false, 100000), (.executed true, 90000), (.rejected, 0),
     (.applyErr, 20000), (.blockGas, 150000), (.rejected, 0)] := by decide
example : includedNonces 1 blockB (deliverAll bEnv bSt blockB).2 = [3, 4] ∧
    includedNonces 3 blockB (deliverAll bEnv bSt blockB).2 = [0, 1, 2] ∧ seqFrom 3 2 = [3, 4] := by decide
example : executedGas (deliverAll bEnv bSt blockB).2 = 260000 ∧
    (deliverAll bEnv bSt blockB).1.blockGas = 405000 ∧ meterOver bEnv blockB (deliverAll bEnv bSt blockB).2 = 405000 := by
  decide
set_option maxRecDepth 8000 in
example : feesOf bEnv blockB (deliverAll bEnv bSt blockB).2 =
    (50000 + 90000) * 875000001 + (100000 + 20000 + 150000) * 3000000000 ∧
    (deliverAll bEnv bSt blockB).1.bal 0 = feesOf bEnv blockB (deliverAll bEnv bSt blockB).2 ∧
    (deliverAll bEnv bSt blockB).1.bal 2 = 7 + 11 := by decide
example : (includedTxs bEnv bSt blockB).length = 5 := by decide
set_option maxRecDepth 8000 in
example : (deliverChain bSt [(bEnv, id, blockB), (bEnv, fun b => b, [({ tx1 with nonce := 5 }, { evmGasUsed := 21000, failed := false })])]).nonce 1 = 6 := by
  decide

end ExoVerif.EvmFee
