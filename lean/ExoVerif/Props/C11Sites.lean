import ExoVerif.Generated.Facts
import ExoVerif.Props.C01Inv
import ExoVerif.Props.C17
import ExoVerif.Model.Oracle
import ExoVerif.Proofs.OracleNil
import ExoVerif.Model.NstBitmap
/-!
# C11: sites whose safety rests on OTHER code — state invariants, caller contracts, earlier validation

`Props/C11Guards.lean` discharges the panic-capable sites whose safety follows from what the enclosing function
itself establishes. The sites below are not locally safe (the extractor exhibits an assignment of the local
variables that satisfies every local fact and still panics, see `Gen.siteGuardIndex`); they are safe because of
something other code guarantees. Each theorem names that guarantee and proves it for all inputs / histories on
the model that mirrors that code (the models are tied to the Go sources by their own properties' checks or, for
the length models written here, by the regenerated `sliceShape_*` facts). The review table of `C11Tie.lean`
cites these theorems as `.invariant "<name>"`.
-/
namespace ExoVerif.Blocks
open ExoVerif
set_option linter.unusedSimpArgs false

/-! ## x/feedistribution: `remaining.Sub(rewardToSingleStaker)` and `tokens.Sub(commission)` (DecCoins.Sub panics on a
negative result). Model: `Distr.allocateTokens` (Model/Distribution.lean; `none` is exactly that panic), replayed
line by line against the application by `./check C17`. -/

/-- the fee allocation of BeginBlock never takes more out of `remaining` / `tokens` than is left: for every fee
amount, every community tax and commission rate in [0,1], every validator set whose powers are non-negative and
add up to at most the previous total power (what x/dogfood stores), every staker list -/
theorem C11_site_fee_allocation_never_overdraws (s : Distr.St) (total tax : Int) (vals : List Distr.ValIn)
    (hfc : 0 ≤ s.fc) (ht0 : 0 ≤ total) (htax0 : 0 ≤ tax) (htax1 : tax ≤ PREC)
    (hv : ∀ v ∈ vals, Distr.SaneVal v) (hsum : Distr.foundPower vals ≤ total) :
    Distr.allocateTokens s total tax vals ≠ none := by
  have h := Distr.C17_no_halt s total tax vals hfc ht0 htax0 htax1 hv hsum
  intro hn; rw [hn] at h; simp at h

/-! ## x/delegation EndBlock: `sdk.NewCoin(hua, record.ActualCompletedAmount)` (NewCoin panics on a negative amount).
State invariant: every stored undelegation record has 0 ≤ ActualCompletedAmount ≤ Amount (`Ledger.NN.rc`), kept
by every ledger operation (`C01_nonneg_step`: deposits, withdrawals, delegations, undelegations, slashes — the only
code that lowers it is SlashFromUndelegation, see `C11_guard_undelegation_actual_nonneg` for the regenerated
kernel — holds, releases, block ends). -/

theorem nn_reachable (s : Ledger.L) (ops : List Ledger.LOp) (hn : Ledger.NN s) (hok : Ledger.AllOk0 s ops) :
    Ledger.NN (ops.foldl Ledger.lstep s) := by
  induction ops generalizing s with
  | nil => exact hn
  | cons op rest ih =>
    simp only [List.foldl_cons]
    exact ih _ (Ledger.C01_nonneg_step s op hn hok.1) hok.2

/-- in every state reachable from a fresh ledger by any finite history (undelegations with fresh nonces, slash
proportions in [0,1]) every undelegation record — in particular every record the EndBlocker completes — carries a
non-negative actual amount -/
theorem C11_site_undelegation_actual_nonneg_reachable (s : Ledger.L) (ops : List Ledger.LOp) (hf : Ledger.Fresh s)
    (hok : Ledger.AllOk0 s ops) : ∀ e ∈ (ops.foldl Ledger.lstep s).recs, 0 ≤ e.2.actual :=
  fun e he => ((nn_reachable s ops hf.nn hok).rc e he).1

/-! ## x/oracle aggregator: `pSource.Prices[0]`, `msg.Prices[0]`, `msg.Prices[0].Prices[0]` (aggregator.fillPrice,
filter.addPSource, AggregatorContext.FillPrice). Earlier validation: a create-price message reaches the filter
only after `sanityCheck` (at least one source, every source at least one price); what the filter hands on to the
calculator / aggregator — and what the replay log stores and recache feeds back in BeginBlock — is either a
source of the message or a source rebuilt from a non-empty `kept` list. Model: Model/Oracle.lean (replayed by
`./check C12..C14`). -/

/-- a message that passes sanityCheck has at least one source, and every source at least one price
(proof: Proofs/OracleNil.lean) -/
theorem C11_site_oracle_sanity_nonempty (g : Oracle.Agc) (p : Oracle.Params) (m : Oracle.Msg)
    (h : g.sanityCheck p m = none) : m.prices ≠ [] ∧ ∀ ps ∈ m.prices, ps.prices ≠ [] :=
  Oracle.sanityCheck_nonempty g p m h

/-- the filter keeps that property: every source it hands to the calculator and to the aggregator (and that the
replay log stores) has at least one price -/
theorem C11_site_oracle_sources_nonempty (f : Oracle.Filter) (v : Nat) (srcs : List Oracle.PSource)
    (h : ∀ ps ∈ srcs, ps.prices ≠ []) :
    (∀ ps ∈ (f.addPSource v srcs).2.1, ps.prices ≠ []) ∧ (∀ ps ∈ (f.addPSource v srcs).2.2, ps.prices ≠ []) :=
  Oracle.addPSource_nonempty f v srcs h

/-! ## x/oracle `common.BigIntList.Median`: `b[l/2]` (odd length) and `b[l/2-1]`, `b[l/2]` (even length). The only local
fact is `l == len(b)`; with `l = 0` the even branch reads `b[-1]` (`Gen.siteGuardIndex`: "not locally safe: l=0
len_b=0"). Median has two callers, `reportPrice.aggregate` (the prices of a report's slots) and
`aggregator.aggregate` (one value per report), both reached only from `AggregatorContext.FillPrice`.
State invariant: every report of every aggregator held in memory has at least one slot — `aggregator.fillPrice`
creates a validator's report together with its first slot, because `worker.do` calls it only with a non-empty
`list4Aggregator` whose sources all carry a price (sanityCheck, kept by the filter: the two theorems above), slots
are never removed, and `aggregate()` runs right after `do` filled something in, so the aggregator has a report.
Model: the nil-aware layer `Model/OracleNil.lean` (`medianN`: `.emptyIndex` exactly for the empty list), replayed line
by line against the application by `./check C11` / `./check C12` (domain oracle_twods) -/

/-- the index arithmetic: under the site's local facts a NON-EMPTY list keeps both even-branch indexes in range (the
odd-branch index is `C11_guard_Median_b_l_2`) -/
theorem C11_site_median_index_in_range (l len_b : Int)
    (hfacts : ((!((Int.tmod l (2 : Int)) == (1 : Int))) && (l == len_b) && (decide ((0 : Int) ≤ len_b))) = true)
    (hne : 1 ≤ len_b) :
    ((decide ((0 : Int) ≤ ((Int.tdiv l (2 : Int)) - (1 : Int)))) && (decide (((Int.tdiv l (2 : Int)) - (1 : Int)) < len_b))) = true ∧
    ((decide ((0 : Int) ≤ (Int.tdiv l (2 : Int)))) && (decide ((Int.tdiv l (2 : Int)) < len_b))) = true := by
  simp only [Bool.and_eq_true, Bool.not_eq_true', beq_eq_false_iff_ne, ne_eq, beq_iff_eq, decide_eq_true_eq] at hfacts ⊢
  obtain ⟨⟨h1, h2⟩, _⟩ := hfacts
  have hl : 0 ≤ l := by omega
  rw [Int.tmod_eq_emod_of_nonneg hl] at h1
  rw [Int.tdiv_eq_ediv_of_nonneg hl]
  omega

/-- `Median` reports the index panic exactly for the empty list -/
theorem C11_site_median_empty_iff (l : List (Option Int)) : Oracle.medianN l = .emptyIndex ↔ l.length = 0 := by
  constructor
  · intro h; rw [Oracle.medianN_empty l h]; rfl
  · intro h
    have : l = [] := List.length_eq_zero_iff.mp h
    rw [this]; rfl

/-- **no history hands `Median` an empty list**: on a running node with fixed parameters, for EVERY list of blocks
(any transactions from any sender — malformed, duplicated, with any source lists —, any validator-set updates)
EndBlock never halts, every report of every in-memory aggregator keeps at least one slot, and no transaction ends in
the index panic of `Median` -/
theorem C11_site_median_never_empty (p : Oracle.Params) (bs : List Oracle.Block) (s : Oracle.State)
    (hpf : Oracle.PF p s) (hne : Oracle.SNE s) :
    ∃ s' outs, Oracle.runBlocksN s bs = some (s', outs) ∧ Oracle.SNE s' ∧ Oracle.PF p s' ∧
      (∀ os ∈ outs, ∀ o ∈ os, ∀ i, o ≠ .msg i (.panic "median-empty")) ∧ s'.height = s.height + bs.length :=
  Oracle.runBlocksN_never_empty_median p bs s hpf hne

/-! ### two deterministic sources: the nil slot (decided on the application by harness/dom_oracle_twods.go)

With two deterministic sources in a feeder's rule a report's slot for the source that is not yet confirmed holds a
nil *big.Int while `aggregate()` already runs (one confirmed source is enough): `Median` → `sort.Sort` → `Cmp` on nil.
`aggregate()` is only called from `AggregatorContext.FillPrice`, i.e. inside the message server (DeliverTx) and inside
the replay of ACCEPTED messages at a restart; the panic is recovered by baseapp.runTx: the transaction is rejected. -/

def nwParams : Oracle.Params :=
  { maxNonce := 3, thA := 2, thB := 3, maxDetID := 5, maxSizePrices := 100,
    sources := [{ valid := false, det := false }, { valid := true, det := true }, { valid := true, det := true }],
    rules := [[], [1, 2]], tokenDecimals := [0, 0],
    feeders := [default, { tokenID := 1, ruleID := 1, startRoundID := 2, startBaseBlock := 2, interval := 8, endBlock := 0 }] }

def nwAgc : Oracle.Agc :=
  { params := some nwParams, vals := [(0, 10), (1, 10), (2, 10), (3, 10)], total := 40,
    rounds := [(1, { basedBlock := 2, nextRoundID := 2, status := .open })], workers := [] }

def nwState : Oracle.State :=
  { store := { prices := [(1, { next := 2, rounds := [(1, { price := some 1, decimal := 0, ts := -1, roundID := 1 })] })],
               nonces := [((0, 1), 0), ((1, 1), 0), ((2, 1), 0), ((3, 1), 0)], recentMsgs := [], msgIndex := [],
               recentParams := [], paramsIndex := [], vuBlock := none, params := nwParams },
    agc := some nwAgc, cache := some Oracle.Cache.empty, dogfood := [(0, 10), (1, 10), (2, 10), (3, 10)], height := 3, blockTime := 100 }

/-- validator `v` reports (det id 9, price 100) for source 1 and (det id `d2`, price `p2`) for source 2 -/
def nwTx (v : Nat) (d2 : String) (p2 : Int) : Oracle.Tx :=
  { size := 300, infos := [{ pubkeyMatches := true, sigValid := true }],
    msgs := [{ creator := v, feederID := 1, basedBlock := 2, nonce := 1,
               prices := [{ sourceID := 1, prices := [{ price := 100, decimal := 0, ts := 100, tsKind := 0, detID := "9" }] },
                          { sourceID := 2, prices := [{ price := p2, decimal := 0, ts := 100, tsKind := 0, detID := d2 }] }] }] }

/-- the hypotheses of `C11_site_median_never_empty` are met by a non-trivial state (the witness state below) -/
example : Oracle.PF nwParams nwState ∧ Oracle.SNE nwState :=
  ⟨⟨⟨nwAgc, rfl, rfl⟩, fun c hc hu => by cases hc; simp [Oracle.Cache.empty] at hu⟩,
   fun g hg => by cases hg; intro kw hkw; cases hkw⟩

/-- the history of the harness scenario `disagree`: three of four equal validators agree on source 1 and quote
different round ids for source 2. The third report confirms source 1; its transaction ends in the nil dereference of
`Median` — as a REJECTED transaction: no price is written, EndBlock goes through; what stays behind is process memory
(the rejected validator's report is counted: reporting power 30 — the mechanism of finding F-09c) -/
theorem C11_witness_median_nil_two_sources :
    (Oracle.runTxsN nwState [nwTx 0 "20" 200, nwTx 1 "21" 201, nwTx 2 "22" 202]).2 =
      [.ok, .ok, .msg 0 (.panic "median-nil")] ∧
    (Oracle.runTxsN nwState [nwTx 0 "20" 200, nwTx 1 "21" 201, nwTx 2 "22" 202]).1.store.prices = nwState.store.prices ∧
    (Oracle.endBlock (Oracle.runTxsN nwState [nwTx 0 "20" 200, nwTx 1 "21" 201, nwTx 2 "22" 202]).1 []).isSome = true ∧
    ((Oracle.runTxsN nwState [nwTx 0 "20" 200, nwTx 1 "21" 201, nwTx 2 "22" 202]).1.agc.bind
      (fun g => (Oracle.alookup 1 g.workers).bind (·.a))).map (·.reportPower) = some 30 := by
  refine ⟨by decide, by decide, by decide, by decide⟩

/-- when all of them quote the same round of source 2, both sources are confirmed by the same message and the round
is finalized (the worker is sealed with a price; the harness scenario records 160 = the median of the reports'
medians): two deterministic sources work as long as the validators agree on both -/
theorem C11_witness_two_sources_agreeing :
    (Oracle.runTxsN nwState [nwTx 0 "20" 200, nwTx 1 "20" 200, nwTx 2 "20" 200]).2 = [.ok, .ok, .ok] ∧
    ((Oracle.runTxsN nwState [nwTx 0 "20" 200, nwTx 1 "20" 200, nwTx 2 "20" 200]).1.agc.bind
      (fun g => Oracle.alookup 1 g.workers)).map (fun w => (w.sealed, w.price.isSome)) = some (true, true) := by
  refine ⟨by decide, by decide⟩

/-- **a panic inside `Median` is a rejected transaction** (C11: "ends as a rejected transaction"): whenever a message
of a transaction fails — with an error or with a panic recovered by baseapp.runTx, in particular `.panic "median-nil"`
— the store is exactly what the ante handler left (the sender's oracle nonces): prices, parameters and the replay log
are those of the state before the transaction -/
theorem C11_median_nil_panic_is_rejection (s : Oracle.State) (tx : Oracle.Tx) (i : Nat) (e : Oracle.MsgErr)
    (h : (Oracle.deliverTxN s tx).2 = .msg i e) :
    ∃ st, Oracle.anteHandle s tx = .ok st ∧ (Oracle.deliverTxN s tx).1.store = st ∧
      st.prices = s.store.prices ∧ st.params = s.store.params ∧ st.recentMsgs = s.store.recentMsgs ∧
      st.recentParams = s.store.recentParams :=
  Oracle.deliverTxN_failed_store s tx i e h

/-- the nil-aware DeliverTx that the driver replays against the application is the DeliverTx of `Model/Oracle.lean`
(about which the C12–C14 theorems speak) on every transaction that meets no nil slot at aggregation time -/
theorem C11_median_nil_layer_agrees (s : Oracle.State) (tx : Oracle.Tx) (h : Oracle.AgreeTx s tx) :
    Oracle.deliverTxN s tx = Oracle.deliverTx s tx :=
  Oracle.deliverTxN_eq s tx h

/-! ## parallel slices -/

/-- x/operator/keeper/consensus_keys.go: GetOperatorsForChainID, the iterator loop: an entry whose key unwraps
(`wrappedKey != nil`) is appended to `addrs` AND to `pubKeys` in the same block; any other entry to neither -/
def appendBoth {α β : Type} (acc : List α × List β) : Option (α × β) → List α × List β
  | some (a, b) => (acc.1 ++ [a], acc.2 ++ [b])
  | none => acc

def getOperatorsForChainID {α β : Type} (entries : List (Option (α × β))) : List α × List β :=
  entries.foldl appendBoth ([], [])

theorem appendBoth_fold_len {α β : Type} (entries : List (Option (α × β))) (acc : List α × List β)
    (h : acc.1.length = acc.2.length) :
    (entries.foldl appendBoth acc).1.length = (entries.foldl appendBoth acc).2.length := by
  induction entries generalizing acc with
  | nil => exact h
  | cons e rest ih =>
    simp only [List.foldl_cons]
    apply ih
    cases e with
    | none => exact h
    | some p => obtain ⟨a, b⟩ := p; simp [appendBoth, h]

theorem getOperatorsForChainID_len {α β : Type} (entries : List (Option (α × β))) :
    (getOperatorsForChainID entries).1.length = (getOperatorsForChainID entries).2.length :=
  appendBoth_fold_len entries ([], []) rfl

/-- GetActiveOperatorsForChainID: `for i, operator := range operatorsAddr { if k.IsActive(operator) { activeOperator =
append(activeOperator, operator); activePks = append(activePks, pks[i]) } }`; `none` = `pks[i]` out of range -/
def getActiveLoop {α β : Type} (active : α → Bool) (pks : List β) : Nat → List α → List α × List β → Option (List α × List β)
  | _, [], acc => some acc
  | i, op :: rest, acc =>
    if active op then
      match pks[i]? with
      | none => none
      | some pk => getActiveLoop active pks (i + 1) rest (acc.1 ++ [op], acc.2 ++ [pk])
    else getActiveLoop active pks (i + 1) rest acc

def getActiveOperatorsForChainID {α β : Type} (active : α → Bool) (entries : List (Option (α × β))) : Option (List α × List β) :=
  getActiveLoop active (getOperatorsForChainID entries).2 0 (getOperatorsForChainID entries).1 ([], [])

theorem getActiveLoop_ok {α β : Type} (active : α → Bool) (pks : List β) (ops : List α) (i : Nat) (acc : List α × List β)
    (hlen : i + ops.length ≤ pks.length) (hacc : acc.1.length = acc.2.length) :
    ∃ r, getActiveLoop active pks i ops acc = some r ∧ r.1.length = r.2.length := by
  induction ops generalizing i acc with
  | nil => exact ⟨acc, rfl, hacc⟩
  | cons op rest ih =>
    simp only [List.length_cons] at hlen
    unfold getActiveLoop
    by_cases ha : active op = true
    · have hi : i < pks.length := by omega
      simp only [ha, if_true, List.getElem?_eq_getElem hi]
      exact ih (i + 1) _ (by omega) (by simp [hacc])
    · simp only [ha]
      exact ih (i + 1) acc (by omega) hacc

/-- `pks[i]` never panics and the two results have equal length -/
theorem C11_site_GetActiveOperators_in_range {α β : Type} (active : α → Bool) (entries : List (Option (α × β))) :
    ∃ r, getActiveOperatorsForChainID active entries = some r ∧ r.1.length = r.2.length := by
  unfold getActiveOperatorsForChainID
  exact getActiveLoop_ok active _ _ 0 ([], []) (by rw [getOperatorsForChainID_len]; omega) rfl

/-- x/operator/keeper/usd_value.go: GetVotePowerForChainID: one `ret = append(ret, …)` per operator, or the error of
GetOperatorOptedUSDValue is returned -/
def votePowers {α ε : Type} (f : α → Except ε Int) : List α → List Int → Except ε (List Int)
  | [], acc => .ok acc
  | op :: rest, acc => match f op with
    | .error e => .error e
    | .ok p => votePowers f rest (acc ++ [p])

theorem votePowers_len {α ε : Type} (f : α → Except ε Int) (ops : List α) (acc r : List Int)
    (h : votePowers f ops acc = .ok r) : r.length = acc.length + ops.length := by
  induction ops generalizing acc with
  | nil => simp only [votePowers, Except.ok.injEq] at h; subst h; simp
  | cons op rest ih =>
    unfold votePowers at h
    cases hf : f op with
    | error e => rw [hf] at h; cases h
    | ok p => rw [hf] at h; have := ih _ h; simp at this ⊢; omega

/-- reads `xs[idx]` for every idx of `indices`; `none` = out of range -/
def readAll {γ : Type} (xs : List γ) : List Nat → Option (List γ)
  | [] => some []
  | i :: rest => match xs[i]?, readAll xs rest with
    | some x, some r => some (x :: r)
    | _, _ => none

theorem readAll_ok {γ : Type} (xs : List γ) (indices : List Nat) (h : ∀ i ∈ indices, i < xs.length) :
    ∃ r, readAll xs indices = some r ∧ r.length = indices.length := by
  induction indices with
  | nil => exact ⟨[], rfl, rfl⟩
  | cons i rest ih =>
    obtain ⟨r, hr, hl⟩ := ih (fun j hj => h j (by simp [hj]))
    have hi : i < xs.length := h i (by simp)
    refine ⟨xs[i] :: r, ?_, by simp [hl]⟩
    simp [readAll, List.getElem?_eq_getElem hi, hr]

/-- utils/utils.go: SortByPower. `indices` is created as [0, len(powers)) (`indices[i] = i`) and then only permuted
(sort.Slice swaps elements; its comparator reads `powers[indices[i]]`, `operatorAddrs[indices[i]]`); the result
slices are `make`d with the lengths of the inputs and written at 0 … len(indices)-1 with the inputs read at
`indices[i]`. `none` = some index out of range. (Returned: the written prefixes; under the hypotheses of the
theorem below they are the whole slices.) -/
def sortByPower {α β : Type} (ops : List α) (keys : List β) (powers : List Int) (indices : List Nat) :
    Option (List α × List β × List Int) :=
  if indices.length ≤ ops.length ∧ indices.length ≤ keys.length ∧ indices.length ≤ powers.length then
    match readAll ops indices, readAll keys indices, readAll powers indices with
    | some a, some b, some c => some (a, b, c)
    | _, _, _ => none
  else none

theorem perm_range_bound (n : Nat) (indices : List Nat) (hp : indices.Perm (List.range n)) :
    indices.length = n ∧ ∀ i ∈ indices, i < n := by
  refine ⟨by rw [hp.length_eq, List.length_range], fun i hi => ?_⟩
  exact List.mem_range.mp (hp.mem_iff.mp hi)

/-- with three input slices of equal length every read `X[indices[i]]` (comparator and copy loop) and every write
`sortedX[i]` of SortByPower is in range, for EVERY order the sort may leave `indices` in, and the three results
have that same length -/
theorem C11_site_SortByPower_in_range {α β : Type} (ops : List α) (keys : List β) (powers : List Int) (indices : List Nat)
    (hp : indices.Perm (List.range powers.length)) (ho : ops.length = powers.length) (hk : keys.length = powers.length) :
    (∀ i ∈ indices, i < powers.length ∧ i < ops.length ∧ i < keys.length) ∧
    ∃ r, sortByPower ops keys powers indices = some r ∧
      r.1.length = powers.length ∧ r.2.1.length = powers.length ∧ r.2.2.length = powers.length := by
  obtain ⟨hl, hb⟩ := perm_range_bound _ _ hp
  refine ⟨fun i hi => ⟨hb i hi, by rw [ho]; exact hb i hi, by rw [hk]; exact hb i hi⟩, ?_⟩
  obtain ⟨a, ha, hal⟩ := readAll_ok ops indices (fun i hi => by rw [ho]; exact hb i hi)
  obtain ⟨b, hb', hbl⟩ := readAll_ok keys indices (fun i hi => by rw [hk]; exact hb i hi)
  obtain ⟨c, hc, hcl⟩ := readAll_ok powers indices hb
  refine ⟨(a, b, c), ?_, by rw [hal, hl], by rw [hbl, hl], by rw [hcl, hl]⟩
  unfold sortByPower
  have : indices.length ≤ ops.length ∧ indices.length ≤ keys.length ∧ indices.length ≤ powers.length := by omega
  simp [this, ha, hb', hc]

/-- x/dogfood/keeper/abci.go: EndBlock, the part that builds `operators, keys, powers`: GetActiveOperatorsForChainID,
GetVotePowerForChainID (an error is logged and EndBlock returns), SortByPower with whatever permutation the sort
produces. Outer `none` = an index panic; inner `none` = the logged error. -/
def dogfoodSlices {α β ε : Type} (active : α → Bool) (f : α → Except ε Int) (sorted : List Int → List Nat)
    (entries : List (Option (α × β))) : Option (Option (List α × List β × List Int)) :=
  match getActiveOperatorsForChainID active entries with
  | none => none
  | some (ops, keys) =>
    match votePowers f ops [] with
    | .error _ => some none
    | .ok powers => (sortByPower ops keys powers (sorted powers)).map some

/-- dogfood EndBlock never indexes out of range while building its validator candidates, and the loop
`for i := range operators { … powers[i] … keys[i] … }` stays inside all three slices -/
theorem C11_site_dogfood_EndBlock_in_range {α β ε : Type} (active : α → Bool) (f : α → Except ε Int) (sorted : List Int → List Nat)
    (hs : ∀ powers, (sorted powers).Perm (List.range powers.length)) (entries : List (Option (α × β))) :
    ∃ r, dogfoodSlices active f sorted entries = some r ∧
      ∀ o k p, r = some (o, k, p) → ∀ i, i < o.length → i < p.length ∧ i < k.length := by
  obtain ⟨⟨ops, keys⟩, hr, hlen⟩ := C11_site_GetActiveOperators_in_range (β := β) active entries
  unfold dogfoodSlices
  rw [hr]
  simp only []
  cases hv : votePowers f ops [] with
  | error e => exact ⟨none, rfl, fun o k p h => by cases h⟩
  | ok powers =>
    have hpl : powers.length = ops.length := by have := votePowers_len f ops [] powers hv; simpa using this
    obtain ⟨_, r, hsr, h1, h2, h3⟩ := C11_site_SortByPower_in_range ops keys powers (sorted powers) (hs powers)
      hpl.symm (by simp only [] at hlen; omega)
    refine ⟨some r, by simp [hsr], ?_⟩
    intro o k p h i hi
    injection h with h; subst h
    simp only [] at *
    omega

example : dogfoodSlices (β := Nat) (ε := Unit) (fun a : Nat => a != 2) (fun a => .ok (Int.ofNat a * 10)) (fun p => (List.range p.length).reverse)
    [some (1, 11), none, some (2, 12), some (3, 13)] = some (some ([3, 1], [13, 11], [30, 10])) := by decide

/-! ### the length models above are the code: the statements of the five functions that mention the slices (and
every return / break / continue), regenerated from the Go sources (tools/exofacts/facts_siteguards.go:
mentionShape). A new write of one of the slices, an append that is no longer paired, a `continue` before an
append, a changed loop or a changed `make` length changes these lists. -/

theorem C11_tie_sliceShape_SortByPower : ExoVerif.Gen.sliceShape_SortByPower = [
  "indices := make([]int, len(powers))",
  "for i := range indices {",
  "indices[i] = i",
  "}",
  "sort.Slice(indices, func(i, j int) bool {…})",
  "func {",
  "if powers[indices[i]] == powers[indices[j]] {",
  "return bytes.Compare(operatorAddrs[indices[i]], operatorAddrs[indices[j]]) < 0",
  "}",
  "return powers[indices[i]] > powers[indices[j]]",
  "}",
  "sortedOperatorAddrs := make([]sdk.AccAddress, len(operatorAddrs))",
  "sortedPubKeys := make([]keytypes.WrappedConsKey, len(pubKeys))",
  "sortedPowers := make([]int64, len(powers))",
  "for i, idx := range indices {",
  "sortedOperatorAddrs[i] = operatorAddrs[idx]",
  "sortedPubKeys[i] = pubKeys[idx]",
  "sortedPowers[i] = powers[idx]",
  "}",
  "return sortedOperatorAddrs, sortedPubKeys, sortedPowers"] := by rfl

theorem C11_tie_sliceShape_GetOperatorsForChainID : ExoVerif.Gen.sliceShape_GetOperatorsForChainID = [
  "if isAvs, _ := k.avsKeeper.IsAVSByChainID(ctx, chainID); !isAvs {",
  "return nil, nil",
  "}",
  "var addrs []sdk.AccAddress",
  "var pubKeys []keytypes.WrappedConsKey",
  "for ; iterator.Valid(); iterator.Next() {",
  "if wrappedKey != nil {",
  "addrs = append(addrs, addr)",
  "pubKeys = append(pubKeys, wrappedKey)",
  "}",
  "}",
  "return addrs, pubKeys"] := by rfl

theorem C11_tie_sliceShape_GetActiveOperatorsForChainID : ExoVerif.Gen.sliceShape_GetActiveOperatorsForChainID = [
  "if !isAvs {",
  "return nil, nil",
  "}",
  "operatorsAddr, pks := k.GetOperatorsForChainID(ctx, chainID)",
  "activeOperator := make([]sdk.AccAddress, 0)",
  "activePks := make([]keytypes.WrappedConsKey, 0)",
  "for i, operator := range operatorsAddr {",
  "if k.IsActive(ctx, operator, avsAddrString) {",
  "activeOperator = append(activeOperator, operator)",
  "activePks = append(activePks, pks[i])",
  "}",
  "}",
  "return activeOperator, activePks"] := by rfl

theorem C11_tie_sliceShape_GetVotePowerForChainID : ExoVerif.Gen.sliceShape_GetVotePowerForChainID = [
  "if !isAvs {",
  "return nil, operatortypes.ErrUnknownChainID.Wrapf(\"GetVotePowerForChainID: chainIDWithoutRevision is %s\", chainIDWithoutRevision)",
  "}",
  "ret := make([]int64, 0)",
  "for _, operator := range operators {",
  "if err != nil {",
  "return nil, err",
  "}",
  "ret = append(ret, optedUSDValues.ActiveUSDValue.TruncateInt64())",
  "}",
  "return ret, nil"] := by rfl

theorem C11_tie_sliceShape_dogfoodEndBlock : ExoVerif.Gen.sliceShape_dogfoodEndBlock = [
  "if !k.IsEpochEnd(ctx) {",
  "return []abci.ValidatorUpdate{}",
  "}",
  "for _, validator := range prevList {",
  "if err != nil {",
  "continue",
  "}",
  "}",
  "operators, keys := k.operatorKeeper.GetActiveOperatorsForChainID(ctx, chainIDWithoutRevision)",
  "powers, err := k.operatorKeeper.GetVotePowerForChainID(ctx, operators, chainIDWithoutRevision)",
  "if err != nil {",
  "return []abci.ValidatorUpdate{}",
  "}",
  "operators, keys, powers = utils.SortByPower(operators, keys, powers)",
  "k.Logger(ctx).Info(\"max validators\", \"maxVals\", maxVals, \"len(operators)\", len(operators))",
  "for i := range operators {",
  "if i >= int(maxVals) {",
  "break",
  "}",
  "power := powers[i]",
  "if power < 1 {",
  "break",
  "}",
  "wrappedKey := keys[i]",
  "}",
  "return k.ApplyValidatorChanges(ctx, res)"] := by rfl

/-! ## validated parameters. The divisions `delta % feeder.Interval`, `delta / feeder.Interval` of x/oracle
PrepareRoundEndBlock (EndBlock), the index `p.Tokens[v.TokenID]` of Params.GetTokenInfo and the
`sdk.NewCoin(params.MintDenom, params.EpochReward)` of the x/exomint epoch hook (BeginBlock) have no local guard: they
rely on the stored parameters having passed validation (oracle: `Params.Validate` in the genesis validation and in
MsgUpdateParams before SetParams; RegisterNewTokenAndSetTokenFeeder appends a feeder with interval ≥ 1 for the token
it has just appended; exomint: `Params.Validate` in the genesis validation and in UpdateParams after
OverrideIfRequired). What the validators guarantee is regenerated from their source as Bool kernels (the conditions
that dominate their `return nil` / the end of the validating loop body, tools/exofacts/facts_siteguards.go) and shown
here, for all values, to imply the operand condition of the site. PrepareRoundEndBlock skips feeder 0 just like
the validating loop does (`feederID == 0 → continue` is part of the site's own guard string). -/

/-- x/oracle/types/params.go: a TokenFeeder that passes validate() has Interval ≥ 1 (and TokenID ≥ 1) -/
theorem C11_site_feeder_validate_interval (f_EndBlock : Int) (f_Interval : Int) (f_StartBaseBlock : Int) (f_StartRoundID : Int) (f_TokenID : Int)
    (h : ExoVerif.Gen.validOk_TokenFeeder_validate f_EndBlock f_Interval f_StartBaseBlock f_StartRoundID f_TokenID = true) :
    f_Interval ≠ 0 ∧ 1 ≤ f_TokenID := by
  unfold ExoVerif.Gen.validOk_TokenFeeder_validate at h
  simp only [Bool.and_eq_true, Bool.or_eq_true, Bool.not_eq_true', Bool.not_eq_eq_eq_not, Bool.not_true, Bool.not_false,
    decide_eq_true_eq, decide_eq_false_iff_not, beq_iff_eq, bne_iff_ne, ne_eq, beq_eq_false_iff_ne, bne_eq_false_iff_eq,
    Bool.not_not, Decidable.not_not, Bool.or_eq_false_iff, Bool.and_eq_false_iff] at h
  omega

/-- x/oracle/types/params.go: every feeder other than the reserved feeder 0 that Params.Validate lets through has a non-zero Interval and refers to an existing token -/
theorem C11_site_params_validate_feeder (fID : Int) (feeder_EndBlock : Int) (feeder_Interval : Int) (feeder_RuleID : Int) (feeder_StartBaseBlock : Int) (feeder_StartRoundID : Int) (feeder_TokenID : Int) (len_p_Rules : Int) (len_p_TokenFeeders : Int) (len_p_Tokens : Int) (p_MaxDetId : Int) (p_MaxNonce : Int) (p_MaxSizePrices : Int) (p_Mode : Int) (p_ThresholdA : Int) (p_ThresholdB : Int) (err_isNil : Bool)
    (h : ExoVerif.Gen.validPass_Params_Validate_TokenFeeders fID feeder_EndBlock feeder_Interval feeder_RuleID feeder_StartBaseBlock feeder_StartRoundID feeder_TokenID len_p_Rules len_p_TokenFeeders len_p_Tokens p_MaxDetId p_MaxNonce p_MaxSizePrices p_Mode p_ThresholdA p_ThresholdB err_isNil = true) :
    feeder_Interval ≠ 0 ∧ 0 ≤ feeder_TokenID ∧ feeder_TokenID < len_p_Tokens := by
  unfold ExoVerif.Gen.validPass_Params_Validate_TokenFeeders at h
  simp only [Bool.and_eq_true, Bool.or_eq_true, Bool.not_eq_true', Bool.not_eq_eq_eq_not, Bool.not_true, Bool.not_false,
    decide_eq_true_eq, decide_eq_false_iff_not, beq_iff_eq, bne_iff_ne, ne_eq, beq_eq_false_iff_ne, bne_eq_false_iff_eq,
    Bool.not_not, Decidable.not_not, Bool.or_eq_false_iff, Bool.and_eq_false_iff] at h
  omega

/-- x/exomint/types/params.go: an EpochReward that passes ValidateEpochReward is not negative -/
theorem C11_site_epoch_reward_nonneg (v : Int) (ok_flag : Bool)
    (h : ExoVerif.Gen.validOk_ValidateEpochReward v ok_flag = true) :
    0 ≤ v := by
  unfold ExoVerif.Gen.validOk_ValidateEpochReward at h
  simp only [Bool.and_eq_true, Bool.or_eq_true, Bool.not_eq_true', Bool.not_eq_eq_eq_not, Bool.not_true, Bool.not_false,
    decide_eq_true_eq, decide_eq_false_iff_not, beq_iff_eq, bne_iff_ne, ne_eq, beq_eq_false_iff_ne, bne_eq_false_iff_eq,
    Bool.not_not, Decidable.not_not, Bool.or_eq_false_iff, Bool.and_eq_false_iff] at h
  omega

example : ExoVerif.Gen.validOk_TokenFeeder_validate 0 10 1 1 1 = true := by decide
example : ExoVerif.Gen.validOk_ValidateEpochReward 20 true = true := by decide

/-! ## F-11c (open defect, replayed on the application by harness/dom_liveness_nst.go): x/oracle parseBalanceChange
indexes `changes[byteIndex]` and `sl.StakerAddrs[index]` without bounds checks; its input is the stored price
string of an NST token, re-parsed in EndBlock whenever a round fails (module.go EndBlock → GrowRoundID →
AppendPriceTR → UpdateNSTByBalanceChange). A stored price is a base-10 string: ASCII digits are 0011xxxx, so every
price with 32 or more digits flags staker indexes 2, 3, 10, 11, … Model: Model/NstBitmap.lean (it reproduces the
two vectors of the repository's own test: -1, and -1 / -33). -/

-- the model on the balance-change vectors the repository's tests use
set_option maxRecDepth 4000 in
example : NstBitmap.parseBalanceChange ([0x80] ++ List.replicate 31 0 ++ [0x18, 0, 0]) 1 = .ok [(0, -1)] := by decide
set_option maxRecDepth 4000 in
example : NstBitmap.parseBalanceChange ([0xC0] ++ List.replicate 31 0 ++ [0x19, 0xB0, 0, 0, 0]) 2 = .ok [(0, -1), (1, -33)] := by decide

/-- F-11c, first history of the harness: the stored price 10^31 (32 digits, no change bytes) with one staker:
`changes[0]` on an empty slice -/
theorem C11_witness_nst_bitmap_no_changes :
    NstBitmap.asciiDigits (10 ^ 31) = 49 :: List.replicate 31 48 ∧
    NstBitmap.updateNSTByBalanceChange (NstBitmap.asciiDigits (10 ^ 31)) 1 = .panic := by decide

/-- F-11c, second history: a 33-digit price after the staker list shrank to one entry: `sl.StakerAddrs[2]` -/
theorem C11_witness_nst_bitmap_short_list :
    NstBitmap.updateNSTByBalanceChange (NstBitmap.asciiDigits (10 ^ 32)) 1 = .panic ∧
    NstBitmap.oneChange false ((NstBitmap.asciiDigits (10 ^ 32)).drop 32) ⟨0, 0⟩ ≠ .panic := by decide

/-- before a staker exists (and for every price shorter than 32 bytes) the same call only returns an error — which
is how the fatal price gets stored in the first place -/
theorem C11_nst_bitmap_logged_before_first_staker (raw : List Nat) :
    NstBitmap.updateNSTByBalanceChange raw 0 = .err := by
  unfold NstBitmap.updateNSTByBalanceChange; split <;> simp

/-! with the bounds checks of the proposed patch (every access preceded by `if i >= len(x) { return err }`) no
input makes the parse panic -/

theorem extract_checked (changes : List Nat) (lv : Nat) (fuel : Nat) (c : NstBitmap.Cur) (e acc : Nat) :
    NstBitmap.extract true changes lv fuel c e acc ≠ NstBitmap.Res.panic := by
  induction fuel generalizing c e acc with
  | zero => simp [NstBitmap.extract]
  | succ n ih =>
    unfold NstBitmap.extract
    split
    · split
      · simp [NstBitmap.oob]
      · simp only []
        split
        · exact ih _ _ _
        · exact ih _ _ _
    · simp

theorem oneChange_checked (changes : List Nat) (c : NstBitmap.Cur) : NstBitmap.oneChange true changes c ≠ NstBitmap.Res.panic := by
  unfold NstBitmap.oneChange
  split
  · simp [NstBitmap.oob]
  · simp only []
    split
    · rename_i h; revert h; split
      · split <;> simp [NstBitmap.oob]
      · simp
    · simp
    · split
      · simp
      · split
        · rename_i heq; exact absurd heq (extract_checked changes _ 16 _ 0 0)
        · simp
        · simp

theorem scanBits_checked (changes : List Nat) (n : Nat) (bits : List Bool) (i : Nat) (c : NstBitmap.Cur) (acc : List (Nat × Int)) :
    NstBitmap.scanBits true changes n bits i c acc ≠ NstBitmap.Res.panic := by
  induction bits generalizing i c acc with
  | nil => simp [NstBitmap.scanBits]
  | cons b rest ih =>
    unfold NstBitmap.scanBits
    split
    · have := oneChange_checked changes c
      split
      · simp_all
      · simp
      · split
        · exact ih _ _ _
        · simp [NstBitmap.oob]
    · exact ih _ _ _

/-- the proposed repair is sufficient: for ALL raw data and staker lists the checked parse returns a value or an
error, never panics -/
theorem C11_nst_bitmap_checked_never_panics (rawData : List Nat) (nStakers : Nat) :
    NstBitmap.parseBalanceChangeWith true rawData nStakers ≠ .panic :=
  scanBits_checked _ _ _ _ _ _

/-! ## joined store keys: the unchecked `keys[1]` after `ParseJoinedKey(iterator.Key())` (ParseJoinedKey splits at
utils.DelimiterForCombinedKey and, unlike ParseJoinedStoreKey, does not check the number of parts) in
x/operator IterateOperatorsForAVS and x/assets IterateAssetsForOperator (both reached from the epoch hooks / the slash
path in BeginBlock). `strings.Split` with a one-byte separator yields (number of separator bytes) + 1 parts
(`splitOn1_len`), so `keys[1]` is in range as soon as the key contains one separator:
* IterateOperatorsForAVS iterates `sdk.KVStorePrefixIterator(store, IterateOperatorsForAVSPrefix(avsAddr))` and that
  prefix is `append([]byte(avsAddr), '/')`: every key the iterator yields starts with it [contract of the prefix
  iterator] and therefore contains the separator (`C11_site_avs_prefix_key_two_parts`, for every avsAddr and rest);
* IterateAssetsForOperator iterates with the bare operator address as prefix, so it relies on the keys of the store
  `KeyPrefixOperatorAssetInfos`: the regenerated writer inventory (`storeKeyWriters_OperatorAssetInfos`: every function
  that mentions the prefix, with its Set calls) shows two writers, `store.Set(GetJoinedStoreKey(operator, assetID))` and the
  re-write `store.Set(iterator.Key())` of a key that is already there; over every history of these two operations every key
  contains the separator (`C11_site_operator_asset_keys_two_parts`).
The byte model of Split / Join is hand-written (examples below); the statements it mirrors are tied by regenerated
statement shapes, the separator by `delimiterForCombinedKey`. -/

/-- strings.Split(s, sep) for a one-byte separator, on the bytes of s (`cur` = the part being read, reversed) -/
def splitOn1 (sep : Nat) : List Nat → List Nat → List (List Nat)
  | cur, [] => [cur.reverse]
  | cur, c :: cs => if c = sep then cur.reverse :: splitOn1 sep [] cs else splitOn1 sep (c :: cur) cs

/-- strings.Join(parts, sep) for a one-byte separator -/
def joinKeys (sep : Nat) : List (List Nat) → List Nat
  | [] => []
  | [a] => a
  | a :: b :: r => a ++ sep :: joinKeys sep (b :: r)

theorem splitOn1_len (sep : Nat) (s cur : List Nat) : (splitOn1 sep cur s).length = s.count sep + 1 := by
  induction s generalizing cur with
  | nil => simp [splitOn1]
  | cons c cs ih =>
    unfold splitOn1
    by_cases h : c = sep
    · subst h; simp [ih]
    · simp [h, ih]

theorem split_two_of_mem (sep : Nat) (s : List Nat) (h : sep ∈ s) : 2 ≤ (splitOn1 sep [] s).length := by
  rw [splitOn1_len]
  have := List.count_pos_iff.mpr h
  omega

example : splitOn1 47 [] [101, 120, 111, 49, 47, 48, 120, 97, 95, 48, 120, 54, 53] = [[101, 120, 111, 49], [48, 120, 97, 95, 48, 120, 54, 53]] := by decide
example : splitOn1 47 [] [] = [[]] := by decide
example : joinKeys 47 [[1, 2], [3]] = [1, 2, 47, 3] := by decide

/-- x/operator/keeper/usd_value.go: IterateOperatorsForAVS: a key that starts with `append([]byte(avsAddr), sep)` splits into
at least two parts -/
theorem C11_site_avs_prefix_key_two_parts (sep : Nat) (avsAddr rest : List Nat) :
    2 ≤ (splitOn1 sep [] ((avsAddr ++ [sep]) ++ rest)).length :=
  split_two_of_mem sep _ (by simp)

/-- the two writers of the store KeyPrefixOperatorAssetInfos (x/assets/keeper/operator_asset.go, see
`C11_tie_storeKeyWriters_OperatorAssetInfos`): UpdateOperatorAssetState sets GetJoinedStoreKey(operator, assetID);
IterateAssetsForOperator (isUpdate) sets the key the iterator is standing on -/
inductive AssetStoreOp where
  | update (operator assetID : List Nat)
  | rewrite (i : Nat)

/-- the keys of the store after one write (as a list: a repeated key does not matter for the property) -/
def assetStoreStep (sep : Nat) (keys : List (List Nat)) : AssetStoreOp → List (List Nat)
  | .update o a => joinKeys sep [o, a] :: keys
  | .rewrite i => match keys[i]? with
    | some k => k :: keys
    | none => keys

theorem assetStore_inv (sep : Nat) (ops : List AssetStoreOp) (keys : List (List Nat)) (h : ∀ k ∈ keys, sep ∈ k) :
    ∀ k ∈ ops.foldl (assetStoreStep sep) keys, sep ∈ k := by
  induction ops generalizing keys with
  | nil => exact h
  | cons op rest ih =>
    simp only [List.foldl_cons]
    apply ih
    cases op with
    | update o a =>
      intro k hk
      simp only [assetStoreStep, List.mem_cons] at hk
      rcases hk with rfl | hk
      · simp [joinKeys]
      · exact h k hk
    | rewrite i =>
      simp only [assetStoreStep]
      split
      · rename_i k0 hk0
        intro k hk
        rcases List.mem_cons.mp hk with rfl | hk
        · exact h _ (List.mem_of_getElem? hk0)
        · exact h k hk
      · exact h

/-- x/assets/keeper/operator_asset.go: IterateAssetsForOperator: over every history of writes every key of the store splits
into at least two parts, whatever bytes the operator address and the asset id consist of -/
theorem C11_site_operator_asset_keys_two_parts (sep : Nat) (ops : List AssetStoreOp) :
    ∀ k ∈ ops.foldl (assetStoreStep sep) [], 2 ≤ (splitOn1 sep [] k).length :=
  fun k hk => split_two_of_mem sep k (assetStore_inv sep ops [] (by simp) k hk)

theorem C11_tie_delimiter : Gen.delimiterForCombinedKey = "/" ∧ "/".toList.map Char.toNat = [47] := by decide

theorem C11_tie_sliceShape_IterateOperatorsForAVS : ExoVerif.Gen.sliceShape_IterateOperatorsForAVS = [
  "iterator := sdk.KVStorePrefixIterator(store, operatortypes.IterateOperatorsForAVSPrefix(avsAddr))",
  "defer iterator.Close()",
  "for ; iterator.Valid(); iterator.Next() {",
  "keys, err := assetstype.ParseJoinedKey(iterator.Key())",
  "if err != nil {",
  "return err",
  "}",
  "k.cdc.MustUnmarshal(iterator.Value(), &optedUSDValues)",
  "err = opFunc(keys[1], &optedUSDValues)",
  "if err != nil {",
  "return err",
  "}",
  "if isUpdate {",
  "store.Set(iterator.Key(), bz)",
  "}",
  "}",
  "return nil"] := by rfl

theorem C11_tie_sliceShape_IterateOperatorsForAVSPrefix : ExoVerif.Gen.sliceShape_IterateOperatorsForAVSPrefix = [
  "tmp := append([]byte(avsAddr), '/')",
  "return tmp"] := by rfl

theorem C11_tie_sliceShape_ParseJoinedKey : ExoVerif.Gen.sliceShape_ParseJoinedKey = [
  "stringList := strings.Split(string(key), utils.DelimiterForCombinedKey)",
  "return stringList, nil"] := by rfl

theorem C11_tie_sliceShape_GetJoinedStoreKey : ExoVerif.Gen.sliceShape_GetJoinedStoreKey = [
  "return []byte(strings.Join(keys, utils.DelimiterForCombinedKey))"] := by rfl

theorem C11_tie_sliceShape_IterateAssetsForOperator : ExoVerif.Gen.sliceShape_IterateAssetsForOperator = [
  "store := prefix.NewStore(ctx.KVStore(k.storeKey), assetstype.KeyPrefixOperatorAssetInfos)",
  "iterator := sdk.KVStorePrefixIterator(store, []byte(operator))",
  "defer iterator.Close()",
  "for ; iterator.Valid(); iterator.Next() {",
  "k.cdc.MustUnmarshal(iterator.Value(), &amounts)",
  "keys, err := assetstype.ParseJoinedKey(iterator.Key())",
  "if err != nil {",
  "return err",
  "}",
  "if assetsFilter != nil {",
  "if _, ok := assetsFilter[keys[1]]; !ok {",
  "continue",
  "}",
  "}",
  "err = opFunc(keys[1], &amounts)",
  "if err != nil {",
  "return err",
  "}",
  "if isUpdate {",
  "store.Set(iterator.Key(), bz)",
  "}",
  "}",
  "return nil"] := by rfl

theorem C11_tie_storeKeyWriters_OperatorAssetInfos : ExoVerif.Gen.storeKeyWriters_OperatorAssetInfos = [
  "x/assets/keeper/operator_asset.go:Keeper.AllOperatorAssets:no Set",
  "x/assets/keeper/operator_asset.go:Keeper.GetOperatorSpecifiedAssetInfo:no Set",
  "x/assets/keeper/operator_asset.go:Keeper.IsOperatorAssetExist:no Set",
  "x/assets/keeper/operator_asset.go:Keeper.IterateAssetsForOperator:store.Set(iterator.Key())",
  "x/assets/keeper/operator_asset.go:Keeper.UpdateOperatorAssetState:store.Set(key) <= key := assetstype.GetJoinedStoreKey(operatorAddr.String(), assetID)"] := by rfl


/-! ## x/oracle Cache.AddCache: `panic("no other types are support")` in the `default:` clause of the type switch over
its `any` parameter. Regenerated: the case types of the switch and, for every call of a method named AddCache in the
repository (by name; non-test files), the static type of the argument (tools/exofacts/facts_sitecallers.go: a
conversion `T(x)`, `&T{…}`, or a local defined once by one of those). Every caller passes one of the case types, so
the default clause is unreachable; a new caller with another (or an unnameable) argument type, or a removed case,
breaks the theorem. -/
theorem C11_guard_AddCache_default_unreachable :
    Gen.typeSwitchCallers_AddCache ≠ [] ∧
    Gen.typeSwitchCallers_AddCache.all (fun c => Gen.typeSwitchCases_AddCache.contains c.2) = true := by
  decide


end ExoVerif.Blocks
