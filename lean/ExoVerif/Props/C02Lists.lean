import ExoVerif.Props.C01
import ExoVerif.Proofs.LedgerLists
/-!
# C02 (state-machine half, second part) — shares, self-shares and staker lists through every operation

First sentence of C02: "for every operator and asset, the operator's total shares equal the sum of its
delegators' shares, its self-share equals the sum over the delegators currently associated with it,
the list of its delegators is exactly the set with non-zero shares, and shares are zero whenever the
pool amount is zero."

`Lists s` (Proofs/LedgerLists.lean) is the combined invariant
  * `ShareInv`    TotalShare = Σ delegators' shares                       (now also through a slash)
  * `OpShareInv`  OperatorShare = Σ shares of the delegators associated with the operator
  * `ListSup`     every delegator with a non-zero share is in the operator's staker list
  * `ListNodup`   a staker list holds no staker twice
  * store keys are unique (pools, delegation rows, staker lists, associations), shares and pool
    amounts are non-negative.
`C02_lists_step` / `C02_lists_reachable`: it is preserved by every operation of `LOp` (deposit, withdraw,
delegate, undelegate, associate, dissociate, hold, release, block end, slash) and hence holds after
every finite history.

`ListsExact s` adds the other half of the list clause and the bound that makes it inductive:
  * `ListSub`     every listed staker has a non-zero share (with `ListSup`: `ListInv`, list = set of
                  non-zero share holders)
  * `PriceInv`    TotalAmount ≤ TotalShare.raw for every pool — hence every accepted delegation of x > 0
                  tokens mints at least x raw shares (`delegateTo` appends the staker to the list even if
                  `CalculateShare` truncated to 0; the bound shows that this never happens).
`C02_list_exact_step` / `C02_list_exact_reachable`: preserved by every operation, so the staker list is
exactly the set of delegators with a non-zero share after every finite history.

`C02Full s` adds the last clause:
  * `ZeroPoolInv` TotalAmount = 0 ⇒ TotalShare = 0 (and then, by `ShareInv` and non-negativity, every
                  delegator's share is 0). The only delicate step is an undelegation that is not the
                  pool's last one: `TokensFromShares` (truncating quotient) pays it strictly less than
                  the pool amount (`Dec.tok_lt_amount`), so the amount stays positive while shares remain.
`C02_zero_pool_step` / `C02_zero_pool_reachable`, and `C02_clauses_reachable`: all four clauses of the
sentence after every finite history; `C02_clauses_from_empty` starts from a ledger without pools.

Regression (`C02_regression_quo_rounds_up`, `C02_regression_history`): with the earlier `Dec.quo`
(banker's rounding) in `TokensFromShares` a non-last delegator holding all but a 1/(4·10¹⁸) fraction of
the shares of a pool of amount 2 was paid the whole amount 2, leaving TotalAmount = 0 with
TotalShare = 10¹⁸ — a pool that rejects every further delegation/undelegation with ErrDivisorIsZero.
The truncating version pays 1.
-/
namespace ExoVerif.Ledger
open ExoVerif ExoVerif.KV

/-- C02, one step: the combined invariant survives every operation, accepted or rejected -/
theorem C02_lists_step (s : L) (op : LOp) (hi : Lists s) (hok : OpOk s op) : Lists (lstep s op) := by
  cases op with
  | deposit st a x =>
    simp only [lstep]; split
    · rename_i s' h; exact lists_deposit hi h
    · exact hi
  | withdraw st a x =>
    simp only [lstep]; split
    · rename_i s' h; exact lists_withdraw hi h
    · exact hi
  | delegate st a o x =>
    simp only [lstep]; split
    · rename_i s' h; exact lists_delegate hi h
    · exact hi
  | undelegate st a o x n hash =>
    simp only [lstep]; split
    · rename_i s' h; exact lists_undelegate hi h
    · exact hi
  | associate st o =>
    simp only [lstep]; split
    · rename_i s' h; exact lists_associate hi h
    · exact hi
  | dissociate st =>
    simp only [lstep]; split
    · rename_i s' h; exact lists_dissociate hi h
    · exact hi
  | hold k => exact lists_congr hi rfl rfl rfl rfl
  | release k =>
    simp only [lstep]; split
    · rename_i s' h
      unfold release at h
      simp only [] at h
      split at h
      · cases h
      · injection h with h; rw [← h]; exact lists_congr hi rfl rfl rfl rfl
    · exact hi
  | blockEnd => exact lists_endBlock hi
  | slash o inf p => exact lists_slash o inf p hi hok.1

/-- **C02 over every finite history**: total shares = Σ delegators' shares, self-share = Σ shares of the
associated delegators, every holder of a non-zero share is listed (once), after any finite
interleaving of deposits, withdrawals, delegations, undelegations, associations, dissociations, holds,
releases, block ends and slashes (each issued under `OpOk`). -/
theorem C02_lists_reachable (s : L) (ops : List LOp) (hi : Lists s) (hok : AllOk s ops) :
    Lists (ops.foldl lstep s) := by
  induction ops generalizing s with
  | nil => exact hi
  | cons op rest ih =>
    simp only [List.foldl_cons]
    obtain ⟨h1, h2⟩ := hok
    exact ih (lstep s op) (C02_lists_step s op hi h1) h2

/-- the slash step of `ShareInv` on its own (the gap left by `C02_share_sum_reachable`) -/
theorem C02_share_sum_slash (s : L) (o : OID) (inf : Nat) (p : Dec) (hi : Lists s) (hp : UnitP p) :
    ShareInv (slashAssets s o inf p) := (lists_slash o inf p hi hp).sums.share


/-! ## the list is *exactly* the set of non-zero share holders — first relative to `MintsPos` -/

/-- what `OpOk` alone does not say: an accepted delegation mints a non-zero share
(`CalculateShare` = ⌊TotalShare·x / TotalAmount⌋ at 18 decimals can truncate to 0 when one token is worth
less than 10⁻¹⁸ share; `delegateTo` then still appends the staker to the list) -/
def MintsPos (s : L) : LOp → Prop
  | .delegate _ a o x => ∀ sh, calculateShare s o a x = .ok sh → 0 < sh.raw
  | _ => True

theorem listInv_iff (s : L) : ListInv s ↔ ListSup s ∧ ListSub s :=
  ⟨fun h => ⟨fun o a st h1 => (h o a st).2 h1, fun o a st h1 => (h o a st).1 h1⟩,
   fun h o a st => ⟨h.2 o a st, h.1 o a st⟩⟩

/-- partial: "listed ⇒ non-zero share" is preserved by every operation, provided an accepted
delegation mints a non-zero share. The only operation/state that needs the proviso is
`delegate st a o x` accepted in a state where `calculateShare s o a x = 0`. -/
theorem C02_list_exact_step_partial (s : L) (op : LOp) (hi : Lists s) (hs : ListSub s) (_hok : OpOk s op)
    (hm : MintsPos s op) : ListSub (lstep s op) := by
  cases op with
  | deposit st a x =>
    simp only [lstep]; split
    · rename_i s' h; obtain ⟨_, f2, f3⟩ := deposit_frame h; exact listSub_congr hs f2 f3
    · exact hs
  | withdraw st a x =>
    simp only [lstep]; split
    · rename_i s' h; obtain ⟨_, f2, f3⟩ := withdraw_frame h; exact listSub_congr hs f2 f3
    · exact hs
  | delegate st a o x =>
    simp only [lstep]; split
    · rename_i s' h; exact listSub_delegate hi hs h hm
    · exact hs
  | undelegate st a o x n hash =>
    simp only [lstep]; split
    · rename_i s' h; exact listSub_undelegate hi hs h
    · exact hs
  | associate st o =>
    simp only [lstep]; split
    · rename_i s' h; obtain ⟨f1, f2, _⟩ := associate_frame h; exact listSub_congr hs f1 f2
    · exact hs
  | dissociate st =>
    simp only [lstep]; split
    · rename_i s' h; obtain ⟨f1, f2, _⟩ := dissociate_frame h; exact listSub_congr hs f1 f2
    · exact hs
  | hold k => exact listSub_congr hs rfl rfl
  | release k =>
    simp only [lstep]; split
    · rename_i s' h
      unfold release at h
      simp only [] at h
      split at h
      · cases h
      · injection h with h; rw [← h]; exact listSub_congr hs rfl rfl
    · exact hs
  | blockEnd => exact listSub_endBlock hs
  | slash o inf p => exact listSub_slash o inf p hi hs

/-- a side condition that holds for every operation of a history -/
def AllP (P : L → LOp → Prop) : L → List LOp → Prop
  | _, [] => True
  | s, op :: rest => P s op ∧ AllP P (lstep s op) rest

/-- the staker list is exactly the set of non-zero share holders after every finite history whose
accepted delegations all mint a non-zero share -/
theorem C02_list_exact_reachable_partial (s : L) (ops : List LOp) (hi : Lists s) (hs : ListSub s)
    (hok : AllOk s ops) (hm : AllP MintsPos s ops) : ListInv (ops.foldl lstep s) := by
  induction ops generalizing s with
  | nil => exact (listInv_iff s).2 ⟨hi.slist.sup, hs⟩
  | cons op rest ih =>
    simp only [List.foldl_cons]
    exact ih (lstep s op) (C02_lists_step s op hi hok.1) (C02_list_exact_step_partial s op hi hs hok.1 hm.1)
      hok.2 hm.2

/-! ## the list is exactly the set of non-zero share holders — in full

`MintsPos` is not an extra assumption: it follows from `PriceInv` (TotalAmount ≤ TotalShare.raw), which
is itself preserved by every operation. -/

/-- `Lists` + listed ⇒ non-zero share + the price bound -/
structure ListsExact (s : L) : Prop where
  lists : Lists s
  sub : ListSub s
  price : PriceInv s

theorem ListsExact.listInv {s : L} (h : ListsExact s) : ListInv s :=
  (listInv_iff s).2 ⟨h.lists.slist.sup, h.sub⟩

theorem C02_price_step (s : L) (op : LOp) (hi : Lists s) (hz : PriceInv s) (hok : OpOk s op) :
    PriceInv (lstep s op) := by
  cases op with
  | deposit st a x =>
    simp only [lstep]; split
    · rename_i s' h; obtain ⟨f1, _, _⟩ := deposit_frame h
      exact priceInv_congr hz (fun o a => by unfold poolShare; rw [f1]; exact ⟨rfl, rfl⟩)
    · exact hz
  | withdraw st a x =>
    simp only [lstep]; split
    · rename_i s' h; obtain ⟨f1, _, _⟩ := withdraw_frame h
      exact priceInv_congr hz (fun o a => by unfold poolShare; rw [f1]; exact ⟨rfl, rfl⟩)
    · exact hz
  | delegate st a o x =>
    simp only [lstep]; split
    · rename_i s' h; exact (priceInv_delegate hi hz h).1
    · exact hz
  | undelegate st a o x n hash =>
    simp only [lstep]; split
    · rename_i s' h; exact priceInv_undelegate hi hz h
    · exact hz
  | associate st o =>
    simp only [lstep]; split
    · rename_i s' h; exact priceInv_congr hz (associate_frame h).2.2
    · exact hz
  | dissociate st =>
    simp only [lstep]; split
    · rename_i s' h; exact priceInv_congr hz (dissociate_frame h).2.2
    · exact hz
  | hold k => exact priceInv_congr hz (fun o a => ⟨rfl, rfl⟩)
  | release k =>
    simp only [lstep]; split
    · rename_i s' h
      unfold release at h
      simp only [] at h
      split at h
      · cases h
      · injection h with h; rw [← h]; exact priceInv_congr hz (fun o a => ⟨rfl, rfl⟩)
    · exact hz
  | blockEnd => exact priceInv_endBlock hz
  | slash o inf p => exact priceInv_slash o inf p hi hz hok.1

/-- C02, list clause, one step: list = set of non-zero share holders survives every operation -/
theorem C02_list_exact_step (s : L) (op : LOp) (hi : ListsExact s) (hok : OpOk s op) :
    ListsExact (lstep s op) := by
  refine ⟨C02_lists_step s op hi.lists hok, ?_, C02_price_step s op hi.lists hi.price hok⟩
  cases op with
  | delegate st a o x =>
    simp only [lstep]; split
    · rename_i s' h
      exact listSub_delegate hi.lists hi.sub h (priceInv_delegate hi.lists hi.price h).2
    · exact hi.sub
  | deposit st a x => exact C02_list_exact_step_partial s _ hi.lists hi.sub hok trivial
  | withdraw st a x => exact C02_list_exact_step_partial s _ hi.lists hi.sub hok trivial
  | undelegate st a o x n hash => exact C02_list_exact_step_partial s _ hi.lists hi.sub hok trivial
  | associate st o => exact C02_list_exact_step_partial s _ hi.lists hi.sub hok trivial
  | dissociate st => exact C02_list_exact_step_partial s _ hi.lists hi.sub hok trivial
  | hold k => exact C02_list_exact_step_partial s _ hi.lists hi.sub hok trivial
  | release k => exact C02_list_exact_step_partial s _ hi.lists hi.sub hok trivial
  | blockEnd => exact C02_list_exact_step_partial s _ hi.lists hi.sub hok trivial
  | slash o inf p => exact C02_list_exact_step_partial s _ hi.lists hi.sub hok trivial

/-- **C02, list clause, over every finite history**: the staker list of every pool is exactly the set
of delegators with a non-zero share (and the rest of `Lists` holds) after any finite interleaving of
the ten operations issued under `OpOk`. -/
theorem C02_list_exact_reachable (s : L) (ops : List LOp) (hi : ListsExact s) (hok : AllOk s ops) :
    ListsExact (ops.foldl lstep s) ∧
    (∀ o a st, st ∈ getD (ops.foldl lstep s).slist (o, a) [] ↔
      (getD (ops.foldl lstep s).deleg (st, a, o) zeroDeleg).share.raw ≠ 0) := by
  have h : ListsExact (ops.foldl lstep s) := by
    induction ops generalizing s with
    | nil => exact hi
    | cons op rest ih =>
      simp only [List.foldl_cons]
      exact ih (lstep s op) (C02_list_exact_step s op hi hok.1) hok.2
  exact ⟨h, h.listInv⟩

/-! ## shares are zero whenever the pool amount is zero -/

/-- C02, last clause, one step: "amount = 0 ⇒ total shares = 0" survives every operation -/
theorem C02_zero_pool_step (s : L) (op : LOp) (hi : Lists s) (hz : ZeroPoolInv s) (_hok : OpOk s op) :
    ZeroPoolInv (lstep s op) := by
  cases op with
  | deposit st a x =>
    simp only [lstep]; split
    · rename_i s' h; obtain ⟨f1, _, _⟩ := deposit_frame h
      exact zeroPool_congr hz (fun o a => by unfold poolShare; rw [f1]; exact ⟨rfl, rfl⟩)
    · exact hz
  | withdraw st a x =>
    simp only [lstep]; split
    · rename_i s' h; obtain ⟨f1, _, _⟩ := withdraw_frame h
      exact zeroPool_congr hz (fun o a => by unfold poolShare; rw [f1]; exact ⟨rfl, rfl⟩)
    · exact hz
  | delegate st a o x =>
    simp only [lstep]; split
    · rename_i s' h; exact zeroPool_delegate hi hz h
    · exact hz
  | undelegate st a o x n hash =>
    simp only [lstep]; split
    · rename_i s' h; exact zeroPool_undelegate hi hz h
    · exact hz
  | associate st o =>
    simp only [lstep]; split
    · rename_i s' h; exact zeroPool_congr hz (associate_frame h).2.2
    · exact hz
  | dissociate st =>
    simp only [lstep]; split
    · rename_i s' h; exact zeroPool_congr hz (dissociate_frame h).2.2
    · exact hz
  | hold k => exact zeroPool_congr hz (fun o a => ⟨rfl, rfl⟩)
  | release k =>
    simp only [lstep]; split
    · rename_i s' h
      unfold release at h
      simp only [] at h
      split at h
      · cases h
      · injection h with h; rw [← h]; exact zeroPool_congr hz (fun o a => ⟨rfl, rfl⟩)
    · exact hz
  | blockEnd => exact zeroPool_endBlock hz
  | slash o inf p => exact zeroPool_slash o inf p hi hz

/-- **C02, last clause, over every finite history** -/
theorem C02_zero_pool_reachable (s : L) (ops : List LOp) (hi : Lists s) (hz : ZeroPoolInv s)
    (hok : AllOk s ops) : ZeroPoolInv (ops.foldl lstep s) := by
  induction ops generalizing s with
  | nil => exact hz
  | cons op rest ih =>
    simp only [List.foldl_cons]
    exact ih (lstep s op) (C02_lists_step s op hi hok.1) (C02_zero_pool_step s op hi hz hok.1) hok.2

/-- in a state of the invariant, a pool without shares has no delegator with a share: with
`ZeroPoolInv` this is "amount = 0 ⇒ every delegator's share = 0" -/
theorem C02_zero_pool_delegators (s : L) (hi : Lists s) (hz : ZeroPoolInv s) (o : OID) (a : AID)
    (h0 : (getD s.pools (o, a) zeroPool).amount = 0) (st : SID) :
    (getD s.deleg (st, a, o) zeroDeleg).share.raw = 0 :=
  zero_total_zero_shares hi.sums o a (hz o a h0) st

/-! ## all four clauses together -/

/-- the whole invariant behind the first sentence of C02 -/
structure C02Full (s : L) : Prop where
  exact : ListsExact s
  zero : ZeroPoolInv s

theorem C02_full_step (s : L) (op : LOp) (hi : C02Full s) (hok : OpOk s op) : C02Full (lstep s op) :=
  ⟨C02_list_exact_step s op hi.exact hok, C02_zero_pool_step s op hi.exact.lists hi.zero hok⟩

theorem C02_full_reachable (s : L) (ops : List LOp) (hi : C02Full s) (hok : AllOk s ops) :
    C02Full (ops.foldl lstep s) := by
  induction ops generalizing s with
  | nil => exact hi
  | cons op rest ih =>
    simp only [List.foldl_cons]
    exact ih (lstep s op) (C02_full_step s op hi hok.1) hok.2

/-- **C02, first sentence, over every finite history**: after any finite interleaving of deposits,
withdrawals, delegations, undelegations, associations, dissociations, holds, releases, block ends and
slashes (each issued under `OpOk`), for every operator `o` and asset `a`
  1. the operator's total shares equal the sum of its delegators' shares,
  2. its self-share equals the sum over the delegators currently associated with it,
  3. the list of its delegators is exactly the set with non-zero shares (and lists no one twice),
  4. if the pool amount is zero, the total shares and every delegator's share are zero. -/
theorem C02_clauses_reachable (s : L) (ops : List LOp) (hi : C02Full s) (hok : AllOk s ops) :
    let s' := ops.foldl lstep s
    (∀ o a, (getD s'.pools (o, a) zeroPool).totalShare.raw = sumP (shAt o a) s'.deleg) ∧
    (∀ o a, (getD s'.pools (o, a) zeroPool).opShare.raw = sumP (opAt s'.assoc o a) s'.deleg) ∧
    (∀ o a st, st ∈ getD s'.slist (o, a) [] ↔ (getD s'.deleg (st, a, o) zeroDeleg).share.raw ≠ 0) ∧
    (∀ o a, (getD s'.slist (o, a) []).Nodup) ∧
    (∀ o a, (getD s'.pools (o, a) zeroPool).amount = 0 →
      (getD s'.pools (o, a) zeroPool).totalShare.raw = 0 ∧
      ∀ st, (getD s'.deleg (st, a, o) zeroDeleg).share.raw = 0) := by
  have h := C02_full_reachable s ops hi hok
  refine ⟨h.exact.lists.sums.share, h.exact.lists.sums.opShare, h.exact.listInv,
    h.exact.lists.slist.nodup, ?_⟩
  intro o a h0
  exact ⟨h.zero o a h0, C02_zero_pool_delegators _ h.exact.lists h.zero o a h0⟩

theorem c02Full_empty (s : L) (hp : s.pools = []) (hd : s.deleg = []) (hl : s.slist = []) (ha : s.assoc = []) :
    C02Full s := by
  obtain ⟨l, sub, z, pr⟩ := lists_empty s hp hd hl ha
  exact ⟨⟨l, sub, pr⟩, z⟩

/-- the four clauses after every finite history that starts from a ledger without pools, delegation
rows, staker lists and associations -/
theorem C02_clauses_from_empty (s : L) (ops : List LOp) (hp : s.pools = []) (hd : s.deleg = [])
    (hl : s.slist = []) (ha : s.assoc = []) (hok : AllOk s ops) :
    let s' := ops.foldl lstep s
    (∀ o a, (getD s'.pools (o, a) zeroPool).totalShare.raw = sumP (shAt o a) s'.deleg) ∧
    (∀ o a, (getD s'.pools (o, a) zeroPool).opShare.raw = sumP (opAt s'.assoc o a) s'.deleg) ∧
    (∀ o a st, st ∈ getD s'.slist (o, a) [] ↔ (getD s'.deleg (st, a, o) zeroDeleg).share.raw ≠ 0) ∧
    (∀ o a, (getD s'.slist (o, a) []).Nodup) ∧
    (∀ o a, (getD s'.pools (o, a) zeroPool).amount = 0 →
      (getD s'.pools (o, a) zeroPool).totalShare.raw = 0 ∧
      ∀ st, (getD s'.deleg (st, a, o) zeroDeleg).share.raw = 0) :=
  C02_clauses_reachable s ops (c02Full_empty s hp hd hl ha) hok

/-! ## regression: the banker's-rounding `TokensFromShares`

Before the repair `TokensFromShares` was `stakerShare.MulInt(totalAmount).Quo(totalShare).TruncateInt()`.
`Quo` rounds half-to-even at 18 decimals, so a value within 5·10⁻¹⁹ below an integer was rounded *up* to
it before the truncation. History: staker A delegates 1 unit, staker B 8·10¹⁸ − 1 units to operator o1
(shares 10¹⁸ and (8·10¹⁸−1)·10¹⁸ raw); two slashes (proportions 1 − 10⁻¹⁸ and 0.75, neither wiping the
pool) leave TotalAmount = 2 with the shares untouched; B undelegates 1 unit, which
ValidateUndelegationAmount turns into all of B's shares; RemoveShareFromOperator takes the non-last branch
(share ≠ TotalShare) and the old TokensFromShares = trunc(round₁₈(2 − 2.5·10⁻¹⁹)) = 2 = TotalAmount: the
pool was left with TotalAmount = 0 and TotalShare = 10¹⁸ (A's) and from then on rejected every delegation
and A's undelegation with ErrDivisorIsZero. (Replayed on the Go keepers before the repair.) -/

/-- `TokensFromShares` as it was before the repair (`Dec.quo`: banker's rounding) -/
def tokensFromSharesPreFix (stakerShare totalShare : Dec) (totalAmount : Int) : Except String Int :=
  if totalShare.raw < stakerShare.raw then .error "ErrInsufficientShares"
  else if totalShare.raw = 0 then
    if totalAmount = 0 then .ok 0 else .error "ErrDivisorIsZero"
  else .ok ((Dec.quo (Dec.mulInt stakerShare totalAmount) totalShare).truncateInt)

/-- the arithmetic witness: a share strictly below the total was paid the whole amount by the
rounding quotient; the truncating quotient pays one unit less -/
theorem C02_regression_quo_rounds_up :
    (⟨7999999999999999999000000000000000000⟩ : Dec).raw < (⟨8000000000000000000000000000000000000⟩ : Dec).raw ∧
    tokensFromSharesPreFix ⟨7999999999999999999000000000000000000⟩ ⟨8000000000000000000000000000000000000⟩ 2
      = .ok 2 ∧
    tokensFromShares ⟨7999999999999999999000000000000000000⟩ ⟨8000000000000000000000000000000000000⟩ 2
      = .ok 1 := ⟨by decide, rfl, rfl⟩

/-- RemoveShareFromOperator / RemoveShare / UndelegateFrom over the pre-repair `TokensFromShares` -/
def removeShareFromOperatorPreFix (s : L) (isUndelegation : Bool) (o : OID) (st : SID) (a : AID) (share : Dec) :
    Except String (L × Int) := do
  if !(0 < share.raw) then throw "ErrAmountIsNotPositive"
  match find? s.pools (o, a) with
  | none => throw "ErrNoOperatorAssetKey"
  | some p =>
    if p.totalShare.raw < share.raw then throw "ErrInsufficientShares"
    let removed ← (if p.totalShare.raw = share.raw then pure p.amount
                   else tokensFromSharesPreFix share p.totalShare p.amount)
    let dO := if find? s.assoc st = some o then share.neg else Dec.zero
    let dP := if isUndelegation then removed else 0
    let s ← updPool s o a (-removed) dP share.neg dO
    pure (s, removed)

def removeSharePreFix (s : L) (isUndelegation : Bool) (o : OID) (st : SID) (a : AID) (share : Dec) :
    Except String (L × Int) := do
  if !(0 < share.raw) then throw "ErrAmountIsNotPositive"
  let (s, removed) ← removeShareFromOperatorPreFix s isUndelegation o st a share
  let s ← pendStaker s isUndelegation st a removed
  let (s, zero) ← updDeleg s st a o share.neg (if isUndelegation then removed else 0)
  let s ← (if zero then deleteStaker s o a st else pure s)
  pure (s, removed)

def undelegatePreFix (s : L) (st : SID) (a : AID) (o : OID) (x : Int) (nonce : Nat) (hash : String) :
    Except String L := do
  if !(0 < x) then throw "ErrAmountIsNotPositive"
  if !(s.operators.contains o) then throw "ErrOperatorNotExist"
  let share ← validateUndelegationAmount s o st a x
  let (s, removed) ← removeSharePreFix s true o st a share
  let r : URec := { staker := st, asset := a, op := o, hash := hash, nonce := nonce,
                    blockNumber := s.height, completeBlock := s.height + s.unbonding,
                    amount := removed, actual := removed }
  setRecord s r

/-- the pool row (o1, a) of a result, `none` for a rejected operation -/
def poolOf (r : Except String L) : Option Pool :=
  match r with
  | .ok s => find? s.pools ("o1", "a")
  | .error _ => none

private def c0 : L :=
  { height := 1, unbonding := 10, totals := [("a", 0)], operators := ["o1"], clientChains := ["0x65"],
    stakers := [], pools := [], deleg := [], slist := [], assoc := [], recs := [], sidx := [], pidx := [],
    holds := [], bal := [], escrow := 0, gDep := [], gWd := [], gSlashed := [] }

/-- the history up to (not including) B's undelegation -/
private def cexPre : List LOp :=
  [.deposit "A_0x65" "a" 1, .deposit "B_0x65" "a" 7999999999999999999, .deposit "C_0x65" "a" 5,
   .delegate "A_0x65" "a" "o1" 1, .delegate "B_0x65" "a" "o1" 7999999999999999999,
   .slash "o1" 1 ⟨999999999999999999⟩, .slash "o1" 1 ⟨750000000000000000⟩]

private def cex : List LOp := cexPre ++ [.undelegate "B_0x65" "a" "o1" 1 1 "0xh"]

private theorem cex_allOk : AllOk c0 cex := by
  refine ⟨trivial, trivial, trivial, trivial, trivial, ⟨by unfold UnitP; decide, ?_, ?_⟩, ⟨by unfold UnitP; decide, ?_, ?_⟩, ?_, trivial⟩
  · unfold RecsNonneg; decide
  · unfold PoolsNonneg; decide
  · unfold RecsNonneg; decide
  · unfold PoolsNonneg; decide
  · have h : (cexPre.foldl lstep c0).recs = [] := by decide
    intro k r hf
    have hf' : find? (cexPre.foldl lstep c0).recs k = some r := hf
    rw [h] at hf'; cases hf'

/-- the old end-to-end history: identical up to B's undelegation (pool amount 2, 8·10³⁶ raw shares);
the pre-repair undelegation empties the pool's amount but leaves A's 10¹⁸ raw shares, the repaired one
leaves amount 1 — and the final state satisfies all four clauses, by the theorem. -/
theorem C02_regression_history :
    AllOk c0 cex ∧
    find? (cexPre.foldl lstep c0).pools ("o1", "a") = some ⟨2, 0, ⟨8000000000000000000000000000000000000⟩, ⟨0⟩⟩ ∧
    poolOf (undelegatePreFix (cexPre.foldl lstep c0) "B_0x65" "a" "o1" 1 1 "0xh")
      = some ⟨0, 2, ⟨1000000000000000000⟩, ⟨0⟩⟩ ∧
    poolOf (undelegate (cexPre.foldl lstep c0) "B_0x65" "a" "o1" 1 1 "0xh")
      = some ⟨1, 1, ⟨1000000000000000000⟩, ⟨0⟩⟩ ∧
    find? (cex.foldl lstep c0).pools ("o1", "a") = some ⟨1, 1, ⟨1000000000000000000⟩, ⟨0⟩⟩ ∧
    C02Full (cex.foldl lstep c0) :=
  ⟨cex_allOk, by decide, by decide, by decide, by decide,
   C02_full_reachable c0 cex (c02Full_empty c0 rfl rfl rfl rfl) cex_allOk⟩

/-! ## non-vacuity

Two stakers delegate to one operator, the first being associated with it; the first undelegates part;
it is dissociated; the operator is slashed to zero (which wipes shares, self-share and the list); a
new delegation re-opens the pool at one share per token. (`associate` itself is not evaluated here:
`chainOf` uses `String.splitOn`, which the kernel does not reduce; the association is part of the start
state and the `dissociate` step exercises the same self-share bookkeeping. The theorem covers
`associate` symbolically.) -/

private def n0 : L := { c0 with assoc := [("s1_0x65", "o1")] }

private def nops : List LOp :=
  [.deposit "s1_0x65" "a" 100, .deposit "s2_0x65" "a" 50, .delegate "s1_0x65" "a" "o1" 70,
   .delegate "s2_0x65" "a" "o1" 30, .undelegate "s1_0x65" "a" "o1" 20 1 "0xh", .dissociate "s1_0x65",
   .slash "o1" 1 ⟨1000000000000000000⟩, .delegate "s2_0x65" "a" "o1" 10]

private theorem n0_lists : Lists n0 := by
  refine ⟨⟨?_, ?_, ?_, ?_, ?_, ?_, ?_⟩, ⟨?_, ?_, ?_⟩⟩
  · intro o a; simp [poolShare, shareSum, n0, c0, sumP, getD, zeroPool, Dec.zero]
  · intro o a; simp [poolOpShare, opSum, n0, c0, sumP, getD, zeroPool, Dec.zero]
  · exact List.nodup_nil
  · exact List.nodup_nil
  · unfold NoDup keys; decide
  · intro k d h; cases h
  · intro k d h; cases h
  · intro o a st h; simp [shareOf, n0, c0, getD, zeroDeleg, Dec.zero] at h
  · intro o a; simp [listOf, n0, c0, getD]
  · exact List.nodup_nil

private theorem nops_allOk : AllOk n0 nops := by
  refine ⟨trivial, trivial, trivial, trivial, ?_, trivial, ⟨by unfold UnitP; decide, ?_, ?_⟩, trivial, trivial⟩
  · have h : ((nops.take 4).foldl lstep n0).recs = [] := by decide
    intro k r hf
    have hf' : find? ((nops.take 4).foldl lstep n0).recs k = some r := hf
    rw [h] at hf'; cases hf'
  · unfold RecsNonneg; decide
  · unfold PoolsNonneg; decide

/-- a reachable state with a non-trivial pool (80 tokens, 80 shares, 50 of them the operator's own,
two listed delegators) satisfies the invariant -/
example : Lists ((nops.take 5).foldl lstep n0) :=
  C02_lists_reachable n0 (nops.take 5) n0_lists (by
    have := nops_allOk
    exact ⟨this.1, this.2.1, this.2.2.1, this.2.2.2.1, this.2.2.2.2.1, trivial⟩)

example : Lists (nops.foldl lstep n0) := C02_lists_reachable n0 nops n0_lists nops_allOk

private theorem n0_exact : ListsExact n0 := by
  refine ⟨n0_lists, ?_, ?_⟩
  · intro o a st h; simp [listOf, n0, c0, getD] at h
  · intro o a; simp [poolShare, n0, c0, getD, zeroPool, Dec.zero]

/-- the reached states satisfy the exact list clause as well -/
example : ListInv (nops.foldl lstep n0) := (C02_list_exact_reachable n0 nops n0_exact nops_allOk).1.listInv

private theorem n0_full : C02Full n0 :=
  ⟨n0_exact, by intro o a _; simp [poolShare, n0, c0, getD, zeroPool, Dec.zero]⟩

/-- … and all four clauses -/
example : C02Full (nops.foldl lstep n0) := C02_full_reachable n0 nops n0_full nops_allOk

-- after the two delegations and the undelegation: shares 80·10¹⁸, self-share 50·10¹⁸, both listed
example : getD ((nops.take 5).foldl lstep n0).pools ("o1", "a") zeroPool
    = ⟨80, 20, ⟨80000000000000000000⟩, ⟨50000000000000000000⟩⟩ ∧
    sumP (shAt "o1" "a") ((nops.take 5).foldl lstep n0).deleg = 80000000000000000000 ∧
    sumP (opAt ((nops.take 5).foldl lstep n0).assoc "o1" "a") ((nops.take 5).foldl lstep n0).deleg
      = 50000000000000000000 ∧
    ((nops.take 5).foldl lstep n0).slist = [(("o1", "a"), ["s1_0x65", "s2_0x65"])] := by decide
-- after the dissociation the self-share is 0
example : getD ((nops.take 6).foldl lstep n0).pools ("o1", "a") zeroPool
    = ⟨80, 20, ⟨80000000000000000000⟩, ⟨0⟩⟩ ∧ ((nops.take 6).foldl lstep n0).assoc = [] := by decide
-- after the slash to zero: no shares anywhere, list key gone
example : getD ((nops.take 7).foldl lstep n0).pools ("o1", "a") zeroPool = ⟨0, 20, ⟨0⟩, ⟨0⟩⟩ ∧
    ((nops.take 7).foldl lstep n0).deleg =
      [(("s1_0x65", "a", "o1"), ⟨⟨0⟩, 20⟩), (("s2_0x65", "a", "o1"), ⟨⟨0⟩, 0⟩)] ∧
    ((nops.take 7).foldl lstep n0).slist = [] := by decide
-- the pool re-opens at one share per token
example : getD (nops.foldl lstep n0).pools ("o1", "a") zeroPool = ⟨10, 20, ⟨10000000000000000000⟩, ⟨0⟩⟩ ∧
    (nops.foldl lstep n0).slist = [(("o1", "a"), ["s2_0x65"])] := by decide

end ExoVerif.Ledger
