import ExoVerif.Generated.Facts
import ExoVerif.Model.AuthMsgs
/-!
# C10 tie: which Cosmos messages of the exocore modules are entry points

`msgTable` (Model/AuthMsgs.lean) gives every type an exocore module registers as `sdk.Msg` a class, and the class a
route: no handler, a handler that is `panic("implement me")`, a handler with a body. Regenerated from the Go source by
tools/exofacts (facts_msgroutes.go): the types of x/*/types/codec.go (`RegisterImplementations((*sdk.Msg)(nil), …)`,
`RegisterMsgServiceDesc`), the methods of `_Msg_serviceDesc` in x/*/types/tx.pb.go, whether `RegisterServices` of
x/*/module.go calls `RegisterMsgServer`, and the body of the keeper method each service method reaches.
Implementing one of the stubs of x/avs/keeper/msg_server.go, un-commenting the `RegisterMsgServer` of x/reward or
x/slash, or registering a new message changes the generated list: the new entry point must be given a class — and a
decision function with its `admit ⇒ rightful` theorem — before this file compiles again.
-/
namespace ExoVerif.Auth
open ExoVerif.Gen

/-- the source registers exactly the types of the table, and routes each one as its class says -/
theorem C10_tie_msg_routes : exocoreMsgRoutes = msgTable.map (fun p => (p.1, p.2.route)) := by decide

/-- in particular the AVS management messages reach handlers that are panic stubs -/
theorem C10_tie_avs_management_msgs_are_stubs :
    ∀ url ∈ avsManagementMsgs, (url, "panic-stub") ∈ exocoreMsgRoutes := by decide

/-- and the source names the handler of every routed type (no routed type without a handler found) -/
theorem C10_tie_msg_handlers_cover_routed :
    exocoreMsgHandlers.map (·.1) = (msgTable.filter (fun p => p.2.routed)).map (·.1) := by decide

end ExoVerif.Auth
