import ExoVerif.Props.C01Inv
import ExoVerif.Proofs.LedgerNst
/-!
# C01 — the native-restaking balance adjustment clause

"…equals cumulative deposits minus cumulative withdrawals, plus/minus native-restaking balance
adjustments, minus everything removed by slashing. Only a deposit or a positive native-restaking
adjustment ever increases that sum."

`nstUpdate` (Model/Ledger.lean) is x/delegation/keeper/update_native_restaking_balance.go:
UpdateNSTBalance, replayed line by line against the real keeper by the ledger correspondence run
(op `ledger.nstadjust`). Here:

* `C01_nst_increase_value` — an accepted positive adjustment adds exactly `x` to the ledger value of that
  asset (and to the staker's total deposit), nothing to any other asset;
* `C01_nst_decrease_value` — an accepted negative adjustment lowers the value by `cut ≥ 0`, where `cut` is
  exactly what the staker's total deposit loses; the part taken from withdrawable balances and pending
  undelegations never exceeds `−x`; the rest leaves the operator pools;
* `C01_nst_decrease_order` — the pools are reached only after the withdrawable balance and every pending
  undelegation of the staker are exhausted;
* `C01_nst_decrease_full_fails` — the full claim `cut ≤ −x` is FALSE for the code as it is (finding F-01a:
  the third phase rounds `slashProportion` and `slashShare` half-even, which can round up): a ledger
  reachable from genesis on which a reported decrease of 7 removes 10; the harness replays it on the real
  keepers (`directedNstOvershoot`);
* `C01_nst_frame`, `C01_nst_inv` — what an adjustment leaves alone, and the invariants it keeps;
* `C01_reachable_with_nst` — over every finite history of the ten ledger operations AND adjustments,
  value − deposits + withdrawals + slashed − Σ adjustments is invariant (the adjustment of a step being
  read off the adjusted staker's total deposit), the published total − deposits + withdrawals is
  invariant, nothing goes negative; `C01_nst_adjustment_bounds` bounds each adjustment by what was
  reported; `C01_only_deposit_or_positive_nst_increases`.
-/
namespace ExoVerif.Ledger
open ExoVerif ExoVerif.KV

/-- an accepted positive adjustment is a virtual deposit: value and total deposit + x, for that asset only.
(No assumption on the state.) -/
theorem C01_nst_increase_value {s s' : L} {st : SID} {a0 : AID} {x : Int} (hx : 0 < x)
    (h : nstUpdate s st a0 x = .ok s') (a : AID) :
    value s' a = value s a + (if a0 = a then x else 0) ∧ totOf s' st a0 = totOf s st a0 + x ∧
    s'.totals = s.totals := by
  unfold nstUpdate at h
  split at h
  · cases h
  · have e := updStaker_nstEff (c := -x) (by simpa using h)
    refine ⟨?_, by rw [e.tot]; omega, e.frame.totals⟩
    rw [value_split, value_split, e.wr a, e.pl a]; split <;> omega

/-- an accepted negative adjustment: the ledger value of the asset falls by `cut`, `0 ≤ cut`, and `cut` is
exactly the fall of the staker's total deposit (the monitor's `nst-value-vs-deposit`); other assets are
unchanged; of `cut`, the part `cWR` that leaves withdrawable balances and pending undelegations is at most
the reported decrease, the part `cP` leaves the operator pools. -/
theorem C01_nst_decrease_value {s s' : L} {st : SID} {a0 : AID} {x : Int} (hi : RecInv s) (hn : NN s)
    (hx : x < 0) (h : nstUpdate s st a0 x = .ok s') :
    ∃ cWR cP : Int, 0 ≤ cWR ∧ cWR ≤ -x ∧ 0 ≤ cP ∧
      (∀ a, value s' a = value s a - (if a0 = a then cWR + cP else 0)) ∧
      totOf s' st a0 = totOf s st a0 - (cWR + cP) ∧
      wrAt s' a0 = wrAt s a0 - cWR ∧ plAt s' a0 = plAt s a0 - cP := by
  obtain ⟨cWR, cP, e, _, _, _, hb⟩ := nstUpdate_spec hi hn h
  obtain ⟨b1, b2, b3⟩ := hb (by omega)
  refine ⟨cWR, cP, b1, b2, b3, fun a => ?_, e.tot, by simpa using e.wr a0, by simpa using e.pl a0⟩
  rw [value_split, value_split, e.wr a, e.pl a]; split <;> omega

/-- partial form of "the cut never exceeds the reported decrease": it holds whenever the adjustment does not
reach the delegated positions (the pools of the asset keep their amounts) -/
theorem C01_nst_decrease_within_report_partial {s s' : L} {st : SID} {a0 : AID} {x : Int} (hi : RecInv s)
    (hn : NN s) (hx : x < 0) (h : nstUpdate s st a0 x = .ok s') (hp : plAt s' a0 = plAt s a0) :
    0 ≤ value s a0 - value s' a0 ∧ value s a0 - value s' a0 ≤ -x := by
  obtain ⟨cWR, cP, b1, b2, b3, hv, _, _, hpl⟩ := C01_nst_decrease_value hi hn hx h
  have := hv a0
  simp only [if_true] at this
  omega

/-- the order of the three phases: if an accepted decrease takes anything out of the operator pools, then
afterwards the staker's withdrawable balance is empty and none of its pending undelegations of that asset
owes anything (the monitor's `nst-decrease-incomplete`) -/
theorem C01_nst_decrease_order {s s' : L} {st : SID} {a0 : AID} {x : Int} (hi : RecInv s) (hn : NN s)
    (hx : x < 0) (h : nstUpdate s st a0 x = .ok s') (hp : plAt s' a0 ≠ plAt s a0) :
    wdOf s' st a0 = 0 ∧
    ∀ k r', find? s'.recs k = some r' → r'.staker = st → r'.asset = a0 → r'.actual = 0 := by
  obtain ⟨_, _, e, _, _, _, _⟩ := nstUpdate_spec hi hn h
  unfold nstUpdate at h
  split at h
  · cases h
  · split at h
    · omega
    · obtain ⟨w, z⟩ := nstDecrease_order hi hn h hp
      refine ⟨w, fun k r' hf hs ha => z k ?_ r' hf⟩
      obtain ⟨r, y, hr, he, _⟩ := e.frame.recs.back hf
      obtain ⟨_, _, hsx⟩ := hi.keyed k r hr
      have hmem := find?_mem _ _ _ hsx
      subst he
      simp only [] at hs ha
      unfold nstRecordKeys
      refine List.mem_map.2 ⟨((r.staker, r.asset, r.nonce), k), ?_, rfl⟩
      rw [mem_sortByKey]
      exact List.mem_filter.2 ⟨hmem, by simp [hs, ha]⟩

/-- the claim at full strength: an accepted decrease never removes more than was reported -/
def C01_nst_decrease_full : Prop :=
  ∀ (s s' : L) (st : SID) (a0 : AID) (x : Int), RecInv s → NN s → x < 0 → nstUpdate s st a0 x = .ok s' →
    value s a0 - value s' a0 ≤ -x

/-- what an adjustment of (st, a0) leaves alone: every other staker row, the pending figure of the adjusted
row, the published staking totals, the hold counts, both record indexes, the ghost history; the record
store keeps its keys, every record keeps all fields but `actual`, `actual` never grows, and records of
other stakers or assets are unchanged. -/
theorem C01_nst_frame {s s' : L} {st : SID} {a0 : AID} {x : Int} (hi : RecInv s) (hn : NN s)
    (h : nstUpdate s st a0 x = .ok s') :
    (∀ k, k ≠ (st, a0) → find? s'.stakers k = find? s.stakers k) ∧
    (getD s'.stakers (st, a0) zeroStaker).pending = (getD s.stakers (st, a0) zeroStaker).pending ∧
    s'.totals = s.totals ∧ s'.holds = s.holds ∧ s'.sidx = s.sidx ∧ s'.pidx = s.pidx ∧
    ghosts s' = ghosts s ∧ s'.escrow = s.escrow ∧ s'.height = s.height ∧
    keys s'.recs = keys s.recs ∧
    (∀ k r, find? s.recs k = some r → ∃ y, find? s'.recs k = some { r with actual := y } ∧ y ≤ r.actual ∧
        0 ≤ y ∧ (¬ (r.staker = st ∧ r.asset = a0) → y = r.actual)) := by
  obtain ⟨_, _, e, _, _, _, _⟩ := nstUpdate_spec hi hn h
  have f := e.frame
  refine ⟨f.stakers, f.pend, f.totals, f.holds, f.sidx, f.pidx, f.ghosts, f.escrow, f.height, f.recs.1, ?_⟩
  intro k r hf
  obtain ⟨y, hy, l, n, o⟩ := (f.recs.2 k).2 r hf
  exact ⟨y, hy, l, n (hn.rc (k, r) (find?_mem _ _ _ hf)).1, o⟩

/-- an accepted adjustment keeps the record stores consistent and every figure non-negative -/
theorem C01_nst_inv {s s' : L} {st : SID} {a0 : AID} {x : Int} (hi : RecInv s) (hn : NN s)
    (h : nstUpdate s st a0 x = .ok s') : RecInv s' ∧ NN s' := by
  obtain ⟨_, _, _, n, i, _⟩ := nstUpdate_spec hi hn h
  exact ⟨i, n⟩

/-! ## every finite history, adjustments included -/

/-- the ten ledger operations plus the native-restaking balance adjustment -/
inductive LOp' where
  | base (op : LOp)
  | nst (st : SID) (a : AID) (x : Int)

/-- one step with transaction semantics -/
def lstep' (s : L) : LOp' → L
  | .base op => lstep s op
  | .nst st a x => match nstUpdate s st a x with | .ok s' => s' | .error _ => s

def OpOk0' (s : L) : LOp' → Prop
  | .base op => OpOk0 s op
  | .nst _ _ _ => True

def AllOk0' : L → List LOp' → Prop
  | _, [] => True
  | s, op :: rest => OpOk0' s op ∧ AllOk0' (lstep' s op) rest

/-- the adjustment booked by one step for asset `a`: what the adjusted staker's total deposit moved by
(nothing for the ten other operations, nothing for a refused adjustment) -/
def adjStep (s : L) (op : LOp') (a : AID) : Int :=
  match op with
  | .nst st a0 _ => if a0 = a then totOf (lstep' s op) st a0 - totOf s st a0 else 0
  | .base _ => 0

/-- Σ of the adjustments booked along a history, computed alongside the run -/
def adjOf : L → List LOp' → AID → Int
  | _, [], _ => 0
  | s, op :: rest, a => adjStep s op a + adjOf (lstep' s op) rest a

/-- what one adjustment books is bounded by what was reported: exactly `+x` for an accepted positive
adjustment of that asset, within `[x − (what left the pools), 0]` for a negative one, `0` otherwise -/
theorem C01_nst_adjustment_bounds (s : L) (st : SID) (a0 : AID) (x : Int) (a : AID) (hi : RecInv s) (hn : NN s) :
    (0 < x → adjStep s (.nst st a0 x) a = 0 ∨ (a0 = a ∧ adjStep s (.nst st a0 x) a = x)) ∧
    (x ≤ 0 → adjStep s (.nst st a0 x) a ≤ 0 ∧
      x - (plAt s a0 - plAt (lstep' s (.nst st a0 x)) a0) ≤ adjStep s (.nst st a0 x) a) := by
  unfold adjStep
  simp only [lstep']
  cases h : nstUpdate s st a0 x with
  | error e =>
    simp only []
    exact ⟨fun _ => Or.inl (by split <;> omega), fun _ => ⟨by split <;> omega, by split <;> omega⟩⟩
  | ok s' =>
    simp only []
    obtain ⟨cWR, cP, e, _, _, hp, hb⟩ := nstUpdate_spec hi hn h
    have hpl := e.pl a0
    simp only [if_true] at hpl
    by_cases ha : a0 = a
    · simp only [ha, if_true]
      refine ⟨fun hx => ?_, fun hx => ?_⟩
      · obtain ⟨e1, e2⟩ := hp hx
        exact Or.inr ⟨trivial, by rw [← ha, e.tot]; omega⟩
      · obtain ⟨b1, b2, b3⟩ := hb hx
        rw [← ha, e.tot]; exact ⟨by omega, by omega⟩
    · simp only [ha, if_false]
      refine ⟨fun _ => Or.inl trivial, fun hx => ?_⟩
      obtain ⟨b1, b2, b3⟩ := hb hx
      exact ⟨Int.le_refl _, by omega⟩

/-- C01 with adjustments, one step: for a restaked asset, `net` (value − deposits + withdrawals + slashed)
moves by exactly the adjustment booked by the step; the published total's balance does not move at all;
non-negativity and the record-store invariant are kept. -/
theorem C01_nst_net_step (s : L) (op : LOp') (a : AID) (ha : a ≠ nativeAID) (hi : RecInv s) (hn : NN s)
    (hok : OpOk0' s op) :
    net (lstep' s op) a = net s a + adjStep s op a ∧ pub (lstep' s op) a = pub s a ∧
    NN (lstep' s op) ∧ RecInv (lstep' s op) := by
  cases op with
  | base op =>
    obtain ⟨n1, i1⟩ := C01_net_step s op a ha hi (opOk_of_nn hn hok)
    exact ⟨by simp only [lstep', adjStep]; omega, C01_total_step s op a hn, C01_nonneg_step s op hn hok, i1⟩
  | nst st a0 x =>
    unfold adjStep
    simp only [lstep']
    cases h : nstUpdate s st a0 x with
    | error e =>
      simp only []
      refine ⟨?_, trivial, hn, hi⟩
      split <;> omega
    | ok s' =>
      simp only []
      obtain ⟨cWR, cP, e, n, i, _, _⟩ := nstUpdate_spec hi hn h
      have g := e.frame.ghosts
      refine ⟨?_, pub_congr a e.frame.totals g, n, i⟩
      unfold ghosts at g; injection g with g1 g23; injection g23 with g2 g3
      unfold net
      rw [value_split, value_split, e.wr a, e.pl a, g1, g2, g3, e.tot]
      split <;> omega

/-- **C01 over every finite history with native-restaking adjustments**: from any state satisfying the
invariants, after any finite interleaving of the ten ledger operations and balance adjustments, for every
restaked asset
  value − deposits + withdrawals + slashed = (what it was) + Σ adjustments booked along the history,
the published total − deposits + withdrawals is what it was, no figure is negative and the record stores
are consistent. -/
theorem C01_reachable_with_nst (s : L) (ops : List LOp') (a : AID) (ha : a ≠ nativeAID) (hi : RecInv s)
    (hn : NN s) (hok : AllOk0' s ops) :
    net (ops.foldl lstep' s) a = net s a + adjOf s ops a ∧ pub (ops.foldl lstep' s) a = pub s a ∧
    NN (ops.foldl lstep' s) ∧ RecInv (ops.foldl lstep' s) := by
  induction ops generalizing s with
  | nil => exact ⟨by simp [adjOf], rfl, hn, hi⟩
  | cons op rest ih =>
    simp only [List.foldl_cons, adjOf]
    obtain ⟨h1, h2⟩ := hok
    obtain ⟨n1, p1, nn1, i1⟩ := C01_nst_net_step s op a ha hi hn h1
    obtain ⟨n2, p2, nn2, i2⟩ := ih (lstep' s op) i1 nn1 h2
    exact ⟨by rw [n2, n1]; omega, by rw [p2, p1], nn2, i2⟩

/-- the same from genesis: value = deposits − withdrawals − slashed + Σ adjustments -/
theorem C01_from_genesis_with_nst (s : L) (ops : List LOp') (a : AID) (ha : a ≠ nativeAID) (hf : Fresh s)
    (hok : AllOk0' s ops) :
    let s' := ops.foldl lstep' s
    value s' a = getD s'.gDep a 0 - getD s'.gWd a 0 - getD s'.gSlashed a 0 + adjOf s ops a ∧
    getD s'.totals a 0 = getD s'.gDep a 0 - getD s'.gWd a 0 ∧ NN s' := by
  obtain ⟨h1, h2, h3, _⟩ := C01_reachable_with_nst s ops a ha hf.recInv hf.nn hok
  have g := C01_from_genesis s [] a ha hf trivial
  simp only [List.foldl_nil] at g
  unfold net at h1; unfold pub at h2
  exact ⟨by omega, by omega, h3⟩

/-- **only a deposit or a positive adjustment ever increases the sum**: if one step raises the ledger value
of a restaked asset, the step is an accepted deposit of that asset with a positive amount, or an accepted
adjustment of that asset with a positive amount. -/
theorem C01_only_deposit_or_positive_nst_increases (s : L) (op : LOp') (a : AID) (ha : a ≠ nativeAID)
    (hi : RecInv s) (hn : NN s) (hok : OpOk0' s op) (hinc : value s a < value (lstep' s op) a) :
    (∃ st x, op = .base (.deposit st a x) ∧ 0 < x) ∨ (∃ st x, op = .nst st a x ∧ 0 < x) := by
  cases op with
  | nst st a0 x =>
    right
    simp only [lstep'] at hinc
    cases h : nstUpdate s st a0 x with
    | error e => rw [h] at hinc; simp only [] at hinc; omega
    | ok s' =>
      rw [h] at hinc; simp only [] at hinc
      obtain ⟨cWR, cP, e, _, _, hp, hb⟩ := nstUpdate_spec hi hn h
      rw [value_split, value_split s', e.wr a, e.pl a] at hinc
      by_cases hx : 0 < x
      · by_cases haa : a0 = a
        · subst haa; exact ⟨st, x, rfl, hx⟩
        · simp only [haa, if_false] at hinc; omega
      · obtain ⟨b1, b2, b3⟩ := hb (by omega)
        split at hinc <;> omega
  | base op =>
    left
    simp only [lstep'] at hinc
    have hok' : OpOk s op := opOk_of_nn hn hok
    cases op with
    | deposit st a0 x =>
      simp only [lstep] at hinc
      split at hinc
      · rename_i s' h
        obtain ⟨v, hx⟩ := C01_deposit_value a h
        rw [v] at hinc
        by_cases haa : a0 = a
        · subst haa; simp only [if_true] at hinc; exact ⟨st, x, rfl, by omega⟩
        · simp only [haa, if_false] at hinc; omega
      · omega
    | withdraw st a0 x =>
      simp only [lstep] at hinc
      split at hinc
      · rename_i s' h
        obtain ⟨v, hx⟩ := C01_withdraw_value a h
        rw [v] at hinc; split at hinc <;> omega
      · omega
    | delegate st a0 o x =>
      simp only [lstep] at hinc
      split at hinc
      · rename_i s' h
        obtain ⟨h1, h2⟩ := C01_delegate_value a h
        by_cases hnat : a0 = nativeAID
        · have v := (h2 hnat).1
          have : ¬ a0 = a := fun e => ha (e ▸ hnat)
          simp only [this, if_false] at v; omega
        · have v := (h1 hnat).1; omega
      · omega
    | undelegate st a0 o x n hash =>
      simp only [lstep] at hinc
      split at hinc
      · rename_i s' h
        have v := C01_undelegate_value hi hok' h a; omega
      · omega
    | associate st o =>
      have := (C01_net_step s (.associate st o) a ha hi hok').1
      have g : ghosts (lstep s (.associate st o)) = ghosts s := by
        simp only [lstep]; split
        · rename_i s' h
          unfold associate at h
          simp only [bind, Except.bind, pure, Except.pure, throw, throwThe, MonadExceptOf.throw] at h
          split at h
          · cases h
          · split at h
            · cases h
            · split at h
              · cases h
              · split at h
                · cases h
                · rename_i s1 h1
                  injection h with h
                  obtain ⟨_, _, g1, g2, g3, _⟩ := value_foldlM_opShare _ o (fun r => r.share) a h1
                  rw [← h]; unfold ghosts; simp only []; rw [g1, g2, g3]
        · rfl
      unfold ghosts at g; injection g with g1 g23; injection g23 with g2 g3
      unfold net at this; rw [g1, g2, g3] at this; omega
    | dissociate st =>
      have := (C01_net_step s (.dissociate st) a ha hi hok').1
      have g : ghosts (lstep s (.dissociate st)) = ghosts s := by
        simp only [lstep]; split
        · rename_i s' h
          unfold dissociate at h
          simp only [bind, Except.bind, pure, Except.pure, throw, throwThe, MonadExceptOf.throw] at h
          split at h
          · cases h
          · rename_i o ho
            split at h
            · cases h
            · rename_i s1 h1
              injection h with h
              obtain ⟨_, _, g1, g2, g3, _⟩ := value_foldlM_opShare _ o (fun r => r.share.neg) a h1
              rw [← h]; unfold ghosts; simp only []; rw [g1, g2, g3]
        · rfl
      unfold ghosts at g; injection g with g1 g23; injection g23 with g2 g3
      unfold net at this; rw [g1, g2, g3] at this; omega
    | hold k => simp only [lstep, C01_hold_value] at hinc; omega
    | release k =>
      simp only [lstep] at hinc
      split at hinc
      · rename_i s' h
        have := C01_release_value h a; omega
      · omega
    | blockEnd =>
      simp only [lstep] at hinc
      have := C01_endBlock_value hi a ha; omega
    | slash o inf p =>
      simp only [lstep] at hinc
      obtain ⟨hp, hr, hpl⟩ := hok'
      have := (C01_slash_value s o inf p a hp hr hpl).1; omega

/-! ## non-vacuity and the witness of F-01a

All states below are grown from a fresh ledger by a history, so they are reachable and the invariants
`RecInv`, `NN` hold on them by `C01_reachable_with_nst` itself. -/

private def g0 : L :=
  { height := 1, unbonding := 2, totals := [("A", 0), ("B", 0)], operators := ["o1", "o2"], clientChains := ["0x65"],
    stakers := [], pools := [], deleg := [], slist := [], assoc := [], recs := [], sidx := [], pidx := [],
    holds := [], bal := [], escrow := 0, gDep := [], gWd := [], gSlashed := [] }

private theorem g0_fresh : Fresh g0 := ⟨rfl, rfl, rfl, rfl, rfl, rfl, by decide, by decide, by decide, rfl, rfl, rfl⟩

example : "A" ≠ nativeAID := by decide

/-- store order ≠ numeric order: "0x10" < "0x9" < "0xa" in the staker index -/
example : sortByKey (fun n => sidxKeyStr ("s_0x65", "A", n)) [9, 10, 16] = [16, 9, 10] := by decide
example : hexNat 0 = "0x0" ∧ hexNat 255 = "0xff" ∧ hexNat 4096 = "0x1000" := by decide

/-- a staker with a withdrawable balance, two positions and three pending undelegations (nonces 9, 10, 16) -/
private def opsA : List LOp' :=
  [.base (.deposit "s_0x65" "A" 100000), .base (.deposit "t_0x65" "A" 500),
   .base (.delegate "s_0x65" "A" "o2" 2000), .base (.delegate "s_0x65" "A" "o1" 3000),
   .base (.delegate "t_0x65" "A" "o1" 500),
   .base (.undelegate "s_0x65" "A" "o1" 300 9 "0xh9"), .base (.undelegate "s_0x65" "A" "o1" 100 10 "0xh10"),
   .base (.undelegate "s_0x65" "A" "o2" 200 16 "0xh16")]

private def sA : L := opsA.foldl lstep' g0

private theorem opsA_ok : AllOk0' g0 opsA :=
  ⟨trivial, trivial, trivial, trivial, trivial, freshNonce_of_all (by decide), freshNonce_of_all (by decide),
   freshNonce_of_all (by decide), trivial⟩

example : RecInv sA ∧ NN sA :=
  let h := C01_reachable_with_nst g0 opsA "A" (by decide) g0_fresh.recInv g0_fresh.nn opsA_ok
  ⟨h.2.2.2, h.2.2.1⟩

example : value sA "A" = 100500 ∧ (getD sA.stakers ("s_0x65", "A") zeroStaker) = ⟨100000, 95000, 600⟩ := by decide

/-- a positive adjustment: +77 on value and total deposit, published total untouched -/
example : value (lstep' sA (.nst "s_0x65" "A" 77)) "A" = 100577 ∧
    totOf (lstep' sA (.nst "s_0x65" "A" 77)) "s_0x65" "A" = 100077 ∧
    getD (lstep' sA (.nst "s_0x65" "A" 77)).totals "A" 0 = 100500 := by decide

/-- a decrease ending inside the pending undelegations: 95000 withdrawable, then the records in STORE order -
nonce 16 (0x10) loses all 200, nonce 9 loses 50 of 300, nonce 10 (0xa) is not reached -/
example : ((lstep' sA (.nst "s_0x65" "A" (-95250))).recs.map fun e => (e.2.nonce, e.2.amount, e.2.actual))
      = [(9, 300, 250), (10, 100, 100), (16, 200, 0)] ∧
    value (lstep' sA (.nst "s_0x65" "A" (-95250))) "A" = 100500 - 95250 ∧
    adjStep sA (.nst "s_0x65" "A" (-95250)) "A" = -95250 := by decide

/-- a decrease reaching the delegated positions: both pools are cut in proportion 1000/4400, the other
staker's row and the pool's pending figure are untouched -/
example : (lstep' sA (.nst "s_0x65" "A" (-96600))).pools.map (fun e => (e.1.1, e.2.amount, e.2.pending))
      = [("o2", 1391, 200), ("o1", 2510, 400)] ∧
    adjStep sA (.nst "s_0x65" "A" (-96600)) "A" = -96599 ∧
    find? (lstep' sA (.nst "s_0x65" "A" (-96600))).stakers ("t_0x65", "A") = some ⟨500, 0, 0⟩ := by decide

/-- a refused adjustment (no row for a negative amount) is not a step -/
example : lstep' g0 (.nst "s_0x65" "A" (-5)) = g0 ∧ adjStep g0 (.nst "s_0x65" "A" (-5)) "A" = 0 := by decide

/-- a whole history with adjustments: the conclusion of `C01_reachable_with_nst` evaluated -/
private def opsB : List LOp' :=
  opsA ++ [.nst "s_0x65" "A" 77, .base .blockEnd, .nst "s_0x65" "A" (-95250), .base (.slash "o1" 1 ⟨250000000000000000⟩),
    .base .blockEnd, .base .blockEnd, .nst "s_0x65" "A" (-2000), .base (.deposit "t_0x65" "A" 5)]

/-- the third adjustment reaches the delegated positions and books −1999 for a reported −2000 (the roundings
of the third phase can fall short as well as overshoot) -/
example : adjOf g0 opsB "A" = 77 - 95250 - 1999 ∧ adjOf g0 opsB "B" = 0 ∧
    net (opsB.foldl lstep' g0) "A" = net g0 "A" + adjOf g0 opsB "A" ∧
    (opsB.foldl lstep' g0).gSlashed = [("A", 875)] ∧
    value (opsB.foldl lstep' g0) "A" = (100500 + 5) - 0 - 875 + (77 - 95250 - 1999) ∧
    getD (opsB.foldl lstep' g0).totals "A" 0 = 100505 := by
  decide

/-! ### F-01a: the decrease can exceed what was reported -/

/-- a staker whose whole deposit of 10^19 is delegated -/
private def opsW : List LOp' :=
  [.base (.deposit "s_0x65" "A" 10000000000000000000), .base (.delegate "s_0x65" "A" "o1" 10000000000000000000)]

private def sW : L := opsW.foldl lstep' g0

/-- slashProportion = 7 / 10^19 is rounded half-even UP to 10^-18 -/
example : nstProportion 7 10000000000000000000 = ⟨1⟩ := by decide

/-- **F-01a**: on a ledger reachable from genesis, an accepted balance decrease of 7 lowers the ledger value
(and the staker's total deposit) by 10. The harness replays exactly this on the real keepers. -/
theorem C01_nst_decrease_full_fails : ¬ C01_nst_decrease_full := by
  intro hfull
  have hr := C01_reachable_with_nst g0 opsW "A" (by decide) g0_fresh.recInv g0_fresh.nn ⟨trivial, trivial, trivial⟩
  have h := hfull sW (lstep' sW (.nst "s_0x65" "A" (-7))) "s_0x65" "A" (-7) hr.2.2.2 hr.2.2.1 (by decide) (by decide)
  revert h
  decide

example : value sW "A" - value (lstep' sW (.nst "s_0x65" "A" (-7))) "A" = 10 ∧
    adjStep sW (.nst "s_0x65" "A" (-7)) "A" = -10 := by decide

end ExoVerif.Ledger
