import ExoVerif.Proofs.Ledger
/-!
# C03 — Exit path: undelegation creates one record, released once, never early, exact

Stated for the executable model of x/delegation's three undelegation stores (record store, staker
index, pending-by-height index), hold counts and EndBlock (`ExoVerif.Ledger`).
`RecInv` = the three stores are mutually consistent and live records carry pairwise distinct
nonces (the LayerZero nonce discipline). Under it:
  * an accepted undelegation creates exactly one record and loses none (`C03_undelegate_creates_one_record`),
  * EndBlock touches a record only at its completion height (`C03_never_early_never_lost`),
  * a held record is re-queued for the next block, unchanged otherwise (`C03_held_is_requeued`),
  * a due, un-held record is removed from all three stores and the staker credited exactly its
    remaining amount (`C03_due_unheld_released_exact`),
  * the stores stay consistent in every reachable state (`C03_index_consistent_*`).
The FULL statement of the property (no discipline on nonces) is false of the code: `C03_full_fails`
exhibits two accepted undelegations with one nonce in one block after which the first record is
unreachable from the pending index and is never released (finding F-03a, reproduced on the real
keepers by the harness's directed scenario `nonce-collision`).
-/
namespace ExoVerif.Ledger
open ExoVerif ExoVerif.KV

/-- an accepted undelegation creates exactly one pending record: right staker/asset/operator,
amount = actual = what left the pool, completion height = now + unbonding period; every other
record is untouched; the stores stay consistent; no value is created. -/
theorem C03_undelegate_creates_one_record {s s' : L} {st : SID} {a0 : AID} {o : OID} {x : Int} {n : Nat}
    {hash : String} (hi : RecInv s) (hf : FreshNonce s n) (h : undelegate s st a0 o x n hash = .ok s') :
    RecInv s' ∧
    ∃ r : URec, r.staker = st ∧ r.asset = a0 ∧ r.op = o ∧ r.nonce = n ∧ r.hash = hash ∧
      r.blockNumber = s.height ∧ r.completeBlock = s.height + s.unbonding ∧ r.actual = r.amount ∧
      find? s'.recs r.key = some r ∧ find? s.recs r.key = none ∧
      (∀ k, k ≠ r.key → find? s'.recs k = find? s.recs k) :=
  (undelegate_spec hi hf h).2

/-- a rejected undelegation (tx semantics) changes nothing — in particular no record -/
theorem C03_rejected_undelegation_no_record {s : L} {st : SID} {a0 : AID} {o : OID} {x : Int} {n : Nat}
    {hash e : String} (_h : undelegate s st a0 o x n hash = .error e) :
    (match undelegate s st a0 o x n hash with | .ok s' => s' | .error _ => s) = s := by
  rw [_h]

theorem C03_index_consistent_endBlock {s : L} (hi : RecInv s) : RecInv (nextBlock (endBlock s)) := by
  have := (endBlock_spec hi).2.1
  exact recInv_congr this rfl rfl rfl

/-- never early, never lost: a live record whose completion height is not the current height is
still there, unchanged, after the block's EndBlock -/
theorem C03_never_early_never_lost {s : L} (hi : RecInv s) (r : URec) (hl : Live s r)
    (hne : r.completeBlock ≠ s.height) : Live (nextBlock (endBlock s)) r :=
  (endBlock_spec hi).2.2.2.2.1 r hl hne

/-- a record that is due but still held by an AVS is kept, re-queued for the next block with
its amounts unchanged -/
theorem C03_held_is_requeued {s : L} (hi : RecInv s) (r : URec) (hl : Live s r)
    (hdue : r.completeBlock = s.height) (hheld : 0 < getD s.holds r.key 0) :
    find? (nextBlock (endBlock s)).recs r.key = some { r with completeBlock := s.height + 1 } :=
  (endBlock_spec hi).2.2.2.2.2 r hl hdue hheld

/-- one iteration of the EndBlock loop on a due, un-held record whose completion succeeds:
the record leaves all three stores, the staker's withdrawable grows by exactly the remaining
(`actual`) amount and its pending figure shrinks by the original amount; nothing else about other
records changes. For the native token the credit is a bank transfer of exactly `actual` out of the
escrow account. -/
theorem C03_due_unheld_released_exact {s s' : L} {r : URec} (hi : RecInv s) (hl : Live s r)
    (hh : getD s.holds r.key 0 = 0) (hc : completeRecord s r = .ok s') :
    endBlockRecord s r = s' ∧ RecInv s' ∧ find? s'.recs r.key = none ∧
    find? s'.pidx (r.completeBlock, r.nonce) = none ∧ find? s'.sidx (r.staker, r.asset, r.nonce) = none ∧
    (∀ k, k ≠ r.key → find? s'.recs k = find? s.recs k) ∧
    (r.asset = nativeAID → s'.escrow = s.escrow - r.actual ∧ r.actual ≤ s.escrow) ∧
    (r.asset ≠ nativeAID → s'.escrow = s.escrow ∧
      (getD s'.stakers (r.staker, r.asset) zeroStaker).withdrawable
        = (getD s.stakers (r.staker, r.asset) zeroStaker).withdrawable + r.actual ∧
      (getD s'.stakers (r.staker, r.asset) zeroStaker).pending
        = (getD s.stakers (r.staker, r.asset) zeroStaker).pending - r.amount) := by
  obtain ⟨_, _, _, _, _, _, hok, _⟩ := endBlockRecord_spec hi hl
  obtain ⟨_, i2, gone, oth, _, _, w, p⟩ := completeRecord_spec hi hl hc
  refine ⟨hok hh s' hc, i2, gone, ?_, ?_, oth, w, p⟩
  · cases hp : find? s'.pidx (r.completeBlock, r.nonce) with
    | none => rfl
    | some k =>
      obtain ⟨r2, hr2, he⟩ := i2.pback _ _ hp
      have hk2 := (i2.keyed _ _ hr2).1
      have hne : k ≠ r.key := by intro e; subst e; rw [gone] at hr2; cases hr2
      have hr2s : find? s.recs k = some r2 := by rw [← oth k hne]; exact hr2
      have : r2.nonce = r.nonce := by injection he
      exact absurd (hi.uniq _ _ _ _ hr2s hl this) hne
  · cases hp : find? s'.sidx (r.staker, r.asset, r.nonce) with
    | none => rfl
    | some k =>
      obtain ⟨r2, hr2, he⟩ := i2.sback _ _ hp
      have hne : k ≠ r.key := by intro e; subst e; rw [gone] at hr2; cases hr2
      have hr2s : find? s.recs k = some r2 := by rw [← oth k hne]; exact hr2
      have : r2.nonce = r.nonce := by injection he with _ h2; injection h2
      exact absurd (hi.uniq _ _ _ _ hr2s hl this) hne

/-- holds are counters: placing one and releasing it restores the count; EndBlock never changes them -/
theorem C03_endBlock_keeps_holds {s : L} (hi : RecInv s) : (nextBlock (endBlock s)).holds = s.holds :=
  (endBlock_spec hi).2.2.1

/-! ## the full statement fails: nonce collision (F-03a) -/

/-- C03 without the nonce discipline: every accepted undelegation's record stays reachable through
the pending index until it is released. -/
def C03_full : Prop :=
  ∀ (s s1 s2 : L) (st a o1 o2 : String) (x1 x2 : Int) (n : Nat) (h1 h2 : String),
    RecInv s → undelegate s st a o1 x1 n h1 = .ok s1 → undelegate s1 st a o2 x2 n h2 = .ok s2 →
    ∀ k r, find? s2.recs k = some r → find? s2.pidx (r.completeBlock, r.nonce) = some k

private def w0 : L :=
  { height := 5, unbonding := 10, totals := [("a", 100)], operators := ["o1", "o2"], clientChains := [],
    stakers := [(("s", "a"), ⟨100, 0, 0⟩)],
    pools := [(("o1", "a"), ⟨50, 0, ⟨50000000000000000000⟩, ⟨0⟩⟩), (("o2", "a"), ⟨50, 0, ⟨50000000000000000000⟩, ⟨0⟩⟩)],
    deleg := [(("s", "a", "o1"), ⟨⟨50000000000000000000⟩, 0⟩), (("s", "a", "o2"), ⟨⟨50000000000000000000⟩, 0⟩)],
    slist := [(("o1", "a"), ["s"]), (("o2", "a"), ["s"])], assoc := [], recs := [], sidx := [], pidx := [],
    holds := [], bal := [], escrow := 0, gDep := [], gWd := [], gSlashed := [] }

/-- the collision, concretely: both undelegations are accepted, both records exist, but the pending
index entry (15, 7) points at the second one only — the first is never found by EndBlock. -/
theorem C03_collision_loses_record :
    ∃ s1 s2, undelegate w0 "s" "a" "o1" 10 7 "0xh" = .ok s1 ∧ undelegate s1 "s" "a" "o2" 10 7 "0xh" = .ok s2 ∧
      find? s2.recs ⟨"o1", 5, 7, "0xh"⟩ = some ⟨"s", "a", "o1", "0xh", 7, 5, 15, 10, 10⟩ ∧
      find? s2.pidx (15, 7) = some ⟨"o2", 5, 7, "0xh"⟩ :=
  ⟨_, _, rfl, rfl, by decide, by decide⟩

theorem C03_full_fails : ¬ C03_full := by
  intro h
  obtain ⟨s1, s2, h1, h2, hr, hp⟩ := C03_collision_loses_record
  have hinv : RecInv w0 := by
    refine ⟨by simp [w0, NoDup, keys], by simp [w0, NoDup, keys], by simp [w0, NoDup, keys], ?_, ?_, ?_, ?_⟩ <;>
      intros <;> simp_all [w0, find?]
  have := h w0 s1 s2 "s" "a" "o1" "o2" 10 10 7 "0xh" "0xh" hinv h1 h2 _ _ hr
  rw [hp] at this
  injection this with this
  injection this with this
  exact absurd this (by decide)

end ExoVerif.Ledger
