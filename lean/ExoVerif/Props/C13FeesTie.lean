import ExoVerif.Generated.Facts
import ExoVerif.Model.OracleFees
/-!
# C13 — tie of the fee-path model (Model/OracleFees.lean) to app/ante/cosmos/{fees,context}.go

The decision table transcribes these statements; they are regenerated from the Go sources on every
run (tools/exofacts/facts_oracle_fees.go) and compared here, text for text.
-/
namespace ExoVerif.OracleFees
open ExoVerif.Gen

/-- DeductFeeDecorator.AnteHandle: the price-tx branch comes before every fee statement, gives top
priority and goes straight on; every other tx passes the gas-limit guard, the fee checker
(`if !simulate`) and deductFee, in this order -/
theorem C13_tie_fee_ante_handle :
    feeAnteHandleHeads =
      ["feeTx, ok := tx.(sdk.FeeTx)", "if !ok", "if anteutils.IsOracleCreatePriceTx(tx)",
       "if !simulate && ctx.BlockHeight() > 0 && feeTx.GetGas() <= 0", "var ( priority int64 err error )",
       "fee := feeTx.GetFee()", "if !simulate", "feePayer := feeTx.FeePayer()", "feeGranter := feeTx.FeeGranter()",
       "if err = dfd.deductFee(ctx, tx, fee, feePayer, feeGranter); err != nil", "newCtx := ctx.WithPriority(priority)",
       "return next(newCtx, tx, simulate)"] ∧
    feeAnteHandleOracleBranch = ["newCtx := ctx.WithPriority(math.MaxInt64)", "return next(newCtx, tx, simulate)"] := by
  constructor <;> decide

/-- deductFee collects every non-zero fee: the only early exit is the zero-fee guard -/
theorem C13_tie_fee_deducted_unless_zero : feeDeductFirstStmt = "if fees.IsZero() { return nil }" := by decide

/-- the fee checker the application wires (app.go: NewDynamicFeeChecker) is the one used: the
decorator installs its default only when none is given -/
theorem C13_tie_fee_checker_default_only_when_nil :
    feeNewDecoratorBody = ["if tfc == nil { tfc = checkTxFeeWithValidatorMinGasPrices }", "return …"] := by decide

/-- SetUpContextDecorator: a price tx gets the infinite meter with limit 0, every other tx a meter with
its own gas limit — infinite only in simulation and at genesis height -/
theorem C13_tie_gas_meter :
    setupOracleBranch = ["newCtx = ctx.WithGasMeter(evmostypes.NewInfiniteGasMeterWithLimit(0))", "return next(newCtx, tx, simulate)"] ∧
    setupAnteHandleHeads =
      ["gasTx, ok := tx.(GasTx)", "if !ok", "if anteutils.IsOracleCreatePriceTx(tx)",
       "newCtx = SetGasMeter(simulate, ctx, gasTx.GetGas())", "if cp := ctx.ConsensusParams(); cp != nil && cp.Block != nil",
       "defer …", "return next(newCtx, tx, simulate)"] ∧
    setGasMeterBody =
      ["if simulate || ctx.BlockHeight() == 0 { return ctx.WithGasMeter(sdk.NewInfiniteGasMeter()) }",
       "return ctx.WithGasMeter(sdk.NewGasMeter(gasLimit))"] := by
  refine ⟨?_, ?_, ?_⟩ <;> decide

end ExoVerif.OracleFees
