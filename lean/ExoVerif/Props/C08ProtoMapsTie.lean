import ExoVerif.Generated.Facts
import ExoVerif.Props.C08ProtoMaps
/-!
# C08 tie (encoder side): the proto map fields of the repository and how they are marshalled

`Gen.protoMapFields` lists every proto `map<K,V>` field of the generated messages under `x/` with the
shape of its loop in `MarshalToSizedBuffer` (`range-unsorted` = `for k := range m.Field`, Go map order;
`sorted-keys` = gogoproto's stable marshaller) and where the message is used (regenerated from the Go
sources on every run). `Gen.protoMapFieldWriters` lists the consensus-code sites that put entries into
such a field. The theorems below break when
* a new map field appears in a generated message, or an existing message starts to be stored
  (a `range-unsorted` field with two or more entries in a stored value has no canonical encoding:
  `C08_unsorted_map_encoding_full_fails`),
* code starts to populate `AVSInfo.AssetRewardAmountEpochBasis` (stored, unsorted, harmless only because
  it is empty: `C08_unsorted_map_encoding_partial`),
* the oracle's `Endpoint` maps get another writer than the one-entry default,
* the marshaller of a field changes shape (after the repair of F-08b `Endpoint.*` must read `sorted-keys`:
  update `protoMapReview` and `C08_tie_unsorted_consensus_map_fields` then).
-/
namespace ExoVerif.Det
open ExoVerif.Gen

/-- every proto map field, with the review of its use -/
def protoMapReview : List ((String × String × String × List String) × String) := [
  (("x/assets/types/tx.pb.go", "StakerAllAssetsInfo.AllAssetsState", "range-unsorted", []),
    "message not used by any code (no keeper stores or returns it)"),
  (("x/avs/types/tx.pb.go", "AVSInfo.AssetRewardAmountEpochBasis", "range-unsorted", ["msg", "query", "store", "tx-result"]),
    "stored by SetAVSInfo under KeyPrefixAVSInfo; never populated (no writer; the msg handlers RegisterAVS/DeRegisterAVS are unimplemented, x/avs InitGenesis ignores its state): 0 entries, one encoding"),
  (("x/delegation/types/query.pb.go", "QueryDelegationInfoResponse.DelegationInfos", "range-unsorted", ["query"]),
    "built by GetDelegationInfo; marshalled only by the gRPC query server; its in-memory use in x/assets GetStakerSpecifiedAssetInfo is a sum (mapRangeSites, shape A)"),
  (("x/oracle/types/info.pb.go", "Endpoint.Offchain", "sorted-keys", ["genesis", "msg", "query", "store"]),
    "part of the stored oracle Params (ParamsKey, RecentParams); stable marshaller since the repair of F-08b: C08_sorted_map_encoding_is_function_of_content"),
  (("x/oracle/types/info.pb.go", "Endpoint.Onchain", "sorted-keys", ["genesis", "msg", "query", "store"]),
    "as Endpoint.Offchain")]

theorem C08_tie_proto_map_fields_reviewed : protoMapFields = protoMapReview.map (·.1) := by decide

/-- a message whose bytes reach consensus state: written to a KV store or returned in a tx result -/
def consensusUse (u : List String) : Bool := u.contains "store" || u.contains "tx-result"

/-- the only unsorted map field of a consensus-relevant message is the unpopulated AVS field (the
oracle's Endpoint maps are marshalled in key order since the repair of F-08b) -/
theorem C08_tie_unsorted_consensus_map_fields :
    (protoMapFields.filter (fun f => f.2.2.1 == "range-unsorted" && consensusUse f.2.2.2)).map (·.2.1)
      = ["AVSInfo.AssetRewardAmountEpochBasis"] := by decide

/-- who puts entries into a proto map field in consensus code: nobody into the AVS field; the oracle
endpoints only the one-entry default (`literal:1`); the delegation query response is not stored -/
theorem C08_tie_proto_map_field_writers : protoMapFieldWriters = [
    ("Endpoint.Offchain", "x/oracle/types/params.go:DefaultParams:literal:1"),
    ("QueryDelegationInfoResponse.DelegationInfos", "x/delegation/keeper/delegation_state.go:Keeper.GetDelegationInfo:assign"),
    ("QueryDelegationInfoResponse.DelegationInfos", "x/delegation/keeper/delegation_state.go:Keeper.GetDelegationInfo:set-key")] := by decide

theorem C08_tie_avs_reward_basis_never_populated :
    protoMapFieldWriters.filter (fun w => w.1 == "AVSInfo.AssetRewardAmountEpochBasis") = [] := by decide

/-- codec Marshal calls whose argument the syntactic typer could not name: all of them encode types of
other modules (CometBFT keys, SDK IntProto / ValidatorUpdates / HistoricalInfo, evmos params, BLS points,
multisig data), none a message of this repository — so none of the map-bearing messages above -/
theorem C08_tie_proto_marshal_unresolved_reviewed : protoMarshalUnresolved = [
    "app/ante/cosmos/sigverify.go:signatureDataToBz:multisig.Marshal()",
    "app/ante/cosmos/txsize_gas.go:ConsumeTxSizeGasDecorator.AnteHandle:legacy.Cdc.MustMarshal(simSig)",
    "precompiles/bls/methods.go:Precompile.AddTwoPubkeys:newPubkey.Marshal()",
    "precompiles/bls/methods.go:Precompile.AggregatePubkeys:aggregatedPubkey.Marshal()",
    "precompiles/bls/methods.go:Precompile.AggregateSignatures:aggregatedSig.Marshal()",
    "x/dogfood/keeper/validators.go:Keeper.SetHistoricalInfo:k.cdc.MustMarshal(hi)",
    "x/dogfood/keeper/validators.go:Keeper.SetLastTotalPower:k.cdc.MustMarshal(&sdk.IntProto{Int: power})",
    "x/dogfood/keeper/validators.go:Keeper.SetValidatorUpdates:k.cdc.MustMarshal(&stakingtypes.ValidatorUpdates{Updates: valUpdates})",
    "x/evm/keeper/params.go:Keeper.SetParams:k.cdc.Marshal(&params)",
    "x/operator/keeper/consensus_keys.go:Keeper.SetAllPrevConsKeys:k.cdc.MustMarshal(wrappedKey.ToTmProtoKey())",
    "x/operator/keeper/consensus_keys.go:Keeper.setOperatorConsKeyForChainID:k.cdc.MustMarshal(wrappedKey.ToTmProtoKey())",
    "x/operator/keeper/consensus_keys.go:Keeper.setOperatorPrevConsKeyForChainID:k.cdc.MustMarshal(prevKey.ToTmProtoKey())",
    "x/operator/keeper/genesis.go:Keeper.InitGenesis:k.cdc.MustMarshal(wrappedKey.ToTmProtoKey())"] := by decide

end ExoVerif.Det
