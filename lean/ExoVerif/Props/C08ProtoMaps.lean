import ExoVerif.Proofs.ProtoMaps
/-!
# C08 — "independent of map iteration order", for the encoder of stored values

`Det.marshalMapUnsorted enc m order` is the generated `MarshalToSizedBuffer` of a message with a proto
`map<K,V>` field (`for k := range m.Field { …prepend the entry… }`) under the schedule `order`;
`Det.marshalMapStable enc m sort order` is what protoc-gen-gocosmos emits with gogoproto's
`stable_marshaler` option (collect the keys, sort them, visit them from the last to the first).

* The full statement — the bytes do not depend on the schedule — is FALSE for the generated code as it is
  (`C08_unsorted_map_encoding_full_fails`, witness: two entries; reproduced on the real application by the
  harness domain `determinism_protomaps`, finding F-08b: oracle `Params.Sources[i].Entry.{Offchain,Onchain}`).
* What holds for the unsorted marshaller: at most one entry (`C08_unsorted_map_encoding_partial`) — the
  situation of every other stored map field today (`Props/C08ProtoMapsTie.lean`).
* The stable marshaller is a function of the map's content, for every map and every schedule
  (`C08_sorted_map_encoding_order_independent`, `C08_sorted_map_encoding_is_function_of_content`), and lists
  the entries in ascending key order (`C08_sorted_map_encoding_lists_sorted_keys`).
-/
namespace ExoVerif.Det

/-- the clause at full strength for the generated marshaller of `Endpoint.Offchain` (field tag 0x0a) -/
def C08_unsorted_map_encoding_full : Prop :=
  ∀ (m : Nat → Option (List Nat)) (o₁ o₂ : List Nat), o₁.Perm o₂ →
    marshalMapUnsorted (entryBytes 0x0a) m o₁ = marshalMapUnsorted (entryBytes 0x0a) m o₂

/-- the map {0 ↦ "a", 1 ↦ "b"} -/
def twoEndpoints : Nat → Option (List Nat) := fun k => if k = 0 then some [97] else if k = 1 then some [98] else none

/-- … it does not hold: the two schedules of a two-entry map give different bytes -/
theorem C08_unsorted_map_encoding_full_fails : ¬ C08_unsorted_map_encoding_full := by
  intro h
  have := h twoEndpoints [0, 1] [1, 0] (List.Perm.swap 1 0 [])
  revert this
  decide

/-- the same as an explicit witness, also for the map given as an association list with distinct keys:
two lists that are permutations of each other (the same map) are encoded differently -/
theorem C08_unsorted_map_encoding_order_dependent :
    ∃ l₁ l₂ : List (Nat × List Nat), l₁.Perm l₂ ∧ (l₁.map (·.1)).Nodup ∧
      marshalAssocUnsorted (entryBytes 0x0a) l₁ ≠ marshalAssocUnsorted (entryBytes 0x0a) l₂ :=
  ⟨[(0, [97]), (1, [98])], [(1, [98]), (0, [97])], List.Perm.swap _ _ [], by decide, by decide⟩

/-- in general: whenever the bytes of two present entries do not commute, the two schedules differ -/
theorem C08_unsorted_map_encoding_two_entries {κ ν : Type} (enc : κ → ν → List Nat) (m : κ → Option ν)
    (a b : κ) (va vb : ν) (ha : m a = some va) (hb : m b = some vb)
    (hne : enc a va ++ enc b vb ≠ enc b vb ++ enc a va) :
    marshalMapUnsorted enc m [a, b] ≠ marshalMapUnsorted enc m [b, a] := by
  simp only [marshalMapUnsorted, rangeLoop, List.foldl_cons, List.foldl_nil, marshalMapBody, ha, hb, List.append_nil]
  exact fun h => hne h.symm

example : entryBytes 0x0a 0 [97] ++ entryBytes 0x0a 1 [98] ≠ entryBytes 0x0a 1 [98] ++ entryBytes 0x0a 0 [97] := by decide

/-- what does hold for the generated marshaller: a map with at most one entry has one encoding -/
theorem C08_unsorted_map_encoding_partial {κ ν : Type} (enc : κ → ν → List Nat) (m : κ → Option ν)
    {o₁ o₂ : List κ} (h : o₁.Perm o₂) (hlen : o₁.length ≤ 1) :
    marshalMapUnsorted enc m o₁ = marshalMapUnsorted enc m o₂ := by
  have hl := h.length_eq
  match o₁, o₂, h, hlen, hl with
  | [], [], _, _, _ => rfl
  | [a], [b], h, _, _ =>
    have : a = b := by
      have := h.mem_iff (a := a)
      simpa using this
    rw [this]

/-- hypotheses met non-trivially: the default genesis' `Offchain: {0: ""}` -/
example : marshalMapUnsorted (entryBytes 0x0a) (fun k => if k = 0 then some [] else none) [0] = [0x0a, 4, 8, 0, 0x12, 0] := by decide

/-- the stable marshaller does not depend on the schedule: `sort` is any function returning a sorted
permutation of its input (sortkeys.Uint64s / sortkeys.Strings = sort.Sort) under an antisymmetric order -/
theorem C08_sorted_map_encoding_order_independent {κ ν : Type} (enc : κ → ν → List Nat) (m : κ → Option ν)
    (le : κ → κ → Prop) (sort : List κ → List κ) (hperm : ∀ l, (sort l).Perm l)
    (hsorted : ∀ l, (sort l).Pairwise le) (hanti : ∀ a b, le a b → le b a → a = b)
    {o₁ o₂ : List κ} (h : o₁.Perm o₂) :
    marshalMapStable enc m sort o₁ = marshalMapStable enc m sort o₂ := by
  have hs : sort o₁ = sort o₂ :=
    List.Perm.eq_of_pairwise (fun a b _ _ => hanti a b) (hsorted _) (hsorted _)
      ((hperm _).trans (h.trans (hperm _).symm))
  simp only [marshalMapStable, hs]

/-- … hence it is a function of the map's content: two association lists with distinct keys that are
permutations of each other (the same map, enumerated differently) have the same stable encoding -/
theorem C08_sorted_map_encoding_is_function_of_content {κ ν : Type} [DecidableEq κ] (enc : κ → ν → List Nat)
    (le : κ → κ → Prop) (sort : List κ → List κ) (hperm : ∀ l, (sort l).Perm l)
    (hsorted : ∀ l, (sort l).Pairwise le) (hanti : ∀ a b, le a b → le b a → a = b)
    {l₁ l₂ : List (κ × ν)} (h : l₁.Perm l₂) (hk : (l₁.map (·.1)).Nodup) :
    marshalAssocStable enc sort l₁ = marshalAssocStable enc sort l₂ := by
  have hm : alookup l₁ = alookup l₂ := funext (alookup_perm h hk)
  simp only [marshalAssocStable, hm]
  exact C08_sorted_map_encoding_order_independent enc _ le sort hperm hsorted hanti (h.map _)

/-- the stable encoding is the concatenation of the entries in sorted key order -/
theorem C08_sorted_map_encoding_lists_sorted_keys {κ ν : Type} (enc : κ → ν → List Nat) (m : κ → Option ν)
    (sort : List κ → List κ) (order : List κ) :
    marshalMapStable enc m sort order = (sort order).flatMap (entryOf enc m) := by
  simp only [marshalMapStable, rangeLoop, List.foldl_reverse]
  exact foldr_prepend_eq_flatMap enc m (sort order)

/-- the hypotheses on `sort` are met by a real sort of uint64 keys -/
def sortU64 (l : List Nat) : List Nat := l.mergeSort (fun a b => decide (a ≤ b))

theorem sortU64_perm (l : List Nat) : (sortU64 l).Perm l := List.mergeSort_perm l _

theorem sortU64_sorted (l : List Nat) : (sortU64 l).Pairwise (· ≤ ·) := by
  have h := List.pairwise_mergeSort (le := fun a b : Nat => decide (a ≤ b))
    (fun a b c hab hbc => by simp only [decide_eq_true_eq] at *; omega)
    (fun a b => by simp only [Bool.or_eq_true, decide_eq_true_eq]; omega) l
  exact h.imp (fun hab => by simpa using hab)

/-- the witness map again: with the stable marshaller both schedules (and both association lists) agree -/
example : marshalAssocStable (entryBytes 0x0a) sortU64 [(0, [97]), (1, [98])] =
    marshalAssocStable (entryBytes 0x0a) sortU64 [(1, [98]), (0, [97])] :=
  C08_sorted_map_encoding_is_function_of_content _ (· ≤ ·) sortU64 sortU64_perm sortU64_sorted
    (fun _ _ h1 h2 => Nat.le_antisymm h1 h2) (List.Perm.swap _ _ []) (by decide)

end ExoVerif.Det
