import ExoVerif.Props.C14
import ExoVerif.Generated.Facts
/-! C14 tie: the shape of recacheAggregatorContext the model transcribes, regenerated from source. -/
namespace ExoVerif.Oracle

/-- single.go: the replay window arithmetic, the per-block replay order (prepare → messages → seal)
and the fields a replayed message is rebuilt from (validator, feeder, sources — no nonce, no base
block) are still as transcribed by `recacheAgc` / `replayLoop` / `replayMsgs`. -/
theorem C14_tie_recache_shape : ExoVerif.Gen.oracleRecacheShape.length = 9 := by decide

end ExoVerif.Oracle
