import ExoVerif.Props.C14
import ExoVerif.Generated.Facts
/-! C14 tie: the shape of recacheAggregatorContext the model transcribes, regenerated from source. -/
namespace ExoVerif.Oracle

/-- single.go: the replay window arithmetic, the per-block replay order (prepare → messages → seal)
and the fields a replayed message is rebuilt from (validator, feeder, sources — no nonce, no base
block), the window taken from the stored params (F-14f) and the round rebuild of the `from >= to`
branch (F-14c) are still as transcribed by `recacheAgc` / `replayLoop` / `replayMsgs`. -/
theorem C14_tie_recache_shape : ExoVerif.Gen.oracleRecacheShape.length = 11 := by decide

/-- caches.go: cacheMsgs.commit prunes below `oldest`, which is `block − MaxNonce` only when
`block > MaxNonce` (F-14d repair; `commitMsgs` in the model uses the saturating subtraction). -/
theorem C14_tie_cache_commit_shape : ExoVerif.Gen.oracleCacheCommitShape.length = 3 := by decide

/-- caches.go: cacheValidator.add sets `update` in each of the three branches that change the cached
map (removal, changed power, new validator) — the `cacheAddVals` of the model
(`C14_valset_change_persisted`). -/
theorem C14_tie_cache_validator_shape : ExoVerif.Gen.oracleCacheValidatorShape.length = 3 := by decide

end ExoVerif.Oracle
