import ExoVerif.Generated.Facts
import ExoVerif.Proofs.ConsKeys
/-!
# C16 tie: completion epoch, missing finish epoch, AfterEpochEnd's moves, EndBlock's order
-/
namespace ExoVerif.ConsKeys
open ExoVerif.Gen

/-- the slot every registration uses is the regenerated GetUnbondingCompletionEpoch expression -/
theorem C16_tie_completion_epoch (s : St) : completionEpoch s = unbondingCompletionEpoch s.epoch s.nUnb := rfl

theorem C16_tie_completion_is_sum (cur n : Int) : unbondingCompletionEpoch cur n = cur + n := rfl

/-- a missing finish epoch reads as −1, and (after the F-16a fix) the delegation hook returns
without holding exactly when the finish epoch it read is negative — the `none` branch of
`undelegationStarted` -/
theorem C16_tie_missing_finish_epoch :
    optOutFinishEpochMissing = -1 ∧ undelegationMissingFinishEpoch optOutFinishEpochMissing = true ∧
    (∀ f : Int, undelegationMissingFinishEpoch f = decide (f < 0)) := by
  refine ⟨by decide, by decide, fun f => rfl⟩

/-- for an operator that is opting out the completion epoch is the stored finish epoch and
nothing else (no second assignment, no min/max with the regular completion epoch): the
`some f => hold f` branch of `undelegationStarted` -/
theorem C16_tie_optout_branch :
    undelegationOptOutBranch = ["assign:GetOperatorOptOutFinishEpoch", "return-nil-if"] := by decide

/-- AfterEpochEnd: mark, then for each of the three queues read the slot, set pending, clear the
slot (`epochEndHook`) -/
theorem C16_tie_after_epoch_end :
    afterEpochEndMoves = ["MarkEpochEnd", "GetOptOutsToFinish", "SetPendingOptOuts", "DeleteOperatorOptOutFinishEpoch",
      "ClearOptOutsToFinish", "GetConsensusAddrsToPrune", "SetPendingConsensusAddrs", "ClearConsensusAddrsToPrune",
      "GetUndelegationsToMature", "SetPendingUndelegations", "ClearUndelegationsToMature"] := by decide

/-- EndBlock applies and clears the three pending lists (in the order of `endBlock`) before it
reads the validator set -/
theorem C16_tie_end_block_order :
    (endBlockOrder.take 10) = ["notEpochEnd-return", "defer-clearEpochEnd", "clearPrevKeys", "pendingUndelegations",
      "clearPendingUndelegations", "pendingOptOuts", "clearPendingOptOuts", "pendingConsAddrs",
      "clearPendingConsAddrs", "prevList"] := by decide

end ExoVerif.ConsKeys
