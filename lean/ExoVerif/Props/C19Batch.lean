import ExoVerif.Model.EvmBatch
import ExoVerif.Proofs.EvmFee
/-!
# C19 — several Ethereum messages in one cosmos tx (`deliverBatch`)

"For every Ethereum transaction included in a block the sender's nonce increases by exactly one": since the F-19d repair
(e39c03d: a contract creation restores the nonce found before it, at least msg.Nonce()+1) this holds at full strength for
every batch, every sender and creations anywhere in the batch (`C19_batch_nonce`). The creation branch as it was before
the repair is kept as `createNoncePreFix` / `deliverBatchPreFix`: `C19_regression_F19d` shows what it did (both messages
of [creation, transfer] included, nonce n+1 instead of n+2, the transfer admissible and effective a second time) and that
the repaired branch does not.
A single-message tx goes through `deliverBatch` as through `deliver` (`C19_batch_singleton`); the gas figure of the tx
(reported gas_used, charged to the block gas meter) is the sum of the gas its messages are charged for
(`C19_batch_reported_gas`); balances sum to zero (`C19_batch_balances_sum_zero`).
-/
namespace ExoVerif.EvmFee
open ExoVerif

/-! ## ante: nonces -/

theorem bumpNonces_count (ms : List Msg) : ∀ (n n' : Nat → Int), bumpNonces n ms = some n' →
    ∀ a, n' a = n a + sentBy a ms := by
  induction ms with
  | nil => intro n n' h a; simp [bumpNonces] at h; subst h; simp [sentBy]
  | cons m r ih =>
    intro n n' h a
    simp only [bumpNonces] at h
    split at h
    · have := ih _ _ h a
      rw [this]
      simp only [sentBy, addAt]
      by_cases ha : a = m.t.sender
      · subst ha; simp; omega
      · have ha' : ¬ m.t.sender = a := fun e => ha e.symm
        simp [ha, ha']
    · exact absurd h (by simp)

theorem sentBy_nonneg (a : Nat) (r : List Msg) : 0 ≤ sentBy a r := by
  induction r with
  | nil => simp [sentBy]
  | cons m r ih => simp only [sentBy]; split <;> omega

/-! ## execution: the nonce write of a contract creation -/

theorem afterExec_nonce (e : Env) (s : St) (t : Tx) (x : Exec) (g : Int) : (afterExec e s t x g).nonce = s.nonce := rfl

theorem createNonce_of_ge (nonceBefore msgNonce : Int) (h : msgNonce + 1 ≤ nonceBefore) :
    createNonce nonceBefore msgNonce = nonceBefore := by
  unfold createNonce; split <;> omega

/-- Executing the messages leaves the sequence numbers the ante handler set: the repaired creation branch never lowers
    the nonce it finds, and what it finds is at least msg.Nonce()+1 because the ante handler has counted this message. -/
theorem execMsgs_nonce (e : Env) (ms : List Msg) :
    ∀ (n n' : Nat → Int) (s : St) (meter tot : Int) (s' : St) (mt : Int) (l : List (Bool × Int)),
      bumpNonces n ms = some n' → s.nonce = n' →
      execMsgs e s meter tot ms = some (s', mt, l) → s'.nonce = n' := by
  induction ms with
  | nil =>
    intro n n' s meter tot s' mt l _ hs h
    simp only [execMsgs, execMsgsWith, Option.some.injEq, Prod.mk.injEq] at h
    rw [← h.1]; exact hs
  | cons m r ih =>
    intro n n' s meter tot s' mt l hb hs h
    simp only [bumpNonces] at hb
    split at hb
    case isFalse => exact absurd hb (by simp)
    case isTrue hnonce =>
    simp only [execMsgs, execMsgsWith] at h
    split at h
    · exact absurd h (by simp)
    · split at h
      · exact absurd h (by simp)
      · rename_i s'' mt'' l'' hrec
        simp only [Option.some.injEq, Prod.mk.injEq] at h
        rw [← h.1]
        refine ih _ n' _ _ _ _ _ _ hb ?_ hrec
        split
        · -- a successful creation: n' sender = n sender + 1 + (later messages of it) ≥ msg.Nonce()+1, so nothing changes
          have hcount := bumpNonces_count r _ _ hb m.t.sender
          have hnn := sentBy_nonneg m.t.sender r
          simp only [addAt, if_true] at hcount
          funext a
          simp only [setAt]
          by_cases ha : a = m.t.sender
          · subst ha
            have hv : (afterExec e s m.t m.x (gasUsed e m.t m.x)).nonce m.t.sender = n' m.t.sender := by
              rw [afterExec_nonce, hs]
            rw [if_pos rfl, hv, createNonce_of_ge _ _ (by omega)]
          · rw [if_neg ha, afterExec_nonce, hs]
        · rw [afterExec_nonce]; exact hs

/-! ## shape of an executed batch -/

theorem deliverBatch_executed (cn : Int → Int → Int) (e : Env) (s : St) (ms : List Msg) (rej : Int) (fl : List Bool)
    (h : (deliverBatchWith cn e s ms rej).2.1 = .executed fl) :
    ∃ s1 s2 meter l, anteBatch e s ms = some s1 ∧ execMsgsWith cn e s1 0 0 ms = some (s2, meter, l) ∧
      deliverBatchWith cn e s ms rej =
        ({ s2 with blockGas := s.blockGas + meter }, .executed (l.map (fun p => p.1)), l.map (fun p => p.2), meter) := by
  unfold deliverBatchWith at h ⊢
  cases hA : anteBatch e s ms with
  | none => rw [hA] at h; simp at h
  | some s1 =>
    rw [hA] at h
    simp only [] at h ⊢
    cases hE : execMsgsWith cn e s1 0 0 ms with
    | none =>
      rw [hE] at h
      simp only [] at h
      split at h <;> simp at h
    | some r =>
      obtain ⟨s2, meter, l⟩ := r
      rw [hE] at h
      simp only [] at h ⊢
      by_cases hover : (decide (0 < e.blockGasLimit) && decide (e.blockGasLimit < s.blockGas + meter)) = true
      · rw [if_pos hover] at h; simp at h
      · rw [if_neg hover]
        exact ⟨s1, s2, meter, l, rfl, hE, rfl⟩

theorem anteBatch_nonces (e : Env) (s s1 : St) (ms : List Msg) (hA : anteBatch e s ms = some s1) :
    bumpNonces s.nonce ms = some s1.nonce := by
  unfold anteBatch at hA
  split at hA
  · exact absurd hA (by simp)
  · split at hA
    · exact absurd hA (by simp)
    · split at hA
      · exact absurd hA (by simp)
      · split at hA
        · exact absurd hA (by simp)
        · split at hA
          · exact absurd hA (by simp)
          · rename_i n hbn
            simp only [Option.some.injEq] at hA
            rw [← hA]; exact hbn

/-! ## the nonce clause for batches -/

/-- Every included Ethereum message increments its sender's nonce by exactly one: after an executed batch the nonce of
    every account is its old nonce plus the number of messages it sent — for every batch, creations anywhere in it. -/
theorem C19_batch_nonce (e : Env) (s : St) (ms : List Msg) (rej : Int) (fl : List Bool)
    (h : (deliverBatch e s ms rej).2.1 = .executed fl) :
    ∀ a, (deliverBatch e s ms rej).1.nonce a = s.nonce a + sentBy a ms := by
  intro a
  obtain ⟨s1, s2, meter, l, hA, hE, hD⟩ := deliverBatch_executed createNonce e s ms rej fl h
  show (deliverBatchWith createNonce e s ms rej).1.nonce a = _
  rw [hD]
  have hn := anteBatch_nonces e s s1 ms hA
  have := execMsgs_nonce e ms s.nonce s1.nonce s1 0 0 s2 meter l hn rfl hE
  show s2.nonce a = _
  rw [this]
  exact bumpNonces_count ms _ _ hn a

/-- the same when the whole batch fails after its ante effects (a message below its intrinsic gas, block gas overflow):
    the messages are dropped, every one of them is charged its whole gas limit and every sender's nonce has advanced by
    the number of its messages -/
theorem C19_batch_nonce_failed (e : Env) (s : St) (ms : List Msg) (rej : Int)
    (h : (deliverBatch e s ms rej).2.1 = .applyErr ∨ (deliverBatch e s ms rej).2.1 = .blockGas) :
    ∀ a, (deliverBatch e s ms rej).1.nonce a = s.nonce a + sentBy a ms := by
  intro a
  unfold deliverBatch deliverBatchWith at h ⊢
  cases hA : anteBatch e s ms with
  | none => rw [hA] at h; simp at h
  | some s1 =>
    have hn := anteBatch_nonces e s s1 ms hA
    have hc := bumpNonces_count ms _ _ hn a
    rw [hA] at h
    simp only [] at h ⊢
    cases hE : execMsgsWith createNonce e s1 0 0 ms with
    | none => simp only []; exact hc
    | some r =>
      obtain ⟨s2, meter, l⟩ := r
      rw [hE] at h
      simp only [] at h ⊢
      by_cases hover : (decide (0 < e.blockGasLimit) && decide (e.blockGasLimit < s.blockGas + meter)) = true
      · rw [if_pos hover]; exact hc
      · rw [if_neg hover] at h; simp at h

/-! ## regression: the creation branch before the F-19d repair -/

def f19dEnv : Env := { baseFee := 1, blockGasLimit := -1, minGasMult := ⟨0⟩, minGasPrice := ⟨0⟩, collector := 0 }
def f19dState : St := { bal := fun a => if a = 1 then 1000000000 else 0, nonce := fun _ => 0, blockGas := 0 }
/-- [contract creation with nonce 0, transfer with nonce 1], both of account 1 -/
def f19dBatch : List Msg :=
  [ { t := { ty := 0, sender := 1, recipient := 3, nonce := 0, gasLimit := 150000, feeCap := 2, tipCap := 0, value := 0,
             sigOk := true, intrinsic := 53000 }, x := { evmGasUsed := 55000, failed := false }, isCreate := true },
    { t := { ty := 0, sender := 1, recipient := 2, nonce := 1, gasLimit := 21000, feeCap := 2, tipCap := 0, value := 1000,
             sigOk := true, intrinsic := 21000 }, x := { evmGasUsed := 21000, failed := false }, isCreate := false } ]

/-- F-19d. With the pre-repair branch (`SetNonce(sender, msg.Nonce()+1)` after evm.Create) both messages of the batch are
    included and paid for but the sender's nonce is 1 instead of 2, so the transfer (nonce 1) is admissible again and moves
    the value a second time. With the repaired branch the nonce is 2 and the transfer is refused. -/
theorem C19_regression_F19d :
    -- before the repair
    (deliverBatchPreFix f19dEnv f19dState f19dBatch 0).2.1 = .executed [false, false] ∧
    (deliverBatchPreFix f19dEnv f19dState f19dBatch 0).1.nonce 1 = 1 ∧ sentBy 1 f19dBatch = 2 ∧
    (deliverBatchPreFix f19dEnv f19dState f19dBatch 0).1.bal 2 = 1000 ∧
    admissible f19dEnv (deliverBatchPreFix f19dEnv f19dState f19dBatch 0).1 (f19dBatch.getD 1 default).t = true ∧
    (deliver f19dEnv (deliverBatchPreFix f19dEnv f19dState f19dBatch 0).1 (f19dBatch.getD 1 default).t
      (f19dBatch.getD 1 default).x).1.bal 2 = 2000 ∧
    -- as the code is
    (deliverBatch f19dEnv f19dState f19dBatch 0).2.1 = .executed [false, false] ∧
    (deliverBatch f19dEnv f19dState f19dBatch 0).1.nonce 1 = 2 ∧
    admissible f19dEnv (deliverBatch f19dEnv f19dState f19dBatch 0).1 (f19dBatch.getD 1 default).t = false := by
  decide

/-- the two branches differ only when the nonce found is above msg.Nonce()+1, i.e. only when the ante handler has already
    counted later messages of the same sender -/
theorem C19_create_nonce_repair (nonceBefore msgNonce : Int) :
    createNonce nonceBefore msgNonce = max nonceBefore (createNoncePreFix nonceBefore msgNonce) ∧
    (nonceBefore ≤ msgNonce + 1 → createNonce nonceBefore msgNonce = createNoncePreFix nonceBefore msgNonce) := by
  unfold createNonce createNoncePreFix
  constructor
  · split <;> omega
  · intro h; split <;> omega

/-! ## a batch of one message is `deliver` -/

theorem anteBatch_singleton (e : Env) (s : St) (m : Msg) :
    anteBatch e s [m] = if admissible e s m.t then some (afterAnte e s m.t) else none := by
  unfold anteBatch admissible admissibleSeparate msgChecksOk afterAnte
  simp only [List.all_cons, List.all_nil, Bool.and_true, payFees, bumpNonces, gasLimitSum, Int.add_zero]
  by_cases h1 : (decide (0 < e.blockGasLimit) && decide (e.blockGasLimit ≤ s.blockGas)) = true
  · simp [h1]
  · simp only [h1, Bool.false_eq_true, if_false, Bool.not_false, Bool.true_and]
    cases minGasPriceOk e m.t <;> cases wellFormed m.t <;> cases m.t.sigOk <;> cases totalCostOk s m.t <;>
      by_cases h5 : e.baseFee ≤ m.t.feeCap <;>
      by_cases h6 : (decide (0 < m.t.value) && decide (s.bal m.t.sender < m.t.value)) = true <;>
      by_cases h7 : anteFee e m.t ≤ s.bal m.t.sender <;>
      by_cases h8 : (decide (0 < e.blockGasLimit) && decide (e.blockGasLimit < m.t.gasLimit)) = true <;>
      by_cases h9 : m.t.nonce = s.nonce m.t.sender <;>
      simp [h5, h6, h7, h8, h9]

def liftOutcome : Outcome → BatchOutcome
  | .rejected => .rejected
  | .applyErr => .applyErr
  | .blockGas => .blockGas
  | .executed f => .executed [f]

/-- the creation's nonce write is the identity in a single-message tx: the admitted nonce is the sender's sequence -/
theorem setAt_nonce_singleton (e : Env) (s : St) (t : Tx) (x : Exec) (g : Int) (hn : t.nonce = s.nonce t.sender) :
    setAt (afterExec e (afterAnte e s t) t x g).nonce t.sender
        (createNonce ((afterExec e (afterAnte e s t) t x g).nonce t.sender) t.nonce)
      = (afterExec e (afterAnte e s t) t x g).nonce := by
  funext a
  simp only [setAt, afterExec_nonce, afterAnte, addAt, createNonce]
  by_cases ha : a = t.sender
  · subst ha; simp [hn]
  · simp [ha]

/-- A single-message tx goes through `deliverBatch` exactly as through `deliver`: same balances, nonces, block gas,
    outcome class and charged gas. -/
theorem C19_batch_singleton (e : Env) (s : St) (m : Msg) (rej : Int) :
    (deliverBatch e s [m] rej).1.bal = (deliver e s m.t { m.x with rejGas := rej }).1.bal ∧
    (deliverBatch e s [m] rej).1.nonce = (deliver e s m.t { m.x with rejGas := rej }).1.nonce ∧
    (deliverBatch e s [m] rej).1.blockGas = (deliver e s m.t { m.x with rejGas := rej }).1.blockGas ∧
    (deliverBatch e s [m] rej).2.1 = liftOutcome (deliver e s m.t { m.x with rejGas := rej }).2.1 ∧
    (deliverBatch e s [m] rej).2.2.1 =
      (if (deliver e s m.t { m.x with rejGas := rej }).2.1 = .rejected then [] else [(deliver e s m.t { m.x with rejGas := rej }).2.2]) := by
  cases hadm : admissible e s m.t
  · simp [deliverBatch, deliverBatchWith, deliver, anteBatch_singleton, hadm, liftOutcome]
  · have hn : m.t.nonce = s.nonce m.t.sender := by
      have := ((admissible_iff e s m.t).mp hadm).1
      simp only [admissibleSeparate, Bool.and_eq_true, decide_eq_true_eq] at this
      exact this.2
    by_cases hi : m.t.gasLimit < m.t.intrinsic
    · by_cases ho : (decide (0 < e.blockGasLimit) && decide (e.blockGasLimit < s.blockGas + m.t.gasLimit)) = true
      · simp [deliverBatch, deliverBatchWith, deliver, anteBatch_singleton, hadm, liftOutcome, execMsgsWith, hi, ho, gasLimitSum]
      · simp [deliverBatch, deliverBatchWith, deliver, anteBatch_singleton, hadm, liftOutcome, execMsgsWith, hi, ho, gasLimitSum]
    · have hg : gasUsed e m.t { m.x with rejGas := rej } = gasUsed e m.t m.x := rfl
      have hae : ∀ g, afterExec e (afterAnte e s m.t) m.t { m.x with rejGas := rej } g = afterExec e (afterAnte e s m.t) m.t m.x g := fun _ => rfl
      by_cases ho : (decide (0 < e.blockGasLimit) && decide (e.blockGasLimit < s.blockGas + gasUsed e m.t m.x)) = true
      · simp [deliverBatch, deliverBatchWith, deliver, anteBatch_singleton, hadm, liftOutcome, execMsgsWith, hi, ho, resetAndConsume, hg]
      · by_cases hc : (m.isCreate && !m.x.failed) = true
        · simp [deliverBatch, deliverBatchWith, deliver, anteBatch_singleton, hadm, liftOutcome, execMsgsWith, hi, ho, resetAndConsume, hg, hae, hc,
            setAt_nonce_singleton e s m.t m.x _ hn]
        · simp [deliverBatch, deliverBatchWith, deliver, anteBatch_singleton, hadm, liftOutcome, execMsgsWith, hi, ho, resetAndConsume, hg, hae, hc]

/-! ## the gas figure of the tx -/

def gasSum : List (Bool × Int) → Int
  | [] => 0
  | p :: r => p.2 + gasSum r

theorem execMsgs_meter (cn : Int → Int → Int) (e : Env) (ms : List Msg) :
    ∀ (s : St) (meter tot : Int) (s' : St) (mt : Int) (l : List (Bool × Int)),
      execMsgsWith cn e s meter tot ms = some (s', mt, l) → (ms ≠ [] → mt = tot + gasSum l) ∧ (ms = [] → mt = meter ∧ l = []) := by
  induction ms with
  | nil =>
    intro s meter tot s' mt l h
    simp only [execMsgsWith, Option.some.injEq, Prod.mk.injEq] at h
    exact ⟨fun h' => absurd rfl h', fun _ => ⟨h.2.1.symm, h.2.2.symm⟩⟩
  | cons m r ih =>
    intro s meter tot s' mt l h
    refine ⟨fun _ => ?_, fun h' => absurd h' (by simp)⟩
    simp only [execMsgsWith] at h
    split at h
    · exact absurd h (by simp)
    · split at h
      · exact absurd h (by simp)
      · rename_i s'' mt'' l'' hrec
        simp only [Option.some.injEq, Prod.mk.injEq] at h
        obtain ⟨_, hmt, hl⟩ := h
        subst hmt; subst hl
        have := ih _ _ _ _ _ _ hrec
        by_cases hr : r = []
        · obtain ⟨h1, h2⟩ := this.2 hr
          subst h2
          simp only [gasSum, resetAndConsume] at h1 ⊢
          omega
        · have := this.1 hr
          simp only [gasSum]
          omega

/-- The gas figure of an executed batch — what DeliverTx reports as gas_used and what the block gas meter is charged —
    is the sum of the gas figures its messages' senders pay for. -/
theorem C19_batch_reported_gas (e : Env) (s : St) (ms : List Msg) (rej : Int) (fl : List Bool)
    (h : (deliverBatch e s ms rej).2.1 = .executed fl) :
    (deliverBatch e s ms rej).2.2.2 = ((deliverBatch e s ms rej).2.2.1).sum ∧
    (deliverBatch e s ms rej).1.blockGas = s.blockGas + ((deliverBatch e s ms rej).2.2.1).sum := by
  obtain ⟨s1, s2, meter, l, hA, hE, hD⟩ := deliverBatch_executed createNonce e s ms rej fl h
  show (deliverBatchWith createNonce e s ms rej).2.2.2 = ((deliverBatchWith createNonce e s ms rej).2.2.1).sum ∧
    (deliverBatchWith createNonce e s ms rej).1.blockGas = s.blockGas + ((deliverBatchWith createNonce e s ms rej).2.2.1).sum
  rw [hD]
  have hm := execMsgs_meter createNonce e ms s1 0 0 s2 meter l hE
  have hsum : ∀ l : List (Bool × Int), (l.map (fun p => p.2)).sum = gasSum l := by
    intro l; induction l with
    | nil => rfl
    | cons p r ih => simp [gasSum, ih]
  show meter = _ ∧ s.blockGas + meter = _
  rw [hsum]
  by_cases hms : ms = []
  · obtain ⟨h1, h2⟩ := hm.2 hms
    subst h2; simp [gasSum, h1]
  · have := hm.1 hms
    constructor <;> omega

/-! ## balances -/

theorem total_move (f : Nat → Int) (a b : Nat) (d : Int) (l : List Nat) (hn : l.Nodup) (ha : a ∈ l) (hb : b ∈ l) :
    total (addAt (addAt f a (-d)) b d) l = total f l := by
  rw [total_addAt _ _ _ _ hn hb, total_addAt _ _ _ _ hn ha]; omega

theorem payFees_total (e : Env) (l : List Nat) (hn : l.Nodup) (hc : e.collector ∈ l) (ms : List Msg) :
    ∀ (b b' : Nat → Int), payFees e b ms = some b' → (∀ m ∈ ms, m.t.sender ∈ l) → total b' l = total b l := by
  induction ms with
  | nil => intro b b' h _; simp [payFees] at h; rw [h]
  | cons m r ih =>
    intro b b' h hs
    simp only [payFees] at h
    split at h
    · rw [ih _ _ h (fun m' hm' => hs m' (List.mem_cons_of_mem _ hm'))]
      exact total_move _ _ _ _ _ hn (hs m (List.mem_cons_self ..)) hc
    · exact absurd h (by simp)

theorem afterExec_total (e : Env) (s : St) (t : Tx) (x : Exec) (g : Int) (l : List Nat) (hn : l.Nodup)
    (hc : e.collector ∈ l) (hs : t.sender ∈ l) (hr : t.recipient ∈ l) :
    total (afterExec e s t x g).bal l = total s.bal l := by
  unfold afterExec
  simp only []
  have hrf := total_move (if x.failed then s.bal else addAt (addAt s.bal t.sender (-t.value)) t.recipient t.value)
    e.collector t.sender (refundAmt e t g) l hn hc hs
  rw [hrf]
  split
  · rfl
  · exact total_move _ _ _ _ _ hn hs hr

theorem execMsgs_total (cn : Int → Int → Int) (e : Env) (l : List Nat) (hn : l.Nodup) (hc : e.collector ∈ l) (ms : List Msg) :
    ∀ (s : St) (meter tot : Int) (s' : St) (mt : Int) (r : List (Bool × Int)),
      execMsgsWith cn e s meter tot ms = some (s', mt, r) → (∀ m ∈ ms, m.t.sender ∈ l ∧ m.t.recipient ∈ l) →
      total s'.bal l = total s.bal l := by
  induction ms with
  | nil =>
    intro s meter tot s' mt r h _
    simp only [execMsgsWith, Option.some.injEq, Prod.mk.injEq] at h
    rw [← h.1]
  | cons m rest ih =>
    intro s meter tot s' mt r h hin
    simp only [execMsgsWith] at h
    split at h
    · exact absurd h (by simp)
    · split at h
      · exact absurd h (by simp)
      · rename_i s'' mt'' l'' hrec
        simp only [Option.some.injEq, Prod.mk.injEq] at h
        rw [← h.1, ih _ _ _ _ _ _ hrec (fun m' hm' => hin m' (List.mem_cons_of_mem _ hm'))]
        have hm := hin m (List.mem_cons_self ..)
        have := afterExec_total e s m.t m.x (gasUsed e m.t m.x) l hn hc hm.1 hm.2
        split <;> exact this

/-- The balance changes of an executed batch add up to zero over any list of distinct accounts that contains the fee
    collector and the senders and recipients of all its messages. -/
theorem C19_batch_balances_sum_zero (e : Env) (s : St) (ms : List Msg) (rej : Int) (fl : List Bool) (l : List Nat)
    (hn : l.Nodup) (hc : e.collector ∈ l) (hin : ∀ m ∈ ms, m.t.sender ∈ l ∧ m.t.recipient ∈ l)
    (h : (deliverBatch e s ms rej).2.1 = .executed fl) :
    total (deliverBatch e s ms rej).1.bal l = total s.bal l := by
  obtain ⟨s1, s2, meter, r, hA, hE, hD⟩ := deliverBatch_executed createNonce e s ms rej fl h
  show total (deliverBatchWith createNonce e s ms rej).1.bal l = _
  rw [hD]
  show total s2.bal l = _
  rw [execMsgs_total createNonce e l hn hc ms s1 0 0 s2 meter r hE hin]
  unfold anteBatch at hA
  split at hA
  · exact absurd hA (by simp)
  · split at hA
    · exact absurd hA (by simp)
    · split at hA
      · exact absurd hA (by simp)
      · rename_i b hb
        split at hA
        · exact absurd hA (by simp)
        · split at hA
          · exact absurd hA (by simp)
          · simp only [Option.some.injEq] at hA
            rw [← hA]
            exact payFees_total e l hn hc ms _ _ hb (fun m hm => (hin m hm).1)

end ExoVerif.EvmFee
