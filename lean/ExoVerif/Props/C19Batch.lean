import ExoVerif.Model.EvmBatch
import ExoVerif.Proofs.EvmFee
/-!
# C19 — several Ethereum messages in one cosmos tx (`deliverBatch`)

"For every Ethereum transaction included in a block the sender's nonce increases by exactly one": at full strength
this fails for a batch in which a successful contract creation is followed by another message of the same sender
(`C19_batch_nonce_full_fails`, finding F-19d — the nonce of the later message stays usable). It holds for every batch
in which every successful creation is its sender's last message (`C19_batch_nonce_partial`), in particular for every
single-message tx, where `deliverBatch` is `deliver` (`C19_batch_singleton`).
The gas figure of the tx (reported gas_used, charged to the block gas meter) is the sum of the gas its messages are
charged for (`C19_batch_reported_gas`).
-/
namespace ExoVerif.EvmFee
open ExoVerif

/-! ## ante: nonces -/

theorem bumpNonces_count (ms : List Msg) : ∀ (n n' : Nat → Int), bumpNonces n ms = some n' →
    ∀ a, n' a = n a + sentBy a ms := by
  induction ms with
  | nil => intro n n' h a; simp [bumpNonces] at h; subst h; simp [sentBy]
  | cons m r ih =>
    intro n n' h a
    simp only [bumpNonces] at h
    split at h
    · have := ih _ _ h a
      rw [this]
      simp only [sentBy, addAt]
      by_cases ha : a = m.t.sender
      · subst ha; simp; omega
      · have ha' : ¬ m.t.sender = a := fun e => ha e.symm
        simp [ha, ha']
    · exact absurd h (by simp)

theorem sentBy_eq_zero_of_all_ne (a : Nat) (r : List Msg) (h : r.all (fun m' => m'.t.sender != a) = true) :
    sentBy a r = 0 := by
  induction r with
  | nil => rfl
  | cons m r ih =>
    simp only [List.all_cons, Bool.and_eq_true, bne_iff_ne, ne_eq] at h
    simp [sentBy, h.1, ih h.2]

/-! ## execution: the nonce write of a contract creation -/

theorem afterExec_nonce (e : Env) (s : St) (t : Tx) (x : Exec) (g : Int) : (afterExec e s t x g).nonce = s.nonce := rfl

/-- Under `createsLast`, executing the messages leaves the sequence numbers the ante handler set. -/
theorem execMsgs_nonce_of_createsLast (e : Env) (ms : List Msg) :
    ∀ (n n' : Nat → Int) (s : St) (meter tot : Int) (s' : St) (mt : Int) (l : List (Bool × Int)),
      bumpNonces n ms = some n' → createsLast ms = true → s.nonce = n' →
      execMsgs e s meter tot ms = some (s', mt, l) → s'.nonce = n' := by
  induction ms with
  | nil =>
    intro n n' s meter tot s' mt l _ _ hs h
    simp only [execMsgs, Option.some.injEq, Prod.mk.injEq] at h
    rw [← h.1]; exact hs
  | cons m r ih =>
    intro n n' s meter tot s' mt l hb hc hs h
    simp only [bumpNonces] at hb
    split at hb
    case isFalse => exact absurd hb (by simp)
    case isTrue hnonce =>
    simp only [createsLast, Bool.and_eq_true, Bool.or_eq_true, Bool.not_eq_true'] at hc
    simp only [execMsgs] at h
    split at h
    · exact absurd h (by simp)
    · split at h
      · exact absurd h (by simp)
      · rename_i s'' mt'' l'' hrec
        simp only [Option.some.injEq, Prod.mk.injEq] at h
        rw [← h.1]
        refine ih _ n' _ _ _ _ _ _ hb hc.2 ?_ hrec
        split
        · rename_i hcr
          -- a successful creation: the tail has no message of this sender, so n' sender = nonce + 1 already
          have htail : r.all (fun m' => m'.t.sender != m.t.sender) = true := by
            rcases hc.1 with h1 | h1
            · rw [hcr] at h1; exact absurd h1 (by simp)
            · exact h1
          have hcount := bumpNonces_count r _ _ hb m.t.sender
          rw [sentBy_eq_zero_of_all_ne _ _ htail] at hcount
          simp only [addAt, if_true] at hcount
          funext a
          simp only [setAt, afterExec_nonce]
          by_cases ha : a = m.t.sender
          · subst ha; rw [if_pos rfl, hcount, hnonce]; omega
          · rw [if_neg ha, hs]
        · rw [afterExec_nonce]; exact hs

/-! ## shape of an executed batch -/

theorem deliverBatch_executed (e : Env) (s : St) (ms : List Msg) (rej : Int) (fl : List Bool)
    (h : (deliverBatch e s ms rej).2.1 = .executed fl) :
    ∃ s1 s2 meter l, anteBatch e s ms = some s1 ∧ execMsgs e s1 0 0 ms = some (s2, meter, l) ∧
      deliverBatch e s ms rej =
        ({ s2 with blockGas := s.blockGas + meter }, .executed (l.map (fun p => p.1)), l.map (fun p => p.2), meter) := by
  unfold deliverBatch at h ⊢
  cases hA : anteBatch e s ms with
  | none => rw [hA] at h; simp at h
  | some s1 =>
    rw [hA] at h
    simp only [] at h ⊢
    cases hE : execMsgs e s1 0 0 ms with
    | none =>
      rw [hE] at h
      simp only [] at h
      split at h <;> simp at h
    | some r =>
      obtain ⟨s2, meter, l⟩ := r
      rw [hE] at h
      simp only [] at h ⊢
      by_cases hover : (decide (0 < e.blockGasLimit) && decide (e.blockGasLimit < s.blockGas + meter)) = true
      · rw [if_pos hover] at h; simp at h
      · rw [if_neg hover]
        exact ⟨s1, s2, meter, l, rfl, hE, rfl⟩

theorem anteBatch_nonces (e : Env) (s s1 : St) (ms : List Msg) (hA : anteBatch e s ms = some s1) :
    bumpNonces s.nonce ms = some s1.nonce := by
  unfold anteBatch at hA
  split at hA
  · exact absurd hA (by simp)
  · split at hA
    · exact absurd hA (by simp)
    · split at hA
      · exact absurd hA (by simp)
      · split at hA
        · exact absurd hA (by simp)
        · split at hA
          · exact absurd hA (by simp)
          · rename_i n hbn
            simp only [Option.some.injEq] at hA
            rw [← hA]; exact hbn

/-! ## the nonce clause for batches -/

/-- the property at full strength: every included Ethereum message increments its sender's nonce by exactly one -/
def C19_batch_nonce_full : Prop :=
  ∀ (e : Env) (s : St) (ms : List Msg) (rej : Int) (fl : List Bool),
    (deliverBatch e s ms rej).2.1 = .executed fl → ∀ a, (deliverBatch e s ms rej).1.nonce a = s.nonce a + sentBy a ms

def f19dEnv : Env := { baseFee := 1, blockGasLimit := -1, minGasMult := ⟨0⟩, minGasPrice := ⟨0⟩, collector := 0 }
def f19dState : St := { bal := fun a => if a = 1 then 1000000000 else 0, nonce := fun _ => 0, blockGas := 0 }
/-- [contract creation with nonce 0, transfer with nonce 1], both of account 1 -/
def f19dBatch : List Msg :=
  [ { t := { ty := 0, sender := 1, recipient := 3, nonce := 0, gasLimit := 150000, feeCap := 2, tipCap := 0, value := 0,
             sigOk := true, intrinsic := 53000 }, x := { evmGasUsed := 55000, failed := false }, isCreate := true },
    { t := { ty := 0, sender := 1, recipient := 2, nonce := 1, gasLimit := 21000, feeCap := 2, tipCap := 0, value := 1000,
             sigOk := true, intrinsic := 21000 }, x := { evmGasUsed := 21000, failed := false }, isCreate := false } ]

/-- F-19d: both messages are included and paid for, the sender's nonce is 1 instead of 2 … -/
theorem C19_batch_nonce_witness :
    (deliverBatch f19dEnv f19dState f19dBatch 0).2.1 = .executed [false, false] ∧
    (deliverBatch f19dEnv f19dState f19dBatch 0).1.nonce 1 = 1 ∧ sentBy 1 f19dBatch = 2 ∧
    (deliverBatch f19dEnv f19dState f19dBatch 0).1.bal 2 = 1000 := by
  decide

/-- … so the transfer (nonce 1) is admissible again afterwards and moves the value a second time. -/
theorem C19_batch_nonce_witness_replay :
    let s' := (deliverBatch f19dEnv f19dState f19dBatch 0).1
    let again := (f19dBatch.getD 1 default)
    admissible f19dEnv s' again.t = true ∧ (deliver f19dEnv s' again.t again.x).1.bal 2 = 2000 := by
  decide

theorem C19_batch_nonce_full_fails : ¬ C19_batch_nonce_full := by
  intro h
  have h1 := h f19dEnv f19dState f19dBatch 0 [false, false] C19_batch_nonce_witness.1 1
  rw [C19_batch_nonce_witness.2.1, C19_batch_nonce_witness.2.2.1] at h1
  exact absurd h1 (by decide)

/-- Every message of an executed batch increments its sender's nonce by exactly one, PROVIDED no successful
    contract creation is followed by a later message of the same sender. -/
theorem C19_batch_nonce_partial (e : Env) (s : St) (ms : List Msg) (rej : Int) (fl : List Bool)
    (hc : createsLast ms = true) (h : (deliverBatch e s ms rej).2.1 = .executed fl) :
    ∀ a, (deliverBatch e s ms rej).1.nonce a = s.nonce a + sentBy a ms := by
  intro a
  obtain ⟨s1, s2, meter, l, hA, hE, hD⟩ := deliverBatch_executed e s ms rej fl h
  rw [hD]
  have hn := anteBatch_nonces e s s1 ms hA
  have := execMsgs_nonce_of_createsLast e ms s.nonce s1.nonce s1 0 0 s2 meter l hn hc rfl hE
  show s2.nonce a = _
  rw [this]
  exact bumpNonces_count ms _ _ hn a

example : createsLast [f19dBatch.getD 1 default, f19dBatch.getD 0 default] = true := by decide
example : createsLast f19dBatch = false := by decide

/-! ## a batch of one message is `deliver` -/

theorem anteBatch_singleton (e : Env) (s : St) (m : Msg) :
    anteBatch e s [m] = if admissible e s m.t then some (afterAnte e s m.t) else none := by
  unfold anteBatch admissible admissibleSeparate msgChecksOk afterAnte
  simp only [List.all_cons, List.all_nil, Bool.and_true, payFees, bumpNonces, gasLimitSum, Int.add_zero]
  by_cases h1 : (decide (0 < e.blockGasLimit) && decide (e.blockGasLimit ≤ s.blockGas)) = true
  · simp [h1]
  · simp only [h1, Bool.false_eq_true, if_false, Bool.not_false, Bool.true_and]
    cases minGasPriceOk e m.t <;> cases wellFormed m.t <;> cases m.t.sigOk <;> cases totalCostOk s m.t <;>
      by_cases h5 : e.baseFee ≤ m.t.feeCap <;>
      by_cases h6 : (decide (0 < m.t.value) && decide (s.bal m.t.sender < m.t.value)) = true <;>
      by_cases h7 : anteFee e m.t ≤ s.bal m.t.sender <;>
      by_cases h8 : (decide (0 < e.blockGasLimit) && decide (e.blockGasLimit < m.t.gasLimit)) = true <;>
      by_cases h9 : m.t.nonce = s.nonce m.t.sender <;>
      simp [h5, h6, h7, h8, h9]

def liftOutcome : Outcome → BatchOutcome
  | .rejected => .rejected
  | .applyErr => .applyErr
  | .blockGas => .blockGas
  | .executed f => .executed [f]

/-- the creation's nonce write is the identity in a single-message tx: the admitted nonce is the sender's sequence -/
theorem setAt_nonce_singleton (e : Env) (s : St) (t : Tx) (x : Exec) (g : Int) (hn : t.nonce = s.nonce t.sender) :
    setAt (afterExec e (afterAnte e s t) t x g).nonce t.sender (t.nonce + 1) = (afterExec e (afterAnte e s t) t x g).nonce := by
  funext a
  simp only [setAt, afterExec_nonce, afterAnte, addAt]
  by_cases ha : a = t.sender
  · subst ha; simp [hn]
  · simp [ha]

/-- A single-message tx goes through `deliverBatch` exactly as through `deliver`: same balances, nonces, block gas,
    outcome class and charged gas. -/
theorem C19_batch_singleton (e : Env) (s : St) (m : Msg) (rej : Int) :
    (deliverBatch e s [m] rej).1.bal = (deliver e s m.t { m.x with rejGas := rej }).1.bal ∧
    (deliverBatch e s [m] rej).1.nonce = (deliver e s m.t { m.x with rejGas := rej }).1.nonce ∧
    (deliverBatch e s [m] rej).1.blockGas = (deliver e s m.t { m.x with rejGas := rej }).1.blockGas ∧
    (deliverBatch e s [m] rej).2.1 = liftOutcome (deliver e s m.t { m.x with rejGas := rej }).2.1 ∧
    (deliverBatch e s [m] rej).2.2.1 =
      (if (deliver e s m.t { m.x with rejGas := rej }).2.1 = .rejected then [] else [(deliver e s m.t { m.x with rejGas := rej }).2.2]) := by
  cases hadm : admissible e s m.t
  · simp [deliverBatch, deliver, anteBatch_singleton, hadm, liftOutcome]
  · have hn : m.t.nonce = s.nonce m.t.sender := by
      have := ((admissible_iff e s m.t).mp hadm).1
      simp only [admissibleSeparate, Bool.and_eq_true, decide_eq_true_eq] at this
      exact this.2
    by_cases hi : m.t.gasLimit < m.t.intrinsic
    · by_cases ho : (decide (0 < e.blockGasLimit) && decide (e.blockGasLimit < s.blockGas + m.t.gasLimit)) = true
      · simp [deliverBatch, deliver, anteBatch_singleton, hadm, liftOutcome, execMsgs, hi, ho, gasLimitSum]
      · simp [deliverBatch, deliver, anteBatch_singleton, hadm, liftOutcome, execMsgs, hi, ho, gasLimitSum]
    · have hg : gasUsed e m.t { m.x with rejGas := rej } = gasUsed e m.t m.x := rfl
      have hae : ∀ g, afterExec e (afterAnte e s m.t) m.t { m.x with rejGas := rej } g = afterExec e (afterAnte e s m.t) m.t m.x g := fun _ => rfl
      by_cases ho : (decide (0 < e.blockGasLimit) && decide (e.blockGasLimit < s.blockGas + gasUsed e m.t m.x)) = true
      · simp [deliverBatch, deliver, anteBatch_singleton, hadm, liftOutcome, execMsgs, hi, ho, resetAndConsume, hg]
      · by_cases hc : (m.isCreate && !m.x.failed) = true
        · simp [deliverBatch, deliver, anteBatch_singleton, hadm, liftOutcome, execMsgs, hi, ho, resetAndConsume, hg, hae, hc,
            setAt_nonce_singleton e s m.t m.x _ hn]
        · simp [deliverBatch, deliver, anteBatch_singleton, hadm, liftOutcome, execMsgs, hi, ho, resetAndConsume, hg, hae, hc]

/-! ## the gas figure of the tx -/

def gasSum : List (Bool × Int) → Int
  | [] => 0
  | p :: r => p.2 + gasSum r

theorem execMsgs_meter (e : Env) (ms : List Msg) :
    ∀ (s : St) (meter tot : Int) (s' : St) (mt : Int) (l : List (Bool × Int)),
      execMsgs e s meter tot ms = some (s', mt, l) → (ms ≠ [] → mt = tot + gasSum l) ∧ (ms = [] → mt = meter ∧ l = []) := by
  induction ms with
  | nil =>
    intro s meter tot s' mt l h
    simp only [execMsgs, Option.some.injEq, Prod.mk.injEq] at h
    exact ⟨fun h' => absurd rfl h', fun _ => ⟨h.2.1.symm, h.2.2.symm⟩⟩
  | cons m r ih =>
    intro s meter tot s' mt l h
    refine ⟨fun _ => ?_, fun h' => absurd h' (by simp)⟩
    simp only [execMsgs] at h
    split at h
    · exact absurd h (by simp)
    · split at h
      · exact absurd h (by simp)
      · rename_i s'' mt'' l'' hrec
        simp only [Option.some.injEq, Prod.mk.injEq] at h
        obtain ⟨_, hmt, hl⟩ := h
        subst hmt; subst hl
        have := ih _ _ _ _ _ _ hrec
        by_cases hr : r = []
        · obtain ⟨h1, h2⟩ := this.2 hr
          subst h2
          simp only [gasSum, resetAndConsume] at h1 ⊢
          omega
        · have := this.1 hr
          simp only [gasSum]
          omega

/-- The gas figure of an executed batch — what DeliverTx reports as gas_used and what the block gas meter is charged —
    is the sum of the gas figures its messages' senders pay for. -/
theorem C19_batch_reported_gas (e : Env) (s : St) (ms : List Msg) (rej : Int) (fl : List Bool)
    (h : (deliverBatch e s ms rej).2.1 = .executed fl) :
    (deliverBatch e s ms rej).2.2.2 = ((deliverBatch e s ms rej).2.2.1).sum ∧
    (deliverBatch e s ms rej).1.blockGas = s.blockGas + ((deliverBatch e s ms rej).2.2.1).sum := by
  obtain ⟨s1, s2, meter, l, hA, hE, hD⟩ := deliverBatch_executed e s ms rej fl h
  rw [hD]
  have hm := execMsgs_meter e ms s1 0 0 s2 meter l hE
  have hsum : ∀ l : List (Bool × Int), (l.map (fun p => p.2)).sum = gasSum l := by
    intro l; induction l with
    | nil => rfl
    | cons p r ih => simp [gasSum, ih]
  show meter = _ ∧ s.blockGas + meter = _
  rw [hsum]
  by_cases hms : ms = []
  · obtain ⟨h1, h2⟩ := hm.2 hms
    subst h2; simp [gasSum, h1]
  · have := hm.1 hms
    constructor <;> omega

/-! ## balances -/

theorem total_move (f : Nat → Int) (a b : Nat) (d : Int) (l : List Nat) (hn : l.Nodup) (ha : a ∈ l) (hb : b ∈ l) :
    total (addAt (addAt f a (-d)) b d) l = total f l := by
  rw [total_addAt _ _ _ _ hn hb, total_addAt _ _ _ _ hn ha]; omega

theorem payFees_total (e : Env) (l : List Nat) (hn : l.Nodup) (hc : e.collector ∈ l) (ms : List Msg) :
    ∀ (b b' : Nat → Int), payFees e b ms = some b' → (∀ m ∈ ms, m.t.sender ∈ l) → total b' l = total b l := by
  induction ms with
  | nil => intro b b' h _; simp [payFees] at h; rw [h]
  | cons m r ih =>
    intro b b' h hs
    simp only [payFees] at h
    split at h
    · rw [ih _ _ h (fun m' hm' => hs m' (List.mem_cons_of_mem _ hm'))]
      exact total_move _ _ _ _ _ hn (hs m (List.mem_cons_self ..)) hc
    · exact absurd h (by simp)

theorem afterExec_total (e : Env) (s : St) (t : Tx) (x : Exec) (g : Int) (l : List Nat) (hn : l.Nodup)
    (hc : e.collector ∈ l) (hs : t.sender ∈ l) (hr : t.recipient ∈ l) :
    total (afterExec e s t x g).bal l = total s.bal l := by
  unfold afterExec
  simp only []
  have hrf := total_move (if x.failed then s.bal else addAt (addAt s.bal t.sender (-t.value)) t.recipient t.value)
    e.collector t.sender (refundAmt e t g) l hn hc hs
  rw [hrf]
  split
  · rfl
  · exact total_move _ _ _ _ _ hn hs hr

theorem execMsgs_total (e : Env) (l : List Nat) (hn : l.Nodup) (hc : e.collector ∈ l) (ms : List Msg) :
    ∀ (s : St) (meter tot : Int) (s' : St) (mt : Int) (r : List (Bool × Int)),
      execMsgs e s meter tot ms = some (s', mt, r) → (∀ m ∈ ms, m.t.sender ∈ l ∧ m.t.recipient ∈ l) →
      total s'.bal l = total s.bal l := by
  induction ms with
  | nil =>
    intro s meter tot s' mt r h _
    simp only [execMsgs, Option.some.injEq, Prod.mk.injEq] at h
    rw [← h.1]
  | cons m rest ih =>
    intro s meter tot s' mt r h hin
    simp only [execMsgs] at h
    split at h
    · exact absurd h (by simp)
    · split at h
      · exact absurd h (by simp)
      · rename_i s'' mt'' l'' hrec
        simp only [Option.some.injEq, Prod.mk.injEq] at h
        rw [← h.1, ih _ _ _ _ _ _ hrec (fun m' hm' => hin m' (List.mem_cons_of_mem _ hm'))]
        have hm := hin m (List.mem_cons_self ..)
        have := afterExec_total e s m.t m.x (gasUsed e m.t m.x) l hn hc hm.1 hm.2
        split <;> exact this

/-- The balance changes of an executed batch add up to zero over any list of distinct accounts that contains the fee
    collector and the senders and recipients of all its messages. -/
theorem C19_batch_balances_sum_zero (e : Env) (s : St) (ms : List Msg) (rej : Int) (fl : List Bool) (l : List Nat)
    (hn : l.Nodup) (hc : e.collector ∈ l) (hin : ∀ m ∈ ms, m.t.sender ∈ l ∧ m.t.recipient ∈ l)
    (h : (deliverBatch e s ms rej).2.1 = .executed fl) :
    total (deliverBatch e s ms rej).1.bal l = total s.bal l := by
  obtain ⟨s1, s2, meter, r, hA, hE, hD⟩ := deliverBatch_executed e s ms rej fl h
  rw [hD]
  show total s2.bal l = _
  rw [execMsgs_total e l hn hc ms s1 0 0 s2 meter r hE hin]
  unfold anteBatch at hA
  split at hA
  · exact absurd hA (by simp)
  · split at hA
    · exact absurd hA (by simp)
    · split at hA
      · exact absurd hA (by simp)
      · rename_i b hb
        split at hA
        · exact absurd hA (by simp)
        · split at hA
          · exact absurd hA (by simp)
          · simp only [Option.some.injEq] at hA
            rw [← hA]
            exact payFees_total e l hn hc ms _ _ hb (fun m hm => (hin m hm).1)

end ExoVerif.EvmFee
