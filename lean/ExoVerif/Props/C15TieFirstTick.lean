import ExoVerif.Generated.Facts
import ExoVerif.Model.Epochs
/-!
# C15 tie: "is this identifier starting for the first time?" is decided by the flag alone

`ExoVerif.Gen.epochsFirstTickCond` is the right-hand side of `isFirstTick := …` in
x/epochs/keeper/abci.go: BeginBlocker, regenerated on every run as a function of the entry's
`EpochCountingStarted` flag and `CurrentEpoch` number. The model's `tick` reads
`!e.epochCountingStarted`. Deciding from anything else — e.g. from the number being 0: an identifier
registered mid-count with counting not started (valid per EpochInfo.Validate; "the flag is
independent of the epoch number") would never get its epoch 1, would be sent an end notification
for an epoch that never started, and would tick in every block from year 1 on — breaks this theorem
(and `C15_tie_tick`).
-/
namespace ExoVerif.Epochs
open ExoVerif.Gen

/-- BeginBlocker starts the first epoch of an identifier iff its `EpochCountingStarted` flag is not
set — for every number the entry may carry. -/
theorem C15_tie_first_tick_cond (started : Bool) (number : Int) :
    epochsFirstTickCond started number = !started := by
  unfold epochsFirstTickCond; rfl

/-- … which is the decision `tick` takes: for an entry Validate accepts and a block at or after its
start time, the first-epoch branch is taken iff the regenerated condition holds, whatever the number. -/
theorem C15_tie_first_tick_branch (e : EpochInfo) (bt h : Int) (hv : valid e = true) (hb : e.startTime ≤ bt)
    (hc : epochsFirstTickCond e.epochCountingStarted e.currentEpoch = true) :
    tick e bt h = (startFirst e h, [Ev.epochStart e.identifier 1]) := by
  have hns : e.epochCountingStarted = false := by
    rw [C15_tie_first_tick_cond] at hc; simpa using hc
  have : ¬ bt < e.startTime := by omega
  simp [tick, hv, hns, this]

end ExoVerif.Epochs
