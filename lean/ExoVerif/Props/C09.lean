import ExoVerif.Proofs.Atomic
/-!
# C09 — Failed operations are atomic: a reported failure leaves no trace

Stated for the executable effect model of `Model/Atomic.lean`: every entry point is the sequence of
its checks and writes read from the Go code, run under its real wrapper (`deliverMsg`,
`precompileCall`, `blockHook`).  What the individual checks test and what the writes store is
universally quantified (`Impl σ`, any state type `σ`), so each theorem covers every state and every
input; only the *order* of the steps is used — "all checks precede the first write, or the writes sit
inside `cached`".

The four check-after-write paths found on the real code — Slash (F-04a), NST deposit/withdraw (F-09a),
RegisterToken (F-09b), UpdateNSTByBalanceChange (F-09d) — have been repaired with cache contexts and are
atomic by shape: `C09_slash_fail_atomic`, `C09_assetsNST_fail_atomic` (+ `C09_assetsLST_fail_atomic`),
`C09_registerToken_fail_atomic`, `C09_nstBalanceChange_fail_atomic`; their old orders are kept as
`…PreFix` programs with regression witnesses.  The full statement over *all* registered entry points is
still not provable from order alone (`C09_full_fails`): delegate / undelegate / associate / dissociate /
opt-in / opt-out / createTask through the precompiles write before their last checks, and their
atomicity rests on those checks being infallible where they stand — these stay `_partial` with the
assumed checks listed explicitly (no failing input is known for them on the real code).
-/
namespace ExoVerif.Atomic

/-! ## the shape theorem and the wrappers -/

/-- If all checks precede the first caller-visible write (writes inside a cache context become
visible at `writeFunc()`), a failing run returns the entry state: for every implementation of the
steps, every state. -/
theorem C09_shape_fail_atomic {σ : Type} (I : Impl σ) (p : Prog) (s : σ) (hs : atomicShape p = true)
    (e : Err) (h : (run I p s).1 = .error e) : (run I p s).2 = s :=
  run_fail_atomic I p s hs e h

/-- the same under a precompile: `false` is returned and the state is the entry state -/
theorem C09_precompile_fail_atomic {σ : Type} (I : Impl σ) (p : Prog) (s : σ) (hs : atomicShape p = true)
    (h : (precompileCall (run I p) s).1.isFailure = true) : (precompileCall (run I p) s).2 = s := by
  unfold precompileCall at h ⊢
  cases hr : run I p s with
  | mk r s' =>
    cases r with
    | ok u => simp [hr, Outcome.isFailure] at h
    | error e =>
      have := run_fail_atomic I p s hs e (by rw [hr])
      rw [hr] at this
      cases e <;> simp_all

/-- and under a Begin/EndBlock call whose error is only logged (panics are C11's subject) -/
theorem C09_blockHook_fail_atomic {σ : Type} (I : Impl σ) (p : Prog) (s : σ) (hs : atomicShape p = true)
    (h : (blockHook (run I p) s).1.isFailure = true) : (blockHook (run I p) s).2 = s := by
  unfold blockHook at h ⊢
  cases hr : run I p s with
  | mk r s' =>
    cases r with
    | ok u => simp [hr, Outcome.isFailure] at h
    | error e =>
      have := run_fail_atomic I p s hs e (by rw [hr])
      rw [hr] at this
      cases e <;> simp_all

/-- An SDK message is atomic whatever its handler does: runTx drops the message cache on error and
on panic. (Store state only; process memory is not covered by the cache — see F-09c in the report.) -/
theorem C09_deliverMsg_fail_atomic {σ α : Type} (m : Eff σ α) (s : σ)
    (h : (deliverMsg m s).1.isFailure = true) : (deliverMsg m s).2 = s := by
  unfold deliverMsg at h ⊢
  cases hr : m s with
  | mk r s' =>
    cases r with
    | ok u => simp [hr, Outcome.isFailure] at h
    | error e => cases e <;> simp

/-- A panic inside a precompile drops the whole EVM transaction. -/
theorem C09_precompile_panic_atomic {σ α : Type} (m : Eff σ α) (s s' : σ) (w : String)
    (h : m s = (.error (.panic w), s')) : precompileCall m s = (.reverted w, s) := by
  unfold precompileCall; rw [h]

/-- `cached` (CacheContext + conditional write) makes any effect fail-atomic. -/
theorem C09_cached_fail_atomic {σ α : Type} (m : Eff σ α) (s : σ) (e : Err)
    (h : (cached m s).1 = .error e) : (cached m s).2 = s := cached_fail_atomic m s e h

/-- A program wrapped in one cache context is `cached` of its body: the `openC … closeC` markers of
the interpreter mean what `cached` means. -/
theorem C09_markers_are_cached {σ : Type} (I : Impl σ) (n : String) (s : σ) :
    run I [.openC, .call n, .closeC] s = cached (I.eff n s) s := by
  unfold run cached
  simp only [exec]
  cases h : I.eff n s s with
  | mk r c' => cases r <;> simp

/-! ## entry points that are atomic by their shape alone -/

theorem C09_registerOrUpdateClientChain_fail_atomic {σ : Type} (I : Impl σ) (s : σ)
    (h : (precompileCall (run I registerOrUpdateClientChain) s).1.isFailure = true) :
    (precompileCall (run I registerOrUpdateClientChain) s).2 = s :=
  C09_precompile_fail_atomic I _ s (by decide) h

theorem C09_updateToken_fail_atomic {σ : Type} (I : Impl σ) (s : σ)
    (h : (precompileCall (run I updateToken) s).1.isFailure = true) :
    (precompileCall (run I updateToken) s).2 = s :=
  C09_precompile_fail_atomic I _ s (by decide) h

/-- LST deposit / withdrawal through the precompile: every step after argument parsing runs on one cache
context written last (commit "fix: F-09a"), so a refusal anywhere — including UpdateStakingAssetTotalAmount
after the staker's record was updated — returns `false` and leaves nothing -/
theorem C09_assetsLST_fail_atomic {σ : Type} (I : Impl σ) (s : σ)
    (h : (precompileCall (run I assetsDepositWithdrawLST) s).1.isFailure = true) :
    (precompileCall (run I assetsDepositWithdrawLST) s).2 = s :=
  C09_precompile_fail_atomic I _ s (by decide) h

/-- NST deposit / withdrawal: the booking in x/assets and the oracle's validator-list update share that
cache context; a refusal of the oracle side ("remove unexist validator") no longer leaves the booking (F-09a, fixed) -/
theorem C09_assetsNST_fail_atomic {σ : Type} (I : Impl σ) (s : σ)
    (h : (precompileCall (run I assetsDepositWithdrawNST) s).1.isFailure = true) :
    (precompileCall (run I assetsDepositWithdrawNST) s).2 = s :=
  C09_precompile_fail_atomic I _ s (by decide) h

/-- RegisterToken: asset and oracle token/feeder are registered in one cache context (F-09b, fixed) … -/
theorem C09_registerToken_fail_atomic {σ : Type} (I : Impl σ) (s : σ)
    (h : (precompileCall (run I registerToken) s).1.isFailure = true) :
    (precompileCall (run I registerToken) s).2 = s :=
  C09_precompile_fail_atomic I _ s (by decide) h

/-- … and the one write a cache context cannot undo — the oracle's in-memory params cache — is the last
step before `writeFunc()`: no check or callee that could still fail follows it -/
theorem C09_registerToken_mem_write_last :
    ((registerToken.dropWhile (· != .write "cs.AddCache(ItemP)")).all
      (fun st => match st with | .check _ => false | .call _ => false | _ => true)) = true ∧
    registerToken.contains (.write "cs.AddCache(ItemP)") = true := by decide

/-- UpdateNSTByBalanceChange (called from the price-update path, its error only logged): the per-staker
loop runs in one cache context written after the last staker (F-09d, fixed) -/
theorem C09_nstBalanceChange_fail_atomic {σ : Type} (I : Impl σ) (s : σ)
    (h : (blockHook (run I updateNSTByBalanceChange2) s).1.isFailure = true) :
    (blockHook (run I updateNSTByBalanceChange2) s).2 = s :=
  C09_blockHook_fail_atomic I _ s (by decide) h

/-- delegation msg server: the whole loop runs in a cache context -/
theorem C09_msgDelegate_fail_atomic {σ : Type} (I : Impl σ) (s : σ) (e : Err)
    (h : (run I msgDelegate s).1 = .error e) : (run I msgDelegate s).2 = s :=
  run_fail_atomic I _ s (by decide) e h

theorem C09_msgUndelegate_fail_atomic {σ : Type} (I : Impl σ) (s : σ) (e : Err)
    (h : (run I msgUndelegate s).1 = .error e) : (run I msgUndelegate s).2 = s :=
  run_fail_atomic I _ s (by decide) e h

theorem C09_msgOptIn_fail_atomic {σ : Type} (I : Impl σ) (s : σ) (e : Err)
    (h : (run I msgOptIn s).1 = .error e) : (run I msgOptIn s).2 = s :=
  run_fail_atomic I _ s (by decide) e h

theorem C09_msgOptOut_fail_atomic {σ : Type} (I : Impl σ) (s : σ) (e : Err)
    (h : (run I msgOptOut s).1 = .error e) : (run I msgOptOut s).2 = s :=
  run_fail_atomic I _ s (by decide) e h

/-- one matured undelegation record in EndBlock: every step sits inside the record's cache context -/
theorem C09_endBlockRecord_fail_atomic {σ : Type} (I : Impl σ) (s : σ)
    (h : (blockHook (run I endBlockRecord) s).1.isFailure = true) :
    (blockHook (run I endBlockRecord) s).2 = s :=
  C09_blockHook_fail_atomic I _ s (by decide) h

/-- voting-power update of one AVS (main branch): reads first, then a cache context -/
theorem C09_updateVotingPower_fail_atomic {σ : Type} (I : Impl σ) (s : σ)
    (h : (blockHook (run I updateVotingPower) s).1.isFailure = true) :
    (blockHook (run I updateVotingPower) s).2 = s :=
  C09_blockHook_fail_atomic I _ s (by decide) h

/-- Slash (called from BeginBlock through the dogfood slashing hooks, its error only logged): the asset
cut and the slash-info checks share one cache context that is written last, so a refused slash —
duplicate id, wrong slash contract, proportion > 1 — leaves nothing behind (F-04a, fixed by b01075b) -/
theorem C09_slash_fail_atomic {σ : Type} (I : Impl σ) (s : σ)
    (h : (blockHook (run I slash) s).1.isFailure = true) : (blockHook (run I slash) s).2 = s :=
  C09_blockHook_fail_atomic I _ s (by decide) h

/-- A failing item in per-item block processing leaves no partial effect and does not stop the
others: the result is that of the list without the item. -/
theorem C09_item_fail_isolated {σ : Type} (pre post : List (Eff σ Unit)) (bad : Eff σ Unit) (s : σ) (e : Err)
    (h : (bad (runItems pre s)).1 = .error e) :
    runItems (pre ++ bad :: post) s = runItems (pre ++ post) s := by
  rw [runItems_append, runItems_append]
  generalize runItems pre s = t at h
  have hb : cached bad t = (.error e, t) := by
    unfold cached
    cases hm : bad t with
    | mk r s' => cases r with
      | ok u => rw [hm] at h; simp at h
      | error e' => rw [hm] at h; simp at h; simp [h]
  simp only [runItems, List.foldl_cons, hb]

/-! ## entry points atomic only if later checks cannot fail where they stand (`_partial`) -/

/-- delegate: after the staker's withdrawable amount was reduced, CalculateShare (ErrDivisorIsZero when
the pool has shares but no tokens), the operator/delegation updates and the staker list may still fail -/
def delegateAssumed : List String :=
  ["CalculateShare", "GetAssociatedOperator", "UpdateAssetValue(operator.TotalAmount)",
   "UpdateAssetValue(operator.PendingUndelegationAmount)", "UpdateAssetDecValue(TotalShare)",
   "UpdateAssetDecValue(OperatorShare)", "UpdateDelegationState", "AppendStakerForOperator"]

theorem C09_precompileDelegate_fail_atomic_partial {σ : Type} (I : Impl σ) (s : σ)
    (hinf : ∀ n, n ∈ delegateAssumed → ∀ c, I.chk n s c = none) (e : Err)
    (h : (run I precompileDelegate s).1 = .error e) : (run I precompileDelegate s).2 = s :=
  run_fail_atomic_assuming I delegateAssumed _ s hinf (by decide) e h

theorem C09_precompileDelegate_shape_not_atomic : atomicShape precompileDelegate = false := by decide

/-- opt-in through the AVS precompile (no cache context there): GetAVSSlashContract / SetOptedInfo come
after InitOperatorUSDValue's write -/
def optInAssumed : List String := ["GetAVSSlashContract", "SetOptedInfo"]

theorem C09_precompileOptIn_fail_atomic_partial {σ : Type} (I : Impl σ) (s : σ)
    (hinf : ∀ n, n ∈ optInAssumed → ∀ c, I.chk n s c = none) (e : Err)
    (h : (run I precompileOptIn s).1 = .error e) : (run I precompileOptIn s).2 = s :=
  run_fail_atomic_assuming I optInAssumed _ s hinf (by decide) e h

def optOutAssumed : List String := ["HandleOptedInfo"]

theorem C09_precompileOptOut_fail_atomic_partial {σ : Type} (I : Impl σ) (s : σ)
    (hinf : ∀ n, n ∈ optOutAssumed → ∀ c, I.chk n s c = none) (e : Err)
    (h : (run I precompileOptOut s).1 = .error e) : (run I precompileOptOut s).2 = s :=
  run_fail_atomic_assuming I optOutAssumed _ s hinf (by decide) e h

/-- createTask through the AVS precompile (x/avs/keeper/keeper.go: CreateAVSTask): the task-id counter is
bumped (GetTaskID) only after the owner, voting-power, epoch, existence and operator-list checks; what
can still fail afterwards is SetTaskInfo's IsHexAddress on the caller's own address and the event -/
def createTaskAssumed : List String := ["IsHexAddress(task)", "EmitCreateAVSTaskEvent"]

theorem C09_precompileCreateTask_fail_atomic_partial {σ : Type} (I : Impl σ) (s : σ)
    (hinf : ∀ n, n ∈ createTaskAssumed → ∀ c, I.chk n s c = none) (e : Err)
    (h : (run I precompileCreateTask s).1 = .error e) : (run I precompileCreateTask s).2 = s :=
  run_fail_atomic_assuming I createTaskAssumed _ s hinf (by decide) e h

/-- a refusal at any of the checks that precede the task-id allocation leaves no trace (what the
correspondence run observes for owner / voting-power / epoch refusals) -/
theorem C09_createTask_early_refusals_clean :
    ["GetTaskParamsFromInputs", "GetAVSInfoByTaskAddress", "owner contains caller", "GetAVSUSDValue>0", "GetEpochInfo",
      "IsExistTask", "GetOptInOperators"].all (fun n => dirtyAt precompileCreateTask n false false 0 == some false) = true := by
  decide

/-! ## witnesses: the check-after-write paths really leave a trace (state = a counter of writes) -/

/-- every write and every callee adds one; the checks named in `bad` fail, all others pass -/
def counting (bad : List String) : Impl Nat where
  chk n _ _ := if bad.contains n then some (.reject n) else none
  wr _ _ c := c + 1
  eff _ _ := fun c => (.ok (), c + 1)

/-- the order Slash had before commit b01075b (`writeFunc()` before UpdateOperatorSlashInfo): kept to
show that the shape condition and the tie `C09_tie_slash_order` are what separates the two -/
def slashPreFix : Prog :=
  [.check "CheckSlashParameter", .openC, .call "SlashAssets", .closeC,
   .check "AccAddressFromBech32", .check "Has(slashInfoKey)", .check "GetAVSSlashContract",
   .check "SlashContract!=stored", .check "EventHeight>SubmittedHeight", .check "SlashProportion range",
   .write "Set(slashInfo)"]

/-- F-04a (fixed): with the old order a duplicate slash id was detected after the cut was committed;
with the current order the same failing check leaves the entry state -/
theorem C09_slash_regression_witness :
    atomicShape slashPreFix = false ∧
    blockHook (run (counting ["Has(slashInfoKey)"]) slashPreFix) 0 = (.failed "Has(slashInfoKey)", 1) ∧
    blockHook (run (counting ["Has(slashInfoKey)"]) slash) 0 = (.failed "Has(slashInfoKey)", 0) ∧
    blockHook (run (counting ["SlashContract!=stored"]) slash) 0 = (.failed "SlashContract!=stored", 0) ∧
    blockHook (run (counting ["SlashProportion range"]) slash) 0 = (.failed "SlashProportion range", 0) ∧
    blockHook (run (counting []) slash) 0 = (.ok, 2) := by
  refine ⟨?_, ?_, ?_, ?_, ?_, ?_⟩ <;> decide

/-- the orders the three repaired entry points had before their fixes (no cache context) -/
def assetsNSTPreFix : Prog :=
  [.check "CheckExocoreGatewayAddr", .check "DepositWithdrawParams"] ++ performDepositOrWithdraw ++
  updateNSTValidatorListForStaker ++ [.check "GetStakerSpecifiedAssetInfo"]

def registerTokenPreFix : Prog :=
  [.check "CheckExocoreGatewayAddr", .check "TokenFromInputs", .check "IsStakingAsset(already)",
   .check "GetTokenIDFromAssetID", .check "ParseInt(decimal)", .check "ParseUint(interval)",
   .write "oracle.SetParams", .write "cs.AddCache(ItemP)",
   .check "Decimals>MaxDecimal", .check "StakingTotalAmount.IsNegative", .check "Has(assetID)", .write "Set(asset)"]

def nstBalanceChangePreFix : Prog :=
  updateNSTByBalanceChange2.filter (fun st => st != .openC && st != .closeC)

/-- F-09a (fixed): old order — booked (2 writes), then the validator-list update refuses; new order — same
refusal, entry state -/
theorem C09_nst_regression_witness :
    atomicShape assetsNSTPreFix = false ∧
    precompileCall (run (counting ["exists||amount.IsPositive"]) assetsNSTPreFix) 0
      = (.failed "exists||amount.IsPositive", 2) ∧
    precompileCall (run (counting ["exists||amount.IsPositive"]) assetsDepositWithdrawNST) 0
      = (.failed "exists||amount.IsPositive", 0) ∧
    precompileCall (run (counting ["UpdateAssetValue(StakingTotalAmount)"]) assetsDepositWithdrawLST) 0
      = (.failed "UpdateAssetValue(StakingTotalAmount)", 0) ∧
    precompileCall (run (counting []) assetsDepositWithdrawNST) 0 = (.ok, 4) := by
  refine ⟨?_, ?_, ?_, ?_, ?_⟩ <;> decide

/-- F-09b (fixed): old order — oracle token registered (store + cache), then the asset is rejected -/
theorem C09_registerToken_regression_witness :
    atomicShape registerTokenPreFix = false ∧
    precompileCall (run (counting ["Decimals>MaxDecimal"]) registerTokenPreFix) 0 = (.failed "Decimals>MaxDecimal", 2) ∧
    precompileCall (run (counting ["Decimals>MaxDecimal"]) registerToken) 0 = (.failed "Decimals>MaxDecimal", 0) ∧
    precompileCall (run (counting ["ParseInt(decimal)"]) registerToken) 0 = (.failed "ParseInt(decimal)", 0) ∧
    precompileCall (run (counting []) registerToken) 0 = (.ok, 3) := by
  refine ⟨?_, ?_, ?_, ?_, ?_⟩ <;> decide

/-- F-09d (fixed): old order — staker 1 updated and stored, then staker 2 is refused -/
theorem C09_nstBalanceChange_regression_witness :
    atomicShape nstBalanceChangePreFix = false ∧
    blockHook (run (counting ["balance range(2)"]) nstBalanceChangePreFix) 0 = (.failed "balance range(2)", 2) ∧
    blockHook (run (counting ["balance range(2)"]) updateNSTByBalanceChange2) 0 = (.failed "balance range(2)", 0) ∧
    blockHook (run (counting []) updateNSTByBalanceChange2) 0 = (.ok, 4) := by
  refine ⟨?_, ?_, ?_, ?_⟩ <;> decide

/-- delegate after a pool was emptied while keeping shares: withdrawable reduced, then ErrDivisorIsZero -/
theorem C09_delegate_witness :
    precompileCall (run (counting ["CalculateShare"]) precompileDelegate) 0 = (.failed "CalculateShare", 1) := by
  decide

/-! ## the full statement -/

/-- C09 as the property words it: every modelled entry point, under the wrapper that lets its writes
through on error, for every implementation of its steps and every state: failure ⇒ state unchanged. -/
def C09_full : Prop :=
  ∀ (name : String) (p : Prog), (name, p) ∈ entryPoints →
    ∀ (I : Impl Nat) (s : Nat), (precompileCall (run I p) s).1.isFailure = true → (precompileCall (run I p) s).2 = s

/-- refuted in the model only: the witness is the shape of `delegateTo` (CalculateShare after the staker's
record was written) with an implementation in which that check fails; no such state is known on the real code -/
theorem C09_full_fails : ¬ C09_full := by
  intro h
  have h1 := h "delegation.delegate" precompileDelegate (by decide) (counting ["CalculateShare"]) 0
  rw [C09_delegate_witness] at h1
  exact absurd (h1 rfl) (by decide)

/-- which registered entry points are atomic by shape alone — the rest carry `_partial` theorems -/
theorem C09_shape_census :
    (entryPoints.filter (fun x => atomicShape x.2)).map (·.1) =
      ["assets.depositLST", "assets.withdrawLST", "assets.depositNST", "assets.withdrawNST",
       "assets.registerOrUpdateClientChain", "assets.registerToken", "assets.updateToken", "reward.claimReward",
       "msg.delegate", "msg.undelegate", "msg.optIn", "msg.optOut", "operator.Slash", "delegation.EndBlock.record",
       "operator.UpdateVotingPower", "oracle.UpdateNSTByBalanceChange", "oracle.CreatePrice", "oracle.UpdateParams"] := by decide

/-! ## non-vacuity -/

example : precompileCall (run (counting ["IsStakingAsset"]) assetsDepositWithdrawLST) 7 = (.failed "IsStakingAsset", 7) := by decide
example : precompileCall (run (counting []) assetsDepositWithdrawLST) 7 = (.ok, 9) := by decide
example : blockHook (run (counting ["DeleteUndelegationRecord"]) endBlockRecord) 3 = (.failed "DeleteUndelegationRecord", 3) := by decide
example : runItems [run (counting []) endBlockRecord, run (counting ["DeleteUndelegationRecord"]) endBlockRecord,
    run (counting []) endBlockRecord] 0 = 8 := by decide

end ExoVerif.Atomic
