import ExoVerif.Proofs.OracleHistEx
import ExoVerif.Proofs.OracleHistAgg
/-!
# C12, history level — theorems over every finite list of blocks (`runBlocks`)

`Props/C12.lean` states C12's clauses for one call (aggregate, AppendPriceTR, GrowRoundID, one
SealRound/PrepareRoundEndBlock on one entry) and proves the block induction on a one-feeder *slice*
(`slRun`). Here the same clauses are stated on the application state of the model itself
(`State`: store + in-memory aggregator context + cache) and proved by induction over `runBlocks`
(Proofs/OracleRestart.lean: BeginBlock, the block's transactions through the ante chain and
`CreatePrice`, EndBlock), for every parameter set, validator set, validator-set update list and
transaction list.

Standing hypothesis `PF p s` ("params fixed"): the node is running (its aggregator context exists)
with parameter set `p` and no other parameter set is pending in the cache. `runBlocks` has no
parameter-update operation, so `PF` is an invariant (`runBlocks_pf`).
-/
namespace ExoVerif.Oracle

/-! ## a round's price is recorded at most once -/

/-- **Recorded at most once, over whole histories.** Along every list of blocks, every write into a
token's price history goes to the id the counter points at and advances the counter
(`TokSteps`: the history changes by AppendPriceTR calls only — final prices and GrowRoundID alike,
whatever the transactions, roll-backs, forced seals), hence: the counter never decreases, every
record sits under its own id below the counter, and an id that has been passed is never written
again — its record is still the same at every later point of the history, or has expired.
The run never halts in EndBlock. -/
theorem C12_hist_recorded_at_most_once (p : Params) (s : State) (bs : List Block) (hpf : PF p s) :
    ∃ s' outs, runBlocks s bs = some (s', outs) ∧ PF p s' ∧
      ∀ tok, TokWf (s.store.token tok) →
        TokWf (s'.store.token tok) ∧
        (s.store.token tok).nextRoundID ≤ (s'.store.token tok).nextRoundID ∧
        ∀ k, k < (s.store.token tok).nextRoundID →
          alookup k (s'.store.token tok).rounds = alookup k (s.store.token tok).rounds ∨
          alookup k (s'.store.token tok).rounds = none := by
  obtain ⟨s', outs, hr, hs, hpf', _⟩ := runBlocks_pf p bs s hpf
  refine ⟨s', outs, hr, hpf', ?_⟩
  intro tok hw
  exact ⟨(hs tok).wf hw, (hs tok).mono, fun k hk => (hs tok).immut hw k hk⟩

/-- The same between any two points of a history: what is stored below the counter after the first
`bs1` blocks is still there (or expired) after any further `bs2` blocks, and an id that was already
empty below the counter (expired) stays empty — no round id is ever recorded twice. -/
theorem C12_hist_recorded_once_between (p : Params) (s s1 s2 : State) (bs1 bs2 : List Block)
    (o1 o2 : List (List TxOut)) (hpf : PF p s) (tok : Nat) (hw : TokWf (s.store.token tok))
    (h1 : runBlocks s bs1 = some (s1, o1)) (h2 : runBlocks s1 bs2 = some (s2, o2)) (k : Nat)
    (hk : k < (s1.store.token tok).nextRoundID) :
    (alookup k (s2.store.token tok).rounds = alookup k (s1.store.token tok).rounds ∨
      alookup k (s2.store.token tok).rounds = none) ∧
    (alookup k (s1.store.token tok).rounds = none → alookup k (s2.store.token tok).rounds = none) := by
  obtain ⟨s1', o1', hr1, hs1, hpf1, _⟩ := runBlocks_pf p bs1 s hpf
  rw [h1] at hr1
  simp only [Option.some.injEq, Prod.mk.injEq] at hr1
  obtain ⟨e1, _⟩ := hr1
  subst e1
  obtain ⟨s2', o2', hr2, hs2, _, _⟩ := runBlocks_pf p bs2 s1 hpf1
  rw [h2] at hr2
  simp only [Option.some.injEq, Prod.mk.injEq] at hr2
  obtain ⟨e2, _⟩ := hr2
  subst e2
  have hw1 := (hs1 tok).wf hw
  exact ⟨(hs2 tok).immut hw1 k hk, fun hn => (hs2 tok).stays_none hw1 k hk hn⟩

/-! ## stored rounds are contiguous within the retention window; at most MaxSizePrices are retained -/

/-- **No gaps in the store, bounded retention, over whole histories.** If a token's price history
starts inside its retention window (`TokWin m lo`: every stored id `k` has `next ≤ k + m`; ids from
`lo` up are all present), then after every list of blocks it still does — every id from `lo` up to
the counter that is younger than `MaxSizePrices` rounds is stored, nothing older is — and at most
`MaxSizePrices` rounds are retained. (uint64 arithmetic: stated while the counter is ≤ 2^64.) -/
theorem C12_hist_contiguous_and_retained (p : Params) (s : State) (bs : List Block) (hpf : PF p s)
    (hm1 : 1 ≤ p.maxSizePrices) (hm : p.maxSizePrices < 2 ^ 64) :
    ∃ s' outs, runBlocks s bs = some (s', outs) ∧
      ∀ tok lo, TokWf (s.store.token tok) → TokWin p.maxSizePrices lo (s.store.token tok) →
        (s'.store.token tok).nextRoundID ≤ 2 ^ 64 →
        TokWin p.maxSizePrices lo (s'.store.token tok) ∧ (s'.store.token tok).rounds.length ≤ p.maxSizePrices := by
  obtain ⟨s', outs, hr, hs, _, _⟩ := runBlocks_pf p bs s hpf
  refine ⟨s', outs, hr, ?_⟩
  intro tok lo hw hv hb
  have h1 := (hs tok).win lo hw hv hm1 hm hb
  exact ⟨h1, retained_le _ _ lo ((hs tok).wf hw) h1⟩

/-! ## every round closes exactly once: the stored counter is `n0 +` the number of closed rounds -/

/-- **Round ids advance by exactly one per interval, on the application state, over whole
histories** (partial: see `C12_hist_round_ids_full_fails`). Feeder `fid` (no end block, the only
feeder of its token, `1 ≤ MaxNonce < Interval`), any state satisfying the invariant `HInv` at a
block boundary, any list of blocks in which no transaction fails at a message after its first
(`NoLateFail`): the invariant holds again at the end. `HInv` says: before the feeder's start block
there is no round entry and the token's counter is `n0`; from the start block `start` on, after
EndBlock of block `b` the feeder's in-memory entry is the round with base `b − (b−start) mod interval`
and id `StartRoundID + (b−start) div interval`, open only inside its window, and the stored
NextRoundID of its token is `n0 + (b−start) div interval + [that round is closed]` — every elapsed
round has been closed exactly once (by its final price, by window expiry or by a validator-set
change, whichever came first), none skipped, none twice. -/
theorem C12_hist_round_ids_partial (p : Params) (fid : Nat) (f : Feeder) (n0 : Nat) (H : FeederHyp p fid f)
    (hmn : 1 ≤ p.maxNonce) (hiv : p.maxNonce < f.interval) (s : State) (bs : List Block)
    (h : HInv p fid f n0 s) :
    ∃ s' outs, runBlocks s bs = some (s', outs) ∧ s'.height = s.height + bs.length ∧
      (NoLateFail outs → HInv p fid f n0 s') := by
  obtain ⟨s', outs, hr, _, _, hh⟩ := runBlocks_pf p bs s h.pf
  exact ⟨s', outs, hr, hh, fun hnl => runBlocks_hinv p fid f H n0 hmn hiv bs s s' outs hr hnl h⟩

/-- … in particular when every transaction carries a single message (what price feeders send). -/
theorem C12_hist_round_ids_single_msg_partial (p : Params) (fid : Nat) (f : Feeder) (n0 : Nat) (H : FeederHyp p fid f)
    (hmn : 1 ≤ p.maxNonce) (hiv : p.maxNonce < f.interval) (s : State) (bs : List Block)
    (h : HInv p fid f n0 s) (hs : SingleMsg bs) :
    ∃ s' outs, runBlocks s bs = some (s', outs) ∧ s'.height = s.height + bs.length ∧ HInv p fid f n0 s' := by
  obtain ⟨s', outs, hr, hh, hi⟩ := C12_hist_round_ids_partial p fid f n0 H hmn hiv s bs h
  exact ⟨s', outs, hr, hh, hi (runBlocks_single bs s s' outs hr hs)⟩

/-- The invariant spelled out at the end of a history that has reached the feeder's start block. -/
theorem C12_hist_next_round_id_partial (p : Params) (fid : Nat) (f : Feeder) (n0 : Nat) (H : FeederHyp p fid f)
    (hmn : 1 ≤ p.maxNonce) (hiv : p.maxNonce < f.interval) (s s' : State) (bs : List Block)
    (outs : List (List TxOut)) (h : HInv p fid f n0 s) (hr : runBlocks s bs = some (s', outs))
    (hnl : NoLateFail outs) (hst : f.startBaseBlock ≤ s'.height) :
    ∃ g r, s'.agc = some g ∧ alookup fid g.rounds = some r ∧
      r.basedBlock = s'.height - (s'.height - f.startBaseBlock) % f.interval ∧
      r.nextRoundID = f.startRoundID + (s'.height - f.startBaseBlock) / f.interval ∧
      (r.status = .open → (s'.height - f.startBaseBlock) % f.interval < p.maxNonce) ∧
      (s'.store.token f.tokenID).nextRoundID =
        n0 + (s'.height - f.startBaseBlock) / f.interval + (if r.status = .closed then 1 else 0) := by
  have hi := runBlocks_hinv p fid f H n0 hmn hiv bs s s' outs hr hnl h
  obtain ⟨g, hg, _⟩ := hi.pf.agc
  rcases hi.inv with ⟨h1, _⟩ | ⟨_, r, h2, h3, h4, h5, h6⟩
  · omega
  · simp only [slOf, hg] at h2 h6
    exact ⟨g, r, hg, h2, h3, h4, h5, h6⟩

/-- A state before the feeder's start block — no entry for the feeder, its token's counter at `n0` —
satisfies the invariant: histories may start at (or before) the feeder's creation. -/
theorem C12_hist_inv_before_start (p : Params) (fid : Nat) (f : Feeder) (s : State) (g : Agc)
    (hpf : PF p s) (hg : s.agc = some g) (hw : TokWf (s.store.token f.tokenID))
    (hb : s.height < f.startBaseBlock) (hr : alookup fid g.rounds = none) :
    HInv p fid f (s.store.token f.tokenID).nextRoundID s :=
  ⟨hpf, hw, Or.inl ⟨hb, by simp [slOf, hg, hr], rfl⟩⟩

/-! ## a concrete history (non-vacuity) -/

/-- the theorems apply to the concrete history: the run succeeds, the invariant holds after block 10 … -/
example : ∃ s' outs, runBlocks hState hBlocks = some (s', outs) ∧ s'.height = 10 ∧ HInv hParams 1 hFeeder 2 s' :=
  C12_hist_round_ids_single_msg_partial hParams 1 hFeeder 2 hHyp (by decide) (by decide) hState hBlocks hInv (by simp [SingleMsg, hBlocks, hTx])

/-- … and evaluating the model on it gives what the invariant predicts: round 3 (base 9) closed by the
forced seal, NextRoundID `2 + (10−2) div 7 + 1 = 4`, rounds 1..3 stored under their own ids. -/
example : (runBlocks hState hBlocks).map (fun r => (slOf 1 1 r.1, r.1.height, (r.1.store.token 1).rounds.map (fun kv => (kv.1, kv.2.roundID)))) =
    some (⟨some { basedBlock := 9, nextRoundID := 3, status := .closed }, 4⟩, 10, [(1, 1), (2, 2), (3, 3)]) := by
  decide

example : ∃ s' outs, runBlocks hState hBlocks = some (s', outs) ∧
    TokWin 100 1 (s'.store.token 1) ∧ (s'.store.token 1).rounds.length ≤ 100 := by
  obtain ⟨s', outs, hr, h⟩ := C12_hist_contiguous_and_retained hParams hState hBlocks hPF (by decide) (by decide)
  have hb : (s'.store.token 1).nextRoundID ≤ 2 ^ 64 := by
    have : (runBlocks hState hBlocks).map (fun r => (r.1.store.token 1).nextRoundID) = some 4 := by decide
    rw [hr] at this
    simp only [Option.map_some, Option.some.injEq] at this
    rw [this]; decide
  have hv : TokWin 100 1 (hState.store.token 1) := by
    refine ⟨?_, ?_⟩
    · intro k q hq
      have := (hWf.below k q hq)
      have e : (hState.store.token 1).nextRoundID = 2 := by decide
      rw [e] at this ⊢; omega
    · intro k h1 h2 _
      have e : (hState.store.token 1).nextRoundID = 2 := by decide
      rw [e] at h2
      have : k = 1 := by omega
      subst this; decide
  exact ⟨s', outs, hr, h 1 1 hWf hv hb⟩

/-! ## only with a super-majority of reporters; the recorded price is their median -/

/-- **The aggregators stay consistent along every history** (`SWInv`: every worker of the in-memory
context holds an aggregator without a final price, whose `reportPower` is the sum of the powers of its
reports, with one report per validator — or none, once sealed): after every list of blocks, and
after any transactions of the block that follows. -/
theorem C12_hist_aggregators_consistent (p : Params) (s s' : State) (bs : List Block) (outs : List (List TxOut))
    (txs : List Tx) (bt : Int) (hpf : PF p s) (h : SWInv s) (hr : runBlocks s bs = some (s', outs)) :
    SWInv s' ∧ SWInv (runTxs (beginBlock s' bt) txs).1 := by
  have h1 := runBlocks_swinv p bs s s' outs hpf h hr
  obtain ⟨s1', o1', hr', _, hpf1, _⟩ := runBlocks_pf p bs s hpf
  rw [hr] at hr'
  simp only [Option.some.injEq, Prod.mk.injEq] at hr'
  rw [← hr'.1] at hpf1
  exact ⟨h1, runTxs_swinv p txs (beginBlock s' bt) ⟨hpf1.agc, hpf1.cache⟩ h1⟩

/-- **Whenever a message finalizes a round — in any state such a history leads to — the recorded
price is the median of the reporting validators' values, and they hold a super-majority.** The
message's `CreatePrice` succeeds and writes, through AppendPriceTR (or GrowRoundID on an id mismatch:
`finalTok`), the price `it.price` = the median over the feeder's aggregator `a` of each reporting
validator's value (`Report.aggregate`: its confirmed deterministic-source value / the median of its
sources), where `a` holds exactly one report per reporting validator, the summed power of these
reports strictly exceeds the threshold fraction `thA/thB` of the aggregator's total power, and a
deterministic-source round has been confirmed (which takes a super-majority behind one value:
`C12_ds_confirm_needs_supermajority`). -/
theorem C12_hist_final_price_is_median_of_supermajority (p : Params) (s : State) (m : Msg) (g g' : Agc)
    (it : FinalItem) (hpf : PF p s) (hw : SWInv s) (hg : s.agc = some g)
    (hts : checkTimestamp s.blockTime m = true) (hc : g.checkMsg p m = none)
    (hf : g.fillPrice p m = (g', .final it)) :
    (∃ a, AggOK a ∧ it.price = median (a.reports.map Report.aggregate) ∧
      exceedsThreshold (sumPower a.reports) a.total p.thA p.thB = true ∧ a.ds ≠ []) ∧
    (createPrice s m).2 = .ok ∧
    (createPrice s m).1.store.token it.tokenID = finalTok (s.store.token it.tokenID) p.maxSizePrices it := by
  obtain ⟨g0, hg0, hp⟩ := hpf.agc
  rw [hg] at hg0
  cases hg0
  obtain ⟨a, _, hok, h1, h2, h3⟩ := Agc.fillPrice_final_ok g p m g' it (hw g hg) hf
  refine ⟨⟨a, hok, h1, h2, h3⟩, ?_, ?_⟩
  · rw [createPrice_fill s m g p hg hp hts hc, hf]
  · rw [createPrice_fill s m g p hg hp hts hc, hf]
    simp only [token_removeNonces, token_setToken, if_true]

/-- **… a super-majority of the *current* validator set** (partial). For the observed feeder
(`FeederHyp`, `1 ≤ MaxNonce < Interval`), along every history without a late-failing transaction
(the proof goes through the round invariant, which F-09c breaks) and any transactions of the block
that follows: when a message finalizes the feeder's round, the aggregator `a` it finalizes holds one
report per reporting validator, each weighted with that validator's power in the *current* validator
set `g.vals`, and the sum of these powers strictly exceeds the threshold fraction of the current total
voting power `totalOf g.vals` — validators holding strictly more than `thA/thB` of the total power have
reported — and the recorded price is the median of their values. (A validator-set change force-seals
every open round and discards its worker: no aggregator outlives the validator set it was created under.) -/
theorem C12_hist_final_needs_supermajority_of_current_validators_partial (p : Params) (fid : Nat) (f : Feeder)
    (n0 : Nat) (H : FeederHyp p fid f) (hmn : 1 ≤ p.maxNonce) (hiv : p.maxNonce < f.interval) (s s' : State)
    (bs : List Block) (outs : List (List TxOut)) (txs : List Tx) (bt : Int) (h : XHInv p fid f n0 s)
    (hr : runBlocks s bs = some (s', outs)) (hnl : NoLateFail outs)
    (m : Msg) (g g' : Agc) (it : FinalItem) (hg : (runTxs (beginBlock s' bt) txs).1.agc = some g)
    (hfid : m.feederID = fid) (hc : g.checkMsg p m = none) (hf : g.fillPrice p m = (g', .final it)) :
    ∃ a, AggOK a ∧ it.price = median (a.reports.map Report.aggregate) ∧
      exceedsThreshold (sumPower a.reports) (totalOf g.vals) p.thA p.thB = true ∧ a.ds ≠ [] ∧
      ∀ r ∈ a.reports, alookup r.validator g.vals = some r.power := by
  obtain ⟨h1, h2, h3⟩ := runBlocks_xinv p fid f H n0 hmn hiv bs s s' outs hr hnl h
  have hpf0 : PF p (beginBlock s' bt) := ⟨h1.m.pf.agc, h1.m.pf.cache⟩
  have hk := runTxs_wk p fid txs (beginBlock s' bt) hpf0 h2
  have hw := runTxs_swinv p txs (beginBlock s' bt) hpf0 h3
  exact fillPrice_final_cur fid g p m g' it hfid (hw g hg) (hk g hg) hc hf

/-- non-vacuity: on the concrete history, validator 2's report in block 4 (after those of validators 0
and 1) meets every hypothesis of the theorem — which then says that the three reporters hold
`3·3 > 3·2` of the current total power 3 -/
example : ∃ a, AggOK a ∧ exceedsThreshold (sumPower a.reports) 3 2 3 = true ∧ a.ds ≠ [] := by
  have hev : (match (runTxs (beginBlock hState 101) [hTx 0, hTx 1]).1.agc with
      | some g => decide (g.checkMsg hParams (hMsg 2 1 2) = none) &&
          (match (g.fillPrice hParams (hMsg 2 1 2)).2 with
            | .final _ => true
            | _ => false) && decide (totalOf g.vals = 3)
      | none => false) = true := by decide
  cases hg : (runTxs (beginBlock hState 101) [hTx 0, hTx 1]).1.agc with
  | none => rw [hg] at hev; cases hev
  | some g =>
    rw [hg] at hev
    simp only [Bool.and_eq_true, decide_eq_true_eq] at hev
    obtain ⟨⟨hc, hfin⟩, htot⟩ := hev
    rcases hf : g.fillPrice hParams (hMsg 2 1 2) with ⟨g', res⟩
    rw [hf] at hfin
    cases res with
    | final it =>
      obtain ⟨a, h1, _, h3, h4, _⟩ := C12_hist_final_needs_supermajority_of_current_validators_partial hParams 1 hFeeder 2
        hHyp (by decide) (by decide) hState hState [] [] [hTx 0, hTx 1] 101 hXInv rfl (by intro l hl; simp at hl)
        (hMsg 2 1 2) g g' it hg rfl hc hf
      rw [htot] at h3
      exact ⟨a, h1, h3, h4⟩
    | cached it => simp at hfin
    | ignored => simp at hfin

/-- what `finalTok` stores: when the ids are aligned (the final's round id is the expected one) the
record under that id carries the price, and the counter advances by one -/
theorem C12_hist_final_record (t : TokenStore) (mx : Nat) (it : FinalItem) (hw : TokWf t)
    (hal : t.nextRoundID = it.roundID) (hex : ¬ (0 < wrapSub64 t.nextRoundID mx ∧ it.roundID = wrapSub64 t.nextRoundID mx)) :
    alookup it.roundID (finalTok t mx it).rounds =
      some { price := some it.price, decimal := it.decimal, ts := it.ts, roundID := it.roundID } ∧
    (finalTok t mx it).nextRoundID = t.nextRoundID + 1 := by
  refine ⟨?_, finalTok_next t mx it hw⟩
  unfold finalTok
  have hok := (append_ok_iff t mx { price := some it.price, decimal := it.decimal, ts := it.ts, roundID := it.roundID }).mpr hal
  rw [hok]
  simp only [if_true]
  rw [append_lookup t mx _ hw.nodup hal it.roundID]
  rw [if_neg hex, if_pos hal.symm]

/-- non-vacuity: in block 4 of the concrete history, after validators 0 and 1 have reported, validator
2's report finalizes round 2 … -/
example : (match ((runTxs (beginBlock hState 101) [hTx 0, hTx 1]).1.agc.map (fun g => (g.fillPrice hParams (hMsg 2 1 2)).2)) with
    | some (.final _) => true
    | _ => false) = true := by decide

/-- … and `hState` (no workers yet) satisfies the invariant, so the theorem applies to that message -/
example : SWInv hState := by
  intro g hg kw hkw
  cases hg
  simp [hAgc] at hkw

/-! ## the full statement fails on the code as it is (F-09c, at history level) -/

/-- `C12_hist_round_ids_partial` without the `NoLateFail` hypothesis -/
def C12_hist_round_ids_full : Prop :=
  ∀ (p : Params) (fid : Nat) (f : Feeder) (n0 : Nat), FeederHyp p fid f → 1 ≤ p.maxNonce → p.maxNonce < f.interval →
    ∀ (s s' : State) (bs : List Block) (outs : List (List TxOut)), HInv p fid f n0 s →
      runBlocks s bs = some (s', outs) → HInv p fid f n0 s'

theorem C12_hist_round_ids_full_fails : ¬ C12_hist_round_ids_full := by
  intro hfull
  have hev : (runBlocks hState hBlocksBad).map (fun r => (slOf 1 1 r.1, r.1.height)) =
      some (⟨some { basedBlock := 2, nextRoundID := 2, status := .closed }, 2⟩, 5) := by decide
  cases hr : runBlocks hState hBlocksBad with
  | none => rw [hr] at hev; cases hev
  | some r =>
    obtain ⟨s', outs⟩ := r
    rw [hr] at hev
    simp only [Option.map_some, Option.some.injEq, Prod.mk.injEq] at hev
    obtain ⟨hsl, hh⟩ := hev
    have hi := hfull hParams 1 hFeeder 2 hHyp (by decide) (by decide) hState s' hBlocksBad outs hInv hr
    have hinv := hi.inv
    have e1 : hFeeder.tokenID = 1 := rfl
    rw [e1, hsl, hh] at hinv
    rcases hinv with ⟨h1, _⟩ | ⟨_, r, h2, _, _, _, h6⟩
    · revert h1; decide
    · simp only [Option.some.injEq] at h2
      subst h2
      revert h6; decide

/-- the failing history, evaluated: after block 5 the round is closed in memory, nothing was stored for
it, and the counter still says 2 where the invariant demands `2 + 0 + 1 = 3`; the transaction's outcome
is the late failure `msg 1` that `NoLateFail` excludes -/
example : (runBlocks hState hBlocksBad).map (fun r => (r.2, (r.1.store.token 1).rounds.map (·.1))) =
    some ([[.ok, .ok, .msg 1 (.invalidMsg "round")], []], [1]) := by decide

end ExoVerif.Oracle
