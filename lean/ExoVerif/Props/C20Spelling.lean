import ExoVerif.Props.C20
import ExoVerif.Proofs.AvsSpelling
/-!
# C20 — the clauses about a TASK hold across spellings of its contract address

A task contract is one 20-byte address, but the string naming it in `MsgSubmitTaskResult` is whatever the client
typed: go-ethereum accepts the EIP-55 form, all lower case, all upper case, any mix, a `0X` prefix or none. The
clauses "phase one only once [per operator and task]", "phase two only with the phase-one signature" and "the
statistics reflect exactly the accepted results" are about the task, not about one way of writing its address.
`Props/C20.lean` proves them per KEY (operator, address string, id); this file proves what turns the per-key
statements into per-task statements, for EVERY history whose `submit` / `task` / `challenge` operations carry
arbitrary strings:

* every stored result names a stored task literally — same string, same id (`C20_hist_result_names_stored_task`);
  a submission is accepted only under the very string the task is stored under (`C20_submit_accepted_names_stored_task`);
* a task's address string is a task address of an AVS registration: if every registration carries a string with
  property `P` (the precompile hands over `common.Address.String()`, the EIP-55 form), every stored task, every
  stored result and every ACCEPTED submission carries a string with property `P` (`C20_hist_task_addr_spelling`,
  `C20_submit_accepted_spelling`);
* hence, for any canonicalisation `canon` (HexToAddress(·).String(), uninterpreted here) fixing the registered
  strings: two stored results of one operator for one task id whose addresses are spellings of one another are
  the SAME record (`C20_results_once_across_spellings`), a phase-one submission for an (operator, task) that
  already has a result is refused under every spelling of the task's address
  (`C20_phase1_once_across_spellings`), and the signer list written at the end of the statistical period contains
  every operator with a stored signed result for ANY spelling of the task's address
  (`C20_stats_signers_across_spellings`).

What the Go code needs for this is exactly that `GetTaskInfo` and `GetAVSInfoByTaskAddress` use the string as it
is, like the result keys and the epoch-end grouping do (tie: `C20_tie_task_addr_keys`); a lookup that tolerates
other spellings while the result store keeps the raw string is what breaks it (seed C20-h).
-/
namespace ExoVerif.Avs
open ExoVerif

/-- After every history, whatever strings its operations carry: every stored result names a stored task — the
same address string and the same id. -/
theorem C20_hist_result_names_stored_task (ops : List Op) :
    ∀ k ∈ KV.keys (run init ops).results, KV.has (run init ops).tasks (k.2.1, k.2.2) = true := by
  intro k hk
  have hi := spellInv_run (fun _ => True) ops init (by intro o _; cases o <;> simp [Op.spelled]) (spellInv_init _)
  exact (KV.has_iff_mem_keys _ _).2 (hi.2.2 k hk)

private theorem step_submit_ok (s : State) (i : Submit) (h : (step s (.submit i)).2 = "ok") : (submit s i).2 = "ok" := by
  unfold step at h
  split at h
  · simp at h
  · exact h

/-- One step from any state: a submission (either phase) is accepted only under exactly the string a task with
that id is stored under. -/
theorem C20_submit_accepted_names_stored_task (s : State) (i : Submit) (h : (step s (.submit i)).2 = "ok") :
    KV.has s.tasks (i.taskAddr, i.id) = true :=
  (KV.has_iff_mem_keys _ _).2 (submit_ok_task s i (step_submit_ok s i h))

/-- If every AVS registration / update of a history carries no task address or one with property `P`, then after
the history every stored task and every stored result has an address with property `P` — whatever strings the
task-creation, submission and challenge operations carried. -/
theorem C20_hist_task_addr_spelling (P : String → Prop) (ops : List Op) (hu : ∀ o ∈ ops, o.spelled P) :
    (∀ k ∈ KV.keys (run init ops).tasks, P k.1) ∧ (∀ k ∈ KV.keys (run init ops).results, P k.2.1) := by
  have hi := spellInv_run P ops init hu (spellInv_init _)
  exact ⟨hi.2.1, fun k hk => hi.2.1 _ (hi.2.2 k hk)⟩

/-- … and a submission accepted after such a history carries an address with property `P`: no other spelling of
a task contract's address is ever accepted. -/
theorem C20_submit_accepted_spelling (P : String → Prop) (ops : List Op) (hu : ∀ o ∈ ops, o.spelled P)
    (i : Submit) (h : (step (run init ops) (.submit i)).2 = "ok") : P i.taskAddr := by
  have hk := C20_submit_accepted_names_stored_task _ i h
  exact (C20_hist_task_addr_spelling P ops hu).1 _ ((KV.has_iff_mem_keys _ _).1 hk)

/-- the histories the spelling theorems are about: AVS registrations carry canonical task addresses -/
def CanonRegs (canon : String → String) (ops : List Op) : Prop := ∀ o ∈ ops, o.spelled (fun a => canon a = a)

/-- "Only once", across spellings: two stored results of one operator for one task id whose addresses spell the
same address are one and the same record. -/
theorem C20_results_once_across_spellings (canon : String → String) (ops : List Op) (hu : CanonRegs canon ops)
    (k1 k2 : RKey) (h1 : k1 ∈ KV.keys (run init ops).results) (h2 : k2 ∈ KV.keys (run init ops).results)
    (hop : k1.1 = k2.1) (hid : k1.2.2 = k2.2.2) (hc : canon k1.2.1 = canon k2.2.1) : k1 = k2 := by
  have hP := (C20_hist_task_addr_spelling _ ops hu).2
  have e1 : canon k1.2.1 = k1.2.1 := hP k1 h1
  have e2 : canon k2.2.1 = k2.2.1 := hP k2 h2
  obtain ⟨a, b, c⟩ := k1
  obtain ⟨a', b', c'⟩ := k2
  simp only at hop hid hc e1 e2
  rw [e1, e2] at hc
  rw [hop, hid, hc]

/-- "Phase one only once", across spellings: when an operator already has a stored result for a task, a phase-one
submission of that operator for that task id is refused under EVERY spelling of the task's address. -/
theorem C20_phase1_once_across_spellings (canon : String → String) (ops : List Op) (hu : CanonRegs canon ops)
    (k : RKey) (hk : k ∈ KV.keys (run init ops).results)
    (i : Submit) (hs : i.stage = "1") (hop : i.op = k.1) (hid : i.id = k.2.2) (hc : canon i.taskAddr = canon k.2.1) :
    (step (run init ops) (.submit i)).2 ≠ "ok" := by
  intro hok
  have e1 : canon i.taskAddr = i.taskAddr := C20_submit_accepted_spelling _ ops hu i hok
  have e2 : canon k.2.1 = k.2.1 := (C20_hist_task_addr_spelling _ ops hu).2 k hk
  rw [e1, e2] at hc
  have hkey : (i.op, i.taskAddr, i.id) = k := by
    obtain ⟨a, b, c⟩ := k
    simp only at hop hid hc
    rw [hop, hid, hc]
  have hhas : KV.has (run init ops).results (i.op, i.taskAddr, i.id) = true := by
    rw [hkey]; exact (KV.has_iff_mem_keys _ _).2 hk
  have hok := step_submit_ok _ i hok
  rcases submit_spec (run init ops) i with ⟨_, h2⟩ | ⟨_, _, _, task, cur, _, _, h | h⟩
  · exact h2 hok
  · obtain ⟨_, h⟩ := h
    rcases submitOne_spec (run init ops) i task cur with ⟨_, h3⟩ | ⟨h3, _⟩
    · rw [h] at hok; exact h3 hok
    · rw [hhas] at h3; cases h3
  · rw [hs] at h; exact absurd h.1 (by decide)

/-- "The signer list reflects exactly the accepted results", across spellings: the list written for a task at the
end of its statistical period contains every operator that has a stored signed result with this task id under
ANY spelling of the task's address (such a result is stored under the task's own string). -/
theorem C20_stats_signers_across_spellings (canon : String → String) (ops : List Op) (hu : CanonRegs canon ops)
    (t : Task) (ht : (t.taskAddr, t.id) ∈ KV.keys (run init ops).tasks)
    (pw : Powers) (t' : Task) (hst : statTask (run init ops) pw t = some t')
    (p : RKey × Result) (hp : p ∈ (run init ops).results)
    (hid : p.2.id = t.id) (hc : canon p.2.taskAddr = canon t.taskAddr) (hsig : p.2.sig.isSome = true) :
    p.2.op ∈ t'.signed := by
  have hr := resInv_run ops init resInv_init
  have hkey := hr.2.1 p hp
  have hP := C20_hist_task_addr_spelling _ ops hu
  have e1 : canon p.1.2.1 = p.1.2.1 := hP.2 p.1 (KV.mem_keys_of_mem _ _ hp)
  have e2 : canon t.taskAddr = t.taskAddr := hP.1 _ ht
  have hta : p.2.taskAddr = t.taskAddr := by
    rw [hkey.2.1] at hc ⊢
    rw [e1, e2] at hc
    exact hc
  rw [(statTask_spec _ pw t t' hst).1]
  exact (mem_signersOf _ _ _ _).2 ⟨p, hp, hta, hid, hsig, rfl⟩

/-! ## non-vacuity: a history with registrations in one spelling and submissions in several -/

/-- a toy canonicalisation: "T" is the canonical string, "t" spells the same address -/
private def up (a : String) : String := if a = "t" then "T" else a

private def spOps : List Op :=
  [ .setEpochs [("minute", 5)], .setEnv ["o", "q"] ["usdt"],
    .update { action := 1, avsAddr := "A", name := "n", taskAddr := "T", owners := some ["own"], assets := some ["usdt"],
              unbonding := 7, minSelf := 0, epochId := "minute", caller := "own" },
    .opt false 1 "o" "A" (some 100), .opt false 1 "q" "A" (some 100), .bls "o" "pk" true, .bls "q" "pk2" true,
    .task { taskAddr := "T", caller := "own", name := "t", hash := "aa", resp := 1, stat := 1, chal := 1, givenId := 0, powerOk := true },
    .submit { fromAddr := "o", op := "o", taskAddr := "T", id := 1, stage := "1", sig := some "s", response := none,
              respHash := "", respTaskId := none, blsOk := false, digest := "" },
    -- the other operator names the contract in lower case: refused, nothing stored
    .submit { fromAddr := "q", op := "q", taskAddr := "t", id := 1, stage := "1", sig := some "s2", response := none,
              respHash := "", respTaskId := none, blsOk := false, digest := "" } ]

private def spAgain : Submit :=
  { fromAddr := "o", op := "o", taskAddr := "t", id := 1, stage := "1", sig := some "s", response := none,
    respHash := "", respTaskId := none, blsOk := false, digest := "" }

example : CanonRegs up spOps := by
  intro o ho
  simp only [spOps, List.mem_cons, List.not_mem_nil, or_false] at ho
  rcases ho with h | h | h | h | h | h | h | h | h | h <;> subst h <;> simp only [Op.spelled]
  right; decide
example : KV.keys (run init spOps).results = [("o", "T", 1)] ∧ KV.keys (run init spOps).tasks = [("T", 1)] := by decide
example : up spAgain.taskAddr = up "T" ∧ spAgain.taskAddr ≠ "T" := by decide
example : (step (run init spOps) (.submit spAgain)).2 = "ErrTaskIsNotExists" := by decide
example : (step (run init spOps) (.submit { spAgain with taskAddr := "T" })).2 = "ErrResAlreadyExists" := by decide
example : (statTask (run init spOps) { avsTotal := [("A", 200)], active := [(("A", "o"), 100)] }
    ((KV.find? (run init spOps).tasks ("T", 1)).getD default)).map (·.signed) = some ["o"] := by decide

end ExoVerif.Avs
