import ExoVerif.Generated.Facts
import ExoVerif.Props.C08Restart
/-!
# C08 tie (restart clause): the oracle's process-local state and the shape of its setters

`Gen.oracleMemoryFields` lists every package-level variable of the oracle packages and every field of
its in-memory containers; `Gen.oracleMemoryWriters` every write of a container method to a field of its
receiver with the shape of the write (regenerated from the Go sources on every run). The theorems
below break when
* a new piece of process-local state appears (it must be given a way to be rebuilt at restart and be
  reviewed here),
* a method starts to write a VALUE-RESTORED field (validator powers, total power, params — read from the
  store at restart and handed to a setter) in place: a `set-key` / `accumulate` without the fresh value
  assigned before it in the same function, a `delete-key`, an element mutation. That is the difference
  between `setPowersReplace` (restart independent, `C08_replacing_setter_restart_independent`) and
  `setPowersMerge` (`C08_inplace_merge_restart_dependent`),
* the start-up path and the block path stop using the same setters.
-/
namespace ExoVerif.Det
open ExoVerif.Gen

/-- every piece of process-local oracle state, with how a restarted process gets it back -/
def memoryReview : List (String × String) := [
  ("x/oracle/keeper/aggregator:AggregatorContext.aggregators:map", "replay: recacheAggregatorContext re-executes the logged messages of the last MaxNonce blocks (C14)"),
  ("x/oracle/keeper/aggregator:AggregatorContext.params:ptr", "value: SetParams(stored params)"),
  ("x/oracle/keeper/aggregator:AggregatorContext.rounds:map", "replay: PrepareRoundEndBlock / SealRound over the replay window (C14)"),
  ("x/oracle/keeper/aggregator:AggregatorContext.totalPower:ptr", "value: SetValidatorPowers(GetAllExocoreValidators)"),
  ("x/oracle/keeper/aggregator:AggregatorContext.validatorsPower:map", "value: SetValidatorPowers(GetAllExocoreValidators)"),
  ("x/oracle/keeper/cache:Cache.msg:ptr", "empty at every block boundary (CommitCache)"),
  ("x/oracle/keeper/cache:Cache.params:ptr", "value: AddCache(ItemP(stored params))"),
  ("x/oracle/keeper/cache:Cache.validators:ptr", "value: AddCache(ItemV(GetAllExocoreValidators)) onto ResetCaches()"),
  ("x/oracle/keeper/cache:cacheParams.params:ptr", "value: cacheParams.add replaces the pointer"),
  ("x/oracle/keeper/cache:cacheParams.update:value", "false at every block boundary (CommitCache / SkipCommit)"),
  ("x/oracle/keeper/cache:cacheValidator.update:value", "false at every block boundary (CommitCache / SkipCommit)"),
  ("x/oracle/keeper/cache:cacheValidator.validators:map", "delta: cacheValidator.add applies x/dogfood's updates, power 0 deletes (shape B, cacheAddBody); full set onto an empty map at restart"),
  ("x/oracle/keeper/cache:var:zeroBig:value", "constant"),
  ("x/oracle/keeper/common:var:MaxDetID:value", "value: setCommonParams(stored params)"),
  ("x/oracle/keeper/common:var:MaxNonce:value", "value: setCommonParams(stored params) (F-14f)"),
  ("x/oracle/keeper/common:var:Mode:value", "value: setCommonParams(stored params)"),
  ("x/oracle/keeper/common:var:ThresholdA:value", "value: setCommonParams(stored params)"),
  ("x/oracle/keeper/common:var:ThresholdB:value", "value: setCommonParams(stored params)"),
  ("x/oracle/keeper:var:agc:ptr", "nil → GetAggregatorContext builds it (recache / init)"),
  ("x/oracle/keeper:var:agcCheckTx:ptr", "nil at every block boundary (ResetAggregatorContextCheckTx in EndBlock)"),
  ("x/oracle/keeper:var:cs:ptr", "nil → GetCaches + ResetCaches in GetAggregatorContext"),
  ("x/oracle/keeper:var:errBalanceChangeTooShort:value", "constant (an error value, never written after package initialisation)"),
  ("x/oracle/keeper:var:maxEffectiveBalance:value", "constant"),
  ("x/oracle/keeper:var:updatedFeederIDs:slice", "nil at every block boundary (ResetUpdatedFeederIDs in EndBlock); feeds an event only"),
  ("x/oracle:var:once:value", "fresh in a new process: BeginBlock initialises the singletons")]

theorem C08_memory_fields_reviewed : oracleMemoryFields = memoryReview.map (·.1) := by rfl

/-- the context fields a restart restores by value (store → setter), as opposed to by replaying the log -/
def valueRestored : List String :=
  ["AggregatorContext.validatorsPower", "AggregatorContext.totalPower", "AggregatorContext.params"]

/-- write shapes after which the field is a function of the setter's argument alone -/
def replacingShapes : List String :=
  ["replace:fresh", "replace:arg", "set-key:after-fresh", "replace:accumulate:after-fresh"]

/-- no method of the aggregator context writes a value-restored field in place -/
theorem C08_value_restored_memory_is_replaced :
    ∀ w ∈ oracleMemoryWriters, w.2.1 ∈ valueRestored → w.2.2 ∈ replacingShapes := by decide

/-- `SetValidatorPowers` is `setPowersReplace`: both fields reset to a fresh value, then one keyed write
and one addition per entry of the argument -/
theorem C08_set_validator_powers_replaces :
    oracleMemoryWriters.filter (fun w => w.1 == "x/oracle/keeper/aggregator/context.go:AggregatorContext.SetValidatorPowers") = [
      ("x/oracle/keeper/aggregator/context.go:AggregatorContext.SetValidatorPowers", "AggregatorContext.totalPower", "replace:fresh"),
      ("x/oracle/keeper/aggregator/context.go:AggregatorContext.SetValidatorPowers", "AggregatorContext.validatorsPower", "replace:fresh"),
      ("x/oracle/keeper/aggregator/context.go:AggregatorContext.SetValidatorPowers", "AggregatorContext.validatorsPower", "set-key:after-fresh"),
      ("x/oracle/keeper/aggregator/context.go:AggregatorContext.SetValidatorPowers", "AggregatorContext.totalPower", "replace:accumulate:after-fresh")] := by decide

/-- the only writers of the value-restored fields are the two setters -/
theorem C08_value_restored_memory_writers :
    ((oracleMemoryWriters.filter (fun w => valueRestored.contains w.2.1)).map (·.1)).eraseDups = [
      "x/oracle/keeper/aggregator/context.go:AggregatorContext.SetParams",
      "x/oracle/keeper/aggregator/context.go:AggregatorContext.SetValidatorPowers"] := by decide

/-- start-up (init / recache) and block processing (EndBlock) call the same two setters — the model's
`VNode.step` uses one `setter` for `.restart` and `.valsetChange` -/
theorem C08_restart_and_block_path_share_setters :
    ∀ c ∈ ["x/oracle/keeper/single.go:initAggregatorContext:agc.SetValidatorPowers:unguarded",
           "x/oracle/keeper/single.go:recacheAggregatorContext:agc.SetValidatorPowers:unguarded",
           "x/oracle/module.go:AppModule.EndBlock:agc.SetValidatorPowers:mode-dispatched",
           "x/oracle/keeper/single.go:initAggregatorContext:agc.SetParams:unguarded",
           "x/oracle/keeper/single.go:recacheAggregatorContext:agc.SetParams:unguarded",
           "x/oracle/module.go:AppModule.EndBlock:agc.SetParams:mode-dispatched"], c ∈ oracleCacheWriters := by decide

/-- the complete writer list, pinned (the in-place writers are the replay-rebuilt `rounds` / `aggregators`
and the delta-maintained cache) -/
theorem C08_memory_writers_reviewed : oracleMemoryWriters = [
  ("x/oracle/keeper/aggregator/context.go:AggregatorContext.FillPrice", "AggregatorContext.aggregators", "set-key:in-place"),
  ("x/oracle/keeper/aggregator/context.go:AggregatorContext.FillPrice", "AggregatorContext.rounds", "elem-mutate"),
  ("x/oracle/keeper/aggregator/context.go:AggregatorContext.PrepareRoundEndBlock", "AggregatorContext.rounds", "set-key:in-place"),
  ("x/oracle/keeper/aggregator/context.go:AggregatorContext.PrepareRoundEndBlock", "AggregatorContext.aggregators", "delete-key"),
  ("x/oracle/keeper/aggregator/context.go:AggregatorContext.SealRound", "AggregatorContext.rounds", "delete-key"),
  ("x/oracle/keeper/aggregator/context.go:AggregatorContext.SealRound", "AggregatorContext.aggregators", "delete-key"),
  ("x/oracle/keeper/aggregator/context.go:AggregatorContext.SealRound", "AggregatorContext.aggregators", "delete-key"),
  ("x/oracle/keeper/aggregator/context.go:AggregatorContext.SetParams", "AggregatorContext.params", "replace:arg"),
  ("x/oracle/keeper/aggregator/context.go:AggregatorContext.SetValidatorPowers", "AggregatorContext.totalPower", "replace:fresh"),
  ("x/oracle/keeper/aggregator/context.go:AggregatorContext.SetValidatorPowers", "AggregatorContext.validatorsPower", "replace:fresh"),
  ("x/oracle/keeper/aggregator/context.go:AggregatorContext.SetValidatorPowers", "AggregatorContext.validatorsPower", "set-key:after-fresh"),
  ("x/oracle/keeper/aggregator/context.go:AggregatorContext.SetValidatorPowers", "AggregatorContext.totalPower", "replace:accumulate:after-fresh"),
  ("x/oracle/keeper/cache/caches.go:Cache.CommitCache", "Cache.msg", "elem-mutate"),
  ("x/oracle/keeper/cache/caches.go:Cache.CommitCache", "Cache.validators", "elem-mutate"),
  ("x/oracle/keeper/cache/caches.go:Cache.CommitCache", "Cache.params", "elem-mutate"),
  ("x/oracle/keeper/cache/caches.go:Cache.ResetCaches", "Cache", "whole:replace"),
  ("x/oracle/keeper/cache/caches.go:Cache.SkipCommit", "Cache.validators", "elem-mutate"),
  ("x/oracle/keeper/cache/caches.go:Cache.SkipCommit", "Cache.params", "elem-mutate"),
  ("x/oracle/keeper/cache/caches.go:cacheValidator.add", "cacheValidator.validators", "delete-key"),
  ("x/oracle/keeper/cache/caches.go:cacheValidator.add", "cacheValidator.update", "replace:expr"),
  ("x/oracle/keeper/cache/caches.go:cacheValidator.add", "cacheValidator.validators", "elem-mutate"),
  ("x/oracle/keeper/cache/caches.go:cacheValidator.add", "cacheValidator.update", "replace:expr"),
  ("x/oracle/keeper/cache/caches.go:cacheValidator.add", "cacheValidator.update", "replace:expr"),
  ("x/oracle/keeper/cache/caches.go:cacheValidator.add", "cacheValidator.validators", "set-key:in-place"),
  ("x/oracle/keeper/cache/caches.go:cacheParams.add", "cacheParams.params", "replace:arg"),
  ("x/oracle/keeper/cache/caches.go:cacheParams.add", "cacheParams.update", "replace:expr")] := by decide

end ExoVerif.Det
