import ExoVerif.Proofs.LedgerShares
/-!
# C02 (state-machine half) — total shares equal the sum of the delegators' shares

`ShareInv s` : for every operator and asset, `OperatorAssetInfo.TotalShare` equals the sum of
`DelegationAmounts.UndelegatableShare` over all delegators of that pool. It is preserved by every
share-moving operation of the ledger model and by everything that does not move shares; together
with the genesis state satisfying it, it holds after every finite history of these operations
(`C02_share_sum_reachable`). The slash step (which wipes a pool's shares when it is slashed to zero)
needs in addition that the staker list covers every share holder; that half is checked on the real
state by the `C02.shares` monitors and by the model correspondence, not by a theorem yet.
-/
namespace ExoVerif.Ledger
open ExoVerif ExoVerif.KV

/-- the share-moving and share-neutral operations of the ledger -/
inductive ShareOp where
  | deposit (st : SID) (a : AID) (x : Int)
  | withdraw (st : SID) (a : AID) (x : Int)
  | delegate (st : SID) (a : AID) (o : OID) (x : Int)
  | undelegate (st : SID) (a : AID) (o : OID) (x : Int) (n : Nat) (hash : String)
  | associate (st : SID) (o : OID)
  | dissociate (st : SID)
  | hold (k : RecKey)
  | blockEnd

/-- one step with transaction semantics: a rejected operation changes nothing -/
def shareStep (s : L) : ShareOp → L
  | .deposit st a x => match deposit s st a x with | .ok s' => s' | .error _ => s
  | .withdraw st a x => match withdraw s st a x with | .ok s' => s' | .error _ => s
  | .delegate st a o x => match delegate s st a o x with | .ok s' => s' | .error _ => s
  | .undelegate st a o x n h => match undelegate s st a o x n h with | .ok s' => s' | .error _ => s
  | .associate st o => match associate s st o with | .ok s' => s' | .error _ => s
  | .dissociate st => match dissociate s st with | .ok s' => s' | .error _ => s
  | .hold k => hold s k
  | .blockEnd => nextBlock (endBlock s)

theorem C02_share_sum_step (s : L) (op : ShareOp) (hi : ShareInv s) : ShareInv (shareStep s op) := by
  cases op with
  | deposit st a x =>
    simp only [shareStep]; split
    · rename_i s' h; exact shareInv_deposit hi h
    · exact hi
  | withdraw st a x =>
    simp only [shareStep]; split
    · rename_i s' h; exact shareInv_withdraw hi h
    · exact hi
  | delegate st a o x =>
    simp only [shareStep]; split
    · rename_i s' h; exact shareInv_delegate hi h
    · exact hi
  | undelegate st a o x n hash =>
    simp only [shareStep]; split
    · rename_i s' h; exact shareInv_undelegate hi h
    · exact hi
  | associate st o =>
    simp only [shareStep]; split
    · rename_i s' h; exact shareInv_associate hi h
    · exact hi
  | dissociate st =>
    simp only [shareStep]; split
    · rename_i s' h; exact shareInv_dissociate hi h
    · exact hi
  | hold k => exact shareInv_congr hi rfl rfl
  | blockEnd => exact shareInv_endBlock hi

/-- total shares = Σ delegators' shares after every finite history of deposits, withdrawals,
delegations, undelegations (any nonces), associations, dissociations, holds and block ends -/
theorem C02_share_sum_reachable (s : L) (ops : List ShareOp) (hi : ShareInv s) :
    ShareInv (ops.foldl shareStep s) := by
  induction ops generalizing s with
  | nil => exact hi
  | cons op rest ih => simp only [List.foldl_cons]; exact ih _ (C02_share_sum_step s op hi)

/-! non-vacuity: start from a ledger without any share (which satisfies `ShareInv` trivially), run
real deposits and delegations of two stakers to one operator: the reached state has a non-zero
share total and, by the theorem, satisfies the invariant. -/
private def e0 : L :=
  { height := 1, unbonding := 10, totals := [("a", 0)], operators := ["o1"], clientChains := ["0x65"],
    stakers := [], pools := [], deleg := [], slist := [], assoc := [], recs := [], sidx := [], pidx := [],
    holds := [], bal := [], escrow := 0, gDep := [], gWd := [], gSlashed := [] }

private def ops0 : List ShareOp :=
  [.deposit "s1" "a" 100, .deposit "s2" "a" 50, .delegate "s1" "a" "o1" 70, .delegate "s2" "a" "o1" 30,
   .undelegate "s1" "a" "o1" 20 1 "0xh", .blockEnd]

example : ShareInv e0 := by intro o a; simp [poolShare, shareSum, e0, sumP, getD, find?, zeroPool, Dec.zero]
example : ShareInv (ops0.foldl shareStep e0) :=
  C02_share_sum_reachable e0 ops0 (by intro o a; simp [poolShare, shareSum, e0, sumP, getD, find?, zeroPool, Dec.zero])
example : poolShare (ops0.foldl shareStep e0) "o1" "a" = 80000000000000000000 := by decide

end ExoVerif.Ledger
