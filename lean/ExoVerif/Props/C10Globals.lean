import ExoVerif.Model.AuthStore
/-!
# C10 — the gateway check is a function of the committed store

"…take effect only when the precompile is invoked by the **configured** gateway contract": configured =
named by the chain state.  A params update that ran on a branch which was then dropped (a proposal or a
multi-message transaction whose later message failed, a simulation) has configured nothing.  In the
model that is immediate - `admitGateway` receives the `AuthState` it reads - and the theorems below say
so explicitly; what makes it a statement about the Go code is `Props/C10GlobalsTie.lean`: the packages
under x/ and precompiles/ keep no package-level variable that is written after start-up except the
oracle's singletons (C08's subject), and `CheckExocoreGatewayAddr` reads `k.GetParams(ctx)`
(`C10_tie_gateway_compare`, `C10_tie_gateway_reads_store`).  The `auth` domain executes params updates on
dropped branches of the real application (CachedDo returning an error, a two-message transaction whose
second message fails, Simulate) and replays the privileged entry points afterwards.
-/
namespace ExoVerif.Auth

/-- the decision depends on the stored gateway address and on nothing else of the state -/
theorem C10_gateway_check_function_of_store (st1 st2 : AuthState) (r : Request)
    (h : st1.gateway = st2.gateway) : admitGateway st1 r = admitGateway st2 r := by
  simp [admitGateway, h]

/-- **a discarded update cannot change the decision**: whatever gateway address it named, for every
caller, the check after it answers as before it -/
theorem C10_gateway_check_reads_store (st : AuthState) (g : Addr) (r : Request) :
    admitGateway (applyUpdate st ⟨g, .discarded⟩) r = admitGateway st r := rfl

/-- the committed store after any sequence of updates is the one produced by the written ones alone -/
theorem C10_committed_ignores_discarded (st : AuthState) (us : List ParamsUpdate) :
    committed st us = committed st (writtenOnly us) := by
  induction us generalizing st with
  | nil => rfl
  | cons u rest ih =>
    cases u with
    | mk g f =>
      cases f with
      | written =>
        show committed (applyUpdate st ⟨g, .written⟩) rest = committed (applyUpdate st ⟨g, .written⟩) (writtenOnly rest)
        exact ih _
      | discarded =>
        show committed st rest = committed st (writtenOnly rest)
        exact ih _

/-- over whole histories: after ANY interleaving of written and discarded updates, the caller that is
admitted is the gateway named by the last WRITTEN update (the genesis one if there is none) - the
addresses named by discarded updates are refused unless they are that very address -/
theorem C10_gateway_after_history (st : AuthState) (us : List ParamsUpdate) (r : Request) :
    admitGateway (committed st us) r = true ↔
      r.callerAddress = ((writtenOnly us).getLast?.map (·.gateway)).getD st.gateway := by
  rw [C10_committed_ignores_discarded]
  have key : ∀ (ws : List ParamsUpdate) (s : AuthState), (∀ w ∈ ws, w.fate = .written) →
      (committed s ws).gateway = (ws.getLast?.map (·.gateway)).getD s.gateway := by
    intro ws
    induction ws with
    | nil => intro s _; rfl
    | cons w rest ih =>
      intro s hw
      have hw1 : w.fate = .written := hw w (List.mem_cons_self ..)
      have hr : ∀ x ∈ rest, x.fate = .written := fun x hx => hw x (List.mem_cons_of_mem _ hx)
      have hstep : committed s (w :: rest) = committed (setGateway s w.gateway) rest := by
        show committed (applyUpdate s w) rest = _
        simp [applyUpdate, hw1]
      rw [hstep, ih _ hr]
      cases rest with
      | nil => simp [setGateway]
      | cons x xs =>
        cases hgl : (x :: xs).getLast? with
        | none => simp at hgl
        | some l => simp [List.getLast?_cons_cons, hgl]
  have hall : ∀ w ∈ writtenOnly us, w.fate = .written := by
    intro w hw
    simp only [writtenOnly, List.mem_filter, beq_iff_eq] at hw
    exact hw.2
  simp only [admitGateway, beq_iff_eq, key (writtenOnly us) st hall]

/-- in particular: the configured gateway stays admitted and the contract named by a discarded update stays
refused -/
theorem C10_discarded_update_named_caller_refused (st : AuthState) (x : Addr) (hx : x ≠ st.gateway)
    (r : Request) (hr : r.callerAddress = x) :
    admitGateway (applyUpdate st ⟨x, .discarded⟩) r = false ∧
    admitGateway (applyUpdate st ⟨x, .discarded⟩) { r with callerAddress := st.gateway } = true := by
  constructor
  · show admitGateway st r = false
    simp [admitGateway, hr, hx]
  · show admitGateway st { r with callerAddress := st.gateway } = true
    simp [admitGateway]

/-- the full statement for a check that consults a process-local copy refreshed by SetParams: "the
decision is that of the committed store" -/
def C10_memo_check_follows_store : Prop :=
  ∀ (n : Node) (us : List ParamsUpdate) (r : Request),
    (admitGatewayMemo (n.run us) r).1 = admitGateway (committed n.store us) r

/-- **a process-local copy is not a function of the store**: genesis names gateway 1; an update naming
contract 7 runs on a branch that is dropped; the stored params still name 1, yet the copy-reading check
admits 7 and refuses 1.  (This is the behaviour `C10_tie_package_globals` excludes from the code.) -/
theorem C10_memo_check_not_store_function : ¬ C10_memo_check_follows_store := by
  intro h
  have := h ⟨{ gateway := 1, avsOwners := fun _ => [], isAVS := fun _ => false, isOperator := fun _ => false,
               isValidator := fun _ => false, authority := 99, mainnet := true }, none⟩
    [⟨7, .discarded⟩] { callerAddress := 7, origin := 7, arg0 := 0, sig := .valid }
  revert this
  decide

/-- the same witness spelled out: stored gateway unchanged, decisions exchanged -/
theorem C10_memo_witness :
    let st : AuthState := { gateway := 1, avsOwners := fun _ => [], isAVS := fun _ => false, isOperator := fun _ => false,
                            isValidator := fun _ => false, authority := 99, mainnet := true }
    let n : Node := (Node.mk st none).run [⟨7, .discarded⟩]
    n.store.gateway = 1 ∧
    (admitGatewayMemo n { callerAddress := 7, origin := 7, arg0 := 0, sig := .valid }).1 = true ∧
    (admitGatewayMemo n { callerAddress := 1, origin := 1, arg0 := 0, sig := .valid }).1 = false ∧
    admitGateway n.store { callerAddress := 7, origin := 7, arg0 := 0, sig := .valid } = false ∧
    admitGateway n.store { callerAddress := 1, origin := 1, arg0 := 0, sig := .valid } = true := by
  decide

/-- without discarded updates the copy-reading check does agree with the store (why ordinary use and the
repository's tests cannot tell the difference) -/
theorem C10_memo_agrees_when_all_written (n : Node) (us : List ParamsUpdate) (r : Request)
    (hm : n.memo = none ∨ n.memo = some n.store.gateway) (hw : ∀ u ∈ us, u.fate = .written) :
    (admitGatewayMemo (n.run us) r).1 = admitGateway (committed n.store us) r := by
  have inv : ∀ (us : List ParamsUpdate) (n : Node), (n.memo = none ∨ n.memo = some n.store.gateway) →
      (∀ u ∈ us, u.fate = .written) →
      ((n.run us).memo = none ∨ (n.run us).memo = some (n.run us).store.gateway) ∧ (n.run us).store = committed n.store us := by
    intro us
    induction us with
    | nil => intro n hm _; exact ⟨hm, rfl⟩
    | cons u rest ih =>
      intro n _ hw
      have hu : u.fate = .written := hw u (List.mem_cons_self ..)
      have hr : ∀ x ∈ rest, x.fate = .written := fun x hx => hw x (List.mem_cons_of_mem _ hx)
      have hm' : (n.update u).memo = none ∨ (n.update u).memo = some (n.update u).store.gateway := by
        right
        simp [Node.update, applyUpdate, hu, setGateway]
      have := ih (n.update u) hm' hr
      exact this
  obtain ⟨hmemo, hstore⟩ := inv us n hm hw
  unfold admitGatewayMemo admitGateway
  rw [← hstore]
  rcases hmemo with h | h <;> simp [h]

/-! non-vacuity -/
def exStoreSt : AuthState :=
  { gateway := 1, avsOwners := fun _ => [], isAVS := fun _ => false, isOperator := fun _ => false,
    isValidator := fun _ => false, authority := 99, mainnet := false }

example : (committed exStoreSt [⟨7, .discarded⟩, ⟨5, .written⟩, ⟨9, .discarded⟩]).gateway = 5 := by decide
example : admitGateway (committed exStoreSt [⟨7, .discarded⟩]) { callerAddress := 1, origin := 3, arg0 := 0, sig := .valid } = true := by decide
example : admitGateway (committed exStoreSt [⟨7, .discarded⟩]) { callerAddress := 7, origin := 3, arg0 := 0, sig := .valid } = false := by decide

end ExoVerif.Auth
