import ExoVerif.Props.C03Accept
/-!
# C03, first sentence — ANY NUMBER of concurrent undelegations is accepted

"A request to undelegate any positive amount within the staker's current position is always accepted …
and creates exactly one pending record", over "all histories containing any number of concurrent
undelegations (same or different stakers, operators, assets, nonces, blocks)".

`C03_undelegation_always_accepted` (Props/C03Accept.lean) already quantifies over every state of the C02
invariant, and that invariant says nothing about the three undelegation stores. This file makes the
consequence explicit, so that it is an obligation of its own:

* `C03_undelegation_accepted_any_pending_records`: acceptance does not depend on the undelegation stores —
  replace the record store, both indexes and the hold counts by ANY lists (any number of pending records
  of this staker and asset, held or not) and the request is still accepted. A bound on the number of
  records in flight (cosmos-sdk's `MaxEntries`), a "one undelegation per block" rule, a refusal while a
  record is on hold … are all excluded by it.
* `C03_concurrent_undelegations_all_accepted`: a burst of requests of one staker and asset (any operators,
  any amounts, no block end in between), each within the position the staker has when it arrives and each
  with a nonce no live record uses, is accepted as a whole, and the number of unreleased records naming
  (staker, asset) grows by exactly the length of the burst — one record per request, none lost, none
  overwritten; the C02 invariant and the record-store invariant hold afterwards (so the theorem can be
  applied again after any further history).

`pendingCount s st a` = number of unreleased records of staker `st` and asset `a` (what
`GetStakerUndelegationRecKeys(stakerID, assetID)` returns in the Go code, under `RecInv`).
-/
namespace ExoVerif.Ledger
open ExoVerif ExoVerif.KV

/-- the C02 invariant reads pools, delegation rows, staker lists and associations only -/
theorem c02Full_congr {s s' : L} (hi : C02Full s) (hp : s'.pools = s.pools) (hd : s'.deleg = s.deleg)
    (hl : s'.slist = s.slist) (ha : s'.assoc = s.assoc) : C02Full s' := by
  have hps : ∀ o a, (getD s'.pools (o, a) zeroPool).amount = (getD s.pools (o, a) zeroPool).amount ∧
      poolShare s' o a = poolShare s o a := by
    intro o a; unfold poolShare; rw [hp]; exact ⟨rfl, rfl⟩
  exact ⟨⟨lists_congr hi.exact.lists hp hd hl ha, listSub_congr hi.exact.sub hd hl,
    priceInv_congr hi.exact.price hps⟩, zeroPool_congr hi.zero hps⟩

/-- **C03, acceptance, whatever is pending**: the request is accepted whatever the undelegation stores
hold — any number of pending records of this staker and asset, on hold or not. -/
theorem C03_undelegation_accepted_any_pending_records (s : L) (recs : List (RecKey × URec))
    (sidx : List ((SID × AID × Nat) × RecKey)) (pidx : List ((Nat × Nat) × RecKey)) (holds : List (RecKey × Nat))
    (st : SID) (a : AID) (o : OID) (x : Int) (n : Nat) (hash : String)
    (hi : C02Full s) (hop : s.operators.contains o = true) (hx : 0 < x)
    {d : DelegRow} {p : Pool} (hd : find? s.deleg (st, a, o) = some d) (hp : find? s.pools (o, a) = some p)
    {pos : Int} (hpos : tokensFromShares d.share p.totalShare p.amount = .ok pos) (hle : x ≤ pos) :
    ∃ s', undelegate { s with recs := recs, sidx := sidx, pidx := pidx, holds := holds } st a o x n hash = .ok s' :=
  C03_undelegation_always_accepted { s with recs := recs, sidx := sidx, pidx := pidx, holds := holds }
    st a o x n hash (c02Full_congr hi rfl rfl rfl rfl) hop hx hd hp hpos hle

/-! ## a burst of requests -/

/-- number of unreleased records naming staker `st` and asset `a` -/
def pendingCount (s : L) (st : SID) (a : AID) : Int :=
  sumP (fun e => if e.2.staker = st ∧ e.2.asset = a then 1 else 0) s.recs

/-- an accepted undelegation with a fresh nonce adds exactly one record to the count of its own
(staker, asset) and none to any other -/
theorem undelegate_count {s s' : L} {st : SID} {a0 : AID} {o : OID} {x : Int} {n : Nat} {hash : String}
    (hi : RecInv s) (hf : FreshNonce s n) (h : undelegate s st a0 o x n hash = .ok s') (st' : SID) (a' : AID) :
    pendingCount s' st' a' = pendingCount s st' a' + (if st = st' ∧ a0 = a' then 1 else 0) := by
  unfold undelegate at h
  simp only [bind, Except.bind, throw, throwThe, MonadExceptOf.throw] at h
  split at h
  · cases h
  · split at h
    · cases h
    · split at h
      · cases h
      · split at h
        · cases h
        · rename_i p1 h1
          obtain ⟨s1, removed⟩ := p1
          simp only [] at h
          obtain ⟨e1, _⟩ := (removeShare_spec a0 h1).2
          have hfresh : find? s1.recs (URec.mk st a0 o hash n s1.height (s1.height + s1.unbonding) removed removed).key = none := by
            rw [e1]; exact (hi.fresh_keys hf).1 _ rfl
          unfold setRecord at h
          split at h
          · cases h
          · injection h with h; subst h
            unfold pendingCount
            simp only []
            rw [sumP_set, atP_of_none _ _ _ hfresh, e1]
            simp only []
            omega

/-- one undelegation request of the burst: operator, amount, nonce, tx hash -/
structure UReq where
  o : OID
  x : Int
  n : Nat
  hash : String
deriving DecidableEq, Repr

/-- the request is a positive amount within the position staker `st` has in pool (q.o, a) in state `s`,
to a registered operator -/
def WithinPosition (s : L) (st : SID) (a : AID) (q : UReq) : Prop :=
  s.operators.contains q.o = true ∧ 0 < q.x ∧
  ∃ d p pos, find? s.deleg (st, a, q.o) = some d ∧ find? s.pools (q.o, a) = some p ∧
    tokensFromShares d.share p.totalShare p.amount = .ok pos ∧ q.x ≤ pos

/-- the requests one after the other, with transaction semantics; the first refusal is the result -/
def undelegateAll (s : L) (st : SID) (a : AID) : List UReq → Except String L
  | [] => .ok s
  | q :: qs =>
    match undelegate s st a q.o q.x q.n q.hash with
    | .ok s' => undelegateAll s' st a qs
    | .error e => .error e

/-- every request is within the position the staker has when the request arrives, and carries a nonce no
live record uses (the LayerZero nonce discipline of `C03_undelegate_creates_one_record`) -/
def AllWithin (st : SID) (a : AID) : L → List UReq → Prop
  | _, [] => True
  | s, q :: qs =>
    WithinPosition s st a q ∧ FreshNonce s q.n ∧
    match undelegate s st a q.o q.x q.n q.hash with
    | .ok s' => AllWithin st a s' qs
    | .error _ => True

/-- **C03, any number of concurrent undelegations**: a burst of requests of one staker and asset, each a
positive amount within the position the staker has when it arrives, is accepted as a whole — however
long it is and however many records are already pending — and the number of unreleased records of
(staker, asset) grows by exactly its length. -/
theorem C03_concurrent_undelegations_all_accepted (s : L) (st : SID) (a : AID) (qs : List UReq)
    (hi : C02Full s) (hr : RecInv s) (hw : AllWithin st a s qs) :
    ∃ s', undelegateAll s st a qs = .ok s' ∧ C02Full s' ∧ RecInv s' ∧
      pendingCount s' st a = pendingCount s st a + qs.length := by
  induction qs generalizing s with
  | nil => exact ⟨s, rfl, hi, hr, by simp⟩
  | cons q rest ih =>
    obtain ⟨⟨hop, hx, d, p, pos, hd, hp, hpos, hle⟩, hf, hrest⟩ := hw
    obtain ⟨s1, h1, hr1, hi1, _⟩ :=
      C03_undelegation_accepted_creates_one_record s st a q.o q.x q.n q.hash hi hr hf hop hx hd hp hpos hle
    rw [h1] at hrest
    obtain ⟨s2, h2, hi2, hr2, hc2⟩ := ih s1 hi1 hr1 hrest
    refine ⟨s2, ?_, hi2, hr2, ?_⟩
    · simp only [undelegateAll, h1]; exact h2
    · rw [hc2, undelegate_count hr hf h1 st a]
      simp only [and_self, if_true, List.length_cons]
      omega

/-! ### a decidable form of the hypothesis (for concrete histories) -/

def withinPositionB (s : L) (st : SID) (a : AID) (q : UReq) : Bool :=
  s.operators.contains q.o && decide (0 < q.x) &&
  match find? s.deleg (st, a, q.o), find? s.pools (q.o, a) with
  | some d, some p =>
    match tokensFromShares d.share p.totalShare p.amount with
    | .ok pos => decide (q.x ≤ pos)
    | .error _ => false
  | _, _ => false

def freshNonceB (s : L) (n : Nat) : Bool := s.recs.all (fun e => e.2.nonce != n)

def allWithinB (st : SID) (a : AID) : L → List UReq → Bool
  | _, [] => true
  | s, q :: qs =>
    withinPositionB s st a q && freshNonceB s q.n &&
    match undelegate s st a q.o q.x q.n q.hash with
    | .ok s' => allWithinB st a s' qs
    | .error _ => true

theorem withinPosition_of_B {s : L} {st : SID} {a : AID} {q : UReq} (h : withinPositionB s st a q = true) :
    WithinPosition s st a q := by
  unfold withinPositionB at h
  simp only [Bool.and_eq_true, decide_eq_true_eq] at h
  obtain ⟨⟨hop, hx⟩, hm⟩ := h
  refine ⟨hop, hx, ?_⟩
  split at hm
  · rename_i d p hd hp
    split at hm
    · rename_i pos hpos
      exact ⟨d, p, pos, hd, hp, hpos, by simpa using hm⟩
    · cases hm
  · cases hm

theorem freshNonce_of_B {s : L} {n : Nat} (h : freshNonceB s n = true) : FreshNonce s n := by
  intro k r hk
  unfold freshNonceB at h
  rw [List.all_eq_true] at h
  have := h (k, r) (find?_mem _ _ _ hk)
  simpa using this

theorem allWithin_of_B {st : SID} {a : AID} {s : L} {qs : List UReq} (h : allWithinB st a s qs = true) :
    AllWithin st a s qs := by
  induction qs generalizing s with
  | nil => trivial
  | cons q rest ih =>
    unfold allWithinB at h
    simp only [Bool.and_eq_true] at h
    obtain ⟨⟨hw, hf⟩, hm⟩ := h
    unfold AllWithin
    refine ⟨withinPosition_of_B hw, freshNonce_of_B hf, ?_⟩
    split at hm
    · exact ih hm
    · trivial

/-! ## non-vacuity

The state of Props/C03Accept.lean (two stakers delegate 70 and 30 to o1, a 10 % slash: pool 90 tokens /
100·10¹⁸ shares, s1's position 63) plus a second operator o2 to which s1 delegates 20. Then s1 sends
TWELVE undelegations in a row, to both operators, amounts 1..7, nonces 1..12: every one is within the
position at its time, all are accepted, and twelve records of (s1, a) are pending at once. -/

private def b0 : L :=
  { height := 1, unbonding := 10, totals := [("a", 0)], operators := ["o1", "o2"], clientChains := ["0x65"],
    stakers := [], pools := [], deleg := [], slist := [], assoc := [("s1_0x65", "o1")], recs := [], sidx := [],
    pidx := [], holds := [], bal := [], escrow := 0, gDep := [], gWd := [], gSlashed := [] }

private def bops : List LOp :=
  [.deposit "s1_0x65" "a" 100, .deposit "s2_0x65" "a" 50, .delegate "s1_0x65" "a" "o1" 70,
   .delegate "s2_0x65" "a" "o1" 30, .slash "o1" 1 ⟨100000000000000000⟩, .delegate "s1_0x65" "a" "o2" 20]

private def b1 : L := bops.foldl lstep b0

private theorem b0_full : C02Full b0 := by
  refine ⟨⟨⟨⟨?_, ?_, ?_, ?_, ?_, ?_, ?_⟩, ⟨?_, ?_, ?_⟩⟩, ?_, ?_⟩, ?_⟩
  · intro o a; simp [poolShare, shareSum, b0, sumP, getD, zeroPool, Dec.zero]
  · intro o a; simp [poolOpShare, opSum, b0, sumP, getD, zeroPool, Dec.zero]
  · exact List.nodup_nil
  · exact List.nodup_nil
  · unfold NoDup keys; decide
  · intro k d h; cases h
  · intro k d h; cases h
  · intro o a st h; simp [shareOf, b0, getD, zeroDeleg, Dec.zero] at h
  · intro o a; simp [listOf, b0, getD]
  · exact List.nodup_nil
  · intro o a st h; simp [listOf, b0, getD] at h
  · intro o a; simp [poolShare, b0, getD, zeroPool, Dec.zero]
  · intro o a _; simp [poolShare, b0, getD, zeroPool, Dec.zero]

private theorem bops_allOk : AllOk b0 bops := by
  refine ⟨trivial, trivial, trivial, trivial, ⟨by unfold UnitP; decide, ?_, ?_⟩, trivial, trivial⟩
  · unfold RecsNonneg; decide
  · unfold PoolsNonneg; decide

private theorem b1_full : C02Full b1 := C02_full_reachable b0 bops b0_full bops_allOk

private theorem b0_recInv : RecInv b0 := by
  refine ⟨by simp [b0, NoDup, keys], by simp [b0, NoDup, keys], by simp [b0, NoDup, keys], ?_, ?_, ?_, ?_⟩ <;>
    intros <;> simp_all [b0]

private theorem b1_recInv : RecInv b1 :=
  recInv_congr b0_recInv (by decide) (by decide) (by decide)

private def burst : List UReq :=
  [⟨"o1", 1, 1, "0xh1"⟩, ⟨"o1", 2, 2, "0xh2"⟩, ⟨"o2", 3, 3, "0xh3"⟩, ⟨"o1", 7, 4, "0xh4"⟩, ⟨"o1", 1, 5, "0xh5"⟩,
   ⟨"o2", 1, 6, "0xh6"⟩, ⟨"o1", 5, 7, "0xh7"⟩, ⟨"o1", 3, 8, "0xh8"⟩, ⟨"o1", 2, 9, "0xh9"⟩, ⟨"o2", 4, 10, "0xh10"⟩,
   ⟨"o1", 6, 11, "0xh11"⟩, ⟨"o1", 1, 12, "0xh12"⟩]

private theorem burst_within : AllWithin "s1_0x65" "a" b1 burst := allWithin_of_B (by decide)

/-- the theorem applies to the burst of twelve … -/
example : ∃ s', undelegateAll b1 "s1_0x65" "a" burst = .ok s' ∧ C02Full s' ∧ RecInv s' ∧
    pendingCount s' "s1_0x65" "a" = pendingCount b1 "s1_0x65" "a" + 12 :=
  C03_concurrent_undelegations_all_accepted b1 "s1_0x65" "a" burst b1_full b1_recInv burst_within

/-- … and evaluation agrees: all twelve accepted, twelve records of (s1, a) pending at once, none before -/
example : (match undelegateAll b1 "s1_0x65" "a" burst with
    | .ok s' => (pendingCount b1 "s1_0x65" "a", pendingCount s' "s1_0x65" "a", s'.recs.length, s'.sidx.length, s'.pidx.length)
    | .error _ => (0, 0, 0, 0, 0)) = (0, 12, 12, 12, 12) := by decide

/-- the stores are irrelevant: with 1000 records of (s1, a) already pending (a thousand copies of one
index entry would do as well), the next request within the position is accepted -/
example : ∃ s', undelegate { b1 with
      recs := (List.range 1000).map (fun i => (⟨"o1", 1, i + 100, "0xp"⟩, ⟨"s1_0x65", "a", "o1", "0xp", i + 100, 1, 11, 0, 0⟩)),
      sidx := [], pidx := [], holds := [] } "s1_0x65" "a" "o1" 63 1 "0xh" = .ok s' :=
  C03_undelegation_accepted_any_pending_records b1 _ [] [] [] "s1_0x65" "a" "o1" 63 1 "0xh" b1_full (by decide) (by decide)
    (d := ⟨⟨70000000000000000000⟩, 0⟩) (p := ⟨90, 0, ⟨100000000000000000000⟩, ⟨70000000000000000000⟩⟩)
    (by decide) (by decide) (pos := 63) rfl (by decide)

end ExoVerif.Ledger
