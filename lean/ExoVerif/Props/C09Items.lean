import ExoVerif.Props.C09Values
import ExoVerif.Model.AtomicItems
/-!
# C09, second sentence — the cache context of a per-item loop has to stand INSIDE the loop

"A failure while processing one item … leaves no partial effect of that item and does not stop the others."
`C09_item_fail_isolated` (a cache context per item) and `C09_item_fail_isolated_plain` (no cache context, item
fail-atomic by itself) are the two ways the code meets it.  This file adds the third loop shape,
`Items.runItemsShared` — one cache context created before the loop and shared by every item — and shows that it
does NOT isolate: what a failed item wrote before failing stays in the shared context and is committed by the next
successful item (`C09_shared_cache_commits_failed_writes`, witness `C09_shared_cache_not_isolating`), unless the
item is fail-atomic on its own (`C09_shared_cache_isolated_if_items_atomic`) — which the undelegation item, whose
first write precedes three refusable checks, is not (`C09_undelegation_body_not_atomic`).  Which of the shapes each
Go loop has is tied in `Props/C09ItemsTie.lean`.  In reachable states a completion never fails
(`C03_completion_always_succeeds`); the clause is about what happens IF an item fails, and the `atomic` domain
puts the real chain into such a state by fault injection (histories labelled `injected-fault`).
-/
namespace ExoVerif.Atomic
open Items ExoVerif.AtomicValues.Items

theorem runItemsShared_nil {σ : Type} (s : σ) : runItemsShared ([] : List (Eff σ Unit)) s = s := rfl

/-- the pair invariant of the shared loop: after any prefix, block context and cache context agree iff no item has
failed since the last success; stated as the unfolding of two items -/
theorem runItemsShared_pair {σ : Type} (a b : Eff σ Unit) (s : σ) :
    runItemsShared [a, b] s =
      (match a s with
       | (.ok _, c1) => (match b c1 with | (.ok _, c2) => c2 | (.error _, _) => c1)
       | (.error _, c1) => (match b c1 with | (.ok _, c2) => c2 | (.error _, _) => s)) := by
  unfold runItemsShared
  simp only [List.foldl_cons, List.foldl_nil, sharedStep]
  cases ha : a s with
  | mk ra c1 =>
    cases ra with
    | ok u =>
      simp only
      cases hb : b c1 with
      | mk rb c2 => cases rb <;> simp
    | error e =>
      simp only
      cases hb : b c1 with
      | mk rb c2 => cases rb <;> simp

/-- **a shared cache context commits the writes of a failed item**: if the first item fails having left the
(cache) state `t`, and the second item succeeds from `t`, the block ends in the second item's result computed
FROM `t` — the failed item's partial effect included — whereas with a cache context per item it ends in the second
item's result computed from the entry state -/
theorem C09_shared_cache_commits_failed_writes {σ : Type} (bad good : Eff σ Unit) (s t u : σ) (e : Err)
    (hb : bad s = (.error e, t)) (hg : good t = (.ok (), u)) :
    runItemsShared [bad, good] s = u := by
  rw [runItemsShared_pair, hb]
  simp only [hg]

/-- per-item cache contexts, same two items: the failed item leaves nothing -/
theorem C09_per_item_cache_drops_failed_writes {σ : Type} (bad good : Eff σ Unit) (s t : σ) (e : Err)
    (hb : bad s = (.error e, t)) : runItems [bad, good] s = runItems [good] s := by
  have := C09_item_fail_isolated [] [good] bad s e (by simp [runItems, hb])
  simpa using this

/-- the undelegation item without a cache context of its own is not fail-atomic by shape: `Set(delegationState)`
precedes the staker and operator checks -/
theorem C09_undelegation_body_not_atomic : atomicShape endBlockRecordBody = false ∧ atomicShape endBlockRecord = true := by
  decide

/-- **witness** (`counting`: the state counts the writes): two matured undelegations in one block; the first is
refused at `UpdateOperatorAssetState` after two writes (delegation row, staker row), the second completes (four
writes).
* cache context outside the loop: the block ends with 6 writes committed — the first record's two included;
* cache context inside the loop (the code): 4 writes, exactly those of the second record;
* the first record alone (or last in the block) leaves no trace in either shape — why a single failing record,
  and every block in which all records complete, cannot tell the two apart. -/
theorem C09_shared_cache_not_isolating :
    let bad := run (counting ["UpdateAssetValue(operator.PendingUndelegationAmount)"]) endBlockRecordBody
    let good := run (counting []) endBlockRecordBody
    let badC := run (counting ["UpdateAssetValue(operator.PendingUndelegationAmount)"]) endBlockRecord
    let goodC := run (counting []) endBlockRecord
    (bad 0).1 = .error (.reject "UpdateAssetValue(operator.PendingUndelegationAmount)") ∧ (bad 0).2 = 2 ∧
    (good 2).1 = .ok () ∧
    runItemsShared [bad, good] 0 = 6 ∧ runItemsShared [good] 0 = 4 ∧
    runItemsShared [bad, good] 0 ≠ runItemsShared [good] 0 ∧
    runItemsPlain [badC, goodC] 0 = 4 ∧ runItems [bad, good] 0 = 4 ∧
    runItemsShared [bad] 0 = 0 ∧ runItemsShared [good, bad] 0 = 4 := by
  decide

/-- the full statement for the shared shape — "a failing item is as if it were not in the list" — fails -/
def C09_shared_full : Prop :=
  ∀ (σ : Type) (pre post : List (Eff σ Unit)) (bad : Eff σ Unit) (s : σ) (e : Err),
    (bad (runItemsShared pre s)).1 = .error e → runItemsShared (pre ++ bad :: post) s = runItemsShared (pre ++ post) s

theorem C09_shared_full_fails : ¬ C09_shared_full := by
  intro h
  have := h Nat [] [run (counting []) endBlockRecordBody]
    (run (counting ["UpdateAssetValue(operator.PendingUndelegationAmount)"]) endBlockRecordBody) 0
    (.reject "UpdateAssetValue(operator.PendingUndelegationAmount)") (by decide)
  revert this
  decide

theorem runItems_cons_snd {σ : Type} (it : Eff σ Unit) (rest : List (Eff σ Unit)) (c : σ) :
    runItems (it :: rest) c = runItems rest (cached it c).2 := by
  unfold runItems
  simp only [List.foldl_cons]
  congr 1
  cases cached it c with
  | mk r s' => cases r <;> rfl

/-- what a shared cache context does give: if every item that fails leaves the state it ran on untouched (it is
fail-atomic on its own), the shared loop computes what the per-item loop computes -/
theorem C09_shared_cache_isolated_if_items_atomic {σ : Type} (items : List (Eff σ Unit)) (s : σ)
    (hat : ∀ it ∈ items, ∀ t e, (it t).1 = .error e → (it t).2 = t) :
    runItemsShared items s = runItems items s := by
  have key : ∀ (its : List (Eff σ Unit)) (c : σ), (∀ it ∈ its, ∀ t e, (it t).1 = .error e → (it t).2 = t) →
      its.foldl sharedStep (c, c) = (runItems its c, runItems its c) := by
    intro its
    induction its with
    | nil => intro c _; rfl
    | cons it rest ih =>
      intro c h
      have hr : ∀ x ∈ rest, ∀ t e, (x t).1 = .error e → (x t).2 = t := fun x hx => h x (List.mem_cons_of_mem _ hx)
      rw [runItems_cons_snd, List.foldl_cons]
      cases hit : it c with
      | mk r c' =>
        cases r with
        | ok u =>
          have h1 : sharedStep (c, c) it = (c', c') := by simp [sharedStep, hit]
          have h2 : (cached it c).2 = c' := by simp [cached, hit]
          rw [h1, h2]
          exact ih c' hr
        | error e =>
          have hc : c' = c := by
            have := h it (List.mem_cons_self ..) c e (by rw [hit])
            rw [hit] at this
            exact this
          subst hc
          have h1 : sharedStep (c', c') it = (c', c') := by simp [sharedStep, hit]
          have h2 : (cached it c').2 = c' := by simp [cached, hit]
          rw [h1, h2]
          exact ih c' hr
  unfold runItemsShared
  rw [key items s hat]

/-- the correspondence table: a failure at any step of the four item programs is answered `isolated` -/
theorem C09_item_verdicts :
    itemVerdict "delegation.EndBlock.records" "UpdateAssetValue(operator.PendingUndelegationAmount)" = "isolated" ∧
    itemVerdict "delegation.EndBlock.records" "UpdateAssetValue(PendingUndelegationAmount)" = "isolated" ∧
    itemVerdict "operator.AfterEpochEnd.avsList" "IterateOperatorsForAVS(update)" = "isolated" ∧
    itemVerdict "operator.AfterEpochEnd.avsList" "GetAssetsDecimal" = "isolated" ∧
    itemVerdict "sdk.BeginBlock.slash" "Has(slashInfoKey)" = "isolated" ∧
    itemVerdict "avs.AfterEpochEnd.groupedTasks" "GetTaskInfo" = "isolated" := by
  decide

/-- every step of every item program of the four loops is one at which a failure leaves no trace of the item -/
theorem C09_item_programs_all_steps_isolated :
    Items.loops.all (fun l => atomicShape l.2.2) = true := by
  decide

end ExoVerif.Atomic
