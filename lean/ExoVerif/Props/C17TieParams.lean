import ExoVerif.Generated.Facts
import ExoVerif.Generated.DistrSlices
import ExoVerif.Model.DistributionParams
/-!
# C17 tie, parameter updates: the Go functions `Model/DistributionParams.lean` transcribes are the ones it was
written against

Regenerated on every run by tools/exofacts/facts_rewards_params.go (statement shapes as in `Props/C17Tie.lean`, plus
the list of every KVStore write of the two keepers), and by tools/exofacts/facts_rewards_params.go: distrTaxGuardGen
(`Generated/DistrSlices.lean`: the community-tax guard of x/feedistribution Params.Validate translated by the GoLite
translator and proved equal to the model's guard for every raw value, `C17_tie_distrTaxGuard`).
-/
namespace ExoVerif.Distr
open ExoVerif.Gen

/-- x/exomint UpdateParams ↔ `mintUpdateParams`: override, stateless validation (refusal = ErrInvalidParams before any write), an identifier x/epochs does not have keeps the previous one, SetParams -/
theorem C17_tie_shapeMintUpdateParams : shapeMintUpdateParams =
  [
    "c := sdk.UnwrapSDKContext(ctx)",
    "if utils.IsMainnet(c.ChainID()) && k.authority != msg.Authority",
    "return nil, govtypes.ErrInvalidSigner.Wrapf( \"invalid authority; expected %s, got %s\", k.authority, msg.Authority, )",
    "end if",
    "prevParams := k.GetParams(c)",
    "nextParams := msg.Params",
    "overParams := nextParams.OverrideIfRequired(prevParams, k.Logger(c))",
    "if err := overParams.Validate(); err != nil",
    "return nil, errorsmod.Wrapf( types.ErrInvalidParams, \"invalid params: %s\", err, )",
    "end if",
    "if _, found := k.epochsKeeper.GetEpochInfo(c, overParams.EpochIdentifier); !found",
    "overParams.EpochIdentifier = prevParams.EpochIdentifier",
    "end if",
    "k.SetParams(c, overParams)",
    "return &types.MsgUpdateParamsResponse{}, nil"] := rfl

/-- Params.OverrideIfRequired ↔ `overrideIfRequired`: invalid denom / nil or negative reward / blank identifier keep the previous value -/
theorem C17_tie_shapeMintOverrideIfRequired : shapeMintOverrideIfRequired =
  [
    "overParams := p.Copy()",
    "if err := sdk.ValidateDenom(p.MintDenom); err != nil",
    "overParams.MintDenom = prevParams.MintDenom",
    "end if",
    "if p.EpochReward.IsNil() || p.EpochReward.IsNegative()",
    "overParams.EpochReward = prevParams.EpochReward",
    "end if",
    "if err := epochstypes.ValidateEpochIdentifierString( p.EpochIdentifier, ); err != nil",
    "overParams.EpochIdentifier = prevParams.EpochIdentifier",
    "end if",
    "return overParams"] := rfl

/-- Params.Validate ↔ `MintParams.valid` -/
theorem C17_tie_shapeMintParamsValidate : shapeMintParamsValidate =
  [
    "if err := ValidateMintDenom(p.MintDenom); err != nil",
    "return err",
    "end if",
    "if err := ValidateEpochReward(p.EpochReward); err != nil",
    "return err",
    "end if",
    "return epochstypes.ValidateEpochIdentifierString(p.EpochIdentifier)"] := rfl

/-- ValidateEpochReward: not nil, not negative (zero allowed) -/
theorem C17_tie_shapeMintValidateEpochReward : shapeMintValidateEpochReward =
  [
    "v, ok := i.(math.Int)",
    "if !ok",
    "return fmt.Errorf(\"invalid parameter type: %T\", i)",
    "end if",
    "if v.IsNil()",
    "return fmt.Errorf(\"epoch reward cannot be nil\")",
    "end if",
    "if v.LT(sdk.ZeroInt())",
    "return fmt.Errorf(\"mint reward must be non-negative: %s\", v)",
    "end if",
    "return nil"] := rfl

/-- ValidateMintDenom = sdk.ValidateDenom ↔ `validDenom` -/
theorem C17_tie_shapeMintValidateMintDenom : shapeMintValidateMintDenom =
  [
    "v, ok := i.(string)",
    "if !ok",
    "return fmt.Errorf(\"invalid parameter type: %T\", i)",
    "end if",
    "return sdk.ValidateDenom(v)"] := rfl

/-- ValidateEpochIdentifierString ↔ `validEpochId`: not blank after TrimSpace -/
theorem C17_tie_shapeValidateEpochIdentifierString : shapeValidateEpochIdentifierString =
  [
    "s = strings.TrimSpace(s)",
    "if s == \"\"",
    "return fmt.Errorf(\"empty distribution epoch identifier: %+v\", s)",
    "end if",
    "return nil"] := rfl

/-- x/feedistribution UpdateParams ↔ `distrUpdateParams`: stateless validation (`req.Params.Validate()`, the community-tax bound — repair of F-17c) refused first, then an unknown identifier, both before any write; otherwise the message's params stored as they are -/
theorem C17_tie_shapeDistrUpdateParams : shapeDistrUpdateParams =
  [
    "ctx := sdk.UnwrapSDKContext(goCtx)",
    "if utils.IsMainnet(ctx.ChainID()) && k.authority != req.Authority",
    "return nil, govtypes.ErrInvalidSigner.Wrapf( \"invalid authority; expected %s, got %s\", k.authority, req.Authority, )",
    "end if",
    "if err := req.Params.Validate(); err != nil",
    "return nil, err",
    "end if",
    "epochIdentifier := req.Params.EpochIdentifier",
    "_, found := k.epochsKeeper.GetEpochInfo(ctx, epochIdentifier)",
    "if !found",
    "return &types.MsgUpdateParamsResponse{}, errorsmod.Wrap(types.ErrEpochNotFound, fmt.Sprintf(\"epoch info not found %s\", epochIdentifier))",
    "end if",
    "k.SetParams(ctx, req.Params)",
    "return &types.MsgUpdateParamsResponse{}, nil"] := rfl

/-- x/feedistribution Params.Validate ↔ `DistrMsg.valid`: one guard (a non-nil community tax that is negative or above 1) and nothing else -/
theorem C17_tie_shapeDistrParamsValidate : shapeDistrParamsValidate =
  [
    "if !p.CommunityTax.IsNil() && (p.CommunityTax.IsNegative() || p.CommunityTax.GT(sdk.OneDec()))",
    "return fmt.Errorf(\"community tax must be in [0, 1]: %s\", p.CommunityTax)",
    "end if",
    "return nil"] := rfl

/-- The guard of Params.Validate, translated from the Go source (`Generated/DistrSlices.lean`), IS the model's guard:
for every raw value of a non-nil community tax the Go condition `IsNegative() || GT(OneDec())` holds exactly when
`distrTaxOutOfRange` rejects, i.e. (C17_tax_guard_iff) exactly outside [0, 10^18]. A changed comparison (`GTE`, `LT`,
a bound other than `sdk.OneDec()`, a dropped disjunct) changes the left-hand side and breaks this theorem. -/
theorem C17_tie_distrTaxGuard (t : Int) : distrTaxOutsideUnit ⟨t⟩ = distrTaxOutOfRange (some t) := by
  simp only [distrTaxOutsideUnit, distrTaxOutOfRange, Dec.isNegative, Dec.gt, Dec.one]
  congr

/-- … and a nil community tax is not rejected (the extractor matched `!p.CommunityTax.IsNil() && (…)` as the whole
condition of the one guard): `distrTaxOutOfRange none = false`; the condition as written is pinned too. -/
theorem C17_tie_distrTaxGuardNil : (distrTaxGuardNilPasses = true ∧ distrTaxOutOfRange none = false) ∧
    distrTaxGuardSource = "!p.CommunityTax.IsNil() && (p.CommunityTax.IsNegative() || p.CommunityTax.GT(sdk.OneDec()))" :=
  ⟨⟨rfl, rfl⟩, rfl⟩

/-- genesis: Keeper.InitGenesis stores the genesis params as they are — Params.Validate is NOT called here (the
theorems of Props/C17Tax.lean take the tax bound of the initial state as a hypothesis) -/
theorem C17_tie_shapeDistrInitGenesis : shapeDistrInitGenesis =
  [
    "k.SetParams(ctx, genState.Params)",
    "epochID := genState.Params.EpochIdentifier",
    "_, found := k.epochsKeeper.GetEpochInfo(ctx, epochID)",
    "if !found",
    "panic(\"not found the epoch info\")",
    "end if"] := rfl

/-- … while GenesisState.Validate (AppModuleBasic.ValidateGenesis: the `validate-genesis` command, not InitChain) does -/
theorem C17_tie_shapeDistrGenesisValidate : shapeDistrGenesisValidate =
  [
    "return gs.Params.Validate()"] := rfl

/-- the mint hook reads the stored params at every notification -/
theorem C17_tie_shapeMintGetParams : shapeMintGetParams =
  [
    "store := ctx.KVStore(k.storeKey)",
    "key := types.KeyPrefixParams()",
    "bz := store.Get(key)",
    "var params types.Params",
    "k.cdc.MustUnmarshal(bz, &params)",
    "return params"] := rfl

/-- SetParams overwrites the one params entry -/
theorem C17_tie_shapeMintSetParams : shapeMintSetParams =
  [
    "store := ctx.KVStore(k.storeKey)",
    "key := types.KeyPrefixParams()",
    "bz := k.cdc.MustMarshal(&params)",
    "store.Set(key, bz)"] := rfl

/-- the distribution hook reads the stored params at every notification -/
theorem C17_tie_shapeDistrGetParams : shapeDistrGetParams =
  [
    "store := ctx.KVStore(k.storeKey)",
    "key := types.KeyPrefixParams",
    "bz := store.Get(key)",
    "var params types.Params",
    "k.cdc.MustUnmarshal(bz, &params)",
    "return params"] := rfl

/-- SetParams overwrites the one params entry -/
theorem C17_tie_shapeDistrSetParams : shapeDistrSetParams =
  [
    "store := ctx.KVStore(k.storeKey)",
    "key := types.KeyPrefixParams",
    "bz := k.cdc.MustMarshal(&params)",
    "store.Set(key, bz)"] := rfl

/-- x/exomint writes nothing to its store but its params: the hook cannot remember anything (an epoch number, say) from one notification to the next — `HS` has no such component -/
theorem C17_tie_mintStoreWrites : mintStoreWrites =
  [
    "params.go: Keeper.SetParams: store.Set(key, bz)"] := rfl

/-- x/feedistribution writes its params, the fee pool and the four claim books of `Pool` (+ ValidatorCurrentRewards, never called) and nothing else -/
theorem C17_tie_distrStoreWrites : distrStoreWrites =
  [
    "keeper.go: Keeper.GetFeePool: store.Set(types.FeePoolKey, b)",
    "keeper.go: Keeper.SetFeePool: store.Set(types.FeePoolKey, b)",
    "keeper.go: Keeper.SetStakerRewards: store.Set(types.GetStakerOutstandingRewardsKey(stakerAddress), b)",
    "keeper.go: Keeper.SetValidatorAccumulatedCommission: store.Set(types.GetValidatorAccumulatedCommissionKey(val), bz)",
    "keeper.go: Keeper.SetValidatorCurrentRewards: store.Set(types.GetValidatorCurrentRewardsKey(val), b)",
    "keeper.go: Keeper.SetValidatorOutstandingRewards: store.Set(types.GetValidatorOutstandingRewardsKey(val), b)",
    "params.go: Keeper.SetParams: store.Set(key, bz)"] := rfl

/-- exomint MsgUpdateParams.ValidateBasic ↔ `MintMsg.validateBasic`: Params.Validate of the message's params -/
theorem C17_tie_shapeMintMsgValidateBasic : shapeMintMsgValidateBasic =
  [
    "if _, err := sdk.AccAddressFromBech32(m.Authority); err != nil",
    "return errorsmod.Wrap(err, \"invalid from address\")",
    "end if",
    "return m.Params.Validate()"] := rfl

/-- feedistribution MsgUpdateParams.ValidateBasic ↔ `DistrMsg.validateBasic`: Params.Validate of the message's params (the community-tax bound) -/
theorem C17_tie_shapeDistrMsgValidateBasic : shapeDistrMsgValidateBasic =
  [
    "if _, err := sdk.AccAddressFromBech32(m.Authority); err != nil",
    "return errorsmod.Wrap(err, \"invalid authority address\")",
    "end if",
    "if err := m.Params.Validate(); err != nil",
    "return err",
    "end if",
    "return nil"] := rfl

end ExoVerif.Distr
