import ExoVerif.Generated.Facts
import ExoVerif.Model.EvmBatch
/-!
# C19 tie for batches: the three places of the Go source `Model/EvmBatch.lean` mirrors statement by statement

* `execMsgs` writes `nonce sender := msg.nonce + 1` after a creation because ApplyMessageWithConfig does
  (`evmCreateNonceStmts`; the repair proposed for F-19d changes this fact, the model has to follow);
* `resetAndConsume` is RefundGas(GasConsumed()) followed by ConsumeGas(gasUsed) (`evmResetGasMeterStmts`);
* `bumpNonces` compares the message nonce with the current sequence and stores sequence + 1, once per message
  (`evmSeqIncrementStmts`).
-/
namespace ExoVerif.EvmFee
open ExoVerif.Gen

theorem C19_tie_create_nonce_stmts : evmCreateNonceStmts =
    ["stateDB.SetNonce(sender.Address(), msg.Nonce())",
     "ret, _, leftoverGas, vmErr = evm.Create(sender, msg.Data(), leftoverGas, msg.Value())",
     "stateDB.SetNonce(sender.Address(), msg.Nonce()+1)"] := by decide

theorem C19_tie_reset_gas_meter_stmts : evmResetGasMeterStmts =
    ["ctx.GasMeter().RefundGas(ctx.GasMeter().GasConsumed(), \"reset the gas count\")",
     "ctx.GasMeter().ConsumeGas(gasUsed, \"apply evm transaction\")"] := by decide

/-- what the two statements do to the meter: whatever was consumed before, `gasUsed` afterwards -/
theorem C19_tie_reset_and_consume (meter gasUsed : Int) : resetAndConsume meter gasUsed = gasUsed := by
  unfold resetAndConsume; omega

theorem C19_tie_seq_increment_stmts : evmSeqIncrementStmts =
    ["for range tx.GetMsgs()", "reject if !ok", "reject if err != nil", "reject if acc == nil",
     "nonce := acc.GetSequence()", "reject if txData.GetNonce() != nonce", "err := acc.SetSequence(nonce + 1)",
     "issd.ak.SetAccount(ctx, acc)"] := by decide

end ExoVerif.EvmFee
