import ExoVerif.Generated.Facts
import ExoVerif.Model.EvmBatch
/-!
# C19 tie for batches: the three places of the Go source `Model/EvmBatch.lean` mirrors statement by statement

* `execMsgs` writes `nonce sender := createNonce (nonce found) msg.nonce` after a creation because ApplyMessageWithConfig
  does (`evmCreateNonceStmts`, the branch as repaired for F-19d in e39c03d);
* `resetAndConsume` is RefundGas(GasConsumed()) followed by ConsumeGas(gasUsed) (`evmResetGasMeterStmts`);
* `bumpNonces` compares the message nonce with the current sequence and stores sequence + 1, once per message
  (`evmSeqIncrementStmts`).
-/
namespace ExoVerif.EvmFee
open ExoVerif.Gen

/-- the repaired creation branch (e39c03d), statement by statement: `createNonce nonceBefore msg.Nonce()` is what the last
    statement stores. Reverting the repair (or any other change of the branch) breaks this theorem. -/
theorem C19_tie_create_nonce_stmts : evmCreateNonceStmts =
    ["nonceBefore := stateDB.GetNonce(sender.Address())",
     "stateDB.SetNonce(sender.Address(), msg.Nonce())",
     "ret, _, leftoverGas, vmErr = evm.Create(sender, msg.Data(), leftoverGas, msg.Value())",
     "if nonceBefore < msg.Nonce()+1 { nonceBefore = msg.Nonce() + 1 }",
     "stateDB.SetNonce(sender.Address(), nonceBefore)"] := by decide

/-- `createNonce` is the `if` of the branch: nonceBefore, raised to msg.Nonce()+1 when it is below -/
theorem C19_tie_create_nonce (nonceBefore msgNonce : Int) :
    createNonce nonceBefore msgNonce = (if nonceBefore < msgNonce + 1 then msgNonce + 1 else nonceBefore) := rfl

theorem C19_tie_reset_gas_meter_stmts : evmResetGasMeterStmts =
    ["ctx.GasMeter().RefundGas(ctx.GasMeter().GasConsumed(), \"reset the gas count\")",
     "ctx.GasMeter().ConsumeGas(gasUsed, \"apply evm transaction\")"] := by decide

/-- what the two statements do to the meter: whatever was consumed before, `gasUsed` afterwards -/
theorem C19_tie_reset_and_consume (meter gasUsed : Int) : resetAndConsume meter gasUsed = gasUsed := by
  unfold resetAndConsume; omega

theorem C19_tie_seq_increment_stmts : evmSeqIncrementStmts =
    ["for range tx.GetMsgs()", "reject if !ok", "reject if err != nil", "reject if acc == nil",
     "nonce := acc.GetSequence()", "reject if txData.GetNonce() != nonce", "err := acc.SetSequence(nonce + 1)",
     "issd.ak.SetAccount(ctx, acc)"] := by decide

end ExoVerif.EvmFee
