import ExoVerif.Props.C01Nst
import ExoVerif.Props.C01Native
import ExoVerif.Props.C01Extra
import ExoVerif.Props.C03
import ExoVerif.Props.C03Inv
import ExoVerif.Props.C04
import ExoVerif.Proofs.LedgerRelease
import ExoVerif.Proofs.LedgerComplete
import ExoVerif.Proofs.LedgerPendNst
/-!
# C03, middle sentence, as statements about whole blocks and whole histories

"That record is released exactly once, at the end of the first block whose height has reached its completion
height and at which no AVS hold on it remains, crediting the same staker with exactly its recorded amount less
any slashing applied while it was pending; no record is ever lost, duplicated, overwritten by another, or
released early."

`Props/C03.lean` states the clause per record and per EndBlock iteration (`C03_due_unheld_released_exact` carries
the hypothesis that the completion succeeds). Here:

* `C03_completion_always_succeeds` — that hypothesis is discharged: in a state where the pending figures equal
  the record sums (`PendInv`), nothing is negative (`NN`) and the escrow account covers the native-token value,
  `completeRecord` of a live record cannot fail;
* `C03_due_unheld_always_released` — hence a live record whose completion height is the current height and on
  which no hold remains IS gone from the record store after the block (and the stores stay consistent);
* `C03_release_credits_exactly` — over a whole block end, for EVERY staker and restaked asset: withdrawable
  balance + Σ ActualCompletedAmount of its pending undelegations is unchanged. Whatever left the pending records
  of (st, a) in the block - ActualCompletedAmount = recorded amount less the slashing applied while pending -
  went to the withdrawable balance of that very staker, exactly once, and nothing else was credited to anyone;
* `C03_record_fate_step` — one step of ANY operation (the ten ledger operations and the native-restaking
  adjustment), accepted or rejected: a live record is afterwards still stored under its key with the same
  staker, asset, operator, nonce, hash, start height and original amount - only `actual` may have been lowered
  (slash / balance decrease) and the completion height moved on (re-queue of a held record) - or the operation
  was a block end at which the record was due and un-held, and it was released;
* `C03_no_record_lost` — the same over every finite history: a record that is no longer stored was released by
  a block end at which it was due and un-held (never lost, never overwritten, never released early);
* `C03_pending_figures_reachable_with_nst` — the last sentence of C03 (pending figures = sums of the unreleased
  records) also over histories with native-restaking balance adjustments (`C03_pending_figures_reachable` covers
  the ten ledger operations);
* `C03_released_at_first_free_block` — from genesis, over every finite history of the ten ledger operations and
  balance adjustments: in every reachable state, a live record that is due and un-held is released by the next
  block end, and all the above invariants hold (`C03_exit_invariants_reachable`).
(Duplicates: `RecInv` - unique keys in the three stores, every index entry pointing back at its record - holds in
every reachable state: `C01_reachable_with_nst`, `C03_index_consistent_*`; the one way to break it, two requests
with one nonce, is finding F-03a, `C03_full_fails`.)
-/
namespace ExoVerif.Ledger
open ExoVerif ExoVerif.KV

/-- **completion never fails** in a state of the invariants -/
theorem C03_completion_always_succeeds {s : L} {r : URec} (hp : PendInv s) (hn : NN s) (hc : EscrowCovers s)
    (hl : Live s r) : ∃ s', completeRecord s r = .ok s' :=
  completeRecord_accepts hp hn hc hl

/-- **a due, un-held record is released by the block end**: gone from the record store, the three stores still
consistent; with `C03_never_early_never_lost` and `C03_held_is_requeued`: released at the end of the FIRST block
whose height has reached its completion height and at which no hold remains -/
theorem C03_due_unheld_always_released {s : L} (hi : RecInv s) (hp : PendInv s) (hn : NN s) (hc : EscrowCovers s)
    (r : URec) (hl : Live s r) (hdue : r.completeBlock = s.height) (h0 : getD s.holds r.key 0 = 0) :
    find? (nextBlock (endBlock s)).recs r.key = none ∧ RecInv (nextBlock (endBlock s)) :=
  ⟨endBlock_releases hi hp hn hc r hl hdue h0, C03_index_consistent_endBlock hi⟩

/-- **a block end credits exactly what it releases, to the staker the records name**: for every staker and
restaked asset, withdrawable + Σ owed by its pending undelegations is the same before and after -/
theorem C03_release_credits_exactly {s : L} (hi : RecInv s) (st : SID) (a : AID) (ha : a ≠ nativeAID) :
    claim (nextBlock (endBlock s)) st a = claim s st a := claim_endBlock hi st a ha

/-- the same as a statement about the credit: what the withdrawable side of (st, a) gains in a block is exactly
what the pending undelegations of (st, a) stop owing -/
theorem C03_release_credit_is_released_amount {s : L} (hi : RecInv s) (st : SID) (a : AID) (ha : a ≠ nativeAID) :
    sumP (wAtS st a) (nextBlock (endBlock s)).stakers - sumP (wAtS st a) s.stakers
      = owed s st a - owed (nextBlock (endBlock s)) st a := by
  have h := claim_endBlock hi st a ha
  unfold claim at h
  unfold owed
  omega

/-! ## no record is ever lost -/

/-- `r'` is the record `r` later in its life: identity and original amount unchanged, what it still owes not
raised, completion height not lowered -/
def SameRecord (r r' : URec) : Prop :=
  r'.staker = r.staker ∧ r'.asset = r.asset ∧ r'.op = r.op ∧ r'.hash = r.hash ∧ r'.nonce = r.nonce ∧
  r'.blockNumber = r.blockNumber ∧ r'.amount = r.amount ∧ r'.actual ≤ r.actual ∧ r.completeBlock ≤ r'.completeBlock

theorem SameRecord.refl (r : URec) : SameRecord r r :=
  ⟨rfl, rfl, rfl, rfl, rfl, rfl, rfl, Int.le_refl _, Nat.le_refl _⟩

theorem SameRecord.trans {r1 r2 r3 : URec} (h12 : SameRecord r1 r2) (h23 : SameRecord r2 r3) : SameRecord r1 r3 := by
  obtain ⟨a1, a2, a3, a4, a5, a6, a7, a8, a9⟩ := h12
  obtain ⟨b1, b2, b3, b4, b5, b6, b7, b8, b9⟩ := h23
  exact ⟨b1.trans a1, b2.trans a2, b3.trans a3, b4.trans a4, b5.trans a5, b6.trans a6, b7.trans a7,
    Int.le_trans b8 a8, Nat.le_trans a9 b9⟩

theorem deposit_recs {s s' : L} {st : SID} {a : AID} {x : Int} (h : deposit s st a x = .ok s') :
    s'.recs = s.recs ∧ s'.holds = s.holds ∧ s'.height = s.height := by
  unfold deposit at h
  simp only [bind, Except.bind, pure, Except.pure, throw, throwThe, MonadExceptOf.throw] at h
  split at h
  · cases h
  · split at h
    · cases h
    · split at h
      · cases h
      · rename_i s1 h1
        split at h
        · cases h
        · rename_i s2 h2
          injection h with h
          obtain ⟨t, _, hs2⟩ := updTotal_ok h2
          obtain ⟨r1, _, _, r4, r5, _⟩ := updStaker_recs h1
          rw [← h, hs2]; exact ⟨r1, r4, r5⟩

theorem withdraw_recs {s s' : L} {st : SID} {a : AID} {x : Int} (h : withdraw s st a x = .ok s') :
    s'.recs = s.recs ∧ s'.holds = s.holds ∧ s'.height = s.height := by
  unfold withdraw at h
  simp only [bind, Except.bind, pure, Except.pure, throw, throwThe, MonadExceptOf.throw] at h
  split at h
  · cases h
  · split at h
    · cases h
    · split at h
      · cases h
      · rename_i s1 h1
        split at h
        · cases h
        · rename_i s2 h2
          injection h with h
          obtain ⟨t, _, hs2⟩ := updTotal_ok h2
          obtain ⟨r1, _, _, r4, r5, _⟩ := updStaker_recs h1
          rw [← h, hs2]; exact ⟨r1, r4, r5⟩

/-- the alternative "released now": the step is a block end at which the record was due and un-held, and the
record is gone -/
def ReleasedBy (s : L) (op : LOp') (k : RecKey) (r : URec) : Prop :=
  op = .base .blockEnd ∧ r.completeBlock = s.height ∧ getD s.holds k 0 = 0 ∧ find? (lstep' s op).recs k = none

/-- **the fate of a record in one step of any operation** -/
theorem C03_record_fate_step (s : L) (op : LOp') (hi : RecInv s) (hn : NN s) (hok : OpOk0' s op)
    (k : RecKey) (r : URec) (hf : find? s.recs k = some r) :
    (∃ r', find? (lstep' s op).recs k = some r' ∧ SameRecord r r') ∨ ReleasedBy s op k r := by
  have keep : ∀ s' : L, s'.recs = s.recs → ∃ r', find? s'.recs k = some r' ∧ SameRecord r r' :=
    fun s' e => ⟨r, by rw [e]; exact hf, SameRecord.refl r⟩
  cases op with
  | nst st a0 x =>
    left
    simp only [lstep']
    cases h : nstUpdate s st a0 x with
    | error e => exact keep s rfl
    | ok s' =>
      simp only []
      obtain ⟨y, hy, hle, _, _⟩ := (C01_nst_frame hi hn h).2.2.2.2.2.2.2.2.2.2 k r hf
      exact ⟨_, hy, rfl, rfl, rfl, rfl, rfl, rfl, rfl, hle, Nat.le_refl _⟩
  | base op =>
    cases op with
    | deposit st a x =>
      left; simp only [lstep', lstep]; split
      · rename_i s' h; exact keep s' (deposit_recs h).1
      · exact keep s rfl
    | withdraw st a x =>
      left; simp only [lstep', lstep]; split
      · rename_i s' h; exact keep s' (withdraw_recs h).1
      · exact keep s rfl
    | delegate st a o x =>
      left; simp only [lstep', lstep]; split
      · rename_i s' h; exact keep s' (delegate_frame h).2.1
      · exact keep s rfl
    | undelegate st a o x n hash =>
      left; simp only [lstep', lstep]; split
      · rename_i s' h
        obtain ⟨_, _, r0, _, _, _, _, _, _, _, _, _, hnone, hoth⟩ := undelegate_spec hi hok h
        have hne : k ≠ r0.key := by intro e; rw [e, hnone] at hf; cases hf
        exact ⟨r, by rw [hoth k hne]; exact hf, SameRecord.refl r⟩
      · exact keep s rfl
    | associate st o =>
      left; simp only [lstep', lstep]; split
      · rename_i s' h
        unfold associate at h
        simp only [bind, Except.bind, pure, Except.pure, throw, throwThe, MonadExceptOf.throw] at h
        split at h
        · cases h
        · split at h
          · cases h
          · split at h
            · cases h
            · split at h
              · cases h
              · rename_i s1 h1
                injection h with h
                obtain ⟨_, ⟨r1, _⟩, _⟩ := value_foldlM_opShare _ o (fun r => r.share) "a" h1
                exact keep s' (by rw [← h]; exact r1)
      · exact keep s rfl
    | dissociate st =>
      left; simp only [lstep', lstep]; split
      · rename_i s' h
        unfold dissociate at h
        simp only [bind, Except.bind, pure, Except.pure, throw, throwThe, MonadExceptOf.throw] at h
        split at h
        · cases h
        · rename_i o ho
          split at h
          · cases h
          · rename_i s1 h1
            injection h with h
            obtain ⟨_, ⟨r1, _⟩, _⟩ := value_foldlM_opShare _ o (fun r => r.share.neg) "a" h1
            exact keep s' (by rw [← h]; exact r1)
      · exact keep s rfl
    | hold k0 => left; exact keep _ rfl
    | release k0 =>
      left; simp only [lstep', lstep]; split
      · rename_i s' h
        unfold release at h
        simp only [] at h
        split at h
        · cases h
        · injection h with h; exact keep s' (by rw [← h])
      · exact keep s rfl
    | blockEnd =>
      have hkey : r.key = k := (hi.keyed k r hf).1
      have hl : Live s r := by unfold Live; rw [hkey]; exact hf
      rcases endBlock_fate hi r hl with h1 | ⟨hd, hh, h2⟩ | ⟨hd, hh, h3⟩
      · left
        refine ⟨r, ?_, SameRecord.refl r⟩
        show find? (endBlock s).recs k = some r
        rw [← hkey]; exact h1
      · left
        refine ⟨{ r with completeBlock := s.height + 1 }, ?_, rfl, rfl, rfl, rfl, rfl, rfl, rfl, Int.le_refl _, ?_⟩
        · show find? (endBlock s).recs k = _
          rw [← hkey]; exact h2
        · show r.completeBlock ≤ s.height + 1
          omega
      · right
        refine ⟨rfl, hd, by rw [← hkey]; exact hh, ?_⟩
        show find? (endBlock s).recs k = none
        rw [← hkey]; exact h3
    | slash o inf p =>
      left
      simp only [lstep', lstep]
      have hfr := C04_records_frame s o inf p k
      rw [hf] at hfr
      simp only [Option.map] at hfr
      have hrc := hn.rc (k, r) (find?_mem _ _ _ hf)
      simp only [] at hrc
      obtain ⟨_, e1, c0, c1⟩ := slashFromUndelegation_spec r p hok (by omega) hrc.1
      split at hfr
      · refine ⟨_, hfr, ?_⟩
        rw [e1]
        exact ⟨rfl, rfl, rfl, rfl, rfl, rfl, rfl, by show r.actual - _ ≤ r.actual; omega, Nat.le_refl _⟩
      · exact ⟨r, hfr, SameRecord.refl r⟩

/-- **no record is ever lost, overwritten or released early, over every finite history**: a record stored at
some point is, after any finite continuation, either still stored under its key as the same record
(`SameRecord`), or there was a block end in between at which it - still the same record - was due and un-held and
was released. -/
theorem C03_no_record_lost (s : L) (ops : List LOp') (hi : RecInv s) (hn : NN s) (hok : AllOk0' s ops)
    (k : RecKey) (r : URec) (hf : find? s.recs k = some r) :
    (∃ r', find? (ops.foldl lstep' s).recs k = some r' ∧ SameRecord r r') ∨
    (∃ (pre post : List LOp') (r1 : URec), ops = pre ++ LOp'.base .blockEnd :: post ∧
      find? (pre.foldl lstep' s).recs k = some r1 ∧ SameRecord r r1 ∧
      ReleasedBy (pre.foldl lstep' s) (.base .blockEnd) k r1) := by
  induction ops generalizing s r with
  | nil => exact Or.inl ⟨r, hf, SameRecord.refl r⟩
  | cons op rest ih =>
    obtain ⟨h1, h2⟩ := hok
    obtain ⟨_, _, nn1, i1⟩ := C01_nst_net_step s op "a" (by decide) hi hn h1
    rcases C03_record_fate_step s op hi hn h1 k r hf with ⟨r', hf', hs'⟩ | hrel
    · rcases ih (lstep' s op) i1 nn1 h2 r' hf' with ⟨r'', hf'', hs''⟩ | ⟨pre, post, r1, e, hf1, hs1, hr1⟩
      · exact Or.inl ⟨r'', hf'', hs'.trans hs''⟩
      · exact Or.inr ⟨op :: pre, post, r1, by rw [e]; rfl, hf1, hs'.trans hs1, hr1⟩
    · have e := hrel.1
      subst e
      exact Or.inr ⟨[], rest, r, rfl, hf, SameRecord.refl r, hrel⟩

/-! ## every reachable state -/

/-- all the invariants the release clause needs, in one bundle -/
structure ExitInv (s : L) : Prop where
  ri : RecInv s
  nn : NN s
  pend : PendInv s
  escrow : EscrowCovers s
  unreg : NativeUnreg s

/-- a native-restaking balance adjustment keeps every pending-undelegation figure equal to the sum of the
original amounts of the live records naming it (it moves neither) -/
theorem C03_pending_figures_nst {s s' : L} {st : SID} {a : AID} {x : Int} (hp : PendInv s)
    (h : nstUpdate s st a x = .ok s') : PendInv s' := pendInv_nstUpdate hp h

theorem C03_exit_invariants_step (s : L) (op : LOp') (h : ExitInv s) (hok : OpOk0' s op) :
    ExitInv (lstep' s op) := by
  obtain ⟨c1, u1⟩ := C01_escrow_step_with_nst s op h.ri h.nn h.unreg h.escrow hok
  obtain ⟨_, _, nn1, i1⟩ := C01_nst_net_step s op "a" (by decide) h.ri h.nn hok
  refine ⟨i1, nn1, ?_, c1, u1⟩
  cases op with
  | base op => exact C03_pending_figures_step s op h.ri h.pend (opOk_of_nn h.nn hok)
  | nst st a x =>
    simp only [lstep']
    cases hh : nstUpdate s st a x with
    | error e => exact h.pend
    | ok s' => exact pendInv_nstUpdate h.pend hh

/-- the bundle holds after every finite history of the ten ledger operations and balance adjustments -/
theorem C03_exit_invariants_reachable (s : L) (ops : List LOp') (h : ExitInv s) (hok : AllOk0' s ops) :
    ExitInv (ops.foldl lstep' s) := by
  induction ops generalizing s with
  | nil => exact h
  | cons op rest ih => exact ih (lstep' s op) (C03_exit_invariants_step s op h hok.1) hok.2

/-- **C03, last sentence, over every finite history with balance adjustments**: the pending-undelegation figures
of staker rows, operator pools and delegation states equal the sums of the unreleased records naming them -/
theorem C03_pending_figures_reachable_with_nst (s : L) (ops : List LOp') (h : ExitInv s) (hok : AllOk0' s ops) :
    PendInv (ops.foldl lstep' s) := (C03_exit_invariants_reachable s ops h hok).pend

theorem Fresh.exitInv {s : L} (hf : Fresh s) (hu : NativeUnreg s) : ExitInv s := by
  refine ⟨hf.recInv, hf.nn, ?_, ?_, hu⟩
  · refine pendInv_of_no_records hf.recs ?_ ?_ ?_
    · rw [hf.stakers]; intro e he; cases he
    · rw [hf.pools]; intro e he; cases he
    · rw [hf.deleg]; intro e he; cases he
  · unfold EscrowCovers value
    rw [hf.stakers, hf.pools, hf.recs]
    simp only [sumP]
    have := hf.escrow
    omega

/-- **C03, release, from genesis**: on a ledger grown from a fresh one (native token not a registered staking
asset, as shipped) by any finite history of the ten ledger operations and balance adjustments, every live record
whose completion height is the current height and on which no hold remains is released by the next block end;
that block end credits every staker exactly what its records stop owing; and the record stores stay consistent. -/
theorem C03_released_at_first_free_block (s0 : L) (ops : List LOp') (hf : Fresh s0) (hu : NativeUnreg s0)
    (hok : AllOk0' s0 ops) (r : URec) (hl : Live (ops.foldl lstep' s0) r)
    (hdue : r.completeBlock = (ops.foldl lstep' s0).height) (h0 : getD (ops.foldl lstep' s0).holds r.key 0 = 0) :
    find? (lstep' (ops.foldl lstep' s0) (.base .blockEnd)).recs r.key = none ∧
    RecInv (lstep' (ops.foldl lstep' s0) (.base .blockEnd)) ∧
    (∀ st a, a ≠ nativeAID →
      claim (lstep' (ops.foldl lstep' s0) (.base .blockEnd)) st a = claim (ops.foldl lstep' s0) st a) := by
  have h := C03_exit_invariants_reachable s0 ops (hf.exitInv hu) hok
  obtain ⟨g1, g2⟩ := C03_due_unheld_always_released h.ri h.pend h.nn h.escrow r hl hdue h0
  exact ⟨g1, g2, fun st a ha => C03_release_credits_exactly h.ri st a ha⟩

/-! ## non-vacuity

From a fresh ledger: a deposit, a delegation, an undelegation of 20 (nonce 7), a slash of the operator while the
record is pending (25 %: the record owes 15 of its 20), a balance increase of 3, two block ends. The reached
state satisfies the bundle by the theorem; the record is live, due and un-held, so the theorem applies to it: the
third block end releases it and credits the staker 15. -/

private def x0 : L :=
  { height := 1, unbonding := 2, totals := [("A", 0)], operators := ["o"], clientChains := [],
    stakers := [], pools := [], deleg := [], slist := [], assoc := [], recs := [], sidx := [], pidx := [],
    holds := [], bal := [], escrow := 0, gDep := [], gWd := [], gSlashed := [] }

private def xops : List LOp' :=
  [.base (.deposit "s" "A" 100), .base (.delegate "s" "A" "o" 60), .base (.undelegate "s" "A" "o" 20 7 "h"),
   .base (.slash "o" 0 ⟨250000000000000000⟩), .nst "s" "A" 3, .base .blockEnd, .base .blockEnd]

private def xr : URec := ⟨"s", "A", "o", "h", 7, 1, 3, 20, 15⟩

private theorem x0_fresh : Fresh x0 := ⟨rfl, rfl, rfl, rfl, rfl, rfl, by decide, by decide, by decide, rfl, rfl, rfl⟩
private theorem x0_unreg : NativeUnreg x0 := by unfold NativeUnreg; decide
private theorem xq : UnitP ⟨250000000000000000⟩ := by unfold UnitP; decide
private theorem xops_ok : AllOk0' x0 xops :=
  ⟨trivial, trivial, freshNonce_of_all (by decide), xq, trivial, trivial, trivial, trivial⟩

example : ExitInv (xops.foldl lstep' x0) :=
  C03_exit_invariants_reachable x0 xops (x0_fresh.exitInv x0_unreg) xops_ok

private theorem xr_live : Live (xops.foldl lstep' x0) xr := by unfold Live; decide

example : (xops.foldl lstep' x0).height = 3 ∧ getD (xops.foldl lstep' x0).holds xr.key 0 = 0 := by decide
example : claim (xops.foldl lstep' x0) "s" "A" = 58 ∧ owed (xops.foldl lstep' x0) "s" "A" = 15 := by decide

example : find? (lstep' (xops.foldl lstep' x0) (.base .blockEnd)).recs xr.key = none :=
  (C03_released_at_first_free_block x0 xops x0_fresh x0_unreg xops_ok xr xr_live (by decide) (by decide)).1

example : find? (lstep' (xops.foldl lstep' x0) (.base .blockEnd)).stakers ("s", "A") = some ⟨103, 58, 0⟩ ∧
    owed (lstep' (xops.foldl lstep' x0) (.base .blockEnd)) "s" "A" = 0 := by decide

end ExoVerif.Ledger
