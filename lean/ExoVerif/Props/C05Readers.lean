import ExoVerif.Model.VotingPower
import ExoVerif.Proofs.VotingPower
import ExoVerif.Props.C05
/-
  C05, the recorded values THROUGH THE READERS (usd_value.go: GetOperatorOptedUSDValue, GetVotePowerForChainID;
  grpc_query.go: QueryOperatorUSDValue; precompiles/avs query.go): an operator that is opted in reads its
  recorded entry whatever its Jailed flag says; so after an epoch end the reader hands out the formula values
  for a jailed operator too, and the AVS's value is the sum of what the reader returns for the entries.
  Model: `readOpted` = `readOptedWith isOptedIn` (Model/VotingPower.lean); tie: Props/C05ReadersTie.lean.
-/
namespace ExoVerif.VP
open ExoVerif ExoVerif.KV

/-- An opted-in operator — jailed or not — reads exactly its recorded entry. -/
theorem C05_reader_returns_record (s : St) (avs op : String) (o : Opted) (jailed : Bool)
    (h : find? (getD s.entries avs []) op = some o) :
    readOpted s avs op (some { optedOut := false, jailed := jailed }) = .ok o := by
  simp [readOpted, readOptedWith, isOptedIn, h]

/-- The reader does not look at the Jailed flag at all. -/
theorem C05_reader_ignores_jail (s : St) (avs op : String) (out j1 j2 : Bool) :
    readOpted s avs op (some { optedOut := out, jailed := j1 }) =
    readOpted s avs op (some { optedOut := out, jailed := j2 }) := by
  simp [readOpted, readOptedWith, isOptedIn]

/-- Not opted in (no OptedInfo, or opted out): all zeros, whatever is stored. -/
theorem C05_reader_not_opted_in_zero (s : St) (avs op : String) (info : Option OptedInfo)
    (h : isOptedIn info = false) : readOpted s avs op info = .ok zeroOpted := by
  simp [readOpted, readOptedWith, h]

/-- The vote power x/dogfood is given for an opted-in operator is its recorded active value, truncated,
jailed or not. -/
theorem C05_reader_vote_power (s : St) (avs op : String) (o : Opted) (jailed : Bool)
    (h : find? (getD s.entries avs []) op = some o) :
    votePower s avs op (some { optedOut := false, jailed := jailed }) = .ok (Dec.truncateInt ⟨o.active⟩) := by
  simp [votePower, C05_reader_returns_record s avs op o jailed h]

/-- After a successful UpdateVotingPower of an AVS the reader returns, for EVERY operator with an entry and
whatever its Jailed flag, the formula values of the property. -/
theorem C05_reader_after_epoch_end_is_formula (s : St) (avs : String) (i : AvsIn)
    (cfgs : List (String × AssetCfg)) (m : Int)
    (hok : i.assetsOk = true) (hc : i.cfgs = some cfgs) (hm : i.minSelf = some m)
    (es' : List (String × Opted)) (v : Int)
    (hl : updateLoop cfgs m i.opAssets (getD s.entries avs []) = .ok (es', v))
    (op : String) (o : Opted) (jailed : Bool)
    (hf : find? (getD (updateVotingPower s avs i).entries avs []) op = some o) :
    readOpted (updateVotingPower s avs i) avs op (some { optedOut := false, jailed := jailed }) = .ok o ∧
    o.total = specTotal cfgs (getD i.opAssets op []) ∧
    o.self = specSelf cfgs (getD i.opAssets op []) ∧
    o.active = (if m ≤ o.self then o.total else 0) := by
  obtain ⟨e1, _, e3⟩ := C05_self_value_formula s avs i cfgs m hok hc hm es' v hl
  refine ⟨C05_reader_returns_record _ avs op o jailed hf, ?_⟩
  have hmem : (op, o) ∈ es' := by
    rw [e1] at hf
    exact find?_mem _ _ _ hf
  exact e3 (op, o) hmem

/-- sum of the active values the reader returns for the entries of an AVS, every operator opted in, with an
arbitrary Jailed flag per operator -/
def readerSum (s : St) (avs : String) (jailed : String → Bool) : List (String × Opted) → Int
  | [] => 0
  | (op, _) :: rest =>
    (match readOpted s avs op (some { optedOut := false, jailed := jailed op }) with
     | .ok o => o.active
     | .error _ => 0) + readerSum s avs jailed rest

theorem readerSum_eq_sumActive (s : St) (avs : String) (jailed : String → Bool) :
    ∀ es : List (String × Opted), (∀ p ∈ es, find? (getD s.entries avs []) p.1 = some p.2) →
      readerSum s avs jailed es = sumActive es
  | [], _ => rfl
  | (op, o) :: rest, h => by
    have h1 := h (op, o) (by simp)
    have ih := readerSum_eq_sumActive s avs jailed rest (fun p hp => h p (by simp [hp]))
    simp [readerSum, sumActive, C05_reader_returns_record s avs op o (jailed op) h1, ih]

/-- "The AVS's value is the sum of the active values" THROUGH THE READER: after a successful update the AVS
value equals the sum of the active values the reader returns over the AVS's entries (no duplicate keys),
whichever of the operators are jailed. -/
theorem C05_reader_sum_is_avs_value (s : St) (avs : String) (i : AvsIn)
    (cfgs : List (String × AssetCfg)) (m : Int)
    (hok : i.assetsOk = true) (hc : i.cfgs = some cfgs) (hm : i.minSelf = some m)
    (es' : List (String × Opted)) (v : Int)
    (hl : updateLoop cfgs m i.opAssets (getD s.entries avs []) = .ok (es', v))
    (hnd : NoDup (getD s.entries avs [])) (jailed : String → Bool) :
    getD (updateVotingPower s avs i).avsVal avs 0 =
      readerSum (updateVotingPower s avs i) avs jailed (getD (updateVotingPower s avs i).entries avs []) := by
  obtain ⟨e1, e2, _⟩ := C05_self_value_formula s avs i cfgs m hok hc hm es' v hl
  rw [C05_avs_value_is_sum_active s avs i cfgs m hok hc hm es' v hl]
  symm
  apply readerSum_eq_sumActive
  intro p hp
  have hnd' : NoDup (getD (updateVotingPower s avs i).entries avs []) := by
    unfold NoDup keys at *
    rw [e1, e2]; exact hnd
  exact find?_of_mem _ p.1 p.2 hnd' hp

/-- What a reader gated by IsActive (instead of IsOptedIn) does: a jailed, opted-in operator with a recorded
value reads zero, and the AVS value is no longer the sum of what the reader returns. -/
def C05_active_gate_reads_record : Prop :=
  ∀ (s : St) (avs op : String) (o : Opted) (jailed : Bool),
    find? (getD s.entries avs []) op = some o →
    readOptedWith isActive s avs op (some { optedOut := false, jailed := jailed }) = .ok o

theorem C05_active_gate_hides_jailed : ¬ C05_active_gate_reads_record := by
  intro h
  have := h { entries := [("a", [("o", { self := 5, total := 5, active := 5 })])], avsVal := [("a", 5)] }
    "a" "o" { self := 5, total := 5, active := 5 } true (by decide)
  revert this; decide

/-- non-vacuity: a jailed operator with a recorded entry reads it -/
example : readOpted { entries := [("a", [("o", { self := 5, total := 7, active := 7 })])], avsVal := [("a", 7)] }
    "a" "o" (some { optedOut := false, jailed := true }) = .ok { self := 5, total := 7, active := 7 } := by decide

example : votePower { entries := [("a", [("o", { self := 5, total := 7, active := 3 * 10 ^ 18 + 1 })])], avsVal := [] }
    "a" "o" (some { optedOut := false, jailed := true }) = .ok 3 := by decide

end ExoVerif.VP
