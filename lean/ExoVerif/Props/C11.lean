import ExoVerif.Model.Blocks
/-!
# C11 — liveness (partial)

`C11_full` — no reachable state makes block processing halt — is false for the code as it is: five
concrete halts are exhibited in the model and replayed on the real application by the harness
(`harness/dom_liveness.go`, sigs `halt:…`). `C11_block_never_halts_partial` proves that outside
those five state shapes the modelled Begin/EndBlock pieces never halt, and
`C11_deliver_panic_is_rejection` that a panic during DeliverTx is a rejected tx with the state
untouched. Panics inside Cosmos-SDK, IAVL, CometBFT, go-ethereum/evmos are not modelled; the
repository's remaining panic-capable sites on block paths are listed and classified in
`Props/C11Tie.lean` (reviewed by reading, exercised by the fuzz), not each proved.
-/
namespace ExoVerif.Blocks
set_option exponentiation.threshold 400

def C11_full : Prop := ∀ s : St, block s ≠ .halt

def okState : St := { slashedOperatorValue := none, endingProposals := 0, avsGroups := [], maxAmountTimesPrice := 0, maxUsdValueInt := 0 }

/-- F-04b: slash of an operator whose StakingAndWaitUnbonding is zero -/
theorem C11_witness_slash_zero_value : block { okState with slashedOperatorValue := some 0 } = .halt := by decide
/-- F-11a: a governance proposal reaches the end of its voting period -/
theorem C11_witness_gov_tally : block { okState with endingProposals := 1 } = .halt := by decide
/-- F-11b: a task-result group without any non-empty signature -/
theorem C11_witness_avs_unsigned_group :
    block { okState with avsGroups := [[{ taskId := 1, hasSignature := false }]] } = .halt := by decide
/-- F-11f: an operator's USD value above 2^63-1 at a dogfood epoch end -/
theorem C11_witness_power_out_of_int64 : block { okState with maxUsdValueInt := 2 ^ 63 } = .halt := by decide
/-- F-11g: amount·price·10^18 beyond 315 bits (e.g. 2^200 base units at price 1 … 2^256 at any price) -/
theorem C11_witness_dec_overflow : block { okState with maxAmountTimesPrice := 2 ^ 256 } = .halt := by
  simp only [block, seqO, usdValueUpdate, decOverflows, decOne, decMaxBits, okState]
  decide

theorem C11_full_fails : ¬ C11_full := fun h => h _ C11_witness_gov_tally

theorem avsEpochEnd_ok (groups : List (List TaskRes)) (h : ∀ g ∈ groups, g.any (·.hasSignature) = true) :
    avsEpochEnd groups = .ok := by
  unfold avsEpochEnd
  have : groups.all (fun g => avsGroup g == .ok) = true := by
    rw [List.all_eq_true]
    intro g hg
    simp [avsGroup, h g hg]
  simp [this]

/-- Outside the five recorded state shapes, no modelled piece of Begin/EndBlock halts. -/
theorem C11_block_never_halts_partial (s : St) (inv : Inv s) : block s ≠ .halt := by
  have h1 : usdValueUpdate s.maxAmountTimesPrice = .ok := by simp [usdValueUpdate, inv.usdFits]
  have h2 : avsEpochEnd s.avsGroups = .ok := avsEpochEnd_ok _ inv.groupsSigned
  have h4 : dogfoodEndBlock s.maxUsdValueInt = .ok := by
    have := inv.powerFits
    simp only [dogfoodEndBlock]; split <;> first | omega | rfl
  have h5 : govEndBlock s.endingProposals = .ok := by simp [govEndBlock, inv.noTally]
  have h3 : slashStep s.slashedOperatorValue = .ok := by
    cases hv : s.slashedOperatorValue with
    | none => rfl
    | some v => simp [slashStep, slashAssets, inv.slashHasValue v hv]
  simp [block, h1, h2, h3, h4, h5, seqO]

/-- the hypothesis is satisfiable by a non-trivial state: a slash of an operator with value, a
signed task group, a large but representable power -/
example : Inv { slashedOperatorValue := some 100, endingProposals := 0,
                avsGroups := [[{ taskId := 1, hasSignature := true }, { taskId := 1, hasSignature := false }]],
                maxAmountTimesPrice := 10 ^ 30, maxUsdValueInt := 10 ^ 12 } where
  slashHasValue := by intro v h; cases h; decide
  noTally := rfl
  groupsSigned := by decide
  powerFits := by decide
  usdFits := by decide

/-- Each excluded shape is necessary: dropping any one clause of `Inv` admits a halting state
(the witnesses above satisfy the other four clauses). -/
theorem C11_inv_clauses_necessary :
    block { okState with slashedOperatorValue := some 0 } = .halt ∧ block { okState with endingProposals := 1 } = .halt :=
  ⟨C11_witness_slash_zero_value, C11_witness_gov_tally⟩

/-- A panic (or error) while delivering a transaction is a rejection: the outcome is `rejected`
and the state is exactly the state before the tx; an accepted tx is the only way to change state. -/
theorem C11_deliver_panic_is_rejection {σ : Type} (m : σ → MsgRes σ) (s : σ) :
    (m s = .panic → deliverTx m s = (.rejected, s)) ∧
    (∀ s', m s = .err s' → deliverTx m s = (.rejected, s)) ∧
    ((deliverTx m s).1 = .rejected → (deliverTx m s).2 = s) := by
  refine ⟨fun h => by simp [deliverTx, h], fun s' h => by simp [deliverTx, h], ?_⟩
  unfold deliverTx
  cases m s <;> simp

end ExoVerif.Blocks
