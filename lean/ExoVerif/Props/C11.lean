import ExoVerif.Model.Blocks
/-!
# C11 — liveness (partial)

`C11_full` — no reachable state makes block processing halt — is false for the code as it is: two
concrete halts are exhibited in the model and replayed on the real application by the harness
(`harness/dom_liveness.go`, sigs `halt:…`). `C11_block_never_halts_partial` proves that outside
those two state shapes the modelled Begin/EndBlock pieces never halt, and
`C11_deliver_panic_is_rejection` that a panic during DeliverTx is a rejected tx with the state
untouched. Panics inside Cosmos-SDK, IAVL, CometBFT, go-ethereum/evmos are not modelled; the
repository's remaining panic-capable sites on block paths are listed and classified in
`Props/C11Tie.lean` (reviewed by reading, exercised by the fuzz), not each proved.
-/
namespace ExoVerif.Blocks
set_option exponentiation.threshold 400

def C11_full : Prop := ∀ s : St, block s ≠ .halt

def okState : St := { slashedOperatorValue := none, endingProposals := [], lastTotalPower := 0, avsGroups := [], maxAmountTimesPrice := 0, maxUsdValueInt := 0 }

/-- F-04b (repaired in the repository): SlashAssets never divides by zero; for an operator without
positive value it returns an error, which the caller logs. -/
theorem C11_guard_slashAssets (slashUSDValue v : Int) : slashProportion slashUSDValue v ≠ none := by
  unfold slashProportion decQuo?
  by_cases h : 0 < v
  · have : v ≠ 0 := by omega
    simp [h, this]
  · simp [h]

theorem C11_slash_never_halts (v : Int) : slashAssets v ≠ .halt := by
  unfold slashAssets
  have := C11_guard_slashAssets 1 v
  cases h : slashProportion 1 v with
  | none => exact absurd h this
  | some r => cases r <;> simp

/-! ### guard lemmas for the divisions on block paths (referenced by name from the review table of
`Props/C11Tie.lean`) -/

/-- a Quo executed under `if !d.IsZero()` (x/avs AfterEpochEnd threshold, UpdateNSTBalance proportion) -/
theorem C11_guard_quo_after_not_zero (a d : Int) (h : d ≠ 0) : decQuo? a d ≠ none := by
  simp [decQuo?, h]

/-- a Quo executed under `if d.IsPositive()` (AllocateTokensToStakers) -/
theorem C11_guard_quo_after_is_positive (a d : Int) (h : 0 < d) : decQuo? a d ≠ none :=
  C11_guard_quo_after_not_zero a d (by omega)

/-- CalculateUSDValue's divisor 10^(assetDecimal+priceDecimal) is never zero -/
theorem C11_guard_usdValue_divisor (ad pd : Int) : usdDivisor ad pd ≠ 0 := by
  unfold usdDivisor
  have : (10 : Int) ^ (Int.toNat (ad + pd)) ≠ 0 := Int.pow_ne_zero (by decide)
  omega

/-- TokensFromShares never reaches its Quo with a zero total share -/
theorem C11_guard_tokensFromShares (s t a : Int) : tokensFromSharesQuo? s t a ≠ none := by
  unfold tokensFromSharesQuo?
  by_cases h1 : t < s
  · simp [h1]
  · by_cases h2 : t = 0
    · subst h2
      by_cases h3 : a = 0 <;> simp [h1, h3]
    · simp [h1, h2, decQuo?]

/-- AllocateTokens returns before dividing when the previous total power is zero -/
theorem C11_guard_allocateTokens (v t : Int) : allocateFraction? v t ≠ none := by
  unfold allocateFraction?
  by_cases h : t = 0
  · simp [h]
  · have : t * decOne ≠ 0 := by
      have hd : decOne ≠ 0 := by decide
      exact Int.mul_ne_zero h hd
    simp [h, decQuo?, this]

theorem C11_guard_median_divisor : medianDivisor ≠ 0 := by decide

/-- the regression state of the directed scenario: value zero ⇒ logged, not halted -/
theorem C11_slash_zero_value_is_logged : slashAssets 0 = .logged := by decide

/-! ### F-11a (repaired by fix-F-11a): the gov tally over x/dogfood never halts -/

theorem govShares_ne_zero (v : GovVal) (h : 1 ≤ v.power) : govShares v ≠ 0 := by
  unfold govShares govTokens powerReduction decOne
  have h1 : (0 : Int) < v.power * 10 ^ 18 := Int.mul_pos (by omega) (by decide)
  have h2 : (0 : Int) < v.power * 10 ^ 18 * 10 ^ 18 := Int.mul_pos h1 (by decide)
  omega

/-- with DelegatorShares set consistently with Tokens, no voting validator makes the tally's Quo panic -/
theorem C11_gov_tally_never_halts (vals : List GovVal) (h : ∀ v ∈ vals, 1 ≤ v.power) :
    govTally govShares vals ≠ none := by
  induction vals with
  | nil => simp [govTally]
  | cons v rest ih =>
    have hr := ih (fun w hw => h w (by simp [hw]))
    have hv := govShares_ne_zero v (h v (by simp))
    unfold govTally
    cases hvoted : v.voted
    · simpa using hr
    · cases ht : govTally govShares rest with
      | none => exact absurd ht hr
      | some t => simp [tallyVal, decQuo?, hv]

/-- the quorum division is guarded by the IsZero test on TotalBondedTokens -/
theorem C11_gov_quorum_never_halts (t totalPower : Int) : govQuorum? t totalPower ≠ none := by
  unfold govQuorum?
  by_cases h : totalBondedTokens totalPower = 0
  · simp [h]
  · have : totalBondedTokens totalPower * decOne ≠ 0 := Int.mul_ne_zero h (by decide)
    simp [h, decQuo?, this]

theorem C11_gov_end_block_never_halts (totalPower : Int) (ending : List (List GovVal))
    (h : ∀ vals ∈ ending, ∀ v ∈ vals, 1 ≤ v.power) : govEndBlock totalPower ending = .ok := by
  unfold govEndBlock
  have : ending.any (fun vals => govProposalEnd totalPower vals == .halt) = false := by
    rw [List.any_eq_false]
    intro vals hv
    have ht := C11_gov_tally_never_halts vals (h vals hv)
    unfold govProposalEnd
    cases hh : govTally govShares vals with
    | none => exact absurd hh ht
    | some t =>
      have hq := C11_gov_quorum_never_halts t totalPower
      cases hq2 : govQuorum? t totalPower with
      | none => exact absurd hq2 hq
      | some _ => simp [hq2]
  simp [this]

/-- what a voting validator weighs: exactly its tokens (shares·tokens/shares with shares = tokens) -/
theorem C11_gov_vote_weight_is_tokens (v : GovVal) (h : 1 ≤ v.power) :
    tallyVal (govShares v) (govTokens v) = some (govTokens v * decOne) := by
  have hs := govShares_ne_zero v h
  unfold tallyVal decQuo?
  simp only [hs, if_false]
  congr 1
  rw [Int.mul_assoc, Int.mul_tdiv_cancel_left _ hs]

/-- regressions: the state of the directed scenarios halts the pre-repair EndBlocker, and, with only the
two stubs implemented, a voting validator whose operator-side shares are zero (opted out and undelegated
within the epoch) still does -/
theorem C11_regression_gov_unimplemented : govEndBlockPre [[{ power := 101, operatorShares := 101, voted := true }]] = .halt := by decide
theorem C11_regression_gov_zero_shares :
    govTally govSharesPre [{ power := 100, operatorShares := 0, voted := true }] = none := by decide
/-- F-11f: an operator's USD value above 2^63-1 at a dogfood epoch end -/
theorem C11_witness_power_out_of_int64 : block { okState with maxUsdValueInt := 2 ^ 63 } = .halt := by decide
/-- F-11g: amount·price·10^18 beyond 315 bits (e.g. 2^200 base units at price 1 … 2^256 at any price) -/
theorem C11_witness_dec_overflow : block { okState with maxAmountTimesPrice := 2 ^ 256 } = .halt := by
  simp only [block, seqO, usdValueUpdate, decOverflows, decOne, decMaxBits, okState]
  decide

theorem C11_full_fails : ¬ C11_full := fun h => h _ C11_witness_power_out_of_int64

/-- F-11b (repaired in the repository): no task-result group halts the AVS epoch hook -/
theorem C11_avs_group_never_halts (g : TaskGroup) : avsGroup g ≠ .halt := by
  unfold avsGroup
  cases g.results.any (·.hasSignature) <;> cases g.taskInfoFound <;> simp

theorem C11_avs_epoch_end_never_halts (groups : List TaskGroup) : avsEpochEnd groups = .ok := by
  unfold avsEpochEnd
  have : groups.any (fun g => avsGroup g == .halt) = false := by
    rw [List.any_eq_false]
    intro g _
    simpa using C11_avs_group_never_halts g
  simp [this]

/-- the regression state of the directed scenario: an unsigned group is logged and skipped -/
theorem C11_avs_unsigned_group_is_logged :
    avsGroup { results := [{ taskId := 1, hasSignature := false }], taskInfoFound := false } = .logged := by decide

/-- and it can no longer be stored in the first place: an accepted phase-one result carries a
non-empty signature, which survives the protobuf round trip -/
theorem C11_guard_phase_one_signature (taskId sigLen : Nat) (h : phaseOneAccepts sigLen = true) :
    (storedPhaseOne taskId sigLen).hasSignature = true := by
  simpa [phaseOneAccepts, storedPhaseOne] using h

/-- Outside the two recorded state shapes, no modelled piece of Begin/EndBlock halts. -/
theorem C11_block_never_halts_partial (s : St) (inv : Inv s) : block s ≠ .halt := by
  have h1 : usdValueUpdate s.maxAmountTimesPrice = .ok := by simp [usdValueUpdate, inv.usdFits]
  have h2 : avsEpochEnd s.avsGroups = .ok := C11_avs_epoch_end_never_halts _
  have h4 : dogfoodEndBlock s.maxUsdValueInt = .ok := by
    have := inv.powerFits
    simp only [dogfoodEndBlock]; split <;> first | omega | rfl
  have h5 : govEndBlock s.lastTotalPower s.endingProposals = .ok := C11_gov_end_block_never_halts _ _ inv.valPowers
  have h3 : slashStep s.slashedOperatorValue ≠ .halt := by
    cases hv : s.slashedOperatorValue with
    | none => simp [slashStep]
    | some v => simpa [slashStep] using C11_slash_never_halts v
  simp only [block, h1, h2, h4, h5, seqO]
  cases hs : slashStep s.slashedOperatorValue with
  | halt => exact absurd hs h3
  | ok => simp
  | logged => simp

/-- the hypothesis is satisfiable by a non-trivial state: a slash of a valueless operator, a
proposal ending with two voting validators (one with zero operator-side shares), a signed and an unsigned task group, a large but representable power -/
example : Inv { slashedOperatorValue := some 0,
                endingProposals := [[{ power := 101, operatorShares := 101, voted := true }, { power := 100, operatorShares := 0, voted := true }]],
                lastTotalPower := 201,
                avsGroups := [{ results := [{ taskId := 1, hasSignature := true }, { taskId := 1, hasSignature := false }], taskInfoFound := true },
                              { results := [{ taskId := 2, hasSignature := false }], taskInfoFound := false }],
                maxAmountTimesPrice := 10 ^ 30, maxUsdValueInt := 10 ^ 12 } where
  valPowers := by decide
  powerFits := by decide
  usdFits := by decide

/-- Each excluded shape is necessary: dropping any one clause of `Inv` admits a halting state
(the witnesses above satisfy the other clauses). -/
theorem C11_inv_clauses_necessary :
    block { okState with maxUsdValueInt := 2 ^ 63 } = .halt ∧
    block { okState with maxAmountTimesPrice := 2 ^ 256 } = .halt :=
  ⟨C11_witness_power_out_of_int64, C11_witness_dec_overflow⟩

/-- A panic (or error) while delivering a transaction is a rejection: the outcome is `rejected`
and the state is exactly the state before the tx; an accepted tx is the only way to change state. -/
theorem C11_deliver_panic_is_rejection {σ : Type} (m : σ → MsgRes σ) (s : σ) :
    (m s = .panic → deliverTx m s = (.rejected, s)) ∧
    (∀ s', m s = .err s' → deliverTx m s = (.rejected, s)) ∧
    ((deliverTx m s).1 = .rejected → (deliverTx m s).2 = s) := by
  refine ⟨fun h => by simp [deliverTx, h], fun s' h => by simp [deliverTx, h], ?_⟩
  unfold deliverTx
  cases m s <;> simp

end ExoVerif.Blocks
