import ExoVerif.Props.C13Decimals
import ExoVerif.Generated.Facts
/-! C13 tie: which token's decimals a submission is compared with — `Params.CheckDecimal` regenerated from
x/oracle/types/params.go as a function over the params' two id tables, and the other places where the
decimals of a feeder's token are read, as source text. -/
namespace ExoVerif.Oracle

/-- types/params.go: CheckDecimal, regenerated, IS the model's comparison with `Params.tokenDecimal` — on every
parameter set, in particular those where feeder ids and token ids have drifted apart — for a configured
feeder id (Go indexes the slice; checkMsg is reached for feeders with an open round only). A look-up that
goes through a helper taking another kind of id (seed C13-g: `GetTokenInfo(feeder.TokenID)`) does not
regenerate; one that indexes the feeder table a second time regenerates and fails this equality
(`C13_decimal_lookup_through_feeder_table_differs` is the separating parameter set). -/
theorem C13_tie_check_decimal (p : Params) (fid : Nat) (d : Int) (h : fid < p.feeders.length) :
    ExoVerif.Gen.oracleCheckDecimal (p.feeders.map (·.tokenID)) p.tokenDecimals fid d =
      !(decide (d ≠ p.tokenDecimal fid)) := by
  unfold ExoVerif.Gen.oracleCheckDecimal Params.tokenDecimal Params.feeder?
  rw [List.getElem?_eq_getElem h]
  simp only [List.getD_eq_getElem?_getD, List.getElem?_map, List.getElem?_eq_getElem h, Option.map_some,
    Option.getD_some, ne_eq, decide_not, Bool.not_not]
  exact decide_eq_decide.mpr eq_comm

/-- … so the refusal of `Agc.checkMsg` is the regenerated check failing on some price of some source -/
theorem C13_tie_check_decimal_every_price (p : Params) (m : Msg) (h : m.feederID < p.feeders.length) :
    (m.prices.any (fun s => s.prices.any (fun d => d.decimal ≠ p.tokenDecimal m.feederID))) =
      m.prices.any (fun s => s.prices.any (fun d =>
        !(ExoVerif.Gen.oracleCheckDecimal (p.feeders.map (·.tokenID)) p.tokenDecimals m.feederID d.decimal))) := by
  congr 1
  funext s
  congr 1
  funext d
  rw [C13_tie_check_decimal p m.feederID d.decimal h, Bool.not_not]

/-- the regenerated look-up on the drifted parameter set: feeder 3 is judged by the 6 decimals of token 2 -/
example : ExoVerif.Gen.oracleCheckDecimal (dParams.feeders.map (·.tokenID)) dParams.tokenDecimals 3 6 = true ∧
    ExoVerif.Gen.oracleCheckDecimal (dParams.feeders.map (·.tokenID)) dParams.tokenDecimals 3 18 = false := by decide

/-- context.go / worker.go / params.go: checkMsg applies CheckDecimal to every price of every source with the
message's feeder id; GetTokenInfo(feederID) is `Tokens[TokenFeeders[feederID].TokenID]`; newWorker and
FillPrice read decimals and token id through the FEEDER id of the message. -/
theorem C13_tie_decimal_lookup_shape : ExoVerif.Gen.oracleDecimalLookupShape =
    ["AggregatorContext.checkMsg: for _, pSource := range msg.Prices { for _, pTimeDetID := range pSource.Prices { if ok := agc.params.CheckDecimal(msg.FeederID, pTimeDetID.Decimal); !ok { return fmt.Errorf(",
     "Params.GetTokenInfo: { for k, v := range p.TokenFeeders { if uint64(k) == feederID { return p.Tokens[v.TokenID] } } return nil }",
     "Params.GetTokenFeeder: { for k, v := range p.TokenFeeders { if uint64(k) == feederID { return v } } return nil }",
     "newWorker: decimal: agc.params.GetTokenInfo(feederID).Decimal,",
     "AggregatorContext.FillPrice: agc.params.GetTokenFeeder(msg.FeederID).TokenID",
     "AggregatorContext.FillPrice: Decimal: agc.params.GetTokenInfo(msg.FeederID).Decimal,"] := rfl

end ExoVerif.Oracle
