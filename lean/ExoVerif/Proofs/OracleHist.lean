import ExoVerif.Proofs.OracleRestart
/-!
Helper development for the history-level theorems of C12 / C13 (`Props/C12Hist.lean`,
`Props/C13Hist.lean`): invariants of the State-level run `runBlocks` (Proofs/OracleRestart.lean)
over arbitrary block lists. Core Lean only.

Part 1: token stores — what a sequence of `AppendPriceTR` / `GrowRoundID` calls can do.
Part 2: every step of the run acts on each token's store by such a sequence.
Part 3: one feeder's round entry and the stored NextRoundID of its token along the run.
Part 4: nonce entries (remaining quota) along the run.
-/
namespace ExoVerif.Oracle

/-! ## Part 0: association lists, keys -/

def akeys {κ α} (l : List (κ × α)) : List κ := l.map (·.1)

theorem alookup_none_iff {κ α} [DecidableEq κ] (k : κ) (l : List (κ × α)) :
    alookup k l = none ↔ k ∉ akeys l := by
  induction l with
  | nil => simp [alookup, akeys]
  | cons h t ih =>
    obtain ⟨k', v'⟩ := h
    by_cases hk : k' = k
    · subst hk; simp [alookup, akeys]
    · have hk' : ¬ k = k' := fun e => hk e.symm
      simp only [alookup, hk, if_false, akeys, List.map_cons, List.mem_cons, hk', false_or]
      exact ih

theorem alookup_mem {κ α} [DecidableEq κ] (k : κ) (v : α) (l : List (κ × α)) (h : alookup k l = some v) : (k, v) ∈ l := by
  induction l with
  | nil => simp [alookup] at h
  | cons hd t ih =>
    obtain ⟨k', v'⟩ := hd
    by_cases hk : k' = k
    · simp only [alookup, hk, if_true, Option.some.injEq] at h
      rw [hk, h]; simp
    · simp only [alookup, hk, if_false] at h
      exact List.mem_cons_of_mem _ (ih h)

theorem alookup_some_of_mem {κ α} [DecidableEq κ] (k : κ) (l : List (κ × α)) (h : k ∈ akeys l) :
    ∃ v, alookup k l = some v := by
  cases hl : alookup k l with
  | none => exact absurd h ((alookup_none_iff k l).mp hl)
  | some v => exact ⟨v, rfl⟩

theorem mem_akeys_aset {κ α} [DecidableEq κ] (k x : κ) (v : α) (l : List (κ × α)) :
    x ∈ akeys (aset k v l) ↔ x = k ∨ x ∈ akeys l := by
  induction l with
  | nil => simp [aset, akeys]
  | cons h t ih =>
    obtain ⟨k', v'⟩ := h
    by_cases hk : k' = k
    · subst hk
      simp only [aset, if_true, akeys, List.map_cons, List.mem_cons]
      constructor
      · intro h; rcases h with h | h
        · exact Or.inl h
        · exact Or.inr (Or.inr h)
      · intro h; rcases h with h | h | h
        · exact Or.inl h
        · exact Or.inl h
        · exact Or.inr h
    · simp only [aset, hk, if_false, akeys, List.map_cons, List.mem_cons] at ih ⊢
      rw [ih]
      constructor
      · intro h; rcases h with h | h | h
        · exact Or.inr (Or.inl h)
        · exact Or.inl h
        · exact Or.inr (Or.inr h)
      · intro h; rcases h with h | h | h
        · exact Or.inr (Or.inl h)
        · exact Or.inl h
        · exact Or.inr (Or.inr h)

theorem akeys_aset_nodup {κ α} [DecidableEq κ] (k : κ) (v : α) (l : List (κ × α))
    (h : (akeys l).Nodup) : (akeys (aset k v l)).Nodup := by
  induction l with
  | nil => simp [aset, akeys]
  | cons hd t ih =>
    obtain ⟨k', v'⟩ := hd
    have h' : k' ∉ akeys t ∧ (akeys t).Nodup := by
      simpa [akeys, List.nodup_cons] using h
    by_cases hk : k' = k
    · subst hk
      simp only [aset, if_true]
      simpa [akeys, List.nodup_cons] using h
    · simp only [aset, hk, if_false]
      have : akeys ((k', v') :: aset k v t) = k' :: akeys (aset k v t) := rfl
      rw [this, List.nodup_cons]
      refine ⟨?_, ih h'.2⟩
      intro hm
      rcases (mem_akeys_aset k k' v t).mp hm with e | e
      · exact hk e
      · exact h'.1 e

theorem mem_akeys_adel {κ α} [DecidableEq κ] (k x : κ) (l : List (κ × α)) (h : x ∈ akeys (adel k l)) :
    x ∈ akeys l := by
  induction l with
  | nil => simpa [adel] using h
  | cons hd t ih =>
    obtain ⟨k', v'⟩ := hd
    by_cases hk : k' = k
    · simp only [adel, hk, if_true] at h
      simp only [akeys, List.map_cons, List.mem_cons]
      exact Or.inr h
    · simp only [adel, hk, if_false, akeys, List.map_cons, List.mem_cons] at h ⊢
      rcases h with h | h
      · exact Or.inl h
      · exact Or.inr (ih h)

theorem akeys_adel_nodup {κ α} [DecidableEq κ] (k : κ) (l : List (κ × α))
    (h : (akeys l).Nodup) : (akeys (adel k l)).Nodup := by
  induction l with
  | nil => simp [adel, akeys]
  | cons hd t ih =>
    obtain ⟨k', v'⟩ := hd
    have h' : k' ∉ akeys t ∧ (akeys t).Nodup := by
      simpa [akeys, List.nodup_cons] using h
    by_cases hk : k' = k
    · simp only [adel, hk, if_true]; exact h'.2
    · simp only [adel, hk, if_false]
      have : akeys ((k', v') :: adel k t) = k' :: akeys (adel k t) := rfl
      rw [this, List.nodup_cons]
      exact ⟨fun hm => h'.1 (mem_akeys_adel k k' t hm), ih h'.2⟩

theorem alookup_adel_same {κ α} [DecidableEq κ] (k : κ) (l : List (κ × α))
    (h : (akeys l).Nodup) : alookup k (adel k l) = none := by
  induction l with
  | nil => simp [adel, alookup]
  | cons hd t ih =>
    obtain ⟨k', v'⟩ := hd
    have h' : k' ∉ akeys t ∧ (akeys t).Nodup := by
      simpa [akeys, List.nodup_cons] using h
    by_cases hk : k' = k
    · subst hk
      simp only [adel, if_true]
      exact (alookup_none_iff _ _).mpr h'.1
    · simp only [adel, hk, if_false, alookup]
      exact ih h'.2

theorem alookup_aset {κ α} [DecidableEq κ] (k k2 : κ) (v : α) (l : List (κ × α)) :
    alookup k2 (aset k v l) = if k2 = k then some v else alookup k2 l := by
  by_cases h : k2 = k
  · subst h; simp [alookup_aset_same]
  · simp [h, alookup_aset_other _ _ _ _ h]

/-! ### a duplicate-free list of naturals inside a window of width `m` has at most `m` elements -/

theorem len_le_filter_ne (a : Nat) (l : List Nat) (h : l.Nodup) :
    l.length ≤ (l.filter (fun x => decide (x ≠ a))).length + 1 := by
  induction l with
  | nil => simp
  | cons x t ih =>
    have h' := List.nodup_cons.mp h
    by_cases hx : x = a
    · subst hx
      have e : (x :: t).filter (fun y => decide (y ≠ x)) = t := by
        simp only [List.filter_cons, ne_eq, not_true_eq_false, decide_false, Bool.false_eq_true, if_false]
        apply List.filter_eq_self.mpr
        intro y hy
        have : y ≠ x := fun e => h'.1 (e ▸ hy)
        simp [this]
      rw [e]; simp
    · have e : (x :: t).filter (fun y => decide (y ≠ a)) = x :: t.filter (fun y => decide (y ≠ a)) := by
        simp [hx]
      rw [e]
      have := ih h'.2
      simp only [List.length_cons]; omega

theorem nodup_window_length (m : Nat) : ∀ (l : List Nat) (a : Nat), l.Nodup →
    (∀ x ∈ l, x < a ∧ a ≤ x + m) → l.length ≤ m := by
  induction m with
  | zero =>
    intro l a _ hw
    cases l with
    | nil => simp
    | cons x t => have := hw x (by simp); omega
  | succ m ih =>
    intro l a hn hw
    by_cases hy : m + 1 ≤ a
    · have h1 := len_le_filter_ne (a - (m + 1)) l hn
      have h2 : (l.filter (fun x => decide (x ≠ a - (m + 1)))).length ≤ m := by
        apply ih _ a (hn.sublist List.filter_sublist)
        intro x hx
        have hx' := List.mem_filter.mp hx
        have hne : x ≠ a - (m + 1) := by simpa using hx'.2
        have := hw x hx'.1
        omega
      omega
    · have : l.length ≤ m := by
        apply ih l a hn
        intro x hx
        have := hw x hx
        omega
      omega

/-! ## Part 1: token stores -/

theorem nextRoundID_pos (t : TokenStore) : 1 ≤ t.nextRoundID := by
  unfold TokenStore.nextRoundID
  by_cases h : t.next = 0
  · simp [h]
  · simp only [h, if_false]; omega

/-- a well-formed price history: no key twice, every record under its own round id, every key
between 1 and the next round id (true of what genesis loads through `SetPrices`; preserved by every
write path: `append_wf`). -/
structure TokWf (t : TokenStore) : Prop where
  nodup : (akeys t.rounds).Nodup
  own : ∀ k q, alookup k t.rounds = some q → q.roundID = k
  below : ∀ k q, alookup k t.rounds = some q → 1 ≤ k ∧ k < t.nextRoundID

theorem append_ok_eq (t : TokenStore) (m : Nat) (p : PriceTR) (h : t.nextRoundID = p.roundID) :
    t.append m p =
      ({ next := t.nextRoundID + 1,
         rounds := if wrapSub64 t.nextRoundID m > 0 then adel (wrapSub64 t.nextRoundID m) (aset t.nextRoundID p t.rounds)
                   else aset t.nextRoundID p t.rounds }, true) := by
  unfold TokenStore.append
  simp [h]

theorem append_ok_iff (t : TokenStore) (m : Nat) (p : PriceTR) :
    (t.append m p).2 = true ↔ t.nextRoundID = p.roundID := by
  unfold TokenStore.append
  by_cases h : t.nextRoundID = p.roundID
  · simp [h]
  · simp [h]

theorem append_lookup (t : TokenStore) (m : Nat) (p : PriceTR) (hn : (akeys t.rounds).Nodup)
    (h : t.nextRoundID = p.roundID) (k : Nat) :
    alookup k (t.append m p).1.rounds =
      if 0 < wrapSub64 t.nextRoundID m ∧ k = wrapSub64 t.nextRoundID m then none
      else if k = t.nextRoundID then some p else alookup k t.rounds := by
  rw [append_ok_eq t m p h]
  simp only
  by_cases he : wrapSub64 t.nextRoundID m > 0
  · simp only [he, if_true, true_and]
    by_cases hk : k = wrapSub64 t.nextRoundID m
    · subst hk
      simp only [if_true]
      exact alookup_adel_same _ _ (akeys_aset_nodup _ _ _ hn)
    · simp only [hk, if_false]
      rw [alookup_adel_other _ _ _ hk, alookup_aset]
  · simp only [he, if_false, false_and]
    rw [alookup_aset]

theorem append_nextRoundID_ok (t : TokenStore) (m : Nat) (p : PriceTR) (h : t.nextRoundID = p.roundID) :
    (t.append m p).1.nextRoundID = t.nextRoundID + 1 := by
  have := append_next t m p
  rw [(append_ok_iff t m p).mpr h] at this
  simpa using this

theorem append_mono (t : TokenStore) (m : Nat) (p : PriceTR) :
    t.nextRoundID ≤ (t.append m p).1.nextRoundID := by
  have := append_next t m p
  omega

theorem append_wf (t : TokenStore) (m : Nat) (p : PriceTR) (hw : TokWf t) : TokWf (t.append m p).1 := by
  by_cases h : t.nextRoundID = p.roundID
  · have hnx := append_nextRoundID_ok t m p h
    refine ⟨?_, ?_, ?_⟩
    · rw [append_ok_eq t m p h]
      simp only
      by_cases he : wrapSub64 t.nextRoundID m > 0
      · simp only [he, if_true]
        exact akeys_adel_nodup _ _ (akeys_aset_nodup _ _ _ hw.nodup)
      · simp only [he, if_false]
        exact akeys_aset_nodup _ _ _ hw.nodup
    · intro k q hq
      rw [append_lookup t m p hw.nodup h k] at hq
      by_cases c1 : 0 < wrapSub64 t.nextRoundID m ∧ k = wrapSub64 t.nextRoundID m
      · simp [c1] at hq
      · simp only [c1, if_false] at hq
        by_cases c2 : k = t.nextRoundID
        · simp only [c2, if_true, Option.some.injEq] at hq
          rw [← hq, c2]; exact h.symm
        · simp only [c2, if_false] at hq
          exact hw.own k q hq
    · intro k q hq
      rw [hnx]
      rw [append_lookup t m p hw.nodup h k] at hq
      by_cases c1 : 0 < wrapSub64 t.nextRoundID m ∧ k = wrapSub64 t.nextRoundID m
      · simp [c1] at hq
      · simp only [c1, if_false] at hq
        by_cases c2 : k = t.nextRoundID
        · have := nextRoundID_pos t; omega
        · simp only [c2, if_false] at hq
          have := hw.below k q hq; omega
  · have : (t.append m p).2 = false := by
      cases hb : (t.append m p).2 with
      | false => rfl
      | true => exact absurd ((append_ok_iff t m p).mp hb) h
    rw [append_fail t m p this]; exact hw

/-- a round id that has been passed is never written again: its record stays or expires -/
theorem append_immut (t : TokenStore) (m : Nat) (p : PriceTR) (hw : TokWf t) (k : Nat) (hk : k < t.nextRoundID) :
    alookup k (t.append m p).1.rounds = alookup k t.rounds ∨ alookup k (t.append m p).1.rounds = none := by
  by_cases h : t.nextRoundID = p.roundID
  · rw [append_lookup t m p hw.nodup h k]
    by_cases c1 : 0 < wrapSub64 t.nextRoundID m ∧ k = wrapSub64 t.nextRoundID m
    · right; simp [c1]
    · left
      have c2 : ¬ k = t.nextRoundID := by omega
      simp [c1, c2]
  · have : (t.append m p).2 = false := by
      cases hb : (t.append m p).2 with
      | false => rfl
      | true => exact absurd ((append_ok_iff t m p).mp hb) h
    rw [append_fail t m p this]; exact Or.inl rfl

/-- … and an expired (or never written) id below the counter stays empty -/
theorem append_stays_none (t : TokenStore) (m : Nat) (p : PriceTR) (hw : TokWf t) (k : Nat) (hk : k < t.nextRoundID)
    (hnone : alookup k t.rounds = none) : alookup k (t.append m p).1.rounds = none := by
  rcases append_immut t m p hw k hk with h | h
  · rw [h]; exact hnone
  · exact h

/-- the reflexive-transitive closure of "one AppendPriceTR call with retention `m`" -/
inductive TokSteps (m : Nat) : TokenStore → TokenStore → Prop
  | refl (t : TokenStore) : TokSteps m t t
  | step (t : TokenStore) (p : PriceTR) (t' : TokenStore) : TokSteps m (t.append m p).1 t' → TokSteps m t t'

theorem TokSteps.trans {m : Nat} {a b c : TokenStore} (h1 : TokSteps m a b) (h2 : TokSteps m b c) : TokSteps m a c := by
  induction h1 with
  | refl t => exact h2
  | step t p t' _ ih => exact TokSteps.step t p _ (ih h2)

theorem TokSteps.one (m : Nat) (t : TokenStore) (p : PriceTR) : TokSteps m t (t.append m p).1 :=
  TokSteps.step t p _ (TokSteps.refl _)

/-- prices.go: GrowRoundID is one AppendPriceTR call -/
theorem TokSteps.grow (m : Nat) (t : TokenStore) : TokSteps m t (t.grow m) := by
  unfold TokenStore.grow
  cases t.latest with
  | some p => exact TokSteps.one m t _
  | none => exact TokSteps.one m t _

theorem TokSteps.mono {m : Nat} {a b : TokenStore} (h : TokSteps m a b) : a.nextRoundID ≤ b.nextRoundID := by
  induction h with
  | refl t => exact Nat.le_refl _
  | step t p t' _ ih => exact Nat.le_trans (append_mono t m p) ih

theorem TokSteps.wf {m : Nat} {a b : TokenStore} (h : TokSteps m a b) (hw : TokWf a) : TokWf b := by
  induction h with
  | refl t => exact hw
  | step t p t' _ ih => exact ih (append_wf t m p hw)

theorem TokSteps.immut {m : Nat} {a b : TokenStore} (h : TokSteps m a b) (hw : TokWf a) (k : Nat)
    (hk : k < a.nextRoundID) :
    alookup k b.rounds = alookup k a.rounds ∨ alookup k b.rounds = none := by
  induction h with
  | refl t => exact Or.inl rfl
  | step t p t' _ ih =>
    have hk' : k < (t.append m p).1.nextRoundID := Nat.lt_of_lt_of_le hk (append_mono t m p)
    rcases ih (append_wf t m p hw) hk' with h1 | h1
    · rcases append_immut t m p hw k hk with h2 | h2
      · left; rw [h1, h2]
      · right; rw [h1, h2]
    · exact Or.inr h1

theorem TokSteps.stays_none {m : Nat} {a b : TokenStore} (h : TokSteps m a b) (hw : TokWf a) (k : Nat)
    (hk : k < a.nextRoundID) (hnone : alookup k a.rounds = none) : alookup k b.rounds = none := by
  rcases h.immut hw k hk with h1 | h1
  · rw [h1]; exact hnone
  · exact h1

/-! ### retention window and contiguity -/

theorem wrapSub64_small (n m : Nat) (hn : n < 2 ^ 64) (hm : m < 2 ^ 64) :
    (m ≤ n → wrapSub64 n m = n - m) ∧ (n < m → wrapSub64 n m = n + 2 ^ 64 - m) := by
  unfold wrapSub64
  have e : m % 2 ^ 64 = m := Nat.mod_eq_of_lt hm
  rw [e]
  constructor
  · intro h
    have : n + 2 ^ 64 - m = (n - m) + 2 ^ 64 := by omega
    rw [this, Nat.add_mod_right]
    exact Nat.mod_eq_of_lt (by omega)
  · intro h
    exact Nat.mod_eq_of_lt (by omega)

/-- the stored rounds of a token lie in the retention window below the counter, and every id of
the window that is at least `lo` (the counter's value when observation started) is present -/
structure TokWin (m lo : Nat) (t : TokenStore) : Prop where
  win : ∀ k q, alookup k t.rounds = some q → t.nextRoundID ≤ k + m
  contig : ∀ k, lo ≤ k → k < t.nextRoundID → t.nextRoundID ≤ k + m → (alookup k t.rounds).isSome = true

theorem append_win (t : TokenStore) (m lo : Nat) (p : PriceTR) (hw : TokWf t) (hv : TokWin m lo t)
    (hm1 : 1 ≤ m) (hm : m < 2 ^ 64) (hb : (t.append m p).1.nextRoundID ≤ 2 ^ 64) :
    TokWin m lo (t.append m p).1 := by
  by_cases h : t.nextRoundID = p.roundID
  · have hnx := append_nextRoundID_ok t m p h
    rw [hnx] at hb
    have hn : t.nextRoundID < 2 ^ 64 := by omega
    have hws := wrapSub64_small t.nextRoundID m hn hm
    have hpos := nextRoundID_pos t
    refine ⟨?_, ?_⟩
    · intro k q hq
      rw [hnx]
      rw [append_lookup t m p hw.nodup h k] at hq
      by_cases c1 : 0 < wrapSub64 t.nextRoundID m ∧ k = wrapSub64 t.nextRoundID m
      · simp [c1] at hq
      · simp only [c1, if_false] at hq
        by_cases c2 : k = t.nextRoundID
        · omega
        · simp only [c2, if_false] at hq
          have h1 := hv.win k q hq
          have h2 := hw.below k q hq
          -- k + m = next would make k the expired key
          by_cases hmn : m ≤ t.nextRoundID
          · have := hws.1 hmn
            have hne : ¬ (0 < t.nextRoundID - m ∧ k = t.nextRoundID - m) := by rw [← this]; exact c1
            omega
          · omega
    · intro k hlo hk hwin
      rw [hnx] at hk hwin
      rw [append_lookup t m p hw.nodup h k]
      have c1 : ¬ (0 < wrapSub64 t.nextRoundID m ∧ k = wrapSub64 t.nextRoundID m) := by
        by_cases hmn : m ≤ t.nextRoundID
        · rw [hws.1 hmn]; omega
        · rw [hws.2 (by omega)]; omega
      simp only [c1, if_false]
      by_cases c2 : k = t.nextRoundID
      · simp [c2]
      · simp only [c2, if_false]
        exact hv.contig k hlo (by omega) (by omega)
  · have : (t.append m p).2 = false := by
      cases hb : (t.append m p).2 with
      | false => rfl
      | true => exact absurd ((append_ok_iff t m p).mp hb) h
    rw [append_fail t m p this]; exact hv

theorem TokSteps.win {m : Nat} {a b : TokenStore} (h : TokSteps m a b) (lo : Nat) (hw : TokWf a) (hv : TokWin m lo a)
    (hm1 : 1 ≤ m) (hm : m < 2 ^ 64) (hb : b.nextRoundID ≤ 2 ^ 64) : TokWin m lo b := by
  induction h with
  | refl t => exact hv
  | step t p t' hst ih =>
    have hb' : (t.append m p).1.nextRoundID ≤ 2 ^ 64 := Nat.le_trans hst.mono hb
    exact ih (append_wf t m p hw) (append_win t m lo p hw hv hm1 hm hb') hb

/-- no more than `m` rounds are retained -/
theorem retained_le (t : TokenStore) (m lo : Nat) (hw : TokWf t) (hv : TokWin m lo t) : t.rounds.length ≤ m := by
  have hl : t.rounds.length = (akeys t.rounds).length := by simp [akeys]
  rw [hl]
  apply nodup_window_length m _ t.nextRoundID hw.nodup
  intro k hk
  obtain ⟨q, hq⟩ := alookup_some_of_mem k t.rounds hk
  exact ⟨(hw.below k q hq).2, hv.win k q hq⟩

/-- a freshly started token (nothing stored) -/
theorem TokWf_empty (n : Nat) : TokWf { next := n, rounds := [] } :=
  ⟨by simp [akeys], by intro k q h; simp [alookup] at h, by intro k q h; simp [alookup] at h⟩

theorem TokWin_start (t : TokenStore) (m : Nat)
    (hwin : ∀ k q, alookup k t.rounds = some q → t.nextRoundID ≤ k + m) : TokWin m t.nextRoundID t :=
  ⟨hwin, by intro k h1 h2 _; omega⟩

/-! ## Part 2: every step of the run acts on each token's store by AppendPriceTR calls -/

theorem token_setToken (st : Store) (tok tok2 : Nat) (t : TokenStore) :
    (st.setToken tok t).token tok2 = if tok2 = tok then t else st.token tok2 := by
  unfold Store.token Store.setToken
  simp only
  rw [alookup_aset]
  by_cases h : tok2 = tok <;> simp [h]

def StoreSteps (m : Nat) (st st' : Store) : Prop := ∀ tok, TokSteps m (st.token tok) (st'.token tok)

theorem StoreSteps.refl (m : Nat) (st : Store) : StoreSteps m st st := fun _ => TokSteps.refl _

theorem StoreSteps.trans {m : Nat} {a b c : Store} (h1 : StoreSteps m a b) (h2 : StoreSteps m b c) :
    StoreSteps m a c := fun tok => (h1 tok).trans (h2 tok)

theorem StoreSteps.of_prices (m : Nat) (st st' : Store) (h : st'.prices = st.prices) : StoreSteps m st st' := by
  intro tok
  unfold Store.token
  rw [h]
  exact TokSteps.refl _

theorem foldl_proj {α β} (π : Store → β) (op : Store → α → Store) (F : β → α → β)
    (h : ∀ st a, π (op st a) = F (π st) a) (l : List α) : ∀ st, π (l.foldl op st) = l.foldl F (π st) := by
  induction l with
  | nil => intro st; rfl
  | cons a t ih => intro st; simp only [List.foldl_cons]; rw [ih, h]

theorem foldl_keep {α β} (π : Store → β) (op : Store → α → Store)
    (h : ∀ st a, π (op st a) = π st) (l : List α) : ∀ st, π (l.foldl op st) = π st := by
  induction l with
  | nil => intro st; rfl
  | cons a t ih => intro st; simp only [List.foldl_cons]; rw [ih, h]

/-- msg_server_create_price.go: what the finalizing message writes for the token — AppendPriceTR,
or GrowRoundID when the round id is not the expected one -/
def finalTok (t : TokenStore) (m : Nat) (it : FinalItem) : TokenStore :=
  if (t.append m { price := some it.price, decimal := it.decimal, ts := it.ts, roundID := it.roundID }).2 then
    (t.append m { price := some it.price, decimal := it.decimal, ts := it.ts, roundID := it.roundID }).1
  else t.grow m

theorem finalTok_steps (t : TokenStore) (m : Nat) (it : FinalItem) : TokSteps m t (finalTok t m it) := by
  unfold finalTok
  split
  · exact TokSteps.one m t _
  · exact TokSteps.grow m t

/-- "params fixed": the node is running with parameter set `p` and no other set is pending -/
structure PF (p : Params) (s : State) : Prop where
  agc : ∃ g, s.agc = some g ∧ g.params = some p
  cache : ∀ c, s.cache = some c → c.pUpdate = true → c.params = some p

theorem PF.cacheD {p : Params} {s : State} (h : PF p s) (hu : s.cacheD.pUpdate = true) : s.cacheD.params = some p := by
  unfold State.cacheD at hu ⊢
  cases hc : s.cache with
  | none => rw [hc] at hu; simp [Cache.empty] at hu
  | some c => rw [hc] at hu; exact h.cache c hc hu

/-! ### CreatePrice, case by case -/

theorem createPrice_bad_ts (s : State) (m : Msg) (h : checkTimestamp s.blockTime m = false) :
    createPrice s m = (s, .err .formatInvalid) := by
  unfold createPrice; simp [h]

theorem createPrice_check_fail (s : State) (m : Msg) (g : Agc) (p : Params) (e : MsgErr)
    (hg : s.agc = some g) (hp : g.params = some p) (hts : checkTimestamp s.blockTime m = true)
    (hc : g.checkMsg p m = some e) :
    createPrice s m = ({ s with cache := some s.cacheD }, .err e) := by
  unfold createPrice
  simp [hts, getAgc, hg, hp, hc]

theorem createPrice_fill (s : State) (m : Msg) (g : Agc) (p : Params)
    (hg : s.agc = some g) (hp : g.params = some p) (hts : checkTimestamp s.blockTime m = true)
    (hc : g.checkMsg p m = none) :
    createPrice s m =
      match g.fillPrice p m with
      | (g', .ignored) => ({ s with cache := some s.cacheD, agc := some g' }, .err .ignored)
      | (g', .cached it) =>
        ({ s with agc := some g', cache := some { s.cacheD with msgs := s.cacheD.msgs ++ [it] } }, .ok)
      | (g', .final it) =>
        ({ s with agc := some g',
                  store := (s.store.setToken it.tokenID (finalTok (s.store.token it.tokenID) p.maxSizePrices it)).removeNonces
                    m.feederID (g'.vals.map (·.1)),
                  cache := some { s.cacheD with msgs := s.cacheD.msgs.filter (fun x => x.feederID ≠ m.feederID) } }, .ok) := by
  unfold createPrice
  simp only [hts, Bool.not_true, Bool.false_eq_true, if_false, getAgc, hg, hp, hc]
  rcases hf : g.fillPrice p m with ⟨g', res⟩
  cases res with
  | ignored => simp [State.cacheD]
  | cached it => simp [State.cacheD]
  | final it => simp [State.cacheD, finalTok]

/-! ### the restructured EndBlock -/

def endDog (dog : List (Nat × Int)) (updates : List (Nat × Int)) : List (Nat × Int) :=
  updates.foldl (fun d kv => if kv.2 = 0 then adel kv.1 d else aset kv.1 kv.2 d) dog

def endVals (g : Agc) (c : Cache) (updates : List (Nat × Int)) : Agc × Cache × Bool :=
  if updates.length > 0 then
    let (cv, upd) := cacheAddVals c.vals updates
    let c := { c with vals := cv, vUpdate := c.vUpdate || upd }
    (g.setValidators c.vals, c, true)
  else (g, c, false)

def endStore1 (st : Store) (updates : List (Nat × Int)) (sealed failed valIDs : List Nat) (m : Nat) : Store :=
  let st0 : Store := updates.foldl (fun st kv =>
    if kv.2 = 0 then { st with nonces := st.nonces.filter (fun e => !(e.1.1 = kv.1)) } else st) st
  let st := sealed.foldl (fun st fid => st.removeNonces fid valIDs) st0
  failed.foldl (fun st tok => st.setToken tok ((st.token tok).grow m)) st

def endCommit (st : Store) (g : Agc) (c : Cache) (p : Params) (h : Nat) : Store × Agc × Cache :=
  let st := if c.msgs.length > 0 then commitMsgs st p.maxNonce h c.msgs else st
  let c := { c with msgs := [] }
  let st := if c.vUpdate then { st with vuBlock := some h } else st
  let c := { c with vUpdate := false }
  if c.pUpdate then
    match c.params with
    | some cp => (commitParams st p.maxNonce h cp, { g with params := some cp }, { c with pUpdate := false })
    | none => (st, g, { c with pUpdate := false })
  else (st, g, c)

def endTail (s : State) (g : Agc) (c : Cache) (updates : List (Nat × Int)) (force : Bool) (p : Params) : State :=
  let (g, failed, sealed) := g.sealRound p s.height force
  let valIDs := g.vals.map (·.1)
  let st := endStore1 s.store updates sealed failed valIDs p.maxSizePrices
  let (st, g, c) := endCommit st g c p s.height
  let (g, opened) := g.prepareRound s.height
  let valIDs := g.vals.map (·.1)
  let st := opened.foldl (fun st fid => st.addZeroNonces fid valIDs) st
  { s with store := st, agc := some g, cache := some c }

theorem endBlock_eq (s : State) (updates : List (Nat × Int)) (g : Agc) (hg : s.agc = some g) :
    endBlock s updates =
      match (endVals g s.cacheD updates).1.params with
      | none => none
      | some p => some (endTail { s with cache := some s.cacheD, dogfood := endDog s.dogfood updates }
          (endVals g s.cacheD updates).1 (endVals g s.cacheD updates).2.1 updates (endVals g s.cacheD updates).2.2 p) := by
  unfold endBlock
  simp only [getAgc, hg, State.cacheD, Option.getD_some]
  rfl


theorem endVals_frame (g : Agc) (c : Cache) (updates : List (Nat × Int)) :
    (endVals g c updates).1.params = g.params ∧ (endVals g c updates).1.rounds = g.rounds ∧
    (endVals g c updates).1.workers = g.workers ∧
    (endVals g c updates).2.1.pUpdate = c.pUpdate ∧ (endVals g c updates).2.1.params = c.params ∧
    (endVals g c updates).2.1.msgs = c.msgs := by
  unfold endVals
  split
  · simp [Agc.setValidators]
  · simp

theorem endCommit_frame (st : Store) (g : Agc) (c : Cache) (p : Params) (h : Nat) :
    (endCommit st g c p h).1.prices = st.prices ∧ (endCommit st g c p h).1.nonces = st.nonces ∧
    (endCommit st g c p h).1.params = st.params ∧
    (endCommit st g c p h).2.1.rounds = g.rounds ∧ (endCommit st g c p h).2.1.workers = g.workers ∧
    (endCommit st g c p h).2.1.vals = g.vals ∧ (endCommit st g c p h).2.1.total = g.total ∧
    (endCommit st g c p h).2.2.pUpdate = false ∧
    ((endCommit st g c p h).2.1.params = g.params ∨
      (c.pUpdate = true ∧ (endCommit st g c p h).2.1.params = c.params)) := by
  unfold endCommit
  simp only
  by_cases h1 : c.msgs.length > 0 <;> by_cases h2 : c.vUpdate = true <;> by_cases h3 : c.pUpdate = true
  all_goals simp only [h1, h2, h3, if_true, if_false, Bool.false_eq_true]
  all_goals (try cases hcp : c.params)
  all_goals simp [commitMsgs, commitParams, *]

theorem endStore1_prices_steps (m : Nat) (failed : List Nat) : ∀ (st : Store),
    StoreSteps m st (failed.foldl (fun st tok => st.setToken tok ((st.token tok).grow m)) st) := by
  induction failed with
  | nil => intro st; exact StoreSteps.refl m st
  | cons tok t ih =>
    intro st
    simp only [List.foldl_cons]
    refine StoreSteps.trans ?_ (ih _)
    intro tok2
    rw [token_setToken]
    by_cases h : tok2 = tok
    · simp only [h, if_true]; exact TokSteps.grow m _
    · simp only [h, if_false]; exact TokSteps.refl _

/-- module.go: EndBlock, F-13a repair — the nonce entries of the validators that leave -/
def dropLeavers (st : Store) (updates : List (Nat × Int)) : Store :=
  updates.foldl (fun st kv =>
    if kv.2 = 0 then { st with nonces := st.nonces.filter (fun e => !(e.1.1 = kv.1)) } else st) st

theorem dropLeavers_frame (updates : List (Nat × Int)) : ∀ (st : Store),
    (dropLeavers st updates).prices = st.prices ∧ (dropLeavers st updates).params = st.params := by
  induction updates with
  | nil => intro st; exact ⟨rfl, rfl⟩
  | cons kv t ih =>
    intro st
    simp only [dropLeavers, List.foldl_cons]
    by_cases h : kv.2 = 0
    · simp only [h, if_true]
      have := ih { st with nonces := st.nonces.filter (fun e => !(e.1.1 = kv.1)) }
      exact this
    · simp only [h, if_false]
      exact ih st

theorem removeFold_frame (vals : List Nat) (l : List Nat) : ∀ (st : Store),
    (l.foldl (fun st fid => st.removeNonces fid vals) st).prices = st.prices ∧
    (l.foldl (fun st fid => st.removeNonces fid vals) st).params = st.params := by
  induction l with
  | nil => intro st; exact ⟨rfl, rfl⟩
  | cons a t ih => intro st; simp only [List.foldl_cons]; exact ih _

theorem addZeroFold_frame (vals : List Nat) (l : List Nat) : ∀ (st : Store),
    (l.foldl (fun st fid => st.addZeroNonces fid vals) st).prices = st.prices ∧
    (l.foldl (fun st fid => st.addZeroNonces fid vals) st).params = st.params := by
  induction l with
  | nil => intro st; exact ⟨rfl, rfl⟩
  | cons a t ih => intro st; simp only [List.foldl_cons]; exact ih _

theorem growFold_params (m : Nat) (l : List Nat) : ∀ (st : Store),
    (l.foldl (fun st tok => st.setToken tok ((st.token tok).grow m)) st).params = st.params := by
  induction l with
  | nil => intro st; rfl
  | cons a t ih => intro st; simp only [List.foldl_cons]; exact ih _

theorem endStore1_eq (st : Store) (updates : List (Nat × Int)) (sealed failed valIDs : List Nat) (m : Nat) :
    endStore1 st updates sealed failed valIDs m =
      failed.foldl (fun st tok => st.setToken tok ((st.token tok).grow m))
        (sealed.foldl (fun st fid => st.removeNonces fid valIDs) (dropLeavers st updates)) := rfl

theorem endStore1_steps (st : Store) (updates : List (Nat × Int)) (sealed failed valIDs : List Nat) (m : Nat) :
    StoreSteps m st (endStore1 st updates sealed failed valIDs m) := by
  rw [endStore1_eq]
  refine StoreSteps.trans (StoreSteps.of_prices m _ _ ?_) (endStore1_prices_steps m failed _)
  rw [(removeFold_frame _ _ _).1, (dropLeavers_frame _ _).1]

theorem endStore1_params (st : Store) (updates : List (Nat × Int)) (sealed failed valIDs : List Nat) (m : Nat) :
    (endStore1 st updates sealed failed valIDs m).params = st.params := by
  rw [endStore1_eq, growFold_params, (removeFold_frame _ _ _).2, (dropLeavers_frame _ _).2]

theorem endTail_store (s : State) (g : Agc) (c : Cache) (updates : List (Nat × Int)) (force : Bool) (p : Params) :
    StoreSteps p.maxSizePrices s.store (endTail s g c updates force p).store := by
  unfold endTail
  simp only
  apply StoreSteps.trans (b := endStore1 s.store updates (g.sealRound p s.height force).2.2
    (g.sealRound p s.height force).2.1 ((g.sealRound p s.height force).1.vals.map (·.1)) p.maxSizePrices)
  · exact endStore1_steps _ _ _ _ _ _
  · apply StoreSteps.of_prices
    rw [(addZeroFold_frame _ _ _).1]
    exact (endCommit_frame _ _ _ _ _).1

theorem endTail_pf (s : State) (g : Agc) (c : Cache) (updates : List (Nat × Int)) (force : Bool) (p : Params)
    (hg : g.params = some p) (hc : c.pUpdate = true → c.params = some p) :
    PF p (endTail s g c updates force p) := by
  unfold endTail
  simp only
  constructor
  · refine ⟨_, rfl, ?_⟩
    rw [prepareRound_params]
    rcases (endCommit_frame (endStore1 s.store updates (g.sealRound p s.height force).2.2 (g.sealRound p s.height force).2.1
      ((g.sealRound p s.height force).1.vals.map (·.1)) p.maxSizePrices) (g.sealRound p s.height force).1 c p s.height).2.2.2.2.2.2.2.2 with h | ⟨h1, h2⟩
    · rw [h, sealRound_params]; exact hg
    · rw [h2]; exact hc h1
  · intro c' hc' hu
    simp only [Option.some.injEq] at hc'
    rw [← hc'] at hu
    rw [(endCommit_frame _ _ _ _ _).2.2.2.2.2.2.2.1] at hu
    exact absurd hu (by simp)

theorem endBlock_pf (p : Params) (s : State) (updates : List (Nat × Int)) (h : PF p s) :
    ∃ s', endBlock s updates = some s' ∧ StoreSteps p.maxSizePrices s.store s'.store ∧ PF p s' ∧
      s'.height = s.height ∧ s'.blockTime = s.blockTime := by
  obtain ⟨g, hg, hp⟩ := h.agc
  have hf := endVals_frame g s.cacheD updates
  rw [endBlock_eq s updates g hg, hf.1, hp]
  refine ⟨_, rfl, ?_, ?_, ?_, ?_⟩
  · exact endTail_store _ _ _ _ _ _
  · apply endTail_pf
    · rw [hf.1]; exact hp
    · rw [hf.2.2.2.1, hf.2.2.2.2.1]; exact h.cacheD
  · unfold endTail; rfl
  · unfold endTail; rfl

/-! ### DeliverTx -/

theorem checkNonce_some (st st' : Store) (mn v f : Nat) (n : Int) (h : st.checkNonce mn v f n = some st') :
    ∃ cur, alookup (v, f) st.nonces = some cur ∧ n = (cur : Int) + 1 ∧ cur + 1 ≤ mn ∧
      st' = { st with nonces := aset (v, f) (cur + 1) st.nonces } := by
  unfold Store.checkNonce at h
  by_cases h1 : (n < 0 || n > (mn : Int)) = true
  · simp [h1] at h
  · simp only [h1, Bool.false_eq_true, if_false] at h
    cases hc : alookup (v, f) st.nonces with
    | none => simp [hc] at h
    | some cur =>
      simp only [hc] at h
      by_cases h2 : (cur : Int) + 1 = n
      · simp only [h2, if_true, Option.some.injEq] at h
        simp only [Bool.or_eq_true, decide_eq_true_eq, not_or, Int.not_lt] at h1
        exact ⟨cur, rfl, h2.symm, by omega, h.symm⟩
      · simp [h2] at h

theorem checkNonce_frame (st st' : Store) (mn v f : Nat) (n : Int) (h : st.checkNonce mn v f n = some st') :
    st'.prices = st.prices ∧ st'.params = st.params := by
  obtain ⟨cur, _, _, _, h4⟩ := checkNonce_some st st' mn v f n h
  rw [h4]; exact ⟨rfl, rfl⟩

theorem anteHandle_ok (s : State) (tx : Tx) (st : Store) (h : anteHandle s tx = .ok st) :
    anteNonces s.store.params.maxNonce s.store tx.msgs = some st := by
  unfold anteHandle at h
  repeat' split at h
  all_goals first | (cases h; assumption) | (cases h)

theorem anteNonces_frame (mn : Nat) (ms : List Msg) : ∀ (st st' : Store), anteNonces mn st ms = some st' →
    st'.prices = st.prices ∧ st'.params = st.params := by
  induction ms with
  | nil => intro st st' h; simp only [anteNonces, Option.some.injEq] at h; rw [← h]; exact ⟨rfl, rfl⟩
  | cons m ms ih =>
    intro st st' h
    simp only [anteNonces] at h
    cases hc : st.checkNonce mn m.creator m.feederID m.nonce with
    | none => rw [hc] at h; simp at h
    | some st1 =>
      rw [hc] at h
      have h1 := checkNonce_frame st st1 mn _ _ _ hc
      have h2 := ih st1 st' h
      exact ⟨h2.1.trans h1.1, h2.2.trans h1.2⟩

theorem anteHandle_frame (s : State) (tx : Tx) (st : Store) (h : anteHandle s tx = .ok st) :
    st.prices = s.store.prices ∧ st.params = s.store.params := by
  exact anteNonces_frame _ _ _ _ (anteHandle_ok s tx st h)

theorem createPrice_pf (p : Params) (s : State) (m : Msg) (h : PF p s) :
    StoreSteps p.maxSizePrices s.store (createPrice s m).1.store ∧ PF p (createPrice s m).1 ∧
    (createPrice s m).1.height = s.height ∧ (createPrice s m).1.blockTime = s.blockTime := by
  obtain ⟨g, hg, hp⟩ := h.agc
  by_cases hts : checkTimestamp s.blockTime m = true
  · cases hc : g.checkMsg p m with
    | some e =>
      rw [createPrice_check_fail s m g p e hg hp hts hc]
      refine ⟨StoreSteps.refl _ _, ⟨⟨g, hg, hp⟩, ?_⟩, rfl, rfl⟩
      intro c hc' hu
      simp only [Option.some.injEq] at hc'
      rw [← hc'] at hu ⊢
      exact h.cacheD hu
    | none =>
      rw [createPrice_fill s m g p hg hp hts hc]
      have hpar := fillPrice_params g p m
      rcases hf : g.fillPrice p m with ⟨g', res⟩
      rw [hf] at hpar
      simp only at hpar
      cases res with
      | ignored =>
        refine ⟨StoreSteps.refl _ _, ⟨⟨g', rfl, by rw [hpar]; exact hp⟩, ?_⟩, rfl, rfl⟩
        intro c hc' hu
        simp only [Option.some.injEq] at hc'
        rw [← hc'] at hu ⊢
        exact h.cacheD hu
      | cached it =>
        refine ⟨StoreSteps.refl _ _, ⟨⟨g', rfl, by rw [hpar]; exact hp⟩, ?_⟩, rfl, rfl⟩
        intro c hc' hu
        simp only [Option.some.injEq] at hc'
        rw [← hc'] at hu ⊢
        exact h.cacheD hu
      | final it =>
        refine ⟨?_, ⟨⟨g', rfl, by rw [hpar]; exact hp⟩, ?_⟩, rfl, rfl⟩
        · intro tok
          have e : ((s.store.setToken it.tokenID (finalTok (s.store.token it.tokenID) p.maxSizePrices it)).removeNonces
              m.feederID (g'.vals.map (·.1))).token tok =
              (s.store.setToken it.tokenID (finalTok (s.store.token it.tokenID) p.maxSizePrices it)).token tok := rfl
          simp only [e, token_setToken]
          by_cases ht : tok = it.tokenID
          · simp only [ht, if_true]; exact finalTok_steps _ _ _
          · simp only [ht, if_false]; exact TokSteps.refl _
        · intro c hc' hu
          simp only [Option.some.injEq] at hc'
          rw [← hc'] at hu ⊢
          exact h.cacheD hu
  · have hts' : checkTimestamp s.blockTime m = false := by simpa using hts
    rw [createPrice_bad_ts s m hts']
    exact ⟨StoreSteps.refl _ _, h, rfl, rfl⟩

theorem runMsgs_pf (p : Params) (ms : List Msg) : ∀ (s : State) (i : Nat), PF p s →
    StoreSteps p.maxSizePrices s.store (runMsgs s i ms).1.store ∧ PF p (runMsgs s i ms).1 ∧
    (runMsgs s i ms).1.height = s.height ∧ (runMsgs s i ms).1.blockTime = s.blockTime := by
  induction ms with
  | nil => intro s i h; exact ⟨StoreSteps.refl _ _, h, rfl, rfl⟩
  | cons m ms ih =>
    intro s i h
    have h1 := createPrice_pf p s m h
    unfold runMsgs
    rcases hcp : createPrice s m with ⟨s', out⟩
    rw [hcp] at h1
    cases out with
    | ok =>
      have h2 := ih s' (i + 1) h1.2.1
      exact ⟨h1.1.trans h2.1, h2.2.1, h2.2.2.1.trans h1.2.2.1, h2.2.2.2.trans h1.2.2.2⟩
    | err e => exact h1

theorem deliverTx_pf (p : Params) (s : State) (tx : Tx) (h : PF p s) :
    StoreSteps p.maxSizePrices s.store (deliverTx s tx).1.store ∧ PF p (deliverTx s tx).1 ∧
    (deliverTx s tx).1.height = s.height ∧ (deliverTx s tx).1.blockTime = s.blockTime := by
  unfold deliverTx
  cases ha : anteHandle s tx with
  | error why => exact ⟨StoreSteps.refl _ _, h, rfl, rfl⟩
  | ok st =>
    simp only
    have hfr := anteHandle_frame s tx st ha
    have h0 : PF p { s with store := st } := ⟨h.agc, h.cache⟩
    have h1 := runMsgs_pf p tx.msgs { s with store := st } 0 h0
    have hs0 : StoreSteps p.maxSizePrices s.store st := StoreSteps.of_prices _ _ _ hfr.1
    rcases hr : runMsgs { s with store := st } 0 tx.msgs with ⟨s2, r⟩
    rw [hr] at h1
    cases r with
    | none => exact ⟨hs0.trans h1.1, h1.2.1, h1.2.2.1, h1.2.2.2⟩
    | some ie => exact ⟨hs0, ⟨h1.2.1.agc, h1.2.1.cache⟩, h1.2.2.1, h1.2.2.2⟩

theorem runTxs_pf (p : Params) (txs : List Tx) : ∀ (s : State), PF p s →
    StoreSteps p.maxSizePrices s.store (runTxs s txs).1.store ∧ PF p (runTxs s txs).1 ∧
    (runTxs s txs).1.height = s.height ∧ (runTxs s txs).1.blockTime = s.blockTime := by
  induction txs with
  | nil => intro s h; exact ⟨StoreSteps.refl _ _, h, rfl, rfl⟩
  | cons tx txs ih =>
    intro s h
    have h1 := deliverTx_pf p s tx h
    have h2 := ih _ h1.2.1
    simp only [runTxs]
    exact ⟨h1.1.trans h2.1, h2.2.1, h2.2.2.1.trans h1.2.2.1, h2.2.2.2.trans h1.2.2.2⟩

theorem runBlock_pf (p : Params) (s : State) (b : Block) (h : PF p s) :
    ∃ s' outs, runBlock s b = some (s', outs) ∧ StoreSteps p.maxSizePrices s.store s'.store ∧ PF p s' ∧
      s'.height = s.height + 1 := by
  unfold runBlock
  have h0 : PF p (beginBlock s b.blockTime) := ⟨h.agc, h.cache⟩
  have h1 := runTxs_pf p b.txs _ h0
  obtain ⟨s', he, hs, hpf, hh, _⟩ := endBlock_pf p _ b.updates h1.2.1
  simp only [he]
  refine ⟨s', _, rfl, ?_, hpf, ?_⟩
  · exact StoreSteps.trans h1.1 hs
  · rw [hh, h1.2.2.1]; rfl

/-- a running node with fixed parameters never halts in EndBlock, stays that way, and every token's
price history changes by AppendPriceTR calls only — for every list of blocks -/
theorem runBlocks_pf (p : Params) (bs : List Block) : ∀ (s : State), PF p s →
    ∃ s' outs, runBlocks s bs = some (s', outs) ∧ StoreSteps p.maxSizePrices s.store s'.store ∧ PF p s' ∧
      s'.height = s.height + bs.length := by
  induction bs with
  | nil => intro s h; exact ⟨s, [], rfl, StoreSteps.refl _ _, h, rfl⟩
  | cons b bs ih =>
    intro s h
    obtain ⟨s1, o1, he, hs, hpf, hh⟩ := runBlock_pf p s b h
    obtain ⟨s2, o2, he2, hs2, hpf2, hh2⟩ := ih s1 hpf
    refine ⟨s2, o1 :: o2, ?_, hs.trans hs2, hpf2, ?_⟩
    · simp only [runBlocks, he, he2]
    · rw [hh2, hh]; simp only [List.length_cons]; omega

end ExoVerif.Oracle
