import ExoVerif.Proofs.Epochs
import ExoVerif.Model.EpochsGenesis
/-! Helper lemmas for `Props/C15Genesis.lean`: what `fill` / `register` / `initGenesis`
(AddEpochInfo, InitGenesis) do to an entry and to the store. -/
namespace ExoVerif.Epochs

/-! ## registration (AddEpochInfo) -/

/-- AddEpochInfo keeps the number, the flag, the current start time, the duration and the identifier
of the entry; a configured start time is kept, an unset one becomes the registration's block time;
a configured start height is kept, an unset one becomes the registration's block height. -/
theorem fill_fields (e : EpochInfo) (bt h : Int) :
    (fill e bt h).identifier = e.identifier ∧ (fill e bt h).duration = e.duration ∧
    (fill e bt h).currentEpoch = e.currentEpoch ∧
    (fill e bt h).currentEpochStartTime = e.currentEpochStartTime ∧
    (fill e bt h).epochCountingStarted = e.epochCountingStarted ∧
    (fill e bt h).startTime = (if e.startTime = zeroTime then bt else e.startTime) ∧
    (fill e bt h).currentEpochStartHeight =
      (if e.currentEpochStartHeight = 0 then h else e.currentEpochStartHeight) := by
  unfold fill
  by_cases h1 : e.startTime = zeroTime <;> by_cases h2 : e.currentEpochStartHeight = 0 <;>
    simp [h1, h2]

theorem mem_insertSorted (x e : EpochInfo) (es : List EpochInfo) :
    x ∈ insertSorted e es ↔ x = e ∨ x ∈ es := by
  induction es with
  | nil => simp [insertSorted]
  | cons y rest ih =>
    unfold insertSorted
    split
    · simp
    · simp only [List.mem_cons, ih]
      constructor
      · rintro (h | h | h)
        · exact Or.inr (Or.inl h)
        · exact Or.inl h
        · exact Or.inr (Or.inr h)
      · rintro (h | h | h)
        · exact Or.inr (Or.inl h)
        · exact Or.inl h
        · exact Or.inr (Or.inr h)

theorem hasId_iff (es : List EpochInfo) (id : String) :
    hasId es id = true ↔ ∃ x ∈ es, x.identifier = id := by
  simp [hasId]

/-- What AddEpochInfo does to the store: an entry is stored iff Validate accepts it and no entry
with its identifier is stored; then the store gains exactly `fill e`, otherwise it is unchanged. -/
theorem register_cases (es : List EpochInfo) (e : EpochInfo) (bt h : Int) :
    ((register es e bt h).2 = .stored ∧ valid e = true ∧ hasId es e.identifier = false ∧
       ∀ x, x ∈ (register es e bt h).1 ↔ x = fill e bt h ∨ x ∈ es) ∨
    ((register es e bt h).2 ≠ .stored ∧ (valid e = false ∨ hasId es e.identifier = true) ∧
       (register es e bt h).1 = es) := by
  unfold register
  by_cases hv : valid e = true
  · by_cases hd : hasId es e.identifier = true
    · exact Or.inr (by simp [hv, hd])
    · have hd' : hasId es e.identifier = false := by simpa using hd
      refine Or.inl ?_
      simp only [hv, hd', Bool.not_true, Bool.false_eq_true, if_false]
      exact ⟨trivial, trivial, trivial, fun x => mem_insertSorted x _ es⟩
  · have hv' : valid e = false := by simpa using hv
    exact Or.inr (by simp [hv'])

/-- the identifiers of a store -/
def ids (es : List EpochInfo) : List String := es.map (·.identifier)

theorem ids_insertSorted_nodup (e : EpochInfo) (es : List EpochInfo)
    (hn : (ids es).Nodup) (hfresh : ∀ x ∈ es, x.identifier ≠ e.identifier) :
    (ids (insertSorted e es)).Nodup := by
  induction es with
  | nil => simp [insertSorted, ids]
  | cons y rest ih =>
    have hn' : y.identifier ∉ ids rest ∧ (ids rest).Nodup := by simpa [ids] using hn
    unfold insertSorted
    split
    · simp only [ids, List.map_cons, List.nodup_cons, List.mem_cons, List.mem_map, not_or]
      refine ⟨⟨fun hEq => hfresh y (by simp) hEq.symm, ?_⟩, ?_, ?_⟩
      · rintro ⟨x, hx, hxe⟩; exact hfresh x (by simp [hx]) hxe
      · simpa [ids] using hn'.1
      · simpa [ids] using hn'.2
    · have ih' := ih hn'.2 (fun x hx => hfresh x (by simp [hx]))
      simp only [ids, List.map_cons, List.nodup_cons, List.mem_map]
      refine ⟨?_, by simpa [ids] using ih'⟩
      rintro ⟨x, hx, hxe⟩
      rcases (mem_insertSorted x e rest).1 hx with rfl | hx'
      · exact hfresh y (by simp) hxe.symm
      · exact hn'.1 (by simp only [ids, List.mem_map]; exact ⟨x, hx', hxe⟩)

/-- every stored entry of a genesis is `fill` of a VALID entry of the genesis list (or was stored before) -/
theorem initGenesisFrom_mem (entries : List EpochInfo) (es : List EpochInfo) (bt h : Int) (x : EpochInfo)
    (hx : x ∈ initGenesisFrom es entries bt h) :
    x ∈ es ∨ ∃ c ∈ entries, valid c = true ∧ x = fill c bt h := by
  induction entries generalizing es with
  | nil => exact Or.inl (by simpa [initGenesisFrom] using hx)
  | cons c rest ih =>
    have hx' : x ∈ initGenesisFrom (register es c bt h).1 rest bt h := by
      simpa [initGenesisFrom] using hx
    rcases ih _ hx' with hmem | ⟨c', hc', hv', he'⟩
    · rcases register_cases es c bt h with ⟨_, hv, _, hm⟩ | ⟨_, _, heq⟩
      · rcases (hm x).1 hmem with rfl | hin
        · exact Or.inr ⟨c, by simp, hv, rfl⟩
        · exact Or.inl hin
      · rw [heq] at hmem; exact Or.inl hmem
    · exact Or.inr ⟨c', by simp [hc'], hv', he'⟩

theorem initGenesisFrom_nodup (entries : List EpochInfo) (es : List EpochInfo) (bt h : Int)
    (hn : (ids es).Nodup) : (ids (initGenesisFrom es entries bt h)).Nodup := by
  induction entries generalizing es with
  | nil => simpa [initGenesisFrom] using hn
  | cons c rest ih =>
    have : initGenesisFrom es (c :: rest) bt h = initGenesisFrom (register es c bt h).1 rest bt h := by
      simp [initGenesisFrom]
    rw [this]
    apply ih
    unfold register
    by_cases hv : valid c = true
    · by_cases hd : hasId es c.identifier = true
      · simpa [hv, hd] using hn
      · have hd' : hasId es c.identifier = false := by simpa using hd
        simp only [hv, hd', Bool.not_true, Bool.false_eq_true, if_false]
        apply ids_insertSorted_nodup _ _ hn
        intro x hx hEq
        have : hasId es c.identifier = true :=
          (hasId_iff es c.identifier).2 ⟨x, hx, by rw [hEq, (fill_fields c bt h).1]⟩
        rw [hd'] at this; cases this
    · have hv' : valid c = false := by simpa using hv
      simpa [hv'] using hn

theorem valid_fill (c : EpochInfo) (bt h : Int) (hv : valid c = true) (hh : 0 ≤ h) :
    valid (fill c bt h) = true := by
  obtain ⟨f1, f2, f3, _, _, _, f7⟩ := fill_fields c bt h
  obtain ⟨v1, v2, v3, v4⟩ := (valid_iff c).1 hv
  refine (valid_iff _).2 ⟨by rw [f1]; exact v1, by rw [f2]; exact v2, by rw [f3]; exact v3, ?_⟩
  rw [f7]; split <;> omega

/-- once counting has started it stays started over any block sequence -/
theorem runTicks_started (e : EpochInfo) (ts : List (Int × Int)) (hs : e.epochCountingStarted = true) :
    (runTicks e ts).1.epochCountingStarted = true := by
  induction ts generalizing e with
  | nil => simpa [runTicks] using hs
  | cons q rest ih =>
    obtain ⟨bt, h⟩ := q
    simp only [runTicks]
    exact ih _ (tick_started e bt h hs)

end ExoVerif.Epochs
