import ExoVerif.Proofs.ValSet
/-! Helper lemmas for the history-level C06 theorems (`Props/C06Hist.lean`): two duplicate-free
stores with the same lookups are permutations of each other (hence have the same total power and
the same size), the engine's set stays duplicate-free, and "first n of a strictly sorted list"
is "fewer than n elements stand before". Core Lean only. -/
namespace ExoVerif.ValSet
open ExoVerif.VMap

/-! ## stores as maps -/

theorem nodup_of_map_nodup {α β : Type} (f : α → β) (l : List α) (h : (l.map f).Nodup) : l.Nodup := by
  induction l with
  | nil => exact List.nodup_nil
  | cons a rest ih =>
    simp only [List.map_cons, List.nodup_cons] at h ⊢
    exact ⟨fun hm => h.1 (List.mem_map.2 ⟨a, hm, rfl⟩), ih h.2⟩

theorem nodup_of_noDup (m : VSet) (h : KV.NoDup m) : m.Nodup := nodup_of_map_nodup (fun p : Nat × Int => p.1) m h

/-- two duplicate-free stores with the same lookups hold the same bindings -/
theorem perm_of_get_eq (a b : VSet) (ha : KV.NoDup a) (hb : KV.NoDup b) (h : ∀ k, get a k = get b k) :
    a.Perm b := by
  apply (List.perm_ext_iff_of_nodup (nodup_of_noDup a ha) (nodup_of_noDup b hb)).2
  intro p
  obtain ⟨k, v⟩ := p
  constructor
  · intro hm
    have h1 := KV.find?_of_mem a k v ha hm
    exact KV.find?_mem b k v ((h k).symm.trans h1)
  · intro hm
    have h1 := KV.find?_of_mem b k v hb hm
    exact KV.find?_mem a k v ((h k).trans h1)

theorem sumBy_perm (f : Int → Int) {a b : VSet} (h : a.Perm b) : KV.sumBy f a = KV.sumBy f b := by
  induction h with
  | nil => rfl
  | cons x _ ih => obtain ⟨k, v⟩ := x; simp only [KV.sumBy, ih]
  | swap x y l => obtain ⟨k, v⟩ := x; obtain ⟨k2, v2⟩ := y; simp only [KV.sumBy]; omega
  | trans _ _ ih1 ih2 => exact ih1.trans ih2

theorem sumPowers_eq_of_get_eq (a b : VSet) (ha : KV.NoDup a) (hb : KV.NoDup b) (h : ∀ k, get a k = get b k) :
    sumPowers a = sumPowers b := sumBy_perm id (perm_of_get_eq a b ha hb h)

theorem length_eq_of_get_eq (a b : VSet) (ha : KV.NoDup a) (hb : KV.NoDup b) (h : ∀ k, get a k = get b k) :
    a.length = b.length := (perm_of_get_eq a b ha hb h).length_eq

theorem sumPowers_map (l : List Cand) :
    sumPowers (l.map (fun c => (c.key, c.power))) = (l.map (·.power)).sum := by
  induction l with
  | nil => rfl
  | cons c rest ih =>
    simp only [sumPowers] at ih
    simp only [sumPowers, List.map_cons, KV.sumBy, List.sum_cons, ih, id]

theorem filter_length_mono {α : Type} (p q : α → Bool) (l : List α) (h : ∀ x, p x = true → q x = true) :
    (l.filter p).length ≤ (l.filter q).length := by
  induction l with
  | nil => simp
  | cons a rest ih =>
    simp only [List.filter_cons]
    by_cases hp : p a = true
    · simp only [hp, h a hp, if_true, List.length_cons]; omega
    · by_cases hq : q a = true
      · simp only [hp, hq, if_true, List.length_cons]; simp only [Bool.false_eq_true, if_false]; omega
      · simp only [hp, hq]; simpa using ih

/-! ## CometBFT's copy stays a map -/

theorem noDup_cometStep (vs : VSet) (u : Upd) (h : KV.NoDup vs) : KV.NoDup (cometStep vs u) := by
  unfold cometStep
  split
  · exact noDup_del _ _ h
  · exact noDup_put _ _ _ h

theorem noDup_cometApply (ups : List Upd) (vs : VSet) (h : KV.NoDup vs) : KV.NoDup (cometApply vs ups) := by
  unfold cometApply
  induction ups generalizing vs with
  | nil => exact h
  | cons u rest ih => exact ih _ (noDup_cometStep vs u h)

/-! ## the strict order behind SortByPower -/

theorem candLess_irrefl (a : Cand) : candLess a a = false := by
  cases a; simp [candLess]

/-- for candidates of different operators `candLe` is the strict order `candLess` -/
theorem candLess_of_candLe (a b : Cand) (hop : a.op ≠ b.op) (h : candLe a b = true) :
    candLess a b = true ∧ candLess b a = false := by
  rw [candLe_iff] at h
  unfold candLess
  by_cases hp : a.power = b.power
  · simp only [hp, beq_self_eq_true, if_true, decide_eq_true_eq, decide_eq_false_iff_not]
    omega
  · have hp' : ¬ b.power = a.power := fun e => hp e.symm
    simp only [beq_iff_eq, hp, hp', if_false, decide_eq_true_eq, decide_eq_false_iff_not]
    omega

/-- in a strictly sorted list the first `n` elements are exactly those with fewer than `n`
elements standing strictly before them -/
theorem mem_take_iff_count_lt (l : List Cand) (n : Nat)
    (hs : l.Pairwise (fun a b => candLess a b = true ∧ candLess b a = false)) (c : Cand) :
    c ∈ l.take n ↔ c ∈ l ∧ (l.filter (fun d => candLess d c)).length < n := by
  induction l generalizing n with
  | nil => simp
  | cons a rest ih =>
    have hc := List.pairwise_cons.1 hs
    cases n with
    | zero => simp
    | succ n =>
      rw [List.take_succ_cons]
      by_cases hca : c = a
      · subst hca
        have hnil : rest.filter (fun d => candLess d c) = [] := by
          rw [List.filter_eq_nil_iff]
          intro x hx
          simp [(hc.1 x hx).2]
        simp [candLess_irrefl, hnil]
      · by_cases hcr : c ∈ rest
        · have hlt := (hc.1 c hcr).1
          have := ih n hc.2
          simp only [List.mem_cons, hca, false_or, List.filter_cons, hlt, if_true, List.length_cons,
            hcr, true_and] at this ⊢
          rw [this]; omega
        · have h1 : c ∉ rest.take n := fun h => hcr (List.mem_of_mem_take h)
          simp [hca, hcr, h1]

end ExoVerif.ValSet
