import ExoVerif.Proofs.Ledger
import ExoVerif.Proofs.LedgerReach
/-! C03, last sentence: "each staker's and each operator's pending-undelegation figure equals the
    sum of the unreleased records that name them". Helper lemmas: the three figures
    (`StakerAssetInfo.PendingUndelegationAmount`, `OperatorAssetInfo.PendingUndelegationAmount`,
    `DelegationAmounts.WaitUndelegationAmount`), the three record sums, and how every primitive and
    every operation of the ledger model moves them. No Mathlib of its own. -/
namespace ExoVerif.Ledger
open ExoVerif ExoVerif.KV

/-! ## figures and record sums -/

/-- weight of a record in the sum for staker `st`, asset `a`: its ORIGINAL amount -/
def psAt (st : SID) (a : AID) : RecKey × URec → Int :=
  fun e => if e.2.staker = st ∧ e.2.asset = a then e.2.amount else 0
/-- weight of a record in the sum for operator `o`, asset `a` -/
def ppAt (o : OID) (a : AID) : RecKey × URec → Int :=
  fun e => if e.2.op = o ∧ e.2.asset = a then e.2.amount else 0
/-- weight of a record in the sum for the delegation (st, a, o) -/
def pdAt (st : SID) (a : AID) (o : OID) : RecKey × URec → Int :=
  fun e => if e.2.staker = st ∧ e.2.asset = a ∧ e.2.op = o then e.2.amount else 0

/-- StakerAssetInfo.PendingUndelegationAmount (0 when the row is absent) -/
def stPend (s : L) (st : SID) (a : AID) : Int := (getD s.stakers (st, a) zeroStaker).pending
/-- OperatorAssetInfo.PendingUndelegationAmount -/
def poolPend (s : L) (o : OID) (a : AID) : Int := (getD s.pools (o, a) zeroPool).pending
/-- DelegationAmounts.WaitUndelegationAmount -/
def delWait (s : L) (st : SID) (a : AID) (o : OID) : Int := (getD s.deleg (st, a, o) zeroDeleg).wait

/-- every pending-undelegation figure equals the sum of the original amounts of the live records
naming it. The staker row is not kept for the native token (RemoveShare / EndBlock skip it). -/
def PendInv (s : L) : Prop :=
  (∀ st a, a ≠ nativeAID →
      (getD s.stakers (st, a) zeroStaker).pending = sumP (psAt st a) s.recs) ∧
  (∀ o a, (getD s.pools (o, a) zeroPool).pending = sumP (ppAt o a) s.recs) ∧
  (∀ st a o, (getD s.deleg (st, a, o) zeroDeleg).wait = sumP (pdAt st a o) s.recs)

theorem pendInv_def (s : L) : PendInv s ↔
    (∀ st a, a ≠ nativeAID → stPend s st a = sumP (psAt st a) s.recs) ∧
    (∀ o a, poolPend s o a = sumP (ppAt o a) s.recs) ∧
    (∀ st a o, delWait s st a o = sumP (pdAt st a o) s.recs) := Iff.rfl

/-- nothing moved: the three figures and the three record sums are what they were -/
def SamePend (s s' : L) : Prop :=
  (∀ st a, stPend s' st a = stPend s st a) ∧ (∀ o a, poolPend s' o a = poolPend s o a) ∧
  (∀ st a o, delWait s' st a o = delWait s st a o) ∧
  (∀ st a, sumP (psAt st a) s'.recs = sumP (psAt st a) s.recs) ∧
  (∀ o a, sumP (ppAt o a) s'.recs = sumP (ppAt o a) s.recs) ∧
  (∀ st a o, sumP (pdAt st a o) s'.recs = sumP (pdAt st a o) s.recs)

theorem SamePend.refl (s : L) : SamePend s s :=
  ⟨fun _ _ => rfl, fun _ _ => rfl, fun _ _ _ => rfl, fun _ _ => rfl, fun _ _ => rfl, fun _ _ _ => rfl⟩

theorem SamePend.trans {a b c : L} (h1 : SamePend a b) (h2 : SamePend b c) : SamePend a c := by
  obtain ⟨a1, a2, a3, a4, a5, a6⟩ := h1
  obtain ⟨b1, b2, b3, b4, b5, b6⟩ := h2
  exact ⟨fun st a => (b1 st a).trans (a1 st a), fun o a => (b2 o a).trans (a2 o a),
    fun st a o => (b3 st a o).trans (a3 st a o), fun st a => (b4 st a).trans (a4 st a),
    fun o a => (b5 o a).trans (a5 o a), fun st a o => (b6 st a o).trans (a6 st a o)⟩

theorem samePend_of_eq {s s' : L} (h1 : s'.stakers = s.stakers) (h2 : s'.pools = s.pools)
    (h3 : s'.deleg = s.deleg) (h4 : s'.recs = s.recs) : SamePend s s' := by
  unfold SamePend stPend poolPend delWait
  rw [h1, h2, h3, h4]
  exact ⟨fun _ _ => rfl, fun _ _ => rfl, fun _ _ _ => rfl, fun _ _ => rfl, fun _ _ => rfl, fun _ _ _ => rfl⟩

theorem pendInv_of_same {s s' : L} (hp : PendInv s) (h : SamePend s s') : PendInv s' := by
  obtain ⟨p1, p2, p3⟩ := (pendInv_def s).1 hp
  obtain ⟨a1, a2, a3, a4, a5, a6⟩ := h
  refine (pendInv_def s').2 ⟨fun st a ha => ?_, fun o a => ?_, fun st a o => ?_⟩
  · rw [a1, a4]; exact p1 st a ha
  · rw [a2, a5]; exact p2 o a
  · rw [a3, a6]; exact p3 st a o

/-- the figures of delegation (st0, a0, o0) all moved by `d`; the record store did not change yet -/
def PendStep (s s' : L) (st0 : SID) (a0 : AID) (o0 : OID) (d : Int) : Prop :=
  (∀ st a, a ≠ nativeAID → stPend s' st a = stPend s st a + (if st0 = st ∧ a0 = a then d else 0)) ∧
  (∀ o a, poolPend s' o a = poolPend s o a + (if o0 = o ∧ a0 = a then d else 0)) ∧
  (∀ st a o, delWait s' st a o = delWait s st a o + (if st0 = st ∧ a0 = a ∧ o0 = o then d else 0)) ∧
  s'.recs = s.recs

/-! ## primitives -/

theorem updStaker_fig {s s' : L} {st0 : SID} {a0 : AID} {dT dW dP : Int}
    (h : updStaker s st0 a0 dT dW dP = .ok s') :
    (∀ st a, stPend s' st a = stPend s st a + (if st0 = st ∧ a0 = a then dP else 0)) ∧
    s'.pools = s.pools ∧ s'.deleg = s.deleg ∧ s'.recs = s.recs := by
  rw [updStaker_ok h]
  refine ⟨fun st a => ?_, rfl, rfl, rfl⟩
  unfold stPend
  by_cases hk : (st, a) = (st0, a0)
  · injection hk with h1 h2; subst h1; subst h2
    simp only [getD_set_same, and_self, if_true]
  · rw [getD_set_other _ _ _ _ _ hk]
    have : ¬ (st0 = st ∧ a0 = a) := fun ⟨h1, h2⟩ => hk (by rw [h1, h2])
    simp [this]

theorem updPool_fig {s s' : L} {o0 : OID} {a0 : AID} {dA dP : Int} {dS dO : Dec}
    (h : updPool s o0 a0 dA dP dS dO = .ok s') :
    (∀ o a, poolPend s' o a = poolPend s o a + (if o0 = o ∧ a0 = a then dP else 0)) ∧
    s'.stakers = s.stakers ∧ s'.deleg = s.deleg ∧ s'.recs = s.recs := by
  obtain ⟨ts, os, _, _, hs⟩ := updPool_ok h
  rw [hs]
  refine ⟨fun o a => ?_, rfl, rfl, rfl⟩
  unfold poolPend
  by_cases hk : (o, a) = (o0, a0)
  · injection hk with h1 h2; subst h1; subst h2
    simp only [getD_set_same, and_self, if_true]
  · rw [getD_set_other _ _ _ _ _ hk]
    have : ¬ (o0 = o ∧ a0 = a) := fun ⟨h1, h2⟩ => hk (by rw [h1, h2])
    simp [this]

theorem updDeleg_fig {s s' : L} {st0 : SID} {a0 : AID} {o0 : OID} {dS : Dec} {dW : Int} {z : Bool}
    (h : updDeleg s st0 a0 o0 dS dW = .ok (s', z)) :
    (∀ st a o, delWait s' st a o = delWait s st a o + (if st0 = st ∧ a0 = a ∧ o0 = o then dW else 0)) ∧
    s'.stakers = s.stakers ∧ s'.pools = s.pools ∧ s'.recs = s.recs := by
  obtain ⟨sh, _, _, hs⟩ := updDeleg_ok h
  rw [hs]
  refine ⟨fun st a o => ?_, rfl, rfl, rfl⟩
  unfold delWait
  by_cases hk : (st, a, o) = (st0, a0, o0)
  · injection hk with h1 h2; injection h2 with h2 h3; subst h1; subst h2; subst h3
    simp only [getD_set_same, and_self, if_true]
  · rw [getD_set_other _ _ _ _ _ hk]
    have : ¬ (st0 = st ∧ a0 = a ∧ o0 = o) := fun ⟨h1, h2, h3⟩ => hk (by rw [h1, h2, h3])
    simp [this]

theorem samePend_updStaker0 {s s' : L} {st0 : SID} {a0 : AID} {dT dW : Int}
    (h : updStaker s st0 a0 dT dW 0 = .ok s') : SamePend s s' := by
  obtain ⟨f, e2, e3, e4⟩ := updStaker_fig h
  obtain ⟨_, b2, b3, b4, b5, b6⟩ := samePend_of_eq (s := s) (s' := { s' with stakers := s.stakers }) rfl e2 e3 e4
  refine ⟨fun st a => ?_, b2, b3, b4, b5, b6⟩
  rw [f st a]; split <;> omega

theorem samePend_updPool0 {s s' : L} {o0 : OID} {a0 : AID} {dA : Int} {dS dO : Dec}
    (h : updPool s o0 a0 dA 0 dS dO = .ok s') : SamePend s s' := by
  obtain ⟨f, e1, e3, e4⟩ := updPool_fig h
  obtain ⟨b1, _, b3, b4, b5, b6⟩ := samePend_of_eq (s := s) (s' := { s' with pools := s.pools }) e1 rfl e3 e4
  refine ⟨b1, fun o a => ?_, b3, b4, b5, b6⟩
  rw [f o a]; split <;> omega

theorem samePend_updDeleg0 {s s' : L} {st0 : SID} {a0 : AID} {o0 : OID} {dS : Dec} {z : Bool}
    (h : updDeleg s st0 a0 o0 dS 0 = .ok (s', z)) : SamePend s s' := by
  obtain ⟨f, e1, e2, e4⟩ := updDeleg_fig h
  obtain ⟨b1, b2, _, b4, b5, b6⟩ := samePend_of_eq (s := s) (s' := { s' with deleg := s.deleg }) e1 e2 rfl e4
  refine ⟨b1, b2, fun st a o => ?_, b4, b5, b6⟩
  rw [f st a o]; split <;> omega

theorem samePend_updTotal {s s' : L} {a0 : AID} {d : Int} (h : updTotal s a0 d = .ok s') : SamePend s s' := by
  obtain ⟨t, _, hs⟩ := updTotal_ok h
  rw [hs]; exact samePend_of_eq rfl rfl rfl rfl

theorem samePend_appendStaker (s : L) (o : OID) (a : AID) (st : SID) : SamePend s (appendStaker s o a st) := by
  unfold appendStaker
  simp only []
  split
  · exact SamePend.refl s
  · exact samePend_of_eq rfl rfl rfl rfl

theorem samePend_deleteStaker {s s' : L} {o : OID} {a : AID} {st : SID} (h : deleteStaker s o a st = .ok s') :
    SamePend s s' := by
  unfold deleteStaker at h
  split at h
  · cases h
  · injection h with h; rw [← h]; exact samePend_of_eq rfl rfl rfl rfl

/-! ## operations that move no pending figure -/

theorem samePend_deposit {s s' : L} {st : SID} {a0 : AID} {x : Int} (h : deposit s st a0 x = .ok s') :
    SamePend s s' := by
  unfold deposit at h
  simp only [bind, Except.bind, pure, Except.pure, throw, throwThe, MonadExceptOf.throw] at h
  split at h
  · cases h
  · split at h
    · cases h
    · split at h
      · cases h
      · rename_i s1 h1
        split at h
        · cases h
        · rename_i s2 h2
          injection h with h; subst h
          exact ((samePend_updStaker0 h1).trans (samePend_updTotal h2)).trans (samePend_of_eq rfl rfl rfl rfl)

theorem samePend_withdraw {s s' : L} {st : SID} {a0 : AID} {x : Int} (h : withdraw s st a0 x = .ok s') :
    SamePend s s' := by
  unfold withdraw at h
  simp only [bind, Except.bind, pure, Except.pure, throw, throwThe, MonadExceptOf.throw] at h
  split at h
  · cases h
  · split at h
    · cases h
    · split at h
      · cases h
      · rename_i s1 h1
        split at h
        · cases h
        · rename_i s2 h2
          injection h with h; subst h
          exact ((samePend_updStaker0 h1).trans (samePend_updTotal h2)).trans (samePend_of_eq rfl rfl rfl rfl)

theorem samePend_delegateCore {s s' : L} {st : SID} {a0 : AID} {o : OID} {x : Int}
    (h : delegateCore s st a0 o x = .ok s') : SamePend s s' := by
  unfold delegateCore at h
  simp only [bind, Except.bind, pure, Except.pure] at h
  split at h
  · cases h
  · split at h
    · cases h
    · rename_i s2 h2
      split at h
      · cases h
      · rename_i p3 h3
        obtain ⟨s3, z⟩ := p3
        injection h with h; subst h
        exact ((samePend_updPool0 h2).trans (samePend_updDeleg0 h3)).trans (samePend_appendStaker s3 o a0 st)

theorem samePend_delegate {s s' : L} {st : SID} {a0 : AID} {o : OID} {x : Int}
    (h : delegate s st a0 o x = .ok s') : SamePend s s' := by
  unfold delegate at h
  simp only [bind, Except.bind, throw, throwThe, MonadExceptOf.throw] at h
  split at h
  · cases h
  · split at h
    · cases h
    · by_cases hn : a0 = nativeAID
      · simp only [hn, if_true] at h
        split at h
        · cases h
        · exact SamePend.trans (b := { s with bal := KV.set s.bal st (getD s.bal st 0 - x), escrow := s.escrow + x }) (samePend_of_eq rfl rfl rfl rfl) (samePend_delegateCore h)
      · simp only [hn, if_false] at h
        split at h
        · cases h
        · split at h
          · cases h
          · split at h
            · cases h
            · rename_i s1 h1
              exact (samePend_updStaker0 h1).trans (samePend_delegateCore h)

theorem samePend_foldlM_opShare (es : List ((SID × AID × OID) × DelegRow)) (o : OID) (f : DelegRow → Dec)
    {s s' : L} (h : es.foldlM (fun s e => updPool s o e.1.2.1 0 0 Dec.zero (f e.2)) s = .ok s') :
    SamePend s s' := by
  induction es generalizing s with
  | nil =>
    simp only [List.foldlM_nil, pure, Except.pure] at h; injection h with h; subst h
    exact SamePend.refl _
  | cons e rest ih =>
    simp only [List.foldlM_cons, bind, Except.bind] at h
    split at h
    · cases h
    · rename_i s1 h1
      exact (samePend_updPool0 h1).trans (ih h)

theorem samePend_associate {s s' : L} {st : SID} {o : OID} (h : associate s st o = .ok s') : SamePend s s' := by
  unfold associate at h
  simp only [bind, Except.bind, pure, Except.pure, throw, throwThe, MonadExceptOf.throw] at h
  split at h
  · cases h
  · split at h
    · cases h
    · split at h
      · cases h
      · split at h
        · cases h
        · rename_i s1 h1
          injection h with h; subst h
          exact (samePend_foldlM_opShare _ o (fun r => r.share) h1).trans (samePend_of_eq rfl rfl rfl rfl)

theorem samePend_dissociate {s s' : L} {st : SID} (h : dissociate s st = .ok s') : SamePend s s' := by
  unfold dissociate at h
  simp only [bind, Except.bind, pure, Except.pure, throw, throwThe, MonadExceptOf.throw] at h
  split at h
  · cases h
  · rename_i o ho
    split at h
    · cases h
    · rename_i s1 h1
      injection h with h; subst h
      exact (samePend_foldlM_opShare _ o (fun r => r.share.neg) h1).trans (samePend_of_eq rfl rfl rfl rfl)

theorem samePend_hold (s : L) (k : RecKey) : SamePend s (hold s k) := samePend_of_eq rfl rfl rfl rfl

theorem samePend_release {s s' : L} {k : RecKey} (h : release s k = .ok s') : SamePend s s' := by
  unfold release at h
  simp only [] at h
  split at h
  · cases h
  · injection h with h; subst h; exact samePend_of_eq rfl rfl rfl rfl

theorem samePend_nextBlock (s : L) : SamePend s (nextBlock s) := samePend_of_eq rfl rfl rfl rfl

end ExoVerif.Ledger

namespace ExoVerif.Ledger
open ExoVerif ExoVerif.KV

/-! ## undelegation: the three figures grow by the removed tokens, then one record is written -/

theorem removeShareFromOperator_fig {s s' : L} {isU : Bool} {o0 : OID} {st0 : SID} {a0 : AID} {share : Dec}
    {removed : Int} (h : removeShareFromOperator s isU o0 st0 a0 share = .ok (s', removed)) :
    (∀ o a, poolPend s' o a = poolPend s o a + (if o0 = o ∧ a0 = a then (if isU then removed else 0) else 0)) ∧
    s'.stakers = s.stakers ∧ s'.deleg = s.deleg ∧ s'.recs = s.recs := by
  unfold removeShareFromOperator at h
  simp only [bind, Except.bind, pure, Except.pure, throw, throwThe, MonadExceptOf.throw] at h
  split at h
  · cases h
  · split at h
    · cases h
    · split at h
      · cases h
      · split at h
        · cases h
        · split at h
          · cases h
          · rename_i s1 h1
            injection h with h
            injection h with ha hb
            subst ha; subst hb
            exact updPool_fig h1

theorem pendStaker_fig {s s' : L} {isU : Bool} {st0 : SID} {a0 : AID} {removed : Int}
    (h : pendStaker s isU st0 a0 removed = .ok s') :
    (∀ st a, a ≠ nativeAID →
      stPend s' st a = stPend s st a + (if st0 = st ∧ a0 = a then (if isU then removed else 0) else 0)) ∧
    s'.pools = s.pools ∧ s'.deleg = s.deleg ∧ s'.recs = s.recs := by
  unfold pendStaker at h
  split at h
  · rename_i hc
    have hu : isU = true := by cases isU <;> simp_all
    obtain ⟨f, e2, e3, e4⟩ := updStaker_fig h
    refine ⟨fun st a _ => ?_, e2, e3, e4⟩
    rw [f st a, hu]; simp
  · rename_i hc
    injection h with h; subst h
    refine ⟨fun st a ha => ?_, rfl, rfl, rfl⟩
    have : (if st0 = st ∧ a0 = a then (if isU = true then removed else 0) else 0) = 0 := by
      cases isU
      · simp
      · have hn : a0 = nativeAID := by simpa using hc
        have : ¬ (st0 = st ∧ a0 = a) := fun ⟨_, h2⟩ => ha (h2 ▸ hn)
        simp [this]
    rw [this]; omega

theorem removeShare_fig {s s' : L} {isU : Bool} {o0 : OID} {st0 : SID} {a0 : AID} {share : Dec}
    {removed : Int} (h : removeShare s isU o0 st0 a0 share = .ok (s', removed)) :
    PendStep s s' st0 a0 o0 (if isU then removed else 0) := by
  unfold removeShare at h
  simp only [bind, Except.bind, pure, Except.pure, throw, throwThe, MonadExceptOf.throw] at h
  split at h
  · cases h
  · split at h
    · cases h
    · rename_i p1 h1
      obtain ⟨s1, rem⟩ := p1
      obtain ⟨f1, a1, a2, a3⟩ := removeShareFromOperator_fig h1
      simp only [] at h
      split at h
      · cases h
      · rename_i s2 h2
        obtain ⟨f2, b1, b2, b3⟩ := pendStaker_fig h2
        split at h
        · cases h
        · rename_i p3 h3
          obtain ⟨s3, z⟩ := p3
          obtain ⟨f3, c1, c2, c3⟩ := updDeleg_fig h3
          simp only [] at h
          split at h
          · cases h
          · rename_i s4 h4
            injection h with h
            injection h with ha hb
            subst ha; subst hb
            have d : SamePend s3 s4 := by
              cases z
              · simp only [Bool.false_eq_true, if_false] at h4
                injection h4 with h4; subst h4; exact SamePend.refl _
              · simp only [if_true] at h4
                exact samePend_deleteStaker h4
            obtain ⟨d1, d2, d3, _⟩ := d
            have e4 : s4.recs = s.recs := by
              have : s4.recs = s3.recs := by
                cases z
                · simp only [Bool.false_eq_true, if_false] at h4
                  injection h4 with h4; subst h4; rfl
                · simp only [if_true] at h4
                  exact (deleteStaker_recs h4).1
              rw [this, c3, b3, a3]
            refine ⟨fun st a ha => ?_, fun o a => ?_, fun st a o => ?_, e4⟩
            · rw [d1]
              have : stPend s3 st a = stPend s2 st a := by unfold stPend; rw [c1]
              rw [this, f2 st a ha]
              have : stPend s1 st a = stPend s st a := by unfold stPend; rw [a1]
              rw [this]
            · rw [d2]
              have : poolPend s3 o a = poolPend s2 o a := by unfold poolPend; rw [c2]
              rw [this]
              have : poolPend s2 o a = poolPend s1 o a := by unfold poolPend; rw [b1]
              rw [this, f1 o a]
            · rw [d3, f3 st a o]
              have : delWait s2 st a o = delWait s1 st a o := by unfold delWait; rw [b2]
              rw [this]
              have : delWait s1 st a o = delWait s st a o := by unfold delWait; rw [a2]
              rw [this]

/-- writing a record under a key that is free, after its three figures grew by its amount -/
theorem pendInv_setRecord {s s1 s' : L} {r : URec} (hp : PendInv s)
    (hstep : PendStep s s1 r.staker r.asset r.op r.amount)
    (hfresh : find? s1.recs r.key = none) (h : setRecord s1 r = .ok s') : PendInv s' := by
  unfold setRecord at h
  split at h
  · cases h
  · injection h with h; subst h
    obtain ⟨p1, p2, p3⟩ := (pendInv_def s).1 hp
    obtain ⟨q1, q2, q3, q4⟩ := hstep
    refine (pendInv_def _).2 ⟨fun st a ha => ?_, fun o a => ?_, fun st a o => ?_⟩
    · show stPend s1 st a = sumP (psAt st a) (KV.set s1.recs r.key r)
      rw [sumP_set, atP_of_none _ _ _ hfresh, q4, ← p1 st a ha, q1 st a ha]
      simp only [psAt]; omega
    · show poolPend s1 o a = sumP (ppAt o a) (KV.set s1.recs r.key r)
      rw [sumP_set, atP_of_none _ _ _ hfresh, q4, ← p2 o a, q2 o a]
      simp only [ppAt]; omega
    · show delWait s1 st a o = sumP (pdAt st a o) (KV.set s1.recs r.key r)
      rw [sumP_set, atP_of_none _ _ _ hfresh, q4, ← p3 st a o, q3 st a o]
      simp only [pdAt]; omega

theorem pendInv_undelegate {s s' : L} {st : SID} {a0 : AID} {o : OID} {x : Int} {n : Nat} {hash : String}
    (hi : RecInv s) (hf : FreshNonce s n) (hp : PendInv s)
    (h : undelegate s st a0 o x n hash = .ok s') : PendInv s' := by
  unfold undelegate at h
  simp only [bind, Except.bind, throw, throwThe, MonadExceptOf.throw] at h
  split at h
  · cases h
  · split at h
    · cases h
    · split at h
      · cases h
      · rename_i share hshare
        split at h
        · cases h
        · rename_i p1 h1
          obtain ⟨s1, removed⟩ := p1
          simp only [] at h
          have hstep := removeShare_fig h1
          simp only [if_true] at hstep
          have e1 : s1.recs = s.recs := hstep.2.2.2
          have hfresh : find? s1.recs (URec.mk st a0 o hash n s1.height (s1.height + s1.unbonding) removed removed).key = none := by
            rw [e1]; exact (hi.fresh_keys hf).1 _ rfl
          exact pendInv_setRecord (r := URec.mk st a0 o hash n s1.height (s1.height + s1.unbonding) removed removed) hp hstep hfresh h

end ExoVerif.Ledger

namespace ExoVerif.Ledger
open ExoVerif ExoVerif.KV

/-! ## EndBlock: completion takes the record's original amount off the three figures and deletes it;
    a held record is re-queued with the same amount -/

theorem creditStaker_fig {s s' : L} {r : URec} (h : creditStaker s r = .ok s') :
    (∀ st a, a ≠ nativeAID →
      stPend s' st a = stPend s st a + (if r.staker = st ∧ r.asset = a then -r.amount else 0)) ∧
    s'.pools = s.pools ∧ s'.deleg = s.deleg ∧ s'.recs = s.recs := by
  unfold creditStaker at h
  by_cases hn : r.asset = nativeAID
  · simp only [hn, if_true] at h
    split at h
    · cases h
    · injection h with h; subst h
      refine ⟨fun st a ha => ?_, rfl, rfl, rfl⟩
      have : ¬ (r.staker = st ∧ r.asset = a) := fun ⟨_, h2⟩ => ha (h2 ▸ hn)
      rw [if_neg this]
      show stPend s st a = stPend s st a + 0
      omega
  · simp only [hn, if_false] at h
    obtain ⟨f, e2, e3, e4⟩ := updStaker_fig h
    exact ⟨fun st a _ => f st a, e2, e3, e4⟩

/-- deleting a live record after its three figures shrank by its amount -/
theorem pendInv_deleteRecord {s s1 : L} {r : URec} (hp : PendInv s)
    (hstep : PendStep s s1 r.staker r.asset r.op (-r.amount))
    (hr : find? s1.recs r.key = some r) : PendInv (deleteRecord s1 r) := by
  obtain ⟨p1, p2, p3⟩ := (pendInv_def s).1 hp
  obtain ⟨q1, q2, q3, q4⟩ := hstep
  refine (pendInv_def _).2 ⟨fun st a ha => ?_, fun o a => ?_, fun st a o => ?_⟩
  · show stPend s1 st a = sumP (psAt st a) (erase s1.recs r.key)
    rw [sumP_erase, atP_of_find _ _ _ _ hr, q4, ← p1 st a ha, q1 st a ha]
    simp only [psAt]; split <;> omega
  · show poolPend s1 o a = sumP (ppAt o a) (erase s1.recs r.key)
    rw [sumP_erase, atP_of_find _ _ _ _ hr, q4, ← p2 o a, q2 o a]
    simp only [ppAt]; split <;> omega
  · show delWait s1 st a o = sumP (pdAt st a o) (erase s1.recs r.key)
    rw [sumP_erase, atP_of_find _ _ _ _ hr, q4, ← p3 st a o, q3 st a o]
    simp only [pdAt]; split <;> omega

theorem pendInv_completeRecord {s s' : L} {r : URec} (hp : PendInv s) (hr : Live s r)
    (h : completeRecord s r = .ok s') : PendInv s' := by
  unfold completeRecord at h
  simp only [bind, Except.bind, pure, Except.pure] at h
  split at h
  · cases h
  · rename_i p1 h1
    obtain ⟨s1, z⟩ := p1
    simp only [] at h
    split at h
    · cases h
    · rename_i s2 h2
      split at h
      · cases h
      · rename_i s3 h3
        injection h with h; subst h
        obtain ⟨f1, a1, a2, a3⟩ := updDeleg_fig h1
        obtain ⟨f2, b1, b2, b3⟩ := creditStaker_fig h2
        obtain ⟨f3, c1, c2, c3⟩ := updPool_fig h3
        have e : s3.recs = s.recs := by rw [c3, b3, a3]
        refine pendInv_deleteRecord hp ⟨fun st a ha => ?_, fun o a => ?_, fun st a o => ?_, e⟩ (by rw [e]; exact hr)
        · have : stPend s3 st a = stPend s2 st a := by unfold stPend; rw [c1]
          rw [this, f2 st a ha]
          have : stPend s1 st a = stPend s st a := by unfold stPend; rw [a1]
          rw [this]
        · rw [f3 o a]
          have : poolPend s2 o a = poolPend s1 o a := by unfold poolPend; rw [b1]
          rw [this]
          have : poolPend s1 o a = poolPend s o a := by unfold poolPend; rw [a2]
          rw [this]
        · have : delWait s3 st a o = delWait s2 st a o := by unfold delWait; rw [c2]
          rw [this]
          have : delWait s2 st a o = delWait s1 st a o := by unfold delWait; rw [b2]
          rw [this, f1 st a o]

/-- re-queueing a held record: delete + set under the same key with the same amount -/
theorem samePend_requeue {s s2 : L} {r : URec} {c : Nat} (hi : RecInv s) (hr : Live s r)
    (h : setRecord (deleteRecord s r) { r with completeBlock := c } = .ok s2) : SamePend s s2 := by
  unfold setRecord at h
  split at h
  · cases h
  · injection h with h; subst h
    have hk : ({ r with completeBlock := c } : URec).key = r.key := rfl
    have hnone : find? (erase s.recs r.key) r.key = none := find?_erase_same _ _ hi.ndR
    have hr' : find? s.recs r.key = some r := hr
    refine ⟨fun _ _ => rfl, fun _ _ => rfl, fun _ _ _ => rfl, fun st a => ?_, fun o a => ?_, fun st a o => ?_⟩
    · show sumP (psAt st a) (KV.set (erase s.recs r.key) r.key { r with completeBlock := c }) = _
      rw [sumP_set, atP_of_none _ _ _ hnone, sumP_erase, atP_of_find _ _ _ _ hr']
      simp only [psAt]; omega
    · show sumP (ppAt o a) (KV.set (erase s.recs r.key) r.key { r with completeBlock := c }) = _
      rw [sumP_set, atP_of_none _ _ _ hnone, sumP_erase, atP_of_find _ _ _ _ hr']
      simp only [ppAt]; omega
    · show sumP (pdAt st a o) (KV.set (erase s.recs r.key) r.key { r with completeBlock := c }) = _
      rw [sumP_set, atP_of_none _ _ _ hnone, sumP_erase, atP_of_find _ _ _ _ hr']
      simp only [pdAt]; omega

theorem pendInv_endBlockRecord {s : L} {r : URec} (hi : RecInv s) (hp : PendInv s) (hr : Live s r) :
    PendInv (endBlockRecord s r) := by
  unfold endBlockRecord
  split
  · simp only []
    split
    · rename_i s2 hset
      exact pendInv_of_same hp (samePend_requeue hi hr hset)
    · exact hp
  · split
    · rename_i s2 hc
      exact pendInv_completeRecord hp hr hc
    · exact hp

theorem pendInv_foldl_endBlockRecord (rs : List URec) (s : L) (hi : RecInv s) (hp : PendInv s)
    (hl : ∀ r ∈ rs, Live s r) (hd : rs.Pairwise (fun r1 r2 => r1.key ≠ r2.key)) :
    PendInv (rs.foldl endBlockRecord s) := by
  induction rs generalizing s with
  | nil => exact hp
  | cons r0 rest ih =>
    simp only [List.foldl_cons]
    have hr0 : Live s r0 := hl r0 (by simp)
    obtain ⟨_, i1, oth1, _⟩ := endBlockRecord_spec hi hr0
    have hd' := List.pairwise_cons.1 hd
    have hl' : ∀ r ∈ rest, Live (endBlockRecord s r0) r := by
      intro r hr
      have hne : r.key ≠ r0.key := fun e => (hd'.1 r hr) e.symm
      show find? (endBlockRecord s r0).recs r.key = some r
      rw [oth1 r.key hne]; exact hl r (by simp [hr])
    exact ih (endBlockRecord s r0) i1 (pendInv_endBlockRecord hi hp hr0) hl' hd'.2

theorem pendInv_endBlock {s : L} (hi : RecInv s) (hp : PendInv s) : PendInv (nextBlock (endBlock s)) := by
  obtain ⟨rs, hrs, hlive, hpair, _⟩ := pendingRecords_spec hi
  have : PendInv (endBlock s) := by
    unfold endBlock
    rw [hrs]
    simp only []
    exact pendInv_foldl_endBlockRecord rs s hi hp (fun r hr => (hlive r hr).1) hpair
  exact pendInv_of_same this (samePend_nextBlock _)

end ExoVerif.Ledger

namespace ExoVerif.Ledger
open ExoVerif ExoVerif.KV

/-! ## slashing: only `actual`, pool amounts and shares move; `amount`, `pending`, `wait` do not -/

theorem sumP_slashRecords (f : RecKey × URec → Int)
    (hf : ∀ k r x, f (k, { r with actual := x }) = f (k, r))
    (recs : List (RecKey × URec)) (o : OID) (inf : Nat) (p : Dec) :
    sumP f (slashRecords recs o inf p).1 = sumP f recs := by
  induction recs with
  | nil => rfl
  | cons e rest ih =>
    obtain ⟨k, r⟩ := e
    simp only [slashRecords]
    by_cases hc : k.op = o ∧ inf ≤ k.height
    · simp only [hc, and_self, if_true]
      obtain ⟨x, hx⟩ := slashFromUndelegation_fields r p
      simp only [sumP, hx, hf, ih]
    · simp only [hc, if_false]
      simp only [sumP, ih]

theorem getD_map_pending (m : List ((OID × AID) × Pool)) (g : (OID × AID) × Pool → (OID × AID) × Pool)
    (hk : ∀ e, (g e).1 = e.1) (hp : ∀ e, (g e).2.pending = e.2.pending) (k : OID × AID) :
    (getD (m.map g) k zeroPool).pending = (getD m k zeroPool).pending := by
  induction m with
  | nil => rfl
  | cons e rest ih =>
    have h1 := hk e
    have h2 := hp e
    simp only [List.map_cons]
    generalize g e = ge at h1 h2
    obtain ⟨k2, v2⟩ := ge
    obtain ⟨k', v⟩ := e
    simp only [] at h1 h2
    subst h1
    unfold getD at ih ⊢
    simp only [find?]
    by_cases hkk : k2 = k
    · simp only [hkk, if_true, Option.getD_some]; exact h2
    · simp only [hkk, if_false]; exact ih

theorem cutPool_pending (pl : Pool) (p : Dec) (hl : Bool) : (cutPool pl p hl).1.pending = pl.pending := by
  unfold cutPool
  simp only []
  split <;> rfl

theorem zeroShares_wait (d : List ((SID × AID × OID) × DelegRow)) (o : OID) (a : AID) (sts : List SID)
    (k : SID × AID × OID) :
    (getD (zeroShares d o a sts) k zeroDeleg).wait = (getD d k zeroDeleg).wait := by
  induction sts generalizing d with
  | nil => rfl
  | cons st rest ih =>
    show (getD (zeroShares (match find? d (st, a, o) with
        | some row => KV.set d (st, a, o) { row with share := Dec.zero }
        | none => d) o a rest) k zeroDeleg).wait = _
    rw [ih]
    cases hfd : find? d (st, a, o) with
    | none => rfl
    | some row =>
      simp only []
      by_cases hk : k = (st, a, o)
      · subst hk
        rw [getD_set_same]
        unfold getD; rw [hfd]; rfl
      · rw [getD_set_other _ _ _ _ _ hk]

theorem foldl_zeroShares_wait (cl : List ((OID × AID) × Pool)) (sl : List ((OID × AID) × List SID)) (o : OID)
    (d : List ((SID × AID × OID) × DelegRow)) (k : SID × AID × OID) :
    (getD (cl.foldl (fun d e => zeroShares d o e.1.2 (getD sl (o, e.1.2) [])) d) k zeroDeleg).wait
      = (getD d k zeroDeleg).wait := by
  induction cl generalizing d with
  | nil => rfl
  | cons e rest ih => simp only [List.foldl_cons]; rw [ih, zeroShares_wait]

theorem slashAssets_proj (s : L) (o : OID) (inf : Nat) (p : Dec) :
    (slashAssets s o inf p).stakers = s.stakers ∧
    (slashAssets s o inf p).pools = s.pools.map (fun e =>
      if e.1.1 = o then (e.1, (cutPool e.2 p (has s.slist e.1)).1) else e) ∧
    (slashAssets s o inf p).deleg =
      ((s.pools.filter (fun e => e.1.1 = o)).filter (fun e => clearsPool s o e.1.2 e.2 p)).foldl
        (fun d e => zeroShares d o e.1.2 (getD s.slist (o, e.1.2) [])) s.deleg ∧
    (slashAssets s o inf p).recs = (if inf < s.height then (slashRecords s.recs o inf p).1 else s.recs) := by
  unfold slashAssets
  by_cases hh : inf < s.height <;> simp [hh]

theorem samePend_slashAssets (s : L) (o : OID) (inf : Nat) (p : Dec) : SamePend s (slashAssets s o inf p) := by
  obtain ⟨e1, e2, e3, e4⟩ := slashAssets_proj s o inf p
  have hsum : ∀ f : RecKey × URec → Int, (∀ k r x, f (k, { r with actual := x }) = f (k, r)) →
      sumP f (slashAssets s o inf p).recs = sumP f s.recs := by
    intro f hf
    rw [e4]
    by_cases hh : inf < s.height
    · rw [if_pos hh]; exact sumP_slashRecords f hf _ _ _ _
    · rw [if_neg hh]
  refine ⟨fun st a => ?_, fun o' a => ?_, fun st a o' => ?_, fun st a => ?_, fun o' a => ?_, fun st a o' => ?_⟩
  · unfold stPend; rw [e1]
  · unfold poolPend; rw [e2]
    refine getD_map_pending _ _ (fun e => ?_) (fun e => ?_) _
    · split <;> rfl
    · split
      · exact cutPool_pending _ _ _
      · rfl
  · unfold delWait; rw [e3]; exact foldl_zeroShares_wait _ _ _ _ _
  · exact hsum _ (fun _ _ _ => rfl)
  · exact hsum _ (fun _ _ _ => rfl)
  · exact hsum _ (fun _ _ _ => rfl)

theorem pendInv_slashAssets {s : L} (o : OID) (inf : Nat) (p : Dec) (hp : PendInv s) :
    PendInv (slashAssets s o inf p) := pendInv_of_same hp (samePend_slashAssets s o inf p)

/-! ## a state without records whose figures are all zero -/

theorem getD_all {κ α : Type} [DecidableEq κ] (P : α → Prop) (m : List (κ × α)) (k : κ) (d : α) (hd : P d)
    (h : ∀ e ∈ m, P e.2) : P (getD m k d) := by
  unfold getD
  cases hf : find? m k with
  | none => exact hd
  | some v => exact h (k, v) (find?_mem m k v hf)

theorem pendInv_of_no_records {s : L} (hr : s.recs = []) (h1 : ∀ e ∈ s.stakers, e.2.pending = 0)
    (h2 : ∀ e ∈ s.pools, e.2.pending = 0) (h3 : ∀ e ∈ s.deleg, e.2.wait = 0) : PendInv s := by
  unfold PendInv
  rw [hr]
  refine ⟨fun st a _ => ?_, fun o a => ?_, fun st a o => ?_⟩
  · exact getD_all (fun r : StakerRow => r.pending = 0) _ _ _ rfl h1
  · exact getD_all (fun r : Pool => r.pending = 0) _ _ _ rfl h2
  · exact getD_all (fun r : DelegRow => r.wait = 0) _ _ _ rfl h3

theorem freshNonce_of_no_records {s : L} (hr : s.recs = []) (n : Nat) : FreshNonce s n := by
  intro k r h; rw [hr] at h; cases h

end ExoVerif.Ledger
