import ExoVerif.Proofs.LedgerReach
/-! Non-negativity of every figure of the ledger (last sentence of C01) as an invariant of every
    operation, and the frame of the published staking totals. -/
namespace ExoVerif.Ledger
open ExoVerif ExoVerif.KV ExoVerif.Dec

section kv
variable {κ α : Type} [DecidableEq κ]

theorem mem_set {m : List (κ × α)} {k : κ} {v : α} {e : κ × α} (h : e ∈ KV.set m k v) :
    e = (k, v) ∨ e ∈ m := by
  induction m with
  | nil => simp [KV.set] at h; exact Or.inl h
  | cons p rest ih =>
    obtain ⟨k', v'⟩ := p
    unfold KV.set at h
    split at h
    · rcases List.mem_cons.1 h with h | h
      · exact Or.inl h
      · exact Or.inr (List.mem_cons_of_mem _ h)
    · rcases List.mem_cons.1 h with h | h
      · exact Or.inr (h ▸ List.mem_cons_self ..)
      · rcases ih h with h | h
        · exact Or.inl h
        · exact Or.inr (List.mem_cons_of_mem _ h)

theorem mem_erase {m : List (κ × α)} {k : κ} {e : κ × α} (h : e ∈ KV.erase m k) : e ∈ m := by
  induction m with
  | nil => simp [KV.erase] at h
  | cons p rest ih =>
    obtain ⟨k', v'⟩ := p
    unfold KV.erase at h
    split at h
    · exact List.mem_cons_of_mem _ h
    · rcases List.mem_cons.1 h with h | h
      · exact h ▸ List.mem_cons_self ..
      · exact List.mem_cons_of_mem _ (ih h)

theorem all_set {P : κ × α → Prop} {m : List (κ × α)} {k : κ} {v : α} (h : ∀ e ∈ m, P e) (hv : P (k, v)) :
    ∀ e ∈ KV.set m k v, P e := by
  intro e he
  rcases mem_set he with h1 | h1
  · exact h1 ▸ hv
  · exact h e h1

theorem all_erase {P : κ × α → Prop} {m : List (κ × α)} {k : κ} (h : ∀ e ∈ m, P e) :
    ∀ e ∈ KV.erase m k, P e := fun e he => h e (mem_erase he)

theorem all_getD {Q : α → Prop} {m : List (κ × α)} (k : κ) {d : α} (h : ∀ e ∈ m, Q e.2) (hd : Q d) :
    Q (getD m k d) := by
  unfold getD
  cases hf : find? m k with
  | none => exact hd
  | some v => exact h (k, v) (find?_mem m k v hf)

end kv

def StP (r : StakerRow) : Prop := 0 ≤ r.total ∧ 0 ≤ r.withdrawable ∧ 0 ≤ r.pending
def PlP (p : Pool) : Prop := 0 ≤ p.amount ∧ 0 ≤ p.pending ∧ 0 ≤ p.totalShare.raw ∧ 0 ≤ p.opShare.raw
def DlP (d : DelegRow) : Prop := 0 ≤ d.share.raw ∧ 0 ≤ d.wait
def RcP (e : RecKey × URec) : Prop := 0 ≤ e.2.actual ∧ e.2.actual ≤ e.2.amount

/-- no individual balance, pool, share or pending figure is negative -/
structure NN (s : L) : Prop where
  st : ∀ e ∈ s.stakers, StP e.2
  pl : ∀ e ∈ s.pools, PlP e.2
  dl : ∀ e ∈ s.deleg, DlP e.2
  rc : RecsNonneg s.recs
  tt : ∀ e ∈ s.totals, 0 ≤ e.2
  bl : ∀ e ∈ s.bal, 0 ≤ e.2
  es : 0 ≤ s.escrow

theorem StP_zero : StP zeroStaker := by unfold StP zeroStaker; simp
theorem PlP_zero : PlP zeroPool := by unfold PlP zeroPool Dec.zero; simp
theorem DlP_zero : DlP zeroDeleg := by unfold DlP zeroDeleg Dec.zero; simp

/-! ## primitives -/

theorem updStaker_nn {s s' : L} {st : SID} {a : AID} {dT dW dP : Int} (hn : NN s)
    (h : updStaker s st a dT dW dP = .ok s') : NN s' ∧ s'.totals = s.totals := by
  have hr : StP (getD s.stakers (st, a) zeroStaker) := all_getD (Q := StP) _ hn.st StP_zero
  unfold updStaker at h
  simp only [bind, Except.bind] at h
  split at h
  · cases h
  · rename_i t ht
    split at h
    · cases h
    · rename_i w hw
      split at h
      · cases h
      · rename_i p hp
        simp only [pure, Except.pure] at h
        injection h with h; subst h
        refine ⟨⟨?_, hn.pl, hn.dl, hn.rc, hn.tt, hn.bl, hn.es⟩, rfl⟩
        exact all_set hn.st ⟨(upd_ok ht).2 hr.1, (upd_ok hw).2 hr.2.1, (upd_ok hp).2 hr.2.2⟩

theorem updPool_nn {s s' : L} {o : OID} {a : AID} {dA dP : Int} {dS dO : Dec} (hn : NN s)
    (h : updPool s o a dA dP dS dO = .ok s') : NN s' ∧ s'.totals = s.totals := by
  have hr : PlP (getD s.pools (o, a) zeroPool) := all_getD (Q := PlP) _ hn.pl PlP_zero
  unfold updPool at h
  simp only [bind, Except.bind] at h
  split at h
  · cases h
  · rename_i am ham
    split at h
    · cases h
    · rename_i pe hpe
      split at h
      · cases h
      · rename_i ts hts
        split at h
        · cases h
        · rename_i os hos
          simp only [pure, Except.pure] at h
          injection h with h; subst h
          refine ⟨⟨hn.st, ?_, hn.dl, hn.rc, hn.tt, hn.bl, hn.es⟩, rfl⟩
          exact all_set hn.pl ⟨(upd_ok ham).2 hr.1, (upd_ok hpe).2 hr.2.1, (updDec_ok hts).2 hr.2.2.1,
            (updDec_ok hos).2 hr.2.2.2⟩

theorem updDeleg_nn {s s' : L} {st : SID} {a : AID} {o : OID} {dS : Dec} {dW : Int} {z : Bool} (hn : NN s)
    (h : updDeleg s st a o dS dW = .ok (s', z)) : NN s' ∧ s'.totals = s.totals := by
  have hr : DlP (getD s.deleg (st, a, o) zeroDeleg) := all_getD (Q := DlP) _ hn.dl DlP_zero
  unfold updDeleg at h
  simp only [bind, Except.bind] at h
  split at h
  · cases h
  · rename_i w hw
    split at h
    · cases h
    · rename_i sh hsh
      simp only [pure, Except.pure] at h
      injection h with h
      injection h with h1 h2
      subst h1
      refine ⟨⟨hn.st, hn.pl, ?_, hn.rc, hn.tt, hn.bl, hn.es⟩, rfl⟩
      exact all_set hn.dl ⟨(updDec_ok hsh).2 hr.1, (upd_ok hw).2 hr.2⟩

theorem updTotal_nn {s s' : L} {a : AID} {d : Int} (hn : NN s) (h : updTotal s a d = .ok s') : NN s' := by
  unfold updTotal at h
  split at h
  · cases h
  · rename_i t ht
    simp only [bind, Except.bind] at h
    split at h
    · cases h
    · rename_i t' ht'
      simp only [pure, Except.pure] at h
      injection h with h; subst h
      refine ⟨hn.st, hn.pl, hn.dl, hn.rc, ?_, hn.bl, hn.es⟩
      exact all_set hn.tt ((upd_ok ht').2 (hn.tt (a, t) (find?_mem _ _ _ ht)))

theorem nn_congr_slist {s : L} (hn : NN s) (l : List ((OID × AID) × List SID)) : NN { s with slist := l } :=
  ⟨hn.st, hn.pl, hn.dl, hn.rc, hn.tt, hn.bl, hn.es⟩

theorem appendStaker_nn {s : L} (o : OID) (a : AID) (st : SID) (hn : NN s) :
    NN (appendStaker s o a st) ∧ (appendStaker s o a st).totals = s.totals := by
  unfold appendStaker
  simp only []
  split
  · exact ⟨hn, rfl⟩
  · exact ⟨nn_congr_slist hn _, rfl⟩

theorem deleteStaker_nn {s s' : L} {o : OID} {a : AID} {st : SID} (hn : NN s)
    (h : deleteStaker s o a st = .ok s') : NN s' ∧ s'.totals = s.totals := by
  unfold deleteStaker at h
  split at h
  · cases h
  · injection h with h; subst h; exact ⟨nn_congr_slist hn _, rfl⟩

/-! ## deposit / withdraw -/

theorem deposit_nn {s s' : L} {st : SID} {a : AID} {x : Int} (hn : NN s) (h : deposit s st a x = .ok s') :
    NN s' := by
  unfold deposit at h
  simp only [bind, Except.bind, pure, Except.pure, throw, throwThe, MonadExceptOf.throw] at h
  split at h
  · cases h
  · split at h
    · cases h
    · split at h
      · cases h
      · rename_i s1 h1
        split at h
        · cases h
        · rename_i s2 h2
          injection h with h; subst h
          have n2 := updTotal_nn (updStaker_nn hn h1).1 h2
          exact ⟨n2.st, n2.pl, n2.dl, n2.rc, n2.tt, n2.bl, n2.es⟩

theorem withdraw_nn {s s' : L} {st : SID} {a : AID} {x : Int} (hn : NN s) (h : withdraw s st a x = .ok s') :
    NN s' := by
  unfold withdraw at h
  simp only [bind, Except.bind, pure, Except.pure, throw, throwThe, MonadExceptOf.throw] at h
  split at h
  · cases h
  · split at h
    · cases h
    · split at h
      · cases h
      · rename_i s1 h1
        split at h
        · cases h
        · rename_i s2 h2
          injection h with h; subst h
          have n2 := updTotal_nn (updStaker_nn hn h1).1 h2
          exact ⟨n2.st, n2.pl, n2.dl, n2.rc, n2.tt, n2.bl, n2.es⟩

/-! ## delegate -/

theorem delegateCore_nn {s s' : L} {st : SID} {a : AID} {o : OID} {x : Int} (hn : NN s)
    (h : delegateCore s st a o x = .ok s') : NN s' ∧ s'.totals = s.totals := by
  unfold delegateCore at h
  simp only [bind, Except.bind, pure, Except.pure] at h
  split at h
  · cases h
  · rename_i share hshare
    split at h
    · cases h
    · rename_i s1 h1
      split at h
      · cases h
      · rename_i pr h2
        obtain ⟨s2, z⟩ := pr
        injection h with h; subst h
        obtain ⟨n1, t1⟩ := updPool_nn hn h1
        obtain ⟨n2, t2⟩ := updDeleg_nn n1 h2
        obtain ⟨n3, t3⟩ := appendStaker_nn o a st n2
        exact ⟨n3, by rw [t3, t2, t1]⟩

theorem delegate_nn {s s' : L} {st : SID} {a : AID} {o : OID} {x : Int} (hn : NN s)
    (h : delegate s st a o x = .ok s') : NN s' ∧ s'.totals = s.totals := by
  unfold delegate at h
  simp only [bind, Except.bind, pure, Except.pure, throw, throwThe, MonadExceptOf.throw] at h
  split at h
  · cases h
  · rename_i hx
    split at h
    · cases h
    · split at h
      · split at h
        · cases h
        · rename_i hb
          have hn0 : NN { s with bal := KV.set s.bal st (getD s.bal st 0 - x), escrow := s.escrow + x } := by
            refine ⟨hn.st, hn.pl, hn.dl, hn.rc, hn.tt, ?_, ?_⟩
            · exact all_set hn.bl (by simp only []; omega)
            · have := hn.es; simp only []; simp at hx; omega
          obtain ⟨n2, t2⟩ := delegateCore_nn hn0 h
          exact ⟨n2, t2⟩
      · split at h
        · cases h
        · split at h
          · cases h
          · split at h
            · cases h
            · rename_i s1 h1
              obtain ⟨n1, t1⟩ := updStaker_nn hn h1
              obtain ⟨n2, t2⟩ := delegateCore_nn n1 h
              exact ⟨n2, by rw [t2, t1]⟩

/-! ## undelegate -/

theorem tokensFromShares_nonneg {sh tot : Dec} {amt r : Int} (hsh : 0 < sh.raw) (hamt : 0 ≤ amt)
    (h : tokensFromShares sh tot amt = .ok r) : 0 ≤ r := by
  unfold tokensFromShares at h
  split at h
  · cases h
  · rename_i hle
    split at h
    · split at h
      · injection h with h; omega
      · cases h
    · injection h with h; subst h
      exact tok_nonneg sh tot amt (by omega) (by omega) hamt

theorem removeShareFromOperator_nn {s s' : L} {isU : Bool} {o : OID} {st : SID} {a : AID} {share : Dec}
    {removed : Int} (hn : NN s) (h : removeShareFromOperator s isU o st a share = .ok (s', removed)) :
    NN s' ∧ s'.totals = s.totals ∧ 0 ≤ removed := by
  unfold removeShareFromOperator at h
  simp only [bind, Except.bind, pure, Except.pure, throw, throwThe, MonadExceptOf.throw] at h
  split at h
  · cases h
  · rename_i hpos
    split at h
    · cases h
    · rename_i p hp
      have hpl : PlP p := hn.pl ((o, a), p) (find?_mem _ _ _ hp)
      split at h
      · cases h
      · split at h
        · cases h
        · rename_i rem hrem
          split at h
          · cases h
          · rename_i s1 h1
            injection h with h
            injection h with e1 e2
            subst e1; subst e2
            obtain ⟨n1, t1⟩ := updPool_nn hn h1
            refine ⟨n1, t1, ?_⟩
            split at hrem
            · injection hrem with hrem; rw [← hrem]; exact hpl.1
            · exact tokensFromShares_nonneg (by simpa using hpos) hpl.1 hrem

theorem pendStaker_nn {s s' : L} {isU : Bool} {st : SID} {a : AID} {removed : Int} (hn : NN s)
    (h : pendStaker s isU st a removed = .ok s') : NN s' ∧ s'.totals = s.totals := by
  unfold pendStaker at h
  split at h
  · exact updStaker_nn hn h
  · simp only [pure, Except.pure] at h; injection h with h; subst h; exact ⟨hn, rfl⟩

theorem removeShare_nn {s s' : L} {isU : Bool} {o : OID} {st : SID} {a : AID} {share : Dec}
    {removed : Int} (hn : NN s) (h : removeShare s isU o st a share = .ok (s', removed)) :
    NN s' ∧ s'.totals = s.totals ∧ 0 ≤ removed := by
  unfold removeShare at h
  simp only [bind, Except.bind, pure, Except.pure, throw, throwThe, MonadExceptOf.throw] at h
  split at h
  · cases h
  · split at h
    · cases h
    · rename_i pr h1
      obtain ⟨s1, rem⟩ := pr
      obtain ⟨n1, t1, r1⟩ := removeShareFromOperator_nn hn h1
      simp only [] at h
      split at h
      · cases h
      · rename_i s2 h2
        obtain ⟨n2, t2⟩ := pendStaker_nn n1 h2
        split at h
        · cases h
        · rename_i pr3 h3
          obtain ⟨s3, z⟩ := pr3
          obtain ⟨n3, t3⟩ := updDeleg_nn n2 h3
          simp only [] at h
          split at h
          · cases h
          · rename_i s4 h4
            injection h with h
            injection h with e1 e2
            subst e1; subst e2
            split at h4
            · obtain ⟨n4, t4⟩ := deleteStaker_nn n3 h4
              exact ⟨n4, by rw [t4, t3, t2, t1], r1⟩
            · injection h4 with h4; subst h4
              exact ⟨n3, by rw [t3, t2, t1], r1⟩

theorem setRecord_nn {s s' : L} {r : URec} (hn : NN s) (hr : 0 ≤ r.actual ∧ r.actual ≤ r.amount)
    (h : setRecord s r = .ok s') : NN s' ∧ s'.totals = s.totals := by
  unfold setRecord at h
  split at h
  · cases h
  · injection h with h; subst h
    exact ⟨⟨hn.st, hn.pl, hn.dl, all_set (P := RcP) hn.rc hr,
      hn.tt, hn.bl, hn.es⟩, rfl⟩

theorem undelegate_nn {s s' : L} {st : SID} {a : AID} {o : OID} {x : Int} {n : Nat} {hash : String}
    (hn : NN s) (h : undelegate s st a o x n hash = .ok s') : NN s' ∧ s'.totals = s.totals := by
  unfold undelegate at h
  simp only [bind, Except.bind, pure, Except.pure, throw, throwThe, MonadExceptOf.throw] at h
  split at h
  · cases h
  · split at h
    · cases h
    · split at h
      · cases h
      · rename_i share hshare
        split at h
        · cases h
        · rename_i pr h1
          obtain ⟨s1, removed⟩ := pr
          obtain ⟨n1, t1, r1⟩ := removeShare_nn hn h1
          simp only [] at h
          obtain ⟨n2, t2⟩ := setRecord_nn n1 (by simp only []; omega) h
          exact ⟨n2, by rw [t2, t1]⟩

/-! ## completion -/

theorem deleteRecord_nn {s : L} (r : URec) (hn : NN s) :
    NN (deleteRecord s r) ∧ (deleteRecord s r).totals = s.totals := by
  unfold deleteRecord
  exact ⟨⟨hn.st, hn.pl, hn.dl, all_erase (P := RcP) hn.rc,
    hn.tt, hn.bl, hn.es⟩, rfl⟩

theorem creditStaker_nn {s s' : L} {r : URec} (hn : NN s) (hr : 0 ≤ r.actual)
    (h : creditStaker s r = .ok s') : NN s' ∧ s'.totals = s.totals := by
  unfold creditStaker at h
  split at h
  · split at h
    · cases h
    · rename_i he
      injection h with h; subst h
      refine ⟨⟨hn.st, hn.pl, hn.dl, hn.rc, hn.tt, ?_, ?_⟩, rfl⟩
      · refine all_set hn.bl ?_
        have : 0 ≤ getD s.bal r.staker 0 := all_getD (Q := fun v => 0 ≤ v) _ hn.bl (le_refl _)
        simp only []; omega
      · simp only []; omega
  · exact updStaker_nn hn h

theorem completeRecord_nn {s s' : L} {r : URec} (hn : NN s) (hr : 0 ≤ r.actual)
    (h : completeRecord s r = .ok s') : NN s' ∧ s'.totals = s.totals := by
  unfold completeRecord at h
  simp only [bind, Except.bind, pure, Except.pure] at h
  split at h
  · cases h
  · rename_i pr h1
    obtain ⟨s1, z⟩ := pr
    obtain ⟨n1, t1⟩ := updDeleg_nn hn h1
    simp only [] at h
    split at h
    · cases h
    · rename_i s2 h2
      obtain ⟨n2, t2⟩ := creditStaker_nn n1 hr h2
      split at h
      · cases h
      · rename_i s3 h3
        obtain ⟨n3, t3⟩ := updPool_nn n2 h3
        injection h with h; subst h
        obtain ⟨n4, t4⟩ := deleteRecord_nn r n3
        exact ⟨n4, by rw [t4, t3, t2, t1]⟩

theorem endBlockRecord_nn {s : L} {r : URec} (hn : NN s) (hr : 0 ≤ r.actual ∧ r.actual ≤ r.amount) :
    NN (endBlockRecord s r) ∧ (endBlockRecord s r).totals = s.totals := by
  unfold endBlockRecord
  split
  · simp only []
    split
    · rename_i s2 h2
      obtain ⟨n1, t1⟩ := deleteRecord_nn r hn
      obtain ⟨n2, t2⟩ := setRecord_nn n1 (r := { r with completeBlock := s.height + 1 }) hr h2
      exact ⟨n2, by rw [t2, t1]⟩
    · exact ⟨hn, rfl⟩
  · split
    · rename_i s' h
      exact completeRecord_nn hn hr.1 h
    · exact ⟨hn, rfl⟩

theorem foldl_endBlockRecord_nn (rs : List URec) {s : L} (hn : NN s)
    (hr : ∀ r ∈ rs, 0 ≤ r.actual ∧ r.actual ≤ r.amount) :
    NN (rs.foldl endBlockRecord s) ∧ (rs.foldl endBlockRecord s).totals = s.totals := by
  induction rs generalizing s with
  | nil => exact ⟨hn, rfl⟩
  | cons r rest ih =>
    simp only [List.foldl_cons]
    obtain ⟨n1, t1⟩ := endBlockRecord_nn hn (hr r (by simp))
    obtain ⟨n2, t2⟩ := ih n1 (fun r' h' => hr r' (by simp [h']))
    exact ⟨n2, by rw [t2, t1]⟩

theorem lookupAll_mem (recs : List (RecKey × URec)) (ks : List RecKey) (rs : List URec)
    (h : lookupAll recs ks = some rs) : ∀ r ∈ rs, ∃ k, find? recs k = some r := by
  induction ks generalizing rs with
  | nil => simp [lookupAll] at h; subst h; intro r hr; cases hr
  | cons k rest ih =>
    unfold lookupAll at h
    split at h
    · rename_i r0 rs0 h1 h2
      injection h with h; subst h
      intro r hr
      rcases List.mem_cons.1 hr with e | e
      · exact ⟨k, e ▸ h1⟩
      · exact ih rs0 h2 r e
    · cases h

theorem endBlock_nn {s : L} (hn : NN s) :
    NN (nextBlock (endBlock s)) ∧ (nextBlock (endBlock s)).totals = s.totals := by
  have key : NN (endBlock s) ∧ (endBlock s).totals = s.totals := by
    unfold endBlock
    split
    · exact ⟨hn, rfl⟩
    · rename_i rs hrs
      refine foldl_endBlockRecord_nn rs hn ?_
      intro r hr
      obtain ⟨k, hk⟩ := lookupAll_mem _ _ _ hrs r hr
      exact hn.rc (k, r) (find?_mem _ _ _ hk)
  obtain ⟨n1, t1⟩ := key
  exact ⟨⟨n1.st, n1.pl, n1.dl, n1.rc, n1.tt, n1.bl, n1.es⟩, t1⟩

/-! ## association -/

theorem foldlM_opShare_nn (es : List ((SID × AID × OID) × DelegRow)) (o : OID) (f : DelegRow → Dec)
    {s s' : L} (hn : NN s) (h : es.foldlM (fun s e => updPool s o e.1.2.1 0 0 Dec.zero (f e.2)) s = .ok s') :
    NN s' ∧ s'.totals = s.totals := by
  induction es generalizing s with
  | nil => simp only [List.foldlM, pure, Except.pure] at h; injection h with h; subst h; exact ⟨hn, rfl⟩
  | cons e rest ih =>
    simp only [List.foldlM, bind, Except.bind] at h
    split at h
    · cases h
    · rename_i s1 h1
      obtain ⟨n1, t1⟩ := updPool_nn hn h1
      obtain ⟨n2, t2⟩ := ih n1 h
      exact ⟨n2, by rw [t2, t1]⟩

theorem associate_nn {s s' : L} {st : SID} {o : OID} (hn : NN s) (h : associate s st o = .ok s') :
    NN s' ∧ s'.totals = s.totals := by
  unfold associate at h
  simp only [bind, Except.bind, pure, Except.pure, throw, throwThe, MonadExceptOf.throw] at h
  split at h
  · cases h
  · split at h
    · cases h
    · split at h
      · cases h
      · split at h
        · cases h
        · rename_i s1 h1
          injection h with h; subst h
          obtain ⟨n1, t1⟩ := foldlM_opShare_nn _ o (fun r => r.share) hn h1
          exact ⟨⟨n1.st, n1.pl, n1.dl, n1.rc, n1.tt, n1.bl, n1.es⟩, t1⟩

theorem dissociate_nn {s s' : L} {st : SID} (hn : NN s) (h : dissociate s st = .ok s') :
    NN s' ∧ s'.totals = s.totals := by
  unfold dissociate at h
  simp only [bind, Except.bind, pure, Except.pure, throw, throwThe, MonadExceptOf.throw] at h
  split at h
  · cases h
  · rename_i o ho
    split at h
    · cases h
    · rename_i s1 h1
      injection h with h; subst h
      obtain ⟨n1, t1⟩ := foldlM_opShare_nn _ o (fun r => r.share.neg) hn h1
      exact ⟨⟨n1.st, n1.pl, n1.dl, n1.rc, n1.tt, n1.bl, n1.es⟩, t1⟩

/-! ## slash -/

theorem slashRecords_nn (recs : List (RecKey × URec)) (o : OID) (inf : Nat) (p : Dec) (hp : UnitP p)
    (hn : RecsNonneg recs) : RecsNonneg (slashRecords recs o inf p).1 := by
  induction recs with
  | nil => intro e he; simp [slashRecords] at he
  | cons e rest ih =>
    obtain ⟨k, r⟩ := e
    have hr := hn (k, r) (by simp)
    have ih' := ih (fun e' he' => hn e' (by simp [he']))
    unfold slashRecords
    simp only []
    split
    · obtain ⟨_, c2, c3, c4⟩ := slashFromUndelegation_spec r p hp (by have := hr.1; have := hr.2; simp only [] at *; omega) hr.1
      intro e' he'
      rcases List.mem_cons.1 he' with h | h
      · subst h; simp only [c2]; simp only [] at hr; omega
      · exact ih' e' h
    · intro e' he'
      rcases List.mem_cons.1 he' with h | h
      · subst h; exact hr
      · exact ih' e' h

theorem cutPool_PlP (pl : Pool) (p : Dec) (hl : Bool) (hp : UnitP p) (h : PlP pl) : PlP (cutPool pl p hl).1 := by
  obtain ⟨c1, c2, c3, c4, c5⟩ := cutPool_spec pl p hl hp h.1
  refine ⟨by rw [c2]; omega, by rw [c5]; exact h.2.1, ?_, ?_⟩
  · unfold cutPool; simp only []; split
    · simp [Dec.zero]
    · exact h.2.2.1
  · unfold cutPool; simp only []; split
    · simp [Dec.zero]
    · exact h.2.2.2

theorem zeroShares_all (sts : List SID) (o : OID) (a : AID) (d : List ((SID × AID × OID) × DelegRow))
    (h : ∀ e ∈ d, DlP e.2) : ∀ e ∈ zeroShares d o a sts, DlP e.2 := by
  unfold zeroShares
  induction sts generalizing d with
  | nil => exact h
  | cons st rest ih =>
    simp only [List.foldl_cons]
    apply ih
    split
    · rename_i row hrow
      have hrw : DlP row := h ((st, a, o), row) (find?_mem _ _ _ hrow)
      exact all_set (P := fun e => DlP e.2) h ⟨by simp [Dec.zero], hrw.2⟩
    · exact h

theorem slashAssets_nn (s : L) (o : OID) (inf : Nat) (p : Dec) (hp : UnitP p) (hn : NN s) :
    NN (slashAssets s o inf p) ∧ (slashAssets s o inf p).totals = s.totals := by
  unfold slashAssets
  simp only []
  refine ⟨⟨hn.st, ?_, ?_, ?_, hn.tt, hn.bl, hn.es⟩, trivial⟩
  · intro e he
    obtain ⟨e0, he0, rfl⟩ := List.mem_map.1 he
    split
    · exact cutPool_PlP _ _ _ hp (hn.pl e0 he0)
    · exact hn.pl e0 he0
  · generalize (List.filter (fun e => clearsPool s o e.1.2 e.2 p) (List.filter (fun e => decide (e.1.1 = o)) s.pools)) = cl
    have : ∀ (d : List ((SID × AID × OID) × DelegRow)), (∀ e ∈ d, DlP e.2) →
        ∀ e ∈ cl.foldl (fun d e => zeroShares d o e.1.2 (getD s.slist (o, e.1.2) [])) d, DlP e.2 := by
      induction cl with
      | nil => intro d hd; exact hd
      | cons c rest ih =>
        intro d hd
        simp only [List.foldl_cons]
        exact ih _ (zeroShares_all _ o c.1.2 d hd)
    exact this s.deleg hn.dl
  · split
    · exact slashRecords_nn s.recs o inf p hp hn.rc
    · exact hn.rc

end ExoVerif.Ledger
