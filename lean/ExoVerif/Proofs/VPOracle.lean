import ExoVerif.Proofs.VotingPower
import ExoVerif.Model.VPOracle
/-
  Helper lemmas for Props/C05Binding.lean: `strings.Split` on commas never returns an empty list, the
  accumulator-free form of `List.intercalate`, the loop of GetTokenIDFromAssetID for an arbitrary test
  (`tokenIdFromWith`): what it returns, that it returns the first hit, that it returns 0 without a hit.
-/
namespace ExoVerif.VP
open ExoVerif ExoVerif.KV

theorem splitChars_ne_nil (cs : List Char) : splitChars cs ≠ [] := by
  cases cs with
  | nil => simp [splitChars]
  | cons c rest =>
    simp only [splitChars]
    split
    · simp
    · split <;> simp


theorem intercalate_cons_cons (sep x y : List Char) (zs : List (List Char)) :
    sep.intercalate (x :: y :: zs) = x ++ sep ++ sep.intercalate (y :: zs) := by
  simp [List.intercalate, List.intersperse]


theorem listsAsset_iff (t a : String) : listsAsset t a = true ↔ a ∈ assetList t := by
  simp [listsAsset]

theorem tokenIdFromWith_spec (listed : String → String → Bool) (a : String) (tokens : List String) (i t : Nat)
    (h : tokenIdFromWith listed a i tokens = t) (ht : t ≠ 0) :
    i ≤ t ∧ (∃ s, tokens[t - i]? = some s ∧ listed s a = true) ∧
      ∀ j s', j < t - i → tokens[j]? = some s' → listed s' a = false := by
  induction tokens generalizing i with
  | nil => simp [tokenIdFromWith] at h; exact absurd h.symm ht
  | cons s rest ih =>
    simp only [tokenIdFromWith] at h
    split at h
    · rename_i hl
      subst h
      refine ⟨Nat.le_refl _, ⟨s, by simp, hl⟩, ?_⟩
      intro j s' hj; omega
    · rename_i hl
      obtain ⟨h1, ⟨s1, hs1, hl1⟩, h3⟩ := ih (i + 1) h
      have e : t - i = (t - (i + 1)) + 1 := by omega
      refine ⟨by omega, ⟨s1, by rw [e, List.getElem?_cons_succ]; exact hs1, hl1⟩, ?_⟩
      intro j s' hj hs'
      cases j with
      | zero =>
        simp at hs'; subst hs'
        cases hb : listed s a <;> simp_all
      | succ j =>
        rw [List.getElem?_cons_succ] at hs'
        exact h3 j s' (by omega) hs'

theorem tokenIdFromWith_first (listed : String → String → Bool) (a : String) (tokens : List String) (i k : Nat) (s : String)
    (hs : tokens[k]? = some s) (hl : listed s a = true)
    (hfirst : ∀ j s', j < k → tokens[j]? = some s' → listed s' a = false) :
    tokenIdFromWith listed a i tokens = i + k := by
  induction tokens generalizing i k with
  | nil => simp at hs
  | cons s0 rest ih =>
    cases k with
    | zero =>
      simp at hs; subst hs
      simp [tokenIdFromWith, hl]
    | succ k =>
      have h0 := hfirst 0 s0 (by omega) (by simp)
      rw [List.getElem?_cons_succ] at hs
      simp only [tokenIdFromWith, h0]
      rw [ih (i + 1) k hs (fun j s' hj hs' => hfirst (j + 1) s' (by omega) (by rw [List.getElem?_cons_succ]; exact hs'))]
      simp; omega

theorem tokenIdFromWith_none (listed : String → String → Bool) (a : String) (tokens : List String) (i : Nat)
    (h : ∀ s ∈ tokens, listed s a = false) : tokenIdFromWith listed a i tokens = 0 := by
  induction tokens generalizing i with
  | nil => rfl
  | cons s rest ih =>
    simp only [tokenIdFromWith, h s (by simp)]
    exact ih (i + 1) (fun x hx => h x (by simp [hx]))


theorem resolveCfgs_none_of_mem (o : OracleSt) (assets : List (String × Int)) (a : String) (d : Int)
    (hm : (a, d) ∈ assets) (hp : assetPrice o a = none) : resolveCfgs o assets = none := by
  induction assets with
  | nil => simp at hm
  | cons p rest ih =>
    obtain ⟨a0, d0⟩ := p
    rcases List.mem_cons.mp hm with h | h
    · injection h with h1 h2; subst h1
      simp [resolveCfgs, hp]
    · have := ih h
      simp only [resolveCfgs, this]
      split <;> simp_all


end ExoVerif.VP
