import ExoVerif.Proofs.AtomicValues
import ExoVerif.Model.AtomicUndelegate
/-!
Helper lemmas for `Props/C09Undelegate.lean`.

1. A second refinement of the shape theorem.  `exec_fail_rel` lets a late check be infallible "in every
   state related to the entry state by a relation the writes preserve"; that is not enough when a late check
   reads what an *earlier write of the same run* has changed (UpdateDelegationState subtracts the share from
   the delegation row: it passes on the row as it is when the check is reached, not on the row its own write
   leaves).  `lateOkFrom` is the pointwise form: the late checks pass *along the run*, in the states the run
   is actually in when it reaches them.
2. The value lemmas of undelegate: what the guards establish on the entry state, the frame of every write, and
   that the seven late checks pass in the states they are reached in.
-/
namespace ExoVerif.Atomic

/-- the checks of `inf` pass along the run of `p` from `cur` (a check outside `inf` is followed only on its
passing branch; `inf` checks have to pass where the run reaches them) -/
def lateOkFrom {σ : Type} (I : Impl σ) (s0 : σ) (inf : List String) : Prog → σ → Prop
  | [], _ => True
  | .check n :: k, c => (n ∈ inf → I.chk n s0 c = none) ∧ (I.chk n s0 c = none → lateOkFrom I s0 inf k c)
  | .write n :: k, c => lateOkFrom I s0 inf k (I.wr n s0 c)
  | .call n :: k, c => lateOkFrom I s0 inf k (I.eff n s0 c).2
  | .openC :: k, c => lateOkFrom I s0 inf k c
  | .closeC :: k, c => lateOkFrom I s0 inf k c

/-- `exec_fail_gen` with the late checks passing along the run instead of in every state -/
theorem exec_fail_path {σ : Type} (I : Impl σ) (inf : List String) (s0 : σ) :
    ∀ (p : Prog) (cur : σ) (snap : Option σ) (d : Nat) (dirty pend : Bool),
      shapeOK inf p dirty pend d = true → lateOkFrom I s0 inf p cur →
      (d = 0 → snap = none) → (d ≠ 0 → snap.isSome = true) →
      (dirty = false → snap.getD cur = s0 ∧ (pend = false → cur = s0)) →
      ∀ e, (exec I s0 p cur snap d).1 = .error e → (exec I s0 p cur snap d).2 = s0 := by
  intro p
  induction p with
  | nil => intro cur snap d dirty pend _ _ _ _ _ e h; simp [exec] at h
  | cons st k ih =>
    intro cur snap d dirty pend hs hl h0 h1 hinv e h
    cases st with
    | check n =>
      simp only [shapeOK, Bool.and_eq_true, Bool.or_eq_true] at hs
      obtain ⟨hn, hk⟩ := hs
      simp only [lateOkFrom] at hl
      unfold exec at h ⊢
      cases hc : I.chk n s0 cur with
      | none =>
        simp only [hc] at h ⊢
        exact ih cur snap d dirty pend hk (hl.2 hc) h0 h1 hinv e h
      | some e' =>
        simp only []
        rcases hn with hn | hn
        · have hm : n ∈ inf := by simpa using hn
          rw [hl.1 hm] at hc; cases hc
        · have hd : dirty = false := by simpa using hn
          exact (hinv hd).1
    | write n =>
      simp only [lateOkFrom] at hl
      unfold exec at h ⊢
      by_cases hd0 : d = 0
      · simp only [shapeOK, hd0, if_true] at hs
        subst hd0
        exact ih _ snap 0 true pend hs hl h0 h1 (by intro hh; cases hh) e h
      · simp only [shapeOK, hd0, if_false] at hs
        refine ih _ snap d dirty true hs hl h0 h1 ?_ e h
        intro hd
        have hsome := h1 hd0
        cases snap with
        | none => simp at hsome
        | some x =>
          have := (hinv hd).1
          simp only [Option.getD_some] at this ⊢
          exact ⟨this, by intro hh; cases hh⟩
    | call n =>
      simp only [shapeOK, Bool.and_eq_true, bne_iff_ne, ne_eq, Bool.not_eq_true'] at hs
      obtain ⟨⟨hd0, hdirty⟩, hk⟩ := hs
      simp only [lateOkFrom] at hl
      have hsome := h1 hd0
      unfold exec at h ⊢
      cases snap with
      | none => simp at hsome
      | some x =>
        have hx : x = s0 := by have := (hinv hdirty).1; simpa using this
        cases hc : I.eff n s0 cur with
        | mk r c' =>
          rw [hc] at hl
          cases r with
          | ok u =>
            simp only [hc] at h ⊢
            refine ih c' (some x) d dirty true hk hl h0 h1 ?_ e h
            intro _
            exact ⟨by simpa using hx, by intro hh; cases hh⟩
          | error e' =>
            simp only []
            simpa using hx
    | openC =>
      simp only [shapeOK] at hs
      simp only [lateOkFrom] at hl
      unfold exec at h ⊢
      refine ih cur _ (d + 1) dirty pend hs hl (by intro hh; omega) ?_ ?_ e h
      · intro _; cases snap <;> rfl
      · intro hd
        have := hinv hd
        cases snap with
        | none => simpa using this
        | some x => simpa using this
    | closeC =>
      simp only [lateOkFrom] at hl
      unfold exec at h ⊢
      by_cases hd1 : d ≤ 1
      · simp only [shapeOK, hd1, if_true] at hs h ⊢
        have hz : d - 1 = 0 := by omega
        rw [hz] at hs h ⊢
        refine ih cur none 0 (dirty || pend) false hs hl (by intro _; rfl) (by intro hh; exact absurd rfl hh) ?_ e h
        intro hdp
        have hd : dirty = false := by cases dirty <;> simp_all
        have hp : pend = false := by cases pend <;> simp_all
        have := (hinv hd).2 hp
        exact ⟨by simpa using this, fun _ => this⟩
      · simp only [shapeOK, hd1, if_false] at hs h ⊢
        have hne : d ≠ 0 := by omega
        refine ih cur snap (d - 1) dirty pend hs hl (by intro hh; omega) (by intro _; exact h1 hne) hinv e h

/-- **The guarded shape theorem, pathwise.**  A program = leading checks `pre` followed by `rest`.  If, once
the guards have passed on the entry state, the checks of `inf` pass along the run of `rest` from the entry
state, and `rest` has the check/write shape relative to `inf`, a failing run returns the entry state. -/
theorem run_fail_atomic_guarded_path {σ : Type} (I : Impl σ) (inf pre : List String) (rest : Prog) (s : σ)
    (H : (∀ g, g ∈ pre → I.chk g s s = none) → lateOkFrom I s inf rest s)
    (hs : shapeOK inf rest false false 0 = true)
    (e : Err) (h : (run I (pre.map Step.check ++ rest) s).1 = .error e) :
    (run I (pre.map Step.check ++ rest) s).2 = s := by
  unfold run at h ⊢
  rcases exec_guards I s rest pre with ⟨hall, heq⟩ | ⟨e', he'⟩
  · rw [heq] at h ⊢
    exact exec_fail_path I inf s rest s none 0 false false hs (H hall) (fun _ => rfl)
      (fun hh => absurd rfl hh) (fun _ => ⟨rfl, fun _ => rfl⟩) e h
  · rw [he']

end ExoVerif.Atomic

namespace ExoVerif.AtomicValues
open ExoVerif ExoVerif.KV ExoVerif.Atomic

namespace Undelegate
open ExoVerif.Ledger

/-- the fifteen checks of `precompileUndelegate` that stand before its first write (the `Set` that ends
UpdateOperatorAssetState inside RemoveShareFromOperator) -/
def guards : List String :=
  ["CheckExocoreGatewayAddr", "GetDelegationParamsFromInputs", "ctx.Value(TxHash)", "OpAmount.IsPositive", "IsOperator",
   "ValidateUndelegationAmount", "share.IsPositive", "GetOperatorSpecifiedAssetInfo", "share.GT(TotalShare)",
   "TokensFromShares", "GetAssociatedOperator", "UpdateAssetValue(operator.TotalAmount)",
   "UpdateAssetValue(operator.PendingUndelegationAmount)", "UpdateAssetDecValue(TotalShare)",
   "UpdateAssetDecValue(OperatorShare)"]

/-- … and what follows: the first write and every later step -/
def rest : Prog :=
  [.write "Set(operatorAsset)"] ++ updateStakerAssetState ++
  [.check "UpdateDelegationState", .write "Set(delegationState)", .check "DeleteStakerForOperator",
   .write "Set(stakersByOperator)", .check "SetUndelegationRecords", .write "Set(undelegationRecord)",
   .write "AppendUndelegationToMature|SetUndelegationMaturityEpoch", .check "IncrementUndelegationHoldCount",
   .write "Set(undelegationOnHold)"]

/-- the checks that stand after a visible write -/
def late : List String :=
  ["UpdateAssetValue(TotalDepositAmount)", "UpdateAssetValue(WithdrawableAmount)",
   "UpdateAssetValue(PendingUndelegationAmount)", "UpdateDelegationState", "DeleteStakerForOperator",
   "SetUndelegationRecords", "IncrementUndelegationHoldCount"]

theorem prog_split : precompileUndelegate = guards.map Step.check ++ rest := by decide

/-- what the late checks need of the entry state -/
structure Good (r : Req) (s : L) : Prop where
  /-- the pool row holds no negative amount (`NN`) -/
  amt : 0 ≤ (plRow r s).amount
  /-- a delegator with a non-zero share is on the operator's staker list, so the list key exists (`ListSup`) -/
  list : (dlRow r s).share.raw ≠ 0 → (find? s.slist (r.o, r.a)).isSome = true
  /-- the hold count of the record key is below MaxUint64 -/
  hold : r.hooked = true → getD s.holds (recKey r s) 0 < maxHold
  /-- the SDK's bech32 codec decodes the canonical rendering of an address it decoded -/
  codec : r.parseOk = true → r.opCanonValid = true

/-! ### what each write leaves alone -/

theorem wr_opAsset (r : Req) (s c : L) : ∃ p', wr r "Set(operatorAsset)" s c = { c with pools := p' } := by
  simp (config := { decide := true }) only [wr, if_true, if_false]
  cases hu : updPool c r.o r.a (-(removed r s)) (removed r s) (share r s).neg (dOp r s) with
  | error _ => exact ⟨c.pools, rfl⟩
  | ok c' =>
    obtain ⟨pl, _, _, _, _, he⟩ := updPool_row hu
    exact ⟨_, he⟩

theorem updStaker_eq {c c' : L} {st : SID} {a : AID} {dT dW dP : Int} (h : updStaker c st a dT dW dP = .ok c') :
    ∃ row, c' = { c with stakers := KV.set c.stakers (st, a) row } := by
  unfold updStaker at h
  simp only [bind, Except.bind, pure, Except.pure] at h
  split at h
  · cases h
  · split at h
    · cases h
    · split at h
      · cases h
      · injection h with h; exact ⟨_, h.symm⟩

theorem wr_stAsset (r : Req) (s c : L) : ∃ p', wr r "Set(stakerAsset)" s c = { c with stakers := p' } := by
  simp (config := { decide := true }) only [wr, if_true, if_false]
  unfold pendStaker
  split
  · cases hu : updStaker c r.st r.a 0 0 (removed r s) with
    | error _ => exact ⟨c.stakers, rfl⟩
    | ok c' =>
      obtain ⟨row, he⟩ := updStaker_eq hu
      exact ⟨_, he⟩
  · exact ⟨c.stakers, rfl⟩

theorem wr_deleg (r : Req) (s c : L) : ∃ p', wr r "Set(delegationState)" s c = { c with deleg := p' } := by
  simp (config := { decide := true }) only [wr, if_true, if_false]
  cases hu : updDeleg c r.st r.a r.o (share r s).neg (removed r s) with
  | error _ => exact ⟨c.deleg, rfl⟩
  | ok p =>
    obtain ⟨c', z⟩ := p
    obtain ⟨row, _, _, _, he⟩ := updDeleg_row hu
    exact ⟨_, he⟩

theorem wr_slist (r : Req) (s c : L) : ∃ p', wr r "Set(stakersByOperator)" s c = { c with slist := p' } := by
  simp (config := { decide := true }) only [wr, if_true, if_false]
  split
  · cases hu : deleteStaker c r.o r.a r.st with
    | error _ => exact ⟨c.slist, rfl⟩
    | ok c' => exact ⟨_, deleteStaker_spec hu⟩
  · exact ⟨c.slist, rfl⟩

theorem wr_record (r : Req) (s c : L) :
    ∃ a b d, wr r "Set(undelegationRecord)" s c = { c with recs := a, sidx := b, pidx := d } := by
  simp (config := { decide := true }) only [wr, if_true, if_false]
  unfold setRecord
  split
  · exact ⟨c.recs, c.sidx, c.pidx, rfl⟩
  · exact ⟨_, _, _, rfl⟩

theorem wr_dogfood (r : Req) (s c : L) :
    wr r "AppendUndelegationToMature|SetUndelegationMaturityEpoch" s c = c := by
  simp (config := { decide := true }) only [wr, if_false]

/-- ValidateUndelegationAmount returns a share the delegation row covers -/
theorem validate_spec {s : L} {o : OID} {st : SID} {a : AID} {x : Int} {sh : Dec}
    (h : validateUndelegationAmount s o st a x = .ok sh) :
    ∃ d, find? s.deleg (st, a, o) = some d ∧ sh.raw ≤ d.share.raw := by
  unfold validateUndelegationAmount at h
  simp only [bind, Except.bind, pure, Except.pure, throw, throwThe, MonadExceptOf.throw] at h
  split at h
  · cases h
  · split at h
    · cases h
    · rename_i d hd
      split at h
      · cases h
      · rename_i p hp
        split at h
        · cases h
        · rename_i share hsh
          split at h
          · cases h
          · rename_i hle
            split at h
            · cases h
            · rename_i tol htol
              split at h
              · injection h with h; exact ⟨d, hd, by rw [← h]⟩
              · injection h with h; exact ⟨d, hd, by rw [← h]; omega⟩


/-- the tokens a positive share is worth in a pool without a negative amount are not negative -/
theorem removed_nonneg (r : Req) (s : L) (ha : 0 ≤ (plRow r s).amount) (hpos : 0 < (share r s).raw)
    {rm : Int} (h : removedE r s s = .ok rm) : 0 ≤ rm := by
  unfold removedE at h
  split at h
  · injection h with h; omega
  · exact tokensFromShares_nonneg hpos ha h

theorem upd_nonneg_ok (v d : Int) (hd : 0 ≤ d) : upd v d = .ok (v + d) := by
  unfold upd; have : ¬ (d < 0 ∧ v < -d) := by omega
  simp only [this, if_false]

/-! ### the late checks, each in a state that has what it needs -/

theorem chk_staker (r : Req) (s c : L) (h0 : 0 ≤ removed r s) :
    chk r "UpdateAssetValue(TotalDepositAmount)" s c = none ∧
    chk r "UpdateAssetValue(WithdrawableAmount)" s c = none ∧
    chk r "UpdateAssetValue(PendingUndelegationAmount)" s c = none := by
  refine ⟨?_, ?_, ?_⟩ <;> simp (config := { decide := true }) only [chk, if_true, if_false] <;> split <;>
    first | rfl | (rw [upd_nonneg_ok _ _ h0]; rfl)

theorem updDec_neg_ok (v d : Dec) (h : d.raw ≤ v.raw) : updDec v d.neg = .ok ⟨v.raw + d.neg.raw⟩ := by
  unfold updDec Dec.neg
  have : ¬ (-d.raw < 0 ∧ v.raw < - -d.raw) := by omega
  simp only [this, if_false]

theorem chk_deleg (r : Req) (s c : L) (hc : r.opCanonValid = true) (h0 : 0 ≤ removed r s)
    (hle : (share r s).raw ≤ (dlRow r c).share.raw) : chk r "UpdateDelegationState" s c = none := by
  simp (config := { decide := true }) only [chk, if_true, if_false, hc]
  unfold updDeleg
  unfold dlRow at hle
  simp only [bind, Except.bind, pure, Except.pure, upd_nonneg_ok _ _ h0, updDec_neg_ok _ _ hle]
  rfl

theorem chk_delete (r : Req) (s c : L) (h : (find? c.slist (r.o, r.a)).isSome = true) :
    chk r "DeleteStakerForOperator" s c = none := by
  simp (config := { decide := true }) only [chk, if_true, if_false]
  split
  · unfold deleteStaker
    cases hf : find? c.slist (r.o, r.a) with
    | none => rw [hf] at h; cases h
    | some l => rfl
  · rfl

/-- SetUndelegationRecords cannot refuse the record UndelegateFrom builds: its completion height is the
current height plus the unbonding period -/
theorem chk_setRecord (r : Req) (s c : L) : chk r "SetUndelegationRecords" s c = none := by
  simp (config := { decide := true }) only [chk, if_true, if_false]
  unfold setRecord record
  have : ¬ (c.height + c.unbonding < c.height) := by omega
  simp only [this, if_false]
  rfl

theorem chk_hold (r : Req) (s c : L) (h : r.hooked = true → getD c.holds (recKey r c) 0 < maxHold) :
    chk r "IncrementUndelegationHoldCount" s c = none := by
  simp (config := { decide := true }) only [chk, if_true, if_false]
  split
  · rename_i hh
    apply rej_none.2
    have := h hh
    simp only [decide_eq_false_iff_not]
    omega
  · rfl

/-- **the steps after the first write cannot fail**: once the fifteen guards have passed on a good entry
state, the seven late checks pass in the states the run reaches them in -/
theorem late_ok (r : Req) (s : L) (hg : Good r s)
    (G : ∀ g, g ∈ guards → (impl r).chk g s s = none) : lateOkFrom (impl r) s late rest s := by
  -- what the guards establish
  have hparse : r.parseOk = true := by
    have h0 := G "GetDelegationParamsFromInputs" (by decide)
    simp (config := { decide := true }) only [impl, chk, if_true, if_false] at h0
    have := rej_none.1 h0
    simpa using this
  have hval : ∃ sh, validateUndelegationAmount s r.o r.st r.a r.x = .ok sh := by
    have h0 := G "ValidateUndelegationAmount" (by decide)
    simp (config := { decide := true }) only [impl, chk, if_true, if_false] at h0
    exact errOf_none.1 h0
  have hpos : 0 < (share r s).raw := by
    have h0 := G "share.IsPositive" (by decide)
    simp (config := { decide := true }) only [impl, chk, if_true, if_false] at h0
    have := rej_none.1 h0
    simpa using this
  have htok : ∃ rm, removedE r s s = .ok rm := by
    have h0 := G "TokensFromShares" (by decide)
    simp (config := { decide := true }) only [impl, chk, if_true, if_false] at h0
    exact errOf_none.1 h0
  obtain ⟨sh, hsh⟩ := hval
  obtain ⟨rm, hrm⟩ := htok
  have hrm0 : 0 ≤ rm := removed_nonneg r s hg.amt hpos hrm
  have hshare : share r s = sh := by unfold share; rw [hsh]; rfl
  have hremoved : removed r s = rm := by unfold removed; rw [hrm]; rfl
  obtain ⟨d, hd, hle⟩ := validate_spec hsh
  have hdrow : dlRow r s = d := getD_of_find _ _ _ _ hd
  have hcanon : r.opCanonValid = true := hg.codec hparse
  rw [hshare] at hpos
  rw [← hshare] at hpos hle
  have hrem0 : 0 ≤ removed r s := by rw [hremoved]; exact hrm0
  -- the run: c1 … c5 are the states after the five ledger writes
  simp only [rest, updateStakerAssetState, List.cons_append, List.nil_append, lateOkFrom, impl]
  obtain ⟨p1, e1⟩ := wr_opAsset r s s
  generalize hc1 : wr r "Set(operatorAsset)" s s = c1 at e1 ⊢
  obtain ⟨k1, k2, k3⟩ := chk_staker r s c1 hrem0
  refine ⟨fun _ => k1, fun _ => ⟨fun _ => k2, fun _ => ⟨fun _ => k3, fun _ => ?_⟩⟩⟩
  obtain ⟨p2, e2⟩ := wr_stAsset r s c1
  generalize hc2 : wr r "Set(stakerAsset)" s c1 = c2 at e2 ⊢
  have d2 : dlRow r c2 = dlRow r s := by unfold dlRow; rw [e2, e1]
  have kd : chk r "UpdateDelegationState" s c2 = none :=
    chk_deleg r s c2 hcanon hrem0 (by rw [d2, hdrow]; exact hle)
  refine ⟨fun _ => kd, fun _ => ?_⟩
  obtain ⟨p3, e3⟩ := wr_deleg r s c2
  generalize hc3 : wr r "Set(delegationState)" s c2 = c3 at e3 ⊢
  have l3 : find? c3.slist (r.o, r.a) = find? s.slist (r.o, r.a) := by rw [e3, e2, e1]
  have kl : chk r "DeleteStakerForOperator" s c3 = none := by
    apply chk_delete; rw [l3]; apply hg.list; rw [hdrow]; omega
  refine ⟨fun _ => kl, fun _ => ?_⟩
  obtain ⟨p4, e4⟩ := wr_slist r s c3
  generalize hc4 : wr r "Set(stakersByOperator)" s c3 = c4 at e4 ⊢
  refine ⟨fun _ => chk_setRecord r s c4, fun _ => ?_⟩
  obtain ⟨q1, q2, q3, e5⟩ := wr_record r s c4
  generalize hc5 : wr r "Set(undelegationRecord)" s c4 = c5 at e5 ⊢
  rw [wr_dogfood]
  have h5 : c5.holds = s.holds ∧ c5.height = s.height := by rw [e5, e4, e3, e2, e1]; exact ⟨rfl, rfl⟩
  have kh : chk r "IncrementUndelegationHoldCount" s c5 = none := by
    apply chk_hold
    intro hh
    have := hg.hold hh
    unfold recKey at this ⊢
    rw [h5.1, h5.2]; exact this
  exact ⟨fun _ => kh, fun _ => trivial⟩

/-- failure of the value-level undelegate leaves the ledger untouched whenever the entry state is good -/
theorem fail_atomic (r : Req) (s : L) (hg : Good r s) (e : Err)
    (h : (run (impl r) precompileUndelegate s).1 = .error e) : (run (impl r) precompileUndelegate s).2 = s := by
  rw [prog_split] at h ⊢
  exact run_fail_atomic_guarded_path (impl r) late guards rest s (late_ok r s hg) (by decide) e h

/-! ### the value-level program is the ledger model's `undelegate` (+ the hook's hold) on the accepted path -/

theorem rsfo_parts {s t1 : L} {o : OID} {st : SID} {a : AID} {sh : Dec} {rm : Int}
    (h : removeShareFromOperator s true o st a sh = .ok (t1, rm)) :
    0 < sh.raw ∧ ∃ p, find? s.pools (o, a) = some p ∧ ¬ p.totalShare.raw < sh.raw ∧
      (if p.totalShare.raw = sh.raw then Except.ok p.amount else tokensFromShares sh p.totalShare p.amount) = .ok rm ∧
      updPool s o a (-rm) rm sh.neg (if find? s.assoc st = some o then sh.neg else Dec.zero) = .ok t1 := by
  unfold removeShareFromOperator at h
  simp only [bind, Except.bind, pure, Except.pure, throw, throwThe, MonadExceptOf.throw] at h
  split at h
  · cases h
  · rename_i hpos
    split at h
    · cases h
    · rename_i p hp
      split at h
      · cases h
      · rename_i hle
        split at h
        · cases h
        · rename_i rem hrem
          split at h
          · cases h
          · rename_i sx hx
            injection h with h; injection h with ha hb; subst ha; subst hb
            refine ⟨by simpa using hpos, p, hp, hle, ?_, ?_⟩
            · split
              · rename_i he; simp only [he, if_true] at hrem; exact hrem
              · rename_i he; simp only [he, if_false] at hrem; exact hrem
            · simpa using hx

theorem removeShare_parts {s t4 : L} {o : OID} {st : SID} {a : AID} {sh : Dec} {rm : Int}
    (h : removeShare s true o st a sh = .ok (t4, rm)) :
    ∃ t1 t2 t3 z, removeShareFromOperator s true o st a sh = .ok (t1, rm) ∧ pendStaker t1 true st a rm = .ok t2 ∧
      updDeleg t2 st a o sh.neg rm = .ok (t3, z) ∧ (if z then deleteStaker t3 o a st else .ok t3) = .ok t4 := by
  unfold removeShare at h
  simp only [bind, Except.bind, pure, Except.pure, throw, throwThe, MonadExceptOf.throw] at h
  split at h
  · cases h
  · split at h
    · cases h
    · rename_i pr1 h1
      obtain ⟨t1, rm1⟩ := pr1
      simp only [] at h
      split at h
      · cases h
      · rename_i t2 h2
        split at h
        · cases h
        · rename_i pr3 h3
          obtain ⟨t3, z⟩ := pr3
          simp only [] at h
          split at h
          · cases h
          · rename_i t4' h4
            injection h with h; injection h with ha hb; subst ha; subst hb
            exact ⟨t1, t2, t3, z, h1, h2, by simpa using h3, h4⟩

/-- If the ledger model accepts the undelegation (`Ledger.undelegate`, whose correspondence with the Go keeper is
checked call by call by the `ledger` domain), the value-level run of `precompileUndelegate` passes every check
and ends in the same state, with the record key's hold count raised when the dogfood hook tracks it: the named
checks and writes of `impl` are the steps of `undelegate`. -/
theorem run_eq_undelegate (r : Req) (s s' : L) (hgw : r.gatewayOk = true) (hp : r.parseOk = true)
    (htx : r.txHashOk = true) (hcv : r.opCanonValid = true)
    (hh : r.hooked = true → getD s.holds (recKey r s) 0 ≠ maxHold)
    (h : undelegate s r.st r.a r.o r.x r.nonce r.hash = .ok s') :
    run (impl r) precompileUndelegate s = (.ok (), if r.hooked then hold s' (recKey r s) else s') := by
  unfold undelegate at h
  simp only [bind, Except.bind, throw, throwThe, MonadExceptOf.throw] at h
  split at h
  · cases h
  · rename_i hx0
    split at h
    · cases h
    · rename_i hop0
      split at h
      · cases h
      · rename_i sh hsh
        split at h
        · cases h
        · rename_i pr hrs
          obtain ⟨t4, rm⟩ := pr
          simp only [] at h
          obtain ⟨t1, t2, t3, z, h1, h2, h3, h4⟩ := removeShare_parts hrs
          obtain ⟨hpos, p, hpl, hle, hrem, hup⟩ := rsfo_parts h1
          have hx : 0 < r.x := by
            cases hd : decide (0 < r.x) with
            | true => exact of_decide_eq_true hd
            | false => simp [hd] at hx0
          have hop : s.operators.contains r.o = true := by
            cases hc : s.operators.contains r.o with
            | true => rfl
            | false => rw [hc] at hop0; exact absurd rfl hop0
          have hshare : share r s = sh := by unfold share; rw [hsh]; rfl
          have hplrow : plRow r s = p := getD_of_find _ _ _ _ hpl
          have hremE : removedE r s s = .ok rm := by unfold removedE; rw [hplrow, hshare]; exact hrem
          have hremoved : removed r s = rm := by unfold removed; rw [hremE]; rfl
          have hdop : dOp r s = (if find? s.assoc r.st = some r.o then sh.neg else Dec.zero) := by
            unfold dOp; rw [hshare]
          obtain ⟨⟨am, p1⟩, ⟨pe, p2⟩, ⟨ts, p3⟩, ⟨os, p4⟩⟩ := Delegate.updPool_parts hup
          have hplrow' : getD s.pools (r.o, r.a) zeroPool = p := hplrow
          rw [hplrow'] at p1 p2 p3 p4
          -- the guards
          have c1 : (impl r).chk "CheckExocoreGatewayAddr" s s = none := by
            simp (config := { decide := true }) only [impl, chk, if_true, if_false, hgw]
          have c2 : (impl r).chk "GetDelegationParamsFromInputs" s s = none := by
            simp (config := { decide := true }) only [impl, chk, if_true, if_false, hp]
          have c3 : (impl r).chk "ctx.Value(TxHash)" s s = none := by
            simp (config := { decide := true }) only [impl, chk, if_true, if_false, htx]
          have c4 : (impl r).chk "OpAmount.IsPositive" s s = none := by
            simp (config := { decide := true }) only [impl, chk, if_true, if_false, hx]
          have c5 : (impl r).chk "IsOperator" s s = none := by
            simp (config := { decide := true }) only [impl, chk, if_true, if_false, hop]
          have c6 : (impl r).chk "ValidateUndelegationAmount" s s = none := by
            simp (config := { decide := true }) only [impl, chk, if_true, if_false, hsh]; rfl
          have c7 : (impl r).chk "share.IsPositive" s s = none := by
            simp (config := { decide := true }) only [impl, chk, if_true, if_false, hshare, hpos]
          have c8 : (impl r).chk "GetOperatorSpecifiedAssetInfo" s s = none := by
            simp (config := { decide := true }) only [impl, chk, if_true, if_false, hpl]; rfl
          have c9 : (impl r).chk "share.GT(TotalShare)" s s = none := by
            simp (config := { decide := true }) only [impl, chk, if_true, if_false, hshare, hplrow]
            apply rej_none.2; simpa using hle
          have c10 : (impl r).chk "TokensFromShares" s s = none := by
            simp (config := { decide := true }) only [impl, chk, if_true, if_false, hremE]; rfl
          have c11 : (impl r).chk "GetAssociatedOperator" s s = none := by
            simp (config := { decide := true }) only [impl, chk, if_true, if_false]
          have c12 : (impl r).chk "UpdateAssetValue(operator.TotalAmount)" s s = none := by
            simp (config := { decide := true }) only [impl, chk, if_true, if_false, hplrow, hremoved, p1]; rfl
          have c13 : (impl r).chk "UpdateAssetValue(operator.PendingUndelegationAmount)" s s = none := by
            simp (config := { decide := true }) only [impl, chk, if_true, if_false, hplrow, hremoved, p2]; rfl
          have c14 : (impl r).chk "UpdateAssetDecValue(TotalShare)" s s = none := by
            simp (config := { decide := true }) only [impl, chk, if_true, if_false, hplrow, hshare, p3]; rfl
          have c15 : (impl r).chk "UpdateAssetDecValue(OperatorShare)" s s = none := by
            simp (config := { decide := true }) only [impl, chk, if_true, if_false, hplrow, hdop, p4]; rfl
          have w1 : (impl r).wr "Set(operatorAsset)" s s = t1 := by
            simp (config := { decide := true }) only [impl, wr, if_true, if_false, hremoved, hshare, hdop, hup]; rfl
          -- RemoveShare's staker row
          have c16 : (impl r).chk "UpdateAssetValue(TotalDepositAmount)" s t1 = none ∧
              (impl r).chk "UpdateAssetValue(WithdrawableAmount)" s t1 = none ∧
              (impl r).chk "UpdateAssetValue(PendingUndelegationAmount)" s t1 = none := by
            by_cases hn : r.a = nativeAID
            · refine ⟨?_, ?_, ?_⟩ <;> simp (config := { decide := true }) only [impl, chk, if_true, if_false, hn]
            · have hps : updStaker t1 r.st r.a 0 0 rm = .ok t2 := by
                unfold pendStaker at h2
                have : (true && r.a != nativeAID) = true := by simpa using hn
                simpa [this] using h2
              obtain ⟨_, _, t, w, pp, u1, u2, u3⟩ := Delegate.updStaker_frame' hps
              refine ⟨?_, ?_, ?_⟩ <;>
                simp (config := { decide := true }) only [impl, chk, if_true, if_false, hn, stRow, hremoved, u1, u2, u3] <;> rfl
          have w2 : (impl r).wr "Set(stakerAsset)" s t1 = t2 := by
            simp (config := { decide := true }) only [impl, wr, if_true, if_false, hremoved, h2]; rfl
          have c19 : (impl r).chk "UpdateDelegationState" s t2 = none := by
            simp (config := { decide := true }) only [impl, chk, if_true, if_false, hcv, hremoved, hshare, h3]; rfl
          have w3 : (impl r).wr "Set(delegationState)" s t2 = t3 := by
            simp (config := { decide := true }) only [impl, wr, if_true, if_false, hremoved, hshare, h3]; rfl
          have hz : shareIsZero r t3 = z := by
            obtain ⟨row, _, _, hzr, he⟩ := updDeleg_row h3
            unfold shareIsZero dlRow
            rw [he, hzr]
            simp only [getD_set_same]
          have c20 : (impl r).chk "DeleteStakerForOperator" s t3 = none := by
            simp (config := { decide := true }) only [impl, chk, if_true, if_false, hz]
            cases z with
            | true => simp only [if_true] at h4 ⊢; rw [h4]; rfl
            | false => rfl
          have w4 : (impl r).wr "Set(stakersByOperator)" s t3 = t4 := by
            simp (config := { decide := true }) only [impl, wr, if_true, if_false, hz]
            cases z with
            | true => simp only [if_true] at h4 ⊢; rw [h4]; rfl
            | false =>
              have h4' : Except.ok t3 = Except.ok (ε := String) t4 := h4
              injection h4'
          have hrec : record r s t4 = ⟨r.st, r.a, r.o, r.hash, r.nonce, t4.height, t4.height + t4.unbonding, rm, rm⟩ := by
            unfold record; rw [hremoved]
          have c21 : (impl r).chk "SetUndelegationRecords" s t4 = none := by
            simp (config := { decide := true }) only [impl, chk, if_true, if_false, hrec, h]; rfl
          have w5 : (impl r).wr "Set(undelegationRecord)" s t4 = s' := by
            simp (config := { decide := true }) only [impl, wr, if_true, if_false, hrec, h]; rfl
          have w6 : (impl r).wr "AppendUndelegationToMature|SetUndelegationMaturityEpoch" s s' = s' := wr_dogfood r s s'
          -- frames: the hold store and the height are untouched
          have hfr : s'.holds = s.holds ∧ s'.height = s.height := by
            obtain ⟨_, e1⟩ := wr_opAsset r s s
            obtain ⟨_, e2⟩ := wr_stAsset r s t1
            obtain ⟨_, e3⟩ := wr_deleg r s t2
            obtain ⟨_, e4⟩ := wr_slist r s t3
            obtain ⟨_, _, _, e5⟩ := wr_record r s t4
            simp only [impl] at w1 w2 w3 w4 w5
            rw [w1] at e1; rw [w2] at e2; rw [w3] at e3; rw [w4] at e4; rw [w5] at e5
            rw [e5, e4, e3, e2, e1]; exact ⟨rfl, rfl⟩
          have hkey : recKey r s' = recKey r s := by unfold recKey; rw [hfr.2]
          have c22 : (impl r).chk "IncrementUndelegationHoldCount" s s' = none := by
            simp (config := { decide := true }) only [impl, chk, if_true, if_false]
            split
            · rename_i hk
              apply rej_none.2
              rw [hkey, hfr.1]
              simpa using hh hk
            · rfl
          have w7 : (impl r).wr "Set(undelegationOnHold)" s s' = (if r.hooked then hold s' (recKey r s) else s') := by
            simp (config := { decide := true }) only [impl, wr, if_true, if_false, hkey]
          unfold run precompileUndelegate undelegateFrom updateStakerAssetState updateOperatorAssetState
          simp only [List.cons_append, List.nil_append, exec, c1, c2, c3, c4, c5, c6, c7, c8, c9, c10, c11, c12, c13, c14,
            c15, w1, c16.1, c16.2.1, c16.2.2, w2, c19, w3, c20, w4, c21, w5, w6, c22, w7]

end Undelegate
end ExoVerif.AtomicValues
