import ExoVerif.Model.ProtoMaps
import ExoVerif.Proofs.Determinism
/-! Helper lemmas for the proto-map encoder model: lookups in association lists with distinct keys
do not depend on the order of the list; a fold that prepends is a flatMap of the reversed schedule. -/
namespace ExoVerif.Det

theorem alookup_perm {κ ν : Type} [DecidableEq κ] {l₁ l₂ : List (κ × ν)} (h : l₁.Perm l₂) :
    (l₁.map (·.1)).Nodup → ∀ k, alookup l₁ k = alookup l₂ k := by
  induction h with
  | nil => intro _ _; rfl
  | cons x _ ih =>
    intro hn k
    simp only [List.map_cons, List.nodup_cons] at hn
    simp only [alookup, ih hn.2 k]
  | swap x y l =>
    intro hn k
    simp only [List.map_cons, List.nodup_cons, List.mem_cons, not_or] at hn
    simp only [alookup]
    by_cases h1 : k = y.1 <;> by_cases h2 : k = x.1
    · exact absurd (h1.symm.trans h2) hn.1.1
    · have h3 : ¬ y.1 = x.1 := hn.1.1
      simp [h1, h3]
    · have h3 : ¬ x.1 = y.1 := fun e => hn.1.1 e.symm
      simp [h2, h3]
    · simp [h1, h2]
  | trans h1 _ ih1 ih2 =>
    intro hn k
    rw [ih1 hn k, ih2 (((h1.map (·.1)).nodup_iff).mp hn) k]

/-- the bytes of entry `k` (nothing for an absent key) -/
def entryOf {κ ν : Type} (enc : κ → ν → List Nat) (m : κ → Option ν) (k : κ) : List Nat :=
  match m k with
  | some v => enc k v
  | none => []

theorem marshalMapBody_eq {κ ν : Type} (enc : κ → ν → List Nat) (m : κ → Option ν) (acc : List Nat) (k : κ) :
    marshalMapBody enc m acc k = entryOf enc m k ++ acc := by
  simp only [marshalMapBody, entryOf]; cases m k <;> simp

theorem foldr_prepend_eq_flatMap {κ ν : Type} (enc : κ → ν → List Nat) (m : κ → Option ν) (l : List κ) :
    l.foldr (fun k acc => marshalMapBody enc m acc k) [] = l.flatMap (entryOf enc m) := by
  induction l with
  | nil => rfl
  | cons a l ih => rw [List.foldr_cons, ih, marshalMapBody_eq, List.flatMap_cons]

end ExoVerif.Det
