import ExoVerif.Model.ValSet
/-! Helper lemmas for C06 (loop characterisation, order lemmas, fold lemmas). Core Lean only. -/
namespace ExoVerif.ValSet
open ExoVerif.VMap

/-! ## the two comparators are total orders -/

theorem candLe_iff (a b : Cand) :
    candLe a b = true ↔ (b.power < a.power ∨ (a.power = b.power ∧ a.op ≤ b.op)) := by
  unfold candLe candLess
  by_cases h : b.power = a.power
  · simp [h]
  · have h' : ¬ a.power = b.power := fun e => h e.symm
    simp [h, h']; omega

theorem candLe_total (a b : Cand) : candLe a b = true ∨ candLe b a = true := by
  rw [candLe_iff, candLe_iff]; omega

theorem candLe_trans (a b c : Cand) (h1 : candLe a b = true) (h2 : candLe b c = true) :
    candLe a c = true := by
  rw [candLe_iff] at *; omega

theorem updLe_iff (a b : Upd) :
    updLe a b = true ↔ (b.power < a.power ∨ (a.power = b.power ∧ b.key ≤ a.key)) := by
  unfold updLe updLess
  by_cases h : b.power = a.power
  · simp [h]
  · have h' : ¬ a.power = b.power := fun e => h e.symm
    simp [h, h']; omega

theorem updLe_total (a b : Upd) : updLe a b = true ∨ updLe b a = true := by
  rw [updLe_iff, updLe_iff]; omega

theorem updLe_trans (a b c : Upd) (h1 : updLe a b = true) (h2 : updLe b c = true) :
    updLe a c = true := by
  rw [updLe_iff] at *; omega

theorem updLe_antisymm (a b : Upd) (h1 : updLe a b = true) (h2 : updLe b a = true) : a = b := by
  rw [updLe_iff] at *
  cases a; cases b; simp at *; omega

theorem candLe_antisymm (a b : Cand) (ho : a.op = b.op → a = b)
    (h1 : candLe a b = true) (h2 : candLe b a = true) : a = b := by
  rw [candLe_iff] at *
  apply ho; omega

/-! ## the prefix of the sorted list consumed by the loop -/

/-- control flow of the loop: which candidates are processed -/
def selected (maxVals : Nat) : List Cand → Nat → List Cand
  | [], _ => []
  | c :: rest, i =>
    if i ≥ maxVals then [] else if c.power < 1 then [] else c :: selected maxVals rest (i + 1)

def changed (prev : VSet) (c : Cand) : Bool := get prev c.key != some c.power

def toUpd (c : Cand) : Upd := ⟨c.key, c.power⟩

theorem selected_sublist (maxVals : Nat) (l : List Cand) (i : Nat) : (selected maxVals l i).Sublist l := by
  induction l generalizing i with
  | nil => simp [selected]
  | cons c rest ih =>
    simp only [selected]
    split
    · exact List.nil_sublist _
    · split
      · exact List.nil_sublist _
      · exact (ih (i + 1)).cons_cons c

theorem selected_power (maxVals : Nat) (l : List Cand) (i : Nat) : ∀ c ∈ selected maxVals l i, 1 ≤ c.power := by
  induction l generalizing i with
  | nil => simp [selected]
  | cons c rest ih =>
    simp only [selected]
    split
    · simp
    · split
      · simp
      · intro x hx
        rcases List.mem_cons.1 hx with rfl | hx
        · omega
        · exact ih (i + 1) x hx

/-- on a list sorted by power (descending) the loop's prefix is "first maxVals, then those ≥ 1" -/
theorem selected_eq_take_filter (maxVals : Nat) (l : List Cand) (i : Nat)
    (hs : l.Pairwise (fun a b => b.power ≤ a.power)) :
    selected maxVals l i = (l.take (maxVals - i)).filter (fun c => decide (1 ≤ c.power)) := by
  induction l generalizing i with
  | nil => simp [selected]
  | cons c rest ih =>
    have hc := List.pairwise_cons.1 hs
    simp only [selected]
    by_cases h1 : i ≥ maxVals
    · have : maxVals - i = 0 := by omega
      simp [h1, this]
    · simp only [h1, if_false]
      have hsub : maxVals - i = (maxVals - (i + 1)) + 1 := by omega
      by_cases h2 : c.power < 1
      · simp only [h2, if_true]
        rw [hsub, List.take_succ_cons]
        symm
        rw [List.filter_eq_nil_iff]
        intro x hx
        rcases List.mem_cons.1 hx with rfl | hx
        · simp; omega
        · have := hc.1 x (List.mem_of_mem_take hx)
          simp; omega
      · simp only [h2, if_false]
        rw [hsub, List.take_succ_cons, ih (i + 1) hc.2]
        have : decide (1 ≤ c.power) = true := by simp; omega
        simp [this]

/-! ## the loop -/

theorem loop_char (maxVals : Nat) (prev : VSet) (l : List Cand) (i : Nat) (st : LoopSt)
    (hnd : (l.map (·.key)).Nodup)
    (hagree : ∀ c ∈ l, get st.prevMap c.key = get prev c.key) :
    (loop maxVals l i st).res
        = st.res ++ ((selected maxVals l i).filter (changed prev)).map toUpd ∧
    (∀ k, get (loop maxVals l i st).prevMap k
        = if k ∈ (selected maxVals l i).map (·.key) then none else get st.prevMap k) ∧
    (loop maxVals l i st).total = st.total + ((selected maxVals l i).map (·.power)).sum := by
  induction l generalizing i st with
  | nil => simp [loop, selected]
  | cons c rest ih =>
    simp only [loop, selected]
    by_cases h1 : i ≥ maxVals
    · simp [h1]
    · simp only [h1, if_false]
      by_cases h2 : c.power < 1
      · simp [h2]
      · simp only [h2, if_false]
        have hnd' : c.key ∉ rest.map (·.key) ∧ (rest.map (·.key)).Nodup := by
          simpa only [List.map_cons, List.nodup_cons] using hnd
        have hck : ∀ c' ∈ rest, c'.key ≠ c.key := by
          intro c' hc' e
          exact hnd'.1 (List.mem_map.2 ⟨c', hc', e⟩)
        have hget : get st.prevMap c.key = get prev c.key := hagree c (List.mem_cons_self ..)
        -- effect of the step on the three components
        have hmap : ∀ k, get (loopStep c st).prevMap k = if k = c.key then none else get st.prevMap k := by
          intro k
          unfold loopStep
          cases hg : get st.prevMap c.key with
          | none =>
            by_cases hk : k = c.key
            · simp [hk, hg]
            · simp [hk]
          | some p =>
            by_cases hk : k = c.key
            · subst hk; simp [get_del_same]
            · simp [hk, get_del_other _ _ _ hk]
        have hres : (loopStep c st).res = st.res ++ (if changed prev c then [toUpd c] else []) := by
          unfold loopStep changed
          rw [← hget]
          cases hg : get st.prevMap c.key with
          | none => simp [toUpd]
          | some p =>
            by_cases hp : p = c.power
            · simp [hp]
            · simp [hp, toUpd]
        have htot : (loopStep c st).total = st.total + c.power := by
          unfold loopStep
          cases hg : get st.prevMap c.key <;> simp
        have hagree' : ∀ c' ∈ rest, get (loopStep c st).prevMap c'.key = get prev c'.key := by
          intro c' hc'
          rw [hmap, if_neg (hck c' hc')]
          exact hagree c' (List.mem_cons_of_mem _ hc')
        obtain ⟨ih1, ih2, ih3⟩ := ih (i + 1) (loopStep c st) hnd'.2 hagree'
        refine ⟨?_, ?_, ?_⟩
        · rw [ih1, hres]
          by_cases hch : changed prev c = true
          · simp [hch]
          · simp [hch]
        · intro k
          rw [ih2 k, hmap k]
          by_cases hk : k = c.key
          · simp [hk]
          · simp [hk]
        · rw [ih3, htot]
          simp [List.sum_cons]; omega

/-! ## folds of per-key updates -/

theorem fold_get_not_mem (f : VSet → Upd → VSet)
    (hf2 : ∀ vs u k, k ≠ u.key → get (f vs u) k = get vs k)
    (ups : List Upd) (vs : VSet) (k : Nat) (h : k ∉ ups.map (·.key)) :
    get (ups.foldl f vs) k = get vs k := by
  induction ups generalizing vs with
  | nil => rfl
  | cons u rest ih =>
    simp only [List.map_cons, List.mem_cons, not_or] at h
    simp only [List.foldl_cons]
    rw [ih (f vs u) h.2, hf2 vs u k h.1]

theorem fold_get_mem (f : VSet → Upd → VSet) (eff : Upd → Option Int)
    (hf1 : ∀ vs u, get (f vs u) u.key = eff u)
    (hf2 : ∀ vs u k, k ≠ u.key → get (f vs u) k = get vs k)
    (ups : List Upd) (vs : VSet) (u : Upd) (hnd : (ups.map (·.key)).Nodup) (hu : u ∈ ups) :
    get (ups.foldl f vs) u.key = eff u := by
  induction ups generalizing vs with
  | nil => cases hu
  | cons a rest ih =>
    simp only [List.map_cons, List.nodup_cons] at hnd
    simp only [List.foldl_cons]
    rcases List.mem_cons.1 hu with rfl | hu
    · rw [fold_get_not_mem f hf2 rest (f vs u) u.key hnd.1, hf1]
    · exact ih (f vs a) hnd.2 hu

theorem cometStep_same (vs : VSet) (u : Upd) :
    get (cometStep vs u) u.key = if u.power == 0 then none else some u.power := by
  unfold cometStep
  by_cases h : u.power = 0
  · simp [h, get_del_same]
  · simp [h, get_put_same]

theorem cometStep_other (vs : VSet) (u : Upd) (k : Nat) (h : k ≠ u.key) :
    get (cometStep vs u) k = get vs k := by
  unfold cometStep
  split
  · exact get_del_other _ _ _ h
  · exact get_put_other _ _ _ _ h

/-- store effect of one ApplyValidatorChanges iteration -/
def valStep (vs : VSet) (ch : Upd) : VSet :=
  match get vs ch.key with
  | some _ => if ch.power < 1 then del vs ch.key else put vs ch.key ch.power
  | none => if 0 < ch.power then put vs ch.key ch.power else vs

theorem applyChange_fst (rev : Nat → Bool) (vs : VSet) (acc : List Upd) (ch : Upd) :
    (applyChange rev (vs, acc) ch).1 = valStep vs ch := by
  unfold applyChange valStep
  cases get vs ch.key with
  | none => simp only []; split <;> rfl
  | some p => simp only []; split <;> (try split) <;> rfl

theorem foldl_applyChange_fst (rev : Nat → Bool) (ups : List Upd) (vs : VSet) (acc : List Upd) :
    (ups.foldl (applyChange rev) (vs, acc)).1 = ups.foldl valStep vs := by
  induction ups generalizing vs acc with
  | nil => rfl
  | cons u rest ih =>
    simp only [List.foldl_cons]
    have : applyChange rev (vs, acc) u = ((applyChange rev (vs, acc) u).1, (applyChange rev (vs, acc) u).2) := rfl
    rw [this, ih, applyChange_fst]

theorem valStep_same (vs : VSet) (u : Upd) :
    get (valStep vs u) u.key = if u.power < 1 then none else some u.power := by
  unfold valStep
  cases hg : get vs u.key with
  | none =>
    by_cases h : 0 < u.power
    · have : ¬ u.power < 1 := by omega
      simp [h, this, get_put_same]
    · have : u.power < 1 := by omega
      simp [h, this, hg]
  | some p =>
    by_cases h : u.power < 1
    · simp [h, get_del_same]
    · simp [h, get_put_same]

theorem valStep_other (vs : VSet) (u : Upd) (k : Nat) (h : k ≠ u.key) :
    get (valStep vs u) k = get vs k := by
  unfold valStep
  cases get vs u.key with
  | none => simp only []; split
            · exact get_put_other _ _ _ _ h
            · rfl
  | some p => simp only []; split
              · exact get_del_other _ _ _ h
              · exact get_put_other _ _ _ _ h

/-- every change is forwarded when removals are of known keys and re-powered keys resolve -/
theorem applyChanges_emit_all (rev : Nat → Bool) (ups : List Upd) (vs : VSet) (acc : List Upd)
    (hnd : (ups.map (·.key)).Nodup)
    (h : ∀ u ∈ ups, (u.power < 1 → has vs u.key = true) ∧ (1 ≤ u.power → has vs u.key = true → rev u.key = true)) :
    (ups.foldl (applyChange rev) (vs, acc)).2 = acc ++ ups := by
  induction ups generalizing vs acc with
  | nil => simp
  | cons u rest ih =>
    simp only [List.map_cons, List.nodup_cons] at hnd
    simp only [List.foldl_cons]
    have hu := h u (List.mem_cons_self ..)
    have hstep : applyChange rev (vs, acc) u = (valStep vs u, acc ++ [u]) := by
      unfold applyChange valStep
      cases hg : get vs u.key with
      | none =>
        have hn : has vs u.key = false := by simp [has, hg]
        by_cases hp : 0 < u.power
        · simp [hp]
        · have := hu.1 (by omega); rw [hn] at this; cases this
      | some p =>
        have hs : has vs u.key = true := by simp [has, hg]
        by_cases hp : u.power < 1
        · simp [hp]
        · have := hu.2 (by omega) hs
          simp [hp, this]
    rw [hstep, ih (valStep vs u) (acc ++ [u]) hnd.2]
    · simp
    · intro w hw
      have hne : w.key ≠ u.key := by
        intro e; exact hnd.1 (List.mem_map.2 ⟨w, hw, e⟩)
      have hw' := h w (List.mem_cons_of_mem _ hw)
      have : has (valStep vs u) w.key = has vs w.key := by
        simp only [has, valStep_other vs u w.key hne]
      rw [this]; exact hw'


theorem applyChanges_sublist (rev : Nat → Bool) (ups : List Upd) (vs : VSet) (acc : List Upd) :
    ∃ l, l.Sublist ups ∧ (ups.foldl (applyChange rev) (vs, acc)).2 = acc ++ l := by
  induction ups generalizing vs acc with
  | nil => exact ⟨[], List.Sublist.refl _, by simp⟩
  | cons u rest ih =>
    simp only [List.foldl_cons]
    have hstep : (applyChange rev (vs, acc) u).2 = acc ++ [u] ∨ (applyChange rev (vs, acc) u).2 = acc := by
      unfold applyChange
      cases get vs u.key with
      | none => simp only []; split <;> simp
      | some p => simp only []; split <;> (try split) <;> simp
    have hp : applyChange rev (vs, acc) u = ((applyChange rev (vs, acc) u).1, (applyChange rev (vs, acc) u).2) := rfl
    rw [hp]
    obtain ⟨l, hl1, hl2⟩ := ih (applyChange rev (vs, acc) u).1 (applyChange rev (vs, acc) u).2
    rcases hstep with h | h
    · exact ⟨u :: l, hl1.cons_cons u, by rw [hl2, h]; simp⟩
    · exact ⟨l, hl1.cons u, by rw [hl2, h]⟩

/-! ## NoDup of the store is kept -/

theorem noDup_del (m : VSet) (k : Nat) (h : KV.NoDup m) : KV.NoDup (del m k) := by
  unfold KV.NoDup KV.keys del at *
  exact h.sublist ((List.filter_sublist).map _)

theorem keys_del_not_mem (m : VSet) (k : Nat) : k ∉ KV.keys (del m k) := by
  intro h
  have := get_isSome_of_mem_keys _ _ h
  rw [get_del_same] at this
  cases this

theorem noDup_put (m : VSet) (k : Nat) (v : Int) (h : KV.NoDup m) : KV.NoDup (put m k v) := by
  have h1 := noDup_del m k h
  have h2 := keys_del_not_mem m k
  unfold KV.NoDup KV.keys put at *
  simp only [List.map_cons, List.nodup_cons]
  exact ⟨h2, h1⟩

theorem noDup_valStep (m : VSet) (u : Upd) (h : KV.NoDup m) : KV.NoDup (valStep m u) := by
  unfold valStep
  cases get m u.key with
  | none => simp only []; split
            · exact noDup_put _ _ _ h
            · exact h
  | some p => simp only []; split
              · exact noDup_del _ _ h
              · exact noDup_put _ _ _ h

theorem noDup_foldl_valStep (ups : List Upd) (m : VSet) (h : KV.NoDup m) : KV.NoDup (ups.foldl valStep m) := by
  induction ups generalizing m with
  | nil => exact h
  | cons u rest ih => exact ih _ (noDup_valStep m u h)

/-! ## the diff list -/

theorem mem_removals (prev pm : VSet) (u : Upd) :
    u ∈ removals prev pm ↔ u.power = 0 ∧ u.key ∈ KV.keys prev ∧ has pm u.key = true := by
  unfold removals
  simp only [List.mem_map, List.mem_filter, KV.keys]
  constructor
  · rintro ⟨p, ⟨hp1, hp2⟩, rfl⟩
    exact ⟨rfl, ⟨p, hp1, rfl⟩, hp2⟩
  · rintro ⟨h0, ⟨p, hp1, hp2⟩, h2⟩
    refine ⟨p, ⟨hp1, by rw [hp2]; exact h2⟩, ?_⟩
    cases u; simp at *; exact ⟨hp2, h0.symm⟩

theorem removals_keys_nodup (prev pm : VSet) (h : KV.NoDup prev) :
    ((removals prev pm).map (·.key)).Nodup := by
  unfold removals
  rw [List.map_map]
  have : ((fun u : Upd => u.key) ∘ fun p : Nat × Int => (⟨p.1, 0⟩ : Upd)) = (fun p => p.1) := rfl
  rw [this]
  exact h.sublist ((List.filter_sublist).map _)

end ExoVerif.ValSet
