import ExoVerif.Proofs.Oracle
/-!
Helper development for C14 (oracle restart equivalence): the live run of the model over a list of
blocks, the nonce-forgetting view `Z` of the in-memory aggregator context, the simulation between
the live `fillPrice` calls and the replay of the persisted log, and the window induction.
Core Lean only.
-/
namespace ExoVerif.Oracle

/-! ### value maps over association lists -/

def amap {κ α β} (f : α → β) (l : List (κ × α)) : List (κ × β) := l.map (fun kv => (kv.1, f kv.2))

theorem alookup_amap {κ α β} [DecidableEq κ] (f : α → β) (k : κ) (l : List (κ × α)) :
    alookup k (amap f l) = (alookup k l).map f := by
  induction l with
  | nil => simp [amap, alookup]
  | cons h t ih =>
    obtain ⟨k', v'⟩ := h
    by_cases hk : k' = k
    · simp [amap, alookup, hk]
    · simp only [amap, List.map_cons, alookup, hk, if_false]
      exact ih

theorem amap_aset {κ α β} [DecidableEq κ] (f : α → β) (k : κ) (v : α) (l : List (κ × α)) :
    amap f (aset k v l) = aset k (f v) (amap f l) := by
  induction l with
  | nil => simp [amap, aset]
  | cons h t ih =>
    obtain ⟨k', v'⟩ := h
    by_cases hk : k' = k
    · simp [amap, aset, hk]
    · simp only [amap, aset, hk, if_false, List.map_cons] at ih ⊢
      rw [ih]

theorem amap_adel {κ α β} [DecidableEq κ] (f : α → β) (k : κ) (l : List (κ × α)) :
    amap f (adel k l) = adel k (amap f l) := by
  induction l with
  | nil => simp [amap, adel]
  | cons h t ih =>
    obtain ⟨k', v'⟩ := h
    by_cases hk : k' = k
    · simp [amap, adel, hk]
    · simp only [amap, adel, hk, if_false, List.map_cons] at ih ⊢
      rw [ih]

/-! ### the nonce-forgetting view

`Z` replaces every recorded nonce by 0 and keeps everything else: which validators have a nonce
set, how many nonces each set holds, in which order the entries were created. The replay log keeps
no nonces (F-14a), so a recached context can agree with the live one at most up to `Z`. -/

def zeroL (l : List Int) : List Int := l.map (fun _ => 0)

def Filter.Z (f : Filter) : Filter := { f with vNonce := amap zeroL f.vNonce }
def Worker.Z (w : Worker) : Worker := { w with f := w.f.map Filter.Z }
def Agc.Z (g : Agc) : Agc := { g with workers := amap Worker.Z g.workers }

/-- the bit the nonce filter computes for a message (filter.go: filtrate, `Set.Add`) -/
def okBit (f : Filter) (m : Msg) : Bool :=
  (setAdd f.maxNonce ((alookup m.creator f.vNonce).getD []) m.nonce).2

theorem zeroL_getD (o : Option (List Int)) : zeroL (o.getD []) = (o.map zeroL).getD [] := by
  cases o <;> simp [zeroL]

theorem setAdd_zero (size : Nat) (cur : List Int) (n : Int) :
    zeroL (setAdd size cur n).1 = if (setAdd size cur n).2 then zeroL cur ++ [0] else zeroL cur := by
  unfold setAdd
  by_cases h1 : (cur.length == size) = true
  · simp [h1]
  · by_cases h2 : n ∈ cur
    · simp [h1, h2]
    · simp [h1, h2, zeroL]

/-- `addPSource` neither reads nor writes the nonce sets -/
theorem addPSource_frame (srcs : List PSource) : ∀ (f : Filter) (v : Nat) (ns : List (Nat × List Int)),
    ({ f with vNonce := ns } : Filter).addPSource v srcs =
      ({ (f.addPSource v srcs).1 with vNonce := ns }, (f.addPSource v srcs).2) := by
  induction srcs with
  | nil => intro f v ns; simp [Filter.addPSource]
  | cons ps rest ih =>
    intro f v ns
    unfold Filter.addPSource
    cases hp : ps.prices with
    | nil =>
      simp only [ih f v ns]
    | cons p0 tl =>
      simp only
      by_cases hd : p0.detID.length > 0
      · simp only [hd, if_true]
        have := ih { f with vSource := aset (v, ps.sourceID) (filterDetIDs f.maxDetID ((alookup (v, ps.sourceID) f.vSource).getD []) (p0 :: tl)).1 f.vSource } v ns
        simp only [this]
        split <;> rfl
      · simp only [hd, if_false]
        simp only [ih f v ns]

theorem addPSource_vNonce (f : Filter) (v : Nat) (srcs : List PSource) :
    (f.addPSource v srcs).1.vNonce = f.vNonce := by
  have h := addPSource_frame srcs f v f.vNonce
  have e : ({ f with vNonce := f.vNonce } : Filter) = f := rfl
  rw [e] at h
  have h1 := congrArg (fun x => x.1.vNonce) h
  simpa using h1

theorem addPSource_Z (f : Filter) (v : Nat) (srcs : List PSource) :
    (f.addPSource v srcs).1.Z = (f.Z.addPSource v srcs).1 ∧
    (f.addPSource v srcs).2 = (f.Z.addPSource v srcs).2 := by
  have h := addPSource_frame srcs f v (amap zeroL f.vNonce)
  have e : ({ f with vNonce := amap zeroL f.vNonce } : Filter) = f.Z := rfl
  rw [e] at h
  rw [h]
  refine ⟨?_, rfl⟩
  simp only [Filter.Z, addPSource_vNonce]

/-- filtrate factors through `Z` once the nonce bit is known -/
theorem filtrate_sim (f f' : Filter) (m m' : Msg) (hZ : f.Z = f'.Z) (hc : m.creator = m'.creator)
    (hp : m.prices = m'.prices) (hok : okBit f m = okBit f' m') :
    (f.filtrate m).1.Z = (f'.filtrate m').1.Z ∧ (f.filtrate m).2 = (f'.filtrate m').2 := by
  have hmn : f.maxNonce = f'.maxNonce := by
    have h := congrArg Filter.maxNonce hZ; exact h
  have hvn : amap zeroL f.vNonce = amap zeroL f'.vNonce := by
    have h := congrArg Filter.vNonce hZ; exact h
  have hcur : zeroL ((alookup m.creator f.vNonce).getD []) = zeroL ((alookup m'.creator f'.vNonce).getD []) := by
    rw [zeroL_getD, zeroL_getD, ← alookup_amap, ← alookup_amap, hvn, hc]
  -- the filter after the nonce step, seen through Z
  have hstep : ({ f with vNonce := aset m.creator (setAdd f.maxNonce ((alookup m.creator f.vNonce).getD []) m.nonce).1 f.vNonce } : Filter).Z =
      ({ f' with vNonce := aset m'.creator (setAdd f'.maxNonce ((alookup m'.creator f'.vNonce).getD []) m'.nonce).1 f'.vNonce } : Filter).Z := by
    have h1 := setAdd_zero f.maxNonce ((alookup m.creator f.vNonce).getD []) m.nonce
    have h2 := setAdd_zero f'.maxNonce ((alookup m'.creator f'.vNonce).getD []) m'.nonce
    unfold okBit at hok
    rw [hok, hcur] at h1
    have h3 := h1.trans h2.symm
    have e1 : ({ f with vNonce := aset m.creator (setAdd f.maxNonce ((alookup m.creator f.vNonce).getD []) m.nonce).1 f.vNonce } : Filter).Z =
        { f.Z with vNonce := aset m.creator (zeroL (setAdd f.maxNonce ((alookup m.creator f.vNonce).getD []) m.nonce).1) (amap zeroL f.vNonce) } := by
      simp only [Filter.Z, amap_aset]
    have e2 : ({ f' with vNonce := aset m'.creator (setAdd f'.maxNonce ((alookup m'.creator f'.vNonce).getD []) m'.nonce).1 f'.vNonce } : Filter).Z =
        { f'.Z with vNonce := aset m'.creator (zeroL (setAdd f'.maxNonce ((alookup m'.creator f'.vNonce).getD []) m'.nonce).1) (amap zeroL f'.vNonce) } := by
      simp only [Filter.Z, amap_aset]
    rw [e1, e2, h3, hZ, hvn, hc]
  unfold Filter.filtrate
  simp only
  unfold okBit at hok
  rw [← hok]
  cases hb : (setAdd f.maxNonce ((alookup m.creator f.vNonce).getD []) m.nonce).2
  · simp only [Bool.false_eq_true, if_false]
    exact ⟨hstep, trivial⟩
  · simp only [if_true]
    have a1 := addPSource_Z { f with vNonce := aset m.creator (setAdd f.maxNonce ((alookup m.creator f.vNonce).getD []) m.nonce).1 f.vNonce } m.creator m.prices
    have a2 := addPSource_Z { f' with vNonce := aset m'.creator (setAdd f'.maxNonce ((alookup m'.creator f'.vNonce).getD []) m'.nonce).1 f'.vNonce } m'.creator m'.prices
    rw [a1.1, a1.2, a2.1, a2.2, hstep, hc, hp]
    exact ⟨rfl, rfl⟩

/-- the nonce bit of a message at the worker it is routed to -/
def okW (w : Worker) (m : Msg) : Bool :=
  match w.f with
  | some f => okBit f m
  | none => true

theorem Worker.run_sim (w w' : Worker) (p : Params) (pw : Int) (m m' : Msg) (hZ : w.Z = w'.Z)
    (hc : m.creator = m'.creator) (hp : m.prices = m'.prices) (hok : okW w m = okW w' m') :
    (w.run p pw m).1.Z = (w'.run p pw m').1.Z ∧ (w.run p pw m).2 = (w'.run p pw m').2 := by
  obtain ⟨sealed, price, decimal, f, c, a⟩ := w
  obtain ⟨sealed', price', decimal', f', c', a'⟩ := w'
  simp only [Worker.Z, Worker.mk.injEq] at hZ
  obtain ⟨h1, h2, h3, h4, h5, h6⟩ := hZ
  subst h1 h2 h3 h5 h6
  cases f with
  | none =>
    cases f' with
    | none => exact ⟨rfl, rfl⟩
    | some f' => simp at h4
  | some f =>
    cases f' with
    | none => simp at h4
    | some f' =>
      simp only [Option.map_some, Option.some.injEq] at h4
      simp only [okW] at hok
      have hs := filtrate_sim f f' m m' h4 hc hp hok
      cases c with
      | none => exact ⟨by simp [Worker.run, Worker.Z, h4], by simp [Worker.run]⟩
      | some c =>
        cases a with
        | none => exact ⟨by simp [Worker.run, Worker.Z, h4], by simp [Worker.run]⟩
        | some a =>
          simp only [Worker.run]
          rcases hfm : f.filtrate m with ⟨f1, l4c, l4a⟩
          rcases hfm' : f'.filtrate m' with ⟨f1', l4c', l4a'⟩
          rw [hfm, hfm'] at hs
          obtain ⟨hs1, hs2⟩ := hs
          simp only [Prod.mk.injEq] at hs2
          obtain ⟨hs2, hs3⟩ := hs2
          subst hs2 hs3
          simp only at hs1
          simp only [← hc]
          by_cases hl : l4a.length > 0
          · simp only [hl, if_true, Worker.Z, Option.map_some, hs1, and_self]
          · simp only [hl, if_false, Worker.Z, Option.map_some, hs1, and_self]

/-- the nonce bit of a message at the context level (context.go: FillPrice routes the message to
the feeder's worker, creating it when absent) -/
def okG (g : Agc) (p : Params) (m : Msg) : Bool :=
  okW ((alookup m.feederID g.workers).getD (newWorker p g m.feederID)) m

theorem getD_Z (o : Option Worker) (d : Worker) : (o.getD d).Z = ((o.map Worker.Z).getD d.Z) := by
  cases o <;> rfl

theorem Agc.fillPrice_sim (g g' : Agc) (p : Params) (m m' : Msg) (hZ : g.Z = g'.Z)
    (hc : m.creator = m'.creator) (hf : m.feederID = m'.feederID) (hp : m.prices = m'.prices)
    (hok : okG g p m = okG g' p m') :
    (g.fillPrice p m).1.Z = (g'.fillPrice p m').1.Z ∧ (g.fillPrice p m).2 = (g'.fillPrice p m').2 := by
  obtain ⟨params, vals, total, rounds, workers⟩ := g
  obtain ⟨params', vals', total', rounds', workers'⟩ := g'
  simp only [Agc.Z, Agc.mk.injEq] at hZ
  obtain ⟨h1, h2, h3, h4, h5⟩ := hZ
  subst h1 h2 h3 h4
  have hnw : ∀ fid, newWorker p { params := params, vals := vals, total := total, rounds := rounds, workers := workers } fid =
      newWorker p { params := params, vals := vals, total := total, rounds := rounds, workers := workers' } fid := by
    intro fid; rfl
  have hw : ((alookup m.feederID workers).getD (newWorker p { params := params, vals := vals, total := total, rounds := rounds, workers := workers } m.feederID)).Z =
      ((alookup m'.feederID workers').getD (newWorker p { params := params, vals := vals, total := total, rounds := rounds, workers := workers' } m'.feederID)).Z := by
    rw [getD_Z, getD_Z, ← alookup_amap, ← alookup_amap, h5, hf, hnw]
  unfold okG at hok
  simp only at hok
  unfold Agc.fillPrice
  simp only
  generalize (alookup m.feederID workers).getD (newWorker p { params := params, vals := vals, total := total, rounds := rounds, workers := workers } m.feederID) = w at hw hok ⊢
  generalize (alookup m'.feederID workers').getD (newWorker p { params := params, vals := vals, total := total, rounds := rounds, workers := workers' } m'.feederID) = w' at hw hok ⊢
  have hsl : w.sealed = w'.sealed := by
    have h := congrArg Worker.sealed hw; exact h
  have hs := Worker.run_sim w w' p ((alookup m.creator vals).getD 0) m m' hw hc hp hok
  rw [← hsl, ← hc, ← hf]
  cases hsd : w.sealed
  · simp only [Bool.false_eq_true, if_false]
    rcases hr : w.run p ((alookup m.creator vals).getD 0) m with ⟨w1, filled⟩
    rcases hr' : w'.run p ((alookup m.creator vals).getD 0) m' with ⟨w1', filled'⟩
    rw [hr, hr'] at hs
    obtain ⟨hs1, hs2⟩ := hs
    simp only at hs1 hs2
    subst hs2
    simp only
    obtain ⟨sealed1, price1, decimal1, f1, c1, a1⟩ := w1
    obtain ⟨sealed1', price1', decimal1', f1', c1', a1'⟩ := w1'
    have hs1' := hs1
    simp only [Worker.Z, Worker.mk.injEq] at hs1'
    obtain ⟨e1, e2, e3, e4, e5, e6⟩ := hs1'
    subst e1 e2 e3 e5 e6
    by_cases hl : filled.length > 0
    · simp only [hl, if_true]
      cases a1 with
      | none =>
        simp only [Agc.Z, amap_aset, h5, hw, hs1, and_self]
      | some a =>
        simp only
        cases hfin : (a.aggregate p.thA p.thB).final with
        | none =>
          simp only [Agc.Z, amap_aset, h5, hw]
          simp only [Worker.Z, e4, and_self]
        | some fp =>
          simp only [Agc.Z, amap_aset, h5, hw]
          simp only [Worker.Z, Option.map_none, hp, and_self]
    · simp only [hl, if_false, Agc.Z, amap_aset, h5, hw, hs1, and_self]
  · simp only [if_true, Agc.Z, amap_aset, h5, hw, and_self]

/-! ### sealing and round preparation do not look at the nonce sets -/

theorem sealOne_Z (p : Params) (h : Nat) (force : Bool) (g : Agc) (fid : Nat) :
    sealOne p h force g.Z fid = ((sealOne p h force g fid).1.Z, (sealOne p h force g fid).2) := by
  obtain ⟨params, vals, total, rounds, workers⟩ := g
  unfold sealOne
  simp only [Agc.Z]
  cases hr : alookup fid rounds with
  | none => rfl
  | some r =>
    simp only
    have hsl : ∀ (ws : List (Nat × Worker)) (rs : List (Nat × Round)) (x : Option Nat) (b : Bool),
        (match alookup fid (amap Worker.Z ws) with
          | some w => if w.sealed = true then (({ params := params, vals := vals, total := total, rounds := rs, workers := amap Worker.Z (adel fid ws) } : Agc), x, true)
              else (({ params := params, vals := vals, total := total, rounds := rs, workers := amap Worker.Z ws } : Agc), x, b)
          | none => (({ params := params, vals := vals, total := total, rounds := rs, workers := amap Worker.Z ws } : Agc), x, b)) =
        ((match alookup fid ws with
          | some w => if w.sealed = true then (({ params := params, vals := vals, total := total, rounds := rs, workers := adel fid ws } : Agc), x, true)
              else (({ params := params, vals := vals, total := total, rounds := rs, workers := ws } : Agc), x, b)
          | none => (({ params := params, vals := vals, total := total, rounds := rs, workers := ws } : Agc), x, b)).1.Z,
         (match alookup fid ws with
          | some w => if w.sealed = true then (({ params := params, vals := vals, total := total, rounds := rs, workers := adel fid ws } : Agc), x, true)
              else (({ params := params, vals := vals, total := total, rounds := rs, workers := ws } : Agc), x, b)
          | none => (({ params := params, vals := vals, total := total, rounds := rs, workers := ws } : Agc), x, b)).2) := by
      intro ws rs x b
      rw [alookup_amap]
      cases alookup fid ws with
      | none => rfl
      | some w =>
        simp only [Option.map_some]
        have : w.Z.sealed = w.sealed := rfl
        rw [this]
        cases w.sealed
        · rfl
        · simp only [if_true, Agc.Z]
    by_cases h1 : r.status = Status.open
    · by_cases h2 : ((decide (((p.feeder? fid).getD default).endBlock > 0) && decide (h ≥ ((p.feeder? fid).getD default).endBlock)) || decide (h - r.basedBlock ≥ p.maxNonce) || force) = true
      · simp only [h1, h2, if_true, ← amap_adel]
        exact hsl _ _ _ _
      · simp only [h1, h2, if_true, Bool.false_eq_true, if_false, ← amap_adel]
        exact hsl _ _ _ _
    · simp only [h1, if_false, ← amap_adel]
      exact hsl _ _ _ _

/-- the body of the fold in `Agc.sealRound` -/
def sealStep (p : Params) (h : Nat) (force : Bool) (acc : Agc × List Nat × List Nat) (fid : Nat) : Agc × List Nat × List Nat :=
  let (g', failed, s) := sealOne p h force acc.1 fid
  (g', (match failed with | some t => acc.2.1 ++ [t] | none => acc.2.1), if s then acc.2.2 ++ [fid] else acc.2.2)

theorem sealRound_eq (g : Agc) (p : Params) (h : Nat) (force : Bool) :
    g.sealRound p h force = (g.rounds.map (·.1)).foldl (sealStep p h force) (g, [], []) := rfl

theorem sealStep_Z (p : Params) (h : Nat) (force : Bool) (acc : Agc × List Nat × List Nat) (fid : Nat) :
    sealStep p h force (acc.1.Z, acc.2) fid = ((sealStep p h force acc fid).1.Z, (sealStep p h force acc fid).2) := by
  unfold sealStep
  simp only
  rw [sealOne_Z]

theorem sealRound_Z (g : Agc) (p : Params) (h : Nat) (force : Bool) :
    g.Z.sealRound p h force = ((g.sealRound p h force).1.Z, (g.sealRound p h force).2) := by
  rw [sealRound_eq, sealRound_eq]
  have hr : g.Z.rounds = g.rounds := rfl
  rw [hr]
  generalize (g.rounds.map (·.1)) = l
  have key : ∀ (l : List Nat) (acc : Agc × List Nat × List Nat),
      l.foldl (sealStep p h force) (acc.1.Z, acc.2) =
      ((l.foldl (sealStep p h force) acc).1.Z, (l.foldl (sealStep p h force) acc).2) := by
    intro l
    induction l with
    | nil => intro acc; rfl
    | cons fid t ih =>
      intro acc
      rw [List.foldl_cons, List.foldl_cons, sealStep_Z]
      exact ih _
  exact key l (g, [], [])

theorem prepareOne_Z (p : Params) (block : Nat) (g : Agc) (fid : Nat) (f : Feeder) :
    prepareOne p block g.Z fid f = ((prepareOne p block g fid f).1.Z, (prepareOne p block g fid f).2) := by
  obtain ⟨params, vals, total, rounds, workers⟩ := g
  unfold prepareOne
  simp only [Agc.Z]
  split
  · rfl
  · split
    · split <;> rfl
    · split
      · simp only [amap_adel]
      · split <;> rfl

theorem prepareLoop_Z (p : Params) (block : Nat) (fs : List Feeder) : ∀ (g : Agc) (i : Nat) (acc : List Nat),
    prepareLoop p block g.Z i fs acc = ((prepareLoop p block g i fs acc).1.Z, (prepareLoop p block g i fs acc).2) := by
  induction fs with
  | nil => intro g i acc; rfl
  | cons f fs ih =>
    intro g i acc
    unfold prepareLoop
    by_cases hi : i = 0
    · simp only [hi, if_true]; exact ih _ _ _
    · simp only [hi, if_false]
      rw [prepareOne_Z]
      exact ih _ _ _

theorem prepareRound_Z (g : Agc) (block : Nat) :
    g.Z.prepareRound block = ((g.prepareRound block).1.Z, (g.prepareRound block).2) := by
  unfold Agc.prepareRound
  have hp : g.Z.params = g.params := rfl
  rw [hp]
  split
  · rfl
  · split
    · rfl
    · exact prepareLoop_Z _ _ _ _ _ _

/-! ### the parameters of a context are only changed by `SetParams` -/

theorem fillPrice_params (g : Agc) (p : Params) (m : Msg) : (g.fillPrice p m).1.params = g.params := by
  unfold Agc.fillPrice
  simp only
  repeat' split
  all_goals rfl

theorem sealOne_params (p : Params) (h : Nat) (force : Bool) (g : Agc) (fid : Nat) :
    (sealOne p h force g fid).1.params = g.params := by
  unfold sealOne
  cases alookup fid g.rounds with
  | none => rfl
  | some r =>
    simp only
    by_cases h1 : r.status = Status.open
    · by_cases h2 : ((decide (((p.feeder? fid).getD default).endBlock > 0) && decide (h ≥ ((p.feeder? fid).getD default).endBlock)) || decide (h - r.basedBlock ≥ p.maxNonce) || force) = true
      · simp only [h1, h2, if_true]
        repeat' split
        all_goals rfl
      · simp only [h1, h2, if_true, Bool.false_eq_true, if_false]
        repeat' split
        all_goals rfl
    · simp only [h1, if_false]
      repeat' split
      all_goals rfl

theorem sealRound_params (g : Agc) (p : Params) (h : Nat) (force : Bool) :
    (g.sealRound p h force).1.params = g.params := by
  rw [sealRound_eq]
  generalize (g.rounds.map (·.1)) = l
  have key : ∀ (l : List Nat) (acc : Agc × List Nat × List Nat),
      (l.foldl (sealStep p h force) acc).1.params = acc.1.params := by
    intro l
    induction l with
    | nil => intro acc; rfl
    | cons fid t ih =>
      intro acc
      rw [List.foldl_cons, ih]
      exact sealOne_params p h force acc.1 fid
  exact key l (g, [], [])

theorem prepareOne_params (p : Params) (block : Nat) (g : Agc) (fid : Nat) (f : Feeder) :
    (prepareOne p block g fid f).1.params = g.params := by
  unfold prepareOne
  repeat' split
  all_goals rfl

theorem prepareLoop_params (p : Params) (block : Nat) (fs : List Feeder) : ∀ (g : Agc) (i : Nat) (acc : List Nat),
    (prepareLoop p block g i fs acc).1.params = g.params := by
  induction fs with
  | nil => intro g i acc; rfl
  | cons f fs ih =>
    intro g i acc
    unfold prepareLoop
    by_cases hi : i = 0
    · simp only [hi, if_true]; exact ih _ _ _
    · simp only [hi, if_false]
      rw [ih]
      exact prepareOne_params _ _ _ _ _

theorem prepareRound_params (g : Agc) (block : Nat) : (g.prepareRound block).1.params = g.params := by
  unfold Agc.prepareRound
  repeat' split
  · rfl
  · rfl
  · exact prepareLoop_params _ _ _ _ _ _

theorem replayMsgs_params (p : Params) (its : List ItemM) : ∀ (g g' : Agc),
    replayMsgs g (some p) its = some g' → g'.params = g.params := by
  induction its with
  | nil => intro g g' h; simp only [replayMsgs, Option.some.injEq] at h; rw [← h]
  | cons it rest ih =>
    intro g g' h
    simp only [replayMsgs] at h
    rw [ih _ _ h, fillPrice_params]

theorem replayMsgs_append (p : Params) (a b : List ItemM) : ∀ (g : Agc),
    replayMsgs g (some p) (a ++ b) = (replayMsgs g (some p) a).bind (fun g1 => replayMsgs g1 (some p) b) := by
  induction a with
  | nil => intro g; simp [replayMsgs]
  | cons it rest ih =>
    intro g
    simp only [List.cons_append, replayMsgs]
    exact ih _

/-! ### the live run of the model over a list of blocks (as the driver steps it:
`orc.begin` = height/time, `orc.tx` = `deliverTx`, `orc.end` = `endBlock`) -/

structure Block where
  blockTime : Int
  txs : List Tx
  updates : List (Nat × Int)
deriving Repr, DecidableEq

/-- `orc.begin` of the next height -/
def beginBlock (s : State) (bt : Int) : State := { s with height := s.height + 1, blockTime := bt }

def runTxs : State → List Tx → State × List TxOut
  | s, [] => (s, [])
  | s, tx :: txs =>
    let r := deliverTx s tx
    let rs := runTxs r.1 txs
    (rs.1, r.2 :: rs.2)

/-- one block: begin, the transactions, EndBlock. none = EndBlock panics. -/
def runBlock (s : State) (b : Block) : Option (State × List TxOut) :=
  let r := runTxs (beginBlock s b.blockTime) b.txs
  match endBlock r.1 b.updates with
  | some s2 => some (s2, r.2)
  | none => none

def runBlocks : State → List Block → Option (State × List (List TxOut))
  | s, [] => some (s, [])
  | s, b :: bs =>
    match runBlock s b with
    | none => none
    | some r =>
      match runBlocks r.1 bs with
      | none => none
      | some rs => some (rs.1, r.2 :: rs.2)

/-- `orc.restart` after the begin of the next block: every process-local singleton is dropped and
`GetAggregatorContext` rebuilds from the committed store. -/
def restartAt (s : State) (bt : Int) : Option State :=
  getAgc { beginBlock s bt with agc := none, cache := none }

/-- what `recacheAggregatorContext` feeds to `FillPrice` for a logged item -/
def replayOf (it : ItemM) : Msg :=
  { creator := it.validator, feederID := it.feederID, basedBlock := 0, nonce := 0, prices := it.srcs }

/-- the nonces already recorded for the message's validator at the worker the message is routed to -/
def nonceSet (g : Agc) (p : Params) (m : Msg) : List Int :=
  match ((alookup m.feederID g.workers).getD (newWorker p g m.feederID)).f with
  | some f => (alookup m.creator f.vNonce).getD []
  | none => []

theorem lookupW_Z (g g' : Agc) (p : Params) (fid : Nat) (hZ : g.Z = g'.Z) :
    ((alookup fid g.workers).getD (newWorker p g fid)).Z = ((alookup fid g'.workers).getD (newWorker p g' fid)).Z := by
  have hw : amap Worker.Z g.workers = amap Worker.Z g'.workers := by
    have h := congrArg Agc.workers hZ; exact h
  have hv : g.vals = g'.vals := by have h := congrArg Agc.vals hZ; exact h
  have ht : g.total = g'.total := by have h := congrArg Agc.total hZ; exact h
  have hn : newWorker p g fid = newWorker p g' fid := by simp only [newWorker, hv, ht]
  rw [getD_Z, getD_Z, ← alookup_amap, ← alookup_amap, hw, hn]

theorem zeroL_nil_iff (l : List Int) : zeroL l = [] ↔ l = [] := by
  cases l <;> simp [zeroL]

/-- a first message passes (or fails) the nonce filter whatever nonce it carries — on both sides -/
theorem okG_fresh (g g' : Agc) (p : Params) (m m' : Msg) (hZ : g.Z = g'.Z)
    (hc : m.creator = m'.creator) (hf : m.feederID = m'.feederID) (hfresh : nonceSet g p m = []) :
    okG g p m = okG g' p m' := by
  have hw := lookupW_Z g g' p m.feederID hZ
  unfold okG
  unfold nonceSet at hfresh
  rw [← hf]
  generalize (alookup m.feederID g.workers).getD (newWorker p g m.feederID) = w at hw hfresh ⊢
  generalize (alookup m.feederID g'.workers).getD (newWorker p g' m.feederID) = w' at hw ⊢
  obtain ⟨sealed, price, decimal, f, c, a⟩ := w
  obtain ⟨sealed', price', decimal', f', c', a'⟩ := w'
  simp only [Worker.Z, Worker.mk.injEq] at hw
  obtain ⟨-, -, -, h4, -, -⟩ := hw
  cases f with
  | none =>
    cases f' with
    | none => rfl
    | some f' => simp at h4
  | some f =>
    cases f' with
    | none => simp at h4
    | some f' =>
      simp only [Option.map_some, Option.some.injEq] at h4
      simp only at hfresh
      have hmn : f.maxNonce = f'.maxNonce := by have h := congrArg Filter.maxNonce h4; exact h
      have hvn : amap zeroL f.vNonce = amap zeroL f'.vNonce := by have h := congrArg Filter.vNonce h4; exact h
      have hcur : zeroL ((alookup m.creator f.vNonce).getD []) = zeroL ((alookup m'.creator f'.vNonce).getD []) := by
        rw [zeroL_getD, zeroL_getD, ← alookup_amap, ← alookup_amap, hvn, hc]
      rw [hfresh] at hcur
      have hcur' : (alookup m'.creator f'.vNonce).getD [] = [] := (zeroL_nil_iff _).mp hcur.symm
      simp only [okW, okBit, hfresh, hcur', hmn, setAdd]
      by_cases hz : 0 = f'.maxNonce
      · simp [hz]
      · simp [hz]

/-! ### the monitor of the replay window (decidable; evaluated on the live run) -/

/-- one `CreatePrice` call of the window is reproducible from the log: if it reaches `FillPrice`,
(a) the result is "cached" (the message was logged — not ignored, and not the finalizing message,
which the log drops: F-14b), (b) it is the first message of its validator at that worker (F-14a),
(c) feeding the *logged* sources (the filter's output, which is what `cache.ItemM` keeps) to the
same state reproduces the step (the filter is re-entrant on its own output). -/
def msgOK (s : State) (m : Msg) : Bool :=
  if !(checkTimestamp s.blockTime m) then true
  else match s.agc with
    | none => false
    | some g =>
      match g.params with
      | none => false
      | some p =>
        match g.checkMsg p m with
        | some _ => true
        | none =>
          match (g.fillPrice p m).2 with
          | .cached it =>
            decide (nonceSet g p m = []) &&
            decide (g.fillPrice p { m with prices := it.srcs } = g.fillPrice p m)
          | _ => false

def msgsOK : State → List Msg → Bool
  | _, [] => true
  | s, m :: ms =>
    msgOK s m &&
    match createPrice s m with
    | (s', .ok) => msgsOK s' ms
    | (_, .err _) => true

def txOK (s : State) (tx : Tx) : Bool :=
  match anteHandle s tx with
  | .error _ => true
  | .ok st => msgsOK { s with store := st } tx.msgs

def txsOK : State → List Tx → Bool
  | _, [] => true
  | s, tx :: txs => txOK s tx && txsOK (deliverTx s tx).1 txs

/-- the live state `s` is tracked by the replay of the items cached so far in this block -/
def Tracks (p : Params) (c0 : Cache) (g0 : Agc) (h : Nat) (dog : List (Nat × Int)) (s : State) : Prop :=
  ∃ gl its gr, s.agc = some gl ∧ gl.params = some p ∧ s.cache = some { c0 with msgs := its } ∧
    replayMsgs g0 (some p) its = some gr ∧ gl.Z = gr.Z ∧ s.height = h ∧ s.dogfood = dog

theorem Tracks_store (p : Params) (c0 : Cache) (g0 : Agc) (h : Nat) (dog : List (Nat × Int)) (s : State) (st : Store)
    (hT : Tracks p c0 g0 h dog s) : Tracks p c0 g0 h dog { s with store := st } := hT

theorem createPrice_tracks (p : Params) (c0 : Cache) (g0 : Agc) (h : Nat) (dog : List (Nat × Int)) (s : State) (m : Msg)
    (hT : Tracks p c0 g0 h dog s) (hok : msgOK s m = true) :
    Tracks p c0 g0 h dog (createPrice s m).1 ∧ (createPrice s m).1.blockTime = s.blockTime := by
  obtain ⟨gl, its, gr, ha, hp, hc, hr, hz, hh, hd⟩ := hT
  obtain ⟨store, agc, cache, dogfood, height, blockTime⟩ := s
  simp only at ha hc hh hd
  subst ha hc hh hd
  unfold msgOK at hok
  unfold createPrice
  simp only at hok ⊢
  by_cases hts : checkTimestamp blockTime m = true
  · simp only [hts, Bool.not_true, Bool.false_eq_true, if_false, hp] at hok ⊢
    simp only [getAgc, State.cacheD, Option.getD_some, hp]
    cases hck : gl.checkMsg p m with
    | some e => exact ⟨⟨gl, its, gr, rfl, hp, rfl, hr, hz, rfl, rfl⟩, rfl⟩
    | none =>
      simp only [hck] at hok ⊢
      cases hres : (gl.fillPrice p m).2 with
      | final it => simp [hres] at hok
      | ignored => simp [hres] at hok
      | cached it =>
        simp only [hres, Bool.and_eq_true, decide_eq_true_eq] at hok
        obtain ⟨hfresh, hre⟩ := hok
        simp only [State.cacheD, Option.getD_some]
        refine ⟨⟨(gl.fillPrice p m).1, its ++ [it], (gr.fillPrice p (replayOf it)).1, rfl, ?_, rfl, ?_, ?_, rfl, rfl⟩, trivial⟩
        · rw [fillPrice_params]; exact hp
        · rw [replayMsgs_append, hr]
          simp only [Option.bind_some, replayMsgs, replayOf]
        · -- live step = live step on the logged sources = replayed step (nonce irrelevant)
          have hit : it.feederID = m.feederID ∧ it.validator = m.creator := by
            have h2 := hres
            unfold Agc.fillPrice at h2
            simp only at h2
            repeat' split at h2
            all_goals first | (simp only [FillRes.cached.injEq] at h2; subst h2; exact ⟨rfl, rfl⟩) | (exact absurd h2 (by simp))
          rw [← hre]
          have hfresh' : nonceSet gl p { m with prices := it.srcs } = [] := hfresh
          have hok' := okG_fresh gl gr p { m with prices := it.srcs } (replayOf it) hz hit.2.symm hit.1.symm hfresh'
          exact (Agc.fillPrice_sim gl gr p { m with prices := it.srcs } (replayOf it) hz hit.2.symm hit.1.symm rfl hok').1
  · simp only [hts, Bool.not_false, if_true]
    exact ⟨⟨gl, its, gr, rfl, hp, rfl, hr, hz, rfl, rfl⟩, trivial⟩

theorem runMsgs_tracks (p : Params) (c0 : Cache) (g0 : Agc) (h : Nat) (dog : List (Nat × Int)) (ms : List Msg) :
    ∀ (s : State) (i : Nat), Tracks p c0 g0 h dog s → msgsOK s ms = true → Tracks p c0 g0 h dog (runMsgs s i ms).1 := by
  induction ms with
  | nil => intro s i hT _; exact hT
  | cons m ms ih =>
    intro s i hT hok
    simp only [msgsOK, Bool.and_eq_true] at hok
    obtain ⟨h1, h2⟩ := hok
    have hc := (createPrice_tracks p c0 g0 h dog s m hT h1).1
    unfold runMsgs
    rcases hcp : createPrice s m with ⟨s', out⟩
    rw [hcp] at hc h2
    cases out with
    | ok => exact ih s' (i + 1) hc h2
    | err e => exact hc

theorem deliverTx_tracks (p : Params) (c0 : Cache) (g0 : Agc) (h : Nat) (dog : List (Nat × Int)) (s : State) (tx : Tx)
    (hT : Tracks p c0 g0 h dog s) (hok : txOK s tx = true) : Tracks p c0 g0 h dog (deliverTx s tx).1 := by
  unfold deliverTx
  unfold txOK at hok
  cases ha : anteHandle s tx with
  | error why => exact hT
  | ok st =>
    rw [ha] at hok
    simp only at hok ⊢
    have h1 := runMsgs_tracks p c0 g0 h dog tx.msgs { s with store := st } 0 (Tracks_store p c0 g0 h dog s st hT) hok
    rcases hr : runMsgs { s with store := st } 0 tx.msgs with ⟨s2, r⟩
    rw [hr] at h1
    cases r with
    | none => exact h1
    | some ie => exact Tracks_store p c0 g0 h dog s2 st h1

theorem runTxs_tracks (p : Params) (c0 : Cache) (g0 : Agc) (h : Nat) (dog : List (Nat × Int)) (txs : List Tx) :
    ∀ (s : State), Tracks p c0 g0 h dog s → txsOK s txs = true → Tracks p c0 g0 h dog (runTxs s txs).1 := by
  induction txs with
  | nil => intro s hT _; exact hT
  | cons tx txs ih =>
    intro s hT hok
    simp only [txsOK, Bool.and_eq_true] at hok
    exact ih _ (deliverTx_tracks p c0 g0 h dog s tx hT hok.1) hok.2

theorem seal_prep_Z (g : Agc) (p : Params) (h : Nat) (f : Bool) (b : Nat) :
    ((g.sealRound p h f).1.prepareRound b).1.Z = ((g.Z.sealRound p h f).1.prepareRound b).1 := by
  rw [sealRound_Z, prepareRound_Z]

/-- EndBlock without validator updates and without a pending params/validator commit: the context
is sealed and prepared, the cache is emptied; nothing else of the process memory changes. -/
theorem endBlock_tracks (p : Params) (c0 : Cache) (g0 : Agc) (h : Nat) (dog : List (Nat × Int)) (s : State)
    (hT : Tracks p c0 g0 h dog s) (hv : c0.vUpdate = false) (hpu : c0.pUpdate = false) :
    ∃ s2 gl2 gr, endBlock s [] = some s2 ∧ replayMsgs g0 (some p) s.cacheD.msgs = some gr ∧
      s2.agc = some gl2 ∧ gl2.params = some p ∧
      gl2.Z = ((gr.sealRound p h false).1.prepareRound h).1.Z ∧
      s2.cache = some { c0 with msgs := [] } ∧ s2.height = h ∧ s2.dogfood = dog := by
  obtain ⟨gl, its, gr, ha, hp, hc, hr, hz, hh, hd⟩ := hT
  obtain ⟨store, agc, cache, dogfood, height, blockTime⟩ := s
  simp only at ha hc hh hd
  subst ha hc hh hd
  obtain ⟨cm, cv, cvu, cp, cpu⟩ := c0
  simp only at hv hpu
  subst hv hpu
  simp only [endBlock, List.foldl_nil, State.cacheD, Option.getD_some, getAgc, List.length_nil, Nat.lt_irrefl,
    if_false, hp, Bool.false_eq_true, gt_iff_lt]
  refine ⟨_, _, gr, rfl, hr, rfl, ?_, ?_, rfl, rfl, rfl⟩
  · rw [prepareRound_params, sealRound_params]; exact hp
  · rw [seal_prep_Z, seal_prep_Z, hz]

/-! ### the window induction -/

/-- the monitor over the blocks of the replay window: no validator-set update, every message
reproducible from the log (`msgOK`), and the persisted log `msgs` still holds exactly the items
cached in that block. -/
def winOK (msgs : List (Nat × List ItemM)) : State → List Block → Bool
  | _, [] => true
  | s, b :: bs =>
    b.updates.isEmpty && txsOK (beginBlock s b.blockTime) b.txs &&
    decide ((alookup (s.height + 1) msgs).getD [] = (runTxs (beginBlock s b.blockTime) b.txs).1.cacheD.msgs) &&
    match endBlock (runTxs (beginBlock s b.blockTime) b.txs).1 b.updates with
    | some s2 => winOK msgs s2 bs
    | none => false

/-- at a block boundary the live context is the replay state after its pending `PrepareRoundEndBlock` -/
def Boundary (p : Params) (c0 : Cache) (dog : List (Nat × Int)) (s : State) (g : Agc) : Prop :=
  ∃ gl, s.agc = some gl ∧ gl.params = some p ∧ s.cache = some c0 ∧ s.dogfood = dog ∧
    gl.Z = (g.prepareRound s.height).1.Z ∧ g.params = some p

theorem pickParams_nil (prev bound : Nat) : pickParams [] prev bound = none := rfl

theorem window_sim (p : Params) (c0 : Cache) (dog : List (Nat × Int)) (recent : List (Nat × Params))
    (msgs : List (Nat × List ItemM)) (prev : Nat)
    (hm : c0.msgs = []) (hv : c0.vUpdate = false) (hpu : c0.pUpdate = false) (win : List Block) :
    ∀ (s : State) (g : Agc), Boundary p c0 dog s g → winOK msgs s win = true →
      ∃ s' outs g', runBlocks s win = some (s', outs) ∧
        replayLoop recent msgs win.length (s.height + 1) prev g [] = some (g', prev, []) ∧
        Boundary p c0 dog s' g' ∧ s'.height = s.height + win.length := by
  induction win with
  | nil =>
    intro s g hB _
    exact ⟨s, [], g, rfl, rfl, hB, rfl⟩
  | cons b bs ih =>
    intro s g hB hok
    obtain ⟨gl, ha, hp, hc, hd, hz, hgp⟩ := hB
    simp only [winOK, Bool.and_eq_true, List.isEmpty_iff, decide_eq_true_eq] at hok
    obtain ⟨⟨⟨hup, htx⟩, hlog⟩, hrest⟩ := hok
    have hc0 : ({ c0 with msgs := [] } : Cache) = c0 := by
      obtain ⟨cm, cv, cvu, cp, cpu⟩ := c0
      simp only at hm; subst hm; rfl
    have hT0 : Tracks p c0 (g.prepareRound s.height).1 (s.height + 1) dog (beginBlock s b.blockTime) :=
      ⟨gl, [], (g.prepareRound s.height).1, ha, hp, by rw [hc0]; exact hc, rfl, hz, rfl, hd⟩
    have hT1 := runTxs_tracks p c0 _ _ dog b.txs _ hT0 htx
    obtain ⟨s2, gl2, gr, he, hrm, ha2, hp2, hz2, hc2, hh2, hd2⟩ := endBlock_tracks p c0 _ _ dog _ hT1 hv hpu
    rw [hup] at hrest
    rw [he] at hrest
    simp only at hrest
    have hgrp : gr.params = some p := by
      rw [replayMsgs_params p _ _ _ hrm, prepareRound_params]; exact hgp
    have hB2 : Boundary p c0 dog s2 (gr.sealRound p (s.height + 1) false).1 :=
      ⟨gl2, ha2, hp2, by rw [hc2, hc0], hd2, by rw [hh2]; exact hz2, by rw [sealRound_params]; exact hgrp⟩
    obtain ⟨s', outs, g', hrun, hloop, hB', hh'⟩ := ih s2 _ hB2 hrest
    refine ⟨s', (runTxs (beginBlock s b.blockTime) b.txs).2 :: outs, g', ?_, ?_, hB', ?_⟩
    · simp only [runBlocks, runBlock, hup, he, hrun]
    · simp only [List.length_cons, replayLoop, pickParams_nil, Nat.add_sub_cancel]
      have hg2p : (g.prepareRound s.height).1.params = some p := by rw [prepareRound_params]; exact hgp
      rw [hg2p, hlog, hrm]
      simp only [hgrp]
      rw [hh2] at hloop
      exact hloop
    · rw [hh', hh2]; simp only [List.length_cons]; omega

/-! ### `Faithful` and the restart theorem -/

theorem runBlocks_append (a b : List Block) : ∀ (s : State),
    runBlocks s (a ++ b) =
      match runBlocks s a with
      | none => none
      | some r => match runBlocks r.1 b with
        | none => none
        | some r2 => some (r2.1, r.2 ++ r2.2) := by
  induction a with
  | nil =>
    intro s
    simp only [List.nil_append, runBlocks, List.nil_append]
    cases runBlocks s b <;> rfl
  | cons x a ih =>
    intro s
    simp only [List.cons_append, runBlocks]
    cases runBlock s x with
    | none => rfl
    | some r =>
      simp only [ih]
      cases runBlocks r.1 a with
      | none => rfl
      | some r1 =>
        simp only
        cases runBlocks r1.1 b with
        | none => rfl
        | some r2 => simp

/-- single.go: the context `recacheAggregatorContext` starts from (validators from x/dogfood) -/
def recStartAgc (dog : List (Nat × Int)) : Agc :=
  ({ params := none, vals := [], total := 0, rounds := [], workers := [] } : Agc).setValidators dog

/-- single.go: the cache a recached node ends up with (validators re-added, params cached, SkipCommit) -/
def recCache (p : Params) (dog : List (Nat × Int)) : Cache :=
  { msgs := [], vals := (cacheAddVals [] dog).1, vUpdate := false, params := some p, pUpdate := false }

/-- single.go: `from` for a restart in block `height + 1`, given ValidatorUpdateBlock `h` -/
def replayFromI (s : State) (h : Nat) : Int :=
  if (h : Int) ≥ ((s.height + 1 : Nat) : Int) - (s.store.params.maxNonce : Int) + 1 then (h : Int) + 1
  else ((s.height + 1 : Nat) : Int) - (s.store.params.maxNonce : Int) + 1

/-- the state at the start of the replay window is what replay starts from: the live context after
EndBlock of height `from − 1` is (up to nonces) the freshly prepared context, the cache is the one a
recached node holds, no round is in progress with messages older than the window -/
def startOK (s sp : State) : Bool :=
  decide (sp.cache = some (recCache s.store.params s.dogfood)) &&
  match sp.agc with
  | some gl =>
    decide (gl.params = some s.store.params) &&
    decide (gl.Z = (({ recStartAgc s.dogfood with params := some s.store.params } : Agc).prepareRound sp.height).1.Z)
  | none => false

def faithfulAt (s0 : State) (bs : List Block) (s : State) (h h0 : Nat) (p0 : Params) : Bool :=
  decide (p0 = s.store.params) && decide (0 < h0) && decide ((h0 : Int) < replayFromI s h) &&
  decide (replayFromI s h < ((s.height + 1 : Nat) : Int)) &&
  decide (s.height + 1 - (replayFromI s h).toNat ≤ bs.length) &&
  match runBlocks s0 (bs.take (bs.length - (s.height + 1 - (replayFromI s h).toNat))) with
  | none => false
  | some r =>
    decide (r.1.height + 1 = (replayFromI s h).toNat) && startOK s r.1 &&
    winOK s.store.recentMsgs r.1 (bs.drop (bs.length - (s.height + 1 - (replayFromI s h).toNat)))

/-- the decidable hypothesis of the partial theorem (see Props/C14.lean for the reading) -/
def faithful (s0 : State) (bs : List Block) : Bool :=
  match runBlocks s0 bs with
  | none => false
  | some r =>
    match r.1.store.vuBlock with
    | none => false
    | some h =>
      match r.1.store.recentParams with
      | [(h0, p0)] => faithfulAt s0 bs r.1 h h0 p0
      | _ => false

theorem replayLoop_first (recent : List (Nat × Params)) (msgs : List (Nat × List ItemM)) (fuel frm h0 : Nat)
    (p : Params) (g : Agc) (h1 : 0 < h0) (h2 : h0 < frm) :
    replayLoop recent msgs (fuel + 1) frm 0 g [(h0, p)] =
      replayLoop recent msgs (fuel + 1) frm h0 { g with params := some p } [] := by
  simp [replayLoop, pickParams, h1, h2]

theorem restart_equiv (s0 : State) (bs : List Block) (bt : Int) (hF : faithful s0 bs = true) :
    ∃ s outs gl gr, runBlocks s0 bs = some (s, outs) ∧ s.agc = some gl ∧
      restartAt s bt = some { beginBlock s bt with agc := some gr } ∧ gr.Z = gl.Z := by
  unfold faithful at hF
  rcases hrun : runBlocks s0 bs with _ | ⟨s, outs⟩
  · simp [hrun] at hF
  rw [hrun] at hF
  simp only at hF
  rcases hvu : s.store.vuBlock with _ | h
  · simp [hvu] at hF
  rw [hvu] at hF; simp only at hF
  rcases hrp : s.store.recentParams with _ | ⟨⟨h0, p0⟩, _ | ⟨x, t⟩⟩
  · simp [hrp] at hF
  · rw [hrp] at hF; simp only at hF
    unfold faithfulAt at hF
    simp only [Bool.and_eq_true, decide_eq_true_eq] at hF
    obtain ⟨⟨⟨⟨⟨hp0, hh0⟩, hlt⟩, hfr⟩, hk⟩, hrest⟩ := hF
    generalize hfI : replayFromI s h = frmI at hlt hfr hk hrest
    rcases hpre : runBlocks s0 (bs.take (bs.length - (s.height + 1 - frmI.toNat))) with _ | ⟨sp, o1⟩
    · simp [hpre] at hrest
    rw [hpre] at hrest
    simp only [Bool.and_eq_true, decide_eq_true_eq] at hrest
    obtain ⟨⟨hsph, hstart⟩, hwin⟩ := hrest
    unfold startOK at hstart
    rcases hspa : sp.agc with _ | gl0
    · simp [hspa] at hstart
    rw [hspa] at hstart
    simp only [Bool.and_eq_true, decide_eq_true_eq] at hstart
    obtain ⟨hcache, hgp, hgz⟩ := hstart
    have hB : Boundary s.store.params (recCache s.store.params s.dogfood) sp.dogfood sp
        ({ recStartAgc s.dogfood with params := some s.store.params } : Agc) :=
      ⟨gl0, hspa, hgp, hcache, rfl, hgz, rfl⟩
    obtain ⟨s', outs', g', hrun', hloop, hB', hh'⟩ :=
      window_sim s.store.params (recCache s.store.params s.dogfood) sp.dogfood s.store.recentParams
        s.store.recentMsgs h0 rfl rfl rfl _ sp _ hB hwin
    have hsplit := runBlocks_append (bs.take (bs.length - (s.height + 1 - frmI.toNat)))
      (bs.drop (bs.length - (s.height + 1 - frmI.toNat))) s0
    rw [List.take_append_drop, hrun, hpre] at hsplit
    simp only [hrun'] at hsplit
    have hs' : s' = s := by
      simp only [Option.some.injEq, Prod.mk.injEq] at hsplit
      exact hsplit.1.symm
    subst hs'
    obtain ⟨gl, ha, hp, hc, hd, hz, hgp'⟩ := hB'
    have hlen : (bs.drop (bs.length - (s'.height + 1 - frmI.toNat))).length = s'.height + 1 - frmI.toNat := by
      rw [List.length_drop]; omega
    rw [hlen] at hloop hh'
    refine ⟨s', outs, gl, (g'.prepareRound s'.height).1, rfl, ha, ?_, hz.symm⟩
    unfold restartAt getAgc
    simp only [beginBlock]
    unfold recacheAgc
    simp only [hvu, hrp, List.length_cons, List.length_nil]
    unfold replayFromI at hfI
    simp only [hfI]
    have hpos : (h0 : Int) < frmI := hlt
    have hnot : ¬ (frmI ≥ ((s'.height + 1 : Nat) : Int)) := by omega
    simp only [hnot, if_false]
    obtain ⟨k', hk'⟩ : ∃ k', s'.height + 1 - frmI.toNat = k' + 1 := ⟨s'.height - frmI.toNat, by omega⟩
    have hh0' : h0 < frmI.toNat := by omega
    rw [hrp, hsph, ← hp0] at hloop
    rw [hk'] at hloop ⊢
    rw [replayLoop_first _ _ _ _ _ _ _ hh0 hh0']
    simp only [recStartAgc] at hloop
    rw [hloop]
    simp only [pickParams_nil, Nat.add_sub_cancel]
    have hg3 : (g'.prepareRound s'.height).1.params = some s'.store.params := by
      rw [prepareRound_params]; exact hgp'
    have heta : ({ (g'.prepareRound s'.height).1 with params := some s'.store.params } : Agc) = (g'.prepareRound s'.height).1 := by
      rw [← hg3]
    simp only [Nat.reduceAdd, Nat.succ_ne_zero, if_false, heta]
    rw [hc]
    rfl
  · simp [hrp] at hF

/-! ### continuation: the live and the restarted node stay in step -/

/-- the two process states differ only in the aggregator context, and there only up to nonces -/
def SRel (s s' : State) : Prop := ∃ g g', s.agc = some g ∧ s' = { s with agc := some g' } ∧ g.Z = g'.Z

theorem checkMsg_Z (g g' : Agc) (p : Params) (m : Msg) (hZ : g.Z = g'.Z) : g.checkMsg p m = g'.checkMsg p m := by
  have hv : g.vals = g'.vals := by have h := congrArg Agc.vals hZ; exact h
  have hr : g.rounds = g'.rounds := by have h := congrArg Agc.rounds hZ; exact h
  simp only [Agc.checkMsg, Agc.sanityCheck, hv, hr]

/-- the nonce filter gives the same bit on both nodes for this message (decidable; see Props/C14) -/
def bitOK (s s' : State) (m : Msg) : Bool :=
  match s.agc, s'.agc with
  | some g, some g' =>
    match g.params with
    | some p => (g.checkMsg p m).isSome || (okG g p m == okG g' p m)
    | none => true
  | _, _ => true

theorem createPrice_rel (s s' : State) (m : Msg) (hR : SRel s s') (hb : bitOK s s' m = true) :
    (createPrice s m).2 = (createPrice s' m).2 ∧ SRel (createPrice s m).1 (createPrice s' m).1 := by
  obtain ⟨g, g', ha, hs', hz⟩ := hR
  subst hs'
  obtain ⟨store, agc, cache, dogfood, height, blockTime⟩ := s
  simp only at ha
  subst ha
  have hpp : g.params = g'.params := by have h := congrArg Agc.params hz; exact h
  simp only [bitOK] at hb
  simp only [createPrice, getAgc, State.cacheD]
  by_cases hts : checkTimestamp blockTime m = true
  · simp only [hts, Bool.not_true, Bool.false_eq_true, if_false, ← hpp]
    cases hp : g.params with
    | none => exact ⟨rfl, g, g', rfl, rfl, hz⟩
    | some p =>
      simp only [hp] at hb ⊢
      rw [← checkMsg_Z g g' p m hz]
      cases hck : g.checkMsg p m with
      | some e => exact ⟨rfl, g, g', rfl, rfl, hz⟩
      | none =>
        simp only [hck, Option.isSome_none, Bool.false_or, beq_iff_eq] at hb
        obtain ⟨h1, h2⟩ := Agc.fillPrice_sim g g' p m m hz rfl rfl rfl hb
        rcases hf : g.fillPrice p m with ⟨g1, res⟩
        rcases hf' : g'.fillPrice p m with ⟨g1', res'⟩
        rw [hf, hf'] at h1 h2
        simp only at h1 h2
        subst h2
        have hv : g1.vals = g1'.vals := by have h := congrArg Agc.vals h1; exact h
        simp only
        cases res with
        | ignored => exact ⟨rfl, g1, g1', rfl, rfl, h1⟩
        | cached it => exact ⟨rfl, g1, g1', rfl, rfl, h1⟩
        | final it =>
          simp only [hv]
          exact ⟨trivial, g1, g1', rfl, rfl, h1⟩
  · simp only [hts, Bool.not_false, if_true]
    exact ⟨trivial, g, g', rfl, rfl, hz⟩

theorem SRel_store (s s' : State) (st : Store) (hR : SRel s s') : SRel { s with store := st } { s' with store := st } := by
  obtain ⟨g, g', ha, hs', hz⟩ := hR
  subst hs'
  exact ⟨g, g', ha, rfl, hz⟩

theorem SRel_begin (s s' : State) (bt : Int) (hR : SRel s s') : SRel (beginBlock s bt) (beginBlock s' bt) := by
  obtain ⟨g, g', ha, hs', hz⟩ := hR
  subst hs'
  exact ⟨g, g', ha, rfl, hz⟩

theorem anteHandle_rel (s s' : State) (tx : Tx) (hR : SRel s s') : anteHandle s' tx = anteHandle s tx := by
  obtain ⟨g, g', ha, hs', hz⟩ := hR
  subst hs'
  rfl

def msgsBits : State → State → List Msg → Bool
  | _, _, [] => true
  | s, s', m :: ms =>
    bitOK s s' m &&
    match createPrice s m with
    | (t, .ok) => msgsBits t (createPrice s' m).1 ms
    | (_, .err _) => true

def txBits (s s' : State) (tx : Tx) : Bool :=
  match anteHandle s tx with
  | .error _ => true
  | .ok st => msgsBits { s with store := st } { s' with store := st } tx.msgs

def txsBits : State → State → List Tx → Bool
  | _, _, [] => true
  | s, s', tx :: txs => txBits s s' tx && txsBits (deliverTx s tx).1 (deliverTx s' tx).1 txs

theorem runMsgs_rel (ms : List Msg) : ∀ (s s' : State) (i : Nat), SRel s s' → msgsBits s s' ms = true →
    (runMsgs s i ms).2 = (runMsgs s' i ms).2 ∧ SRel (runMsgs s i ms).1 (runMsgs s' i ms).1 := by
  induction ms with
  | nil => intro s s' i hR _; exact ⟨rfl, hR⟩
  | cons m ms ih =>
    intro s s' i hR hb
    simp only [msgsBits, Bool.and_eq_true] at hb
    obtain ⟨h1, h2⟩ := hb
    obtain ⟨ho, hR1⟩ := createPrice_rel s s' m hR h1
    unfold runMsgs
    rcases hc : createPrice s m with ⟨t, out⟩
    rcases hc' : createPrice s' m with ⟨t', out'⟩
    rw [hc, hc'] at ho hR1
    rw [hc] at h2
    simp only at ho hR1 h2
    subst ho
    cases out with
    | ok =>
      simp only [hc'] at h2
      exact ih t t' (i + 1) hR1 h2
    | err e => exact ⟨rfl, hR1⟩

theorem deliverTx_rel (s s' : State) (tx : Tx) (hR : SRel s s') (hb : txBits s s' tx = true) :
    (deliverTx s tx).2 = (deliverTx s' tx).2 ∧ SRel (deliverTx s tx).1 (deliverTx s' tx).1 := by
  unfold deliverTx
  rw [anteHandle_rel s s' tx hR]
  unfold txBits at hb
  cases ha : anteHandle s tx with
  | error why => exact ⟨rfl, hR⟩
  | ok st =>
    rw [ha] at hb
    simp only at hb ⊢
    obtain ⟨h1, h2⟩ := runMsgs_rel tx.msgs _ _ 0 (SRel_store s s' st hR) hb
    rcases hr : runMsgs { s with store := st } 0 tx.msgs with ⟨t, r⟩
    rcases hr' : runMsgs { s' with store := st } 0 tx.msgs with ⟨t', r'⟩
    rw [hr, hr'] at h1 h2
    simp only at h1 h2
    subst h1
    cases r with
    | none => exact ⟨rfl, h2⟩
    | some ie => exact ⟨rfl, SRel_store t t' st h2⟩

theorem runTxs_rel (txs : List Tx) : ∀ (s s' : State), SRel s s' → txsBits s s' txs = true →
    (runTxs s txs).2 = (runTxs s' txs).2 ∧ SRel (runTxs s txs).1 (runTxs s' txs).1 := by
  induction txs with
  | nil => intro s s' hR _; exact ⟨rfl, hR⟩
  | cons tx txs ih =>
    intro s s' hR hb
    simp only [txsBits, Bool.and_eq_true] at hb
    obtain ⟨h1, h2⟩ := deliverTx_rel s s' tx hR hb.1
    obtain ⟨h3, h4⟩ := ih _ _ h2 hb.2
    simp only [runTxs, h1, h3]
    exact ⟨trivial, h4⟩

theorem sealRound_rel (g g' : Agc) (p : Params) (h : Nat) (f : Bool) (hz : g.Z = g'.Z) :
    (g.sealRound p h f).2 = (g'.sealRound p h f).2 ∧ (g.sealRound p h f).1.Z = (g'.sealRound p h f).1.Z := by
  have h1 := sealRound_Z g p h f
  have h2 := sealRound_Z g' p h f
  rw [hz] at h1
  have h3 := h1.symm.trans h2
  simp only [Prod.mk.injEq] at h3
  exact ⟨h3.2, h3.1⟩

theorem prepareRound_rel (g g' : Agc) (b : Nat) (hz : g.Z = g'.Z) :
    (g.prepareRound b).2 = (g'.prepareRound b).2 ∧ (g.prepareRound b).1.Z = (g'.prepareRound b).1.Z := by
  have h1 := prepareRound_Z g b
  have h2 := prepareRound_Z g' b
  rw [hz] at h1
  have h3 := h1.symm.trans h2
  simp only [Prod.mk.injEq] at h3
  exact ⟨h3.2, h3.1⟩


/-! ### the code before the F-14c / F-14d repairs (kept only for the regression theorems) -/

/-- caches.go: cacheMsgs.commit *before* the F-14d repair: the bound is the wrapping uint64
expression `block - MaxNonce` -/
def commitMsgsPreFix (s : Store) (maxNonce block : Nat) (msgs : List ItemM) : Store :=
  let dropped := s.msgIndex.takeWhile (fun b => !(b > wrapSub64 block maxNonce))
  let kept := s.msgIndex.dropWhile (fun b => !(b > wrapSub64 block maxNonce))
  let rm := dropped.foldl (fun l b => adel b l) s.recentMsgs
  { s with recentMsgs := aset block msgs rm, msgIndex := kept ++ [block] }

/-- single.go: recacheAggregatorContext *before* the F-14c repair, restricted to its `from >= to`
branch (the only part that changed): params and validators are set, no round is prepared. -/
def recacheShortBranchPreFix (s : State) : Option Agc :=
  match s.store.vuBlock with
  | none => none
  | some _ =>
    let g : Agc := { params := none, vals := [], total := 0, rounds := [], workers := [] }
    let g := g.setValidators s.dogfood
    let best := s.store.recentParams.foldl (fun (acc : Option (Nat × Params)) kv =>
      match acc with | some x => if kv.1 > x.1 then some kv else acc | none => some kv) none
    match best with
    | some (_, _) => some { g with params := some s.store.params }
    | none => none

/-- single.go: `from` *before* the F-14f repair in a freshly started process: the window length is the
compiled-in default of the package variable `common.MaxNonce` (3), not the stored params -/
def replayFromIPreFix (s : State) (h : Nat) : Int :=
  if (h : Int) ≥ ((s.height + 1 : Nat) : Int) - 3 + 1 then (h : Int) + 1
  else ((s.height + 1 : Nat) : Int) - 3 + 1

end ExoVerif.Oracle
