import ExoVerif.Proofs.LedgerNst
import ExoVerif.Proofs.LedgerPend
/-! C03, last sentence, through a native-restaking balance adjustment: UpdateNSTBalance moves TotalDepositAmount,
    WithdrawableAmount, ActualCompletedAmount of records, pool amounts and shares - never a pending-undelegation
    figure and never the ORIGINAL amount of a record. Hence `SamePend s s'` and `PendInv` is kept. Core Lean only. -/
namespace ExoVerif.Ledger
open ExoVerif ExoVerif.KV

/-- lowering `actual` of one stored record leaves the three record sums (over original amounts) alone -/
theorem samePend_setActual {s : L} {k : RecKey} {r : URec} (x : Int) (hf : find? s.recs k = some r) :
    SamePend s { s with recs := KV.set s.recs k { r with actual := x } } := by
  refine ⟨fun _ _ => rfl, fun _ _ => rfl, fun _ _ _ => rfl, fun st a => ?_, fun o a => ?_, fun st a o => ?_⟩
  · show sumP (psAt st a) (KV.set s.recs k { r with actual := x }) = _
    rw [sumP_set, atP_of_find _ _ _ _ hf]; simp only [psAt]; omega
  · show sumP (ppAt o a) (KV.set s.recs k { r with actual := x }) = _
    rw [sumP_set, atP_of_find _ _ _ _ hf]; simp only [ppAt]; omega
  · show sumP (pdAt st a o) (KV.set s.recs k { r with actual := x }) = _
    rw [sumP_set, atP_of_find _ _ _ _ hf]; simp only [pdAt]; omega

/-- RemoveShare(isUndelegation = false) moves no pending figure and no record -/
theorem samePend_removeShare_false {s s' : L} {o : OID} {st : SID} {a : AID} {share : Dec} {removed : Int}
    (h : removeShare s false o st a share = .ok (s', removed)) : SamePend s s' := by
  obtain ⟨_, q2, q3, q4⟩ := removeShare_fig h
  have hst : s'.stakers = s.stakers := by
    have hc := removeShare_false_core h
    unfold nstCore at hc; injection hc
  refine ⟨fun st' a' => by unfold stPend; rw [hst], fun o' a' => ?_, fun st' a' o' => ?_,
    fun _ _ => by rw [q4], fun _ _ => by rw [q4], fun _ _ _ => by rw [q4]⟩
  · rw [q2 o' a']; simp
  · rw [q3 st' a' o']; simp

theorem nstSlashRecords_samePend (st : SID) (a : AID) (ks : List RecKey) :
    ∀ (s : L) (p : Int) (s' : L) (p' : Int), nstSlashRecords st a ks s p = .ok (s', p') → SamePend s s' := by
  induction ks with
  | nil =>
    intro s p s' p' h
    unfold nstSlashRecords at h
    injection h with h; injection h with h1 h2; subst h1
    exact SamePend.refl _
  | cons k ks ih =>
    intro s p s' p' h
    unfold nstSlashRecords at h
    split at h
    · cases h
    · rename_i r hf
      simp only [] at h
      split at h
      · cases h
      · rename_i s1 h1
        have e1 : SamePend s s1 := samePend_updStaker0 h1
        have hf1 : find? s1.recs k = some r := by rw [(updStaker_recs h1).1]; exact hf
        by_cases hgo : 0 < p - r.actual
        · simp only [hgo, if_true] at h
          have e2 := ih _ _ _ _ h
          exact e1.trans ((samePend_setActual _ hf1).trans e2)
        · simp only [hgo, if_false] at h
          injection h with h; injection h with ha hb; subst ha
          exact e1.trans (samePend_setActual _ hf1)

theorem nstSlashShares_samePend (st : SID) (a : AID) (prop : Dec) (es : List ((SID × AID × OID) × DelegRow)) :
    ∀ (s : L) (p : Int) (s' : L) (p' : Int), nstSlashShares st a prop es s p = .ok (s', p') → SamePend s s' := by
  induction es with
  | nil =>
    intro s p s' p' h
    unfold nstSlashShares at h
    injection h with h; injection h with h1 h2; subst h1
    exact SamePend.refl _
  | cons e es ih =>
    intro s p s' p' h
    unfold nstSlashShares at h
    split at h
    · cases h
    · rename_i s1 actual h1
      split at h
      · cases h
      · rename_i s2 h2
        exact ((samePend_removeShare_false h1).trans (samePend_updStaker0 h2)).trans (ih _ _ _ _ h)

theorem nstSlashDelegated_samePend {s s' : L} {st : SID} {a : AID} {p : Int}
    (h : nstSlashDelegated s st a p = .ok s') : SamePend s s' := by
  unfold nstSlashDelegated at h
  simp only [] at h
  split at h
  · cases h
  · split at h
    · injection h with h; subst h; exact SamePend.refl _
    · split at h
      · cases h
      · rename_i s2 p2 h2
        injection h with h; subst h
        exact nstSlashShares_samePend st a _ _ _ _ _ _ h2

theorem nstDecrease_samePend {s s' : L} {st : SID} {a : AID} {x : Int}
    (h : nstDecrease s st a x = .ok s') : SamePend s s' := by
  unfold nstDecrease at h
  split at h
  · cases h
  · rename_i row hrow
    simp only [] at h
    split at h
    · cases h
    · rename_i s1 h1
      have e1 : SamePend s s1 := samePend_updStaker0 h1
      split at h
      · cases h
      · rename_i s2 p1 h2
        have e2 : SamePend s1 s2 := by
          by_cases hgo : 0 < -x - row.withdrawable
          · simp only [hgo, if_true] at h2
            exact nstSlashRecords_samePend st a _ _ _ _ _ h2
          · simp only [hgo, if_false] at h2
            injection h2 with h2; injection h2 with ha hb; subst ha
            exact SamePend.refl _
        split at h
        · exact (e1.trans e2).trans (nstSlashDelegated_samePend h)
        · injection h with h; subst h
          exact e1.trans e2

/-- UpdateNSTBalance moves no pending-undelegation figure and no record's original amount -/
theorem nstUpdate_samePend {s s' : L} {st : SID} {a : AID} {x : Int}
    (h : nstUpdate s st a x = .ok s') : SamePend s s' := by
  unfold nstUpdate at h
  split at h
  · cases h
  · split at h
    · exact samePend_updStaker0 h
    · split at h
      · exact nstDecrease_samePend h
      · injection h with h; subst h; exact SamePend.refl _

theorem pendInv_nstUpdate {s s' : L} {st : SID} {a : AID} {x : Int} (hp : PendInv s)
    (h : nstUpdate s st a x = .ok s') : PendInv s' := pendInv_of_same hp (nstUpdate_samePend h)

end ExoVerif.Ledger
