import ExoVerif.Props.C06
import ExoVerif.Proofs.ConsKeys
/-!
Helper lemmas for the history-level C07 / C16 theorems (`Props/C07Hist.lean`, `Props/C16Hist.lean`).

* `wfOp` / `wf`: what C15 (the epoch clock), the parameter validation of x/dogfood and the
  uniqueness of undelegation record keys guarantee about a history;
* `QInv`: the invariant of the opt-out and undelegation queues (nothing in a slot of an ended
  epoch, pending lists empty outside a closing block, an entry waits in exactly the slot its
  reverse lookup names, exactly once, and is held);
* `AInv`: the same for the consensus addresses to prune;
* `VInv`: the stored validator set is a map and every validator key is resolvable;
* their preservation by every well-formed operation, and frame lemmas.
Core Lean only.
-/
namespace ExoVerif.ConsKeys
open ExoVerif.VMap ExoVerif.ValSet

/-! ## well-formed histories -/

/-- what the environment guarantees about one operation in state `s`:
* the dogfood epoch-end hook is delivered for the *current* epoch number, once per block (C15:
  `C15_hooks_exactly_once_in_order`; the marker of the previous closing block has been cleared by
  its EndBlock);
* `EpochsUntilUnbonded` is never negative (x/dogfood/types/params.go: Validate —
  `ValidatePositiveUint32`; msg_server.go keeps the old value for 0);
* an undelegation record key is new (x/delegation/types/keys.go: GetUndelegationRecordKey =
  height ‖ lzNonce ‖ txHash ‖ operator; the hook runs once per record). -/
def wfOp (s : St) : Op → Prop
  | .epochEnd e => e = s.epoch ∧ s.epochEnd = false
  | .setUnbonding n => 0 ≤ n
  | .undelegate _ rec => s.undelMaturity rec = none
  | _ => True

instance (s : St) (o : Op) : Decidable (wfOp s o) := by
  cases o <;> unfold wfOp <;> infer_instance

def wf (s : St) : List Op → Prop
  | [] => True
  | o :: rest => wfOp s o ∧ wf (step s o).2 rest

instance : (s : St) → (ops : List Op) → Decidable (wf s ops)
  | _, [] => isTrue trivial
  | s, o :: rest =>
    have := instDecidableWf (step s o).2 rest
    by unfold wf; infer_instance

theorem wf_append (s : St) (a b : List Op) : wf s (a ++ b) ↔ wf s a ∧ wf (run s a) b := by
  induction a generalizing s with
  | nil => simp [wf, run]
  | cons o rest ih =>
    simp only [List.cons_append, wf, run, List.foldl_cons]
    rw [ih]
    simp only [run, and_assoc]

theorem run_append (s : St) (a b : List Op) : run s (a ++ b) = run (run s a) b := by
  simp [run, List.foldl_append]

theorem run_cons (s : St) (o : Op) (rest : List Op) : run s (o :: rest) = run (step s o).2 rest := rfl

/-! ## frame lemmas: what the key operations leave alone -/

/-- the fields the key-registry operations (`setKeyCore`, `completeRemoval`, hooks) never touch -/
structure SameQ (t s : St) : Prop where
  epoch : t.epoch = s.epoch
  nUnb : t.nUnb = s.nUnb
  epochEnd : t.epochEnd = s.epochEnd
  pOO : t.pendingOptOuts = s.pendingOptOuts
  pA : t.pendingAddrs = s.pendingAddrs
  pU : t.pendingUndel = s.pendingUndel
  reg : t.registered = s.registered
  oo : t.optOutsToFinish = s.optOutsToFinish
  ofe : t.optOutFinishEpoch = s.optOutFinishEpoch
  um : t.undelToMature = s.undelToMature
  umat : t.undelMaturity = s.undelMaturity
  holds : t.holds = s.holds
  vs : t.vs = s.vs
  optedIn : t.optedIn = s.optedIn

theorem SameQ.rfl' (s : St) : SameQ s s := ⟨rfl, rfl, rfl, rfl, rfl, rfl, rfl, rfl, rfl, rfl, rfl, rfl, rfl, rfl⟩

theorem SameQ.trans {a b c : St} (h1 : SameQ a b) (h2 : SameQ b c) : SameQ a c :=
  ⟨h1.epoch.trans h2.epoch, h1.nUnb.trans h2.nUnb, h1.epochEnd.trans h2.epochEnd, h1.pOO.trans h2.pOO,
   h1.pA.trans h2.pA, h1.pU.trans h2.pU, h1.reg.trans h2.reg, h1.oo.trans h2.oo, h1.ofe.trans h2.ofe,
   h1.um.trans h2.um, h1.umat.trans h2.umat, h1.holds.trans h2.holds, h1.vs.trans h2.vs,
   h1.optedIn.trans h2.optedIn⟩

theorem hookReplaced_sameQ (t : St) (old : Nat) : SameQ (hookReplaced t old) t := by
  unfold hookReplaced; split <;> exact ⟨rfl, rfl, rfl, rfl, rfl, rfl, rfl, rfl, rfl, rfl, rfl, rfl, rfl, rfl⟩

theorem hookReplaced_keys (t : St) (old : Nat) :
    (hookReplaced t old).fwd = t.fwd ∧ (hookReplaced t old).removing = t.removing ∧
    (hookReplaced t old).fwd2 = t.fwd2 ∧ (hookReplaced t old).jailed = t.jailed := by
  unfold hookReplaced; split <;> exact ⟨rfl, rfl, rfl, rfl⟩

theorem setKeyCore_sameQ (t : St) (op key : Nat) : SameQ (setKeyCore t op key).2 t := by
  unfold setKeyCore
  split
  · exact SameQ.rfl' t
  · split
    · exact SameQ.rfl' t
    · cases t.fwd op with
      | none => exact ⟨rfl, rfl, rfl, rfl, rfl, rfl, rfl, rfl, rfl, rfl, rfl, rfl, rfl, rfl⟩
      | some pk =>
        simp only []
        split
        · exact SameQ.rfl' t
        · split
          · exact ⟨rfl, rfl, rfl, rfl, rfl, rfl, rfl, rfl, rfl, rfl, rfl, rfl, rfl, rfl⟩
          · exact (hookReplaced_sameQ _ pk).trans ⟨rfl, rfl, rfl, rfl, rfl, rfl, rfl, rfl, rfl, rfl, rfl, rfl, rfl, rfl⟩

/-- `setKeyCore` never changes the removal markers, and changes the forward index only at `op`,
and only when `op` is not removing its key -/
theorem setKeyCore_keys (t : St) (op key : Nat) :
    (setKeyCore t op key).2.removing = t.removing ∧
    (∀ x, x ≠ op → (setKeyCore t op key).2.fwd x = t.fwd x) ∧
    (t.removing op = true → (setKeyCore t op key).2 = t) := by
  unfold setKeyCore
  split
  · exact ⟨rfl, fun _ _ => rfl, fun _ => rfl⟩
  · rename_i hrm
    split
    · exact ⟨rfl, fun _ _ => rfl, fun _ => rfl⟩
    · cases t.fwd op with
      | none =>
        refine ⟨rfl, fun x hx => ?_, fun h => absurd h hrm⟩
        simp only [upd_apply, hx, if_false]
      | some pk =>
        simp only []
        split
        · exact ⟨rfl, fun _ _ => rfl, fun _ => rfl⟩
        · split
          · refine ⟨rfl, fun x hx => ?_, fun h => absurd h hrm⟩
            simp only [upd_apply, hx, if_false]
          · refine ⟨?_, fun x hx => ?_, fun h => absurd h hrm⟩
            · rw [(hookReplaced_keys _ pk).2.1]
            · rw [(hookReplaced_keys _ pk).1]
              simp only [upd_apply, hx, if_false]

theorem completeRemoval_sameQ (t : St) (op : Nat) : SameQ (completeRemoval t op) t := by
  unfold completeRemoval
  repeat' split
  all_goals exact ⟨rfl, rfl, rfl, rfl, rfl, rfl, rfl, rfl, rfl, rfl, rfl, rfl, rfl, rfl⟩

/-- effect of `completeRemoval` on the marker and the forward index -/
theorem completeRemoval_keys (t : St) (op : Nat) :
    (∀ x, x ≠ op → (completeRemoval t op).removing x = t.removing x ∧ (completeRemoval t op).fwd x = t.fwd x) ∧
    ((completeRemoval t op).removing op = true → completeRemoval t op = t) ∧
    (t.registered op = true → t.removing op = true → (t.fwd op).isSome = true →
      (completeRemoval t op).removing op = false ∧ (completeRemoval t op).fwd op = none) := by
  unfold completeRemoval
  split
  · rename_i h
    exact ⟨fun _ _ => ⟨rfl, rfl⟩, fun _ => rfl, fun h1 => by simp [h1] at h⟩
  · split
    · rename_i h
      exact ⟨fun _ _ => ⟨rfl, rfl⟩, fun _ => rfl, fun _ h1 => by simp [h1] at h⟩
    · cases hf : t.fwd op with
      | none => exact ⟨fun _ _ => ⟨rfl, rfl⟩, fun _ => rfl, fun _ _ h1 => by simp at h1⟩
      | some key =>
        simp only []
        refine ⟨fun x hx => ?_, fun h => ?_, fun _ _ _ => ?_⟩
        · simp only [upd_apply, hx, if_false, and_self]
        · simp at h
        · simp

theorem foldl_completeRemoval_sameQ (l : List Nat) (t : St) : SameQ (l.foldl completeRemoval t) t := by
  induction l generalizing t with
  | nil => exact SameQ.rfl' t
  | cons a rest ih => exact (ih _).trans (completeRemoval_sameQ t a)

/-- after completing the removals of the operators in `l`: markers only disappear, an operator
that keeps its marker is untouched, operators outside `l` are untouched, and every operator of
`l` that was properly removing has lost marker and key -/
theorem foldl_completeRemoval_keys (l : List Nat) (t : St) :
    (∀ x, (l.foldl completeRemoval t).removing x = true → t.removing x = true ∧ (l.foldl completeRemoval t).fwd x = t.fwd x) ∧
    (∀ x, x ∉ l → (l.foldl completeRemoval t).removing x = t.removing x ∧ (l.foldl completeRemoval t).fwd x = t.fwd x) ∧
    (∀ x, x ∈ l → t.registered x = true → t.removing x = true → (t.fwd x).isSome = true →
      (l.foldl completeRemoval t).removing x = false) := by
  induction l generalizing t with
  | nil => exact ⟨fun _ h => ⟨h, rfl⟩, fun _ _ => ⟨rfl, rfl⟩, fun _ h => by cases h⟩
  | cons a rest ih =>
    simp only [List.foldl_cons]
    obtain ⟨i1, i2, i3⟩ := ih (completeRemoval t a)
    obtain ⟨c1, c2, c3⟩ := completeRemoval_keys t a
    have hq := completeRemoval_sameQ t a
    refine ⟨fun x hx => ?_, fun x hx => ?_, fun x hx hreg hrm hf => ?_⟩
    · obtain ⟨j1, j2⟩ := i1 x hx
      by_cases hxa : x = a
      · subst hxa
        have hc := c2 j1
        exact ⟨by rw [hc] at j1; exact j1, j2.trans (by rw [hc])⟩
      · exact ⟨(c1 x hxa).1 ▸ j1, j2.trans (c1 x hxa).2⟩
    · simp only [List.mem_cons, not_or] at hx
      obtain ⟨j1, j2⟩ := i2 x hx.2
      exact ⟨j1.trans (c1 x hx.1).1, j2.trans (c1 x hx.1).2⟩
    · by_cases hxa : x = a
      · subst hxa
        have h0 := (c3 hreg hrm hf).1
        cases hfin : (List.foldl completeRemoval (completeRemoval t x) rest).removing x with
        | false => rfl
        | true => have := (i1 x hfin).1; rw [h0] at this; cases this
      · have hxr : x ∈ rest := by
          rcases List.mem_cons.1 hx with h | h
          · exact absurd h hxa
          · exact h
        apply i3 x hxr
        · rw [hq.reg]; exact hreg
        · rw [(c1 x hxa).1]; exact hrm
        · rw [(c1 x hxa).2]; exact hf

/-- releasing the holds of a duplicate-free list of records -/
theorem foldl_releaseUndel_char (l : List Nat) (t : St) (hnd : l.Nodup) (r : Nat) :
    (l.foldl releaseUndel t).holds r = (if r ∈ l then t.holds r - 1 else t.holds r) ∧
    (l.foldl releaseUndel t).undelMaturity r = (if r ∈ l then none else t.undelMaturity r) := by
  induction l generalizing t with
  | nil => simp
  | cons a rest ih =>
    simp only [List.foldl_cons]
    have hnd' := List.nodup_cons.1 hnd
    obtain ⟨i1, i2⟩ := ih (releaseUndel t a) hnd'.2
    rw [i1, i2]
    by_cases hra : r = a
    · subst hra
      simp [hnd'.1, releaseUndel]
    · by_cases hrr : r ∈ rest
      · simp [hrr, releaseUndel, upd_apply, hra]
      · simp [hrr, hra, releaseUndel, upd_apply]

/-- `releaseUndel` touches only the hold counts and the maturity lookups -/
theorem foldl_releaseUndel_frame (l : List Nat) (t : St) :
    (l.foldl releaseUndel t).epoch = t.epoch ∧ (l.foldl releaseUndel t).nUnb = t.nUnb ∧
    (l.foldl releaseUndel t).registered = t.registered ∧ (l.foldl releaseUndel t).removing = t.removing ∧
    (l.foldl releaseUndel t).optedIn = t.optedIn ∧ (l.foldl releaseUndel t).optOutsToFinish = t.optOutsToFinish ∧
    (l.foldl releaseUndel t).optOutFinishEpoch = t.optOutFinishEpoch ∧
    (l.foldl releaseUndel t).undelToMature = t.undelToMature ∧
    (l.foldl releaseUndel t).pendingOptOuts = t.pendingOptOuts ∧ (l.foldl releaseUndel t).vs = t.vs ∧
    (l.foldl releaseUndel t).nOps = t.nOps ∧ (l.foldl releaseUndel t).jailed = t.jailed := by
  induction l generalizing t with
  | nil => exact ⟨rfl, rfl, rfl, rfl, rfl, rfl, rfl, rfl, rfl, rfl, rfl, rfl⟩
  | cons a rest ih => simp only [List.foldl_cons]; exact ih (releaseUndel t a)

/-! ## EndBlock of a closing block, in two stages -/

/-- EndBlock of a closing block after `ClearPreviousConsensusKeys` and the release of the pending
undelegations -/
def ebStage2 (s : St) : St :=
  { (s.pendingUndel.foldl releaseUndel { s with prevKey := fun _ => none }) with pendingUndel := [] }

/-- … after completing the pending opt-outs -/
def ebStage3 (s : St) : St :=
  { ((ebStage2 s).pendingOptOuts.foldl completeRemoval (ebStage2 s)) with pendingOptOuts := [] }

/-- the state dogfood's EndBlock has reached when it starts the vote-power diff: previous keys
cleared, pending undelegations released, pending opt-outs completed, pending addresses pruned -/
def endBlockPre (s : St) : St :=
  { ebStage3 s with rev := fun k => if k ∈ (ebStage3 s).pendingAddrs then none else (ebStage3 s).rev k,
                    pendingAddrs := [] }

theorem ebStage2_fields (s : St) :
    (ebStage2 s).removing = s.removing ∧ (ebStage2 s).fwd = s.fwd ∧ (ebStage2 s).registered = s.registered ∧
    (ebStage2 s).pendingOptOuts = s.pendingOptOuts ∧ (ebStage2 s).rev = s.rev ∧
    (ebStage2 s).pendingAddrs = s.pendingAddrs ∧ (ebStage2 s).addrsToPrune = s.addrsToPrune ∧
    (ebStage2 s).fwd2 = s.fwd2 := by
  obtain ⟨_, _, a3, a4, _, _, _, _, a9, _, _, _⟩ :=
    foldl_releaseUndel_frame s.pendingUndel { s with prevKey := fun _ => none }
  obtain ⟨b1, b2, b3, b4, b5⟩ := releaseUndel_fields s.pendingUndel { s with prevKey := fun _ => none }
  exact ⟨a4, b1, a3, a9, b3, b5, b4, b2⟩

theorem endBlock_closing (s : St) (power : Nat → Int) (maxVals : Nat) (he : s.epochEnd = true) :
    endBlock s power maxVals =
      { endBlockPre s with
        vs := (endBlockEpoch (endBlockPre s).vs (candsOf (endBlockPre s) power) maxVals).1,
        epochEnd := false } := by
  simp [endBlock, he, endBlockPre, ebStage3, ebStage2]

theorem endBlock_other (s : St) (power : Nat → Int) (maxVals : Nat) (he : s.epochEnd = false) :
    endBlock s power maxVals = { s with vs := (endBlockOther s.vs).1 } := by
  simp [endBlock, he]

/-- the part of the state the opt-out queue reads, after the first stages of EndBlock -/
theorem endBlockPre_fields (s : St) :
    (endBlockPre s).epoch = s.epoch ∧ (endBlockPre s).nUnb = s.nUnb ∧ (endBlockPre s).registered = s.registered ∧
    (endBlockPre s).optOutsToFinish = s.optOutsToFinish ∧ (endBlockPre s).optOutFinishEpoch = s.optOutFinishEpoch ∧
    (endBlockPre s).undelToMature = s.undelToMature ∧ (endBlockPre s).optedIn = s.optedIn ∧
    (endBlockPre s).pendingOptOuts = [] ∧ (endBlockPre s).pendingAddrs = [] ∧ (endBlockPre s).pendingUndel = [] ∧
    (endBlockPre s).vs = s.vs ∧ (endBlockPre s).addrsToPrune = s.addrsToPrune := by
  obtain ⟨a1, a2, a3, _, a5, a6, a7, a8, a9, a10, _, _⟩ :=
    foldl_releaseUndel_frame s.pendingUndel { s with prevKey := fun _ => none }
  have a4 := (releaseUndel_fields s.pendingUndel { s with prevKey := fun _ => none }).2.2.2.1
  have hq := foldl_completeRemoval_sameQ (ebStage2 s).pendingOptOuts (ebStage2 s)
  have hap : ∀ (l : List Nat) (t : St), (l.foldl completeRemoval t).addrsToPrune = t.addrsToPrune := by
    intro l
    induction l with
    | nil => intro t; rfl
    | cons a rest ih => intro t; simp only [List.foldl_cons]; rw [ih, (completeRemoval_fields t a).1]
  refine ⟨?_, ?_, ?_, ?_, ?_, ?_, ?_, rfl, rfl, ?_, ?_, ?_⟩
  · show (List.foldl completeRemoval (ebStage2 s) (ebStage2 s).pendingOptOuts).epoch = _; rw [hq.epoch]; exact a1
  · show (List.foldl completeRemoval (ebStage2 s) (ebStage2 s).pendingOptOuts).nUnb = _; rw [hq.nUnb]; exact a2
  · show (List.foldl completeRemoval (ebStage2 s) (ebStage2 s).pendingOptOuts).registered = _; rw [hq.reg]; exact a3
  · show (List.foldl completeRemoval (ebStage2 s) (ebStage2 s).pendingOptOuts).optOutsToFinish = _; rw [hq.oo]; exact a6
  · show (List.foldl completeRemoval (ebStage2 s) (ebStage2 s).pendingOptOuts).optOutFinishEpoch = _; rw [hq.ofe]; exact a7
  · show (List.foldl completeRemoval (ebStage2 s) (ebStage2 s).pendingOptOuts).undelToMature = _; rw [hq.um]; exact a8
  · show (List.foldl completeRemoval (ebStage2 s) (ebStage2 s).pendingOptOuts).optedIn = _; rw [hq.optedIn]; exact a5
  · show (List.foldl completeRemoval (ebStage2 s) (ebStage2 s).pendingOptOuts).pendingUndel = _; rw [hq.pU]; rfl
  · show (List.foldl completeRemoval (ebStage2 s) (ebStage2 s).pendingOptOuts).vs = _; rw [hq.vs]; exact a10
  · show (List.foldl completeRemoval (ebStage2 s) (ebStage2 s).pendingOptOuts).addrsToPrune = _; rw [hap]; exact a4

/-! ## the queue invariant (opt-outs and undelegations) -/

structure QInv (s : St) : Prop where
  /-- the unbonding parameter is never negative -/
  nn : 0 ≤ s.nUnb
  /-- nothing waits in a slot whose epoch has ended -/
  past : ∀ e, e < s.epoch → s.optOutsToFinish e = [] ∧ s.undelToMature e = []
  /-- outside a closing block the pending lists are empty -/
  pend : s.epochEnd = false → s.pendingOptOuts = [] ∧ s.pendingUndel = []
  uNodup : ∀ e, (s.undelToMature e).Nodup
  uPendNodup : s.pendingUndel.Nodup
  /-- a queued record's maturity lookup names its slot … -/
  uSlot : ∀ e r, r ∈ s.undelToMature e → s.undelMaturity r = some e
  uPend : ∀ r, r ∈ s.pendingUndel → s.undelMaturity r = some (s.epoch - 1)
  /-- … and a record with a maturity lookup waits in that slot (or is pending in the closing block) -/
  uBack : ∀ r f, s.undelMaturity r = some f → r ∈ s.undelToMature f ∨ (f = s.epoch - 1 ∧ r ∈ s.pendingUndel)
  /-- a waiting record is held -/
  uHeld : ∀ r f, s.undelMaturity r = some f → 1 ≤ s.holds r
  oNodup : ∀ e, (s.optOutsToFinish e).Nodup
  oPendNodup : s.pendingOptOuts.Nodup
  oSlot : ∀ e op, op ∈ s.optOutsToFinish e → s.optOutFinishEpoch op = some e
  oBack : ∀ op f, s.optOutFinishEpoch op = some f → op ∈ s.optOutsToFinish f
  oPend : ∀ op, op ∈ s.pendingOptOuts → s.optOutFinishEpoch op = none
  /-- an operator carries the removal marker exactly while its opt-out is scheduled or pending -/
  oRemoving : ∀ op, s.removing op = true ↔ ((s.optOutFinishEpoch op).isSome = true ∨ op ∈ s.pendingOptOuts)
  oFwd : ∀ op, s.removing op = true → s.registered op = true ∧ (s.fwd op).isSome = true ∧ s.optedIn op = false

/-- QInv reads eleven fields literally and three more only for operators that carry the marker -/
theorem QInv.transfer {s t : St} (h : QInv s)
    (e1 : t.nUnb = s.nUnb) (e2 : t.epoch = s.epoch) (e3 : t.epochEnd = s.epochEnd)
    (e4 : t.optOutsToFinish = s.optOutsToFinish) (e5 : t.undelToMature = s.undelToMature)
    (e6 : t.pendingOptOuts = s.pendingOptOuts) (e7 : t.pendingUndel = s.pendingUndel)
    (e8 : t.undelMaturity = s.undelMaturity) (e9 : t.holds = s.holds)
    (e10 : t.optOutFinishEpoch = s.optOutFinishEpoch) (e11 : t.removing = s.removing)
    (hf : ∀ x, s.removing x = true → t.registered x = true ∧ (t.fwd x).isSome = true ∧ t.optedIn x = false) :
    QInv t := by
  obtain ⟨a1, a2, a3, a4, a5, a6, a7, a8, a9, a10, a11, a12, a13, a14, a15, _⟩ := h
  refine ⟨?_, ?_, ?_, ?_, ?_, ?_, ?_, ?_, ?_, ?_, ?_, ?_, ?_, ?_, ?_, ?_⟩
  · rw [e1]; exact a1
  · rw [e2, e4, e5]; exact a2
  · rw [e3, e6, e7]; exact a3
  · rw [e5]; exact a4
  · rw [e7]; exact a5
  · rw [e5, e8]; exact a6
  · rw [e7, e8, e2]; exact a7
  · rw [e8, e5, e2, e7]; exact a8
  · rw [e8, e9]; exact a9
  · rw [e4]; exact a10
  · rw [e6]; exact a11
  · rw [e4, e10]; exact a12
  · rw [e10, e4]; exact a13
  · rw [e6, e10]; exact a14
  · rw [e11, e10, e6]; exact a15
  · rw [e11]; exact hf

theorem QInv.transferQ {s t : St} (h : QInv s) (hq : SameQ t s) (e11 : t.removing = s.removing)
    (hf : ∀ x, s.removing x = true → t.fwd x = s.fwd x) : QInv t :=
  h.transfer hq.nUnb hq.epoch hq.epochEnd hq.oo hq.um hq.pOO hq.pU hq.umat hq.holds hq.ofe e11
    (fun x hx => by rw [hq.reg, hf x hx, hq.optedIn]; exact h.oFwd x hx)

theorem setKeyCore_removing_not_ok (t : St) (op key : Nat) (h : t.removing op = true) :
    (setKeyCore t op key).1 ≠ .ok := by
  unfold setKeyCore; simp [h]

theorem qinv_setKeyCore (s : St) (op key : Nat) (h : QInv s) : QInv (setKeyCore s op key).2 := by
  obtain ⟨k1, k2, k3⟩ := setKeyCore_keys s op key
  by_cases hr : s.removing op = true
  · rw [k3 hr]; exact h
  · exact h.transferQ (setKeyCore_sameQ s op key) k1
      (fun x hx => k2 x (fun e => hr (e ▸ hx)))

theorem qinv_optIn (s : St) (op key : Nat) (ok : Bool) (h : QInv s) : QInv (optIn s op key ok).2 := by
  unfold optIn
  split
  · exact h
  · split
    · exact h
    · split
      · exact h
      · -- the state after the three flag writes
        obtain ⟨k1, k2, _⟩ := setKeyCore_keys { s with hasInfo := upd s.hasInfo op true, optedIn := upd s.optedIn op true, jailed := upd s.jailed op false } op key
        have hq := setKeyCore_sameQ { s with hasInfo := upd s.hasInfo op true, optedIn := upd s.optedIn op true, jailed := upd s.jailed op false } op key
        have hno := setKeyCore_removing_not_ok { s with hasInfo := upd s.hasInfo op true, optedIn := upd s.optedIn op true, jailed := upd s.jailed op false } op key
        dsimp only
        revert k1 k2 hq hno
        generalize setKeyCore _ op key = r
        intro k1 k2 hq hno
        obtain ⟨o, s2⟩ := r
        cases o <;> first
          | exact h
          | (simp only [] at k1 k2 hq hno ⊢
             have hnr : ¬ s.removing op = true := fun e => hno e rfl
             exact h.transfer hq.nUnb hq.epoch hq.epochEnd hq.oo hq.um hq.pOO hq.pU hq.umat hq.holds hq.ofe k1
               (fun x hx => by
                 have hxo : x ≠ op := fun e => hnr (e ▸ hx)
                 rw [hq.reg, k2 x hxo, hq.optedIn]
                 have := h.oFwd x hx
                 simpa [upd_apply, hxo] using this))

theorem qinv_setKey (s : St) (op key : Nat) (h : QInv s) : QInv (setKey s op key).2 := by
  unfold setKey
  split
  · exact h
  · exact qinv_setKeyCore s op key h

theorem qinv_setJailed (s : St) (key : Nat) (b : Bool) (h : QInv s) : QInv (setJailed s key b) := by
  unfold setJailed
  split
  · exact h
  · split
    · exact h.transfer rfl rfl rfl rfl rfl rfl rfl rfl rfl rfl rfl (fun x hx => h.oFwd x hx)
    · exact h

/-- registering an undelegation hold in a slot that has not ended -/
theorem qinv_hold (s : St) (rec : Nat) (slot : Int) (h : QInv s)
    (hfresh : s.undelMaturity rec = none) (hslot : s.epoch ≤ slot) :
    QInv { s with undelToMature := upd s.undelToMature slot (s.undelToMature slot ++ [rec]),
                  undelMaturity := upd s.undelMaturity rec (some slot),
                  holds := upd s.holds rec (s.holds rec + 1) } := by
  have hnq : ∀ e, rec ∉ s.undelToMature e := fun e hm => by
    have := h.uSlot e rec hm; rw [hfresh] at this; cases this
  have hnp : rec ∉ s.pendingUndel := fun hm => by
    have := h.uPend rec hm; rw [hfresh] at this; cases this
  have hmem : ∀ e r, r ∈ upd s.undelToMature slot (s.undelToMature slot ++ [rec]) e ↔
      (r ∈ s.undelToMature e ∨ (r = rec ∧ e = slot)) := by
    intro e r
    by_cases he : e = slot
    · subst he; simp
    · simp [upd_apply, he]
  refine ⟨h.nn, ?_, h.pend, ?_, h.uPendNodup, ?_, ?_, ?_, ?_, h.oNodup, h.oPendNodup, h.oSlot, h.oBack, h.oPend,
    h.oRemoving, h.oFwd⟩
  · intro e (he : e < s.epoch)
    have hne : e ≠ slot := by omega
    show s.optOutsToFinish e = [] ∧ upd s.undelToMature slot _ e = []
    rw [upd_other _ _ _ _ hne]; exact h.past e he
  · intro e
    show (upd s.undelToMature slot _ e).Nodup
    by_cases he : e = slot
    · subst he
      rw [upd_same]
      refine List.nodup_append.2 ⟨h.uNodup e, by simp, ?_⟩
      intro a ha b hb
      simp only [List.mem_singleton] at hb
      subst hb
      exact fun e2 => hnq e (e2 ▸ ha)
    · rw [upd_other _ _ _ _ he]; exact h.uNodup e
  · intro e r hr
    show upd s.undelMaturity rec (some slot) r = some e
    rcases (hmem e r).1 hr with hr | ⟨rfl, rfl⟩
    · have hne : r ≠ rec := fun e2 => hnq e (e2 ▸ hr)
      rw [upd_other _ _ _ _ hne]; exact h.uSlot e r hr
    · rw [upd_same]
  · intro r hr
    show upd s.undelMaturity rec (some slot) r = some (s.epoch - 1)
    have hne : r ≠ rec := fun e2 => hnp (e2 ▸ hr)
    rw [upd_other _ _ _ _ hne]; exact h.uPend r hr
  · intro r f hm
    show r ∈ upd s.undelToMature slot _ f ∨ (f = s.epoch - 1 ∧ r ∈ s.pendingUndel)
    by_cases hr : r = rec
    · subst hr
      have hm' : upd s.undelMaturity r (some slot) r = some f := hm
      rw [upd_same] at hm'
      injection hm' with hm'
      subst hm'
      exact Or.inl ((hmem _ _).2 (Or.inr ⟨rfl, rfl⟩))
    · have hm' : upd s.undelMaturity rec (some slot) r = some f := hm
      rw [upd_other _ _ _ _ hr] at hm'
      rcases h.uBack r f hm' with h1 | h1
      · exact Or.inl ((hmem _ _).2 (Or.inl h1))
      · exact Or.inr h1
  · intro r f hm
    show 1 ≤ upd s.holds rec (s.holds rec + 1) r
    by_cases hr : r = rec
    · subst hr; rw [upd_same]; omega
    · have hm' : upd s.undelMaturity rec (some slot) r = some f := hm
      rw [upd_other _ _ _ _ hr] at hm'
      rw [upd_other _ _ _ _ hr]; exact h.uHeld r f hm'

theorem qinv_undelegationStarted (s : St) (op rec : Nat) (h : QInv s) (hfresh : s.undelMaturity rec = none) :
    QInv (undelegationStarted s op rec).2 := by
  have hc : s.epoch ≤ completionEpoch s := by
    have := h.nn
    simp only [completionEpoch]; omega
  unfold undelegationStarted
  simp only []
  split
  · cases hfe : s.optOutFinishEpoch op with
    | none => exact h
    | some f =>
      simp only []
      apply qinv_hold s rec f h hfresh
      have hm := h.oBack op f hfe
      by_cases hlt : f < s.epoch
      · rw [(h.past f hlt).1] at hm; cases hm
      · omega
  · repeat' split
    all_goals first
      | exact h
      | exact qinv_hold s rec _ h hfresh hc

/-- the scheduled branch of an opt-out -/
theorem qinv_optOut_sched (s : St) (op key : Nat) (h : QInv s) (hreg' : s.registered op = true)
    (hin : s.optedIn op = true) (hf : s.fwd op = some key) :
    QInv (setOptOutInformation { s with optedIn := upd s.optedIn op false, removing := upd s.removing op true } op) := by
  have hnr : ¬ s.removing op = true := fun e => by
    have := (h.oFwd op e).2.2; rw [hin] at this; cases this
  have hnfe : s.optOutFinishEpoch op = none := by
    cases hfe : s.optOutFinishEpoch op with
    | none => rfl
    | some f => exact absurd ((h.oRemoving op).2 (Or.inl (by simp [hfe]))) hnr
  have hnp : op ∉ s.pendingOptOuts := fun hm => hnr ((h.oRemoving op).2 (Or.inr hm))
  have hnq : ∀ e, op ∉ s.optOutsToFinish e := fun e hm => by
    have := h.oSlot e op hm; rw [hnfe] at this; cases this
  have hmem : ∀ e x, x ∈ upd s.optOutsToFinish (s.epoch + s.nUnb) (s.optOutsToFinish (s.epoch + s.nUnb) ++ [op]) e ↔
      (x ∈ s.optOutsToFinish e ∨ (x = op ∧ e = s.epoch + s.nUnb)) := by
    intro e x
    by_cases he : e = s.epoch + s.nUnb
    · subst he; simp
    · simp [upd_apply, he]
  refine ⟨h.nn, ?_, h.pend, h.uNodup, h.uPendNodup, h.uSlot, h.uPend, h.uBack, h.uHeld, ?_, h.oPendNodup,
    ?_, ?_, ?_, ?_, ?_⟩
  · intro e (he : e < s.epoch)
    have hne : e ≠ s.epoch + s.nUnb := by have := h.nn; omega
    show upd s.optOutsToFinish (s.epoch + s.nUnb) _ e = [] ∧ s.undelToMature e = []
    rw [upd_other _ _ _ _ hne]; exact h.past e he
  · intro e
    show (upd s.optOutsToFinish (s.epoch + s.nUnb) _ e).Nodup
    by_cases he : e = s.epoch + s.nUnb
    · subst he
      rw [upd_same]
      refine List.nodup_append.2 ⟨h.oNodup _, by simp, ?_⟩
      intro a ha b hb
      simp only [List.mem_singleton] at hb
      subst hb
      exact fun e2 => hnq _ (e2 ▸ ha)
    · rw [upd_other _ _ _ _ he]; exact h.oNodup e
  · intro e x hx
    show upd s.optOutFinishEpoch op (some (s.epoch + s.nUnb)) x = some e
    rcases (hmem e x).1 hx with hx | ⟨rfl, rfl⟩
    · have hne : x ≠ op := fun e2 => hnq e (e2 ▸ hx)
      rw [upd_other _ _ _ _ hne]; exact h.oSlot e x hx
    · rw [upd_same]
  · intro x f hm
    show x ∈ upd s.optOutsToFinish (s.epoch + s.nUnb) _ f
    have hm' : upd s.optOutFinishEpoch op (some (s.epoch + s.nUnb)) x = some f := hm
    by_cases hx : x = op
    · subst hx
      rw [upd_same] at hm'
      injection hm' with hm'
      subst hm'
      exact (hmem _ _).2 (Or.inr ⟨rfl, rfl⟩)
    · rw [upd_other _ _ _ _ hx] at hm'
      exact (hmem _ _).2 (Or.inl (h.oBack x f hm'))
  · intro x hx
    show upd s.optOutFinishEpoch op (some (s.epoch + s.nUnb)) x = none
    have hne : x ≠ op := fun e2 => hnp (e2 ▸ hx)
    rw [upd_other _ _ _ _ hne]; exact h.oPend x hx
  · intro x
    show upd s.removing op true x = true ↔
      ((upd s.optOutFinishEpoch op (some (s.epoch + s.nUnb)) x).isSome = true ∨ x ∈ s.pendingOptOuts)
    by_cases hx : x = op
    · subst hx; simp
    · rw [upd_other _ _ _ _ hx, upd_other _ _ _ _ hx]; exact h.oRemoving x
  · intro x hx
    show s.registered x = true ∧ (s.fwd x).isSome = true ∧ upd s.optedIn op false x = false
    have hx' : upd s.removing op true x = true := hx
    by_cases hxo : x = op
    · subst hxo; simp [hreg', hf]
    · rw [upd_other _ _ _ _ hxo] at hx'
      rw [upd_other _ _ _ _ hxo]; exact h.oFwd x hx'

/-- the branch of an opt-out that completes at once -/
theorem qinv_optOut_now (s : St) (op key : Nat) (h : QInv s) (hreg' : s.registered op = true)
    (hin : s.optedIn op = true) (hf : s.fwd op = some key) :
    QInv (completeRemoval { s with optedIn := upd s.optedIn op false, removing := upd s.removing op true } op) := by
  have hnr : ¬ s.removing op = true := fun e => by
    have := (h.oFwd op e).2.2; rw [hin] at this; cases this
  have hq := completeRemoval_sameQ { s with optedIn := upd s.optedIn op false, removing := upd s.removing op true } op
  obtain ⟨c1, _, c3⟩ := completeRemoval_keys { s with optedIn := upd s.optedIn op false, removing := upd s.removing op true } op
  have c3' := c3 hreg' (by simp) (by simp [hf])
  have hrm : (completeRemoval { s with optedIn := upd s.optedIn op false, removing := upd s.removing op true } op).removing = s.removing := by
    funext x
    by_cases hx : x = op
    · subst hx
      rw [c3'.1]
      cases hr : s.removing x with
      | false => rfl
      | true => exact absurd hr hnr
    · rw [(c1 x hx).1]; simp [upd_apply, hx]
  exact h.transfer hq.nUnb hq.epoch hq.epochEnd hq.oo hq.um hq.pOO hq.pU hq.umat hq.holds hq.ofe hrm
    (fun x hx => by
      have hxo : x ≠ op := fun e => hnr (e ▸ hx)
      rw [hq.reg, (c1 x hxo).2, hq.optedIn]
      have := h.oFwd x hx
      simpa [upd_apply, hxo] using this)

theorem qinv_optOut (s : St) (op : Nat) (h : QInv s) : QInv (optOut s op).2 := by
  unfold optOut
  split
  · exact h
  · rename_i hreg
    split
    · exact h
    · rename_i hact
      have hreg' : s.registered op = true := by simpa using hreg
      have hin : s.optedIn op = true := by
        cases hi : s.optedIn op with
        | true => rfl
        | false => simp [hi] at hact
      cases hf : s.fwd op with
      | none => exact h
      | some key =>
        simp only []
        repeat' split
        all_goals first
          | exact qinv_optOut_sched s op key h hreg' hin hf
          | exact qinv_optOut_now s op key h hreg' hin hf

theorem qinv_epochEndHook (s : St) (h : QInv s) (he : s.epochEnd = false) : QInv (epochEndHook s s.epoch) := by
  obtain ⟨hp1, hp2⟩ := h.pend he
  refine ⟨h.nn, ?_, ?_, ?_, ?_, ?_, ?_, ?_, h.uHeld, ?_, ?_, ?_, ?_, ?_, ?_, h.oFwd⟩
  · intro e' he'
    show upd s.optOutsToFinish s.epoch [] e' = [] ∧ upd s.undelToMature s.epoch [] e' = []
    have he'' : e' < s.epoch + 1 := he'
    by_cases hee : e' = s.epoch
    · subst hee; simp
    · rw [upd_other _ _ _ _ hee, upd_other _ _ _ _ hee]; exact h.past e' (by omega)
  · intro hc; cases hc
  · intro e'
    show (upd s.undelToMature s.epoch [] e').Nodup
    by_cases hee : e' = s.epoch
    · subst hee; simp
    · rw [upd_other _ _ _ _ hee]; exact h.uNodup e'
  · exact h.uNodup s.epoch
  · intro e' r hr
    have hr' : r ∈ upd s.undelToMature s.epoch [] e' := hr
    by_cases hee : e' = s.epoch
    · subst hee; simp at hr'
    · rw [upd_other _ _ _ _ hee] at hr'; exact h.uSlot e' r hr'
  · intro r hr
    show s.undelMaturity r = some (s.epoch + 1 - 1)
    have : s.epoch + 1 - 1 = s.epoch := by omega
    rw [this]; exact h.uSlot s.epoch r hr
  · intro r f hm
    show r ∈ upd s.undelToMature s.epoch [] f ∨ (f = s.epoch + 1 - 1 ∧ r ∈ s.undelToMature s.epoch)
    rcases h.uBack r f hm with h1 | ⟨_, h1⟩
    · by_cases hfe : f = s.epoch
      · subst hfe; exact Or.inr ⟨by omega, h1⟩
      · rw [upd_other _ _ _ _ hfe]; exact Or.inl h1
    · rw [hp2] at h1; cases h1
  · intro e'
    show (upd s.optOutsToFinish s.epoch [] e').Nodup
    by_cases hee : e' = s.epoch
    · subst hee; simp
    · rw [upd_other _ _ _ _ hee]; exact h.oNodup e'
  · exact h.oNodup s.epoch
  · intro e' x hx
    have hx' : x ∈ upd s.optOutsToFinish s.epoch [] e' := hx
    show (if x ∈ s.optOutsToFinish s.epoch then none else s.optOutFinishEpoch x) = some e'
    by_cases hee : e' = s.epoch
    · subst hee; simp at hx'
    · rw [upd_other _ _ _ _ hee] at hx'
      have h1 := h.oSlot e' x hx'
      have hnot : x ∉ s.optOutsToFinish s.epoch := fun hm => by
        have h2 := h.oSlot s.epoch x hm
        rw [h1] at h2; injection h2 with h2; exact hee h2
      rw [if_neg hnot]; exact h1
  · intro x f hm
    have hm' : (if x ∈ s.optOutsToFinish s.epoch then none else s.optOutFinishEpoch x) = some f := hm
    show x ∈ upd s.optOutsToFinish s.epoch [] f
    by_cases hin : x ∈ s.optOutsToFinish s.epoch
    · rw [if_pos hin] at hm'; cases hm'
    · rw [if_neg hin] at hm'
      have h1 := h.oBack x f hm'
      have hfe : f ≠ s.epoch := fun e => hin (e ▸ h1)
      rw [upd_other _ _ _ _ hfe]; exact h1
  · intro x hx
    have hx' : x ∈ s.optOutsToFinish s.epoch := hx
    show (if x ∈ s.optOutsToFinish s.epoch then none else s.optOutFinishEpoch x) = none
    rw [if_pos hx']
  · intro x
    show s.removing x = true ↔
      ((if x ∈ s.optOutsToFinish s.epoch then none else s.optOutFinishEpoch x).isSome = true ∨ x ∈ s.optOutsToFinish s.epoch)
    rw [h.oRemoving x, hp1]
    by_cases hin : x ∈ s.optOutsToFinish s.epoch
    · have := h.oSlot s.epoch x hin
      simp [hin, this]
    · simp [hin]

/-- the holds and maturity lookups after the first stages of a closing EndBlock -/
theorem endBlockPre_undel (s : St) (hnd : s.pendingUndel.Nodup) (r : Nat) :
    (endBlockPre s).holds r = (if r ∈ s.pendingUndel then s.holds r - 1 else s.holds r) ∧
    (endBlockPre s).undelMaturity r = (if r ∈ s.pendingUndel then none else s.undelMaturity r) := by
  obtain ⟨c1, c2⟩ := foldl_releaseUndel_char s.pendingUndel { s with prevKey := fun _ => none } hnd r
  have hq := foldl_completeRemoval_sameQ (ebStage2 s).pendingOptOuts (ebStage2 s)
  constructor
  · show (List.foldl completeRemoval (ebStage2 s) (ebStage2 s).pendingOptOuts).holds r = _; rw [hq.holds]; exact c1
  · show (List.foldl completeRemoval (ebStage2 s) (ebStage2 s).pendingOptOuts).undelMaturity r = _; rw [hq.umat]; exact c2

/-- the removal markers and forward index after the first stages of a closing EndBlock -/
theorem endBlockPre_removing (s : St) :
    (∀ x, (endBlockPre s).removing x = true → s.removing x = true ∧ (endBlockPre s).fwd x = s.fwd x) ∧
    (∀ x, x ∉ s.pendingOptOuts → (endBlockPre s).removing x = s.removing x ∧ (endBlockPre s).fwd x = s.fwd x) ∧
    (∀ x, x ∈ s.pendingOptOuts → s.registered x = true → s.removing x = true → (s.fwd x).isSome = true →
      (endBlockPre s).removing x = false) := by
  obtain ⟨e1, e2, e3, e4, _, _, _, _⟩ := ebStage2_fields s
  obtain ⟨k1, k2, k3⟩ := foldl_completeRemoval_keys (ebStage2 s).pendingOptOuts (ebStage2 s)
  refine ⟨fun x hx => ?_, fun x hx => ?_, fun x hx hreg hrm hf => ?_⟩
  · have := k1 x hx; rw [e1, e2] at this; exact this
  · have := k2 x (by rw [e4]; exact hx); rw [e1, e2] at this; exact this
  · exact k3 x (by rw [e4]; exact hx) (by rw [e3]; exact hreg) (by rw [e1]; exact hrm) (by rw [e2]; exact hf)

theorem qinv_endBlock (s : St) (power : Nat → Int) (maxVals : Nat) (h : QInv s) : QInv (endBlock s power maxVals) := by
  by_cases he : s.epochEnd = true
  · rw [endBlock_closing s power maxVals he]
    obtain ⟨f1, f2, f3, f4, f5, f6, f7, f8, _, f10, _, _⟩ := endBlockPre_fields s
    obtain ⟨r1, r2, r3⟩ := endBlockPre_removing s
    have hu := endBlockPre_undel s h.uPendNodup
    have hnotpend : ∀ e r, r ∈ s.undelToMature e → r ∉ s.pendingUndel := by
      intro e r hr hp
      have h1 := h.uSlot e r hr
      have h2 := h.uPend r hp
      rw [h1] at h2; injection h2 with h2
      have := (h.past e (by omega)).2
      rw [this] at hr; cases hr
    refine ⟨?_, ?_, ?_, ?_, ?_, ?_, ?_, ?_, ?_, ?_, ?_, ?_, ?_, ?_, ?_, ?_⟩
    · show 0 ≤ (endBlockPre s).nUnb; rw [f2]; exact h.nn
    · intro e hlt
      show (endBlockPre s).optOutsToFinish e = [] ∧ (endBlockPre s).undelToMature e = []
      rw [f4, f6]; exact h.past e (by rw [f1] at hlt; exact hlt)
    · intro _; exact ⟨f8, f10⟩
    · intro e; show ((endBlockPre s).undelToMature e).Nodup; rw [f6]; exact h.uNodup e
    · show (endBlockPre s).pendingUndel.Nodup; rw [f10]; exact List.nodup_nil
    · intro e r hr
      have hr' : r ∈ (endBlockPre s).undelToMature e := hr
      rw [f6] at hr'
      show (endBlockPre s).undelMaturity r = some e
      rw [(hu r).2, if_neg (hnotpend e r hr')]; exact h.uSlot e r hr'
    · intro r hr
      have hr' : r ∈ (endBlockPre s).pendingUndel := hr
      rw [f10] at hr'; cases hr'
    · intro r f hm
      have hm' : (endBlockPre s).undelMaturity r = some f := hm
      show r ∈ (endBlockPre s).undelToMature f ∨ _
      rw [(hu r).2] at hm'
      by_cases hp : r ∈ s.pendingUndel
      · rw [if_pos hp] at hm'; cases hm'
      · rw [if_neg hp] at hm'
        rcases h.uBack r f hm' with h1 | ⟨_, h1⟩
        · rw [f6]; exact Or.inl h1
        · exact absurd h1 hp
    · intro r f hm
      have hm' : (endBlockPre s).undelMaturity r = some f := hm
      show 1 ≤ (endBlockPre s).holds r
      rw [(hu r).2] at hm'
      by_cases hp : r ∈ s.pendingUndel
      · rw [if_pos hp] at hm'; cases hm'
      · rw [if_neg hp] at hm'
        rw [(hu r).1, if_neg hp]; exact h.uHeld r f hm'
    · intro e; show ((endBlockPre s).optOutsToFinish e).Nodup; rw [f4]; exact h.oNodup e
    · show (endBlockPre s).pendingOptOuts.Nodup; rw [f8]; exact List.nodup_nil
    · intro e x hx
      have hx' : x ∈ (endBlockPre s).optOutsToFinish e := hx
      show (endBlockPre s).optOutFinishEpoch x = some e
      rw [f4] at hx'; rw [f5]; exact h.oSlot e x hx'
    · intro x f hm
      have hm' : (endBlockPre s).optOutFinishEpoch x = some f := hm
      show x ∈ (endBlockPre s).optOutsToFinish f
      rw [f5] at hm'; rw [f4]; exact h.oBack x f hm'
    · intro x hx
      have hx' : x ∈ (endBlockPre s).pendingOptOuts := hx
      rw [f8] at hx'; cases hx'
    · intro x
      show (endBlockPre s).removing x = true ↔
        (((endBlockPre s).optOutFinishEpoch x).isSome = true ∨ x ∈ (endBlockPre s).pendingOptOuts)
      rw [f5, f8]
      constructor
      · intro hx
        have hs := (r1 x hx).1
        rcases (h.oRemoving x).1 hs with h1 | h1
        · exact Or.inl h1
        · have ho := h.oFwd x hs
          have := r3 x h1 ho.1 hs ho.2.1
          rw [this] at hx; cases hx
      · rintro (h1 | h1)
        · have hnp : x ∉ s.pendingOptOuts := fun hm => by
            have := h.oPend x hm; rw [this] at h1; cases h1
          rw [(r2 x hnp).1]; exact (h.oRemoving x).2 (Or.inl h1)
        · cases h1
    · intro x hx
      have hx' : (endBlockPre s).removing x = true := hx
      show (endBlockPre s).registered x = true ∧ ((endBlockPre s).fwd x).isSome = true ∧ (endBlockPre s).optedIn x = false
      obtain ⟨hs, hfw⟩ := r1 x hx'
      rw [f3, hfw, f7]; exact h.oFwd x hs
  · have he' : s.epochEnd = false := by cases hh : s.epochEnd <;> simp_all
    rw [endBlock_other s power maxVals he']
    exact h.transfer rfl rfl rfl rfl rfl rfl rfl rfl rfl rfl rfl (fun x hx => h.oFwd x hx)

theorem qinv_step (s : St) (o : Op) (h : QInv s) (hw : wfOp s o) : QInv (step s o).2 := by
  cases o with
  | register op =>
    refine h.transfer rfl rfl rfl rfl rfl rfl rfl rfl rfl rfl rfl (fun x hx => ?_)
    have := h.oFwd x hx
    refine ⟨?_, this.2.1, this.2.2⟩
    show upd s.registered op true x = true
    simp only [upd_apply]; split
    · rfl
    · exact this.1
  | optIn op key ok => exact qinv_optIn s op key ok h
  | setKey op key => exact qinv_setKey s op key h
  | optOut op => exact qinv_optOut s op h
  | jail key b => exact qinv_setJailed s key b h
  | undelegate op rec => exact qinv_undelegationStarted s op rec h hw
  | setUnbonding n =>
    exact ⟨hw, h.past, h.pend, h.uNodup, h.uPendNodup, h.uSlot, h.uPend, h.uBack, h.uHeld, h.oNodup, h.oPendNodup,
      h.oSlot, h.oBack, h.oPend, h.oRemoving, h.oFwd⟩
  | epochEnd e =>
    obtain ⟨he, hf⟩ := hw
    subst he
    exact qinv_epochEndHook s h hf
  | endBlock power maxVals => exact qinv_endBlock s power maxVals h

theorem qinv_init (nOps nKeys : Nat) (e n : Int) (hn : 0 ≤ n) : QInv (St.init nOps nKeys e n) := by
  refine ⟨hn, fun _ _ => ⟨rfl, rfl⟩, fun _ => ⟨rfl, rfl⟩, fun _ => List.nodup_nil, List.nodup_nil, ?_, ?_, ?_, ?_,
    fun _ => List.nodup_nil, List.nodup_nil, ?_, ?_, ?_, ?_, ?_⟩
  · intro e r hr; cases hr
  · intro r hr; cases hr
  · intro r f hm; cases hm
  · intro r f hm; cases hm
  · intro e op hm; cases hm
  · intro op f hm; cases hm
  · intro op hm; cases hm
  · intro op; simp [St.init]
  · intro op hm; simp [St.init] at hm


/-! ## opt-in, seen as "nothing" or "the three flags, then setKeyCore" -/

theorem optIn_cases (s : St) (op key : Nat) (ok : Bool) :
    (optIn s op key ok).2 = s ∨
    ((setKeyCore { s with hasInfo := upd s.hasInfo op true, optedIn := upd s.optedIn op true, jailed := upd s.jailed op false } op key).1 = .ok ∧
     (optIn s op key ok).2 = (setKeyCore { s with hasInfo := upd s.hasInfo op true, optedIn := upd s.optedIn op true, jailed := upd s.jailed op false } op key).2) := by
  unfold optIn
  split
  · exact Or.inl rfl
  · split
    · exact Or.inl rfl
    · split
      · exact Or.inl rfl
      · dsimp only
        generalize setKeyCore _ op key = r
        obtain ⟨o, s2⟩ := r
        cases o <;> simp

/-! ## consensus addresses to prune -/

structure AInv (s : St) : Prop where
  /-- nothing waits in a slot whose epoch has ended -/
  aPast : ∀ e, e < s.epoch → s.addrsToPrune e = []
  /-- outside a closing block the pending list is empty -/
  aPend : s.epochEnd = false → s.pendingAddrs = []
  /-- an address waits at most once -/
  aNodup : ∀ e, (s.addrsToPrune e).Nodup
  aPendNodup : s.pendingAddrs.Nodup

theorem AInv.transfer {s t : St} (h : AInv s) (e1 : t.epoch = s.epoch) (e2 : t.epochEnd = s.epochEnd)
    (e3 : t.addrsToPrune = s.addrsToPrune) (e4 : t.pendingAddrs = s.pendingAddrs) : AInv t := by
  obtain ⟨a1, a2, a3, a4⟩ := h
  refine ⟨?_, ?_, ?_, ?_⟩
  · rw [e1, e3]; exact a1
  · rw [e2, e4]; exact a2
  · rw [e3]; exact a3
  · rw [e4]; exact a4

theorem ainv_hookReplaced (t : St) (old : Nat) (h : AInv t) (hn : 0 ≤ t.nUnb) (hns : ¬ sched t old) :
    AInv (hookReplaced t old) := by
  unfold hookReplaced
  split
  · refine ⟨?_, h.aPend, ?_, h.aPendNodup⟩
    · intro e (he : e < t.epoch)
      have hne : e ≠ completionEpoch t := by simp only [completionEpoch]; omega
      show upd t.addrsToPrune (completionEpoch t) _ e = []
      rw [upd_other _ _ _ _ hne]; exact h.aPast e he
    · intro e
      show (upd t.addrsToPrune (completionEpoch t) _ e).Nodup
      by_cases he : e = completionEpoch t
      · rw [he, upd_same]
        refine List.nodup_append.2 ⟨h.aNodup _, by simp, ?_⟩
        intro a ha b hb
        simp only [List.mem_singleton] at hb
        subst hb
        exact fun e2 => hns (Or.inr ⟨_, e2 ▸ ha⟩)
      · rw [upd_other _ _ _ _ he]; exact h.aNodup e
  · exact h.transfer rfl rfl rfl rfl

theorem ainv_setKeyCore (s : St) (op key : Nat) (hi : Inv s) (hn : 0 ≤ s.nUnb) (h : AInv s) :
    AInv (setKeyCore s op key).2 := by
  unfold setKeyCore
  split
  · exact h
  · split
    · exact h
    · cases hf : s.fwd op with
      | none => exact h.transfer rfl rfl rfl rfl
      | some pk =>
        simp only []
        split
        · exact h
        · by_cases hal : (s.prevKey op).isSome = true
          · simp only [hal, if_true]
            exact h.transfer rfl rfl rfl rfl
          · simp only [hal, Bool.false_eq_true, if_false]
            refine ainv_hookReplaced _ pk (h.transfer rfl rfl rfl rfl) hn ?_
            intro hk
            have hk' : sched s pk := by simpa [sched] using hk
            exact hi.schedFree pk hk' op hf

theorem ainv_optIn (s : St) (op key : Nat) (ok : Bool) (hi : Inv s) (hn : 0 ≤ s.nUnb) (h : AInv s) :
    AInv (optIn s op key ok).2 := by
  rcases optIn_cases s op key ok with h1 | ⟨_, h1⟩
  · rw [h1]; exact h
  · rw [h1]
    exact ainv_setKeyCore _ op key (hi.congr rfl rfl rfl rfl rfl) hn (h.transfer rfl rfl rfl rfl)

theorem ainv_optOut (s : St) (op : Nat) (h : AInv s) : AInv (optOut s op).2 := by
  unfold optOut
  split
  · exact h
  · split
    · exact h
    · cases s.fwd op with
      | none => exact h
      | some key =>
        simp only []
        repeat' split
        all_goals first
          | exact h.transfer rfl rfl rfl rfl
          | exact h.transfer (completeRemoval_sameQ _ op).epoch (completeRemoval_sameQ _ op).epochEnd
              (completeRemoval_fields _ op).1 (completeRemoval_fields _ op).2.1

theorem ainv_epochEndHook (s : St) (h : AInv s) : AInv (epochEndHook s s.epoch) := by
  refine ⟨?_, ?_, ?_, h.aNodup s.epoch⟩
  · intro e' (he' : e' < s.epoch + 1)
    show upd s.addrsToPrune s.epoch [] e' = []
    by_cases hee : e' = s.epoch
    · rw [hee, upd_same]
    · rw [upd_other _ _ _ _ hee]; exact h.aPast e' (by omega)
  · intro hc; cases hc
  · intro e'
    show (upd s.addrsToPrune s.epoch [] e').Nodup
    by_cases hee : e' = s.epoch
    · rw [hee, upd_same]; exact List.nodup_nil
    · rw [upd_other _ _ _ _ hee]; exact h.aNodup e'

theorem ainv_endBlock (s : St) (power : Nat → Int) (maxVals : Nat) (h : AInv s) : AInv (endBlock s power maxVals) := by
  by_cases he : s.epochEnd = true
  · rw [endBlock_closing s power maxVals he]
    obtain ⟨f1, _, _, _, _, _, _, _, f9, _, _, f12⟩ := endBlockPre_fields s
    refine ⟨?_, fun _ => f9, ?_, ?_⟩
    · intro e (hlt : e < (endBlockPre s).epoch)
      show (endBlockPre s).addrsToPrune e = []
      rw [f12]; rw [f1] at hlt; exact h.aPast e hlt
    · intro e; show ((endBlockPre s).addrsToPrune e).Nodup; rw [f12]; exact h.aNodup e
    · show (endBlockPre s).pendingAddrs.Nodup; rw [f9]; exact List.nodup_nil
  · have he' : s.epochEnd = false := by cases hh : s.epochEnd <;> simp_all
    rw [endBlock_other s power maxVals he']
    exact h.transfer rfl rfl rfl rfl

theorem ainv_step (s : St) (o : Op) (hi : Inv s) (hn : 0 ≤ s.nUnb) (h : AInv s) (hw : wfOp s o) :
    AInv (step s o).2 := by
  cases o with
  | register op => exact h.transfer rfl rfl rfl rfl
  | optIn op key ok => exact ainv_optIn s op key ok hi hn h
  | setKey op key =>
    simp only [step, setKey]
    split
    · exact h
    · exact ainv_setKeyCore s op key hi hn h
  | optOut op => exact ainv_optOut s op h
  | jail key b =>
    simp only [step, setJailed]
    repeat' split
    all_goals first | exact h | exact h.transfer rfl rfl rfl rfl
  | undelegate op rec =>
    simp only [step, undelegationStarted]
    repeat' split
    all_goals first | exact h | exact h.transfer rfl rfl rfl rfl
  | setUnbonding n => exact h.transfer rfl rfl rfl rfl
  | epochEnd e =>
    obtain ⟨he, _⟩ := hw
    subst he
    exact ainv_epochEndHook s h
  | endBlock power maxVals => exact ainv_endBlock s power maxVals h

/-! ## the stored validator set: a map whose keys are all resolvable -/

structure VInv (s : St) : Prop where
  vMap : KV.NoDup s.vs.vals
  /-- every key of the active validator set resolves to an operator (it can be slashed / jailed) -/
  vRev : ∀ k, has s.vs.vals k = true → (s.rev k).isSome = true

theorem VInv.transfer {s t : St} (h : VInv s) (e1 : t.vs.vals = s.vs.vals) (e2 : t.rev = s.rev) : VInv t := by
  obtain ⟨a1, a2⟩ := h
  refine ⟨?_, ?_⟩
  · rw [e1]; exact a1
  · rw [e1, e2]; exact a2

theorem vinv_hookReplaced (t : St) (old : Nat) (h : VInv t) : VInv (hookReplaced t old) := by
  unfold hookReplaced
  split
  · exact h.transfer rfl rfl
  · rename_i hnot
    refine ⟨h.vMap, fun k hk => ?_⟩
    have hk' : has t.vs.vals k = true := hk
    show (upd t.rev old none k).isSome = true
    have hne : k ≠ old := fun e => hnot (e ▸ hk')
    rw [upd_other _ _ _ _ hne]; exact h.vRev k hk'

theorem vinv_setKeyCore (s : St) (op key : Nat) (h : VInv s) : VInv (setKeyCore s op key).2 := by
  have core : ∀ t : St, t.vs.vals = s.vs.vals → t.rev = s.rev →
      VInv { t with fwd := upd t.fwd op (some key), fwd2 := upd t.fwd2 op (some key), rev := upd t.rev key (some op) } := by
    intro t e1 e2
    refine ⟨?_, fun k hk => ?_⟩
    · show KV.NoDup t.vs.vals; rw [e1]; exact h.vMap
    · have hk' : has t.vs.vals k = true := hk
      show (upd t.rev key (some op) k).isSome = true
      simp only [upd_apply]
      split
      · rfl
      · rw [e2]; rw [e1] at hk'; exact h.vRev k hk'
  unfold setKeyCore
  split
  · exact h
  · split
    · exact h
    · cases s.fwd op with
      | none => exact core s rfl rfl
      | some pk =>
        simp only []
        split
        · exact h
        · by_cases hal : (s.prevKey op).isSome = true
          · simp only [hal, if_true]
            exact core s rfl rfl
          · simp only [hal, Bool.false_eq_true, if_false]
            exact vinv_hookReplaced _ pk (core { s with prevKey := upd s.prevKey op (some pk) } rfl rfl)

theorem vinv_completeRemoval (t : St) (op : Nat) (h : VInv t)
    (hk : ∀ key, t.fwd op = some key → has t.vs.vals key = false) : VInv (completeRemoval t op) := by
  unfold completeRemoval
  split
  · exact h
  · split
    · exact h
    · cases hf : t.fwd op with
      | none => exact h
      | some key =>
        simp only []
        refine ⟨h.vMap, fun k hkk => ?_⟩
        have hkk' : has t.vs.vals k = true := hkk
        show (upd t.rev key none k).isSome = true
        have hne : k ≠ key := fun e => by
          have := hk key hf; rw [← e, hkk'] at this; cases this
        rw [upd_other _ _ _ _ hne]; exact h.vRev k hkk'

theorem vinv_optOut (s : St) (op : Nat) (h : VInv s) : VInv (optOut s op).2 := by
  unfold optOut
  split
  · exact h
  · split
    · exact h
    · cases hf : s.fwd op with
      | none => exact h
      | some key =>
        simp only []
        by_cases hv : has s.vs.vals key = true
        · simp only [hv, Bool.true_or, if_true]
          exact h.transfer rfl rfl
        · have hv' : has s.vs.vals key = false := by simpa using hv
          simp only [hv', Bool.false_or]
          repeat' split
          all_goals first
            | exact h.transfer rfl rfl
            | exact vinv_completeRemoval _ op (h.transfer rfl rfl) (fun k' hk' => by
                have hk'' : s.fwd op = some k' := hk'
                rw [hf] at hk''; injection hk'' with e; rw [← e]; exact hv')

/-! ### the candidate list EndBlock reads satisfies C06's hypotheses -/

/-- one operator's entry of `candsOf` -/
def candOf (s : St) (power : Nat → Int) (op : Nat) : Option Cand :=
  match s.fwd2 op with
  | some key => if s.optedIn op && !s.jailed op then some ⟨op, key, power op, (s.rev key).isSome⟩ else none
  | none => none

theorem candsOf_eq (s : St) (power : Nat → Int) :
    candsOf s power = (List.range s.nOps).filterMap (candOf s power) := rfl

theorem candOf_some (s : St) (power : Nat → Int) (op : Nat) (c : Cand) (h : candOf s power op = some c) :
    c.op = op ∧ s.fwd2 op = some c.key ∧ c.rev = (s.rev c.key).isSome ∧ c.power = power op ∧
    s.optedIn op = true ∧ s.jailed op = false := by
  unfold candOf at h
  cases h2 : s.fwd2 op with
  | none => simp [h2] at h
  | some key =>
    simp only [h2] at h
    split at h
    · rename_i hact
      injection h with h; subst h
      simp at hact
      exact ⟨rfl, rfl, rfl, rfl, hact.1, hact.2⟩
    · cases h

theorem mem_candsOf (s : St) (power : Nat → Int) (c : Cand) (hc : c ∈ candsOf s power) :
    c.op < s.nOps ∧ s.fwd2 c.op = some c.key ∧ c.rev = (s.rev c.key).isSome := by
  rw [candsOf_eq] at hc
  obtain ⟨op, hop, hf⟩ := List.mem_filterMap.1 hc
  obtain ⟨h1, h2, h3, _⟩ := candOf_some s power op c hf
  subst h1
  exact ⟨List.mem_range.1 hop, h2, h3⟩

theorem nodup_map_filterMap {α β γ : Type} (l : List α) (f : α → Option β) (g : β → γ) (hl : l.Nodup)
    (hinj : ∀ a b x y, a ∈ l → b ∈ l → f a = some x → f b = some y → g x = g y → a = b) :
    ((l.filterMap f).map g).Nodup := by
  induction l with
  | nil => simp
  | cons a rest ih =>
    have hnd := List.nodup_cons.1 hl
    have ih' := ih hnd.2 (fun a' b' x y ha hb => hinj a' b' x y (List.mem_cons_of_mem _ ha) (List.mem_cons_of_mem _ hb))
    cases hfa : f a with
    | none => rw [List.filterMap_cons_none hfa]; exact ih'
    | some x =>
      rw [List.filterMap_cons_some hfa, List.map_cons, List.nodup_cons]
      refine ⟨?_, ih'⟩
      intro hm
      obtain ⟨y, hy, hgy⟩ := List.mem_map.1 hm
      obtain ⟨b, hb, hfb⟩ := List.mem_filterMap.1 hy
      have := hinj a b x y (List.mem_cons_self ..) (List.mem_cons_of_mem _ hb) hfa hfb hgy.symm
      exact hnd.1 (this ▸ hb)

/-- C07 ⇒ C06's first hypothesis: the candidates' keys are pairwise distinct -/
theorem candsOf_keys_nodup (s : St) (power : Nat → Int) (hi : Inv s) : ((candsOf s power).map (·.key)).Nodup := by
  rw [candsOf_eq]
  apply nodup_map_filterMap _ _ _ List.nodup_range
  intro a b x y _ _ hx hy hxy
  obtain ⟨_, ha2, _⟩ := candOf_some s power a x hx
  obtain ⟨_, hb2, _⟩ := candOf_some s power b y hy
  rw [← hi.fwdEq] at ha2 hb2
  exact hi.injective a b x.key ha2 (by rw [hxy]; exact hb2)

/-- the candidates are distinct operators -/
theorem candsOf_ops_nodup (s : St) (power : Nat → Int) : ((candsOf s power).map (·.op)).Nodup := by
  rw [candsOf_eq]
  apply nodup_map_filterMap _ _ _ List.nodup_range
  intro a b x y _ _ hx hy hxy
  have ha := (candOf_some s power a x hx).1
  have hb := (candOf_some s power b y hy).1
  omega

/-- C07 ⇒ C06's second hypothesis: every candidate key has its reverse lookup -/
theorem candsOf_revOK (s : St) (power : Nat → Int) (hi : Inv s) : ∀ c ∈ candsOf s power, c.rev = true := by
  intro c hc
  obtain ⟨_, h2, h3⟩ := mem_candsOf s power c hc
  rw [← hi.fwdEq] at h2
  rw [h3, hi.back c.op c.key h2]; rfl

theorem vinv_endBlock (s : St) (power : Nat → Int) (maxVals : Nat) (hi : Inv s) (h : VInv s) :
    VInv (endBlock s power maxVals) := by
  by_cases he : s.epochEnd = true
  · have hiE := inv_endBlock s power maxVals hi
    rw [endBlock_closing s power maxVals he] at hiE ⊢
    have hiP : Inv (endBlockPre s) := hiE.congr rfl rfl rfl rfl rfl
    have hvs : (endBlockPre s).vs = s.vs := (endBlockPre_fields s).2.2.2.2.2.2.2.2.2.2.1
    have hok : InputsOK (endBlockPre s).vs.vals (candsOf (endBlockPre s) power) :=
      ⟨by rw [hvs]; exact h.vMap, candsOf_keys_nodup _ power hiP, candsOf_revOK _ power hiP⟩
    obtain ⟨_, _, h3, _⟩ := C06_updates_yield_topk (endBlockPre s).vs (candsOf (endBlockPre s) power) maxVals hok
      (endBlockPre s).vs.vals (fun _ => rfl)
    refine ⟨C06_store_nodup_kept _ _ maxVals hok.prevNoDup, fun k hk => ?_⟩
    have hk' : has (endBlockEpoch (endBlockPre s).vs (candsOf (endBlockPre s) power) maxVals).1.vals k = true := hk
    show ((endBlockPre s).rev k).isSome = true
    simp only [has, h3] at hk'
    by_cases hm : k ∈ (topK (candsOf (endBlockPre s) power) maxVals).map (·.key)
    · obtain ⟨c, hc, rfl⟩ := List.mem_map.1 hm
      have hcc := topK_mem_cands _ maxVals c hc
      obtain ⟨_, hf2, _⟩ := mem_candsOf _ power c hcc
      rw [← hiP.fwdEq] at hf2
      rw [hiP.back c.op c.key hf2]; rfl
    · rw [topMap, get_map_not_mem _ k hm] at hk'; cases hk'
  · have he' : s.epochEnd = false := by cases hh : s.epochEnd <;> simp_all
    rw [endBlock_other s power maxVals he']
    exact ⟨h.vMap, h.vRev⟩

theorem vinv_step (s : St) (o : Op) (hi : Inv s) (h : VInv s) : VInv (step s o).2 := by
  cases o with
  | register op => exact h.transfer rfl rfl
  | optIn op key ok =>
    rcases optIn_cases s op key ok with h1 | ⟨_, h1⟩
    · show VInv (optIn s op key ok).2; rw [h1]; exact h
    · show VInv (optIn s op key ok).2; rw [h1]
      exact vinv_setKeyCore _ op key (h.transfer rfl rfl)
  | setKey op key =>
    simp only [step, setKey]
    split
    · exact h
    · exact vinv_setKeyCore s op key h
  | optOut op => exact vinv_optOut s op h
  | jail key b =>
    simp only [step, setJailed]
    repeat' split
    all_goals first | exact h | exact h.transfer rfl rfl
  | undelegate op rec =>
    simp only [step, undelegationStarted]
    repeat' split
    all_goals first | exact h | exact h.transfer rfl rfl
  | setUnbonding n => exact h.transfer rfl rfl
  | epochEnd e => exact h.transfer rfl rfl
  | endBlock power maxVals => exact vinv_endBlock s power maxVals hi h

/-! ## all four invariants together -/

theorem inv_step' (s : St) (o : Op) (h : Inv s) : Inv (step s o).2 := by
  cases o with
  | register op => exact h.congr rfl rfl rfl rfl rfl
  | optIn op key ok => exact inv_optIn s op key ok h
  | setKey op key => exact inv_setKey s op key h
  | optOut op => exact inv_optOut s op h
  | jail key b => exact inv_setJailed s key b h
  | undelegate op rec => exact inv_undelegationStarted s op rec h
  | setUnbonding n => exact h.congr rfl rfl rfl rfl rfl
  | epochEnd e => exact inv_epochEndHook s e h
  | endBlock power maxVals => exact inv_endBlock s power maxVals h

/-- registry invariant (C07), queue invariants (C16) and validator-set invariant (C06/C07) -/
structure Good (s : St) : Prop where
  inv : Inv s
  q : QInv s
  a : AInv s
  v : VInv s

theorem good_step (s : St) (o : Op) (h : Good s) (hw : wfOp s o) : Good (step s o).2 :=
  ⟨inv_step' s o h.inv, qinv_step s o h.q hw, ainv_step s o h.inv h.q.nn h.a hw, vinv_step s o h.inv h.v⟩

theorem good_run (s : St) (ops : List Op) (h : Good s) (hw : wf s ops) : Good (run s ops) := by
  induction ops generalizing s with
  | nil => exact h
  | cons o rest ih => exact ih _ (good_step s o h hw.1) hw.2

theorem inv_init' (nOps nKeys : Nat) (e n : Int) : Inv (St.init nOps nKeys e n) := by
  refine ⟨fun _ => rfl, ?_, ?_, ?_, ?_⟩
  · intro op k hk; simp [St.init] at hk
  · intro k hk; rcases hk with hk | ⟨e, hk⟩ <;> simp [St.init] at hk
  · intro k hk; rcases hk with hk | ⟨e, hk⟩ <;> simp [St.init] at hk
  · intro e k hk; simp [St.init] at hk

theorem good_init (nOps nKeys : Nat) (e n : Int) (hn : 0 ≤ n) : Good (St.init nOps nKeys e n) :=
  ⟨inv_init' nOps nKeys e n, qinv_init nOps nKeys e n hn,
   ⟨fun _ _ => rfl, fun _ => rfl, fun _ => List.nodup_nil, List.nodup_nil⟩,
   ⟨by simp [St.init, KV.NoDup, KV.keys], fun k hk => by simp [St.init, has, KV.find?] at hk⟩⟩


/-! ## transactions do not touch the block-level fields -/

/-- operations that happen inside a block (everything except the two block-boundary operations) -/
def isTx : Op → Prop
  | .epochEnd _ => False
  | .endBlock _ _ => False
  | _ => True

instance (o : Op) : Decidable (isTx o) := by
  cases o <;> unfold isTx <;> infer_instance

/-- the epoch number, the epoch-end marker and the three pending lists -/
structure SameB (t s : St) : Prop where
  epoch : t.epoch = s.epoch
  epochEnd : t.epochEnd = s.epochEnd
  pOO : t.pendingOptOuts = s.pendingOptOuts
  pA : t.pendingAddrs = s.pendingAddrs
  pU : t.pendingUndel = s.pendingUndel

theorem SameQ.toB {t s : St} (h : SameQ t s) : SameB t s := ⟨h.epoch, h.epochEnd, h.pOO, h.pA, h.pU⟩

theorem SameB.trans {a b c : St} (h1 : SameB a b) (h2 : SameB b c) : SameB a c :=
  ⟨h1.epoch.trans h2.epoch, h1.epochEnd.trans h2.epochEnd, h1.pOO.trans h2.pOO, h1.pA.trans h2.pA, h1.pU.trans h2.pU⟩

/-- an opt-out does nothing, or marks the operator and then schedules or completes the removal -/
theorem optOut_cases (s : St) (op : Nat) :
    (optOut s op).2 = s ∨
    (optOut s op).2 = setOptOutInformation { s with optedIn := upd s.optedIn op false, removing := upd s.removing op true } op ∨
    (optOut s op).2 = completeRemoval { s with optedIn := upd s.optedIn op false, removing := upd s.removing op true } op := by
  unfold optOut
  split
  · exact Or.inl rfl
  · split
    · exact Or.inl rfl
    · cases s.fwd op with
      | none => exact Or.inl rfl
      | some key =>
        simp only []
        repeat' split
        all_goals first
          | exact Or.inr (Or.inl rfl)
          | exact Or.inr (Or.inr rfl)

theorem optOut_frame (s : St) (op : Nat) :
    SameB (optOut s op).2 s ∧ (optOut s op).2.undelToMature = s.undelToMature ∧
    (optOut s op).2.undelMaturity = s.undelMaturity ∧ (optOut s op).2.holds = s.holds ∧
    (optOut s op).2.addrsToPrune = s.addrsToPrune ∧ (optOut s op).2.nUnb = s.nUnb := by
  rcases optOut_cases s op with h1 | h1 | h1
  · rw [h1]; exact ⟨⟨rfl, rfl, rfl, rfl, rfl⟩, rfl, rfl, rfl, rfl, rfl⟩
  · rw [h1]; exact ⟨⟨rfl, rfl, rfl, rfl, rfl⟩, rfl, rfl, rfl, rfl, rfl⟩
  · rw [h1]
    have hq := completeRemoval_sameQ { s with optedIn := upd s.optedIn op false, removing := upd s.removing op true } op
    have hf := completeRemoval_fields { s with optedIn := upd s.optedIn op false, removing := upd s.removing op true } op
    exact ⟨⟨hq.epoch, hq.epochEnd, hq.pOO, hq.pA, hq.pU⟩, hq.um, hq.umat, hq.holds, hf.1, hq.nUnb⟩

theorem undelegationStarted_frame (s : St) (op rec : Nat) :
    SameB (undelegationStarted s op rec).2 s ∧ (undelegationStarted s op rec).2.addrsToPrune = s.addrsToPrune ∧
    (undelegationStarted s op rec).2.rev = s.rev ∧ (undelegationStarted s op rec).2.fwd = s.fwd ∧
    (undelegationStarted s op rec).2.removing = s.removing ∧ (undelegationStarted s op rec).2.nUnb = s.nUnb := by
  unfold undelegationStarted
  simp only []
  repeat' split
  all_goals exact ⟨⟨rfl, rfl, rfl, rfl, rfl⟩, rfl, rfl, rfl, rfl, rfl⟩

theorem setJailed_frame (s : St) (key : Nat) (b : Bool) :
    SameB (setJailed s key b) s ∧ (setJailed s key b).holds = s.holds ∧ (setJailed s key b).undelMaturity = s.undelMaturity ∧
    (setJailed s key b).rev = s.rev ∧ (setJailed s key b).fwd = s.fwd ∧ (setJailed s key b).removing = s.removing ∧
    (setJailed s key b).nUnb = s.nUnb := by
  unfold setJailed
  repeat' split
  all_goals exact ⟨⟨rfl, rfl, rfl, rfl, rfl⟩, rfl, rfl, rfl, rfl, rfl, rfl⟩

theorem optIn_sameQ' (s : St) (op key : Nat) (ok : Bool) :
    SameB (optIn s op key ok).2 s ∧ (optIn s op key ok).2.holds = s.holds ∧
    (optIn s op key ok).2.undelMaturity = s.undelMaturity ∧ (optIn s op key ok).2.nUnb = s.nUnb := by
  rcases optIn_cases s op key ok with h1 | ⟨_, h1⟩
  · rw [h1]; exact ⟨⟨rfl, rfl, rfl, rfl, rfl⟩, rfl, rfl, rfl⟩
  · rw [h1]
    have hq := setKeyCore_sameQ { s with hasInfo := upd s.hasInfo op true, optedIn := upd s.optedIn op true, jailed := upd s.jailed op false } op key
    exact ⟨⟨hq.epoch, hq.epochEnd, hq.pOO, hq.pA, hq.pU⟩, hq.holds, hq.umat, hq.nUnb⟩

theorem setKey_sameQ (s : St) (op key : Nat) : SameQ (setKey s op key).2 s := by
  unfold setKey
  split
  · exact SameQ.rfl' s
  · exact setKeyCore_sameQ s op key

theorem step_tx_sameB (s : St) (o : Op) (h : isTx o) : SameB (step s o).2 s := by
  cases o with
  | register op => exact ⟨rfl, rfl, rfl, rfl, rfl⟩
  | optIn op key ok => exact (optIn_sameQ' s op key ok).1
  | setKey op key => exact (setKey_sameQ s op key).toB
  | optOut op => exact (optOut_frame s op).1
  | jail key b => exact (setJailed_frame s key b).1
  | undelegate op rec => exact (undelegationStarted_frame s op rec).1
  | setUnbonding n => exact ⟨rfl, rfl, rfl, rfl, rfl⟩
  | epochEnd e => exact absurd h (by simp [isTx])
  | endBlock power maxVals => exact absurd h (by simp [isTx])

theorem run_txs_sameB (s : St) (txs : List Op) (h : ∀ o ∈ txs, isTx o) : SameB (run s txs) s := by
  induction txs generalizing s with
  | nil => exact ⟨rfl, rfl, rfl, rfl, rfl⟩
  | cons o rest ih =>
    exact (ih (step s o).2 (fun x hx => h x (List.mem_cons_of_mem _ hx))).trans
      (step_tx_sameB s o (h o (List.mem_cons_self ..)))

/-! ## the epoch clock -/

theorem endBlock_epoch (s : St) (power : Nat → Int) (maxVals : Nat) : (endBlock s power maxVals).epoch = s.epoch := by
  by_cases he : s.epochEnd = true
  · rw [endBlock_closing s power maxVals he]; exact (endBlockPre_fields s).1
  · have he' : s.epochEnd = false := by cases hh : s.epochEnd <;> simp_all
    rw [endBlock_other s power maxVals he']

/-- only the epoch-end hook moves the epoch number, by one -/
theorem step_epoch (s : St) (o : Op) (hw : wfOp s o) :
    (∀ e, o = .epochEnd e → (step s o).2.epoch = s.epoch + 1) ∧
    ((∀ e, o ≠ .epochEnd e) → (step s o).2.epoch = s.epoch) := by
  cases o with
  | epochEnd e =>
    obtain ⟨he, _⟩ := hw
    refine ⟨fun _ _ => ?_, fun h => absurd rfl (h e)⟩
    show e + 1 = s.epoch + 1
    rw [he]
  | endBlock power maxVals => exact ⟨fun _ h => (by cases h), fun _ => endBlock_epoch s power maxVals⟩
  | register op => exact ⟨fun _ h => (by cases h), fun _ => rfl⟩
  | optIn op key ok => exact ⟨fun _ h => (by cases h), fun _ => (optIn_sameQ' s op key ok).1.epoch⟩
  | setKey op key => exact ⟨fun _ h => (by cases h), fun _ => (setKey_sameQ s op key).epoch⟩
  | optOut op => exact ⟨fun _ h => (by cases h), fun _ => (optOut_frame s op).1.epoch⟩
  | jail key b => exact ⟨fun _ h => (by cases h), fun _ => (setJailed_frame s key b).1.epoch⟩
  | undelegate op rec => exact ⟨fun _ h => (by cases h), fun _ => (undelegationStarted_frame s op rec).1.epoch⟩
  | setUnbonding n => exact ⟨fun _ h => (by cases h), fun _ => rfl⟩

theorem epoch_mono_step (s : St) (o : Op) (hw : wfOp s o) : s.epoch ≤ (step s o).2.epoch := by
  obtain ⟨h1, h2⟩ := step_epoch s o hw
  by_cases h : ∃ e, o = .epochEnd e
  · obtain ⟨e, he⟩ := h
    rw [h1 e he]; omega
  · rw [h2 (fun e he => h ⟨e, he⟩)]; omega

theorem epoch_mono_run (s : St) (ops : List Op) (hw : wf s ops) : s.epoch ≤ (run s ops).epoch := by
  induction ops generalizing s with
  | nil => exact Int.le_refl _
  | cons o rest ih =>
    have h1 := epoch_mono_step s o hw.1
    have h2 := ih (step s o).2 hw.2
    rw [run_cons]; omega

/-- in a well-formed history every epoch that was ended lies before the final epoch number -/
theorem ended_lt_final (s : St) (ops : List Op) (hw : wf s ops) :
    ∀ o ∈ ops, ∀ e', o = .epochEnd e' → s.epoch ≤ e' ∧ e' < (run s ops).epoch := by
  induction ops generalizing s with
  | nil => intro o ho; cases ho
  | cons o rest ih =>
    intro x hx e' he'
    have hm := epoch_mono_step s o hw.1
    rw [run_cons]
    rcases List.mem_cons.1 hx with rfl | hx
    · subst he'
      have h1 := (step_epoch s (.epochEnd e') hw.1).1 e' rfl
      have h2 := epoch_mono_run (step s (.epochEnd e')).2 rest hw.2
      have h3 : e' = s.epoch := hw.1.1
      omega
    · have := ih (step s o).2 hw.2 x hx e' he'
      omega

theorem no_end_of (s : St) (ops : List Op) (f : Int) (hw : wf s ops) (hf : (run s ops).epoch ≤ f) :
    ∀ o ∈ ops, ∀ e', o = .epochEnd e' → e' ≠ f := by
  intro o ho e' he'
  have := (ended_lt_final s ops hw o ho e' he').2
  omega

/-! ## hold counts: one increment per registration, one decrement per release -/

/-- 1 while the record has a maturity lookup (it waits in a queue or is pending), else 0 -/
def waiting (s : St) (r : Nat) : Nat := if (s.undelMaturity r).isSome then 1 else 0

theorem holds_same {t s : St} (r : Nat) (e1 : t.holds = s.holds) (e2 : t.undelMaturity = s.undelMaturity) :
    t.holds r + waiting s r = s.holds r + waiting t r := by
  unfold waiting; rw [e1, e2]

theorem holds_hold (s : St) (rec : Nat) (slot : Int) (r : Nat) (hfresh : s.undelMaturity rec = none) :
    ({ s with undelToMature := upd s.undelToMature slot (s.undelToMature slot ++ [rec]),
              undelMaturity := upd s.undelMaturity rec (some slot),
              holds := upd s.holds rec (s.holds rec + 1) } : St).holds r + waiting s r
    = s.holds r + waiting { s with undelToMature := upd s.undelToMature slot (s.undelToMature slot ++ [rec]),
                                   undelMaturity := upd s.undelMaturity rec (some slot),
                                   holds := upd s.holds rec (s.holds rec + 1) } r := by
  show upd s.holds rec (s.holds rec + 1) r + waiting s r
      = s.holds r + (if (upd s.undelMaturity rec (some slot) r).isSome then 1 else 0)
  unfold waiting
  by_cases hr : r = rec
  · subst hr; simp [hfresh]
  · rw [upd_other _ _ _ _ hr, upd_other _ _ _ _ hr]

theorem holds_step (s : St) (o : Op) (h : QInv s) (hw : wfOp s o) (r : Nat) :
    (step s o).2.holds r + waiting s r = s.holds r + waiting (step s o).2 r := by
  cases o with
  | register op => exact holds_same r rfl rfl
  | optIn op key ok => exact holds_same r (optIn_sameQ' s op key ok).2.1 (optIn_sameQ' s op key ok).2.2.1
  | setKey op key => exact holds_same r (setKey_sameQ s op key).holds (setKey_sameQ s op key).umat
  | optOut op => exact holds_same r (optOut_frame s op).2.2.2.1 (optOut_frame s op).2.2.1
  | jail key b => exact holds_same r (setJailed_frame s key b).2.1 (setJailed_frame s key b).2.2.1
  | setUnbonding n => exact holds_same r rfl rfl
  | epochEnd e => exact holds_same r rfl rfl
  | undelegate op rec =>
    have hfresh : s.undelMaturity rec = none := hw
    simp only [step, undelegationStarted]
    repeat' split
    all_goals first
      | exact holds_same r rfl rfl
      | exact holds_hold s rec _ r hfresh
  | endBlock power maxVals =>
    by_cases he : s.epochEnd = true
    · simp only [step]
      rw [endBlock_closing s power maxVals he]
      obtain ⟨c1, c2⟩ := endBlockPre_undel s h.uPendNodup r
      show (endBlockPre s).holds r + waiting s r
        = s.holds r + (if ((endBlockPre s).undelMaturity r).isSome then 1 else 0)
      rw [c1, c2]
      unfold waiting
      by_cases hp : r ∈ s.pendingUndel
      · have hm := h.uPend r hp
        have hh := h.uHeld r _ hm
        simp only [hp, if_true, hm, Option.isSome_some, Option.isSome_none]
        simp; omega
      · simp only [hp, if_false]
    · have he' : s.epochEnd = false := by cases hh : s.epochEnd <;> simp_all
      simp only [step]
      rw [endBlock_other s power maxVals he']
      exact holds_same r rfl rfl

theorem holds_run (s : St) (ops : List Op) (h : QInv s) (hw : wf s ops) (r : Nat) :
    (run s ops).holds r + waiting s r = s.holds r + waiting (run s ops) r := by
  induction ops generalizing s with
  | nil => rfl
  | cons o rest ih =>
    have h1 := holds_step s o h hw.1 r
    have h2 := ih (step s o).2 (qinv_step s o h hw.1) hw.2
    rw [run_cons]; omega

/-! ## a scheduled address keeps its reverse lookup -/

theorem hookReplaced_rev (t : St) (old k : Nat) (hne : k ≠ old) : (hookReplaced t old).rev k = t.rev k := by
  unfold hookReplaced
  split
  · rfl
  · show upd t.rev old none k = t.rev k
    rw [upd_other _ _ _ _ hne]

theorem setKeyCore_rev (s : St) (op key k : Nat) (hi : Inv s) (hk : sched s k) :
    (setKeyCore s op key).2.rev k = s.rev k := by
  have hsome := hi.schedRev k hk
  unfold setKeyCore
  split
  · rfl
  · split
    · rfl
    · rename_i hrev
      have hne : k ≠ key := fun e => by rw [e] at hsome; exact hrev hsome
      cases hf : s.fwd op with
      | none =>
        show upd s.rev key (some op) k = s.rev k
        rw [upd_other _ _ _ _ hne]
      | some pk =>
        simp only []
        split
        · rfl
        · have hnpk : k ≠ pk := fun e => hi.schedFree k hk op (e ▸ hf)
          by_cases hal : (s.prevKey op).isSome = true
          · simp only [hal, if_true]
            show upd s.rev key (some op) k = s.rev k
            rw [upd_other _ _ _ _ hne]
          · simp only [hal, Bool.false_eq_true, if_false]
            rw [hookReplaced_rev _ pk k hnpk]
            show upd s.rev key (some op) k = s.rev k
            rw [upd_other _ _ _ _ hne]

theorem completeRemoval_rev (t : St) (op k : Nat) (hi : Inv t) (hk : sched t k) :
    (completeRemoval t op).rev k = t.rev k := by
  unfold completeRemoval
  split
  · rfl
  · split
    · rfl
    · cases hf : t.fwd op with
      | none => rfl
      | some key =>
        have hne : k ≠ key := fun e => hi.schedFree k hk op (e ▸ hf)
        show upd t.rev key none k = t.rev k
        rw [upd_other _ _ _ _ hne]

theorem sched_completeRemoval (t : St) (op k : Nat) : sched (completeRemoval t op) k ↔ sched t k := by
  unfold sched
  rw [(completeRemoval_fields t op).1, (completeRemoval_fields t op).2.1]

theorem foldl_completeRemoval_rev (l : List Nat) (t : St) (k : Nat) (hi : Inv t) (hk : sched t k) :
    (l.foldl completeRemoval t).rev k = t.rev k := by
  induction l generalizing t with
  | nil => rfl
  | cons a rest ih =>
    simp only [List.foldl_cons]
    rw [ih _ (inv_completeRemoval t a hi) ((sched_completeRemoval t a k).2 hk), completeRemoval_rev t a k hi hk]

theorem foldl_completeRemoval_pA (l : List Nat) (t : St) : (l.foldl completeRemoval t).pendingAddrs = t.pendingAddrs :=
  (foldl_completeRemoval_sameQ l t).pA

/-- the reverse lookups after the first stages of a closing EndBlock: a pending address is pruned,
an address still waiting in a slot keeps its lookup -/
theorem endBlockPre_rev (s : St) (k : Nat) (hi : Inv s) :
    (k ∈ s.pendingAddrs → (endBlockPre s).rev k = none) ∧
    (k ∉ s.pendingAddrs → sched s k → (endBlockPre s).rev k = s.rev k) := by
  obtain ⟨_, e2, _, _, e5, e6, e7, e8⟩ := ebStage2_fields s
  have hpA : (ebStage3 s).pendingAddrs = s.pendingAddrs := by
    show (List.foldl completeRemoval (ebStage2 s) (ebStage2 s).pendingOptOuts).pendingAddrs = _
    rw [foldl_completeRemoval_pA, e6]
  constructor
  · intro hk
    show (if k ∈ (ebStage3 s).pendingAddrs then none else (ebStage3 s).rev k) = none
    rw [hpA, if_pos hk]
  · intro hk hs
    show (if k ∈ (ebStage3 s).pendingAddrs then none else (ebStage3 s).rev k) = s.rev k
    rw [hpA, if_neg hk]
    have hi2 : Inv (ebStage2 s) := hi.congr e2 e8 e5 e7 e6
    have hs2 : sched (ebStage2 s) k := by unfold sched; rw [e6, e7]; exact hs
    show (List.foldl completeRemoval (ebStage2 s) (ebStage2 s).pendingOptOuts).rev k = _
    rw [foldl_completeRemoval_rev _ _ k hi2 hs2, e5]

/-- **frame**: a consensus address that waits to be pruned keeps its reverse lookup — the same
operator — under every operation, except the EndBlock of the block in which it is pending -/
theorem rev_frame (s : St) (o : Op) (k : Nat) (hi : Inv s) (hk : sched s k)
    (hend : ∀ p m, o = .endBlock p m → k ∉ s.pendingAddrs) : (step s o).2.rev k = s.rev k := by
  cases o with
  | register op => rfl
  | optIn op key ok =>
    rcases optIn_cases s op key ok with h1 | ⟨_, h1⟩
    · show (optIn s op key ok).2.rev k = _; rw [h1]
    · show (optIn s op key ok).2.rev k = _; rw [h1]
      exact setKeyCore_rev _ op key k (hi.congr rfl rfl rfl rfl rfl) (by simpa [sched] using hk)
  | setKey op key =>
    simp only [step, setKey]
    split
    · rfl
    · exact setKeyCore_rev s op key k hi hk
  | optOut op =>
    simp only [step, optOut]
    split
    · rfl
    · split
      · rfl
      · cases s.fwd op with
        | none => rfl
        | some key =>
          simp only []
          repeat' split
          all_goals first
            | rfl
            | exact completeRemoval_rev _ op k (hi.congr rfl rfl rfl rfl rfl) (by simpa [sched] using hk)
  | jail key b => exact congrFun (setJailed_frame s key b).2.2.2.1 k
  | undelegate op rec => exact congrFun (undelegationStarted_frame s op rec).2.2.1 k
  | setUnbonding n => rfl
  | epochEnd e => rfl
  | endBlock power maxVals =>
    by_cases he : s.epochEnd = true
    · simp only [step]
      rw [endBlock_closing s power maxVals he]
      exact (endBlockPre_rev s k hi).2 (hend power maxVals rfl) hk
    · have he' : s.epochEnd = false := by cases hh : s.epochEnd <;> simp_all
      simp only [step]
      rw [endBlock_other s power maxVals he']

/-! ## an operator that carries the removal marker keeps marker and key -/

theorem optOut_rejected_of_removing (s : St) (op : Nat) (hq : QInv s) (hr : s.removing op = true) :
    (optOut s op).1 ≠ .ok ∧ (optOut s op).2 = s := by
  have ho := hq.oFwd op hr
  unfold optOut
  simp [ho.1, ho.2.2]

/-- **frame**: while the removal marker is set, no operation changes the operator's key or clears
the marker, except the EndBlock of the block in which the opt-out is pending -/
theorem removing_frame (s : St) (o : Op) (op : Nat) (hq : QInv s) (hr : s.removing op = true)
    (hend : ∀ p m, o = .endBlock p m → op ∉ s.pendingOptOuts) :
    (step s o).2.removing op = true ∧ (step s o).2.fwd op = s.fwd op := by
  cases o with
  | register x => exact ⟨hr, rfl⟩
  | optIn x key ok =>
    rcases optIn_cases s x key ok with h1 | ⟨_, h1⟩
    · show (optIn s x key ok).2.removing op = true ∧ (optIn s x key ok).2.fwd op = _; rw [h1]; exact ⟨hr, rfl⟩
    · show (optIn s x key ok).2.removing op = true ∧ (optIn s x key ok).2.fwd op = _; rw [h1]
      obtain ⟨k1, k2, k3⟩ := setKeyCore_keys { s with hasInfo := upd s.hasInfo x true, optedIn := upd s.optedIn x true, jailed := upd s.jailed x false } x key
      by_cases hx : op = x
      · subst hx; rw [k3 hr]; exact ⟨hr, rfl⟩
      · rw [k1, k2 op hx]; exact ⟨hr, rfl⟩
  | setKey x key =>
    simp only [step, setKey]
    split
    · exact ⟨hr, rfl⟩
    · obtain ⟨k1, k2, k3⟩ := setKeyCore_keys s x key
      by_cases hx : op = x
      · subst hx; rw [k3 hr]; exact ⟨hr, rfl⟩
      · rw [k1, k2 op hx]; exact ⟨hr, rfl⟩
  | optOut x =>
    by_cases hx : op = x
    · subst hx
      simp only [step]
      rw [(optOut_rejected_of_removing s op hq hr).2]; exact ⟨hr, rfl⟩
    · simp only [step, optOut]
      split
      · exact ⟨hr, rfl⟩
      · split
        · exact ⟨hr, rfl⟩
        · cases s.fwd x with
          | none => exact ⟨hr, rfl⟩
          | some key =>
            simp only []
            repeat' split
            all_goals first
              | (refine ⟨?_, rfl⟩
                 show upd s.removing x true op = true
                 rw [upd_other _ _ _ _ hx]; exact hr)
              | (obtain ⟨c1, _, _⟩ := completeRemoval_keys { s with optedIn := upd s.optedIn x false, removing := upd s.removing x true } x
                 rw [(c1 op hx).1, (c1 op hx).2]
                 refine ⟨?_, rfl⟩
                 show upd s.removing x true op = true
                 rw [upd_other _ _ _ _ hx]; exact hr)
  | jail key b =>
    obtain ⟨_, _, _, _, e5, e6, _⟩ := setJailed_frame s key b
    show (setJailed s key b).removing op = true ∧ (setJailed s key b).fwd op = s.fwd op
    rw [e5, e6]; exact ⟨hr, rfl⟩
  | undelegate x rec =>
    obtain ⟨_, _, _, e4, e5, _⟩ := undelegationStarted_frame s x rec
    show (undelegationStarted s x rec).2.removing op = true ∧ (undelegationStarted s x rec).2.fwd op = s.fwd op
    rw [e4, e5]; exact ⟨hr, rfl⟩
  | setUnbonding n => exact ⟨hr, rfl⟩
  | epochEnd e => exact ⟨hr, rfl⟩
  | endBlock power maxVals =>
    by_cases he : s.epochEnd = true
    · simp only [step]
      rw [endBlock_closing s power maxVals he]
      obtain ⟨e1, e2⟩ := (endBlockPre_removing s).2.1 op (hend power maxVals rfl)
      show (endBlockPre s).removing op = true ∧ (endBlockPre s).fwd op = s.fwd op
      rw [e1, e2]; exact ⟨hr, rfl⟩
    · have he' : s.epochEnd = false := by cases hh : s.epochEnd <;> simp_all
      simp only [step]
      rw [endBlock_other s power maxVals he']; exact ⟨hr, rfl⟩

/-! ## completing a pending opt-out -/

theorem completeRemoval_idle (t : St) (y x : Nat) (h : t.removing x = false) :
    (completeRemoval t y).removing x = false ∧ (completeRemoval t y).fwd x = t.fwd x := by
  by_cases hy : x = y
  · subst hy
    have : completeRemoval t x = t := by
      unfold completeRemoval
      split
      · rfl
      · simp [h]
    rw [this]; exact ⟨h, rfl⟩
  · obtain ⟨c1, _, _⟩ := completeRemoval_keys t y
    rw [(c1 x hy).1, (c1 x hy).2]; exact ⟨h, rfl⟩

theorem completeRemoval_rev_none (t : St) (y k : Nat) (h : t.rev k = none) : (completeRemoval t y).rev k = none := by
  unfold completeRemoval
  split
  · exact h
  · split
    · exact h
    · cases t.fwd y with
      | none => exact h
      | some key =>
        show upd t.rev key none k = none
        simp only [upd_apply]; split
        · rfl
        · exact h

theorem foldl_completeRemoval_idle (l : List Nat) (t : St) (x k : Nat) (h : t.removing x = false)
    (hf : t.fwd x = none) (hr : t.rev k = none) :
    (l.foldl completeRemoval t).removing x = false ∧ (l.foldl completeRemoval t).fwd x = none ∧
    (l.foldl completeRemoval t).rev k = none := by
  induction l generalizing t with
  | nil => exact ⟨h, hf, hr⟩
  | cons a rest ih =>
    simp only [List.foldl_cons]
    obtain ⟨i1, i2⟩ := completeRemoval_idle t a x h
    exact ih _ i1 (i2.trans hf) (completeRemoval_rev_none t a k hr)

/-- a properly removing operator of the list has, afterwards, no marker, no key, and its key no
reverse lookup -/
theorem foldl_completeRemoval_done (l : List Nat) (t : St) (x key : Nat) (hx : x ∈ l)
    (hreg : t.registered x = true) (hrm : t.removing x = true) (hf : t.fwd x = some key) :
    (l.foldl completeRemoval t).removing x = false ∧ (l.foldl completeRemoval t).fwd x = none ∧
    (l.foldl completeRemoval t).rev key = none := by
  induction l generalizing t with
  | nil => cases hx
  | cons a rest ih =>
    simp only [List.foldl_cons]
    by_cases hxa : x = a
    · subst hxa
      have h1 : (completeRemoval t x).removing x = false ∧ (completeRemoval t x).fwd x = none ∧
          (completeRemoval t x).rev key = none := by
        unfold completeRemoval
        simp [hreg, hrm, hf]
      exact foldl_completeRemoval_idle rest _ x key h1.1 h1.2.1 h1.2.2
    · have hxr : x ∈ rest := by
        rcases List.mem_cons.1 hx with h | h
        · exact absurd h hxa
        · exact h
      obtain ⟨c1, _, _⟩ := completeRemoval_keys t a
      apply ih _ hxr
      · rw [(completeRemoval_sameQ t a).reg]; exact hreg
      · rw [(c1 x hxa).1]; exact hrm
      · rw [(c1 x hxa).2]; exact hf

/-- the first stages of a closing EndBlock complete every pending opt-out: marker, key and the
key's reverse lookup are gone -/
theorem endBlockPre_completes (s : St) (x key : Nat) (hx : x ∈ s.pendingOptOuts)
    (hreg : s.registered x = true) (hrm : s.removing x = true) (hf : s.fwd x = some key) :
    (endBlockPre s).removing x = false ∧ (endBlockPre s).fwd x = none ∧ (endBlockPre s).rev key = none := by
  obtain ⟨e1, e2, e3, e4, _, _, _, _⟩ := ebStage2_fields s
  obtain ⟨d1, d2, d3⟩ := foldl_completeRemoval_done (ebStage2 s).pendingOptOuts (ebStage2 s) x key
    (by rw [e4]; exact hx) (by rw [e3]; exact hreg) (by rw [e1]; exact hrm) (by rw [e2]; exact hf)
  refine ⟨d1, d2, ?_⟩
  show (if key ∈ (ebStage3 s).pendingAddrs then none else (ebStage3 s).rev key) = none
  split
  · rfl
  · exact d3

end ExoVerif.ConsKeys
