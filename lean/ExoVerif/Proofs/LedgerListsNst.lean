import ExoVerif.Proofs.LedgerLists
import ExoVerif.Proofs.LedgerNst
/-! The C02 invariant (share sums, self-share sums, exact staker lists, TotalAmount ≤ TotalShare.raw, amount 0 ⇒
    shares 0) through a native-restaking balance adjustment. UpdateNSTBalance reaches the share stores only
    through RemoveShare(isUndelegation = false); everything else it does writes staker rows and records.
    Core Lean + what LedgerLists already imports. -/
namespace ExoVerif.Ledger
open ExoVerif ExoVerif.KV

/-- the components of the C02 invariant (`C02Full` of Props/C02Lists.lean) -/
structure ShareWorld (s : L) : Prop where
  lists : Lists s
  sub : ListSub s
  price : PriceInv s
  zero : ZeroPoolInv s

theorem shareWorld_congr {s s' : L} (hw : ShareWorld s) (hp : s'.pools = s.pools) (hd : s'.deleg = s.deleg)
    (hl : s'.slist = s.slist) (ha : s'.assoc = s.assoc) : ShareWorld s' :=
  ⟨lists_congr hw.lists hp hd hl ha, listSub_congr hw.sub hd hl,
   priceInv_congr hw.price (fun o a => by unfold poolShare; rw [hp]; exact ⟨rfl, rfl⟩),
   zeroPool_congr hw.zero (fun o a => by unfold poolShare; rw [hp]; exact ⟨rfl, rfl⟩)⟩

theorem shareWorld_updStaker {s s' : L} {st : SID} {a : AID} {dT dW dP : Int} (hw : ShareWorld s)
    (h : updStaker s st a dT dW dP = .ok s') : ShareWorld s' := by
  rw [updStaker_ok h]; exact shareWorld_congr hw rfl rfl rfl rfl

/-- RemoveShare (for an undelegation or for a balance decrease) keeps the C02 invariant -/
theorem shareWorld_removeShare {s s' : L} {isU : Bool} {o : OID} {st : SID} {a : AID} {share : Dec}
    {removed : Int} (hw : ShareWorld s) (h : removeShare s isU o st a share = .ok (s', removed)) :
    ShareWorld s' := by
  obtain ⟨s2, m, hpos, ⟨p, hp, hle, hrem⟩, hd⟩ := removeShare_move h
  have ea : (getD s.pools (o, a) zeroPool).amount = p.amount := by rw [getD_of_find _ _ _ _ hp]
  have et : poolShare s o a = p.totalShare.raw := by unfold poolShare; rw [getD_of_find _ _ _ _ hp]
  have hnn := hw.lists.sums.amtNonneg _ _ hp
  have z2 : ZeroPoolInv s2 := by
    refine zeroPool_move hw.zero m ?_
    intro h0
    have hz0 := hw.zero o a
    rw [ea] at h0 hz0; rw [et] at hz0 ⊢
    by_cases he : p.totalShare.raw = share.raw
    · omega
    · simp only [he, if_false] at hrem
      by_cases ha0 : p.amount = 0
      · have := hz0 ha0; omega
      · have := tokensFromShares_lt (le_of_lt hpos) (by omega) (by omega) hrem
        omega
  have p2 : PriceInv s2 := by
    refine priceInv_move hw.price m ?_
    have hpa := hw.price o a
    rw [ea, et] at hpa ⊢
    have := removed_price hnn hpa hpos hle hrem
    omega
  have e1 : s'.pools = s2.pools := by
    split at hd
    · rw [deleteStaker_spec hd]
    · rw [hd]
  exact ⟨lists_removeShare hw.lists h, listSub_removeShare hw.lists.slist hw.sub m hd,
    priceInv_congr p2 (fun o a => by unfold poolShare; rw [e1]; exact ⟨rfl, rfl⟩),
    zeroPool_congr z2 (fun o a => by unfold poolShare; rw [e1]; exact ⟨rfl, rfl⟩)⟩

theorem nstSlashRecords_shareWorld (st : SID) (a : AID) (ks : List RecKey) :
    ∀ (s : L) (p : Int) (s' : L) (p' : Int), ShareWorld s → nstSlashRecords st a ks s p = .ok (s', p') →
      ShareWorld s' := by
  induction ks with
  | nil =>
    intro s p s' p' hw h
    unfold nstSlashRecords at h
    injection h with h; injection h with h1 h2; subst h1
    exact hw
  | cons k ks ih =>
    intro s p s' p' hw h
    unfold nstSlashRecords at h
    split at h
    · cases h
    · rename_i r hf
      simp only [] at h
      split at h
      · cases h
      · rename_i s1 h1
        have w1 : ShareWorld s1 := shareWorld_updStaker hw h1
        by_cases hgo : 0 < p - r.actual
        · simp only [hgo, if_true] at h
          refine ih _ _ _ _ ?_ h
          exact shareWorld_congr w1 rfl rfl rfl rfl
        · simp only [hgo, if_false] at h
          injection h with h; injection h with ha hb; subst ha
          exact shareWorld_congr w1 rfl rfl rfl rfl

theorem nstSlashShares_shareWorld (st : SID) (a : AID) (prop : Dec) (es : List ((SID × AID × OID) × DelegRow)) :
    ∀ (s : L) (p : Int) (s' : L) (p' : Int), ShareWorld s → nstSlashShares st a prop es s p = .ok (s', p') →
      ShareWorld s' := by
  induction es with
  | nil =>
    intro s p s' p' hw h
    unfold nstSlashShares at h
    injection h with h; injection h with h1 h2; subst h1
    exact hw
  | cons e es ih =>
    intro s p s' p' hw h
    unfold nstSlashShares at h
    split at h
    · cases h
    · rename_i s1 actual h1
      split at h
      · cases h
      · rename_i s2 h2
        exact ih _ _ _ _ (shareWorld_updStaker (shareWorld_removeShare hw h1) h2) h

theorem nstSlashDelegated_shareWorld {s s' : L} {st : SID} {a : AID} {p : Int} (hw : ShareWorld s)
    (h : nstSlashDelegated s st a p = .ok s') : ShareWorld s' := by
  unfold nstSlashDelegated at h
  simp only [] at h
  split at h
  · cases h
  · split at h
    · injection h with h; subst h; exact hw
    · split at h
      · cases h
      · rename_i s2 p2 h2
        injection h with h; subst h
        exact nstSlashShares_shareWorld st a _ _ _ _ _ _ hw h2

theorem nstDecrease_shareWorld {s s' : L} {st : SID} {a : AID} {x : Int} (hw : ShareWorld s)
    (h : nstDecrease s st a x = .ok s') : ShareWorld s' := by
  unfold nstDecrease at h
  split at h
  · cases h
  · rename_i row hrow
    simp only [] at h
    split at h
    · cases h
    · rename_i s1 h1
      have w1 : ShareWorld s1 := shareWorld_updStaker hw h1
      split at h
      · cases h
      · rename_i s2 p1 h2
        have w2 : ShareWorld s2 := by
          by_cases hgo : 0 < -x - row.withdrawable
          · simp only [hgo, if_true] at h2
            exact nstSlashRecords_shareWorld st a _ _ _ _ _ w1 h2
          · simp only [hgo, if_false] at h2
            injection h2 with h2; injection h2 with ha hb; subst ha
            exact w1
        split at h
        · exact nstSlashDelegated_shareWorld w2 h
        · injection h with h; subst h
          exact w2

/-- UpdateNSTBalance keeps the C02 invariant -/
theorem nstUpdate_shareWorld {s s' : L} {st : SID} {a : AID} {x : Int} (hw : ShareWorld s)
    (h : nstUpdate s st a x = .ok s') : ShareWorld s' := by
  unfold nstUpdate at h
  split at h
  · cases h
  · split at h
    · exact shareWorld_updStaker hw h
    · split at h
      · exact nstDecrease_shareWorld hw h
      · injection h with h; subst h; exact hw

end ExoVerif.Ledger
