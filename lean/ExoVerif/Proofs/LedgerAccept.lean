import ExoVerif.Proofs.LedgerLists
/-! Helper lemmas for the acceptance half of C03: under the C02 invariants none of the guards on the
    undelegation path (ValidateUndelegationAmount, RemoveShareFromOperator, UpdateOperatorAssetState,
    UpdateStakerAssetState, UpdateDelegationState, DeleteStakerForOperator, SetUndelegationRecords)
    can fire for a request within the staker's position. Core Lean + DecArith only. -/
namespace ExoVerif.Ledger
open ExoVerif ExoVerif.KV

/-! ## the primitive guards -/

theorem upd_ok_of (v d : Int) (h : ¬ (d < 0 ∧ v < -d)) : upd v d = .ok (v + d) := by
  unfold upd; simp only [h, if_false]

theorem updDec_ok_of (v d : Dec) (h : ¬ (d.raw < 0 ∧ v.raw < -d.raw)) : updDec v d = .ok ⟨v.raw + d.raw⟩ := by
  unfold updDec; simp only [h, if_false]

theorem updPool_ok_of (s : L) (o : OID) (a : AID) (dA dP : Int) (dS dO : Dec)
    (h1 : ¬ (dA < 0 ∧ (getD s.pools (o, a) zeroPool).amount < -dA))
    (h2 : ¬ (dP < 0 ∧ (getD s.pools (o, a) zeroPool).pending < -dP))
    (h3 : ¬ (dS.raw < 0 ∧ (getD s.pools (o, a) zeroPool).totalShare.raw < -dS.raw))
    (h4 : ¬ (dO.raw < 0 ∧ (getD s.pools (o, a) zeroPool).opShare.raw < -dO.raw)) :
    ∃ pl : Pool, updPool s o a dA dP dS dO = .ok { s with pools := KV.set s.pools (o, a) pl } := by
  unfold updPool
  simp only [bind, Except.bind, pure, Except.pure, upd_ok_of _ _ h1, upd_ok_of _ _ h2, updDec_ok_of _ _ h3,
    updDec_ok_of _ _ h4]
  exact ⟨_, rfl⟩

theorem updStaker_ok_of (s : L) (st : SID) (a : AID) (dT dW dP : Int)
    (h1 : ¬ (dT < 0 ∧ (getD s.stakers (st, a) zeroStaker).total < -dT))
    (h2 : ¬ (dW < 0 ∧ (getD s.stakers (st, a) zeroStaker).withdrawable < -dW))
    (h3 : ¬ (dP < 0 ∧ (getD s.stakers (st, a) zeroStaker).pending < -dP)) :
    ∃ row : StakerRow, updStaker s st a dT dW dP = .ok { s with stakers := KV.set s.stakers (st, a) row } := by
  unfold updStaker
  simp only [bind, Except.bind, pure, Except.pure, upd_ok_of _ _ h1, upd_ok_of _ _ h2, upd_ok_of _ _ h3]
  exact ⟨_, rfl⟩

theorem updDeleg_ok_of (s : L) (st : SID) (a : AID) (o : OID) (dS : Dec) (dW : Int)
    (h1 : ¬ (dW < 0 ∧ (getD s.deleg (st, a, o) zeroDeleg).wait < -dW))
    (h2 : ¬ (dS.raw < 0 ∧ (getD s.deleg (st, a, o) zeroDeleg).share.raw < -dS.raw)) :
    ∃ row : DelegRow, updDeleg s st a o dS dW =
      .ok ({ s with deleg := KV.set s.deleg (st, a, o) row }, row.share.raw == 0) := by
  unfold updDeleg
  simp only [bind, Except.bind, pure, Except.pure, upd_ok_of _ _ h1, updDec_ok_of _ _ h2]
  exact ⟨⟨_, _⟩, rfl⟩

/-! ## what the invariants say about one delegation row -/

theorem opAt_nonneg {s : L} (hi : SumsInv s) (o : OID) (a : AID) : ∀ e ∈ s.deleg, 0 ≤ opAt s.assoc o a e := by
  intro e he
  obtain ⟨k, v⟩ := e
  have := hi.shNonneg k v (find?_of_mem _ _ _ hi.ndDeleg he)
  simp only [opAt]; split
  · exact this
  · exact le_refl 0

/-- a delegator's share is at most the pool's total share -/
theorem share_le_total {s : L} (hi : SumsInv s) {st : SID} {a : AID} {o : OID} {d : DelegRow} {p : Pool}
    (hd : find? s.deleg (st, a, o) = some d) (hp : find? s.pools (o, a) = some p) :
    d.share.raw ≤ p.totalShare.raw := by
  have h1 := atP_le_sumP (shAt o a) s.deleg (st, a, o) (shAt_nonneg hi o a)
  rw [atP_of_find _ _ _ _ hd] at h1
  have h2 := hi.share o a
  unfold poolShare shareSum at h2
  rw [getD_of_find _ _ _ _ hp] at h2
  simp only [shAt, and_self, if_true] at h1
  omega

/-- the share of a delegator associated with the operator is at most the operator's self-share -/
theorem share_le_opShare {s : L} (hi : SumsInv s) {st : SID} {a : AID} {o : OID} {d : DelegRow} {p : Pool}
    (hd : find? s.deleg (st, a, o) = some d) (hp : find? s.pools (o, a) = some p)
    (ha : find? s.assoc st = some o) : d.share.raw ≤ p.opShare.raw := by
  have h1 := atP_le_sumP (opAt s.assoc o a) s.deleg (st, a, o) (opAt_nonneg hi o a)
  rw [atP_of_find _ _ _ _ hd] at h1
  have h2 := hi.opShare o a
  unfold poolOpShare opSum at h2
  rw [getD_of_find _ _ _ _ hp] at h2
  simp only [opAt, ha, and_self, if_true] at h1
  omega

/-! ## the position and ValidateUndelegationAmount -/

/-- a positive position means a live pool: amount, total share and the staker's share are positive,
and the position is `tok` of the share -/
theorem position_pos {d : DelegRow} {p : Pool} {pos x : Int} (hsh : 0 ≤ d.share.raw) (hamt : 0 ≤ p.amount)
    (hpos : tokensFromShares d.share p.totalShare p.amount = .ok pos) (hx : 0 < x) (hle : x ≤ pos) :
    0 < p.amount ∧ 0 < p.totalShare.raw ∧ 0 < d.share.raw ∧ d.share.raw ≤ p.totalShare.raw ∧
    x * p.totalShare.raw ≤ d.share.raw * p.amount := by
  unfold tokensFromShares at hpos
  split at hpos
  · cases hpos
  · rename_i hge
    split at hpos
    · split at hpos
      · injection hpos with hpos; omega
      · cases hpos
    · rename_i hT
      injection hpos with hpos
      have htot : 0 < p.totalShare.raw := by omega
      have e : pos = Dec.tok d.share p.totalShare p.amount := hpos.symm
      have hfl := (Dec.tok_floor d.share p.totalShare p.amount hsh htot hamt).1
      rw [← e] at hfl
      have hxT : x * p.totalShare.raw ≤ d.share.raw * p.amount := by nlinarith
      have hprod : 0 < d.share.raw * p.amount := by nlinarith
      have ha : 0 < p.amount := by
        by_contra hc
        have : p.amount = 0 := by omega
        rw [this] at hprod; simp at hprod
      have hs : 0 < d.share.raw := by
        by_contra hc
        have : d.share.raw = 0 := by omega
        rw [this] at hprod; simp at hprod
      exact ⟨ha, htot, hs, by omega, hxT⟩

theorem validate_ok {s : L} {st : SID} {a : AID} {o : OID} {x : Int} {d : DelegRow} {p : Pool}
    (hd : find? s.deleg (st, a, o) = some d) (hp : find? s.pools (o, a) = some p) (hx : 0 < x)
    (ha : 0 < p.amount) (hprice : p.amount ≤ p.totalShare.raw)
    (hxT : x * p.totalShare.raw ≤ d.share.raw * p.amount) :
    ∃ c : Dec, validateUndelegationAmount s o st a x = .ok c ∧ 0 < c.raw ∧ c.raw ≤ d.share.raw := by
  have hane : ¬ p.amount = 0 := by omega
  have hT : 0 ≤ p.totalShare.raw := by omega
  -- the share worth x tokens
  have hsx : sharesFromTokens p.totalShare x p.amount = .ok (Dec.quoInt (Dec.mulInt p.totalShare x) p.amount) := by
    unfold sharesFromTokens; simp only [hane, if_false]
  have htol : sharesFromTokens p.totalShare 1 p.amount = .ok (Dec.quoInt (Dec.mulInt p.totalShare 1) p.amount) := by
    unfold sharesFromTokens; simp only [hane, if_false]
  have hnum : 0 ≤ p.totalShare.raw * x := Int.mul_nonneg hT (by omega)
  have hle : (Dec.quoInt (Dec.mulInt p.totalShare x) p.amount).raw ≤ d.share.raw := by
    unfold Dec.quoInt Dec.mulInt; simp only []
    apply Dec.tdiv_le_of_le_mul _ _ _ hnum ha
    nlinarith
  have hge : x ≤ (Dec.quoInt (Dec.mulInt p.totalShare x) p.amount).raw := by
    unfold Dec.quoInt Dec.mulInt; simp only []
    apply Dec.le_tdiv_of_mul_le _ _ _ hnum ha
    nlinarith
  have hx' : (!decide (0 < x)) = false := by simp [hx]
  unfold validateUndelegationAmount
  simp only [bind, Except.bind, pure, Except.pure, throw, throwThe, MonadExceptOf.throw, hx', hd, hp, hsx, htol]
  have hnlt : ¬ d.share.raw < (Dec.quoInt (Dec.mulInt p.totalShare x) p.amount).raw := by omega
  simp only [hnlt, if_false, Bool.false_eq_true]
  split
  · exact ⟨d.share, rfl, by omega, le_refl _⟩
  · exact ⟨_, rfl, by omega, hle⟩

/-! ## RemoveShare -/

theorem removeShareFromOperator_accepts {s : L} {st : SID} {a : AID} {o : OID} {c : Dec} {p : Pool}
    (hp : find? s.pools (o, a) = some p) (hc : 0 < c.raw) (hcT : c.raw ≤ p.totalShare.raw)
    (ha : 0 ≤ p.amount)
    (hop : find? s.assoc st = some o → c.raw ≤ p.opShare.raw) :
    ∃ (s1 : L) (removed : Int), removeShareFromOperator s true o st a c = .ok (s1, removed) ∧ 0 ≤ removed ∧
      s1.deleg = s.deleg ∧ s1.slist = s.slist ∧ s1.stakers = s.stakers := by
  have hT : 0 < p.totalShare.raw := by omega
  -- the removed amount
  have hrem : ∃ removed : Int, (if p.totalShare.raw = c.raw then (pure p.amount : Except String Int)
      else tokensFromShares c p.totalShare p.amount) = .ok removed ∧ 0 ≤ removed ∧ removed ≤ p.amount := by
    by_cases he : p.totalShare.raw = c.raw
    · exact ⟨p.amount, by simp only [he, if_true]; rfl, ha, le_refl _⟩
    · refine ⟨Dec.tok c p.totalShare p.amount, ?_, Dec.tok_nonneg _ _ _ (by omega) hT ha, ?_⟩
      · simp only [he, if_false]
        unfold tokensFromShares
        have h1 : ¬ p.totalShare.raw < c.raw := by omega
        have h2 : ¬ p.totalShare.raw = 0 := by omega
        simp only [h1, h2, if_false]; rfl
      · apply Dec.tok_le _ _ _ _ (by omega) hT ha ha
        nlinarith
  obtain ⟨removed, hr, hr0, hrle⟩ := hrem
  have hg : getD s.pools (o, a) zeroPool = p := getD_of_find _ _ _ _ hp
  obtain ⟨pl, hpl⟩ := updPool_ok_of s o a (-removed) removed c.neg
    (if find? s.assoc st = some o then c.neg else Dec.zero)
    (by rw [hg]; omega) (by rw [hg]; omega) (by rw [hg]; simp only [Dec.neg]; omega)
    (by
      rw [hg]
      by_cases hassoc : find? s.assoc st = some o
      · have := hop hassoc
        simp only [hassoc, if_true, Dec.neg]; omega
      · simp only [hassoc, if_false, Dec.zero]; omega)
  have hc' : (!decide (0 < c.raw)) = false := by simp [hc]
  have hnlt : ¬ p.totalShare.raw < c.raw := by omega
  refine ⟨{ s with pools := KV.set s.pools (o, a) pl }, removed, ?_, hr0, ?_, ?_, ?_⟩
  · unfold removeShareFromOperator
    simp only [bind, Except.bind, pure, Except.pure, throw, throwThe, MonadExceptOf.throw, hc', hp, hnlt,
      if_false, Bool.false_eq_true]
    simp only [pure, Except.pure] at hr
    rw [hr]
    simp only [if_true]
    rw [hpl]
  · rfl
  · rfl
  · rfl

theorem pendStaker_accepts (s : L) (st : SID) (a : AID) (removed : Int) (h0 : 0 ≤ removed) :
    ∃ s2 : L, pendStaker s true st a removed = .ok s2 ∧ s2.deleg = s.deleg ∧ s2.slist = s.slist := by
  unfold pendStaker
  split
  · obtain ⟨row, hrow⟩ := updStaker_ok_of s st a 0 0 removed (by omega) (by omega) (by omega)
    exact ⟨_, hrow, rfl, rfl⟩
  · exact ⟨s, rfl, rfl, rfl⟩

theorem removeShare_accepts {s : L} {st : SID} {a : AID} {o : OID} {c : Dec} {d : DelegRow} {p : Pool}
    (hd : find? s.deleg (st, a, o) = some d) (hp : find? s.pools (o, a) = some p)
    (hc : 0 < c.raw) (hcd : c.raw ≤ d.share.raw) (hdT : d.share.raw ≤ p.totalShare.raw)
    (ha : 0 ≤ p.amount)
    (hop : find? s.assoc st = some o → d.share.raw ≤ p.opShare.raw)
    (hlist : d.share.raw ≠ 0 → st ∈ listOf s o a) :
    ∃ (s' : L) (removed : Int), removeShare s true o st a c = .ok (s', removed) := by
  obtain ⟨s1, removed, h1, hr0, f1, f2, _⟩ := removeShareFromOperator_accepts (st := st) hp hc (by omega) ha
    (fun h => by have := hop h; omega)
  obtain ⟨s2, h2, g1, g2⟩ := pendStaker_accepts s1 st a removed hr0
  have hg : getD s2.deleg (st, a, o) zeroDeleg = d := by rw [g1, f1]; exact getD_of_find _ _ _ _ hd
  obtain ⟨row, h3⟩ := updDeleg_ok_of s2 st a o c.neg removed (by rw [hg]; omega)
    (by rw [hg]; simp only [Dec.neg]; omega)
  -- the list key exists
  have hkey : ∃ l, find? s2.slist (o, a) = some l := by
    have hin := hlist (by omega)
    rw [g2, f2]
    unfold listOf getD at hin
    cases hf : find? s.slist (o, a) with
    | none => rw [hf] at hin; cases hin
    | some l => exact ⟨l, rfl⟩
  obtain ⟨l, hl⟩ := hkey
  have hc' : (!decide (0 < c.raw)) = false := by simp [hc]
  unfold removeShare
  simp only [bind, Except.bind, pure, Except.pure, throw, throwThe, MonadExceptOf.throw, hc', if_false,
    Bool.false_eq_true]
  rw [h1]; simp only []
  rw [h2]; simp only [if_true]
  rw [h3]; simp only []
  by_cases hz : (row.share.raw == 0) = true
  · simp only [hz, if_true]
    unfold deleteStaker
    simp only [hl]
    exact ⟨_, _, rfl⟩
  · simp only [hz]
    exact ⟨_, _, rfl⟩

/-- UndelegateFrom is accepted once ValidateUndelegationAmount and RemoveShare are: the record's
completion height is never in the past -/
theorem undelegate_accepts {s : L} {st : SID} {a : AID} {o : OID} {x : Int} (n : Nat) (hash : String)
    {c : Dec} (hop : s.operators.contains o = true) (hx : 0 < x)
    (hv : validateUndelegationAmount s o st a x = .ok c)
    (hr : ∃ (s1 : L) (removed : Int), removeShare s true o st a c = .ok (s1, removed)) :
    ∃ s', undelegate s st a o x n hash = .ok s' := by
  obtain ⟨s1, removed, h1⟩ := hr
  have hx' : (!decide (0 < x)) = false := by simp [hx]
  unfold undelegate
  simp only [bind, Except.bind, throw, throwThe, MonadExceptOf.throw, hx', hop, Bool.not_true, if_false,
    Bool.false_eq_true, hv]
  rw [h1]; simp only []
  unfold setRecord
  have : ¬ (s1.height + s1.unbonding < s1.height) := by omega
  simp only [URec.key, this, if_false]
  exact ⟨_, rfl⟩

/-! ## withdrawal -/

theorem withdraw_accepts {s : L} {st : SID} {a : AID} {x t : Int} {row : StakerRow}
    (hx : 0 ≤ x) (hrow : find? s.stakers (st, a) = some row) (hw : x ≤ row.withdrawable) (htot : x ≤ row.total)
    (ht : find? s.totals a = some t) (hxt : x ≤ t) : ∃ s', withdraw s st a x = .ok s' := by
  have hg : getD s.stakers (st, a) zeroStaker = row := getD_of_find _ _ _ _ hrow
  obtain ⟨r, h1⟩ := updStaker_ok_of s st a (-x) (-x) 0 (by rw [hg]; omega) (by rw [hg]; omega) (by omega)
  have hx' : ¬ x < 0 := by omega
  have hhas : has s.totals a = true := by unfold has; rw [ht]; rfl
  unfold withdraw
  simp only [bind, Except.bind, pure, Except.pure, throw, throwThe, MonadExceptOf.throw, hx', hhas,
    Bool.not_true, if_false, Bool.false_eq_true]
  rw [h1]; simp only []
  unfold updTotal
  simp only [ht, bind, Except.bind, pure, Except.pure, upd_ok_of t (-x) (by omega)]
  exact ⟨_, rfl⟩

end ExoVerif.Ledger
