import ExoVerif.Proofs.LedgerShares
import ExoVerif.Proofs.LedgerSlash
/-! Helper lemmas for the list / operator-share half of C02: the operator's self-share is the sum
    over the delegators associated with it (`OpShareInv`), every delegator with a non-zero share is in
    the operator's staker list (`ListSup`), the list has no duplicates, and all of this — with
    `ShareInv` — survives a slash that wipes a pool. Core Lean only. -/
namespace ExoVerif.KV

variable {κ : Type} {α : Type} [DecidableEq κ]

/-- a sum over a store without duplicate keys is 0 when every bound value contributes 0 -/
theorem sumP_zero_of_find (f : κ × α → Int) (m : List (κ × α)) (hn : NoDup m)
    (h : ∀ k v, find? m k = some v → f (k, v) = 0) : sumP f m = 0 := by
  have : ∀ p ∈ m, f p = (fun _ => (0 : Int)) p := by
    intro p hp
    obtain ⟨k, v⟩ := p
    exact h k v (find?_of_mem m k v hn hp)
  rw [sumP_congr f (fun _ => 0) m this]
  clear this h hn
  induction m with
  | nil => rfl
  | cons p rest ih => simp only [sumP, ih]; omega

/-- a key-preserving map acts on the value found -/
theorem find?_map_val (m : List (κ × α)) (g : κ × α → α) (k : κ) :
    find? (m.map (fun e => (e.1, g e))) k = (find? m k).map (fun v => g (k, v)) := by
  induction m with
  | nil => rfl
  | cons p rest ih =>
    obtain ⟨k', v'⟩ := p
    by_cases h : k' = k
    · subst h; simp [find?]
    · simp only [List.map_cons, find?, h, if_false]; exact ih

omit [DecidableEq κ] in
theorem keys_map_val (m : List (κ × α)) (g : κ × α → α) : keys (m.map (fun e => (e.1, g e))) = keys m := by
  induction m with
  | nil => rfl
  | cons p rest ih => simp only [List.map_cons, keys] at ih ⊢; rw [ih]

theorem find?_some_of_getD_ne (m : List (κ × α)) (k : κ) (d : α) (h : getD m k d ≠ d) :
    ∃ v, find? m k = some v ∧ getD m k d = v := by
  unfold getD at *
  cases hf : find? m k with
  | none => rw [hf] at h; exact absurd rfl h
  | some v => exact ⟨v, rfl, rfl⟩

theorem getD_of_find (m : List (κ × α)) (k : κ) (d v : α) (h : find? m k = some v) : getD m k d = v := by
  unfold getD; rw [h]; rfl

theorem getD_of_none (m : List (κ × α)) (k : κ) (d : α) (h : find? m k = none) : getD m k d = d := by
  unfold getD; rw [h]; rfl

/-- erasing a list of keys from a store without duplicate keys -/
theorem find?_foldl_erase (ks : List κ) (m : List (κ × α)) (hn : NoDup m) (k : κ) :
    find? (ks.foldl (fun l x => erase l x) m) k = (if k ∈ ks then none else find? m k) ∧
    NoDup (ks.foldl (fun l x => erase l x) m) := by
  induction ks generalizing m with
  | nil => simp; exact hn
  | cons x rest ih =>
    simp only [List.foldl_cons]
    obtain ⟨i1, i2⟩ := ih (erase m x) (noDup_erase m x hn)
    refine ⟨?_, i2⟩
    rw [i1]
    by_cases hk : k = x
    · subst hk; simp [find?_erase_same m k hn]
    · rw [find?_erase_other m x k hk]
      by_cases hr : k ∈ rest
      · simp [hr]
      · simp [hr, hk]

end ExoVerif.KV

namespace ExoVerif.Ledger
open ExoVerif ExoVerif.KV

/-! ## the invariants -/

/-- contribution of a delegation row to the operator's self-share: its share if the row is of pool
(o, a) and its staker is currently associated with `o` -/
def opAt (assoc : List (SID × OID)) (o : OID) (a : AID) : (SID × AID × OID) × DelegRow → Int :=
  fun e => if e.1.2.1 = a ∧ e.1.2.2 = o ∧ find? assoc e.1.1 = some o then e.2.share.raw else 0

/-- Σ of the shares of the delegators of pool (o, a) that are associated with `o` -/
def opSum (s : L) (o : OID) (a : AID) : Int := sumP (opAt s.assoc o a) s.deleg

def poolOpShare (s : L) (o : OID) (a : AID) : Int := (getD s.pools (o, a) zeroPool).opShare.raw

/-- OperatorShare = Σ shares of the delegators associated with the operator, for every pool -/
def OpShareInv (s : L) : Prop := ∀ o a, poolOpShare s o a = opSum s o a

def shareOf (s : L) (st : SID) (a : AID) (o : OID) : Int := (getD s.deleg (st, a, o) zeroDeleg).share.raw

def listOf (s : L) (o : OID) (a : AID) : List SID := getD s.slist (o, a) []

/-- every delegator with a non-zero share is in the operator's staker list -/
def ListSup (s : L) : Prop := ∀ o a st, shareOf s st a o ≠ 0 → st ∈ listOf s o a

/-- every listed staker has a non-zero share -/
def ListSub (s : L) : Prop := ∀ o a st, st ∈ listOf s o a → shareOf s st a o ≠ 0

/-- the staker list of a pool is exactly the set of delegators with a non-zero share -/
def ListInv (s : L) : Prop := ∀ o a st, st ∈ listOf s o a ↔ shareOf s st a o ≠ 0

def ListNodup (s : L) : Prop := ∀ o a, (listOf s o a).Nodup

def ShNonneg (s : L) : Prop := ∀ k d, find? s.deleg k = some d → 0 ≤ d.share.raw

def AmtNonneg (s : L) : Prop := ∀ k pl, find? s.pools k = some pl → 0 ≤ pl.amount

/-- shares are zero whenever the pool amount is zero -/
def ZeroPoolInv (s : L) : Prop := ∀ o a, (getD s.pools (o, a) zeroPool).amount = 0 → poolShare s o a = 0

/-- the part of the C02 invariant that talks about pools, delegation rows and associations -/
structure SumsInv (s : L) : Prop where
  share : ShareInv s
  opShare : OpShareInv s
  ndPools : NoDup s.pools
  ndDeleg : NoDup s.deleg
  ndAssoc : NoDup s.assoc
  shNonneg : ShNonneg s
  amtNonneg : AmtNonneg s

/-- the part that talks about the staker lists -/
structure SlistInv (s : L) : Prop where
  sup : ListSup s
  nodup : ListNodup s
  ndSlist : NoDup s.slist

theorem shareOf_nonneg {s : L} (h : ShNonneg s) (st : SID) (a : AID) (o : OID) : 0 ≤ shareOf s st a o := by
  unfold shareOf getD
  cases hf : find? s.deleg (st, a, o) with
  | none => simp [zeroDeleg, Dec.zero]
  | some d => exact h _ _ hf

theorem amount_nonneg {s : L} (h : AmtNonneg s) (o : OID) (a : AID) : 0 ≤ (getD s.pools (o, a) zeroPool).amount := by
  unfold getD
  cases hf : find? s.pools (o, a) with
  | none => simp [zeroPool]
  | some d => exact h _ _ hf

theorem sumsInv_congr {s s' : L} (hi : SumsInv s) (hp : s'.pools = s.pools) (hd : s'.deleg = s.deleg)
    (ha : s'.assoc = s.assoc) : SumsInv s' := by
  refine ⟨shareInv_congr hi.share hp hd, ?_, ?_, ?_, ?_, ?_, ?_⟩
  · intro o a
    have := hi.opShare o a
    unfold poolOpShare opSum at *
    rw [hp, hd, ha]; exact this
  · rw [hp]; exact hi.ndPools
  · rw [hd]; exact hi.ndDeleg
  · rw [ha]; exact hi.ndAssoc
  · intro k d; rw [hd]; exact hi.shNonneg k d
  · intro k d; rw [hp]; exact hi.amtNonneg k d

theorem slistInv_congr {s s' : L} (hi : SlistInv s) (hd : s'.deleg = s.deleg) (hl : s'.slist = s.slist) :
    SlistInv s' := by
  refine ⟨?_, ?_, ?_⟩
  · intro o a st
    have := hi.sup o a st
    unfold shareOf listOf at *
    rw [hd, hl]; exact this
  · intro o a
    have := hi.nodup o a
    unfold listOf at *
    rw [hl]; exact this
  · rw [hl]; exact hi.ndSlist

/-! ## a matched move of shares: delegation row and pool change by the same δ -/

/-- the delegation row (st, a, o) and the pool (o, a) are rewritten: the row's share and the pool's
total share move by `δ`, the pool's self-share by `δ` iff the staker is associated with `o`, the pool
amount by `dA`; staker lists and associations are untouched. -/
structure ShareMove (s s' : L) (st : SID) (a : AID) (o : OID) (δ dA : Int) : Prop where
  deleg : ∃ row : DelegRow, row.share.raw = shareOf s st a o + δ ∧
    (0 ≤ shareOf s st a o → 0 ≤ row.share.raw) ∧ s'.deleg = KV.set s.deleg (st, a, o) row
  pools : ∃ pl : Pool, pl.totalShare.raw = poolShare s o a + δ ∧
    pl.opShare.raw = poolOpShare s o a + (if find? s.assoc st = some o then δ else 0) ∧
    pl.amount = (getD s.pools (o, a) zeroPool).amount + dA ∧
    (0 ≤ (getD s.pools (o, a) zeroPool).amount → 0 ≤ pl.amount) ∧
    s'.pools = KV.set s.pools (o, a) pl
  slist : s'.slist = s.slist
  assoc : s'.assoc = s.assoc

theorem ShareMove.shareOf {s s' : L} {st : SID} {a : AID} {o : OID} {δ dA : Int}
    (h : ShareMove s s' st a o δ dA) (st' : SID) (a' : AID) (o' : OID) :
    Ledger.shareOf s' st' a' o' = Ledger.shareOf s st' a' o' + (if (st', a', o') = (st, a, o) then δ else 0) := by
  obtain ⟨row, h1, _, h3⟩ := h.deleg
  unfold Ledger.shareOf at *
  rw [h3]
  by_cases hk : (st', a', o') = (st, a, o)
  · rw [hk, getD_set_same]; simp [h1]
  · rw [getD_set_other _ _ _ _ _ hk]; simp [hk]

theorem ShareMove.poolShare {s s' : L} {st : SID} {a : AID} {o : OID} {δ dA : Int}
    (h : ShareMove s s' st a o δ dA) (o' : OID) (a' : AID) :
    Ledger.poolShare s' o' a' = Ledger.poolShare s o' a' + (if a = a' ∧ o = o' then δ else 0) ∧
    Ledger.poolOpShare s' o' a' = Ledger.poolOpShare s o' a' +
      (if a = a' ∧ o = o' then (if find? s.assoc st = some o then δ else 0) else 0) ∧
    (getD s'.pools (o', a') zeroPool).amount = (getD s.pools (o', a') zeroPool).amount +
      (if a = a' ∧ o = o' then dA else 0) := by
  obtain ⟨pl, h1, h2, h3, _, h5⟩ := h.pools
  unfold Ledger.poolShare Ledger.poolOpShare at *
  rw [h5]
  by_cases hk : (o', a') = (o, a)
  · injection hk with e1 e2; subst e1; subst e2
    simp only [getD_set_same, and_self, if_true]
    exact ⟨h1, h2, h3⟩
  · rw [getD_set_other _ _ _ _ _ hk]
    have : ¬ (a = a' ∧ o = o') := fun ⟨e1, e2⟩ => hk (by rw [e1, e2])
    simp [this]

theorem ShareMove.shareSum {s s' : L} {st : SID} {a : AID} {o : OID} {δ dA : Int}
    (h : ShareMove s s' st a o δ dA) (o' : OID) (a' : AID) :
    Ledger.shareSum s' o' a' = Ledger.shareSum s o' a' + (if a = a' ∧ o = o' then δ else 0) := by
  obtain ⟨row, h1, _, h3⟩ := h.deleg
  unfold Ledger.shareSum
  rw [h3, sumP_set]
  rw [atP_getD (shAt o' a') s.deleg (st, a, o) zeroDeleg (by simp [shAt, zeroDeleg, Dec.zero])]
  unfold Ledger.shareOf at h1
  simp only [shAt]
  split <;> omega

theorem ShareMove.opSum {s s' : L} {st : SID} {a : AID} {o : OID} {δ dA : Int}
    (h : ShareMove s s' st a o δ dA) (o' : OID) (a' : AID) :
    Ledger.opSum s' o' a' = Ledger.opSum s o' a' +
      (if a = a' ∧ o = o' then (if find? s.assoc st = some o then δ else 0) else 0) := by
  obtain ⟨row, h1, _, h3⟩ := h.deleg
  unfold Ledger.opSum
  rw [h3, h.assoc, sumP_set]
  rw [atP_getD (opAt s.assoc o' a') s.deleg (st, a, o) zeroDeleg (by simp [opAt, zeroDeleg, Dec.zero])]
  unfold Ledger.shareOf at h1
  simp only [opAt]
  by_cases hc : a = a' ∧ o = o'
  · obtain ⟨e1, e2⟩ := hc; subst e1; subst e2
    simp only [and_self, true_and, if_true]
    split <;> omega
  · have : ¬ (a = a' ∧ o = o' ∧ find? s.assoc st = some o') := fun ⟨e1, e2, _⟩ => hc ⟨e1, e2⟩
    simp only [hc, this, if_false]; omega

theorem sumsInv_move {s s' : L} {st : SID} {a : AID} {o : OID} {δ dA : Int} (hi : SumsInv s)
    (h : ShareMove s s' st a o δ dA) : SumsInv s' := by
  refine ⟨?_, ?_, ?_, ?_, ?_, ?_, ?_⟩
  · intro o' a'
    rw [(h.poolShare o' a').1, h.shareSum o' a', hi.share o' a']
  · intro o' a'
    rw [(h.poolShare o' a').2.1, h.opSum o' a', hi.opShare o' a']
  · obtain ⟨pl, _, _, _, _, h5⟩ := h.pools
    rw [h5]; exact noDup_set _ _ _ hi.ndPools
  · obtain ⟨row, _, _, h3⟩ := h.deleg
    rw [h3]; exact noDup_set _ _ _ hi.ndDeleg
  · rw [h.assoc]; exact hi.ndAssoc
  · obtain ⟨row, _, h2, h3⟩ := h.deleg
    intro k d hf
    rw [h3] at hf
    by_cases hk : k = (st, a, o)
    · rw [hk, find?_set_same] at hf
      injection hf with hf; rw [← hf]
      exact h2 (shareOf_nonneg hi.shNonneg st a o)
    · rw [find?_set_other _ _ _ _ hk] at hf
      exact hi.shNonneg k d hf
  · obtain ⟨pl, _, _, _, h4, h5⟩ := h.pools
    intro k d hf
    rw [h5] at hf
    by_cases hk : k = (o, a)
    · rw [hk, find?_set_same] at hf
      injection hf with hf; rw [← hf]
      exact h4 (amount_nonneg hi.amtNonneg o a)
    · rw [find?_set_other _ _ _ _ hk] at hf
      exact hi.amtNonneg k d hf


/-! ## what the primitive writes do (with the non-negativity the guards of `upd`/`updDec` give) -/

theorem updDeleg_row {s s' : L} {st : SID} {a : AID} {o : OID} {dS : Dec} {dW : Int} {z : Bool}
    (h : updDeleg s st a o dS dW = .ok (s', z)) :
    ∃ row : DelegRow, row.share.raw = shareOf s st a o + dS.raw ∧
      (0 ≤ shareOf s st a o → 0 ≤ row.share.raw) ∧ z = (row.share.raw == 0) ∧
      s' = { s with deleg := KV.set s.deleg (st, a, o) row } := by
  unfold updDeleg at h
  simp only [bind, Except.bind] at h
  split at h
  · cases h
  · rename_i w hw
    split at h
    · cases h
    · rename_i sh hsh
      simp only [pure, Except.pure] at h
      injection h with h
      injection h with h1 h2
      exact ⟨⟨sh, w⟩, (updDec_ok hsh).1, (updDec_ok hsh).2, h2.symm, h1.symm⟩

theorem updPool_row {s s' : L} {o : OID} {a : AID} {dA dP : Int} {dS dO : Dec}
    (h : updPool s o a dA dP dS dO = .ok s') :
    ∃ pl : Pool, pl.totalShare.raw = poolShare s o a + dS.raw ∧
      pl.opShare.raw = poolOpShare s o a + dO.raw ∧
      pl.amount = (getD s.pools (o, a) zeroPool).amount + dA ∧
      (0 ≤ (getD s.pools (o, a) zeroPool).amount → 0 ≤ pl.amount) ∧
      s' = { s with pools := KV.set s.pools (o, a) pl } := by
  unfold updPool at h
  simp only [bind, Except.bind] at h
  split at h
  · cases h
  · rename_i am ham
    split at h
    · cases h
    · rename_i pe hpe
      split at h
      · cases h
      · rename_i ts hts
        split at h
        · cases h
        · rename_i os hos
          simp only [pure, Except.pure] at h
          injection h with h
          refine ⟨⟨am, pe, ts, os⟩, (updDec_ok hts).1, (updDec_ok hos).1, (upd_ok ham).1, ?_, h.symm⟩
          intro h0; exact (upd_ok ham).2 h0

theorem calculateShare_congr {s1 s : L} (hp : s1.pools = s.pools) (o : OID) (a : AID) (x : Int) :
    calculateShare s1 o a x = calculateShare s o a x := by
  unfold calculateShare; rw [hp]

/-! ## delegation -/

theorem delegateCore_move {s s' : L} {st : SID} {a : AID} {o : OID} {x : Int}
    (h : delegateCore s st a o x = .ok s') :
    ∃ (share : Dec) (s1 : L), calculateShare s o a x = .ok share ∧
      ShareMove s s1 st a o share.raw x ∧ s' = appendStaker s1 o a st := by
  unfold delegateCore at h
  simp only [bind, Except.bind, pure, Except.pure] at h
  split at h
  · cases h
  · rename_i share hshare
    split at h
    · cases h
    · rename_i s2 h2
      split at h
      · cases h
      · rename_i p3 h3
        obtain ⟨s3, z⟩ := p3
        injection h with h
        refine ⟨share, s3, hshare, ?_, h.symm⟩
        obtain ⟨pl, p1, p2, p3, p4, hs2⟩ := updPool_row h2
        obtain ⟨row, d1, d2, _, hs3⟩ := updDeleg_row h3
        have e2 : shareOf s2 st a o = shareOf s st a o := by rw [hs2]; rfl
        rw [e2] at d1 d2
        refine ⟨⟨row, d1, d2, ?_⟩, ⟨pl, p1, ?_, p3, p4, ?_⟩, ?_, ?_⟩
        · rw [hs3, hs2]
        · rw [p2]; split <;> rfl
        · rw [hs3, hs2]
        · rw [hs3, hs2]
        · rw [hs3, hs2]

theorem delegate_move {s s' : L} {st : SID} {a : AID} {o : OID} {x : Int}
    (h : delegate s st a o x = .ok s') :
    ∃ (share : Dec) (s0 s1 : L), s0.pools = s.pools ∧ s0.deleg = s.deleg ∧ s0.slist = s.slist ∧
      s0.assoc = s.assoc ∧ calculateShare s o a x = .ok share ∧ 0 < x ∧
      ShareMove s0 s1 st a o share.raw x ∧ s' = appendStaker s1 o a st := by
  unfold delegate at h
  simp only [bind, Except.bind, throw, throwThe, MonadExceptOf.throw] at h
  split at h
  · cases h
  · rename_i hx
    have hx' : 0 < x := by simpa using hx
    split at h
    · cases h
    · by_cases hn : a = nativeAID
      · simp only [hn, if_true] at h
        split at h
        · cases h
        · obtain ⟨share, s1, c, m, e⟩ := delegateCore_move h
          rw [← hn] at m e c
          exact ⟨share, { s with bal := KV.set s.bal st (getD s.bal st 0 - x), escrow := s.escrow + x }, s1, rfl, rfl, rfl, rfl, by rw [← c]; exact (calculateShare_congr rfl o a x).symm, hx', m, e⟩
      · simp only [hn, if_false] at h
        split at h
        · cases h
        · split at h
          · cases h
          · split at h
            · cases h
            · rename_i s0 h0
              obtain ⟨share, s1, c, m, e⟩ := delegateCore_move h
              have hs0 := updStaker_ok h0
              refine ⟨share, s0, s1, ?_, ?_, ?_, ?_, ?_, hx', m, e⟩
              · rw [hs0]
              · rw [hs0]
              · rw [hs0]
              · rw [hs0]
              · rw [← c]; exact (calculateShare_congr (by rw [hs0]) o a x).symm

theorem listOf_appendStaker (s : L) (o : OID) (a : AID) (st : SID) (o' : OID) (a' : AID) :
    listOf (appendStaker s o a st) o' a' =
      (if (o', a') = (o, a) ∧ st ∉ listOf s o a then listOf s o a ++ [st] else listOf s o' a') := by
  unfold appendStaker listOf
  simp only []
  split
  · rename_i hc
    have hm : st ∈ getD s.slist (o, a) [] := by simpa using hc
    simp [hm]
  · rename_i hc
    have hm : st ∉ getD s.slist (o, a) [] := by simpa using hc
    simp only [hm, not_false_eq_true, and_true]
    by_cases hk : (o', a') = (o, a)
    · rw [hk, getD_set_same]; simp
    · rw [getD_set_other _ _ _ _ _ hk]; simp [hk]

theorem appendStaker_frame (s : L) (o : OID) (a : AID) (st : SID) :
    (appendStaker s o a st).pools = s.pools ∧ (appendStaker s o a st).deleg = s.deleg ∧
    (appendStaker s o a st).assoc = s.assoc ∧ (NoDup s.slist → NoDup (appendStaker s o a st).slist) := by
  unfold appendStaker
  simp only []
  split
  · exact ⟨rfl, rfl, rfl, id⟩
  · exact ⟨rfl, rfl, rfl, fun h => noDup_set _ _ _ h⟩

/-- SlistInv across "move shares of (st, a, o) by δ ≥ 0 and append st to the list" -/
theorem slistInv_append {s s1 : L} {st : SID} {a : AID} {o : OID} {δ dA : Int} (hi : SlistInv s)
    (m : ShareMove s s1 st a o δ dA) : SlistInv (appendStaker s1 o a st) := by
  obtain ⟨_, fd, _, fn⟩ := appendStaker_frame s1 o a st
  have hl1 : ∀ o' a', listOf s1 o' a' = listOf s o' a' := by intro o' a'; unfold listOf; rw [m.slist]
  refine ⟨?_, ?_, ?_⟩
  · intro o' a' st' hne
    have e : shareOf (appendStaker s1 o a st) st' a' o' = shareOf s1 st' a' o' := by unfold shareOf; rw [fd]
    rw [e, m.shareOf] at hne
    rw [listOf_appendStaker]
    by_cases hk : (st', a', o') = (st, a, o)
    · injection hk with e1 e23; injection e23 with e2 e3; subst e1; subst e2; subst e3
      by_cases hin : st' ∈ listOf s1 o' a'
      · simp [hin]
      · simp [hin]
    · simp only [hk, if_false, Int.add_zero] at hne
      have hin := hi.sup o' a' st' hne
      rw [← hl1] at hin
      split
      · rename_i hc
        obtain ⟨hc1, _⟩ := hc
        injection hc1 with e1 e2; subst e1; subst e2
        simp [hin]
      · exact hin
  · intro o' a'
    rw [listOf_appendStaker]
    split
    · rename_i hc
      have := hi.nodup o a
      rw [← hl1] at this
      exact List.nodup_append.2 ⟨this, by simp, by
        intro x hx y hy
        simp at hy; subst hy
        intro e; subst e; exact hc.2 hx⟩
    · rw [hl1]; exact hi.nodup o' a'
  · apply fn; rw [m.slist]; exact hi.ndSlist

/-! ## undelegation -/

/-- how many tokens RemoveShareFromOperator takes out of the pool -/
def RemovedSpec (s : L) (o : OID) (a : AID) (share : Dec) (removed : Int) : Prop :=
  ∃ p : Pool, find? s.pools (o, a) = some p ∧ share.raw ≤ p.totalShare.raw ∧
    (if p.totalShare.raw = share.raw then removed = p.amount
     else tokensFromShares share p.totalShare p.amount = .ok removed)

theorem removeShareFromOperator_move {s s1 : L} {isU : Bool} {o : OID} {st : SID} {a : AID} {share : Dec}
    {removed : Int} (h : removeShareFromOperator s isU o st a share = .ok (s1, removed)) :
    ∃ pl : Pool, pl.totalShare.raw = poolShare s o a + -share.raw ∧
      pl.opShare.raw = poolOpShare s o a + (if find? s.assoc st = some o then -share.raw else 0) ∧
      pl.amount = (getD s.pools (o, a) zeroPool).amount + -removed ∧
      (0 ≤ (getD s.pools (o, a) zeroPool).amount → 0 ≤ pl.amount) ∧
      s1 = { s with pools := KV.set s.pools (o, a) pl } ∧ RemovedSpec s o a share removed := by
  unfold removeShareFromOperator at h
  simp only [bind, Except.bind, pure, Except.pure, throw, throwThe, MonadExceptOf.throw] at h
  split at h
  · cases h
  · split at h
    · cases h
    · rename_i p hp
      split at h
      · cases h
      · rename_i hle
        split at h
        · cases h
        · rename_i rem hrem
          split at h
          · cases h
          · rename_i sx hx
            injection h with h; injection h with ha hb; subst ha; subst hb
            obtain ⟨pl, p1, p2, p3, p4, hs⟩ := updPool_row hx
            refine ⟨pl, p1, ?_, p3, p4, hs, p, hp, by omega, ?_⟩
            · rw [p2]; split <;> rfl
            · split
              · rename_i he; simp only [he, if_true] at hrem
                injection hrem with hrem; exact hrem.symm
              · rename_i he; simp only [he, if_false] at hrem; exact hrem

theorem removeShare_move {s s' : L} {isU : Bool} {o : OID} {st : SID} {a : AID} {share : Dec}
    {removed : Int} (h : removeShare s isU o st a share = .ok (s', removed)) :
    ∃ s1 : L, ShareMove s s1 st a o (-share.raw) (-removed) ∧ 0 < share.raw ∧
      RemovedSpec s o a share removed ∧
      (if shareOf s1 st a o = 0 then deleteStaker s1 o a st = .ok s' else s' = s1) := by
  unfold removeShare at h
  simp only [bind, Except.bind, pure, Except.pure, throw, throwThe, MonadExceptOf.throw] at h
  split at h
  · cases h
  · rename_i hpos
    have hpos' : 0 < share.raw := by simpa using hpos
    split at h
    · cases h
    · rename_i p1 h1
      obtain ⟨s1, rem⟩ := p1
      simp only [] at h
      obtain ⟨pl, q1, q2, q3, q4, hs1, hrs⟩ := removeShareFromOperator_move h1
      split at h
      · cases h
      · rename_i s2 h2
        have e2 : s2.pools = s1.pools ∧ s2.deleg = s1.deleg ∧ s2.slist = s1.slist ∧ s2.assoc = s1.assoc := by
          unfold pendStaker at h2
          split at h2
          · rw [updStaker_ok h2]; exact ⟨rfl, rfl, rfl, rfl⟩
          · injection h2 with h2; rw [← h2]; exact ⟨rfl, rfl, rfl, rfl⟩
        split at h
        · cases h
        · rename_i p3 h3
          obtain ⟨s3, z⟩ := p3
          simp only [] at h
          obtain ⟨row, d1, d2, d3, hs3⟩ := updDeleg_row h3
          have e : shareOf s2 st a o = shareOf s st a o := by unfold shareOf; rw [e2.2.1, hs1]
          rw [e] at d1 d2
          have hsh3 : shareOf s3 st a o = row.share.raw := by
            unfold shareOf; rw [hs3]; simp only []; rw [getD_set_same]
          split at h
          · cases h
          · rename_i s4 h4
            injection h with h; injection h with ha hb; subst ha; subst hb
            refine ⟨s3, ⟨⟨row, d1, d2, ?_⟩, ⟨pl, q1, q2, q3, q4, ?_⟩, ?_, ?_⟩, hpos', hrs, ?_⟩
            · rw [hs3]; simp only []; rw [e2.2.1, hs1]
            · rw [hs3]; simp only []; rw [e2.1, hs1]
            · rw [hs3]; simp only []; rw [e2.2.2.1, hs1]
            · rw [hs3]; simp only []; rw [e2.2.2.2, hs1]
            · rw [hsh3]
              by_cases hz : row.share.raw = 0
              · simp only [hz, if_true]
                have : z = true := by rw [d3, hz]; rfl
                rw [this] at h4; simpa using h4
              · simp only [hz, if_false]
                have : z = false := by rw [d3]; simpa using hz
                rw [this] at h4
                simp only [Bool.false_eq_true, if_false] at h4
                injection h4 with h4; exact h4.symm

theorem deleteStaker_spec {s s' : L} {o : OID} {a : AID} {st : SID} (h : deleteStaker s o a st = .ok s') :
    s' = { s with slist := KV.set s.slist (o, a) ((listOf s o a).erase st) } := by
  unfold deleteStaker at h
  split at h
  · cases h
  · rename_i l hl
    injection h with h
    rw [← h]
    unfold listOf
    rw [getD_of_find _ _ _ _ hl]

theorem slistInv_removeShare {s s1 s' : L} {st : SID} {a : AID} {o : OID} {δ dA : Int} (hi : SlistInv s)
    (hnn : ShNonneg s) (hδ : δ < 0) (m : ShareMove s s1 st a o δ dA)
    (h : if shareOf s1 st a o = 0 then deleteStaker s1 o a st = .ok s' else s' = s1) :
    SlistInv s' ∧ s'.pools = s1.pools ∧ s'.deleg = s1.deleg ∧ s'.assoc = s1.assoc := by
  have hl1 : ∀ o' a', listOf s1 o' a' = listOf s o' a' := by intro o' a'; unfold listOf; rw [m.slist]
  by_cases hz : shareOf s1 st a o = 0
  · simp only [hz, if_true] at h
    have hs' := deleteStaker_spec h
    have hl' : ∀ o' a', listOf s' o' a' =
        (if (o', a') = (o, a) then (listOf s o a).erase st else listOf s o' a') := by
      intro o' a'
      rw [hs']
      unfold listOf
      simp only []
      by_cases hk : (o', a') = (o, a)
      · rw [hk, getD_set_same]; simp only [if_true]
        have := hl1 o a; unfold listOf at this; rw [this]
      · rw [getD_set_other _ _ _ _ _ hk]; simp only [hk, if_false]
        have := hl1 o' a'; unfold listOf at this; rw [this]
    have hd' : s'.deleg = s1.deleg := by rw [hs']
    refine ⟨⟨?_, ?_, ?_⟩, by rw [hs'], hd', by rw [hs']⟩
    · intro o' a' st' hne
      have e : shareOf s' st' a' o' = shareOf s1 st' a' o' := by unfold shareOf; rw [hd']
      rw [e] at hne
      by_cases hk : (st', a', o') = (st, a, o)
      · injection hk with e1 e23; injection e23 with e2 e3; subst e1; subst e2; subst e3
        exact absurd hz hne
      · rw [m.shareOf] at hne
        simp only [hk, if_false, Int.add_zero] at hne
        have hin := hi.sup o' a' st' hne
        rw [hl']
        split
        · rename_i hc
          injection hc with e1 e2; subst e1; subst e2
          have : st' ≠ st := fun e => hk (by rw [e])
          exact (List.mem_erase_of_ne this).2 hin
        · exact hin
    · intro o' a'
      rw [hl']
      split
      · exact (hi.nodup o a).erase st
      · exact hi.nodup o' a'
    · rw [hs']; simp only []; apply noDup_set; rw [m.slist]; exact hi.ndSlist
  · simp only [hz, if_false] at h
    subst h
    refine ⟨⟨?_, ?_, ?_⟩, rfl, rfl, rfl⟩
    · intro o' a' st' hne
      rw [hl1]
      by_cases hk : (st', a', o') = (st, a, o)
      · injection hk with e1 e23; injection e23 with e2 e3; subst e1; subst e2; subst e3
        apply hi.sup
        have h0 := shareOf_nonneg hnn st' a' o'
        obtain ⟨row, r1, r2, r3⟩ := m.deleg
        have := m.shareOf st' a' o'
        simp only [if_true] at this
        have := r2 h0
        omega
      · rw [m.shareOf] at hne
        simp only [hk, if_false, Int.add_zero] at hne
        exact hi.sup o' a' st' hne
    · intro o' a'; rw [hl1]; exact hi.nodup o' a'
    · rw [m.slist]; exact hi.ndSlist

/-- a move of δ = 0 (the completion of an undelegation record) -/
theorem slistInv_move0 {s s' : L} {st : SID} {a : AID} {o : OID} {dA : Int} (hi : SlistInv s)
    (m : ShareMove s s' st a o 0 dA) : SlistInv s' := by
  refine ⟨?_, ?_, ?_⟩
  · intro o' a' st' hne
    rw [m.shareOf] at hne
    have : listOf s' o' a' = listOf s o' a' := by unfold listOf; rw [m.slist]
    rw [this]
    apply hi.sup
    split at hne <;> simpa using hne
  · intro o' a'
    have : listOf s' o' a' = listOf s o' a' := by unfold listOf; rw [m.slist]
    rw [this]; exact hi.nodup o' a'
  · rw [m.slist]; exact hi.ndSlist

end ExoVerif.Ledger

namespace ExoVerif.KV
variable {κ : Type} {α : Type} [DecidableEq κ]

omit [DecidableEq κ] in
theorem sumP_add (f g : κ × α → Int) (m : List (κ × α)) :
    sumP (fun e => f e + g e) m = sumP f m + sumP g m := by
  induction m with
  | nil => rfl
  | cons p rest ih => simp only [sumP, ih]; omega

omit [DecidableEq κ] in
theorem sumP_filter (g : κ × α → Int) (P : κ × α → Bool) (m : List (κ × α)) :
    sumP g (m.filter P) = sumP (fun e => if P e then g e else 0) m := by
  induction m with
  | nil => rfl
  | cons p rest ih =>
    by_cases hp : P p = true
    · rw [List.filter_cons_of_pos hp]; simp only [sumP, ih, hp, if_true]
    · rw [List.filter_cons_of_neg hp]; simp only [sumP, ih, hp]; simp

end ExoVerif.KV

namespace ExoVerif.Ledger
open ExoVerif ExoVerif.KV

/-- the combined C02 invariant -/
structure Lists (s : L) : Prop where
  sums : SumsInv s
  slist : SlistInv s

theorem lists_congr {s s' : L} (hi : Lists s) (hp : s'.pools = s.pools) (hd : s'.deleg = s.deleg)
    (hl : s'.slist = s.slist) (ha : s'.assoc = s.assoc) : Lists s' :=
  ⟨sumsInv_congr hi.sums hp hd ha, slistInv_congr hi.slist hd hl⟩

theorem lists_delegate {s s' : L} {st : SID} {a : AID} {o : OID} {x : Int} (hi : Lists s)
    (h : delegate s st a o x = .ok s') : Lists s' := by
  obtain ⟨share, s0, s1, f1, f2, f3, f4, _, _, m, e⟩ := delegate_move h
  have i0 : Lists s0 := lists_congr hi f1 f2 f3 f4
  obtain ⟨g1, g2, g3, _⟩ := appendStaker_frame s1 o a st
  rw [e]
  exact ⟨sumsInv_congr (sumsInv_move i0.sums m) g1 g2 g3, slistInv_append i0.slist m⟩

theorem lists_removeShare {s s' : L} {isU : Bool} {o : OID} {st : SID} {a : AID} {share : Dec}
    {removed : Int} (hi : Lists s) (h : removeShare s isU o st a share = .ok (s', removed)) : Lists s' := by
  obtain ⟨s1, m, hpos, _, hd⟩ := removeShare_move h
  obtain ⟨l, f1, f2, f3⟩ := slistInv_removeShare hi.slist hi.sums.shNonneg (by omega) m hd
  exact ⟨sumsInv_congr (sumsInv_move hi.sums m) f1 f2 f3, l⟩

theorem lists_undelegate {s s' : L} {st : SID} {a : AID} {o : OID} {x : Int} {n : Nat} {hash : String}
    (hi : Lists s) (h : undelegate s st a o x n hash = .ok s') : Lists s' := by
  unfold undelegate at h
  simp only [bind, Except.bind, throw, throwThe, MonadExceptOf.throw] at h
  split at h
  · cases h
  · split at h
    · cases h
    · split at h
      · cases h
      · split at h
        · cases h
        · rename_i p1 h1
          obtain ⟨s1, removed⟩ := p1
          simp only [] at h
          have h1' := lists_removeShare hi h1
          unfold setRecord at h
          split at h
          · cases h
          · injection h with h; rw [← h]; exact lists_congr h1' rfl rfl rfl rfl

theorem lists_deposit {s s' : L} {st : SID} {a : AID} {x : Int} (hi : Lists s)
    (h : deposit s st a x = .ok s') : Lists s' := by
  unfold deposit at h
  simp only [bind, Except.bind, pure, Except.pure, throw, throwThe, MonadExceptOf.throw] at h
  split at h
  · cases h
  · split at h
    · cases h
    · split at h
      · cases h
      · rename_i s1 h1
        split at h
        · cases h
        · rename_i s2 h2
          injection h with h; subst h
          obtain ⟨t, _, hs2⟩ := updTotal_ok h2
          have hs1 := updStaker_ok h1
          exact lists_congr hi (by simp only []; rw [hs2, hs1]) (by simp only []; rw [hs2, hs1])
            (by simp only []; rw [hs2, hs1]) (by simp only []; rw [hs2, hs1])

theorem lists_withdraw {s s' : L} {st : SID} {a : AID} {x : Int} (hi : Lists s)
    (h : withdraw s st a x = .ok s') : Lists s' := by
  unfold withdraw at h
  simp only [bind, Except.bind, pure, Except.pure, throw, throwThe, MonadExceptOf.throw] at h
  split at h
  · cases h
  · split at h
    · cases h
    · split at h
      · cases h
      · rename_i s1 h1
        split at h
        · cases h
        · rename_i s2 h2
          injection h with h; subst h
          obtain ⟨t, _, hs2⟩ := updTotal_ok h2
          have hs1 := updStaker_ok h1
          exact lists_congr hi (by simp only []; rw [hs2, hs1]) (by simp only []; rw [hs2, hs1])
            (by simp only []; rw [hs2, hs1]) (by simp only []; rw [hs2, hs1])

/-! ## block end -/

theorem completeRecord_move {s s' : L} {r : URec} (h : completeRecord s r = .ok s') :
    ShareMove s s' r.staker r.asset r.op 0 0 := by
  unfold completeRecord at h
  simp only [bind, Except.bind, pure, Except.pure] at h
  split at h
  · cases h
  · rename_i p1 h1
    obtain ⟨s1, z⟩ := p1
    simp only [] at h
    split at h
    · cases h
    · rename_i s2 h2
      split at h
      · cases h
      · rename_i s3 h3
        injection h with h; subst h
        obtain ⟨row, d1, d2, _, hs1⟩ := updDeleg_row h1
        have e2 : s2.pools = s1.pools ∧ s2.deleg = s1.deleg ∧ s2.slist = s1.slist ∧ s2.assoc = s1.assoc := by
          unfold creditStaker at h2
          split at h2
          · split at h2
            · cases h2
            · injection h2 with h2; rw [← h2]; exact ⟨rfl, rfl, rfl, rfl⟩
          · rw [updStaker_ok h2]; exact ⟨rfl, rfl, rfl, rfl⟩
        obtain ⟨pl, p1, p2, p3, p4, hs3⟩ := updPool_row h3
        have ep : poolShare s2 r.op r.asset = poolShare s r.op r.asset ∧
            poolOpShare s2 r.op r.asset = poolOpShare s r.op r.asset ∧
            (getD s2.pools (r.op, r.asset) zeroPool).amount = (getD s.pools (r.op, r.asset) zeroPool).amount := by
          unfold poolShare poolOpShare; rw [e2.1, hs1]; exact ⟨rfl, rfl, rfl⟩
        rw [ep.1] at p1; rw [ep.2.1] at p2; rw [ep.2.2] at p3 p4
        refine ⟨⟨row, by simpa [Dec.zero] using d1, d2, ?_⟩, ⟨pl, by simpa [Dec.zero] using p1, ?_, by omega, p4, ?_⟩, ?_, ?_⟩
        · unfold deleteRecord; simp only []; rw [hs3]; simp only []; rw [e2.2.1, hs1]
        · rw [p2]; simp [Dec.zero]
        · unfold deleteRecord; simp only []; rw [hs3]; simp only []; rw [e2.1, hs1]
        · unfold deleteRecord; simp only []; rw [hs3]; simp only []; rw [e2.2.2.1, hs1]
        · unfold deleteRecord; simp only []; rw [hs3]; simp only []; rw [e2.2.2.2, hs1]

theorem lists_endBlockRecord {s : L} {r : URec} (hi : Lists s) : Lists (endBlockRecord s r) := by
  unfold endBlockRecord
  split
  · simp only []
    split
    · rename_i s2 hset
      unfold setRecord at hset
      split at hset
      · cases hset
      · injection hset with hset; rw [← hset]; exact lists_congr hi rfl rfl rfl rfl
    · exact hi
  · split
    · rename_i s2 hc
      have m := completeRecord_move hc
      exact ⟨sumsInv_move hi.sums m, slistInv_move0 hi.slist m⟩
    · exact hi

theorem lists_foldl_endBlockRecord (rs : List URec) {s : L} (hi : Lists s) :
    Lists (rs.foldl endBlockRecord s) := by
  induction rs generalizing s with
  | nil => exact hi
  | cons r rest ih => simp only [List.foldl_cons]; exact ih (lists_endBlockRecord hi)

theorem lists_endBlock {s : L} (hi : Lists s) : Lists (nextBlock (endBlock s)) := by
  have : Lists (endBlock s) := by
    unfold endBlock
    split
    · exact hi
    · exact lists_foldl_endBlockRecord _ hi
  exact lists_congr this rfl rfl rfl rfl

end ExoVerif.Ledger

namespace ExoVerif.Ledger
open ExoVerif ExoVerif.KV

/-! ## association / dissociation -/

/-- what a row adds to `OperatorShare` of asset `a` when its staker is (dis)associated -/
def aAt (f : DelegRow → Dec) (a : AID) : (SID × AID × OID) × DelegRow → Int :=
  fun e => if e.1.2.1 = a then (f e.2).raw else 0

theorem foldlM_opShare_spec (es : List ((SID × AID × OID) × DelegRow)) (o : OID) (f : DelegRow → Dec)
    {s s' : L} (h : es.foldlM (fun s e => updPool s o e.1.2.1 0 0 Dec.zero (f e.2)) s = .ok s') :
    s'.deleg = s.deleg ∧ s'.slist = s.slist ∧ s'.assoc = s.assoc ∧ (NoDup s.pools → NoDup s'.pools) ∧
    (AmtNonneg s → AmtNonneg s') ∧
    ∀ o' a', poolOpShare s' o' a' = poolOpShare s o' a' + (if o' = o then sumP (aAt f a') es else 0) ∧
      (getD s'.pools (o', a') zeroPool).amount = (getD s.pools (o', a') zeroPool).amount ∧
      poolShare s' o' a' = poolShare s o' a' := by
  induction es generalizing s with
  | nil =>
    simp only [List.foldlM_nil, pure, Except.pure] at h; injection h with h; subst h
    exact ⟨rfl, rfl, rfl, id, id, fun o' a' => ⟨by simp [sumP], rfl, rfl⟩⟩
  | cons e rest ih =>
    simp only [List.foldlM_cons, bind, Except.bind] at h
    split at h
    · cases h
    · rename_i s1 h1
      obtain ⟨i1, i2, i3, i4, i5, i6⟩ := ih h
      obtain ⟨pl, p1, p2, p3, p4, hs1⟩ := updPool_row h1
      refine ⟨by rw [i1, hs1], by rw [i2, hs1], by rw [i3, hs1], ?_, ?_, ?_⟩
      · intro hn; apply i4; rw [hs1]; exact noDup_set _ _ _ hn
      · intro hn; apply i5
        intro k d hf
        rw [hs1] at hf
        by_cases hk : k = (o, e.1.2.1)
        · rw [hk, find?_set_same] at hf
          injection hf with hf; rw [← hf]
          exact p4 (amount_nonneg hn o e.1.2.1)
        · rw [find?_set_other _ _ _ _ hk] at hf
          exact hn k d hf
      · intro o' a'
        obtain ⟨j1, j2, j3⟩ := i6 o' a'
        rw [j1, j2, j3]
        unfold poolOpShare poolShare at *
        rw [hs1]
        by_cases hk : (o', a') = (o, e.1.2.1)
        · have e1 : o' = o := congrArg Prod.fst hk
          have e2 : a' = e.1.2.1 := congrArg Prod.snd hk
          subst e1; subst e2
          simp only [getD_set_same, if_true, sumP, aAt]
          refine ⟨by rw [p2]; omega, by rw [p3]; omega, by rw [p1]; simp [Dec.zero]⟩
        · rw [getD_set_other _ _ _ _ _ hk]
          refine ⟨?_, rfl, rfl⟩
          by_cases ho : o' = o
          · simp only [ho, if_true, sumP, aAt]
            have : ¬ e.1.2.1 = a' := fun e' => hk (by rw [ho, e'])
            simp [this]
          · simp [ho]

theorem opAt_associate (assoc : List (SID × OID)) (st : SID) (o : OID) (hnone : find? assoc st = none)
    (o' : OID) (a' : AID) (e : (SID × AID × OID) × DelegRow) :
    opAt (KV.set assoc st o) o' a' e = opAt assoc o' a' e +
      (if o' = o then (if decide (e.1.1 = st ∧ e.1.2.2 = o) then aAt (fun r => r.share) a' e else 0) else 0) := by
  unfold opAt aAt
  by_cases h1 : e.1.1 = st
  · rw [h1, find?_set_same, hnone]
    by_cases h2 : o' = o
    · subst h2
      by_cases h3 : e.1.2.2 = o' <;> by_cases h4 : e.1.2.1 = a' <;> simp [h3, h4]
    · have : ¬ some o = some o' := fun e' => h2 (by injection e' with e'; exact e'.symm)
      simp [h2, this]
  · rw [find?_set_other _ _ _ _ h1]
    simp [h1]

theorem opAt_dissociate (assoc : List (SID × OID)) (st : SID) (o : OID) (hn : NoDup assoc)
    (hsome : find? assoc st = some o) (o' : OID) (a' : AID) (e : (SID × AID × OID) × DelegRow) :
    opAt (KV.erase assoc st) o' a' e = opAt assoc o' a' e +
      (if o' = o then (if decide (e.1.1 = st ∧ e.1.2.2 = o) then aAt (fun r => r.share.neg) a' e else 0) else 0) := by
  unfold opAt aAt
  by_cases h1 : e.1.1 = st
  · rw [h1, find?_erase_same _ _ hn, hsome]
    by_cases h2 : o' = o
    · subst h2
      by_cases h3 : e.1.2.2 = o' <;> by_cases h4 : e.1.2.1 = a' <;> simp [h3, h4, Dec.neg]
    · have : ¬ some o = some o' := fun e' => h2 (by injection e' with e'; exact e'.symm)
      simp [h2, this]
  · rw [find?_erase_other _ _ _ h1]
    simp [h1]

/-- the sum side of an (dis)association: the operator-share sums move by the filtered sum -/
theorem opSum_reassoc (deleg : List ((SID × AID × OID) × DelegRow)) (assoc assoc' : List (SID × OID))
    (st : SID) (o : OID) (f : DelegRow → Dec)
    (hpt : ∀ o' a' e, opAt assoc' o' a' e = opAt assoc o' a' e +
      (if o' = o then (if decide (e.1.1 = st ∧ e.1.2.2 = o) then aAt f a' e else 0) else 0))
    (o' : OID) (a' : AID) :
    sumP (opAt assoc' o' a') deleg = sumP (opAt assoc o' a') deleg +
      (if o' = o then sumP (aAt f a') (deleg.filter (fun e => decide (e.1.1 = st ∧ e.1.2.2 = o))) else 0) := by
  by_cases ho : o' = o
  · simp only [ho, if_true]
    rw [sumP_filter, ← sumP_add]
    apply sumP_congr
    intro e _
    have := hpt o a' e
    simp only [if_true] at this
    exact this
  · simp only [ho, if_false, Int.add_zero]
    apply sumP_congr
    intro e _
    have := hpt o' a' e
    simp only [ho, if_false, Int.add_zero] at this
    exact this

theorem lists_associate {s s' : L} {st : SID} {o : OID} (hi : Lists s)
    (h : associate s st o = .ok s') : Lists s' := by
  have hsh := shareInv_associate hi.sums.share h
  unfold associate at h
  simp only [bind, Except.bind, pure, Except.pure, throw, throwThe, MonadExceptOf.throw] at h
  split at h
  · cases h
  · split at h
    · cases h
    · split at h
      · cases h
      · rename_i hnone
        have hnone' : find? s.assoc st = none := by
          cases hf : find? s.assoc st with
          | none => rfl
          | some v => rw [hf] at hnone; simp at hnone
        split at h
        · cases h
        · rename_i s1 h1
          injection h with h
          obtain ⟨f1, f2, f3, f4, f5, f6⟩ := foldlM_opShare_spec _ o (fun r => r.share) h1
          have hd : s'.deleg = s.deleg := by rw [← h]; exact f1
          have hl : s'.slist = s.slist := by rw [← h]; exact f2
          have hp : s'.pools = s1.pools := by rw [← h]
          have ha : s'.assoc = KV.set s.assoc st o := by rw [← h]; simp only []; rw [f3]
          refine ⟨⟨hsh, ?_, ?_, ?_, ?_, ?_, ?_⟩, slistInv_congr hi.slist hd hl⟩
          · intro o' a'
            have e1 : poolOpShare s' o' a' = poolOpShare s1 o' a' := by unfold poolOpShare; rw [hp]
            rw [e1, (f6 o' a').1, hi.sums.opShare o' a']
            unfold opSum
            rw [hd, ha]
            exact (opSum_reassoc s.deleg s.assoc _ st o (fun r => r.share)
              (opAt_associate s.assoc st o hnone') o' a').symm
          · rw [hp]; exact f4 hi.sums.ndPools
          · rw [hd]; exact hi.sums.ndDeleg
          · rw [ha]; exact noDup_set _ _ _ hi.sums.ndAssoc
          · intro k d; rw [hd]; exact hi.sums.shNonneg k d
          · intro k d; rw [hp]; exact f5 hi.sums.amtNonneg k d

theorem lists_dissociate {s s' : L} {st : SID} (hi : Lists s)
    (h : dissociate s st = .ok s') : Lists s' := by
  have hsh := shareInv_dissociate hi.sums.share h
  unfold dissociate at h
  simp only [bind, Except.bind, pure, Except.pure, throw, throwThe, MonadExceptOf.throw] at h
  split at h
  · cases h
  · rename_i o ho
    split at h
    · cases h
    · rename_i s1 h1
      injection h with h
      obtain ⟨f1, f2, f3, f4, f5, f6⟩ := foldlM_opShare_spec _ o (fun r => r.share.neg) h1
      have hd : s'.deleg = s.deleg := by rw [← h]; exact f1
      have hl : s'.slist = s.slist := by rw [← h]; exact f2
      have hp : s'.pools = s1.pools := by rw [← h]
      have ha : s'.assoc = KV.erase s.assoc st := by rw [← h]; simp only []; rw [f3]
      refine ⟨⟨hsh, ?_, ?_, ?_, ?_, ?_, ?_⟩, slistInv_congr hi.slist hd hl⟩
      · intro o' a'
        have e1 : poolOpShare s' o' a' = poolOpShare s1 o' a' := by unfold poolOpShare; rw [hp]
        rw [e1, (f6 o' a').1, hi.sums.opShare o' a']
        unfold opSum
        rw [hd, ha]
        exact (opSum_reassoc s.deleg s.assoc _ st o (fun r => r.share.neg)
          (opAt_dissociate s.assoc st o hi.sums.ndAssoc ho) o' a').symm
      · rw [hp]; exact f4 hi.sums.ndPools
      · rw [hd]; exact hi.sums.ndDeleg
      · rw [ha]; exact noDup_erase _ _ hi.sums.ndAssoc
      · intro k d; rw [hd]; exact hi.sums.shNonneg k d
      · intro k d; rw [hp]; exact f5 hi.sums.amtNonneg k d

end ExoVerif.Ledger

namespace ExoVerif.Ledger
open ExoVerif ExoVerif.KV

/-! ## slash: wiping the shares of the pools slashed to zero -/

def zrow (row : DelegRow) : DelegRow := { row with share := Dec.zero }

theorem zrow_zrow (row : DelegRow) : zrow (zrow row) = zrow row := rfl

/-- SetStakerShareToZero for one staker -/
def zeroOne (d : List ((SID × AID × OID) × DelegRow)) (o : OID) (a : AID) (st : SID) :
    List ((SID × AID × OID) × DelegRow) :=
  match find? d (st, a, o) with
  | some row => KV.set d (st, a, o) { row with share := Dec.zero }
  | none => d

theorem zeroShares_nil (d : List ((SID × AID × OID) × DelegRow)) (o : OID) (a : AID) :
    zeroShares d o a [] = d := rfl

theorem zeroShares_cons (d : List ((SID × AID × OID) × DelegRow)) (o : OID) (a : AID) (st : SID)
    (rest : List SID) : zeroShares d o a (st :: rest) = zeroShares (zeroOne d o a st) o a rest := rfl

theorem zeroOne_find (d : List ((SID × AID × OID) × DelegRow)) (o : OID) (a : AID) (st : SID)
    (k : SID × AID × OID) :
    find? (zeroOne d o a st) k = if k = (st, a, o) then (find? d k).map zrow else find? d k := by
  unfold zeroOne
  cases hf : find? d (st, a, o) with
  | none =>
    simp only []
    by_cases hk : k = (st, a, o)
    · rw [hk, hf]; simp
    · simp [hk]
  | some row =>
    simp only []
    by_cases hk : k = (st, a, o)
    · rw [hk, find?_set_same, hf]; simp [zrow]
    · rw [find?_set_other _ _ _ _ hk]; simp [hk]

theorem zeroOne_noDup (d : List ((SID × AID × OID) × DelegRow)) (o : OID) (a : AID) (st : SID)
    (hn : NoDup d) : NoDup (zeroOne d o a st) := by
  unfold zeroOne
  split
  · exact noDup_set _ _ _ hn
  · exact hn

theorem zeroOne_sum_other (f : (SID × AID × OID) × DelegRow → Int) (o2 : OID) (a2 : AID)
    (hsupp : ∀ k v, ¬ (k.2.1 = a2 ∧ k.2.2 = o2) → f (k, v) = 0)
    (d : List ((SID × AID × OID) × DelegRow)) (o : OID) (a : AID) (st : SID) (hne : ¬ (a = a2 ∧ o = o2)) :
    sumP f (zeroOne d o a st) = sumP f d := by
  unfold zeroOne
  cases hf : find? d (st, a, o) with
  | none => rfl
  | some row =>
    simp only []
    rw [sumP_set, atP_of_find f d _ row hf, hsupp (st, a, o) row hne, hsupp (st, a, o) _ hne]
    omega

theorem zeroShares_find (l : List SID) (d : List ((SID × AID × OID) × DelegRow)) (o : OID) (a : AID)
    (k : SID × AID × OID) :
    find? (zeroShares d o a l) k =
      if k.2.1 = a ∧ k.2.2 = o ∧ k.1 ∈ l then (find? d k).map zrow else find? d k := by
  induction l generalizing d with
  | nil => simp [zeroShares_nil]
  | cons st rest ih =>
    rw [zeroShares_cons, ih, zeroOne_find]
    obtain ⟨st', a', o'⟩ := k
    simp only []
    by_cases hk : (st', a', o') = (st, a, o)
    · injection hk with e1 e23; injection e23 with e2 e3; subst e1; subst e2; subst e3
      simp only [if_true, and_self, true_and, List.mem_cons, true_or]
      split
      · cases find? d (st', a', o') <;> simp [zrow_zrow]
      · rfl
    · simp only [hk, if_false]
      by_cases hc : a' = a ∧ o' = o ∧ st' ∈ rest
      · have : a' = a ∧ o' = o ∧ st' ∈ st :: rest := ⟨hc.1, hc.2.1, List.mem_cons_of_mem _ hc.2.2⟩
        simp only [hc, this, and_self, if_true]
      · have : ¬ (a' = a ∧ o' = o ∧ st' ∈ st :: rest) := by
          rintro ⟨e1, e2, e3⟩
          rcases List.mem_cons.1 e3 with e4 | e4
          · exact hk (by rw [e1, e2, e4])
          · exact hc ⟨e1, e2, e4⟩
        simp only [hc, this, if_false]

theorem zeroShares_noDup (l : List SID) (d : List ((SID × AID × OID) × DelegRow)) (o : OID) (a : AID)
    (hn : NoDup d) : NoDup (zeroShares d o a l) := by
  induction l generalizing d with
  | nil => exact hn
  | cons st rest ih => rw [zeroShares_cons]; exact ih _ (zeroOne_noDup d o a st hn)

theorem zeroShares_sum_other (f : (SID × AID × OID) × DelegRow → Int) (o2 : OID) (a2 : AID)
    (hsupp : ∀ k v, ¬ (k.2.1 = a2 ∧ k.2.2 = o2) → f (k, v) = 0)
    (l : List SID) (d : List ((SID × AID × OID) × DelegRow)) (o : OID) (a : AID) (hne : ¬ (a = a2 ∧ o = o2)) :
    sumP f (zeroShares d o a l) = sumP f d := by
  induction l generalizing d with
  | nil => rfl
  | cons st rest ih => rw [zeroShares_cons, ih, zeroOne_sum_other f o2 a2 hsupp d o a st hne]

/-- wiping the listed stakers' shares for a list of assets of operator `o` -/
def zeroAll (d : List ((SID × AID × OID) × DelegRow)) (o : OID) (as : List AID) (lst : AID → List SID) :
    List ((SID × AID × OID) × DelegRow) :=
  as.foldl (fun d a => zeroShares d o a (lst a)) d

theorem zeroAll_find (as : List AID) (d : List ((SID × AID × OID) × DelegRow)) (o : OID)
    (lst : AID → List SID) (k : SID × AID × OID) :
    find? (zeroAll d o as lst) k =
      if k.2.2 = o ∧ k.2.1 ∈ as ∧ k.1 ∈ lst k.2.1 then (find? d k).map zrow else find? d k := by
  induction as generalizing d with
  | nil => simp [zeroAll]
  | cons a rest ih =>
    unfold zeroAll at ih ⊢
    simp only [List.foldl_cons]
    rw [ih, zeroShares_find]
    obtain ⟨st', a', o'⟩ := k
    simp only []
    by_cases h1 : a' = a ∧ o' = o ∧ st' ∈ lst a
    · obtain ⟨e1, e2, e3⟩ := h1
      subst e1; subst e2
      have : o' = o' ∧ a' ∈ a' :: rest ∧ st' ∈ lst a' := ⟨rfl, by simp, e3⟩
      simp only [e3, and_self, if_true, this]
      split
      · cases find? d (st', a', o') <;> simp [zrow_zrow]
      · rfl
    · simp only [h1, if_false]
      by_cases h2 : o' = o ∧ a' ∈ rest ∧ st' ∈ lst a'
      · have : o' = o ∧ a' ∈ a :: rest ∧ st' ∈ lst a' := ⟨h2.1, List.mem_cons_of_mem _ h2.2.1, h2.2.2⟩
        simp only [h2, this, and_self, if_true]
      · have : ¬ (o' = o ∧ a' ∈ a :: rest ∧ st' ∈ lst a') := by
          rintro ⟨e1, e2, e3⟩
          rcases List.mem_cons.1 e2 with e4 | e4
          · exact h1 ⟨e4, e1, by rw [← e4]; exact e3⟩
          · exact h2 ⟨e1, e4, e3⟩
        simp only [h2, this, if_false]

theorem zeroAll_noDup (as : List AID) (d : List ((SID × AID × OID) × DelegRow)) (o : OID)
    (lst : AID → List SID) (hn : NoDup d) : NoDup (zeroAll d o as lst) := by
  induction as generalizing d with
  | nil => exact hn
  | cons a rest ih =>
    unfold zeroAll at ih ⊢
    simp only [List.foldl_cons]
    exact ih _ (zeroShares_noDup _ d o a hn)

theorem zeroAll_sum_other (f : (SID × AID × OID) × DelegRow → Int) (o2 : OID) (a2 : AID)
    (hsupp : ∀ k v, ¬ (k.2.1 = a2 ∧ k.2.2 = o2) → f (k, v) = 0)
    (as : List AID) (d : List ((SID × AID × OID) × DelegRow)) (o : OID) (lst : AID → List SID)
    (hne : ¬ (o2 = o ∧ a2 ∈ as)) : sumP f (zeroAll d o as lst) = sumP f d := by
  induction as generalizing d with
  | nil => rfl
  | cons a rest ih =>
    unfold zeroAll at ih ⊢
    simp only [List.foldl_cons]
    rw [ih _ (fun ⟨e1, e2⟩ => hne ⟨e1, List.mem_cons_of_mem _ e2⟩)]
    exact zeroShares_sum_other f o2 a2 hsupp _ d o a (fun ⟨e1, e2⟩ => hne ⟨e2.symm, by rw [e1]; simp⟩)

/-- the assets of operator `o` whose pool SlashAssets wipes -/
def clearedAssets (s : L) (o : OID) (p : Dec) : List AID :=
  (((s.pools.filter (fun e => e.1.1 = o)).filter (fun e => clearsPool s o e.1.2 e.2 p)).map (fun e => e.1.2))

theorem mem_clearedAssets (s : L) (o : OID) (p : Dec) (hn : NoDup s.pools) (a : AID) :
    a ∈ clearedAssets s o p ↔ ∃ pl, find? s.pools (o, a) = some pl ∧ clearsPool s o a pl p = true := by
  unfold clearedAssets
  simp only [List.mem_map, List.mem_filter]
  constructor
  · rintro ⟨e, ⟨⟨h1, h2⟩, h3⟩, h4⟩
    obtain ⟨⟨o', a'⟩, pl⟩ := e
    simp only [decide_eq_true_eq] at h2 h4
    subst h2; subst h4
    exact ⟨pl, find?_of_mem _ _ _ hn h1, h3⟩
  · rintro ⟨pl, h1, h2⟩
    exact ⟨((o, a), pl), ⟨⟨find?_mem _ _ _ h1, by simp⟩, h2⟩, rfl⟩

theorem slashAssets_comps (s : L) (o : OID) (inf : Nat) (p : Dec) :
    (slashAssets s o inf p).pools =
      s.pools.map (fun e => (e.1, if e.1.1 = o then (cutPool e.2 p (has s.slist e.1)).1 else e.2)) ∧
    (slashAssets s o inf p).deleg =
      zeroAll s.deleg o (clearedAssets s o p) (fun a => getD s.slist (o, a) []) ∧
    (slashAssets s o inf p).slist =
      ((clearedAssets s o p).map (fun a => (o, a))).foldl (fun l x => erase l x) s.slist ∧
    (slashAssets s o inf p).assoc = s.assoc := by
  have hf : (fun e : (OID × AID) × Pool => if e.1.1 = o then (e.1, (cutPool e.2 p (has s.slist e.1)).1) else e)
      = (fun e => (e.1, if e.1.1 = o then (cutPool e.2 p (has s.slist e.1)).1 else e.2)) := by
    funext e; split <;> rfl
  unfold slashAssets
  simp only []
  refine ⟨by rw [hf], ?_, ?_, trivial⟩
  · unfold zeroAll clearedAssets; rw [List.foldl_map]
  · unfold clearedAssets; rw [List.foldl_map, List.foldl_map]

theorem cutPool_clears (s : L) (o : OID) (a : AID) (pl : Pool) (p : Dec) :
    (cutPool pl p (has s.slist (o, a))).1 =
      (if clearsPool s o a pl p = true
       then { pl with amount := pl.amount - (Dec.mulInt p pl.amount).truncateInt, totalShare := Dec.zero, opShare := Dec.zero }
       else { pl with amount := pl.amount - (Dec.mulInt p pl.amount).truncateInt }) := by
  unfold cutPool clearsPool
  simp only []
  by_cases h1 : pl.amount - (Dec.mulInt p pl.amount).truncateInt = 0 <;>
    by_cases h2 : has s.slist (o, a) = true <;> simp [h1, h2]

/-- the pool rows after a slash -/
theorem slash_pool (s : L) (o : OID) (inf : Nat) (p : Dec) (hn : NoDup s.pools) (o' : OID) (a' : AID) :
    getD (slashAssets s o inf p).pools (o', a') zeroPool =
      (if o' = o then
        (match find? s.pools (o, a') with
         | none => zeroPool
         | some pl =>
           if a' ∈ clearedAssets s o p
           then { pl with amount := pl.amount - (Dec.mulInt p pl.amount).truncateInt, totalShare := Dec.zero, opShare := Dec.zero }
           else { pl with amount := pl.amount - (Dec.mulInt p pl.amount).truncateInt })
       else getD s.pools (o', a') zeroPool) := by
  rw [(slashAssets_comps s o inf p).1]
  unfold getD
  rw [find?_map_val s.pools (fun e => if e.1.1 = o then (cutPool e.2 p (has s.slist e.1)).1 else e.2)]
  by_cases ho : o' = o
  · subst ho
    simp only [if_true]
    cases hf : find? s.pools (o', a') with
    | none => rfl
    | some pl =>
      simp only [Option.map_some, Option.getD_some]
      rw [cutPool_clears]
      have hiff := mem_clearedAssets s o' p hn a'
      by_cases hc : clearsPool s o' a' pl p = true
      · have : a' ∈ clearedAssets s o' p := hiff.2 ⟨pl, hf, hc⟩
        simp only [hc, this, if_true]
      · have : a' ∉ clearedAssets s o' p := by
          intro hm
          obtain ⟨pl', h1, h2⟩ := hiff.1 hm
          rw [hf] at h1; injection h1 with h1; subst h1; exact hc h2
        simp [hc, this]
  · simp only [ho, if_false]
    cases hf : find? s.pools (o', a') with
    | none => rfl
    | some pl => simp

theorem slash_poolShare (s : L) (o : OID) (inf : Nat) (p : Dec) (hn : NoDup s.pools) (o' : OID) (a' : AID) :
    poolShare (slashAssets s o inf p) o' a' =
      (if o' = o ∧ a' ∈ clearedAssets s o p then 0 else poolShare s o' a') ∧
    poolOpShare (slashAssets s o inf p) o' a' =
      (if o' = o ∧ a' ∈ clearedAssets s o p then 0 else poolOpShare s o' a') := by
  unfold poolShare poolOpShare
  rw [slash_pool s o inf p hn o' a']
  by_cases ho : o' = o
  · subst ho
    simp only [if_true, true_and]
    have hiff := mem_clearedAssets s o' p hn a'
    cases hf : find? s.pools (o', a') with
    | none =>
      have : a' ∉ clearedAssets s o' p := by
        intro hm
        obtain ⟨pl', h1, _⟩ := hiff.1 hm
        rw [hf] at h1; cases h1
      simp only [this, if_false]
      unfold getD; rw [hf]; exact ⟨rfl, rfl⟩
    | some pl =>
      simp only []
      unfold getD; rw [hf]
      split <;> exact ⟨rfl, rfl⟩
  · simp [ho]

/-- the delegation rows after a slash -/
theorem slash_deleg_find (s : L) (o : OID) (inf : Nat) (p : Dec) (k : SID × AID × OID) :
    find? (slashAssets s o inf p).deleg k =
      if k.2.2 = o ∧ k.2.1 ∈ clearedAssets s o p ∧ k.1 ∈ listOf s o k.2.1
      then (find? s.deleg k).map zrow else find? s.deleg k := by
  rw [(slashAssets_comps s o inf p).2.1, zeroAll_find]
  rfl

theorem slash_shareOf (s : L) (o : OID) (inf : Nat) (p : Dec) (st : SID) (a' : AID) (o' : OID) :
    shareOf (slashAssets s o inf p) st a' o' =
      if o' = o ∧ a' ∈ clearedAssets s o p ∧ st ∈ listOf s o a' then 0 else shareOf s st a' o' := by
  unfold shareOf getD
  rw [slash_deleg_find]
  simp only []
  split
  · cases find? s.deleg (st, a', o') <;> rfl
  · rfl

theorem slash_listOf (s : L) (o : OID) (inf : Nat) (p : Dec) (hn : NoDup s.slist) (o' : OID) (a' : AID) :
    listOf (slashAssets s o inf p) o' a' =
      (if o' = o ∧ a' ∈ clearedAssets s o p then [] else listOf s o' a') ∧
    NoDup (slashAssets s o inf p).slist := by
  unfold listOf getD
  rw [(slashAssets_comps s o inf p).2.2.1]
  obtain ⟨h1, h2⟩ := find?_foldl_erase ((clearedAssets s o p).map (fun a => (o, a))) s.slist hn (o', a')
  refine ⟨?_, h2⟩
  rw [h1]
  have : (o', a') ∈ (clearedAssets s o p).map (fun a => (o, a)) ↔ o' = o ∧ a' ∈ clearedAssets s o p := by
    simp only [List.mem_map]
    constructor
    · rintro ⟨x, hx, e⟩
      injection e with e1 e2
      exact ⟨e1.symm, by rw [← e2]; exact hx⟩
    · rintro ⟨e1, e2⟩
      exact ⟨a', e2, by rw [e1]⟩
  by_cases hc : o' = o ∧ a' ∈ clearedAssets s o p
  · obtain ⟨e1, e2⟩ := hc
    subst e1
    have hm := this.2 ⟨rfl, e2⟩
    simp only [hm, e2, and_self, if_true]; rfl
  · have hc' : ¬ (o', a') ∈ (clearedAssets s o p).map (fun a => (o, a)) := fun h => hc (this.1 h)
    simp only [hc', hc, if_false]

/-- a share-weighted sum over the rows of pool (o', a') after a slash: 0 if the pool is wiped,
unchanged otherwise -/
theorem slash_sum (s : L) (o : OID) (inf : Nat) (p : Dec) (hnd : NoDup s.deleg) (hsup : ListSup s)
    (f : (SID × AID × OID) × DelegRow → Int) (o' : OID) (a' : AID)
    (hsupp : ∀ k v, ¬ (k.2.1 = a' ∧ k.2.2 = o') → f (k, v) = 0)
    (hzero : ∀ k v, v.share.raw = 0 → f (k, v) = 0) :
    sumP f (slashAssets s o inf p).deleg =
      (if o' = o ∧ a' ∈ clearedAssets s o p then 0 else sumP f s.deleg) := by
  by_cases hc : o' = o ∧ a' ∈ clearedAssets s o p
  · simp only [hc, and_self, if_true]
    apply sumP_zero_of_find
    · rw [(slashAssets_comps s o inf p).2.1]; exact zeroAll_noDup _ _ _ _ hnd
    · intro k v hf
      by_cases hk : k.2.1 = a' ∧ k.2.2 = o'
      · obtain ⟨st, a1, o1⟩ := k
        simp only [] at hk
        obtain ⟨e1, e2⟩ := hk; subst e1; subst e2
        apply hzero
        have h1 := slash_shareOf s o inf p st a1 o1
        have h2 : shareOf (slashAssets s o inf p) st a1 o1 = v.share.raw := by
          unfold shareOf; rw [getD_of_find _ _ _ _ hf]
        rw [← h2, h1]
        split
        · rfl
        · rename_i hnot
          by_cases h0 : shareOf s st a1 o1 = 0
          · exact h0
          · have := hsup o1 a1 st h0
            exact absurd ⟨hc.1, hc.2, by rw [← hc.1]; exact this⟩ hnot
      · exact hsupp k v hk
  · simp only [hc, if_false]
    rw [(slashAssets_comps s o inf p).2.1]
    exact zeroAll_sum_other f o' a' hsupp _ _ _ _ hc

theorem shAt_supp (o' : OID) (a' : AID) :
    (∀ k v, ¬ (k.2.1 = a' ∧ k.2.2 = o') → shAt o' a' (k, v) = 0) ∧
    (∀ (k : SID × AID × OID) (v : DelegRow), v.share.raw = 0 → shAt o' a' (k, v) = 0) := by
  refine ⟨?_, ?_⟩
  · intro k v h; simp only [shAt, h, if_false]
  · intro k v h; simp only [shAt, h]; split <;> rfl

theorem opAt_supp (assoc : List (SID × OID)) (o' : OID) (a' : AID) :
    (∀ k v, ¬ (k.2.1 = a' ∧ k.2.2 = o') → opAt assoc o' a' (k, v) = 0) ∧
    (∀ (k : SID × AID × OID) (v : DelegRow), v.share.raw = 0 → opAt assoc o' a' (k, v) = 0) := by
  refine ⟨?_, ?_⟩
  · intro k v h
    have : ¬ (k.2.1 = a' ∧ k.2.2 = o' ∧ find? assoc k.1 = some o') := fun ⟨e1, e2, _⟩ => h ⟨e1, e2⟩
    simp only [opAt, this, if_false]
  · intro k v h; simp only [opAt, h]; split <;> rfl

/-- **the slash step**: the combined invariant survives SlashAssets -/
theorem lists_slash {s : L} (o : OID) (inf : Nat) (p : Dec) (hi : Lists s) (hp : UnitP p) :
    Lists (slashAssets s o inf p) := by
  obtain ⟨c1, c2, c3, c4⟩ := slashAssets_comps s o inf p
  refine ⟨⟨?_, ?_, ?_, ?_, ?_, ?_, ?_⟩, ⟨?_, ?_, ?_⟩⟩
  · intro o' a'
    rw [(slash_poolShare s o inf p hi.sums.ndPools o' a').1]
    unfold shareSum
    rw [slash_sum s o inf p hi.sums.ndDeleg hi.slist.sup (shAt o' a') o' a' (shAt_supp o' a').1 (shAt_supp o' a').2]
    split
    · rfl
    · exact hi.sums.share o' a'
  · intro o' a'
    rw [(slash_poolShare s o inf p hi.sums.ndPools o' a').2]
    unfold opSum
    rw [c4, slash_sum s o inf p hi.sums.ndDeleg hi.slist.sup (opAt s.assoc o' a') o' a'
      (opAt_supp s.assoc o' a').1 (opAt_supp s.assoc o' a').2]
    split
    · rfl
    · exact hi.sums.opShare o' a'
  · rw [c1]; unfold NoDup; rw [keys_map_val]; exact hi.sums.ndPools
  · rw [c2]; exact zeroAll_noDup _ _ _ _ hi.sums.ndDeleg
  · rw [c4]; exact hi.sums.ndAssoc
  · intro k d hf
    rw [slash_deleg_find] at hf
    split at hf
    · cases hf0 : find? s.deleg k with
      | none => rw [hf0] at hf; cases hf
      | some row =>
        rw [hf0] at hf; simp only [Option.map_some] at hf
        injection hf with hf; rw [← hf]; simp [zrow, Dec.zero]
    · exact hi.sums.shNonneg k d hf
  · intro k d hf
    rw [c1, find?_map_val s.pools (fun e => if e.1.1 = o then (cutPool e.2 p (has s.slist e.1)).1 else e.2)] at hf
    cases hf0 : find? s.pools k with
    | none => rw [hf0] at hf; cases hf
    | some pl =>
      rw [hf0] at hf; simp only [Option.map_some] at hf
      injection hf with hf; rw [← hf]
      have h0 := hi.sums.amtNonneg k pl hf0
      split
      · obtain ⟨_, q2, _, q4, _⟩ := cutPool_spec pl p (has s.slist k) hp h0
        omega
      · exact h0
  · intro o' a' st hne
    rw [slash_shareOf] at hne
    split at hne
    · exact absurd rfl hne
    · rename_i hnot
      have hin := hi.slist.sup o' a' st hne
      rw [(slash_listOf s o inf p hi.slist.ndSlist o' a').1]
      split
      · rename_i hc
        exact absurd ⟨hc.1, hc.2, by rw [← hc.1]; exact hin⟩ hnot
      · exact hin
  · intro o' a'
    rw [(slash_listOf s o inf p hi.slist.ndSlist o' a').1]
    split
    · exact List.nodup_nil
    · exact hi.slist.nodup o' a'
  · exact (slash_listOf s o inf p hi.slist.ndSlist o o).2

end ExoVerif.Ledger

namespace ExoVerif.KV
variable {κ : Type} {α : Type} [DecidableEq κ]

theorem atP_le_sumP (f : κ × α → Int) (m : List (κ × α)) (k : κ) (h : ∀ p ∈ m, 0 ≤ f p) :
    atP f m k ≤ sumP f m := by
  induction m with
  | nil => simp [atP, sumP]
  | cons p rest ih =>
    obtain ⟨k', v'⟩ := p
    have h1 := h (k', v') (by simp)
    have hrest : ∀ q ∈ rest, 0 ≤ f q := fun q hq => h q (by simp [hq])
    have h2 := sumP_nonneg f rest hrest
    by_cases hk : k' = k
    · subst hk; simp only [atP, find?, if_true, sumP]; omega
    · have := ih hrest
      simp only [atP, find?, hk, if_false, sumP] at this ⊢
      omega

end ExoVerif.KV

namespace ExoVerif.Ledger
open ExoVerif ExoVerif.KV

/-! ## consequences of the invariant -/

theorem shAt_nonneg {s : L} (hi : SumsInv s) (o : OID) (a : AID) : ∀ e ∈ s.deleg, 0 ≤ shAt o a e := by
  intro e he
  obtain ⟨k, v⟩ := e
  have := hi.shNonneg k v (find?_of_mem _ _ _ hi.ndDeleg he)
  simp only [shAt]; split
  · exact this
  · exact le_refl 0

/-- a pool without shares has no delegator with a share -/
theorem zero_total_zero_shares {s : L} (hi : SumsInv s) (o : OID) (a : AID) (hz : poolShare s o a = 0)
    (st : SID) : shareOf s st a o = 0 := by
  have h1 := atP_le_sumP (shAt o a) s.deleg (st, a, o) (shAt_nonneg hi o a)
  rw [atP_getD (shAt o a) s.deleg (st, a, o) zeroDeleg (by simp [shAt, zeroDeleg, Dec.zero])] at h1
  have h2 : shareSum s o a = 0 := by rw [← hi.share o a]; exact hz
  unfold shareSum at h2
  have h3 := shareOf_nonneg hi.shNonneg st a o
  simp only [shAt, and_self, if_true] at h1
  unfold shareOf at *
  omega

/-- a pool none of whose delegators has a share has no shares -/
theorem zero_shares_zero_total {s : L} (hi : SumsInv s) (o : OID) (a : AID)
    (hz : ∀ st, shareOf s st a o = 0) : poolShare s o a = 0 := by
  rw [hi.share o a]
  unfold shareSum
  apply sumP_zero_of_find _ _ hi.ndDeleg
  intro k v hf
  by_cases hk : k.2.1 = a ∧ k.2.2 = o
  · obtain ⟨st, a1, o1⟩ := k
    simp only [] at hk
    obtain ⟨e1, e2⟩ := hk; subst e1; subst e2
    have := hz st
    unfold shareOf at this
    rw [getD_of_find _ _ _ _ hf] at this
    exact (shAt_supp o1 a1).2 _ v this
  · exact (shAt_supp o a).1 k v hk

/-! ## the two clauses that need more than `OpOk` -/

theorem listSub_congr {s s' : L} (hs : ListSub s) (hd : s'.deleg = s.deleg) (hl : s'.slist = s.slist) :
    ListSub s' := by
  intro o a st
  have := hs o a st
  unfold shareOf listOf at *
  rw [hd, hl]; exact this

theorem listSub_append {s s1 : L} {st : SID} {a : AID} {o : OID} {δ dA : Int} (hnn : ShNonneg s)
    (hs : ListSub s) (m : ShareMove s s1 st a o δ dA) (hδ : 0 < δ) :
    ListSub (appendStaker s1 o a st) := by
  obtain ⟨_, fd, _, _⟩ := appendStaker_frame s1 o a st
  have hl1 : ∀ o' a', listOf s1 o' a' = listOf s o' a' := by intro o' a'; unfold listOf; rw [m.slist]
  intro o' a' st' hin
  have e : shareOf (appendStaker s1 o a st) st' a' o' = shareOf s1 st' a' o' := by unfold shareOf; rw [fd]
  rw [e, m.shareOf]
  by_cases hk : (st', a', o') = (st, a, o)
  · injection hk with e1 e23; injection e23 with e2 e3; subst e1; subst e2; subst e3
    simp only [if_true]
    have := shareOf_nonneg hnn st' a' o'
    omega
  · simp only [hk, if_false, Int.add_zero]
    apply hs
    rw [listOf_appendStaker] at hin
    split at hin
    · rename_i hc
      obtain ⟨hc1, _⟩ := hc
      injection hc1 with e1 e2; subst e1; subst e2
      rcases List.mem_append.1 hin with h1 | h1
      · rw [← hl1]; exact h1
      · simp at h1; exact absurd (by rw [h1]) hk
    · rw [← hl1]; exact hin

theorem listSub_removeShare {s s1 s' : L} {st : SID} {a : AID} {o : OID} {δ dA : Int} (hi : SlistInv s)
    (hs : ListSub s) (m : ShareMove s s1 st a o δ dA)
    (h : if shareOf s1 st a o = 0 then deleteStaker s1 o a st = .ok s' else s' = s1) : ListSub s' := by
  have hl1 : ∀ o' a', listOf s1 o' a' = listOf s o' a' := by intro o' a'; unfold listOf; rw [m.slist]
  by_cases hz : shareOf s1 st a o = 0
  · simp only [hz, if_true] at h
    have hs' := deleteStaker_spec h
    have hd' : s'.deleg = s1.deleg := by rw [hs']
    intro o' a' st' hin
    have e : shareOf s' st' a' o' = shareOf s1 st' a' o' := by unfold shareOf; rw [hd']
    rw [e, m.shareOf]
    have hin' : st' ∈ (if (o', a') = (o, a) then (listOf s o a).erase st else listOf s o' a') := by
      rw [hs'] at hin
      unfold listOf at hin ⊢
      simp only [] at hin
      by_cases hk : (o', a') = (o, a)
      · rw [hk, getD_set_same] at hin; simp only [hk, if_true]
        have := hl1 o a; unfold listOf at this; rw [← this]; exact hin
      · rw [getD_set_other _ _ _ _ _ hk] at hin; simp only [hk, if_false]
        have := hl1 o' a'; unfold listOf at this; rw [← this]; exact hin
    by_cases hk : (st', a', o') = (st, a, o)
    · injection hk with e1 e23; injection e23 with e2 e3; subst e1; subst e2; subst e3
      simp only [if_true] at hin'
      exact absurd hin' (fun hm => ((hi.nodup o' a').mem_erase_iff.1 hm).1 rfl)
    · simp only [hk, if_false, Int.add_zero]
      apply hs
      split at hin'
      · rename_i hc
        injection hc with e1 e2; subst e1; subst e2
        exact List.mem_of_mem_erase hin'
      · exact hin'
  · simp only [hz, if_false] at h
    subst h
    intro o' a' st' hin
    rw [hl1] at hin
    by_cases hk : (st', a', o') = (st, a, o)
    · injection hk with e1 e23; injection e23 with e2 e3; subst e1; subst e2; subst e3
      exact hz
    · rw [m.shareOf]
      simp only [hk, if_false, Int.add_zero]
      exact hs o' a' st' hin

theorem listSub_move0 {s s' : L} {st : SID} {a : AID} {o : OID} {dA : Int} (hs : ListSub s)
    (m : ShareMove s s' st a o 0 dA) : ListSub s' := by
  intro o' a' st' hin
  have : listOf s' o' a' = listOf s o' a' := by unfold listOf; rw [m.slist]
  rw [this] at hin
  rw [m.shareOf]
  have := hs o' a' st' hin
  split <;> simpa using this

theorem listSub_slash {s : L} (o : OID) (inf : Nat) (p : Dec) (hi : Lists s) (hs : ListSub s) :
    ListSub (slashAssets s o inf p) := by
  intro o' a' st hin
  rw [(slash_listOf s o inf p hi.slist.ndSlist o' a').1] at hin
  split at hin
  · cases hin
  · rename_i hnot
    rw [slash_shareOf]
    have : ¬ (o' = o ∧ a' ∈ clearedAssets s o p ∧ st ∈ listOf s o a') := fun ⟨e1, e2, _⟩ => hnot ⟨e1, e2⟩
    simp only [this, if_false]
    exact hs o' a' st hin

theorem listSub_delegate {s s' : L} {st : SID} {a : AID} {o : OID} {x : Int} (hi : Lists s) (hs : ListSub s)
    (h : delegate s st a o x = .ok s') (hm : ∀ sh, calculateShare s o a x = .ok sh → 0 < sh.raw) :
    ListSub s' := by
  obtain ⟨share, s0, s1, f1, f2, f3, f4, c, _, m, e⟩ := delegate_move h
  have i0 : Lists s0 := lists_congr hi f1 f2 f3 f4
  rw [e]
  exact listSub_append i0.sums.shNonneg (listSub_congr hs f2 f3) m (hm share c)

theorem listSub_undelegate {s s' : L} {st : SID} {a : AID} {o : OID} {x : Int} {n : Nat} {hash : String}
    (hi : Lists s) (hs : ListSub s) (h : undelegate s st a o x n hash = .ok s') : ListSub s' := by
  unfold undelegate at h
  simp only [bind, Except.bind, throw, throwThe, MonadExceptOf.throw] at h
  split at h
  · cases h
  · split at h
    · cases h
    · split at h
      · cases h
      · split at h
        · cases h
        · rename_i p1 h1
          obtain ⟨s1, removed⟩ := p1
          simp only [] at h
          obtain ⟨s2, m, _, _, hd⟩ := removeShare_move h1
          have h1' := listSub_removeShare hi.slist hs m hd
          unfold setRecord at h
          split at h
          · cases h
          · injection h with h; rw [← h]; exact listSub_congr h1' rfl rfl

theorem listSub_endBlockRecord {s : L} {r : URec} (hs : ListSub s) : ListSub (endBlockRecord s r) := by
  unfold endBlockRecord
  split
  · simp only []
    split
    · rename_i s2 hset
      unfold setRecord at hset
      split at hset
      · cases hset
      · injection hset with hset; rw [← hset]; exact listSub_congr hs rfl rfl
    · exact hs
  · split
    · rename_i s2 hc
      exact listSub_move0 hs (completeRecord_move hc)
    · exact hs

theorem listSub_endBlock {s : L} (hs : ListSub s) : ListSub (nextBlock (endBlock s)) := by
  have : ListSub (endBlock s) := by
    unfold endBlock
    split
    · exact hs
    · rename_i rs _
      clear * - hs
      induction rs generalizing s with
      | nil => exact hs
      | cons r rest ih => simp only [List.foldl_cons]; exact ih (listSub_endBlockRecord hs)
  exact listSub_congr this rfl rfl

/-- deposit, withdraw, associate, dissociate leave delegation rows and staker lists alone -/
theorem deposit_frame {s s' : L} {st : SID} {a : AID} {x : Int} (h : deposit s st a x = .ok s') :
    s'.pools = s.pools ∧ s'.deleg = s.deleg ∧ s'.slist = s.slist := by
  unfold deposit at h
  simp only [bind, Except.bind, pure, Except.pure, throw, throwThe, MonadExceptOf.throw] at h
  split at h
  · cases h
  · split at h
    · cases h
    · split at h
      · cases h
      · rename_i s1 h1
        split at h
        · cases h
        · rename_i s2 h2
          injection h with h; subst h
          obtain ⟨t, _, hs2⟩ := updTotal_ok h2
          have hs1 := updStaker_ok h1
          exact ⟨by simp only []; rw [hs2, hs1], by simp only []; rw [hs2, hs1], by simp only []; rw [hs2, hs1]⟩

theorem withdraw_frame {s s' : L} {st : SID} {a : AID} {x : Int} (h : withdraw s st a x = .ok s') :
    s'.pools = s.pools ∧ s'.deleg = s.deleg ∧ s'.slist = s.slist := by
  unfold withdraw at h
  simp only [bind, Except.bind, pure, Except.pure, throw, throwThe, MonadExceptOf.throw] at h
  split at h
  · cases h
  · split at h
    · cases h
    · split at h
      · cases h
      · rename_i s1 h1
        split at h
        · cases h
        · rename_i s2 h2
          injection h with h; subst h
          obtain ⟨t, _, hs2⟩ := updTotal_ok h2
          have hs1 := updStaker_ok h1
          exact ⟨by simp only []; rw [hs2, hs1], by simp only []; rw [hs2, hs1], by simp only []; rw [hs2, hs1]⟩

theorem associate_frame {s s' : L} {st : SID} {o : OID} (h : associate s st o = .ok s') :
    s'.deleg = s.deleg ∧ s'.slist = s.slist ∧
    ∀ o' a', (getD s'.pools (o', a') zeroPool).amount = (getD s.pools (o', a') zeroPool).amount ∧
      poolShare s' o' a' = poolShare s o' a' := by
  unfold associate at h
  simp only [bind, Except.bind, pure, Except.pure, throw, throwThe, MonadExceptOf.throw] at h
  split at h
  · cases h
  · split at h
    · cases h
    · split at h
      · cases h
      · split at h
        · cases h
        · rename_i s1 h1
          injection h with h
          obtain ⟨f1, f2, _, _, _, f6⟩ := foldlM_opShare_spec _ o (fun r => r.share) h1
          rw [← h]
          exact ⟨f1, f2, fun o' a' => (f6 o' a').2⟩

theorem dissociate_frame {s s' : L} {st : SID} (h : dissociate s st = .ok s') :
    s'.deleg = s.deleg ∧ s'.slist = s.slist ∧
    ∀ o' a', (getD s'.pools (o', a') zeroPool).amount = (getD s.pools (o', a') zeroPool).amount ∧
      poolShare s' o' a' = poolShare s o' a' := by
  unfold dissociate at h
  simp only [bind, Except.bind, pure, Except.pure, throw, throwThe, MonadExceptOf.throw] at h
  split at h
  · cases h
  · rename_i o ho
    split at h
    · cases h
    · rename_i s1 h1
      injection h with h
      obtain ⟨f1, f2, _, _, _, f6⟩ := foldlM_opShare_spec _ o (fun r => r.share.neg) h1
      rw [← h]
      exact ⟨f1, f2, fun o' a' => (f6 o' a').2⟩

/-! ### amount = 0 ⇒ shares = 0 -/

theorem zeroPool_congr {s s' : L} (hz : ZeroPoolInv s)
    (h : ∀ o a, (getD s'.pools (o, a) zeroPool).amount = (getD s.pools (o, a) zeroPool).amount ∧
      poolShare s' o a = poolShare s o a) : ZeroPoolInv s' := by
  intro o a ham
  rw [(h o a).1] at ham
  rw [(h o a).2]; exact hz o a ham

theorem zeroPool_move {s s' : L} {st : SID} {a : AID} {o : OID} {δ dA : Int} (hz : ZeroPoolInv s)
    (m : ShareMove s s' st a o δ dA)
    (hgood : (getD s.pools (o, a) zeroPool).amount + dA = 0 → poolShare s o a + δ = 0) : ZeroPoolInv s' := by
  intro o' a' ham
  obtain ⟨h1, _, h3⟩ := m.poolShare o' a'
  rw [h3] at ham
  rw [h1]
  by_cases hc : a = a' ∧ o = o'
  · obtain ⟨e1, e2⟩ := hc; subst e1; subst e2
    simp only [and_self, if_true] at ham ⊢
    exact hgood ham
  · simp only [hc, if_false, Int.add_zero] at ham ⊢
    exact hz o' a' ham

theorem zeroPool_delegate {s s' : L} {st : SID} {a : AID} {o : OID} {x : Int} (hi : Lists s)
    (hz : ZeroPoolInv s) (h : delegate s st a o x = .ok s') : ZeroPoolInv s' := by
  obtain ⟨share, s0, s1, f1, f2, f3, f4, c, hx, m, e⟩ := delegate_move h
  have z0 : ZeroPoolInv s0 := zeroPool_congr hz (fun o a => by unfold poolShare; rw [f1]; exact ⟨rfl, rfl⟩)
  have i0 : Lists s0 := lists_congr hi f1 f2 f3 f4
  obtain ⟨g1, _, _, _⟩ := appendStaker_frame s1 o a st
  rw [e]
  refine zeroPool_congr (zeroPool_move z0 m ?_) (fun o a => by unfold poolShare; rw [g1]; exact ⟨rfl, rfl⟩)
  intro h0
  have := amount_nonneg i0.sums.amtNonneg o a
  omega

theorem zeroPool_endBlockRecord {s : L} {r : URec} (hz : ZeroPoolInv s) : ZeroPoolInv (endBlockRecord s r) := by
  unfold endBlockRecord
  split
  · simp only []
    split
    · rename_i s2 hset
      unfold setRecord at hset
      split at hset
      · cases hset
      · injection hset with hset; rw [← hset]; exact zeroPool_congr hz (fun o a => ⟨rfl, rfl⟩)
    · exact hz
  · split
    · rename_i s2 hc
      refine zeroPool_move hz (completeRecord_move hc) ?_
      intro h0
      have := hz r.op r.asset (by omega)
      omega
    · exact hz

theorem zeroPool_endBlock {s : L} (hz : ZeroPoolInv s) : ZeroPoolInv (nextBlock (endBlock s)) := by
  have : ZeroPoolInv (endBlock s) := by
    unfold endBlock
    split
    · exact hz
    · rename_i rs _
      clear * - hz
      induction rs generalizing s with
      | nil => exact hz
      | cons r rest ih => simp only [List.foldl_cons]; exact ih (zeroPool_endBlockRecord hz)
  exact zeroPool_congr this (fun o a => ⟨rfl, rfl⟩)

/-- TokensFromShares (truncating quotient) never pays a non-last delegator the whole pool amount -/
theorem tokensFromShares_lt {share total : Dec} {amount removed : Int} (hpos : 0 ≤ share.raw)
    (hlt : share.raw < total.raw) (hamt : 0 < amount)
    (h : tokensFromShares share total amount = .ok removed) : removed < amount := by
  unfold tokensFromShares at h
  split at h
  · cases h
  · split at h
    · omega
    · injection h with h
      have e : removed = Dec.tok share total amount := h.symm
      rw [e]; exact Dec.tok_lt_amount share total amount hpos hlt hamt

/-- an undelegation keeps "amount = 0 ⇒ shares = 0": the last delegator takes the whole amount and
the whole share total; any other one is paid strictly less than the pool amount -/
theorem zeroPool_undelegate {s s' : L} {st : SID} {a : AID} {o : OID} {x : Int} {n : Nat} {hash : String}
    (hi : Lists s) (hz : ZeroPoolInv s) (h : undelegate s st a o x n hash = .ok s') :
    ZeroPoolInv s' := by
  unfold undelegate at h
  simp only [bind, Except.bind, throw, throwThe, MonadExceptOf.throw] at h
  split at h
  · cases h
  · split at h
    · cases h
    · split at h
      · cases h
      · rename_i share hshare
        split at h
        · cases h
        · rename_i p1 h1
          obtain ⟨s1, removed⟩ := p1
          simp only [] at h
          obtain ⟨s2, m, hpos, ⟨p, hp, hle, hrem⟩, hd⟩ := removeShare_move h1
          have z2 : ZeroPoolInv s2 := by
            refine zeroPool_move hz m ?_
            intro h0
            have ea : (getD s.pools (o, a) zeroPool).amount = p.amount := by rw [getD_of_find _ _ _ _ hp]
            have et : poolShare s o a = p.totalShare.raw := by unfold poolShare; rw [getD_of_find _ _ _ _ hp]
            have hz0 := hz o a
            rw [ea] at h0 hz0; rw [et] at hz0 ⊢
            by_cases he : p.totalShare.raw = share.raw
            · omega
            · simp only [he, if_false] at hrem
              have hnn := hi.sums.amtNonneg _ _ hp
              by_cases ha0 : p.amount = 0
              · have := hz0 ha0; omega
              · have := tokensFromShares_lt (le_of_lt hpos) (by omega) (by omega) hrem
                omega
          have e1 : s1.pools = s2.pools := by
            split at hd
            · rw [deleteStaker_spec hd]
            · rw [hd]
          unfold setRecord at h
          split at h
          · cases h
          · injection h with h; rw [← h]
            exact zeroPool_congr z2 (fun o a => by unfold poolShare; simp only []; rw [e1]; exact ⟨rfl, rfl⟩)

theorem zeroPool_slash {s : L} (o : OID) (inf : Nat) (p : Dec) (hi : Lists s) (hz : ZeroPoolInv s) :
    ZeroPoolInv (slashAssets s o inf p) := by
  intro o' a' ham
  rw [(slash_poolShare s o inf p hi.sums.ndPools o' a').1]
  split
  · rfl
  · rename_i hnot
    rw [slash_pool s o inf p hi.sums.ndPools o' a'] at ham
    by_cases ho : o' = o
    · subst ho
      simp only [if_true] at ham
      have hnc : a' ∉ clearedAssets s o' p := fun hm => hnot ⟨rfl, hm⟩
      cases hf : find? s.pools (o', a') with
      | none => unfold poolShare; rw [getD_of_none _ _ _ hf]; rfl
      | some pl =>
        rw [hf] at ham
        simp only [hnc, if_false] at ham
        have hcl : ¬ clearsPool s o' a' pl p = true := fun hc =>
          hnc ((mem_clearedAssets s o' p hi.sums.ndPools a').2 ⟨pl, hf, hc⟩)
        have hhas : has s.slist (o', a') = false := by
          unfold clearsPool at hcl
          simp only [ham, decide_true, Bool.true_and] at hcl
          simpa using hcl
        have hnil : listOf s o' a' = [] := by
          unfold has at hhas
          unfold listOf
          cases hl : find? s.slist (o', a') with
          | none => exact getD_of_none _ _ _ hl
          | some l => rw [hl] at hhas; cases hhas
        apply zero_shares_zero_total hi.sums
        intro st
        by_cases h0 : shareOf s st a' o' = 0
        · exact h0
        · have := hi.slist.sup o' a' st h0
          rw [hnil] at this; cases this
    · simp only [ho, if_false] at ham
      exact hz o' a' ham

end ExoVerif.Ledger

namespace ExoVerif.Ledger
open ExoVerif ExoVerif.KV

/-! ## one token is never worth more than 10¹⁸ raw shares … i.e. TotalAmount ≤ TotalShare.raw

This bound is what makes every accepted delegation mint a non-zero share (so that the staker list
never holds a staker without shares). It is preserved by every operation: a delegation mints at least
`x` raw shares for `x` tokens, an undelegation is paid at least the floor of its exact value, a slash
only lowers the amount. -/

def PriceInv (s : L) : Prop := ∀ o a, (getD s.pools (o, a) zeroPool).amount ≤ poolShare s o a

theorem priceInv_congr {s s' : L} (hz : PriceInv s)
    (h : ∀ o a, (getD s'.pools (o, a) zeroPool).amount = (getD s.pools (o, a) zeroPool).amount ∧
      poolShare s' o a = poolShare s o a) : PriceInv s' := by
  intro o a
  rw [(h o a).1, (h o a).2]; exact hz o a

theorem priceInv_move {s s' : L} {st : SID} {a : AID} {o : OID} {δ dA : Int} (hz : PriceInv s)
    (m : ShareMove s s' st a o δ dA)
    (hgood : (getD s.pools (o, a) zeroPool).amount + dA ≤ poolShare s o a + δ) : PriceInv s' := by
  intro o' a'
  obtain ⟨h1, _, h3⟩ := m.poolShare o' a'
  rw [h3, h1]
  by_cases hc : a = a' ∧ o = o'
  · obtain ⟨e1, e2⟩ := hc; subst e1; subst e2
    simp only [and_self, if_true]
    exact hgood
  · simp only [hc, if_false, Int.add_zero]
    exact hz o' a'

/-- CalculateShare mints at least `x` raw shares for `x` tokens -/
theorem calculateShare_mint {s : L} {o : OID} {a : AID} {x : Int} {sh : Dec} (hi : SumsInv s)
    (hpr : PriceInv s) (hc : calculateShare s o a x = .ok sh) (hx : 0 < x) : x ≤ sh.raw := by
  have hP : (1 : Int) ≤ PREC := by decide
  have hof : x ≤ (Dec.ofInt x).raw := by
    unfold Dec.ofInt; simp only []; nlinarith
  unfold calculateShare at hc
  split at hc
  · injection hc with hc; rw [← hc]; exact hof
  · rename_i pl hpl
    split at hc
    · injection hc with hc; rw [← hc]; exact hof
    · rename_i hT
      have hpa := hpr o a
      have hamt := hi.amtNonneg _ _ hpl
      unfold poolShare at hpa
      rw [getD_of_find _ _ _ _ hpl] at hpa
      unfold sharesFromTokens at hc
      split at hc
      · cases hc
      · rename_i ha0
        injection hc with hc; rw [← hc]
        unfold Dec.quoInt Dec.mulInt
        simp only []
        have hapos : 0 < pl.amount := by omega
        apply Dec.le_tdiv_of_mul_le _ _ _ _ hapos
        · nlinarith
        · have : 0 ≤ pl.totalShare.raw := by omega
          exact Int.mul_nonneg this (by omega)

/-- RemoveShareFromOperator pays at least amount − (TotalShare − share) -/
theorem removed_price {p : Pool} {share : Dec} {removed : Int} (hamt : 0 ≤ p.amount)
    (hpr : p.amount ≤ p.totalShare.raw) (hpos : 0 < share.raw) (hle : share.raw ≤ p.totalShare.raw)
    (hrem : if p.totalShare.raw = share.raw then removed = p.amount
            else tokensFromShares share p.totalShare p.amount = .ok removed) :
    p.amount - removed ≤ p.totalShare.raw - share.raw := by
  by_cases he : p.totalShare.raw = share.raw
  · simp only [he, if_true] at hrem; omega
  · simp only [he, if_false] at hrem
    unfold tokensFromShares at hrem
    split at hrem
    · cases hrem
    · split at hrem
      · omega
      · injection hrem with hrem
        have htot : 0 < p.totalShare.raw := by omega
        have e : removed = Dec.tok share p.totalShare p.amount := hrem.symm
        have h0 := Dec.tok_nonneg share p.totalShare p.amount (by omega) htot hamt
        by_cases hk : p.amount - (p.totalShare.raw - share.raw) ≤ 0
        · omega
        · have := Dec.le_tok share p.totalShare p.amount (p.amount - (p.totalShare.raw - share.raw))
            (by omega) htot hamt (by omega) (by nlinarith)
          omega

theorem priceInv_delegate {s s' : L} {st : SID} {a : AID} {o : OID} {x : Int} (hi : Lists s)
    (hz : PriceInv s) (h : delegate s st a o x = .ok s') : PriceInv s' ∧
    (∀ sh, calculateShare s o a x = .ok sh → 0 < sh.raw) := by
  obtain ⟨share, s0, s1, f1, f2, f3, f4, c, hx, m, e⟩ := delegate_move h
  have hmint := calculateShare_mint hi.sums hz c hx
  have z0 : PriceInv s0 := priceInv_congr hz (fun o a => by unfold poolShare; rw [f1]; exact ⟨rfl, rfl⟩)
  obtain ⟨g1, _, _, _⟩ := appendStaker_frame s1 o a st
  rw [e]
  refine ⟨priceInv_congr (priceInv_move z0 m ?_) (fun o a => by unfold poolShare; rw [g1]; exact ⟨rfl, rfl⟩), ?_⟩
  · have := z0 o a
    omega
  · intro sh hsh
    rw [c] at hsh; injection hsh with hsh; rw [← hsh]; omega

theorem priceInv_endBlockRecord {s : L} {r : URec} (hz : PriceInv s) : PriceInv (endBlockRecord s r) := by
  unfold endBlockRecord
  split
  · simp only []
    split
    · rename_i s2 hset
      unfold setRecord at hset
      split at hset
      · cases hset
      · injection hset with hset; rw [← hset]; exact priceInv_congr hz (fun o a => ⟨rfl, rfl⟩)
    · exact hz
  · split
    · rename_i s2 hc
      refine priceInv_move hz (completeRecord_move hc) ?_
      have := hz r.op r.asset
      omega
    · exact hz

theorem priceInv_endBlock {s : L} (hz : PriceInv s) : PriceInv (nextBlock (endBlock s)) := by
  have : PriceInv (endBlock s) := by
    unfold endBlock
    split
    · exact hz
    · rename_i rs _
      clear * - hz
      induction rs generalizing s with
      | nil => exact hz
      | cons r rest ih => simp only [List.foldl_cons]; exact ih (priceInv_endBlockRecord hz)
  exact priceInv_congr this (fun o a => ⟨rfl, rfl⟩)

theorem priceInv_undelegate {s s' : L} {st : SID} {a : AID} {o : OID} {x : Int} {n : Nat} {hash : String}
    (hi : Lists s) (hz : PriceInv s) (h : undelegate s st a o x n hash = .ok s') : PriceInv s' := by
  unfold undelegate at h
  simp only [bind, Except.bind, throw, throwThe, MonadExceptOf.throw] at h
  split at h
  · cases h
  · split at h
    · cases h
    · split at h
      · cases h
      · rename_i share hshare
        split at h
        · cases h
        · rename_i p1 h1
          obtain ⟨s1, removed⟩ := p1
          simp only [] at h
          obtain ⟨s2, m, hpos, ⟨p, hp, hle, hrem⟩, hd⟩ := removeShare_move h1
          have z2 : PriceInv s2 := by
            refine priceInv_move hz m ?_
            have ea : (getD s.pools (o, a) zeroPool).amount = p.amount := by rw [getD_of_find _ _ _ _ hp]
            have et : poolShare s o a = p.totalShare.raw := by unfold poolShare; rw [getD_of_find _ _ _ _ hp]
            have hpa := hz o a
            rw [ea, et] at hpa ⊢
            have := removed_price (hi.sums.amtNonneg _ _ hp) hpa hpos hle hrem
            omega
          have e1 : s1.pools = s2.pools := by
            split at hd
            · rw [deleteStaker_spec hd]
            · rw [hd]
          unfold setRecord at h
          split at h
          · cases h
          · injection h with h; rw [← h]
            exact priceInv_congr z2 (fun o a => by unfold poolShare; simp only []; rw [e1]; exact ⟨rfl, rfl⟩)

theorem priceInv_slash {s : L} (o : OID) (inf : Nat) (p : Dec) (hi : Lists s) (hz : PriceInv s)
    (hp : UnitP p) : PriceInv (slashAssets s o inf p) := by
  intro o' a'
  rw [(slash_poolShare s o inf p hi.sums.ndPools o' a').1, slash_pool s o inf p hi.sums.ndPools o' a']
  by_cases ho : o' = o
  · subst ho
    simp only [if_true, true_and]
    cases hf : find? s.pools (o', a') with
    | none =>
      have : poolShare s o' a' = 0 := by unfold poolShare; rw [getD_of_none _ _ _ hf]; rfl
      simp only [this]; split <;> simp [zeroPool]
    | some pl =>
      simp only []
      have h0 := hi.sums.amtNonneg _ _ hf
      have hb := Dec.truncate_mulInt_bounds p pl.amount hp.1 hp.2 h0
      have hpa := hz o' a'
      unfold poolShare at hpa ⊢
      rw [getD_of_find _ _ _ _ hf] at hpa ⊢
      by_cases hc : a' ∈ clearedAssets s o' p
      · simp only [hc, if_true]
        obtain ⟨pl', h1, h2⟩ := (mem_clearedAssets s o' p hi.sums.ndPools a').1 hc
        rw [hf] at h1; injection h1 with h1; subst h1
        unfold clearsPool at h2
        simp only [Bool.and_eq_true, decide_eq_true_eq] at h2
        omega
      · simp only [hc, if_false]; omega
  · simp only [ho, if_false, false_and]
    exact hz o' a'

end ExoVerif.Ledger

namespace ExoVerif.Ledger
open ExoVerif ExoVerif.KV

/-! ## a ledger without pools satisfies everything -/

theorem lists_empty (s : L) (hp : s.pools = []) (hd : s.deleg = []) (hl : s.slist = []) (ha : s.assoc = []) :
    Lists s ∧ ListSub s ∧ ZeroPoolInv s ∧ PriceInv s := by
  refine ⟨⟨⟨?_, ?_, ?_, ?_, ?_, ?_, ?_⟩, ⟨?_, ?_, ?_⟩⟩, ?_, ?_, ?_⟩
  · intro o a; simp [poolShare, shareSum, hp, hd, sumP, getD, zeroPool, Dec.zero]
  · intro o a; simp [poolOpShare, opSum, hp, hd, sumP, getD, zeroPool, Dec.zero]
  · rw [hp]; exact List.nodup_nil
  · rw [hd]; exact List.nodup_nil
  · rw [ha]; exact List.nodup_nil
  · intro k d h; rw [hd] at h; cases h
  · intro k d h; rw [hp] at h; cases h
  · intro o a st h; simp [shareOf, hd, getD, zeroDeleg, Dec.zero] at h
  · intro o a; simp [listOf, hl, getD]
  · rw [hl]; exact List.nodup_nil
  · intro o a st h; simp [listOf, hl, getD] at h
  · intro o a _; simp [poolShare, hp, getD, zeroPool, Dec.zero]
  · intro o a; simp [poolShare, hp, getD, zeroPool, Dec.zero]

end ExoVerif.Ledger
