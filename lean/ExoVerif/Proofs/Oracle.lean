import ExoVerif.Model.Oracle
/-! Helper lemmas for C12/C13/C14 (oracle rounds, admission, restart). Core Lean only. -/
namespace ExoVerif.Oracle

/-! ### association lists -/

theorem alookup_aset_same {κ α} [DecidableEq κ] (k : κ) (v : α) (l : List (κ × α)) :
    alookup k (aset k v l) = some v := by
  induction l with
  | nil => simp [aset, alookup]
  | cons h t ih =>
    obtain ⟨k', v'⟩ := h
    by_cases hk : k' = k
    · simp [aset, alookup, hk]
    · simp [aset, alookup, hk, ih]

theorem alookup_aset_other {κ α} [DecidableEq κ] (k k2 : κ) (v : α) (l : List (κ × α)) (h : k2 ≠ k) :
    alookup k2 (aset k v l) = alookup k2 l := by
  induction l with
  | nil => simp [aset, alookup, Ne.symm h]
  | cons hd t ih =>
    obtain ⟨k', v'⟩ := hd
    by_cases hk : k' = k
    · subst hk
      simp [aset, alookup, Ne.symm h]
    · by_cases hk2 : k' = k2
      · subst hk2
        simp [aset, alookup, hk]
      · simp [aset, alookup, hk, hk2, ih]

/-! ### the sorted list behind `median` -/

def leI (a b : Int) : Bool := decide (a ≤ b)

theorem leI_trans (a b c : Int) : leI a b = true → leI b c = true → leI a c = true := by
  simp only [leI, decide_eq_true_eq]; omega

theorem leI_total (a b : Int) : (leI a b || leI b a) = true := by
  simp only [leI, Bool.or_eq_true, decide_eq_true_eq]; omega

def sorted (l : List Int) : List Int := l.mergeSort (fun a b => decide (a ≤ b))

theorem sorted_perm (l : List Int) : (sorted l).Perm l := List.mergeSort_perm l _

theorem sorted_pairwise (l : List Int) : (sorted l).Pairwise (fun a b => leI a b = true) :=
  List.pairwise_mergeSort (le := leI) leI_trans leI_total l

theorem sorted_eq_of_perm {l1 l2 : List Int} (h : l1.Perm l2) : sorted l1 = sorted l2 := by
  apply List.Perm.eq_of_pairwise (le := fun a b => leI a b = true) _ (sorted_pairwise l1) (sorted_pairwise l2)
  · exact (sorted_perm l1).trans (h.trans (sorted_perm l2).symm)
  · intro a b _ _ hab hba
    simp only [leI, decide_eq_true_eq] at hab hba
    omega

theorem median_eq (l : List Int) : median l =
    (let s := sorted l
     let n := s.length
     if n % 2 == 1 then s.getD (n / 2) 0 else (s.getD (n / 2) 0 + s.getD (n / 2 - 1) 0) / 2) := rfl

theorem sorted_length (l : List Int) : (sorted l).length = l.length := (sorted_perm l).length_eq

theorem sorted_getD_mem (l : List Int) (i : Nat) (h : i < l.length) : (sorted l).getD i 0 ∈ l := by
  have hi : i < (sorted l).length := by rw [sorted_length]; exact h
  have : (sorted l).getD i 0 = (sorted l)[i] := by simp [List.getD, List.getElem?_eq_getElem hi]
  rw [this]
  exact (sorted_perm l).mem_iff.mp (List.getElem_mem hi)

/-! ### stores -/

/-- every stored record sits under its own round id (true of genesis loading via SetPrices and
preserved by every write path). -/
def StoreWf (t : TokenStore) : Prop := ∀ k p, alookup k t.rounds = some p → p.roundID = k

theorem alookup_adel_other {κ α} [DecidableEq κ] (k k2 : κ) (l : List (κ × α)) (h : k2 ≠ k) :
    alookup k2 (adel k l) = alookup k2 l := by
  induction l with
  | nil => simp [adel, alookup]
  | cons hd t ih =>
    obtain ⟨k', v'⟩ := hd
    by_cases hk : k' = k
    · subst hk
      simp [adel, alookup, Ne.symm h]
    · by_cases hk2 : k' = k2
      · subst hk2
        simp [adel, alookup, hk]
      · simp [adel, alookup, hk, hk2, ih]

theorem append_fail (t : TokenStore) (m : Nat) (p : PriceTR) (h : (t.append m p).2 = false) :
    (t.append m p).1 = t := by
  unfold TokenStore.append at h ⊢
  by_cases hn : t.nextRoundID = p.roundID
  · simp [hn] at h
  · simp [hn]

theorem append_next (t : TokenStore) (m : Nat) (p : PriceTR) :
    (t.append m p).1.nextRoundID = t.nextRoundID + (if (t.append m p).2 then 1 else 0) := by
  unfold TokenStore.append
  by_cases hn : t.nextRoundID = p.roundID
  · simp only [hn, ne_eq, not_true_eq_false, if_false, if_true]
    simp [TokenStore.nextRoundID]
  · simp [hn]


/-! ### one feeder's slice of the block machinery -/

/-- the feeder's in-memory round and the stored NextRoundID of its token -/
structure Sl where
  round : Option Round
  next : Nat
deriving Repr, DecidableEq

/-- a DeliverTx that finalizes the round (msg_server_create_price.go: AppendPriceTR, or
GrowRoundID on an id mismatch — either way the stored id advances by one, `append_next` /
`C12_grow_advances_by_one`); only an open round can be finalized (checkMsg). -/
def slFinal (s : Sl) : Sl :=
  match s.round with
  | some r => if r.status = .open then { round := some { r with status := .closed }, next := s.next + 1 } else s
  | none => s

/-- context.go: SealRound + module.go: GrowRoundID for every failed token (feeder without EndBlock) -/
def slSeal (mn h : Nat) (force : Bool) (s : Sl) : Sl :=
  match s.round with
  | some r =>
    if r.status = .open && (h - r.basedBlock ≥ mn || force) then
      { round := some { r with status := .closed }, next := s.next + 1 }
    else s
  | none => s

/-- context.go: PrepareRoundEndBlock for this feeder (no EndBlock) -/
def slPrepare (f : Feeder) (mn block : Nat) (s : Sl) : Sl :=
  if f.startBaseBlock > block then s
  else
    let (left, based, nrid) := roundArith f block
    match s.round with
    | none =>
      if left ≥ mn then { s with round := some { basedBlock := based, nextRoundID := nrid, status := .closed } }
      else { s with round := some { basedBlock := based, nextRoundID := nrid, status := .open } }
    | some r =>
      if left = 0 then { s with round := some { basedBlock := based, nextRoundID := nrid, status := .open } }
      else if r.status = .open && left ≥ mn then { s with round := some { r with status := .closed } }
      else s

/-- what happens in one block: does some transaction finalize the round, is the seal forced
(validator-set change) -/
structure BlockEv where
  final : Bool
  force : Bool

/-- block `h`: transactions, then EndBlock = seal, then prepare -/
def slBlock (f : Feeder) (mn h : Nat) (ev : BlockEv) (s : Sl) : Sl :=
  slPrepare f mn h (slSeal mn h ev.force (if ev.final then slFinal s else s))

/-- blocks b+1, b+2, … -/
def slRun (f : Feeder) (mn : Nat) : Nat → List BlockEv → Sl → Sl
  | _, [], s => s
  | b, ev :: evs, s => slRun f mn (b + 1) evs (slBlock f mn (b + 1) ev s)

/-- the invariant after EndBlock of block `b ≥ StartBaseBlock` -/
def RoundInv (f : Feeder) (mn n0 b : Nat) (s : Sl) : Prop :=
  ∃ r, s.round = some r ∧
    r.basedBlock = b - (b - f.startBaseBlock) % f.interval ∧
    r.nextRoundID = f.startRoundID + (b - f.startBaseBlock) / f.interval ∧
    (r.status = .open → (b - f.startBaseBlock) % f.interval < mn) ∧
    s.next = n0 + (b - f.startBaseBlock) / f.interval + (if r.status = .closed then 1 else 0)

theorem succ_div_mod (d iv : Nat) (hiv : 0 < iv) :
    ((d + 1) % iv = 0 → d % iv = iv - 1 ∧ (d + 1) / iv = d / iv + 1) ∧
    ((d + 1) % iv ≠ 0 → (d + 1) % iv = d % iv + 1 ∧ (d + 1) / iv = d / iv) := by
  have hd : iv * (d / iv) + d % iv = d := Nat.div_add_mod d iv
  have hr : d % iv < iv := Nat.mod_lt d hiv
  by_cases hc : d % iv + 1 < iv
  · have e : d + 1 = iv * (d / iv) + (d % iv + 1) := by omega
    have hm : (d + 1) % iv = d % iv + 1 := by
      rw [e, Nat.mul_add_mod, Nat.mod_eq_of_lt hc]
    have hq : (d + 1) / iv = d / iv := by
      rw [e, Nat.mul_add_div hiv, Nat.div_eq_of_lt hc]; omega
    constructor
    · intro h0; omega
    · intro _; exact ⟨hm, hq⟩
  · have hc' : d % iv + 1 = iv := by omega
    have e : d + 1 = iv * (d / iv + 1) := by rw [Nat.mul_add, Nat.mul_one]; omega
    have hm : (d + 1) % iv = 0 := by rw [e]; exact Nat.mul_mod_right _ _
    have hq : (d + 1) / iv = d / iv + 1 := by rw [e]; exact Nat.mul_div_cancel_left _ hiv
    constructor
    · intro _; exact ⟨by omega, hq⟩
    · intro hne; exact absurd hm hne


/-- status facts -/
theorem status_cases (st : Status) : st = .open ∨ st = .closed := by cases st <;> simp

/-- after the transactions and the seal of block b+1: still the round of base `b - left`, and if it
is still open the *next* offset is inside the window -/
def MidInv (f : Feeder) (mn n0 b : Nat) (s : Sl) : Prop :=
  ∃ r, s.round = some r ∧
    r.basedBlock = b - (b - f.startBaseBlock) % f.interval ∧
    r.nextRoundID = f.startRoundID + (b - f.startBaseBlock) / f.interval ∧
    (r.status = .open → (b - f.startBaseBlock) % f.interval + 1 < mn) ∧
    s.next = n0 + (b - f.startBaseBlock) / f.interval + (if r.status = .closed then 1 else 0)

theorem final_keeps (f : Feeder) (mn n0 b : Nat) (s : Sl) (h : RoundInv f mn n0 b s) :
    RoundInv f mn n0 b (slFinal s) := by
  obtain ⟨r, hr, hb, hn, ho, hx⟩ := h
  unfold slFinal
  rw [hr]
  rcases status_cases r.status with hs | hs
  · simp only [hs, if_true]
    refine ⟨_, rfl, hb, hn, ?_, ?_⟩
    · intro hc; cases hc
    · simp [hs] at hx; simp; omega
  · simp only [hs]
    exact ⟨r, by simp [hr], hb, hn, ho, hx⟩

theorem seal_gives_mid (f : Feeder) (mn n0 b : Nat) (force : Bool) (s : Sl) (hsb : f.startBaseBlock ≤ b)
    (hiv : 0 < f.interval) (h : RoundInv f mn n0 b s) :
    MidInv f mn n0 b (slSeal mn (b + 1) force s) := by
  obtain ⟨r, hr, hb, hn, ho, hx⟩ := h
  have hle : (b - f.startBaseBlock) % f.interval ≤ b := by
    have := Nat.mod_le (b - f.startBaseBlock) f.interval; omega
  unfold slSeal
  rw [hr]
  rcases status_cases r.status with hs | hs
  · by_cases hc : (decide (b + 1 - r.basedBlock ≥ mn) || force) = true
    · simp only [hs, hc, decide_true, Bool.and_self, if_true]
      refine ⟨_, rfl, hb, hn, ?_, ?_⟩
      · intro h'; cases h'
      · simp [hs] at hx; simp; omega
    · have hc' : (decide (b + 1 - r.basedBlock ≥ mn) || force) = false := by simpa using hc
      simp only [hs, hc', decide_true, Bool.and_false, Bool.false_eq_true, if_false]
      refine ⟨r, hr, hb, hn, ?_, hx⟩
      intro _
      simp only [Bool.or_eq_false_iff, decide_eq_false_iff_not] at hc'
      have := hc'.1
      rw [hb] at this
      omega
  · have : (decide (r.status = Status.open) && (decide (b + 1 - r.basedBlock ≥ mn) || force)) = false := by simp [hs]
    simp only [this, Bool.false_eq_true, if_false]
    refine ⟨r, hr, hb, hn, ?_, hx⟩
    intro h'; rw [hs] at h'; cases h'

theorem prepare_from_mid (f : Feeder) (mn n0 b : Nat) (s : Sl) (hsb : f.startBaseBlock ≤ b)
    (hiv : mn < f.interval) (hmn : 1 ≤ mn) (h : MidInv f mn n0 b s) :
    RoundInv f mn n0 (b + 1) (slPrepare f mn (b + 1) s) := by
  obtain ⟨r, hr, hb, hn, ho, hx⟩ := h
  have hiv0 : 0 < f.interval := by omega
  have hd : b + 1 - f.startBaseBlock = (b - f.startBaseBlock) + 1 := by omega
  have hsm := succ_div_mod (b - f.startBaseBlock) f.interval hiv0
  have hle : (b - f.startBaseBlock) % f.interval ≤ b - f.startBaseBlock := Nat.mod_le _ _
  have hlt : (b - f.startBaseBlock) % f.interval < f.interval := Nat.mod_lt _ hiv0
  unfold RoundInv slPrepare
  have hns : ¬ f.startBaseBlock > b + 1 := by omega
  simp only [hns, if_false, roundArith, hr, hd]
  by_cases h0 : ((b - f.startBaseBlock) + 1) % f.interval = 0
  · obtain ⟨hl, hq⟩ := hsm.1 h0
    simp only [h0, if_true]
    refine ⟨_, rfl, ?_, ?_, ?_, ?_⟩
    · simp
    · simp only [hq]
    · intro _; omega
    · -- the previous round must be closed: otherwise left+1 < mn < interval contradicts left = interval-1
      rcases status_cases r.status with hs | hs
      · have := ho hs; omega
      · simp only [hs, if_true] at hx
        have : ¬ (Status.open = Status.closed) := by intro h'; cases h'
        simp only [hq, this, if_false]; omega
  · obtain ⟨hl, hq⟩ := hsm.2 h0
    simp only [h0, if_false]
    rcases status_cases r.status with hs | hs
    · have hw := ho hs
      have hnot : ¬ ((b - f.startBaseBlock) + 1) % f.interval ≥ mn := by omega
      simp only [hs, decide_true, Bool.true_and, decide_eq_true_eq, hnot, if_false]
      refine ⟨r, hr, ?_, ?_, ?_, ?_⟩
      · rw [hb, hl]; omega
      · rw [hn, hq]
      · intro _; rw [hl]; exact hw
      · rw [hx, hq]
    · have : (decide (r.status = Status.open) && decide (((b - f.startBaseBlock) + 1) % f.interval ≥ mn)) = false := by simp [hs]
      simp only [this, Bool.false_eq_true, if_false]
      refine ⟨r, hr, ?_, ?_, ?_, ?_⟩
      · rw [hb, hl]; omega
      · rw [hn, hq]
      · intro h'; rw [hs] at h'; cases h'
      · rw [hx, hq]

theorem block_step (f : Feeder) (mn n0 b : Nat) (ev : BlockEv) (s : Sl) (hsb : f.startBaseBlock ≤ b)
    (hiv : mn < f.interval) (hmn : 1 ≤ mn) (h : RoundInv f mn n0 b s) :
    RoundInv f mn n0 (b + 1) (slBlock f mn (b + 1) ev s) := by
  unfold slBlock
  apply prepare_from_mid f mn n0 b _ hsb hiv hmn
  apply seal_gives_mid f mn n0 b ev.force _ hsb (by omega)
  cases ev.final
  · simpa using h
  · simpa using final_keeps f mn n0 b s h

theorem run_inv (f : Feeder) (mn n0 : Nat) (hiv : mn < f.interval) (hmn : 1 ≤ mn) (evs : List BlockEv) :
    ∀ (b : Nat) (s : Sl), f.startBaseBlock ≤ b → RoundInv f mn n0 b s →
      RoundInv f mn n0 (b + evs.length) (slRun f mn b evs s) := by
  induction evs with
  | nil => intro b s _ h; simpa [slRun] using h
  | cons ev evs ih =>
    intro b s hsb h
    have := ih (b + 1) (slBlock f mn (b + 1) ev s) (by omega) (block_step f mn n0 b ev s hsb hiv hmn h)
    simp only [slRun, List.length_cons]
    have e : b + (evs.length + 1) = b + 1 + evs.length := by omega
    rw [e]; exact this

/-- the feeder's very first round: opened by the prepare step of its start block -/
theorem start_inv (f : Feeder) (mn n0 : Nat) (hmn : 1 ≤ mn) :
    RoundInv f mn n0 f.startBaseBlock (slPrepare f mn f.startBaseBlock { round := none, next := n0 }) := by
  unfold slPrepare
  have : ¬ f.startBaseBlock > f.startBaseBlock := by omega
  have h0 : ¬ 0 ≥ mn := by omega
  simp only [this, if_false, roundArith, Nat.sub_self, Nat.zero_mod, Nat.zero_div, h0]
  exact ⟨_, rfl, by simp, by simp, by intro _; simp; omega, by simp⟩



theorem run_ends_with_prepare (f : Feeder) (mn : Nat) (evs : List BlockEv) :
    ∀ (ev : BlockEv) (b : Nat) (s : Sl), ∃ x, slRun f mn b (ev :: evs) s = slPrepare f mn (b + (ev :: evs).length) x := by
  induction evs with
  | nil => intro ev b s; exact ⟨slSeal mn (b + 1) ev.force (if ev.final then slFinal s else s), by simp [slRun, slBlock]⟩
  | cons e2 t ih =>
    intro ev b s
    obtain ⟨x, hx⟩ := ih e2 (b + 1) (slBlock f mn (b + 1) ev s)
    refine ⟨x, ?_⟩
    have e : b + (ev :: e2 :: t).length = b + 1 + (e2 :: t).length := by simp only [List.length_cons]; omega
    rw [e, ← hx]; rfl

theorem prepare_open_at_zero (f : Feeder) (mn block : Nat) (x : Sl) (hmn : 1 ≤ mn)
    (hsb : f.startBaseBlock ≤ block) (h0 : (block - f.startBaseBlock) % f.interval = 0) :
    ∃ r, (slPrepare f mn block x).round = some r ∧ r.status = .open := by
  unfold slPrepare
  have hns : ¬ f.startBaseBlock > block := by omega
  have hm : ¬ 0 ≥ mn := by omega
  simp only [hns, if_false, roundArith, h0]
  cases x.round with
  | none => simp [hm]
  | some r => simp


/-! ### filter sets and the validator cache (C13_repeated_detid_counted_once, C14_valset_change_persisted) -/

theorem setAdd_cases {α} [DecidableEq α] (size : Nat) (s : List α) (v : α) :
    (setAdd size s v = (s, false)) ∨ (setAdd size s v = (s ++ [v], true) ∧ v ∉ s) := by
  unfold setAdd
  by_cases h1 : (s.length == size) = true
  · simp [h1]
  · by_cases h2 : v ∈ s
    · simp [h1, h2]
    · simp [h1, h2]

theorem filterDetIDs_spec (size : Nat) (ps : List PriceTD) : ∀ (set : List String),
    ((filterDetIDs size set ps).2.map (·.detID)).Nodup ∧
    (∀ q ∈ (filterDetIDs size set ps).2, q.detID ∉ set) ∧
    (∀ x ∈ set, x ∈ (filterDetIDs size set ps).1) := by
  induction ps with
  | nil => intro set; simp [filterDetIDs]
  | cons p ps ih =>
    intro set
    rcases setAdd_cases size set p.detID with h | ⟨h, hn⟩
    · have := ih set
      simp only [filterDetIDs, h]
      simpa using this
    · obtain ⟨i1, i2, i3⟩ := ih (set ++ [p.detID])
      simp only [filterDetIDs, h, if_true, List.map_cons]
      refine ⟨?_, ?_, ?_⟩
      · rw [List.nodup_cons]
        refine ⟨?_, i1⟩
        intro hm
        rw [List.mem_map] at hm
        obtain ⟨q, hq, he⟩ := hm
        exact i2 q hq (by rw [he]; simp)
      · intro q hq
        rcases List.mem_cons.mp hq with e | hq'
        · rw [e]; exact hn
        · intro hc; exact i2 q hq' (by simp [hc])
      · intro x hx; exact i3 x (by simp [hx])

theorem cacheAddVals_flag (upd : List (Nat × Int)) : ∀ (acc : List (Nat × Int) × Bool),
    let r := upd.foldl (fun (acc : List (Nat × Int) × Bool) (kv : Nat × Int) =>
      match alookup kv.1 acc.1 with
      | some pw =>
        if kv.2 = 0 then (adel kv.1 acc.1, true)
        else if pw ≠ kv.2 then (aset kv.1 kv.2 acc.1, true)
        else acc
      | none => (aset kv.1 kv.2 acc.1, true)) acc
    (r.2 = true) ∨ (r = acc) := by
  induction upd with
  | nil => intro acc; right; rfl
  | cons kv t ih =>
    intro acc
    simp only [List.foldl_cons]
    cases hl : alookup kv.1 acc.1 with
    | none =>
      simp only
      rcases ih (aset kv.1 kv.2 acc.1, true) with h | h
      · left; exact h
      · left; rw [h]
    | some pw =>
      simp only
      by_cases h0 : kv.2 = 0
      · simp only [h0, if_true]
        rcases ih (adel kv.1 acc.1, true) with h | h
        · left; exact h
        · left; rw [h]
      · by_cases h1 : pw = kv.2
        · simp only [h0, if_false, ne_eq, h1, not_true_eq_false]
          exact ih acc
        · simp only [h0, if_false, ne_eq, h1, not_false_eq_true, if_true]
          rcases ih (aset kv.1 kv.2 acc.1, true) with h | h
          · left; exact h
          · left; rw [h]


end ExoVerif.Oracle
