import ExoVerif.Model.Oracle
/-! Helper lemmas for C12/C13/C14 (oracle rounds, admission, restart). Core Lean only. -/
namespace ExoVerif.Oracle

/-! ### association lists -/

theorem alookup_aset_same {κ α} [DecidableEq κ] (k : κ) (v : α) (l : List (κ × α)) :
    alookup k (aset k v l) = some v := by
  induction l with
  | nil => simp [aset, alookup]
  | cons h t ih =>
    obtain ⟨k', v'⟩ := h
    by_cases hk : k' = k
    · simp [aset, alookup, hk]
    · simp [aset, alookup, hk, ih]

theorem alookup_aset_other {κ α} [DecidableEq κ] (k k2 : κ) (v : α) (l : List (κ × α)) (h : k2 ≠ k) :
    alookup k2 (aset k v l) = alookup k2 l := by
  induction l with
  | nil => simp [aset, alookup, Ne.symm h]
  | cons hd t ih =>
    obtain ⟨k', v'⟩ := hd
    by_cases hk : k' = k
    · subst hk
      simp [aset, alookup, Ne.symm h]
    · by_cases hk2 : k' = k2
      · subst hk2
        simp [aset, alookup, hk]
      · simp [aset, alookup, hk, hk2, ih]

/-! ### the sorted list behind `median` -/

def leI (a b : Int) : Bool := decide (a ≤ b)

theorem leI_trans (a b c : Int) : leI a b = true → leI b c = true → leI a c = true := by
  simp only [leI, decide_eq_true_eq]; omega

theorem leI_total (a b : Int) : (leI a b || leI b a) = true := by
  simp only [leI, Bool.or_eq_true, decide_eq_true_eq]; omega

def sorted (l : List Int) : List Int := l.mergeSort (fun a b => decide (a ≤ b))

theorem sorted_perm (l : List Int) : (sorted l).Perm l := List.mergeSort_perm l _

theorem sorted_pairwise (l : List Int) : (sorted l).Pairwise (fun a b => leI a b = true) :=
  List.pairwise_mergeSort (le := leI) leI_trans leI_total l

theorem sorted_eq_of_perm {l1 l2 : List Int} (h : l1.Perm l2) : sorted l1 = sorted l2 := by
  apply List.Perm.eq_of_pairwise (le := fun a b => leI a b = true) _ (sorted_pairwise l1) (sorted_pairwise l2)
  · exact (sorted_perm l1).trans (h.trans (sorted_perm l2).symm)
  · intro a b _ _ hab hba
    simp only [leI, decide_eq_true_eq] at hab hba
    omega

theorem median_eq (l : List Int) : median l =
    (let s := sorted l
     let n := s.length
     if n % 2 == 1 then s.getD (n / 2) 0 else (s.getD (n / 2) 0 + s.getD (n / 2 - 1) 0) / 2) := rfl

theorem sorted_length (l : List Int) : (sorted l).length = l.length := (sorted_perm l).length_eq

theorem sorted_getD_mem (l : List Int) (i : Nat) (h : i < l.length) : (sorted l).getD i 0 ∈ l := by
  have hi : i < (sorted l).length := by rw [sorted_length]; exact h
  have : (sorted l).getD i 0 = (sorted l)[i] := by simp [List.getD, List.getElem?_eq_getElem hi]
  rw [this]
  exact (sorted_perm l).mem_iff.mp (List.getElem_mem hi)

/-! ### stores -/

/-- every stored record sits under its own round id (true of genesis loading via SetPrices and
preserved by every write path). -/
def StoreWf (t : TokenStore) : Prop := ∀ k p, alookup k t.rounds = some p → p.roundID = k

theorem alookup_adel_other {κ α} [DecidableEq κ] (k k2 : κ) (l : List (κ × α)) (h : k2 ≠ k) :
    alookup k2 (adel k l) = alookup k2 l := by
  induction l with
  | nil => simp [adel, alookup]
  | cons hd t ih =>
    obtain ⟨k', v'⟩ := hd
    by_cases hk : k' = k
    · subst hk
      simp [adel, alookup, Ne.symm h]
    · by_cases hk2 : k' = k2
      · subst hk2
        simp [adel, alookup, hk]
      · simp [adel, alookup, hk, hk2, ih]

theorem append_fail (t : TokenStore) (m : Nat) (p : PriceTR) (h : (t.append m p).2 = false) :
    (t.append m p).1 = t := by
  unfold TokenStore.append at h ⊢
  by_cases hn : t.nextRoundID = p.roundID
  · simp [hn] at h
  · simp [hn]

theorem append_next (t : TokenStore) (m : Nat) (p : PriceTR) :
    (t.append m p).1.nextRoundID = t.nextRoundID + (if (t.append m p).2 then 1 else 0) := by
  unfold TokenStore.append
  by_cases hn : t.nextRoundID = p.roundID
  · simp only [hn, ne_eq, not_true_eq_false, if_false, if_true]
    simp [TokenStore.nextRoundID]
  · simp [hn]

end ExoVerif.Oracle
