import ExoVerif.Model.OracleNil
import ExoVerif.Proofs.OracleHistAgg
/-!
Proofs about the nil-aware layer of the oracle model (`Model/OracleNil.lean`). Core Lean only.

1. the layer IS the model of `Model/Oracle.lean` wherever no aggregation meets a nil slot (`aggregateN_eq`,
   `fillPriceN_eq`, `createPriceN_eq`, `deliverTxN_eq`, `runBlocksN_eq`);
2. the State-level run over `deliverTxN` (`runBlocksN`), and the invariant behind the two `Median` index sites:
   every report of every aggregator held in memory has at least one slot (`SlotsNE`), along every history — so no
   `Median` call ever sees an empty list (`runBlocksN_never_empty_median`);
3. a panic inside `Median` is a rejected transaction (`deliverTxN_failed_store`).
-/
namespace ExoVerif.Oracle

/-! ## 1. agreement with the model without nil slots -/

theorem median_singleton (v : Int) : median [v] = v := by
  simp [median]

theorem medianN_some (l : List (Option Int)) (hne : l ≠ []) (hall : ∀ x ∈ l, x.isSome = true) :
    medianN l = .val (some (median (l.map (·.getD 0)))) := by
  match l, hne, hall with
  | [x], _, h =>
    cases x with
    | none => simp at h
    | some v => simp [medianN, median_singleton]
  | x :: y :: t, _, h =>
    have hany : (x :: y :: t).any (·.isNone) = false := by
      rw [List.any_eq_false]
      intro z hz
      have := h z hz
      cases z with
      | none => simp at this
      | some _ => simp
    simp only [medianN, hany, Bool.false_eq_true, if_false]

/-- a report the model of `Model/Oracle.lean` covers: it already has its price, or it has at least one slot and
every slot has a price -/
def Report.NilFree (r : Report) : Prop :=
  r.price.isSome = true ∨ (r.prices ≠ [] ∧ ∀ kv ∈ r.prices, kv.2.price.isSome = true)

theorem Report.aggregateN_eq (r : Report) (h : r.NilFree) : r.aggregateN = .val (some r.aggregate) := by
  unfold Report.aggregateN Report.aggregate
  cases hp : r.price with
  | some p => rfl
  | none =>
    simp only
    rcases h with h | ⟨hne, hall⟩
    · rw [hp] at h; simp at h
    · rw [medianN_some]
      · simp only [List.map_map]
        rfl
      · intro he; exact hne (List.map_eq_nil_iff.mp he)
      · intro x hx
        obtain ⟨kv, hkv, rfl⟩ := List.mem_map.mp hx
        exact hall kv hkv

theorem aggReportsN_eq (l : List Report) (h : ∀ r ∈ l, r.NilFree) :
    aggReportsN l = (l.map (fun r => { r with price := some r.aggregate }), none) := by
  induction l with
  | nil => rfl
  | cons r rs ih =>
    unfold aggReportsN
    rw [Report.aggregateN_eq r (h r (by simp)), ih (fun x hx => h x (by simp [hx]))]
    rfl

def Aggregator.NilFree (a : Aggregator) : Prop := a.reports ≠ [] ∧ ∀ r ∈ a.reports, r.NilFree

/-- aggregator.go: aggregate — without nil slots the nil-aware aggregate is the model's aggregate and does not panic -/
theorem Aggregator.aggregateN_eq (a : Aggregator) (x y : Int)
    (h : a.final = none → (exceedsThreshold a.reportPower a.total x y && decide (a.ds.length > 0)) = true → a.NilFree) :
    a.aggregateN x y = (a.aggregate x y, none) := by
  unfold Aggregator.aggregateN Aggregator.aggregate
  by_cases hf : a.final.isSome = true
  · simp only [hf, if_true]
  · have hfn : a.final = none := by
      cases hfa : a.final with
      | none => rfl
      | some v => rw [hfa] at hf; simp at hf
    simp only [hf, Bool.false_eq_true, if_false]
    by_cases hc : (exceedsThreshold a.reportPower a.total x y && decide (a.ds.length > 0)) = true
    · obtain ⟨hne, hall⟩ := h hfn hc
      simp only [hc, if_true]
      rw [aggReportsN_eq a.reports hall]
      simp only
      rw [medianN_some]
      · simp only [List.map_map]
        rfl
      · intro he
        exact hne (List.map_eq_nil_iff.mp (List.map_eq_nil_iff.mp he))
      · intro z hz
        simp only [List.map_map, List.mem_map, Function.comp] at hz
        obtain ⟨r, _, rfl⟩ := hz
        rfl
    · simp only [hc, Bool.false_eq_true, if_false]

/-- the aggregator `AggregatorContext.FillPrice` hands to `aggregate()` when it processes `m` -/
def Agc.aggAt (g : Agc) (p : Params) (m : Msg) : Option Aggregator :=
  (((alookup m.feederID g.workers).getD (newWorker p g m.feederID)).run p ((alookup m.creator g.vals).getD 0) m).1.a

/-- processing `m` meets no nil slot -/
def AgreeFill (g : Agc) (p : Params) (m : Msg) : Prop :=
  ∀ a, g.aggAt p m = some a → a.aggregateN p.thA p.thB = (a.aggregate p.thA p.thB, none)

theorem Agc.fillPriceN_eq (g : Agc) (p : Params) (m : Msg) (h : AgreeFill g p m) :
    g.fillPriceN p m = ((g.fillPrice p m).1, .res (g.fillPrice p m).2) := by
  unfold AgreeFill Agc.aggAt at h
  unfold Agc.fillPriceN Agc.fillPrice
  simp only
  generalize (alookup m.feederID g.workers).getD (newWorker p g m.feederID) = w at h ⊢
  by_cases hs : w.sealed = true
  · simp only [hs, if_true]
  · have hs' : w.sealed = false := by simpa using hs
    simp only [hs', Bool.false_eq_true, if_false]
    rcases hr : w.run p ((alookup m.creator g.vals).getD 0) m with ⟨w1, filled⟩
    rw [hr] at h
    simp only at h ⊢
    by_cases hfl : filled.length > 0
    · simp only [hfl, if_true]
      cases ha : w1.a with
      | none => rfl
      | some a =>
        simp only
        rw [h a ha]
        simp only
        cases hfin : (a.aggregate p.thA p.thB).final with
        | some fp => rfl
        | none => rfl
    · simp only [hfl, if_false]

/-- `m` is processed without meeting a nil slot, whatever context `GetAggregatorContext` returns -/
def AgreeMsg (s : State) (m : Msg) : Prop :=
  ∀ s1 g p, getAgc s = some s1 → s1.agc = some g → g.params = some p → g.checkMsg p m = none → AgreeFill g p m

theorem createPriceN_eq (s : State) (m : Msg) (h : AgreeMsg s m) : createPriceN s m = createPrice s m := by
  unfold createPriceN createPrice
  by_cases hts : (!(checkTimestamp s.blockTime m)) = true
  · simp only [hts, if_true]
  · simp only [hts, Bool.false_eq_true, if_false]
    cases hg : getAgc s with
    | none => rfl
    | some s1 =>
      simp only
      cases hg1 : s1.agc with
      | none => rfl
      | some g =>
        simp only
        cases hp : g.params with
        | none => rfl
        | some p =>
          simp only
          cases hc : g.checkMsg p m with
          | some e => rfl
          | none =>
            simp only
            rw [Agc.fillPriceN_eq g p m (h s1 g p hg hg1 hp hc)]
            rcases hf : g.fillPrice p m with ⟨g', res⟩
            cases res with
            | ignored => rfl
            | cached it => rfl
            | final it => rfl

/-- the messages of a transaction are processed without meeting a nil slot -/
def AgreeMsgs : State → List Msg → Prop
  | _, [] => True
  | s, m :: ms => AgreeMsg s m ∧ ((createPrice s m).2 = .ok → AgreeMsgs (createPrice s m).1 ms)

theorem runMsgsN_eq (ms : List Msg) : ∀ (s : State) (i : Nat), AgreeMsgs s ms → runMsgsN s i ms = runMsgs s i ms := by
  induction ms with
  | nil => intro s i _; rfl
  | cons m ms ih =>
    intro s i h
    unfold runMsgsN runMsgs
    rw [createPriceN_eq s m h.1]
    rcases hcp : createPrice s m with ⟨s', out⟩
    cases out with
    | ok =>
      simp only
      apply ih
      have := h.2
      rw [hcp] at this
      exact this rfl
    | err e => rfl

def AgreeTx (s : State) (tx : Tx) : Prop :=
  ∀ st, anteHandle s tx = .ok st → AgreeMsgs { s with store := st } tx.msgs

/-- DeliverTx: the nil-aware layer is the model wherever no aggregation meets a nil slot -/
theorem deliverTxN_eq (s : State) (tx : Tx) (h : AgreeTx s tx) : deliverTxN s tx = deliverTx s tx := by
  unfold deliverTxN deliverTx
  cases ha : anteHandle s tx with
  | error why => rfl
  | ok st =>
    simp only
    rw [runMsgsN_eq tx.msgs _ 0 (h st ha)]
    rfl

/-! ## 2. the State-level run over the nil-aware DeliverTx -/

def runTxsN : State → List Tx → State × List TxOut
  | s, [] => (s, [])
  | s, tx :: txs =>
    let r := deliverTxN s tx
    let rs := runTxsN r.1 txs
    (rs.1, r.2 :: rs.2)

/-- one block: begin, the transactions, EndBlock. none = EndBlock panics. -/
def runBlockN (s : State) (b : Block) : Option (State × List TxOut) :=
  let r := runTxsN (beginBlock s b.blockTime) b.txs
  match endBlock r.1 b.updates with
  | some s2 => some (s2, r.2)
  | none => none

def runBlocksN : State → List Block → Option (State × List (List TxOut))
  | s, [] => some (s, [])
  | s, b :: bs =>
    match runBlockN s b with
    | none => none
    | some r =>
      match runBlocksN r.1 bs with
      | none => none
      | some rs => some (rs.1, r.2 :: rs.2)

def AgreeTxs : State → List Tx → Prop
  | _, [] => True
  | s, tx :: txs => AgreeTx s tx ∧ AgreeTxs (deliverTx s tx).1 txs

theorem runTxsN_eq (txs : List Tx) : ∀ (s : State), AgreeTxs s txs → runTxsN s txs = runTxs s txs := by
  induction txs with
  | nil => intro s _; rfl
  | cons tx txs ih =>
    intro s h
    simp only [runTxsN, runTxs]
    rw [deliverTxN_eq s tx h.1, ih _ h.2]

/-- every transaction of every block is processed without meeting a nil slot -/
def AgreeBlocks : State → List Block → Prop
  | _, [] => True
  | s, b :: bs => AgreeTxs (beginBlock s b.blockTime) b.txs ∧ (∀ r, runBlock s b = some r → AgreeBlocks r.1 bs)

theorem runBlocksN_eq (bs : List Block) : ∀ (s : State), AgreeBlocks s bs → runBlocksN s bs = runBlocks s bs := by
  induction bs with
  | nil => intro s _; rfl
  | cons b bs ih =>
    intro s h
    have hb : runBlockN s b = runBlock s b := by
      unfold runBlockN runBlock
      rw [runTxsN_eq b.txs _ h.1]
      rfl
    simp only [runBlocksN, runBlocks, hb]
    cases hr : runBlock s b with
    | none => rfl
    | some r =>
      simp only
      rw [ih r.1 (h.2 r hr)]
      rfl

/-! ### the invariant behind the two index sites of `Median`: every report has a slot

aggregator.go: fillPrice creates a validator's report together with its first slot: `worker.do` calls it only with
a non-empty `list4Aggregator`, every source of which has at least one price (`sanityCheck`, kept by the filter);
slots are never removed. -/

def SlotsNE (a : Aggregator) : Prop := ∀ r ∈ a.reports, r.prices ≠ []

theorem aset_ne_nil {κ α} [DecidableEq κ] (k : κ) (v : α) (l : List (κ × α)) : aset k v l ≠ [] := by
  cases l with
  | nil => simp [aset]
  | cons hd t =>
    obtain ⟨k', v'⟩ := hd
    unfold aset
    split <;> simp

theorem ne_nil_of_alookup {κ α} [DecidableEq κ] (k : κ) (v : α) (l : List (κ × α)) (h : alookup k l = some v) :
    l ≠ [] := by
  intro he; rw [he] at h; simp [alookup] at h

theorem fillSlots_ne (ds : List (Nat × String)) (reports : List Report) (srcs : List PSource) :
    ∀ (rep : Report), (rep.prices ≠ [] ∨ (srcs ≠ [] ∧ ∀ ps ∈ srcs, ps.prices ≠ [])) →
      (fillSlots ds reports rep srcs).prices ≠ [] := by
  induction srcs with
  | nil =>
    intro rep h
    rcases h with h | ⟨h, _⟩
    · exact h
    · exact absurd rfl h
  | cons ps rest ih =>
    intro rep h
    unfold fillSlots
    split
    · rename_i hp
      rcases h with h | ⟨_, h⟩
      · exact ih rep (Or.inl h)
      · exact absurd hp (h ps (by simp))
    · split
      · split
        · exact ih _ (Or.inl (aset_ne_nil _ _ _))
        · exact ih _ (Or.inl (aset_ne_nil _ _ _))
      · split
        · exact ih _ (Or.inl (aset_ne_nil _ _ _))
        · rename_i cur hc
          exact ih rep (Or.inl (ne_nil_of_alookup _ _ _ hc))

theorem mem_replaceReport (rep : Report) (l : List Report) (x : Report) (h : x ∈ replaceReport rep l) :
    x = rep ∨ x ∈ l := by
  induction l with
  | nil => simp [replaceReport] at h
  | cons r t ih =>
    unfold replaceReport at h
    by_cases hv : r.validator = rep.validator
    · simp only [hv, if_true, List.mem_cons] at h
      rcases h with h | h
      · exact Or.inl h
      · exact Or.inr (by simp [h])
    · simp only [hv, if_false, List.mem_cons] at h
      rcases h with h | h
      · exact Or.inr (by simp [h])
      · rcases ih h with h1 | h1
        · exact Or.inl h1
        · exact Or.inr (by simp [h1])

theorem replaceReport_append_fresh (rep r0 : Report) (l : List Report) (hl : ∀ x ∈ l, ¬ x.validator = rep.validator)
    (h0 : r0.validator = rep.validator) : replaceReport rep (l ++ [r0]) = l ++ [rep] := by
  induction l with
  | nil => simp [replaceReport, h0]
  | cons r t ih =>
    have hr : ¬ r.validator = rep.validator := hl r (by simp)
    simp only [List.cons_append, replaceReport, hr, if_false]
    rw [ih (fun x hx => hl x (by simp [hx]))]

theorem replaceReport_ne_nil (rep : Report) (l : List Report) (h : l ≠ []) : replaceReport rep l ≠ [] := by
  cases l with
  | nil => exact absurd rfl h
  | cons r t => unfold replaceReport; split <;> simp

/-- aggregator.go: fillPrice, called with a non-empty source list whose sources all carry a price -/
theorem Aggregator.fillPrice_slots (a : Aggregator) (srcs : List PSource) (v : Nat) (power : Int) (h : SlotsNE a)
    (hs : srcs ≠ [] ∧ ∀ ps ∈ srcs, ps.prices ≠ []) :
    SlotsNE (a.fillPrice srcs v power) ∧ (a.fillPrice srcs v power).reports ≠ [] := by
  unfold Aggregator.fillPrice
  cases hf : a.reports.find? (fun r => decide (r.validator = v)) with
  | some r =>
    simp only
    have hmem : r ∈ a.reports := List.mem_of_find?_eq_some hf
    constructor
    · intro x hx
      rcases mem_replaceReport _ _ x hx with e | e
      · rw [e]; exact fillSlots_ne _ _ _ _ (Or.inr hs)
      · exact h x e
    · exact replaceReport_ne_nil _ _ (List.ne_nil_of_mem hmem)
  | none =>
    simp only
    have hnone : ∀ x ∈ a.reports, ¬ x.validator = v := by
      intro x hx
      have := List.find?_eq_none.mp hf x hx
      simpa using this
    have hfr := fillSlots_frame a.ds (a.reports ++ [{ validator := v, price := none, prices := [], power := power }]) srcs
      { validator := v, price := none, prices := [], power := power }
    rw [replaceReport_append_fresh _ _ _ (by rw [hfr.1]; exact hnone) (by rw [hfr.1])]
    constructor
    · intro x hx
      rcases List.mem_append.mp hx with e | e
      · exact h x e
      · simp only [List.mem_singleton] at e
        rw [e]; exact fillSlots_ne _ _ _ _ (Or.inr hs)
    · simp

theorem confirmReport_slots (c : Confirmed) (r : Report) (h : r.prices ≠ []) : (confirmReport c r).prices ≠ [] := by
  unfold confirmReport
  split
  · exact h
  · split
    · exact aset_ne_nil _ _ _
    · exact h

theorem Aggregator.confirmDS_slots (confs : List Confirmed) : ∀ (a : Aggregator), SlotsNE a → a.reports ≠ [] →
    SlotsNE (a.confirmDS confs) ∧ (a.confirmDS confs).reports ≠ [] := by
  induction confs with
  | nil => intro a h hne; exact ⟨h, hne⟩
  | cons c cs ih =>
    intro a h hne
    unfold Aggregator.confirmDS
    simp only
    split
    · apply ih
      · intro x hx
        simp only [List.mem_map] at hx
        obtain ⟨r, hr, rfl⟩ := hx
        exact confirmReport_slots c r (h r hr)
      · simp only [ne_eq, List.map_eq_nil_iff]; exact hne
    · exact ih a h hne

/-! ### what reaches the filter, and what the filter hands on (context.go: sanityCheck; filter.go) -/

theorem sanitySources_nonempty (p : Params) (srcs : List PSource)
    (h : sanitySources p srcs = none) : ∀ ps ∈ srcs, ps.prices ≠ [] := by
  induction srcs with
  | nil => intro ps hps; cases hps
  | cons a rest ih =>
    intro ps hps
    unfold sanitySources at h
    by_cases h0 : a.prices.length = 0
    · simp [h0] at h
    · have hne : a.prices ≠ [] := by
        intro he; apply h0; rw [he]; rfl
      have hrest : sanitySources p rest = none := by
        revert h
        simp only [h0]
        repeat' split
        all_goals first | (intro h; exact h) | (intro h; cases h)
      rcases List.mem_cons.mp hps with rfl | hm
      · exact hne
      · exact ih hrest ps hm

/-- a message that passes sanityCheck has at least one source, and every source at least one price -/
theorem sanityCheck_nonempty (g : Agc) (p : Params) (m : Msg)
    (h : g.sanityCheck p m = none) : m.prices ≠ [] ∧ ∀ ps ∈ m.prices, ps.prices ≠ [] := by
  unfold Agc.sanityCheck at h
  split at h
  · cases h
  · split at h
    · cases h
    · rename_i _ hl
      refine ⟨?_, sanitySources_nonempty p m.prices h⟩
      intro he; apply hl; rw [he]; rfl

theorem checkMsg_sanity (g : Agc) (p : Params) (m : Msg) (h : g.checkMsg p m = none) : g.sanityCheck p m = none := by
  unfold Agc.checkMsg at h
  cases hs : g.sanityCheck p m with
  | none => rfl
  | some e => rw [hs] at h; cases h

/-- the filter keeps that property: every source it hands to the calculator and to the aggregator (and that the
replay log stores) has at least one price -/
theorem addPSource_nonempty (f : Filter) (v : Nat) (srcs : List PSource)
    (h : ∀ ps ∈ srcs, ps.prices ≠ []) :
    (∀ ps ∈ (f.addPSource v srcs).2.1, ps.prices ≠ []) ∧ (∀ ps ∈ (f.addPSource v srcs).2.2, ps.prices ≠ []) := by
  fun_induction Filter.addPSource f v srcs
  case case1 => simp
  case case2 ps rest hp _ _ _ _ _ => exact absurd hp (h ps (by simp))
  case case3 ps rest _ _ _ _ _ _ _ kept _ _ _ c a hx hk tmp ih =>
    have hr := ih (fun q hq => h q (by simp [hq]))
    rw [hx] at hr
    have hkept : tmp.prices ≠ [] := by
      intro he
      have : kept = [] := he
      rw [this] at hk; simp at hk
    constructor
    · intro q hq
      rcases List.mem_cons.mp hq with rfl | hm
      · exact hkept
      · exact hr.1 q hm
    · intro q hq
      rcases List.mem_cons.mp hq with rfl | hm
      · exact hkept
      · exact hr.2 q hm
  case case4 ps rest _ _ _ _ _ _ _ _ _ _ _ c a hx _ ih =>
    have hr := ih (fun q hq => h q (by simp [hq]))
    rw [hx] at hr
    exact hr
  case case5 ps rest p0 tl hp _ _ c a hx ih =>
    have hr := ih (fun q hq => h q (by simp [hq]))
    rw [hx] at hr
    constructor
    · exact hr.1
    · intro q hq
      rcases List.mem_cons.mp hq with rfl | hm
      · exact h _ (by simp)
      · exact hr.2 q hm

theorem filtrate_nonempty (f : Filter) (m : Msg) (h : ∀ ps ∈ m.prices, ps.prices ≠ []) :
    ∀ ps ∈ (f.filtrate m).2.2, ps.prices ≠ [] := by
  unfold Filter.filtrate
  simp only
  split
  · exact (addPSource_nonempty _ _ _ h).2
  · intro ps hps; cases hps

/-! ### worker.go: do -/

/-- after `do`, every report of the worker's aggregator has a slot; and if something was filled in, the
aggregator has a report -/
theorem Worker.run_slots (w : Worker) (p : Params) (power : Int) (m : Msg)
    (h : ∀ a, w.a = some a → SlotsNE a) (hm : ∀ ps ∈ m.prices, ps.prices ≠ []) :
    ∀ a2, (w.run p power m).1.a = some a2 →
      SlotsNE a2 ∧ ((w.run p power m).2.length > 0 → a2.reports ≠ []) := by
  intro a2 h2
  unfold Worker.run at h2 ⊢
  cases hf : w.f with
  | none => simp only [hf] at h2 ⊢; exact ⟨h a2 h2, by simp⟩
  | some f =>
    cases hc : w.c with
    | none => simp only [hf, hc] at h2 ⊢; exact ⟨h a2 h2, by simp⟩
    | some c =>
      cases ha : w.a with
      | none => simp only [hf, hc, ha] at h2 ⊢; exact ⟨h a2 (by rw [ha]; exact h2), by simp⟩
      | some a =>
        simp only [hf, hc, ha] at h2 ⊢
        have hok := h a ha
        by_cases hl : (f.filtrate m).2.2.length > 0
        · simp only [hl, if_true, Option.some.injEq] at h2 ⊢
          have hne : (f.filtrate m).2.2 ≠ [] := by
            intro he; rw [he] at hl; simp at hl
          have h1 := Aggregator.fillPrice_slots a (f.filtrate m).2.2 m.creator power hok
            ⟨hne, filtrate_nonempty f m hm⟩
          rw [← h2]
          split
          · exact ⟨(Aggregator.confirmDS_slots _ _ h1.1 h1.2).1, fun _ => (Aggregator.confirmDS_slots _ _ h1.1 h1.2).2⟩
          · exact ⟨h1.1, fun _ => h1.2⟩
        · simp only [hl, if_false, Option.some.injEq] at h2 ⊢
          rw [← h2]
          exact ⟨hok, fun hx => hx.elim⟩

/-! ### aggregator.go: aggregate never hands `Median` an empty list -/

theorem medianN_empty (l : List (Option Int)) (h : medianN l = .emptyIndex) : l = [] := by
  match l, h with
  | [], _ => rfl
  | [x], h => simp [medianN] at h
  | x :: y :: t, h =>
    simp only [medianN] at h
    split at h <;> cases h

theorem Report.aggregateN_not_empty (r : Report) (h : r.prices ≠ []) : r.aggregateN ≠ .emptyIndex := by
  unfold Report.aggregateN
  split
  · intro he; cases he
  · intro he
    have := medianN_empty _ he
    exact h (List.map_eq_nil_iff.mp this)

theorem aggReportsN_slots (l : List Report) :
    (aggReportsN l).1.map (·.prices) = l.map (·.prices) ∧
    ((∀ r ∈ l, r.prices ≠ []) → (aggReportsN l).2 ≠ some "median-empty") := by
  induction l with
  | nil => exact ⟨rfl, fun _ => by simp [aggReportsN]⟩
  | cons r rs ih =>
    unfold aggReportsN
    cases hr : r.aggregateN with
    | val v =>
      simp only [List.map_cons, ih.1]
      exact ⟨trivial, fun h => ih.2 (fun x hx => h x (by simp [hx]))⟩
    | nilDeref => exact ⟨rfl, fun _ => by simp⟩
    | emptyIndex =>
      refine ⟨rfl, fun h => ?_⟩
      exact absurd hr (Report.aggregateN_not_empty r (h r (by simp)))

theorem slots_of_map_eq (l l' : List Report) (h : l'.map (·.prices) = l.map (·.prices)) (hl : ∀ r ∈ l, r.prices ≠ []) :
    ∀ r ∈ l', r.prices ≠ [] := by
  intro r hr
  have : r.prices ∈ l'.map (·.prices) := List.mem_map.mpr ⟨r, hr, rfl⟩
  rw [h] at this
  obtain ⟨r0, hr0, he⟩ := List.mem_map.mp this
  rw [← he]; exact hl r0 hr0

/-- aggregate(): the slots stay, and with a report present neither `Median` call gets an empty list -/
theorem Aggregator.aggregateN_slots (a : Aggregator) (x y : Int) (h : SlotsNE a) :
    SlotsNE (a.aggregateN x y).1 ∧ (a.reports ≠ [] → (a.aggregateN x y).2 ≠ some "median-empty") := by
  have hs := aggReportsN_slots a.reports
  have hl : ∀ r ∈ (aggReportsN a.reports).1, r.prices ≠ [] := slots_of_map_eq _ _ hs.1 h
  unfold Aggregator.aggregateN
  split
  · exact ⟨h, fun _ => by simp⟩
  · split
    · rcases hr : aggReportsN a.reports with ⟨rs, e⟩
      rw [hr] at hs hl
      simp only at hs hl
      cases e with
      | some why =>
        simp only
        exact ⟨hl, fun _ => hs.2 h⟩
      | none =>
        simp only
        cases hm : medianN (rs.map (·.price)) with
        | val v => exact ⟨hl, fun _ => by simp⟩
        | nilDeref => exact ⟨hl, fun _ => by simp⟩
        | emptyIndex =>
          refine ⟨hl, fun hne => ?_⟩
          have h1 := medianN_empty _ hm
          have h2 : rs = [] := List.map_eq_nil_iff.mp h1
          have h3 := hs.1
          rw [h2] at h3
          simp only [List.map_nil] at h3
          exact absurd (List.map_eq_nil_iff.mp h3.symm) hne
    · exact ⟨h, fun _ => by simp⟩

/-! ### a property of every aggregator held in memory: kept by SealRound / PrepareRoundEndBlock / EndBlock, which only
drop workers (the generic form of `sealRound_winv` … `endBlock_swinv`) -/

def WLP (P : Aggregator → Prop) (l : List (Nat × Worker)) : Prop := ∀ kw ∈ l, ∀ a, kw.2.a = some a → P a

def WP (P : Aggregator → Prop) (g : Agc) : Prop := WLP P g.workers

theorem WLP_aset (P : Aggregator → Prop) (k : Nat) (w : Worker) (l : List (Nat × Worker)) (h : WLP P l)
    (hw : ∀ a, w.a = some a → P a) : WLP P (aset k w l) := by
  intro kw hkw
  rcases mem_aset k w l kw hkw with e | e
  · rw [e]; exact hw
  · exact h kw e

theorem WLP_adel (P : Aggregator → Prop) (k : Nat) (l : List (Nat × Worker)) (h : WLP P l) : WLP P (adel k l) :=
  fun kw hkw => h kw (mem_adel k l kw hkw)

theorem sealOne_wp (P : Aggregator → Prop) (p : Params) (h : Nat) (force : Bool) (g : Agc) (fid : Nat) (hw : WP P g) :
    WP P (sealOne p h force g fid).1 := by
  unfold sealOne
  have hd1 : WLP P (adel fid g.workers) := WLP_adel P _ _ hw
  have hd2 : WLP P (adel fid (adel fid g.workers)) := WLP_adel P _ _ hd1
  cases alookup fid g.rounds with
  | none => exact hw
  | some r =>
    simp only
    by_cases h1 : r.status = Status.open
    · by_cases h2 : ((decide (((p.feeder? fid).getD default).endBlock > 0) && decide (h ≥ ((p.feeder? fid).getD default).endBlock)) || decide (h - r.basedBlock ≥ p.maxNonce) || force) = true
      · simp only [h1, h2, if_true]
        repeat' split
        all_goals first | exact hd1 | exact hd2
      · simp only [h1, h2, if_true, Bool.false_eq_true, if_false]
        repeat' split
        all_goals first | exact hw | exact hd1
    · simp only [h1, if_false]
      repeat' split
      all_goals first | exact hw | exact hd1

theorem sealRound_wp (P : Aggregator → Prop) (g : Agc) (p : Params) (h : Nat) (force : Bool) (hw : WP P g) :
    WP P (g.sealRound p h force).1 := by
  rw [sealRound_eq]
  generalize (g.rounds.map (·.1)) = l
  have key : ∀ (l : List Nat) (acc : Agc × List Nat × List Nat), WP P acc.1 →
      WP P (l.foldl (sealStep p h force) acc).1 := by
    intro l
    induction l with
    | nil => intro acc ha; exact ha
    | cons fid t ih =>
      intro acc ha
      rw [List.foldl_cons]
      apply ih
      exact sealOne_wp P p h force acc.1 fid ha
  exact key l (g, [], []) hw

theorem prepareOne_wp (P : Aggregator → Prop) (p : Params) (block : Nat) (g : Agc) (fid : Nat) (f : Feeder) (hw : WP P g) :
    WP P (prepareOne p block g fid f).1 := by
  unfold prepareOne
  have h1 : WLP P (adel fid g.workers) := WLP_adel P _ _ hw
  repeat' split
  all_goals first | exact hw | exact h1

theorem prepareLoop_wp (P : Aggregator → Prop) (p : Params) (block : Nat) (fs : List Feeder) : ∀ (g : Agc) (i : Nat) (acc : List Nat),
    WP P g → WP P (prepareLoop p block g i fs acc).1 := by
  induction fs with
  | nil => intro g i acc h; exact h
  | cons f fs ih =>
    intro g i acc h
    unfold prepareLoop
    by_cases hi : i = 0
    · simp only [hi, if_true]; exact ih _ _ _ h
    · simp only [hi, if_false]
      exact ih _ _ _ (prepareOne_wp P p block g i f h)

theorem prepareRound_wp (P : Aggregator → Prop) (g : Agc) (block : Nat) (hw : WP P g) : WP P (g.prepareRound block).1 := by
  unfold Agc.prepareRound
  repeat' split
  · exact hw
  · exact hw
  · exact prepareLoop_wp P _ _ _ _ _ _ hw

/-- the State-level form -/
def SP (P : Aggregator → Prop) (s : State) : Prop := ∀ g, s.agc = some g → WP P g

theorem endTail_sp (P : Aggregator → Prop) (s : State) (g : Agc) (c : Cache) (updates : List (Nat × Int)) (force : Bool) (p : Params)
    (hw : WP P g) : SP P (endTail s g c updates force p) := by
  unfold endTail
  simp only
  intro g2 hg2
  simp only [Option.some.injEq] at hg2
  rw [← hg2]
  apply prepareRound_wp
  have hfr := endCommit_frame (endStore1 s.store updates (g.sealRound p s.height force).2.2 (g.sealRound p s.height force).2.1
    ((g.sealRound p s.height force).1.vals.map (·.1)) p.maxSizePrices) (g.sealRound p s.height force).1 c p s.height
  intro kw hkw
  rw [hfr.2.2.2.2.1] at hkw
  exact sealRound_wp P g p s.height force hw kw hkw

theorem endBlock_sp (P : Aggregator → Prop) (p : Params) (s s' : State) (updates : List (Nat × Int)) (hpf : PF p s) (h : SP P s)
    (he : endBlock s updates = some s') : SP P s' := by
  obtain ⟨g, hg, hp⟩ := hpf.agc
  have hf := endVals_frame g s.cacheD updates
  rw [endBlock_eq s updates g hg, hf.1, hp] at he
  simp only [Option.some.injEq] at he
  rw [← he]
  apply endTail_sp
  intro kw hkw
  rw [hf.2.2.1] at hkw
  exact h g hg kw hkw

/-! ### context.go: FillPrice -/

theorem wp_lookup (P : Aggregator → Prop) (g : Agc) (p : Params) (fid : Nat) (h : WP P g)
    (hnew : ∀ a, (newWorker p g fid).a = some a → P a) :
    ∀ a, ((alookup fid g.workers).getD (newWorker p g fid)).a = some a → P a := by
  cases hl : alookup fid g.workers with
  | some w =>
    simp only [Option.getD_some]
    exact h (fid, w) (alookup_mem fid w g.workers hl)
  | none =>
    simp only [Option.getD_none]
    exact hnew

theorem fillPriceN_params (g : Agc) (p : Params) (m : Msg) : (g.fillPriceN p m).1.params = g.params := by
  unfold Agc.fillPriceN
  simp only
  repeat' split
  all_goals rfl

/-- FillPrice keeps "every report has a slot" and never ends in the index panic of `Median`, for a message whose
sources all carry a price -/
theorem Agc.fillPriceN_slots (g : Agc) (p : Params) (m : Msg) (h : WP SlotsNE g) (hm : ∀ ps ∈ m.prices, ps.prices ≠ []) :
    WP SlotsNE (g.fillPriceN p m).1 ∧ (g.fillPriceN p m).2 ≠ .panicked "median-empty" := by
  have hw0 := wp_lookup SlotsNE g p m.feederID h (by
    intro a ha
    simp only [newWorker, Option.some.injEq] at ha
    rw [← ha]; intro r hr; cases hr)
  unfold Agc.fillPriceN
  simp only
  generalize (alookup m.feederID g.workers).getD (newWorker p g m.feederID) = w at hw0 ⊢
  have hl0 : WLP SlotsNE (aset m.feederID w g.workers) := WLP_aset _ _ _ _ h hw0
  by_cases hs : w.sealed = true
  · simp only [hs, if_true]; exact ⟨hl0, by simp⟩
  · have hs' : w.sealed = false := by simpa using hs
    simp only [hs', Bool.false_eq_true, if_false]
    have hrun := Worker.run_slots w p ((alookup m.creator g.vals).getD 0) m hw0 hm
    rcases hr : w.run p ((alookup m.creator g.vals).getD 0) m with ⟨w1, filled⟩
    rw [hr] at hrun
    simp only at hrun ⊢
    by_cases hfl : filled.length > 0
    · simp only [hfl, if_true]
      cases ha : w1.a with
      | none =>
        simp only
        exact ⟨WLP_aset _ _ _ _ hl0 (fun a h' => by rw [ha] at h'; cases h'), by simp⟩
      | some a =>
        simp only
        have hag := Aggregator.aggregateN_slots a p.thA p.thB (hrun a ha).1
        have hne := (hrun a ha).2 hfl
        rcases hagg : a.aggregateN p.thA p.thB with ⟨a', e⟩
        rw [hagg] at hag
        simp only at hag
        cases e with
        | some why =>
          simp only
          refine ⟨WLP_aset _ _ _ _ hl0 ?_, ?_⟩
          · intro a2 h2
            simp only [Option.some.injEq] at h2
            rw [← h2]; exact hag.1
          · intro he
            simp only [FillResN.panicked.injEq] at he
            exact hag.2 hne (by rw [he])
        | none =>
          simp only
          cases hfin : a'.final with
          | some fp =>
            simp only
            exact ⟨WLP_aset _ _ _ _ hl0 (fun a2 h2 => by cases h2), by simp⟩
          | none =>
            simp only
            refine ⟨WLP_aset _ _ _ _ hl0 ?_, by simp⟩
            intro a2 h2
            simp only [Option.some.injEq] at h2
            rw [← h2]; exact hag.1
    · simp only [hfl, if_false]
      exact ⟨WLP_aset _ _ _ _ hl0 (fun a2 h2 => (hrun a2 h2).1), by simp⟩

/-! ### CreatePrice over the nil-aware FillPrice, case by case (as `createPrice_bad_ts` … `createPrice_fill`) -/

theorem createPriceN_bad_ts (s : State) (m : Msg) (h : checkTimestamp s.blockTime m = false) :
    createPriceN s m = (s, .err .formatInvalid) := by
  unfold createPriceN; simp [h]

theorem createPriceN_check_fail (s : State) (m : Msg) (g : Agc) (p : Params) (e : MsgErr)
    (hg : s.agc = some g) (hp : g.params = some p) (hts : checkTimestamp s.blockTime m = true)
    (hc : g.checkMsg p m = some e) :
    createPriceN s m = ({ s with cache := some s.cacheD }, .err e) := by
  unfold createPriceN
  simp [hts, getAgc, hg, hp, hc]

theorem createPriceN_fill (s : State) (m : Msg) (g : Agc) (p : Params)
    (hg : s.agc = some g) (hp : g.params = some p) (hts : checkTimestamp s.blockTime m = true)
    (hc : g.checkMsg p m = none) :
    createPriceN s m =
      match g.fillPriceN p m with
      | (g', .panicked why) => ({ s with cache := some s.cacheD, agc := some g' }, .err (.panic why))
      | (g', .res .ignored) => ({ s with cache := some s.cacheD, agc := some g' }, .err .ignored)
      | (g', .res (.cached it)) =>
        ({ s with agc := some g', cache := some { s.cacheD with msgs := s.cacheD.msgs ++ [it] } }, .ok)
      | (g', .res (.final it)) =>
        ({ s with agc := some g',
                  store := (s.store.setToken it.tokenID (finalTok (s.store.token it.tokenID) p.maxSizePrices it)).removeNonces
                    m.feederID (g'.vals.map (·.1)),
                  cache := some { s.cacheD with msgs := s.cacheD.msgs.filter (fun x => x.feederID ≠ m.feederID) } }, .ok) := by
  unfold createPriceN
  simp only [hts, Bool.not_true, Bool.false_eq_true, if_false, getAgc, hg, hp, hc]
  rcases hf : g.fillPriceN p m with ⟨g', res⟩
  cases res with
  | panicked why => simp [State.cacheD]
  | res r =>
    cases r with
    | ignored => simp [State.cacheD]
    | cached it => simp [State.cacheD]
    | final it => simp [State.cacheD, finalTok]

theorem sanitySources_panic (p : Params) (srcs : List PSource) (w : String)
    (h : sanitySources p srcs = some (.panic w)) : w = "source index" := by
  induction srcs with
  | nil => simp [sanitySources] at h
  | cons a rest ih =>
    unfold sanitySources at h
    repeat' split at h
    all_goals first | exact ih h | (simp only [Option.some.injEq, MsgErr.panic.injEq] at h; exact h.symm) | cases h

/-- the only panic `checkMsg` can end in is the source-index one of `IsValidSource` / `IsDeterministicSource` -/
theorem checkMsg_panic (g : Agc) (p : Params) (m : Msg) (w : String) (h : g.checkMsg p m = some (.panic w)) :
    w = "source index" := by
  unfold Agc.checkMsg at h
  cases hs : g.sanityCheck p m with
  | some e =>
    rw [hs] at h
    simp only [Option.some.injEq] at h
    rw [h] at hs
    unfold Agc.sanityCheck at hs
    repeat' split at hs
    all_goals first | exact sanitySources_panic _ _ _ hs | cases hs
  | none =>
    rw [hs] at h
    simp only at h
    repeat' split at h
    all_goals cases h

/-- every aggregator in memory has a slot in every report -/
def SNE (s : State) : Prop := SP SlotsNE s

/-- one message: the invariant is kept, the parameters stay fixed, and the outcome is never the index panic of `Median` -/
theorem createPriceN_sne (p : Params) (s : State) (m : Msg) (hpf : PF p s) (h : SNE s) :
    SNE (createPriceN s m).1 ∧ PF p (createPriceN s m).1 ∧ (createPriceN s m).2 ≠ .err (.panic "median-empty") ∧
    (createPriceN s m).1.height = s.height ∧ (createPriceN s m).1.blockTime = s.blockTime := by
  obtain ⟨g, hg, hp⟩ := hpf.agc
  have hcache : ∀ (s' : State), s'.cache = some s.cacheD ∨ (∃ ms, s'.cache = some { s.cacheD with msgs := ms }) →
      ∀ c, s'.cache = some c → c.pUpdate = true → c.params = some p := by
    intro s' hs' c hc hu
    rcases hs' with e | ⟨ms, e⟩
    · rw [e] at hc; simp only [Option.some.injEq] at hc; rw [← hc] at hu ⊢; exact hpf.cacheD hu
    · rw [e] at hc; simp only [Option.some.injEq] at hc; rw [← hc] at hu ⊢; exact hpf.cacheD hu
  by_cases hts : checkTimestamp s.blockTime m = true
  · cases hc : g.checkMsg p m with
    | some e =>
      rw [createPriceN_check_fail s m g p e hg hp hts hc]
      refine ⟨h, ⟨⟨g, hg, hp⟩, hcache _ (Or.inl rfl)⟩, ?_, rfl, rfl⟩
      intro he
      simp only [MsgOut.err.injEq] at he
      rw [he] at hc
      have := checkMsg_panic g p m _ hc
      simp at this
    | none =>
      rw [createPriceN_fill s m g p hg hp hts hc]
      have hm := (sanityCheck_nonempty g p m (checkMsg_sanity g p m hc)).2
      have hw := Agc.fillPriceN_slots g p m (h g hg) hm
      have hpar := fillPriceN_params g p m
      rcases hf : g.fillPriceN p m with ⟨g', res⟩
      rw [hf] at hw hpar
      simp only at hw hpar
      have hg' : g'.params = some p := by rw [hpar]; exact hp
      cases res with
      | panicked why =>
        refine ⟨?_, ⟨⟨g', rfl, hg'⟩, hcache _ (Or.inl rfl)⟩, ?_, rfl, rfl⟩
        · intro g2 hg2; cases hg2; exact hw.1
        · intro he
          simp only [MsgOut.err.injEq, MsgErr.panic.injEq] at he
          exact hw.2 (by rw [he])
      | res r =>
        cases r with
        | ignored =>
          refine ⟨?_, ⟨⟨g', rfl, hg'⟩, hcache _ (Or.inl rfl)⟩, by simp, rfl, rfl⟩
          intro g2 hg2; cases hg2; exact hw.1
        | cached it =>
          refine ⟨?_, ⟨⟨g', rfl, hg'⟩, hcache _ (Or.inr ⟨_, rfl⟩)⟩, by simp, rfl, rfl⟩
          intro g2 hg2; cases hg2; exact hw.1
        | final it =>
          refine ⟨?_, ⟨⟨g', rfl, hg'⟩, hcache _ (Or.inr ⟨_, rfl⟩)⟩, by simp, rfl, rfl⟩
          intro g2 hg2; cases hg2; exact hw.1
  · have hts' : checkTimestamp s.blockTime m = false := by simpa using hts
    rw [createPriceN_bad_ts s m hts']
    exact ⟨h, hpf, by simp, rfl, rfl⟩

theorem runMsgsN_sne (p : Params) (ms : List Msg) : ∀ (s : State) (i : Nat), PF p s → SNE s →
    SNE (runMsgsN s i ms).1 ∧ PF p (runMsgsN s i ms).1 ∧
    (∀ j, (runMsgsN s i ms).2 ≠ some (j, .panic "median-empty")) ∧
    (runMsgsN s i ms).1.height = s.height ∧ (runMsgsN s i ms).1.blockTime = s.blockTime := by
  induction ms with
  | nil => intro s i hpf h; exact ⟨h, hpf, by simp [runMsgsN], rfl, rfl⟩
  | cons m ms ih =>
    intro s i hpf h
    have h1 := createPriceN_sne p s m hpf h
    unfold runMsgsN
    rcases hcp : createPriceN s m with ⟨s', out⟩
    rw [hcp] at h1
    simp only at h1
    cases out with
    | ok =>
      simp only
      have h2 := ih s' (i + 1) h1.2.1 h1.1
      exact ⟨h2.1, h2.2.1, h2.2.2.1, h2.2.2.2.1.trans h1.2.2.2.1, h2.2.2.2.2.trans h1.2.2.2.2⟩
    | err e =>
      simp only
      refine ⟨h1.1, h1.2.1, ?_, h1.2.2.2.1, h1.2.2.2.2⟩
      intro j he
      simp only [Option.some.injEq, Prod.mk.injEq] at he
      exact h1.2.2.1 (by rw [he.2])

/-- "the outcome is not the index panic of `Median`" -/
def TxOut.notEmptyMedian (o : TxOut) : Prop := ∀ i, o ≠ .msg i (.panic "median-empty")

theorem deliverTxN_sne (p : Params) (s : State) (tx : Tx) (hpf : PF p s) (h : SNE s) :
    SNE (deliverTxN s tx).1 ∧ PF p (deliverTxN s tx).1 ∧ (deliverTxN s tx).2.notEmptyMedian ∧
    (deliverTxN s tx).1.height = s.height ∧ (deliverTxN s tx).1.blockTime = s.blockTime := by
  unfold deliverTxN
  cases ha : anteHandle s tx with
  | error why => exact ⟨h, hpf, fun i => by simp, rfl, rfl⟩
  | ok st =>
    simp only
    have h0 : PF p { s with store := st } := ⟨hpf.agc, hpf.cache⟩
    have h1 := runMsgsN_sne p tx.msgs { s with store := st } 0 h0 h
    rcases hr : runMsgsN { s with store := st } 0 tx.msgs with ⟨s2, r⟩
    rw [hr] at h1
    simp only at h1
    cases r with
    | none => exact ⟨h1.1, h1.2.1, fun i => by simp, h1.2.2.2.1, h1.2.2.2.2⟩
    | some ie =>
      obtain ⟨j, e⟩ := ie
      refine ⟨h1.1, ⟨h1.2.1.agc, h1.2.1.cache⟩, ?_, h1.2.2.2.1, h1.2.2.2.2⟩
      intro i he
      simp only [TxOut.msg.injEq] at he
      exact h1.2.2.1 j (by rw [he.2])

theorem runTxsN_sne (p : Params) (txs : List Tx) : ∀ (s : State), PF p s → SNE s →
    SNE (runTxsN s txs).1 ∧ PF p (runTxsN s txs).1 ∧ (∀ o ∈ (runTxsN s txs).2, o.notEmptyMedian) ∧
    (runTxsN s txs).1.height = s.height ∧ (runTxsN s txs).1.blockTime = s.blockTime := by
  induction txs with
  | nil => intro s hpf h; exact ⟨h, hpf, by simp [runTxsN], rfl, rfl⟩
  | cons tx txs ih =>
    intro s hpf h
    have h1 := deliverTxN_sne p s tx hpf h
    have h2 := ih _ h1.2.1 h1.1
    simp only [runTxsN]
    refine ⟨h2.1, h2.2.1, ?_, h2.2.2.2.1.trans h1.2.2.2.1, h2.2.2.2.2.trans h1.2.2.2.2⟩
    intro o ho
    rcases List.mem_cons.mp ho with e | e
    · rw [e]; exact h1.2.2.1
    · exact h2.2.2.1 o e

theorem runBlockN_sne (p : Params) (s : State) (b : Block) (hpf : PF p s) (h : SNE s) :
    ∃ s' outs, runBlockN s b = some (s', outs) ∧ SNE s' ∧ PF p s' ∧ (∀ o ∈ outs, o.notEmptyMedian) ∧
      s'.height = s.height + 1 := by
  unfold runBlockN
  have h0 : PF p (beginBlock s b.blockTime) := ⟨hpf.agc, hpf.cache⟩
  have h1 := runTxsN_sne p b.txs _ h0 h
  obtain ⟨s', he, _, hpf', hh, _⟩ := endBlock_pf p _ b.updates h1.2.1
  simp only [he]
  refine ⟨s', _, rfl, endBlock_sp SlotsNE p _ _ b.updates h1.2.1 h1.1 he, hpf', h1.2.2.1, ?_⟩
  rw [hh, h1.2.2.2.1]; rfl

/-- **the two index sites of `BigIntList.Median`** (`b[l/2]`, `b[l/2-1]`; an empty list is the only way to leave
the range): on a running node with fixed parameters, over EVERY list of blocks — any transactions, from any sender,
well-formed or not, any validator-set updates — EndBlock never halts, every report of every aggregator in memory
keeps at least one slot, and no transaction ends in the index panic of `Median`: neither `reportPrice.aggregate`
nor `aggregator.aggregate` ever hands it an empty list. -/
theorem runBlocksN_never_empty_median (p : Params) (bs : List Block) : ∀ (s : State), PF p s → SNE s →
    ∃ s' outs, runBlocksN s bs = some (s', outs) ∧ SNE s' ∧ PF p s' ∧
      (∀ os ∈ outs, ∀ o ∈ os, o.notEmptyMedian) ∧ s'.height = s.height + bs.length := by
  induction bs with
  | nil => intro s hpf h; exact ⟨s, [], rfl, h, hpf, by simp, rfl⟩
  | cons b bs ih =>
    intro s hpf h
    obtain ⟨s1, o1, he, hs1, hpf1, ho1, hh⟩ := runBlockN_sne p s b hpf h
    obtain ⟨s2, o2, he2, hs2, hpf2, ho2, hh2⟩ := ih s1 hpf1 hs1
    refine ⟨s2, o1 :: o2, ?_, hs2, hpf2, ?_, ?_⟩
    · simp only [runBlocksN, he, he2]
    · intro os hos
      rcases List.mem_cons.mp hos with e | e
      · rw [e]; exact ho1
      · exact ho2 os e
    · rw [hh2, hh]; simp only [List.length_cons]; omega

/-! ## 3. a panic inside `Median` is a rejected transaction -/

theorem anteNonces_log (mn : Nat) (ms : List Msg) : ∀ (st st' : Store), anteNonces mn st ms = some st' →
    st'.recentMsgs = st.recentMsgs ∧ st'.recentParams = st.recentParams := by
  induction ms with
  | nil => intro st st' h; simp only [anteNonces, Option.some.injEq] at h; rw [← h]; exact ⟨rfl, rfl⟩
  | cons m ms ih =>
    intro st st' h
    simp only [anteNonces] at h
    cases hc : st.checkNonce mn m.creator m.feederID m.nonce with
    | none => rw [hc] at h; simp at h
    | some st1 =>
      rw [hc] at h
      obtain ⟨cur, _, _, _, h4⟩ := checkNonce_some st st1 mn _ _ _ hc
      have h2 := ih st1 st' h
      rw [h4] at h2
      exact h2

theorem anteHandle_log (s : State) (tx : Tx) (st : Store) (h : anteHandle s tx = .ok st) :
    st.recentMsgs = s.store.recentMsgs ∧ st.recentParams = s.store.recentParams :=
  anteNonces_log _ _ _ _ (anteHandle_ok s tx st h)

/-- a transaction whose message fails — by an error or by a recovered panic — leaves the store exactly as the ante
handler wrote it (the nonce increments of the oracle branch of IncrementSequenceDecorator); prices, parameters,
replay log are untouched -/
theorem deliverTxN_failed_store (s : State) (tx : Tx) (i : Nat) (e : MsgErr) (h : (deliverTxN s tx).2 = .msg i e) :
    ∃ st, anteHandle s tx = .ok st ∧ (deliverTxN s tx).1.store = st ∧
      st.prices = s.store.prices ∧ st.params = s.store.params ∧ st.recentMsgs = s.store.recentMsgs ∧
      st.recentParams = s.store.recentParams := by
  unfold deliverTxN at h ⊢
  cases ha : anteHandle s tx with
  | error why => rw [ha] at h; cases h
  | ok st =>
    rw [ha] at h
    simp only at h ⊢
    rcases hr : runMsgsN { s with store := st } 0 tx.msgs with ⟨s2, r⟩
    rw [hr] at h
    cases r with
    | none => cases h
    | some ie =>
      have hfr := anteHandle_frame s tx st ha
      refine ⟨st, rfl, rfl, hfr.1, hfr.2, ?_, ?_⟩
      · exact (anteHandle_log s tx st ha).1
      · exact (anteHandle_log s tx st ha).2

end ExoVerif.Oracle
