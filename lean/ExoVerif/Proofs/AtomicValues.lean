import ExoVerif.Proofs.Atomic
import ExoVerif.Proofs.LedgerNN
import ExoVerif.Proofs.LedgerLists
import ExoVerif.Model.AtomicValues
/-!
Helper lemmas for `Props/C09Values.lean`.

1. A refinement of the shape theorem (`exec_fail_gen`): a check standing after a visible write may be
   assumed infallible not "in every state" but *in every state the run can be in* — states related to the
   entry state by a relation `R` that the writes preserve — and only once the leading checks (the guards
   that stand before the first write) have passed on the entry state.
2. The value lemmas of the four entry points: what the guards establish, that the writes keep it, and
   that it makes the late checks pass.
-/
namespace ExoVerif.Atomic

/-- `exec_fail_gen` with a relation on the current state: `R` holds now, every write / callee keeps it,
and under it the checks of `inf` pass. -/
theorem exec_fail_rel {σ : Type} (I : Impl σ) (inf : List String) (s0 : σ) (R : σ → Prop)
    (hw : ∀ n c, R c → R (I.wr n s0 c))
    (he : ∀ n c, R c → R (I.eff n s0 c).2)
    (hinf : ∀ n, n ∈ inf → ∀ c, R c → I.chk n s0 c = none) :
    ∀ (p : Prog) (cur : σ) (snap : Option σ) (d : Nat) (dirty pend : Bool),
      shapeOK inf p dirty pend d = true → R cur →
      (d = 0 → snap = none) → (d ≠ 0 → snap.isSome = true) →
      (dirty = false → snap.getD cur = s0 ∧ (pend = false → cur = s0)) →
      ∀ e, (exec I s0 p cur snap d).1 = .error e → (exec I s0 p cur snap d).2 = s0 := by
  intro p
  induction p with
  | nil => intro cur snap d dirty pend _ _ _ _ _ e h; simp [exec] at h
  | cons st k ih =>
    intro cur snap d dirty pend hs hR h0 h1 hinv e h
    cases st with
    | check n =>
      simp only [shapeOK, Bool.and_eq_true, Bool.or_eq_true] at hs
      obtain ⟨hn, hk⟩ := hs
      unfold exec at h ⊢
      cases hc : I.chk n s0 cur with
      | none =>
        simp only [hc] at h ⊢
        exact ih cur snap d dirty pend hk hR h0 h1 hinv e h
      | some e' =>
        simp only []
        rcases hn with hn | hn
        · have hm : n ∈ inf := by simpa using hn
          rw [hinf n hm cur hR] at hc; cases hc
        · have hd : dirty = false := by simpa using hn
          exact (hinv hd).1
    | write n =>
      unfold exec at h ⊢
      by_cases hd0 : d = 0
      · simp only [shapeOK, hd0, if_true] at hs
        subst hd0
        exact ih _ snap 0 true pend hs (hw n cur hR) h0 h1 (by intro hh; cases hh) e h
      · simp only [shapeOK, hd0, if_false] at hs
        refine ih _ snap d dirty true hs (hw n cur hR) h0 h1 ?_ e h
        intro hd
        have hsome := h1 hd0
        cases snap with
        | none => simp at hsome
        | some x =>
          have := (hinv hd).1
          simp only [Option.getD_some] at this ⊢
          exact ⟨this, by intro hh; cases hh⟩
    | call n =>
      simp only [shapeOK, Bool.and_eq_true, bne_iff_ne, ne_eq, Bool.not_eq_true'] at hs
      obtain ⟨⟨hd0, hdirty⟩, hk⟩ := hs
      have hsome := h1 hd0
      unfold exec at h ⊢
      cases snap with
      | none => simp at hsome
      | some x =>
        have hx : x = s0 := by have := (hinv hdirty).1; simpa using this
        have hRe := he n cur hR
        cases hc : I.eff n s0 cur with
        | mk r c' =>
          rw [hc] at hRe
          cases r with
          | ok u =>
            simp only [hc] at h ⊢
            refine ih c' (some x) d dirty true hk hRe h0 h1 ?_ e h
            intro _
            exact ⟨by simpa using hx, by intro hh; cases hh⟩
          | error e' =>
            simp only []
            simpa using hx
    | openC =>
      simp only [shapeOK] at hs
      unfold exec at h ⊢
      refine ih cur _ (d + 1) dirty pend hs hR (by intro hh; omega) ?_ ?_ e h
      · intro _; cases snap <;> rfl
      · intro hd
        have := hinv hd
        cases snap with
        | none => simpa using this
        | some x => simpa using this
    | closeC =>
      unfold exec at h ⊢
      by_cases hd1 : d ≤ 1
      · simp only [shapeOK, hd1, if_true] at hs h ⊢
        have hz : d - 1 = 0 := by omega
        rw [hz] at hs h ⊢
        refine ih cur none 0 (dirty || pend) false hs hR (by intro _; rfl) (by intro hh; exact absurd rfl hh) ?_ e h
        intro hdp
        have hd : dirty = false := by cases dirty <;> simp_all
        have hp : pend = false := by cases pend <;> simp_all
        have := (hinv hd).2 hp
        exact ⟨by simpa using this, fun _ => this⟩
      · simp only [shapeOK, hd1, if_false] at hs h ⊢
        have hne : d ≠ 0 := by omega
        refine ih cur snap (d - 1) dirty pend hs hR (by intro hh; omega) (by intro _; exact h1 hne) hinv e h

/-- a run of leading checks at depth 0: either all pass on the entry state and the rest runs from it, or
the first failing one returns with the entry state -/
theorem exec_guards {σ : Type} (I : Impl σ) (s : σ) (rest : Prog) :
    ∀ pre : List String,
      ((∀ g, g ∈ pre → I.chk g s s = none) ∧
        exec I s (pre.map Step.check ++ rest) s none 0 = exec I s rest s none 0) ∨
      (∃ e, exec I s (pre.map Step.check ++ rest) s none 0 = (.error e, s)) := by
  intro pre
  induction pre with
  | nil => exact Or.inl ⟨(by intro g hg; cases hg), rfl⟩
  | cons g gs ih =>
    simp only [List.map_cons, List.cons_append]
    cases hc : I.chk g s s with
    | some e => exact Or.inr ⟨e, by simp [exec, hc]⟩
    | none =>
      rcases ih with ⟨hall, heq⟩ | ⟨e, he⟩
      · refine Or.inl ⟨?_, ?_⟩
        · intro g' hg'
          rcases List.mem_cons.1 hg' with h1 | h1
          · rw [h1]; exact hc
          · exact hall g' h1
        · simp only [exec, hc]; exact heq
      · exact Or.inr ⟨e, by simp only [exec, hc]; exact he⟩

/-- **The guarded shape theorem.**  A program = leading checks `pre` (the guards) followed by `rest`.
If, *once the guards have passed on the entry state*, some relation `R` holds of the entry state, is kept
by every write and callee, and makes the checks of `inf` pass, and `rest` has the check/write shape
relative to `inf`, then a failing run returns the entry state. -/
theorem run_fail_atomic_guarded {σ : Type} (I : Impl σ) (inf pre : List String) (rest : Prog) (s : σ)
    (R : σ → Prop)
    (H : (∀ g, g ∈ pre → I.chk g s s = none) →
      R s ∧ (∀ n c, R c → R (I.wr n s c)) ∧ (∀ n c, R c → R (I.eff n s c).2) ∧
      (∀ n, n ∈ inf → ∀ c, R c → I.chk n s c = none))
    (hs : shapeOK inf rest false false 0 = true)
    (e : Err) (h : (run I (pre.map Step.check ++ rest) s).1 = .error e) :
    (run I (pre.map Step.check ++ rest) s).2 = s := by
  unfold run at h ⊢
  rcases exec_guards I s rest pre with ⟨hall, heq⟩ | ⟨e', he'⟩
  · obtain ⟨hR, hw, he, hinf⟩ := H hall
    rw [heq] at h ⊢
    exact exec_fail_rel I inf s R hw he hinf rest s none 0 false false hs hR (fun _ => rfl)
      (fun hh => absurd rfl hh) (fun _ => ⟨rfl, fun _ => rfl⟩) e h
  · rw [he']

end ExoVerif.Atomic

namespace ExoVerif.AtomicValues
open ExoVerif ExoVerif.KV ExoVerif.Atomic

theorem rej_none {c : Bool} {code : String} : rej c code = none ↔ c = false := by
  unfold rej; cases c <;> simp

theorem errOf_none {α : Type} {x : Except String α} : errOf x = none ↔ ∃ a, x = .ok a := by
  cases x <;> simp [errOf]

/-! ## delegate -/
namespace Delegate
open ExoVerif.Ledger

/-- what the late checks need of the operator's pool row: no negative figure, no shares without tokens -/
def GoodRow (p : Pool) : Prop := 0 ≤ p.amount ∧ 0 ≤ p.totalShare.raw ∧ (p.amount = 0 → p.totalShare.raw = 0)

/-- the relation carried through the writes: the pool row the request talks about is good -/
def R (r : Req) (c : L) : Prop := GoodRow (plRow r c)

/-- the ten checks of `precompileDelegate` that stand before its first write -/
def guards : List String :=
  ["CheckExocoreGatewayAddr", "GetDelegationParamsFromInputs", "OpAmount.IsPositive", "IsOperator", "IsOperatorFrozen",
   "GetStakerSpecifiedAssetInfo", "WithdrawableAmount.LT(OpAmount)", "UpdateAssetValue(TotalDepositAmount)",
   "UpdateAssetValue(WithdrawableAmount)", "UpdateAssetValue(PendingUndelegationAmount)"]

/-- … and what follows: the first write and every later step -/
def rest : Prog :=
  [.write "Set(stakerAsset)", .check "CalculateShare", .check "GetAssociatedOperator"] ++ updateOperatorAssetState ++
  [.check "UpdateDelegationState", .write "Set(delegationState)", .check "AppendStakerForOperator",
   .write "Set(stakersByOperator)", .write "Hooks.AfterDelegation"]

/-- the checks that stand after a visible write (= `Atomic.delegateAssumed`) -/
def late : List String :=
  ["CalculateShare", "GetAssociatedOperator", "UpdateAssetValue(operator.TotalAmount)",
   "UpdateAssetValue(operator.PendingUndelegationAmount)", "UpdateAssetDecValue(TotalShare)",
   "UpdateAssetDecValue(OperatorShare)", "UpdateDelegationState", "AppendStakerForOperator"]

theorem prog_split : precompileDelegate = guards.map Step.check ++ rest := by decide

theorem upd_nonneg_ok (v d : Int) (hd : 0 ≤ d) : upd v d = .ok (v + d) := by
  unfold upd; have : ¬ (d < 0 ∧ v < -d) := by omega
  simp only [this, if_false]

theorem updDec_nonneg_ok (v d : Dec) (hd : 0 ≤ d.raw) : updDec v d = .ok ⟨v.raw + d.raw⟩ := by
  unfold updDec; have : ¬ (d.raw < 0 ∧ v.raw < -d.raw) := by omega
  simp only [this, if_false]

/-- CalculateShare cannot fail on a good pool row, and mints a non-negative share -/
theorem calculateShare_ok {c : L} {o : OID} {a : AID} {x : Int}
    (hg : GoodRow (getD c.pools (o, a) zeroPool)) (hx : 0 < x) :
    ∃ sh, calculateShare c o a x = .ok sh ∧ 0 ≤ sh.raw := by
  have hof : 0 ≤ (Dec.ofInt x).raw := by
    unfold Dec.ofInt; simp only []
    exact Int.mul_nonneg (by omega) (by decide)
  unfold calculateShare
  cases hf : find? c.pools (o, a) with
  | none => exact ⟨_, rfl, hof⟩
  | some p =>
    rw [getD_of_find _ _ _ _ hf] at hg
    obtain ⟨h1, h2, h3⟩ := hg
    simp only []
    by_cases ht : p.totalShare.raw = 0
    · simp only [ht, if_true]; exact ⟨_, rfl, hof⟩
    · simp only [ht, if_false]
      have ha : ¬ p.amount = 0 := fun e => ht (h3 e)
      unfold sharesFromTokens
      simp only [ha, if_false]
      refine ⟨_, rfl, ?_⟩
      unfold Dec.quoInt Dec.mulInt
      simp only []
      exact Int.tdiv_nonneg (Int.mul_nonneg h2 (by omega)) h1

theorem updStaker_pools {c c' : L} {st : SID} {a : AID} {dT dW dP : Int}
    (h : updStaker c st a dT dW dP = .ok c') : c'.pools = c.pools := by
  unfold updStaker at h
  simp only [bind, Except.bind, pure, Except.pure] at h
  split at h
  · cases h
  · split at h
    · cases h
    · split at h
      · cases h
      · injection h with h; rw [← h]

theorem updDeleg_pools {c c' : L} {st : SID} {a : AID} {o : OID} {dS : Dec} {dW : Int} {z : Bool}
    (h : updDeleg c st a o dS dW = .ok (c', z)) : c'.pools = c.pools := by
  unfold updDeleg at h
  simp only [bind, Except.bind, pure, Except.pure] at h
  split at h
  · cases h
  · split at h
    · cases h
    · injection h with h; injection h with h1 h2; rw [← h1]

/-- the pool row written by UpdateOperatorAssetState -/
theorem updPool_row {c c' : L} {o : OID} {a : AID} {dA dP : Int} {dS dO : Dec}
    (h : updPool c o a dA dP dS dO = .ok c') :
    ∃ am pe ts os, upd (getD c.pools (o, a) zeroPool).amount dA = .ok am ∧
      updDec (getD c.pools (o, a) zeroPool).totalShare dS = .ok ts ∧
      c'.pools = set c.pools (o, a) ⟨am, pe, ts, os⟩ := by
  unfold updPool at h
  simp only [bind, Except.bind, pure, Except.pure] at h
  split at h
  · cases h
  · rename_i am h1
    split at h
    · cases h
    · rename_i pe h2
      split at h
      · cases h
      · rename_i ts h3
        split at h
        · cases h
        · rename_i os h4
          injection h with h
          exact ⟨am, pe, ts, os, h1, h3, by rw [← h]⟩

theorem upd_val {v d r : Int} (h : upd v d = .ok r) : r = v + d := by
  unfold upd at h; split at h
  · cases h
  · injection h with h; exact h.symm

theorem updDec_val {v d r : Dec} (h : updDec v d = .ok r) : r.raw = v.raw + d.raw := by
  unfold updDec at h; split at h
  · cases h
  · injection h with h; rw [← h]

/-- the writes of `impl r` keep the pool row good (given a positive amount and a non-negative share) -/
theorem wr_keeps (r : Req) (s : L) (hx : 0 < r.x) (hsh : 0 ≤ (share r s).raw) (n : String) (c : L)
    (hc : R r c) : R r (wr r n s c) := by
  unfold wr
  by_cases h1 : n = "Set(stakerAsset)"
  · simp only [h1, if_true]
    cases hu : updStaker c r.st r.a 0 (-r.x) 0 with
    | error _ => exact hc
    | ok c' => simp only [okOr]; unfold R plRow; rw [updStaker_pools hu]; exact hc
  · simp only [h1, if_false]
    by_cases h2 : n = "Set(operatorAsset)"
    · simp only [h2, if_true]
      cases hu : updPool c r.o r.a r.x 0 (share r s) (dOp r s) with
      | error _ => exact hc
      | ok c' =>
        simp only [okOr]
        obtain ⟨am, pe, ts, os, ha, ht, hp⟩ := updPool_row hu
        unfold R plRow; rw [hp, getD_set_same]
        obtain ⟨g1, g2, _⟩ := hc
        have e1 := upd_val ha
        have e2 := updDec_val ht
        unfold plRow at g1 g2
        exact ⟨by simp only []; omega, by simp only []; omega, by simp only []; intro h0; omega⟩
    · simp only [h2, if_false]
      by_cases h3 : n = "Set(delegationState)"
      · simp only [h3, if_true]
        cases hu : updDeleg c r.st r.a r.o (share r s) 0 with
        | error _ => exact hc
        | ok p =>
          obtain ⟨c', z⟩ := p
          simp only [okOr, Except.map]; unfold R plRow; rw [updDeleg_pools hu]; exact hc
      · simp only [h3, if_false]
        by_cases h4 : n = "Set(stakersByOperator)"
        · simp only [h4, if_true]
          unfold R plRow; rw [(appendStaker_frame c r.o r.a r.st).1]; exact hc
        · simp only [h4, if_false]; exact hc

/-- **steps after the first write cannot fail**: on a good pool row, for a positive amount, every check of
`late` passes, whatever the rest of the state is -/
theorem late_pass (r : Req) (s : L) (hx : 0 < r.x) (hsh : 0 ≤ (share r s).raw) (n : String) (hn : n ∈ late)
    (c : L) (hc : R r c) : chk r n s c = none := by
  have hdo : 0 ≤ (dOp r s).raw := by
    unfold dOp; split
    · exact hsh
    · simp [Dec.zero]
  simp only [late, List.mem_cons, List.mem_nil_iff, or_false] at hn
  rcases hn with h | h | h | h | h | h | h | h <;> subst h <;> simp only [chk] <;> simp (config := { decide := true }) only [if_true, if_false]
  · obtain ⟨sh, h1, _⟩ := calculateShare_ok (c := c) (o := r.o) (a := r.a) hc hx
    rw [h1]; rfl
  · rw [upd_nonneg_ok _ _ (by omega)]; rfl
  · rw [upd_nonneg_ok _ _ (by omega)]; rfl
  · rw [updDec_nonneg_ok _ _ hsh]; rfl
  · rw [updDec_nonneg_ok _ _ hdo]; rfl
  · unfold updDeleg
    simp only [bind, Except.bind, pure, Except.pure, upd_nonneg_ok _ _ (Int.le_refl 0), updDec_nonneg_ok _ _ hsh]
    rfl

/-- failure of the value-level delegate leaves the ledger untouched whenever the targeted pool row is good -/
theorem fail_atomic (r : Req) (s : L) (hgood : GoodRow (plRow r s)) (e : Err)
    (h : (run (impl r) precompileDelegate s).1 = .error e) : (run (impl r) precompileDelegate s).2 = s := by
  rw [prog_split] at h ⊢
  refine run_fail_atomic_guarded (impl r) late guards rest s (R r) ?_ (by decide) e h
  intro hg
  have hx : 0 < r.x := by
    have h0 := hg "OpAmount.IsPositive" (by decide)
    simp only [impl, chk] at h0
    simp (config := { decide := true }) only [if_true, if_false] at h0
    have := rej_none.1 h0
    simpa using this
  obtain ⟨sh, hsh, hsh0⟩ := calculateShare_ok (c := s) (o := r.o) (a := r.a) hgood hx
  have hshare : 0 ≤ (share r s).raw := by unfold share; rw [hsh]; exact hsh0
  exact ⟨hgood, fun n c hc => wr_keeps r s hx hshare n c hc, fun _ c hc => hc,
    fun n hn c hc => late_pass r s hx hshare n hn c hc⟩

/-! ### the value-level program is the ledger model's `delegate` on the accepted path -/

theorem exec_check_pass {σ : Type} (I : Impl σ) (s0 : σ) (n : String) (k : Prog) (cur : σ) (snap : Option σ) (d : Nat)
    (h : I.chk n s0 cur = none) : exec I s0 (.check n :: k) cur snap d = exec I s0 k cur snap d := by
  simp only [exec, h]

theorem updStaker_frame' {c c' : L} {st : SID} {a : AID} {dT dW dP : Int}
    (h : updStaker c st a dT dW dP = .ok c') :
    c'.assoc = c.assoc ∧ c'.operators = c.operators ∧
    (∃ t w p, upd (getD c.stakers (st, a) zeroStaker).total dT = .ok t ∧
      upd (getD c.stakers (st, a) zeroStaker).withdrawable dW = .ok w ∧
      upd (getD c.stakers (st, a) zeroStaker).pending dP = .ok p) := by
  unfold updStaker at h
  simp only [bind, Except.bind, pure, Except.pure] at h
  split at h
  · cases h
  · rename_i t h1
    split at h
    · cases h
    · rename_i w h2
      split at h
      · cases h
      · rename_i p h3
        injection h with h; rw [← h]
        exact ⟨rfl, rfl, t, w, p, h1, h2, h3⟩

theorem updPool_parts {c c' : L} {o : OID} {a : AID} {dA dP : Int} {dS dO : Dec}
    (h : updPool c o a dA dP dS dO = .ok c') :
    (∃ am, upd (getD c.pools (o, a) zeroPool).amount dA = .ok am) ∧
    (∃ pe, upd (getD c.pools (o, a) zeroPool).pending dP = .ok pe) ∧
    (∃ ts, updDec (getD c.pools (o, a) zeroPool).totalShare dS = .ok ts) ∧
    (∃ os, updDec (getD c.pools (o, a) zeroPool).opShare dO = .ok os) := by
  unfold updPool at h
  simp only [bind, Except.bind, pure, Except.pure] at h
  split at h
  · cases h
  · rename_i am h1
    split at h
    · cases h
    · rename_i pe h2
      split at h
      · cases h
      · rename_i ts h3
        split at h
        · cases h
        · rename_i os h4
          exact ⟨⟨am, h1⟩, ⟨pe, h2⟩, ⟨ts, h3⟩, ⟨os, h4⟩⟩

/-- If the ledger model accepts the delegation (`Ledger.delegate`, whose correspondence with the Go keeper
is checked by the `ledger` domain), the value-level run of `precompileDelegate` passes every check and
ends in the same state: the named checks and writes of `impl` are the steps of `delegate`. -/
theorem run_eq_delegate (r : Req) (s s' : L) (hgw : r.gatewayOk = true) (hp : r.parseOk = true)
    (hfz : r.frozen = false) (hna : r.a ≠ nativeAID) (h : delegate s r.st r.a r.o r.x = .ok s') :
    run (impl r) precompileDelegate s = (.ok (), s') := by
  unfold delegate at h
  simp only [bind, Except.bind, throw, throwThe, MonadExceptOf.throw, hna, if_false] at h
  split at h
  · cases h
  · rename_i hx0
    split at h
    · cases h
    · rename_i hop0
      split at h
      · cases h
      · rename_i row hrow
        split at h
        · cases h
        · rename_i hw0
          split at h
          · cases h
          · rename_i t1 ht1
            -- delegateCore t1
            unfold delegateCore at h
            simp only [bind, Except.bind, pure, Except.pure] at h
            split at h
            · cases h
            · rename_i sh hsh
              split at h
              · cases h
              · rename_i t2 ht2
                split at h
                · cases h
                · rename_i pr ht3
                  obtain ⟨t3, z⟩ := pr
                  injection h with h
                  have hx : 0 < r.x := by
                    cases hd : decide (0 < r.x) with
                    | true => exact of_decide_eq_true hd
                    | false => simp [hd] at hx0
                  have hop : s.operators.contains r.o = true := by
                    cases hc : s.operators.contains r.o with
                    | true => rfl
                    | false => rw [hc] at hop0; exact absurd rfl hop0
                  obtain ⟨fa, fo, t, w, p, u1, u2, u3⟩ := updStaker_frame' ht1
                  have fp := updStaker_pools ht1
                  have hshare : share r s = sh := by
                    unfold share; rw [← calculateShare_congr fp r.o r.a r.x, hsh]; rfl
                  have hdop : dOp r s = (if find? t1.assoc r.st = some r.o then sh else Dec.zero) := by
                    unfold dOp; rw [hshare, fa]
                  rw [← hdop] at ht2
                  obtain ⟨⟨am, p1⟩, ⟨pe, p2⟩, ⟨ts, p3⟩, ⟨os, p4⟩⟩ := updPool_parts ht2
                  have hrowD : getD s.stakers (r.st, r.a) zeroStaker = row := getD_of_find _ _ _ _ hrow
                  -- the checks, one by one
                  have c1 : (impl r).chk "CheckExocoreGatewayAddr" s s = none := by
                    simp (config := { decide := true }) only [impl, chk, if_true, if_false, hgw]
                  have c2 : (impl r).chk "GetDelegationParamsFromInputs" s s = none := by
                    simp (config := { decide := true }) only [impl, chk, if_true, if_false, hp]
                  have c3 : (impl r).chk "OpAmount.IsPositive" s s = none := by
                    simp (config := { decide := true }) only [impl, chk, if_true, if_false, hx]
                  have c4 : (impl r).chk "IsOperator" s s = none := by
                    simp (config := { decide := true }) only [impl, chk, if_true, if_false, hop]
                  have c5 : (impl r).chk "IsOperatorFrozen" s s = none := by
                    simp (config := { decide := true }) only [impl, chk, if_true, if_false, hfz]
                  have c6 : (impl r).chk "GetStakerSpecifiedAssetInfo" s s = none := by
                    simp (config := { decide := true }) only [impl, chk, if_true, if_false, hrow]; rfl
                  have c7 : (impl r).chk "WithdrawableAmount.LT(OpAmount)" s s = none := by
                    simp (config := { decide := true }) only [impl, chk, if_true, if_false, stRow, hrowD]
                    apply rej_none.2; simpa using hw0
                  have c8 : (impl r).chk "UpdateAssetValue(TotalDepositAmount)" s s = none := by
                    simp (config := { decide := true }) only [impl, chk, if_true, if_false, stRow, u1]; rfl
                  have c9 : (impl r).chk "UpdateAssetValue(WithdrawableAmount)" s s = none := by
                    simp (config := { decide := true }) only [impl, chk, if_true, if_false, stRow, u2]; rfl
                  have c10 : (impl r).chk "UpdateAssetValue(PendingUndelegationAmount)" s s = none := by
                    simp (config := { decide := true }) only [impl, chk, if_true, if_false, stRow, u3]; rfl
                  have w1 : (impl r).wr "Set(stakerAsset)" s s = t1 := by
                    simp (config := { decide := true }) only [impl, wr, if_true, if_false, ht1]; rfl
                  have c11 : (impl r).chk "CalculateShare" s t1 = none := by
                    simp (config := { decide := true }) only [impl, chk, if_true, if_false, hsh]; rfl
                  have c12 : (impl r).chk "GetAssociatedOperator" s t1 = none := by
                    simp (config := { decide := true }) only [impl, chk, if_true, if_false]
                  have c13 : (impl r).chk "UpdateAssetValue(operator.TotalAmount)" s t1 = none := by
                    simp (config := { decide := true }) only [impl, chk, if_true, if_false, plRow, p1]; rfl
                  have c14 : (impl r).chk "UpdateAssetValue(operator.PendingUndelegationAmount)" s t1 = none := by
                    simp (config := { decide := true }) only [impl, chk, if_true, if_false, plRow, p2]; rfl
                  have c15 : (impl r).chk "UpdateAssetDecValue(TotalShare)" s t1 = none := by
                    simp (config := { decide := true }) only [impl, chk, if_true, if_false, plRow, hshare, p3]; rfl
                  have c16 : (impl r).chk "UpdateAssetDecValue(OperatorShare)" s t1 = none := by
                    simp (config := { decide := true }) only [impl, chk, if_true, if_false, plRow, p4]; rfl
                  have w2 : (impl r).wr "Set(operatorAsset)" s t1 = t2 := by
                    simp (config := { decide := true }) only [impl, wr, if_true, if_false, hshare, ht2]; rfl
                  have c17 : (impl r).chk "UpdateDelegationState" s t2 = none := by
                    simp (config := { decide := true }) only [impl, chk, if_true, if_false, hshare, ht3]; rfl
                  have w3 : (impl r).wr "Set(delegationState)" s t2 = t3 := by
                    simp (config := { decide := true }) only [impl, wr, if_true, if_false, hshare, ht3]; rfl
                  have c18 : (impl r).chk "AppendStakerForOperator" s t3 = none := by
                    simp (config := { decide := true }) only [impl, chk, if_true, if_false]
                  have w4 : (impl r).wr "Set(stakersByOperator)" s t3 = s' := by
                    simp (config := { decide := true }) only [impl, wr, if_true, if_false]; exact h
                  have w5 : (impl r).wr "Hooks.AfterDelegation" s s' = s' := by
                    simp (config := { decide := true }) only [impl, wr, if_false]
                  unfold run precompileDelegate delegateTo updateStakerAssetState updateOperatorAssetState
                  simp only [List.cons_append, List.nil_append, exec, c1, c2, c3, c4, c5, c6, c7, c8, c9, c10, w1,
                    c11, c12, c13, c14, c15, c16, w2, c17, w3, c18, w4, w5]

end Delegate
/-! ## opt-in / opt-out through the AVS precompile -/
namespace Opt

def guardsIn : List String :=
  ["args", "AccAddressFromBech32", "IsOperator", "IsAVS", "IsOperator(2)", "IsAVS(2)", "IsOptedIn",
   "GetOrCalculateOperatorUSDValues", "GetAVSMinimumSelfDelegation", "SelfUSDValue.LT(min)", "IsOperatorFrozen",
   "InitOperatorUSDValue"]

def restIn : Prog :=
  [.write "Set(operatorUSDValue)", .check "GetAVSSlashContract", .check "SetOptedInfo", .write "Set(optedInfo)"]

/-- = `Atomic.optInAssumed` -/
def lateIn : List String := ["GetAVSSlashContract", "SetOptedInfo"]

theorem progIn_split : precompileOptIn = guardsIn.map Step.check ++ restIn := by decide

def guardsOut : List String :=
  ["args", "AccAddressFromBech32", "IsOperator", "IsAVS", "IsOperator(2)", "IsAVS(2)", "IsActive", "IsOperatorFrozen"]

def restOut : Prog :=
  [.write "DeleteOperatorUSDValue", .check "HandleOptedInfo", .write "Set(optedInfo)",
   .write "InitiateOperatorKeyRemovalForChainID"]

/-- = `Atomic.optOutAssumed` -/
def lateOut : List String := ["HandleOptedInfo"]

theorem progOut_split : precompileOptOut = guardsOut.map Step.check ++ restOut := by decide

/-- no write of OptIn / OptOut touches the AVS store -/
theorem wr_avss (r : Req) (n : String) (s c : St) : (wr r n s c).avss = c.avss := by
  unfold wr
  repeat' split
  all_goals rfl

/-- the opted record of (operator, AVS) survives every write (it is only ever overwritten) -/
theorem wr_opted_some (r : Req) (n : String) (s c : St) (h : (find? c.opted (r.op, r.avs)).isSome = true) :
    (find? (wr r n s c).opted (r.op, r.avs)).isSome = true := by
  unfold wr
  repeat' split
  all_goals first
    | exact h
    | (simp only [find?_set_same]; rfl)

/-- opt-in: GetAVSSlashContract and SetOptedInfo cannot fail once IsAVS and the bech32 decoding of the
operator address have passed — in every state -/
theorem optIn_fail_atomic (r : Req) (s : St) (hb : Bech32RoundTrip r) (e : Err)
    (h : (run (impl r) precompileOptIn s).1 = .error e) : (run (impl r) precompileOptIn s).2 = s := by
  rw [progIn_split] at h ⊢
  refine run_fail_atomic_guarded (impl r) lateIn guardsIn restIn s (fun c => has c.avss r.avsKey = true) ?_
    (by decide) e h
  intro hg
  have h1 := hg "IsAVS" (by decide)
  have h2 := hg "AccAddressFromBech32" (by decide)
  simp (config := { decide := true }) only [impl, chk, if_true, if_false] at h1 h2
  have havs : has s.avss r.avsKey = true := by simpa using rej_none.1 h1
  have hval : r.opCanonValid = true := hb (by simpa using rej_none.1 h2)
  refine ⟨havs, ?_, fun _ c hc => hc, ?_⟩
  · intro n c hc
    show has ((impl r).wr n s c).avss r.avsKey = true
    simp only [impl, wr_avss]; exact hc
  · intro n hn c hc
    simp only [lateIn, List.mem_cons, List.mem_nil_iff, or_false] at hn
    rcases hn with h | h <;> subst h <;>
      simp (config := { decide := true }) only [impl, chk, if_true, if_false]
    · apply rej_none.2
      unfold has at hc
      cases hf : find? c.avss r.avsKey with
      | none => rw [hf] at hc; cases hc
      | some v => rfl
    · apply rej_none.2; rw [hval]; rfl

/-- opt-out: HandleOptedInfo cannot fail once IsActive has found the record — in every state -/
theorem optOut_fail_atomic (r : Req) (s : St) (hb : Bech32RoundTrip r) (e : Err)
    (h : (run (impl r) precompileOptOut s).1 = .error e) : (run (impl r) precompileOptOut s).2 = s := by
  rw [progOut_split] at h ⊢
  refine run_fail_atomic_guarded (impl r) lateOut guardsOut restOut s
    (fun c => (find? c.opted (r.op, r.avs)).isSome = true) ?_ (by decide) e h
  intro hg
  have h1 := hg "IsActive" (by decide)
  have h2 := hg "AccAddressFromBech32" (by decide)
  simp (config := { decide := true }) only [impl, chk, if_true, if_false] at h1 h2
  have hact : isActive s r = true := by simpa using rej_none.1 h1
  have hval : r.opCanonValid = true := hb (by simpa using rej_none.1 h2)
  have hsome : (find? s.opted (r.op, r.avs)).isSome = true := by
    unfold isActive at hact
    cases hf : find? s.opted (r.op, r.avs) with
    | none => rw [hf] at hact; cases hact
    | some v => rfl
  refine ⟨hsome, fun n c hc => wr_opted_some r n s c hc, fun _ c hc => hc, ?_⟩
  intro n hn c hc
  simp only [lateOut, List.mem_cons, List.mem_nil_iff, or_false] at hn
  subst hn
  simp (config := { decide := true }) only [impl, chk, if_true, if_false]
  apply rej_none.2
  rw [hval]
  cases hf : find? c.opted (r.op, r.avs) with
  | none => rw [hf] at hc; cases hc
  | some v => rfl

end Opt

/-! ## createTask through the AVS precompile -/
namespace Task

def guards : List String :=
  ["GetTaskParamsFromInputs", "GetAVSInfoByTaskAddress", "owner contains caller", "GetAVSUSDValue>0", "GetEpochInfo",
   "IsExistTask", "GetOptInOperators"]

def rest : Prog :=
  [.write "GetTaskID(Set latest)", .check "IsHexAddress(task)", .write "Set(taskInfo)", .check "EmitCreateAVSTaskEvent"]

/-- = `Atomic.createTaskAssumed` -/
def late : List String := ["IsHexAddress(task)", "EmitCreateAVSTaskEvent"]

theorem prog_split : precompileCreateTask = guards.map Step.check ++ rest := by decide

/-- createTask: the two checks after the task-id counter was bumped test the *request* only — the task
address the precompile renders from `contract.CallerAddress` and the Go types of the event arguments —
so for requests built by the precompile they cannot fail, in every state -/
theorem fail_atomic (r : Req) (s : St) (hhex : isHexAddress r.taskAddr = true) (hpack : r.packOk = true) (e : Err)
    (h : (run (impl r) precompileCreateTask s).1 = .error e) : (run (impl r) precompileCreateTask s).2 = s := by
  rw [prog_split] at h ⊢
  refine run_fail_atomic_guarded (impl r) late guards rest s (fun _ => True) ?_ (by decide) e h
  intro _
  refine ⟨trivial, fun _ _ _ => trivial, fun _ _ _ => trivial, ?_⟩
  intro n hn c _
  simp only [late, List.mem_cons, List.mem_nil_iff, or_false] at hn
  rcases hn with h | h <;> subst h <;>
    simp (config := { decide := true }) only [impl, chk, if_true, if_false]
  · apply rej_none.2; rw [hhex]; rfl
  · apply rej_none.2; rw [hpack]; rfl

end Task

/-! ## per-item loops on the block's context -/
namespace Items

theorem runItemsPlain_append {σ : Type} (a b : List (Eff σ Unit)) (s : σ) :
    runItemsPlain (a ++ b) s = runItemsPlain b (runItemsPlain a s) := by
  unfold runItemsPlain; rw [List.foldl_append]

theorem blockHook_snd {σ : Type} (m : Eff σ Unit) (t : σ) : (blockHook m t).2 = (m t).2 := by
  unfold blockHook
  cases hm : m t with
  | mk r s' => cases r with
    | ok u => rfl
    | error e => cases e <;> rfl

/-- a failing item that is itself fail-atomic leaves no partial effect and does not stop the others -/
theorem fail_isolated_plain {σ : Type} (pre post : List (Eff σ Unit)) (bad : Eff σ Unit) (s : σ)
    (hbad : ∀ t e, (bad t).1 = .error e → (bad t).2 = t) (e : Err)
    (h : (bad (runItemsPlain pre s)).1 = .error e) :
    runItemsPlain (pre ++ bad :: post) s = runItemsPlain (pre ++ post) s := by
  rw [runItemsPlain_append, runItemsPlain_append]
  generalize runItemsPlain pre s = t at h
  have := hbad t e h
  simp only [runItemsPlain, List.foldl_cons, blockHook_snd, this]

/-- the "no assets" branch of UpdateVotingPower cannot report failure at all -/
theorem noAssets_never_fails {σ : Type} (I : Impl σ) (hI : NoAssetsInfallible I) (s : σ) :
    (run I updateVotingPowerNoAssets s).1 = .ok () := by
  unfold run updateVotingPowerNoAssets
  simp only [exec]
  have h1 := hI.1 s s
  cases hc : I.eff "DeleteAllOperatorsUSDValueForAVS" s s with
  | mk r c' =>
    rw [hc] at h1
    simp only at h1
    subst h1
    simp only [hI.2 s c']

end Items

end ExoVerif.AtomicValues
