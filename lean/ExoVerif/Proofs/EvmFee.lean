import ExoVerif.Model.EvmFee
import Mathlib.Tactic.Ring
import Mathlib.Tactic.Linarith
/-! Helper lemmas for C19: LegacyDec facts used by the minimum-gas formula, sums over account lists,
    case characterisation of `deliver`. -/
namespace ExoVerif.EvmFee
open ExoVerif

theorem PREC_ne : PREC ≠ 0 := by decide

theorem chopRound_mul_PREC (k : Int) (hk : 0 ≤ k) : Dec.chopRound (k * PREC) = k := by
  have hd : ¬ (k * PREC < 0) := by
    have : 0 ≤ k * PREC := Int.mul_nonneg hk (by decide)
    omega
  unfold Dec.chopRound
  rw [if_neg hd]
  unfold Dec.chopRoundNonneg
  simp only [Int.mul_tmod_left, Int.mul_tdiv_cancel _ PREC_ne]
  simp

/-- `gasLimit.Mul(minGasMultiplier)` is exact: the left factor is an integer. -/
theorem minimumGasUsed_raw (L : Int) (m : Dec) (hL : 0 ≤ L) (hm : 0 ≤ m.raw) :
    (minimumGasUsed L m).raw = L * m.raw := by
  show Dec.chopRound ((Dec.ofInt L).raw * m.raw) = L * m.raw
  have he : (Dec.ofInt L).raw * m.raw = (L * m.raw) * PREC := by
    show L * PREC * m.raw = (L * m.raw) * PREC
    ring
  rw [he, chopRound_mul_PREC _ (Int.mul_nonneg hL hm)]

theorem truncate_ofInt (n : Int) : Dec.truncateInt (Dec.ofInt n) = n := by
  simp [Dec.truncateInt, Dec.ofInt, Int.mul_tdiv_cancel _ PREC_ne]

/-- for non-negative arguments the final gas is the integer maximum of the truncated minimum and the EVM figure -/
theorem finalGasUsed_eq_max (m : Dec) (x : Int) (hm : 0 ≤ m.raw) (_hx : 0 ≤ x) :
    finalGasUsed m x = max (m.raw.tdiv PREC) x := by
  have hp : 0 < PREC := PREC_pos
  have hr : (Dec.ofInt x).raw = x * PREC := rfl
  unfold finalGasUsed Dec.maxDec
  rw [Int.tdiv_eq_ediv_of_nonneg hm]
  by_cases h : m.raw < (Dec.ofInt x).raw
  · rw [if_pos h, truncate_ofInt]
    rw [hr] at h
    have : m.raw / PREC < x := (Int.ediv_lt_iff_lt_mul hp).mpr h
    omega
  · rw [if_neg h]
    rw [hr] at h
    simp only [Dec.truncateInt]
    rw [Int.tdiv_eq_ediv_of_nonneg hm]
    have : x ≤ m.raw / PREC := (Int.le_ediv_iff_mul_le hp).mpr (by omega)
    omega

/-- sum of a balance function over a list of accounts -/
def total (f : Nat → Int) (l : List Nat) : Int := (l.map f).sum

theorem total_addAt_notin (f : Nat → Int) (k : Nat) (d : Int) (l : List Nat) (h : k ∉ l) :
    total (addAt f k d) l = total f l := by
  induction l with
  | nil => rfl
  | cons a rest ih =>
    have ha : a ≠ k := fun e => h (by simp [e])
    have hr : k ∉ rest := fun e => h (by simp [e])
    simp only [total, List.map_cons, List.sum_cons] at *
    rw [ih hr]
    simp [addAt, ha]

theorem total_addAt (f : Nat → Int) (k : Nat) (d : Int) (l : List Nat) (hn : l.Nodup) (hk : k ∈ l) :
    total (addAt f k d) l = total f l + d := by
  induction l with
  | nil => simp at hk
  | cons a rest ih =>
    rw [List.nodup_cons] at hn
    simp only [total, List.map_cons, List.sum_cons]
    by_cases ha : a = k
    · subst ha
      have := total_addAt_notin f a d rest hn.1
      simp only [total] at this
      rw [this]
      simp [addAt]; omega
    · have hk' : k ∈ rest := by
        rcases List.mem_cons.mp hk with e | e
        · exact absurd e.symm ha
        · exact e
      have := ih hn.2 hk'
      simp only [total] at this
      rw [this]
      simp [addAt, ha]; omega

theorem admissible_iff (e : Env) (s : St) (t : Tx) :
    admissible e s t = true ↔ admissibleSeparate e s t = true ∧ t.feeCap * t.gasLimit + t.value ≤ s.bal t.sender := by
  simp [admissible, totalCostOk]

/-- the price is non-negative for an admitted transaction -/
theorem antePrice_nonneg (e : Env) (s : St) (t : Tx) (hb : 0 ≤ e.baseFee) (h : admissible e s t = true) :
    0 ≤ antePrice e t := by
  have h := ((admissible_iff e s t).mp h).1
  simp only [admissibleSeparate, wellFormed, Bool.and_eq_true, decide_eq_true_eq, Bool.or_eq_true, bne_iff_ne, ne_eq] at h
  obtain ⟨⟨⟨⟨⟨⟨⟨⟨_, _⟩, hw⟩, _⟩, hcap⟩, _⟩, _⟩, _⟩, _⟩ := h
  obtain ⟨⟨⟨⟨⟨_, _⟩, _⟩, hfc⟩, _⟩, htip⟩ := hw
  unfold antePrice
  by_cases h2 : t.ty = 2
  · rw [if_pos h2]
    rcases htip with h' | h'
    · exact absurd h2 h'
    · omega
  · rw [if_neg h2]; exact hfc

theorem msgPrice_eq_antePrice (e : Env) (t : Tx) (hb : 0 ≤ e.baseFee) : msgPrice e t = antePrice e t := by
  unfold msgPrice antePrice
  by_cases h2 : t.ty = 2
  · simp [h2]
  · simp [h2]; omega

/-- refund when the charged gas does not exceed the limit and the price is non-negative -/
theorem refundAmt_eq (e : Env) (t : Tx) (g : Int) (hg : g ≤ t.gasLimit) (hp : 0 ≤ msgPrice e t) :
    refundAmt e t g = (t.gasLimit - g) * msgPrice e t := by
  unfold refundAmt
  have : 0 ≤ (t.gasLimit - g) * msgPrice e t := Int.mul_nonneg (by omega) hp
  by_cases h : 0 < (t.gasLimit - g) * msgPrice e t
  · simp [h]
  · have h0 : (t.gasLimit - g) * msgPrice e t = 0 := by linarith [not_lt.mp h]
    simp [h0]

end ExoVerif.EvmFee
