import ExoVerif.Model.Determinism
/-! Generic lemmas: folds of right-commutative bodies do not depend on the schedule. -/
namespace ExoVerif.Det

theorem foldl_perm {σ κ : Type} {f : σ → κ → σ} (hc : ∀ s a b, f (f s a) b = f (f s b) a) :
    ∀ {o₁ o₂ : List κ}, o₁.Perm o₂ → ∀ s, o₁.foldl f s = o₂.foldl f s := by
  intro o₁ o₂ h
  induction h with
  | nil => intro s; rfl
  | cons x _ ih => intro s; simp only [List.foldl_cons]; exact ih _
  | swap x y l => intro s; simp only [List.foldl_cons]; rw [hc]
  | trans _ _ ih1 ih2 => intro s; rw [ih1, ih2]

theorem rangeLoop_perm {σ κ : Type} {f : σ → κ → σ} (hc : ∀ s a b, f (f s a) b = f (f s b) a)
    {o₁ o₂ : List κ} (h : o₁.Perm o₂) (s : σ) : rangeLoop f o₁ s = rangeLoop f o₂ s :=
  foldl_perm hc h s

theorem sumBody_comm {κ : Type} (g : κ → Int) (s : Int) (a b : κ) :
    sumBody g (sumBody g s a) b = sumBody g (sumBody g s b) a := by
  simp only [sumBody]; omega

theorem sum2Body_comm {κ : Type} (g h : κ → Int) (s : Int × Int) (a b : κ) :
    sum2Body g h (sum2Body g h s a) b = sum2Body g h (sum2Body g h s b) a := by
  simp only [sum2Body]; congr 1 <;> omega

theorem writeBody_comm {κ α : Type} [DecidableEq κ] (v : κ → α) (m : GoMap κ α) (a b : κ) :
    writeBody v (writeBody v m a) b = writeBody v (writeBody v m b) a := by
  funext k
  simp only [writeBody, GoMap.set]
  by_cases h1 : k = a <;> by_cases h2 : k = b
  · subst h1; subst h2; simp
  · subst h1; have : ¬ k = b := h2; simp [this]
  · subst h2; have : ¬ k = a := h1; simp [this]
  · simp [h1, h2]

theorem anyBody_comm {κ : Type} (bad : κ → Bool) (s : Bool) (a b : κ) :
    anyBody bad (anyBody bad s a) b = anyBody bad (anyBody bad s b) a := by
  simp only [anyBody]; cases s <;> cases bad a <;> cases bad b <;> rfl

theorem maxBody_comm {π : Type} (payload : Int → π) (bound : Int) (s : Int × π) (a b : Int) :
    maxBody payload bound (maxBody payload bound s a) b = maxBody payload bound (maxBody payload bound s b) a := by
  obtain ⟨p, q⟩ := s
  simp only [maxBody]
  by_cases ha : a < bound <;> by_cases hb : b < bound <;> by_cases h1 : p < a <;> by_cases h2 : p < b <;>
    by_cases h3 : a < b <;> by_cases h4 : b < a <;> simp [ha, hb, h1, h2, h3, h4] <;> first | omega | (have : a = b := by omega) <;> simp [this]

end ExoVerif.Det
