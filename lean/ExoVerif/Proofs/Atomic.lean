import ExoVerif.Model.Atomic
/-!
Helper lemmas for C09: the shape theorem (`shapeOK` ⇒ a failing run leaves the entry state), facts
about `cached` and the wrappers, per-item isolation of `runItems`.
-/
namespace ExoVerif.Atomic

/-- The invariant carried through `exec`: while nothing is visible to the caller (`dirty = false`)
    the state a failure would fall back to is the entry state. -/
theorem exec_fail_gen {σ : Type} (I : Impl σ) (inf : List String) (s0 : σ)
    (hinf : ∀ n, n ∈ inf → ∀ c, I.chk n s0 c = none) :
    ∀ (p : Prog) (cur : σ) (snap : Option σ) (d : Nat) (dirty pend : Bool),
      shapeOK inf p dirty pend d = true →
      (d = 0 → snap = none) → (d ≠ 0 → snap.isSome = true) →
      (dirty = false → snap.getD cur = s0 ∧ (pend = false → cur = s0)) →
      ∀ e, (exec I s0 p cur snap d).1 = .error e → (exec I s0 p cur snap d).2 = s0 := by
  intro p
  induction p with
  | nil => intro cur snap d dirty pend _ _ _ _ e h; simp [exec] at h
  | cons st k ih =>
    intro cur snap d dirty pend hs h0 h1 hinv e h
    cases st with
    | check n =>
      simp only [shapeOK, Bool.and_eq_true, Bool.or_eq_true] at hs
      obtain ⟨hn, hk⟩ := hs
      unfold exec at h ⊢
      cases hc : I.chk n s0 cur with
      | none =>
        simp only [hc] at h ⊢
        exact ih cur snap d dirty pend hk h0 h1 hinv e h
      | some e' =>
        simp only [hc]
        rcases hn with hn | hn
        · have hm : n ∈ inf := by simpa using hn
          rw [hinf n hm cur] at hc; cases hc
        · have hd : dirty = false := by simpa using hn
          exact (hinv hd).1
    | write n =>
      unfold exec at h ⊢
      by_cases hd0 : d = 0
      · simp only [shapeOK, hd0, if_true] at hs
        subst hd0
        exact ih _ snap 0 true pend hs h0 h1 (by intro hh; cases hh) e h
      · simp only [shapeOK, hd0, if_false] at hs
        refine ih _ snap d dirty true hs h0 h1 ?_ e h
        intro hd
        have hsome := h1 hd0
        cases snap with
        | none => simp at hsome
        | some x =>
          have := (hinv hd).1
          simp only [Option.getD_some] at this ⊢
          exact ⟨this, by intro hh; cases hh⟩
    | call n =>
      simp only [shapeOK, Bool.and_eq_true, bne_iff_ne, ne_eq, Bool.not_eq_true'] at hs
      obtain ⟨⟨hd0, hdirty⟩, hk⟩ := hs
      have hsome := h1 hd0
      unfold exec at h ⊢
      cases snap with
      | none => simp at hsome
      | some x =>
        have hx : x = s0 := by have := (hinv hdirty).1; simpa using this
        cases hc : I.eff n s0 cur with
        | mk r c' =>
          cases r with
          | ok u =>
            simp only [hc] at h ⊢
            refine ih c' (some x) d dirty true hk h0 h1 ?_ e h
            intro _
            exact ⟨by simpa using hx, by intro hh; cases hh⟩
          | error e' =>
            simp only [hc]
            simpa using hx
    | openC =>
      simp only [shapeOK] at hs
      unfold exec at h ⊢
      refine ih cur _ (d + 1) dirty pend hs (by intro hh; omega) ?_ ?_ e h
      · intro _; cases snap <;> rfl
      · intro hd
        have := hinv hd
        cases snap with
        | none => simpa using this
        | some x => simpa using this
    | closeC =>
      unfold exec at h ⊢
      by_cases hd1 : d ≤ 1
      · simp only [shapeOK, hd1, if_true] at hs h ⊢
        have hz : d - 1 = 0 := by omega
        rw [hz] at hs h ⊢
        refine ih cur none 0 (dirty || pend) false hs (by intro _; rfl) (by intro hh; exact absurd rfl hh) ?_ e h
        intro hdp
        have hd : dirty = false := by cases dirty <;> simp_all
        have hp : pend = false := by cases pend <;> simp_all
        have := (hinv hd).2 hp
        exact ⟨by simpa using this, fun _ => this⟩
      · simp only [shapeOK, hd1, if_false] at hs h ⊢
        have hne : d ≠ 0 := by omega
        refine ih cur snap (d - 1) dirty pend hs (by intro hh; omega) (by intro _; exact h1 hne) hinv e h

/-- the shape theorem, with assumed-infallible checks -/
theorem run_fail_atomic_assuming {σ : Type} (I : Impl σ) (inf : List String) (p : Prog) (s : σ)
    (hinf : ∀ n, n ∈ inf → ∀ c, I.chk n s c = none)
    (hs : atomicShapeAssuming inf p = true) (e : Err) (h : (run I p s).1 = .error e) :
    (run I p s).2 = s := by
  unfold run at h ⊢
  exact exec_fail_gen I inf s hinf p s none 0 false false hs (fun _ => rfl) (fun hh => absurd rfl hh)
    (fun _ => ⟨rfl, fun _ => rfl⟩) e h

/-- the shape theorem -/
theorem run_fail_atomic {σ : Type} (I : Impl σ) (p : Prog) (s : σ)
    (hs : atomicShape p = true) (e : Err) (h : (run I p s).1 = .error e) : (run I p s).2 = s :=
  run_fail_atomic_assuming I [] p s (by intro n hn; cases hn) hs e h

theorem cached_fail_atomic {σ α : Type} (m : Eff σ α) (s : σ) (e : Err) (h : (cached m s).1 = .error e) :
    (cached m s).2 = s := by
  unfold cached at h ⊢
  cases hm : m s with
  | mk r s' => cases r with
    | ok a => simp [hm] at h
    | error e' => simp [hm]

theorem cached_ok {σ α : Type} (m : Eff σ α) (s : σ) (a : α) (s' : σ) (h : m s = (.ok a, s')) :
    cached m s = (.ok a, s') := by
  unfold cached; rw [h]

theorem runItems_append {σ : Type} (a b : List (Eff σ Unit)) (s : σ) :
    runItems (a ++ b) s = runItems b (runItems a s) := by
  unfold runItems; rw [List.foldl_append]

end ExoVerif.Atomic
