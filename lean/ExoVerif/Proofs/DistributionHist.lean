import ExoVerif.Proofs.Distribution
import Mathlib.Tactic.Linarith
/-!
Helper lemmas for the history-level C17 theorems (Props/C17Hist.lean):
  * per-key effect of the validator loop of AllocateTokens (what each operator's outstanding rewards and
    commission grow by), and the pairwise proportionality of two validators' portions;
  * module-account bookkeeping of one epoch-end notification and of one block's notification stream;
  * counting the end notifications of an identifier over every sequence of blocks of the epoch clock
    (all identifiers ticking side by side, stalls and catch-up included).
-/
namespace ExoVerif.Distr
open ExoVerif ExoVerif.KV ExoVerif.Epochs

/-! ## the validator loop, key by key -/

/-- what the loop of AllocateTokens adds to the outstanding rewards stored under operator `k`:
the portions of the (found) validators whose operator address is `k` -/
def portionOf (fm total : Int) (k : String) : List ValIn → Int
  | [] => 0
  | v :: rest => (if v.found = true ∧ v.op = k then valReward fm total v.power else 0) + portionOf fm total k rest

/-- what the loop adds to the accumulated commission stored under operator `k` -/
def commissionOf (fm total : Int) (k : String) : List ValIn → Int
  | [] => 0
  | v :: rest =>
    (if v.found = true ∧ v.op = k then (Dec.mul ⟨valReward fm total v.power⟩ ⟨v.rate⟩).raw else 0) +
      commissionOf fm total k rest

theorem allocValidator_at (p : Pool) (v : ValIn) (tokens : Int) (p' : Pool)
    (h : allocValidator p v tokens = some p') (k : String) :
    getD p'.outstanding k 0 = getD p.outstanding k 0 + (if v.op = k then tokens else 0) ∧
    getD p'.commission k 0 = getD p.commission k 0 + (if v.op = k then (Dec.mul ⟨tokens⟩ ⟨v.rate⟩).raw else 0) := by
  unfold allocValidator allocValidatorWith at h
  simp only [] at h
  split at h
  · cases h
  · split at h
    · cases h
    · simp only [Option.some.injEq] at h
      subst h
      by_cases hk : v.op = k
      · subst hk
        simp only [getD_bookAdd_same, if_true, and_self]
      · have hk' : k ≠ v.op := fun e => hk e.symm
        simp only [getD_bookAdd_other _ _ _ _ hk', hk, if_false, Int.add_zero, and_self]

/-- the loop over the validators, key by key -/
theorem valLoop_at (fm total : Int) (k : String) :
    ∀ (vals : List ValIn) (p : Pool) (rem : Int) (p' : Pool) (rem' : Int),
      valLoop fm total vals p rem = some (p', rem') →
      getD p'.outstanding k 0 = getD p.outstanding k 0 + portionOf fm total k vals ∧
      getD p'.commission k 0 = getD p.commission k 0 + commissionOf fm total k vals := by
  intro vals
  induction vals with
  | nil =>
    intro p rem p' rem' h
    simp only [valLoop, valLoopWith, Option.some.injEq, Prod.mk.injEq] at h
    obtain ⟨h1, _⟩ := h; subst h1
    simp [portionOf, commissionOf]
  | cons v rest ih =>
    intro p rem p' rem' h
    simp only [valLoop, valLoopWith] at h
    split at h
    · rename_i hnf
      have hf : ¬ (v.found = true) := by simpa using hnf
      obtain ⟨i1, i2⟩ := ih _ _ _ _ h
      simp only [portionOf, commissionOf, hf, Bool.false_eq_true, false_and, if_false, Int.zero_add]
      exact ⟨i1, i2⟩
    · rename_i hnf
      have hf : v.found = true := by simpa using hnf
      split at h
      · cases h
      · rename_i p1 heq
        split at h
        · cases h
        · obtain ⟨a1, a2⟩ := allocValidator_at p v _ p1 heq k
          obtain ⟨i1, i2⟩ := ih _ _ _ _ h
          simp only [portionOf, commissionOf, hf, true_and]
          rw [i1, i2, a1, a2]
          constructor <;> omega

/-- Two validators' portions are in the ratio of their powers within truncation: cross-multiplied,
portion(v)·power(w) exceeds portion(w)·power(v) by less than (1 + fm·10^-18)·power(v) raw units. -/
theorem valReward_pairwise (fm total pv pw : Int) (hfm : 0 ≤ fm) (hpv : 0 ≤ pv) (hpw : 0 ≤ pw) (ht : 0 < total) :
    valReward fm total pv * pw * PREC ≤ (valReward fm total pw * PREC + PREC + fm) * pv := by
  obtain ⟨_, h1, _⟩ := valReward_bounds fm total pv hfm hpv ht
  obtain ⟨_, _, h2⟩ := valReward_bounds fm total pw hfm hpw ht
  have hP : 0 ≤ pw * PREC := Int.mul_nonneg hpw (Int.le_of_lt PREC_pos)
  have a : valReward fm total pv * total * (pw * PREC) ≤ fm * pv * (pw * PREC) :=
    Int.mul_le_mul_of_nonneg_right h1 hP
  have b : fm * pw * PREC * pv ≤ (valReward fm total pw * PREC + PREC + fm) * total * pv :=
    Int.mul_le_mul_of_nonneg_right (Int.le_of_lt h2) hpv
  have g : valReward fm total pv * pw * PREC * total ≤ (valReward fm total pw * PREC + PREC + fm) * pv * total := by
    linarith [a, b]
  exact Int.le_of_mul_le_mul_right g ht

/-- the portion is monotone in the power: more power never means a smaller portion -/
theorem valReward_zero_power (fm total : Int) (hfm : 0 ≤ fm) (ht : 0 < total) : valReward fm total 0 = 0 := by
  obtain ⟨h0, h1, _⟩ := valReward_bounds fm total 0 hfm (Int.le_refl 0) ht
  have : valReward fm total 0 * total ≤ 0 := by simpa using h1
  have h2 : 0 ≤ valReward fm total 0 * total := Int.mul_nonneg h0 (Int.le_of_lt ht)
  have h3 : valReward fm total 0 * total = 0 := by omega
  rcases Int.mul_eq_zero.1 h3 with h | h
  · exact h
  · omega

/-! ## the staker pay-out loop, key by key -/

/-- what the pay-out loop of AllocateTokensToStakers adds to the rewards of staker `k`: the truncated share of every
entry of `globalStakerAddressList` with that address (the list holds each staker once, `powerAcc`) -/
def paidTo (total R : Int) (k : String) : List (String × Int) → Int
  | [] => 0
  | (s, p) :: rest => (if s = k then stakerReward R p total else 0) + paidTo total R k rest

theorem stakerLoop_at (total R : Int) (k : String) :
    ∀ (l : List (String × Int)) (rw : Book) (rem : Int) (rw' : Book) (rem' : Int),
      stakerLoop total R l rw rem = some (rw', rem') →
      getD rw' k 0 = getD rw k 0 + paidTo total R k l := by
  intro l
  induction l with
  | nil =>
    intro rw rem rw' rem' h
    simp only [stakerLoop, Option.some.injEq, Prod.mk.injEq] at h
    obtain ⟨h1, _⟩ := h; subst h1; simp [paidTo]
  | cons o rest ih =>
    intro rw rem rw' rem' h
    obtain ⟨s, p⟩ := o
    simp only [stakerLoop] at h
    split at h
    · cases h
    · have hi := ih _ _ _ _ h
      rw [hi]
      simp only [paidTo]
      by_cases hk : s = k
      · subst hk
        rw [getD_bookAdd_same]
        simp only [if_true, stakerReward]; omega
      · have hk' : k ≠ s := fun e => hk e.symm
        rw [getD_bookAdd_other _ _ _ _ hk']
        simp only [hk, if_false]; omega

/-! ## module accounts around one notification -/

/-- the mint this notification triggers -/
def mintedBy (c : Cfg) (id : String) : Int := if id == c.mintId then c.reward else 0

theorem onEpochEnd_accounts (c : Cfg) (s : St) (id : String) (total : Int) (vals : List ValIn) (s' : St)
    (h : onEpochEnd c s id total vals = some s') :
    s'.supply = s.supply + mintedBy c id ∧ s'.mint = s.mint ∧
    s'.fc + s'.distr = s.fc + s.distr + mintedBy c id := by
  unfold onEpochEnd at h
  simp only [] at h
  split at h
  · cases h
  · rename_i s0 h0
    simp only [Option.some.injEq] at h
    have hs0 : s0.supply = s.supply ∧ s0.mint = s.mint ∧ s0.fc + s0.distr = s.fc + s.distr := by
      split at h0
      · unfold allocateTokens allocateTokensWith at h0
        simp only [] at h0
        split at h0
        · simp only [Option.some.injEq] at h0; subst h0; refine ⟨rfl, rfl, ?_⟩; simp only []; omega
        · split at h0
          · cases h0
          · simp only [Option.some.injEq] at h0; subst h0; refine ⟨rfl, rfl, ?_⟩; simp only []; omega
      · simp only [Option.some.injEq] at h0; subst h0; exact ⟨rfl, rfl, rfl⟩
    subst h
    unfold mintedBy
    by_cases hid : (id == c.mintId) = true
    · simp only [hid, if_true]
      rw [mintHook_supply, (mintHook_accounts s0 c.reward).1, (mintHook_accounts s0 c.reward).2,
        (mintHook_pool s0 c.reward).2]
      obtain ⟨a, b, d⟩ := hs0
      refine ⟨by omega, b, by omega⟩
    · simp only [hid, Bool.false_eq_true, if_false, Int.add_zero]
      exact hs0

theorem countEnds_append (id : String) (a b : List Ev) : countEnds id (a ++ b) = countEnds id a + countEnds id b := by
  induction a with
  | nil => simp [countEnds]
  | cons ev rest ih =>
    cases ev with
    | epochStart i n => simpa [countEnds] using ih
    | epochEnd i n => simp only [List.cons_append, countEnds, ih]; omega

theorem onEvents_accounts (c : Cfg) (total : Int) (vals : List ValIn) :
    ∀ (evs : List Ev) (s s' : St), onEvents c total vals evs s = some s' →
      s'.supply = s.supply + c.reward * countEnds c.mintId evs ∧ s'.mint = s.mint ∧
      s'.fc + s'.distr = s.fc + s.distr + c.reward * countEnds c.mintId evs := by
  intro evs
  induction evs with
  | nil => intro s s' h; simp only [onEvents, Option.some.injEq] at h; subst h; simp [countEnds]
  | cons ev rest ih =>
    intro s s' h
    cases ev with
    | epochStart id n => simp only [onEvents] at h; simpa [countEnds] using ih s s' h
    | epochEnd id n =>
      simp only [onEvents] at h
      split at h
      · cases h
      · rename_i s1 heq
        obtain ⟨i1, i2, i3⟩ := ih s1 s' h
        obtain ⟨e1, e2, e3⟩ := onEpochEnd_accounts c s id total vals s1 heq
        simp only [countEnds]
        unfold mintedBy at e1 e3
        by_cases hid : (id == c.mintId) = true
        · simp only [hid, if_true] at e1 e3 ⊢
          rw [Int.mul_add, Int.mul_one]
          refine ⟨by omega, by omega, by omega⟩
        · simp only [hid, Bool.false_eq_true, if_false, Int.add_zero] at e1 e3 ⊢
          rw [Int.zero_add]
          refine ⟨by omega, by omega, by omega⟩

/-! ## the epoch clock over a sequence of blocks, all identifiers side by side -/

/-- the epoch infos after a sequence of (block time, height) pairs and every notification sent, in order -/
def clock (es : List EpochInfo) : List (Int × Int) → List EpochInfo × List Ev
  | [] => (es, [])
  | (bt, h) :: rest =>
    let r := beginBlocker es bt h
    let rr := clock r.1 rest
    (rr.1, r.2 ++ rr.2)

def sumL (g : EpochInfo → Int) : List EpochInfo → Int
  | [] => 0
  | e :: rest => g e + sumL g rest

theorem sumL_map (g : EpochInfo → Int) (f : EpochInfo → EpochInfo) (es : List EpochInfo) :
    sumL g (es.map f) = sumL (fun e => g (f e)) es := by
  induction es with
  | nil => rfl
  | cons e rest ih => simp only [List.map_cons, sumL, ih]

theorem sumL_add (g1 g2 : EpochInfo → Int) (es : List EpochInfo) :
    sumL (fun e => g1 e + g2 e) es = sumL g1 es + sumL g2 es := by
  induction es with
  | nil => rfl
  | cons e rest ih => simp only [sumL, ih]; omega

theorem sumL_congr (g1 g2 : EpochInfo → Int) (es : List EpochInfo) (h : ∀ e ∈ es, g1 e = g2 e) :
    sumL g1 es = sumL g2 es := by
  induction es with
  | nil => rfl
  | cons e rest ih =>
    simp only [sumL]
    rw [h e (by simp), ih (fun x hx => h x (by simp [hx]))]

theorem beginBlocker_fst (es : List EpochInfo) (bt h : Int) :
    (beginBlocker es bt h).1 = es.map (fun e => (tick e bt h).1) := by
  induction es with
  | nil => simp [beginBlocker]
  | cons e rest ih => simp only [beginBlocker, List.map_cons]; rw [← ih]

theorem beginBlocker_countEnds (id : String) (es : List EpochInfo) (bt h : Int) :
    countEnds id (beginBlocker es bt h).2 = sumL (fun e => countEnds id (tick e bt h).2) es := by
  induction es with
  | nil => simp [beginBlocker, countEnds, sumL]
  | cons e rest ih =>
    simp only [beginBlocker, sumL]
    rw [countEnds_append, ih]

theorem runTicks_cons (e : EpochInfo) (bt h : Int) (rest : List (Int × Int)) :
    runTicks e ((bt, h) :: rest) =
      ((runTicks (tick e bt h).1 rest).1, (tick e bt h).2 ++ (runTicks (tick e bt h).1 rest).2) := by
  simp only [runTicks]

/-- identifiers do not influence one another over a whole history: the clock of all identifiers is, per
identifier, `runTicks`; the end notifications of `id` in the interleaved stream are those of the single streams -/
theorem clock_spec (id : String) :
    ∀ (ts : List (Int × Int)) (es : List EpochInfo),
      (clock es ts).1 = es.map (fun e => (runTicks e ts).1) ∧
      countEnds id (clock es ts).2 = sumL (fun e => countEnds id (runTicks e ts).2) es := by
  intro ts
  induction ts with
  | nil =>
    intro es
    refine ⟨by simp [clock, runTicks], ?_⟩
    simp only [clock, runTicks, countEnds]
    induction es with
    | nil => rfl
    | cons e rest ih => simp only [sumL]; omega
  | cons p rest ih =>
    intro es
    obtain ⟨bt, h⟩ := p
    obtain ⟨i1, i2⟩ := ih (beginBlocker es bt h).1
    simp only [clock]
    refine ⟨?_, ?_⟩
    · rw [i1, beginBlocker_fst, List.map_map]
      apply List.map_congr_left
      intro e _
      simp only [Function.comp, runTicks_cons]
    · rw [countEnds_append, i2, beginBlocker_countEnds, beginBlocker_fst, sumL_map, ← sumL_add]
      apply sumL_congr
      intro e _
      simp only [runTicks_cons, countEnds_append]

theorem runTicks_id (e : EpochInfo) (ts : List (Int × Int)) : (runTicks e ts).1.identifier = e.identifier := by
  induction ts generalizing e with
  | nil => rfl
  | cons p rest ih =>
    obtain ⟨bt, h⟩ := p
    rw [runTicks_cons]
    simp only []
    rw [ih, tick_id]

theorem runTicks_started (e : EpochInfo) (ts : List (Int × Int)) (hs : e.epochCountingStarted = true) :
    (runTicks e ts).1.epochCountingStarted = true := by
  induction ts generalizing e with
  | nil => exact hs
  | cons p rest ih =>
    obtain ⟨bt, h⟩ := p
    rw [runTicks_cons]
    exact ih _ (tick_started e bt h hs)

/-- epochs of an identifier that ENDED between two of its infos: the advance of the number once counting has
started; from an identifier that has not started counting, the first epoch starts (number 1) without any end -/
def endedBetween (e e' : EpochInfo) : Int :=
  if e.epochCountingStarted then e'.currentEpoch - e.currentEpoch
  else if e'.epochCountingStarted then e'.currentEpoch - 1 else 0

/-- exactly one end notification per ended epoch, over every sequence of blocks (any times, stalls, catch-up),
whether or not counting had started -/
theorem countEnds_runTicks (e : EpochInfo) (ts : List (Int × Int)) :
    countEnds e.identifier (runTicks e ts).2 = endedBetween e (runTicks e ts).1 := by
  induction ts generalizing e with
  | nil =>
    show countEnds e.identifier [] = endedBetween e e
    unfold endedBetween
    by_cases hs : e.epochCountingStarted = true
    · simp [countEnds, hs]
    · simp [countEnds, hs]
  | cons p rest ih =>
    obtain ⟨bt, h⟩ := p
    rw [runTicks_cons]
    simp only [countEnds_append]
    have hi := ih (tick e bt h).1
    rw [tick_id] at hi
    rw [hi]
    rcases tick_cases e bt h with h1 | ⟨_, h0, _, h1⟩ | ⟨_, hs, _, _, h1⟩
    · rw [h1]; simp [countEnds]
    · rw [h1]
      have hst := runTicks_started (startFirst e h) rest rfl
      have hc : (startFirst e h).currentEpoch = 1 := rfl
      have hs1 : (startFirst e h).epochCountingStarted = true := rfl
      simp only [countEnds, endedBetween, h0, hst, hs1, hc, Bool.false_eq_true, if_false, if_true]
      omega
    · rw [h1]
      have hc : (startNext e h).currentEpoch = e.currentEpoch + 1 := rfl
      have hs1 : (startNext e h).epochCountingStarted = true := hs
      simp only [countEnds, endedBetween, hs, hs1, hc, if_true, beq_self_eq_true]
      omega

/-- the stream of one identifier carries no end notification of another identifier -/
theorem countEnds_runTicks_other (id : String) (e : EpochInfo) (ts : List (Int × Int)) (hne : e.identifier ≠ id) :
    countEnds id (runTicks e ts).2 = 0 := by
  induction ts generalizing e with
  | nil => simp [runTicks, countEnds]
  | cons p rest ih =>
    obtain ⟨bt, h⟩ := p
    rw [runTicks_cons]
    simp only [countEnds_append]
    rw [ih (tick e bt h).1 (by rw [tick_id]; exact hne)]
    have hb : (e.identifier == id) = false := by simpa using hne
    rcases tick_cases e bt h with h1 | ⟨_, _, _, h1⟩ | ⟨_, _, _, _, h1⟩ <;> rw [h1] <;> simp [countEnds, hb]

end ExoVerif.Distr
