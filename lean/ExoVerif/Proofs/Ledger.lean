import ExoVerif.Model.Ledger
/-! Helper lemmas about the ledger model: what each primitive write does (spec lemmas) and how
    it moves the per-asset value that C01 talks about. Core Lean only. -/
namespace ExoVerif.Ledger
open ExoVerif ExoVerif.KV

/-! ## primitives -/

theorem upd_ok {v d r : Int} (h : upd v d = .ok r) : r = v + d ∧ (0 ≤ v → 0 ≤ r) := by
  unfold upd at h
  split at h
  · cases h
  · injection h with h; subst h
    refine ⟨rfl, fun hv => ?_⟩
    rename_i hc
    omega

theorem updDec_ok {v d r : Dec} (h : updDec v d = .ok r) : r.raw = v.raw + d.raw ∧ (0 ≤ v.raw → 0 ≤ r.raw) := by
  unfold updDec at h
  split at h
  · cases h
  · injection h with h; subst h
    refine ⟨rfl, fun hv => ?_⟩
    rename_i hc
    simp only []
    omega

theorem updStaker_ok {s s' : L} {st : SID} {a : AID} {dT dW dP : Int}
    (h : updStaker s st a dT dW dP = .ok s') :
    s' = { s with stakers := KV.set s.stakers (st, a) <|
            (StakerRow.mk ((getD s.stakers (st, a) zeroStaker).total + dT)
             ((getD s.stakers (st, a) zeroStaker).withdrawable + dW)
             ((getD s.stakers (st, a) zeroStaker).pending + dP)) } := by
  unfold updStaker at h
  simp only [bind, Except.bind] at h
  split at h
  · cases h
  · rename_i t ht
    split at h
    · cases h
    · rename_i w hw
      split at h
      · cases h
      · rename_i p hp
        simp only [pure, Except.pure] at h
        injection h with h
        rw [← h, (upd_ok ht).1, (upd_ok hw).1, (upd_ok hp).1]

/-- the three figures of the written row stay non-negative if they were -/
theorem updStaker_nonneg {s s' : L} {st : SID} {a : AID} {dT dW dP : Int}
    (h : updStaker s st a dT dW dP = .ok s') :
    let r := getD s.stakers (st, a) zeroStaker
    (0 ≤ r.total → 0 ≤ r.total + dT) ∧ (0 ≤ r.withdrawable → 0 ≤ r.withdrawable + dW) ∧
    (0 ≤ r.pending → 0 ≤ r.pending + dP) := by
  unfold updStaker at h
  simp only [bind, Except.bind] at h
  split at h
  · cases h
  · rename_i t ht
    split at h
    · cases h
    · rename_i w hw
      split at h
      · cases h
      · rename_i p hp
        have h1 := upd_ok ht; have h2 := upd_ok hw; have h3 := upd_ok hp
        refine ⟨fun x => ?_, fun x => ?_, fun x => ?_⟩
        · rw [← h1.1]; exact h1.2 x
        · rw [← h2.1]; exact h2.2 x
        · rw [← h3.1]; exact h3.2 x

theorem updPool_ok {s s' : L} {o : OID} {a : AID} {dA dP : Int} {dS dO : Dec}
    (h : updPool s o a dA dP dS dO = .ok s') :
    ∃ ts os : Dec,
      ts.raw = (getD s.pools (o, a) zeroPool).totalShare.raw + dS.raw ∧
      os.raw = (getD s.pools (o, a) zeroPool).opShare.raw + dO.raw ∧
      s' = { s with pools := KV.set s.pools (o, a) <|
              (Pool.mk ((getD s.pools (o, a) zeroPool).amount + dA)
                       ((getD s.pools (o, a) zeroPool).pending + dP) ts os) } := by
  unfold updPool at h
  simp only [bind, Except.bind] at h
  split at h
  · cases h
  · rename_i am ham
    split at h
    · cases h
    · rename_i pe hpe
      split at h
      · cases h
      · rename_i ts hts
        split at h
        · cases h
        · rename_i os hos
          simp only [pure, Except.pure] at h
          injection h with h
          refine ⟨ts, os, (updDec_ok hts).1, (updDec_ok hos).1, ?_⟩
          rw [← h, (upd_ok ham).1, (upd_ok hpe).1]

theorem updDeleg_ok {s s' : L} {st : SID} {a : AID} {o : OID} {dS : Dec} {dW : Int} {z : Bool}
    (h : updDeleg s st a o dS dW = .ok (s', z)) :
    ∃ sh : Dec, sh.raw = (getD s.deleg (st, a, o) zeroDeleg).share.raw + dS.raw ∧
      z = (sh.raw == 0) ∧
      s' = { s with deleg := KV.set s.deleg (st, a, o) <|
              (DelegRow.mk sh ((getD s.deleg (st, a, o) zeroDeleg).wait + dW)) } := by
  unfold updDeleg at h
  simp only [bind, Except.bind] at h
  split at h
  · cases h
  · rename_i w hw
    split at h
    · cases h
    · rename_i sh hsh
      simp only [pure, Except.pure] at h
      injection h with h
      injection h with h1 h2
      refine ⟨sh, (updDec_ok hsh).1, h2.symm, ?_⟩
      rw [← h1, (upd_ok hw).1]

theorem updTotal_ok {s s' : L} {a : AID} {d : Int} (h : updTotal s a d = .ok s') :
    ∃ t : Int, find? s.totals a = some t ∧ s' = { s with totals := KV.set s.totals a (t + d) } := by
  unfold updTotal at h
  split at h
  · cases h
  · rename_i t ht
    simp only [bind, Except.bind] at h
    split at h
    · cases h
    · rename_i t' ht'
      simp only [pure, Except.pure] at h
      injection h with h
      exact ⟨t, ht, by rw [← h, (upd_ok ht').1]⟩

/-! ## the per-asset value of C01 -/

def wAt (a : AID) : (SID × AID) × StakerRow → Int := fun e => if e.1.2 = a then e.2.withdrawable else 0
def pAt (a : AID) : (OID × AID) × Pool → Int := fun e => if e.1.2 = a then e.2.amount else 0
def rAt (a : AID) : RecKey × URec → Int := fun e => if e.2.asset = a then e.2.actual else 0

/-- Σ withdrawable + Σ pool amounts + Σ amounts still owed by pending undelegations, for asset `a` -/
def value (s : L) (a : AID) : Int :=
  sumP (wAt a) s.stakers + sumP (pAt a) s.pools + sumP (rAt a) s.recs

theorem value_updStaker {s s' : L} {st : SID} {a0 : AID} {dT dW dP : Int} (a : AID)
    (h : updStaker s st a0 dT dW dP = .ok s') :
    value s' a = value s a + (if a0 = a then dW else 0) := by
  rw [updStaker_ok h]
  unfold value
  simp only [sumP_set]
  rw [atP_getD (wAt a) s.stakers (st, a0) zeroStaker (by simp [wAt, zeroStaker])]
  simp only [wAt]
  split <;> omega

theorem value_updPool {s s' : L} {o : OID} {a0 : AID} {dA dP : Int} {dS dO : Dec} (a : AID)
    (h : updPool s o a0 dA dP dS dO = .ok s') :
    value s' a = value s a + (if a0 = a then dA else 0) := by
  obtain ⟨ts, os, _, _, hs⟩ := updPool_ok h
  rw [hs]
  unfold value
  simp only [sumP_set]
  rw [atP_getD (pAt a) s.pools (o, a0) zeroPool (by simp [pAt, zeroPool])]
  simp only [pAt]
  split <;> omega

theorem value_updDeleg {s s' : L} {st : SID} {a0 : AID} {o : OID} {dS : Dec} {dW : Int} {z : Bool} (a : AID)
    (h : updDeleg s st a0 o dS dW = .ok (s', z)) : value s' a = value s a := by
  obtain ⟨sh, _, _, hs⟩ := updDeleg_ok h
  rw [hs]; rfl

theorem value_updTotal {s s' : L} {a0 : AID} {d : Int} (a : AID)
    (h : updTotal s a0 d = .ok s') : value s' a = value s a := by
  obtain ⟨t, _, hs⟩ := updTotal_ok h
  rw [hs]; rfl

theorem value_appendStaker (s : L) (o : OID) (a0 : AID) (st : SID) (a : AID) :
    value (appendStaker s o a0 st) a = value s a := by
  unfold appendStaker
  simp only []
  split <;> rfl

theorem value_deleteStaker {s s' : L} {o : OID} {a0 : AID} {st : SID} (a : AID)
    (h : deleteStaker s o a0 st = .ok s') : value s' a = value s a := by
  unfold deleteStaker at h
  split at h
  · cases h
  · injection h with h; rw [← h]; rfl

end ExoVerif.Ledger

namespace ExoVerif.Ledger
open ExoVerif ExoVerif.KV

/-! ## the three undelegation stores (C03) -/

/-- index consistency of the record store, the staker index and the pending index, plus
    "live records carry pairwise distinct nonces" (the LayerZero nonce discipline). -/
structure RecInv (s : L) : Prop where
  ndR : NoDup s.recs
  ndS : NoDup s.sidx
  ndP : NoDup s.pidx
  keyed : ∀ k r, find? s.recs k = some r →
    r.key = k ∧ find? s.pidx (r.completeBlock, r.nonce) = some k ∧
    find? s.sidx (r.staker, r.asset, r.nonce) = some k
  pback : ∀ pk k, find? s.pidx pk = some k → ∃ r, find? s.recs k = some r ∧ (r.completeBlock, r.nonce) = pk
  sback : ∀ sk k, find? s.sidx sk = some k → ∃ r, find? s.recs k = some r ∧ (r.staker, r.asset, r.nonce) = sk
  uniq : ∀ k1 k2 r1 r2, find? s.recs k1 = some r1 → find? s.recs k2 = some r2 → r1.nonce = r2.nonce → k1 = k2

/-- a nonce no live record uses -/
def FreshNonce (s : L) (n : Nat) : Prop := ∀ k r, find? s.recs k = some r → r.nonce ≠ n

theorem RecInv.fresh_keys {s : L} (hi : RecInv s) {n : Nat} (hf : FreshNonce s n) :
    (∀ k, k.nonce = n → find? s.recs k = none) ∧ (∀ c, find? s.pidx (c, n) = none) ∧
    (∀ st a, find? s.sidx (st, a, n) = none) := by
  refine ⟨fun k hk => ?_, fun c => ?_, fun st a => ?_⟩
  · cases h : find? s.recs k with
    | none => rfl
    | some r =>
      have h1 := (hi.keyed k r h).1
      have : r.nonce = n := by rw [← hk, ← h1]; rfl
      exact absurd this (hf k r h)
  · cases h : find? s.pidx (c, n) with
    | none => rfl
    | some k =>
      obtain ⟨r, hr, he⟩ := hi.pback _ _ h
      have : r.nonce = n := by injection he
      exact absurd this (hf k r hr)
  · cases h : find? s.sidx (st, a, n) with
    | none => rfl
    | some k =>
      obtain ⟨r, hr, he⟩ := hi.sback _ _ h
      have : r.nonce = n := by
        injection he with _ he2; injection he2
      exact absurd this (hf k r hr)

/-- writing a record with a fresh nonce keeps the three stores consistent -/
theorem recInv_setRecord {s s' : L} {r : URec} (hi : RecInv s) (hf : FreshNonce s r.nonce)
    (h : setRecord s r = .ok s') : RecInv s' := by
  unfold setRecord at h
  split at h
  · cases h
  · injection h with h
    obtain ⟨f1, f2, f3⟩ := hi.fresh_keys hf
    have hk : r.key.nonce = r.nonce := rfl
    subst h
    refine ⟨noDup_set _ _ _ hi.ndR, noDup_set _ _ _ hi.ndS, noDup_set _ _ _ hi.ndP, ?_, ?_, ?_, ?_⟩
    · intro k r0 hfind
      simp only [] at hfind ⊢
      by_cases hkk : k = r.key
      · subst hkk
        rw [find?_set_same] at hfind
        injection hfind with hfind; subst hfind
        exact ⟨rfl, find?_set_same _ _ _, find?_set_same _ _ _⟩
      · rw [find?_set_other _ _ _ _ hkk] at hfind
        obtain ⟨a1, a2, a3⟩ := hi.keyed k r0 hfind
        have hn : r0.nonce ≠ r.nonce := hf k r0 hfind
        refine ⟨a1, ?_, ?_⟩
        · rw [find?_set_other _ _ _ _ (by intro e; injection e with _ e2; exact hn e2)]; exact a2
        · rw [find?_set_other _ _ _ _ (by intro e; injection e with _ e2; injection e2 with _ e3; exact hn e3)]; exact a3
    · intro pk k hfind
      simp only [] at hfind ⊢
      by_cases hpk : pk = (r.completeBlock, r.nonce)
      · subst hpk
        rw [find?_set_same] at hfind
        injection hfind with hfind; subst hfind
        exact ⟨r, find?_set_same _ _ _, rfl⟩
      · rw [find?_set_other _ _ _ _ hpk] at hfind
        obtain ⟨r0, hr0, he⟩ := hi.pback pk k hfind
        have hkk : k ≠ r.key := by
          intro e; subst e; rw [f1 r.key hk] at hr0; cases hr0
        exact ⟨r0, by rw [find?_set_other _ _ _ _ hkk]; exact hr0, he⟩
    · intro sk k hfind
      simp only [] at hfind ⊢
      by_cases hsk : sk = (r.staker, r.asset, r.nonce)
      · subst hsk
        rw [find?_set_same] at hfind
        injection hfind with hfind; subst hfind
        exact ⟨r, find?_set_same _ _ _, rfl⟩
      · rw [find?_set_other _ _ _ _ hsk] at hfind
        obtain ⟨r0, hr0, he⟩ := hi.sback sk k hfind
        have hkk : k ≠ r.key := by
          intro e; subst e; rw [f1 r.key hk] at hr0; cases hr0
        exact ⟨r0, by rw [find?_set_other _ _ _ _ hkk]; exact hr0, he⟩
    · intro k1 k2 r1 r2 h1 h2 hn
      simp only [] at h1 h2
      by_cases e1 : k1 = r.key <;> by_cases e2 : k2 = r.key
      · rw [e1, e2]
      · subst e1
        rw [find?_set_same] at h1; injection h1 with h1; subst h1
        rw [find?_set_other _ _ _ _ e2] at h2
        exact absurd hn.symm (hf k2 r2 h2)
      · subst e2
        rw [find?_set_same] at h2; injection h2 with h2; subst h2
        rw [find?_set_other _ _ _ _ e1] at h1
        exact absurd hn (hf k1 r1 h1)
      · rw [find?_set_other _ _ _ _ e1] at h1
        rw [find?_set_other _ _ _ _ e2] at h2
        exact hi.uniq k1 k2 r1 r2 h1 h2 hn

/-- deleting a live record (by its own keys) keeps the three stores consistent -/
theorem recInv_deleteRecord {s : L} {r : URec} (hi : RecInv s) (hr : find? s.recs r.key = some r) :
    RecInv (deleteRecord s r) := by
  unfold deleteRecord
  obtain ⟨_, hp, hs⟩ := hi.keyed _ _ hr
  refine ⟨noDup_erase _ _ hi.ndR, noDup_erase _ _ hi.ndS, noDup_erase _ _ hi.ndP, ?_, ?_, ?_, ?_⟩
  · intro k r0 hfind
    simp only [] at hfind ⊢
    have hkk : k ≠ r.key := by
      intro e; subst e; rw [find?_erase_same _ _ hi.ndR] at hfind; cases hfind
    rw [find?_erase_other _ _ _ hkk] at hfind
    obtain ⟨a1, a2, a3⟩ := hi.keyed k r0 hfind
    have hn : r0.nonce ≠ r.nonce := fun e => hkk (hi.uniq _ _ _ _ hfind hr e)
    refine ⟨a1, ?_, ?_⟩
    · rw [find?_erase_other _ _ _ (by intro e; injection e with _ e2; exact hn e2)]; exact a2
    · rw [find?_erase_other _ _ _ (by intro e; injection e with _ e2; injection e2 with _ e3; exact hn e3)]; exact a3
  · intro pk k hfind
    simp only [] at hfind ⊢
    have hpk : pk ≠ (r.completeBlock, r.nonce) := by
      intro e; subst e; rw [find?_erase_same _ _ hi.ndP] at hfind; cases hfind
    rw [find?_erase_other _ _ _ hpk] at hfind
    obtain ⟨r0, hr0, he⟩ := hi.pback pk k hfind
    have hkk : k ≠ r.key := by
      intro e; subst e; rw [hr] at hr0; injection hr0 with hr0; subst hr0; exact hpk he.symm
    exact ⟨r0, by rw [find?_erase_other _ _ _ hkk]; exact hr0, he⟩
  · intro sk k hfind
    simp only [] at hfind ⊢
    have hsk : sk ≠ (r.staker, r.asset, r.nonce) := by
      intro e; subst e; rw [find?_erase_same _ _ hi.ndS] at hfind; cases hfind
    rw [find?_erase_other _ _ _ hsk] at hfind
    obtain ⟨r0, hr0, he⟩ := hi.sback sk k hfind
    have hkk : k ≠ r.key := by
      intro e; subst e; rw [hr] at hr0; injection hr0 with hr0; subst hr0; exact hsk he.symm
    exact ⟨r0, by rw [find?_erase_other _ _ _ hkk]; exact hr0, he⟩
  · intro k1 k2 r1 r2 h1 h2 hn
    simp only [] at h1 h2
    have e1 : k1 ≠ r.key := by
      intro e; subst e; rw [find?_erase_same _ _ hi.ndR] at h1; cases h1
    have e2 : k2 ≠ r.key := by
      intro e; subst e; rw [find?_erase_same _ _ hi.ndR] at h2; cases h2
    rw [find?_erase_other _ _ _ e1] at h1
    rw [find?_erase_other _ _ _ e2] at h2
    exact hi.uniq k1 k2 r1 r2 h1 h2 hn

end ExoVerif.Ledger

namespace ExoVerif.Ledger
open ExoVerif ExoVerif.KV

theorem atP_of_find {κ α : Type} [DecidableEq κ] (f : κ × α → Int) (m : List (κ × α)) (k : κ) (v : α)
    (h : find? m k = some v) : atP f m k = f (k, v) := by
  unfold atP; rw [h]

theorem atP_of_none {κ α : Type} [DecidableEq κ] (f : κ × α → Int) (m : List (κ × α)) (k : κ)
    (h : find? m k = none) : atP f m k = 0 := by
  unfold atP; rw [h]

theorem value_setRecord {s s' : L} {r : URec} (a : AID) (hfresh : find? s.recs r.key = none)
    (h : setRecord s r = .ok s') :
    value s' a = value s a + (if r.asset = a then r.actual else 0) := by
  unfold setRecord at h
  split at h
  · cases h
  · injection h with h; subst h
    unfold value
    simp only [sumP_set, atP_of_none _ _ _ hfresh, rAt]
    omega

theorem value_deleteRecord {s : L} {r : URec} (a : AID) (hr : find? s.recs r.key = some r) :
    value (deleteRecord s r) a = value s a - (if r.asset = a then r.actual else 0) := by
  unfold deleteRecord value
  simp only [sumP_erase, atP_of_find _ _ _ _ hr, rAt]
  omega

/-- the record stores are untouched by the ledger primitives -/
theorem updStaker_recs {s s' : L} {st : SID} {a : AID} {dT dW dP : Int}
    (h : updStaker s st a dT dW dP = .ok s') :
    s'.recs = s.recs ∧ s'.sidx = s.sidx ∧ s'.pidx = s.pidx ∧ s'.holds = s.holds ∧ s'.height = s.height ∧
    s'.unbonding = s.unbonding := by
  rw [updStaker_ok h]; exact ⟨rfl, rfl, rfl, rfl, rfl, rfl⟩

theorem updPool_recs {s s' : L} {o : OID} {a : AID} {dA dP : Int} {dS dO : Dec}
    (h : updPool s o a dA dP dS dO = .ok s') :
    s'.recs = s.recs ∧ s'.sidx = s.sidx ∧ s'.pidx = s.pidx ∧ s'.holds = s.holds ∧ s'.height = s.height ∧
    s'.unbonding = s.unbonding := by
  obtain ⟨_, _, _, _, hs⟩ := updPool_ok h
  rw [hs]; exact ⟨rfl, rfl, rfl, rfl, rfl, rfl⟩

theorem updDeleg_recs {s s' : L} {st : SID} {a : AID} {o : OID} {dS : Dec} {dW : Int} {z : Bool}
    (h : updDeleg s st a o dS dW = .ok (s', z)) :
    s'.recs = s.recs ∧ s'.sidx = s.sidx ∧ s'.pidx = s.pidx ∧ s'.holds = s.holds ∧ s'.height = s.height ∧
    s'.unbonding = s.unbonding := by
  obtain ⟨_, _, _, hs⟩ := updDeleg_ok h
  rw [hs]; exact ⟨rfl, rfl, rfl, rfl, rfl, rfl⟩

theorem deleteStaker_recs {s s' : L} {o : OID} {a : AID} {st : SID} (h : deleteStaker s o a st = .ok s') :
    s'.recs = s.recs ∧ s'.sidx = s.sidx ∧ s'.pidx = s.pidx ∧ s'.holds = s.holds ∧ s'.height = s.height ∧
    s'.unbonding = s.unbonding := by
  unfold deleteStaker at h
  split at h
  · cases h
  · injection h with h; rw [← h]; exact ⟨rfl, rfl, rfl, rfl, rfl, rfl⟩

/-- RecInv only looks at the three record stores -/
theorem recInv_congr {s s' : L} (hi : RecInv s) (h1 : s'.recs = s.recs) (h2 : s'.sidx = s.sidx)
    (h3 : s'.pidx = s.pidx) : RecInv s' := by
  constructor
  · rw [h1]; exact hi.ndR
  · rw [h2]; exact hi.ndS
  · rw [h3]; exact hi.ndP
  · rw [h1, h2, h3]; exact hi.keyed
  · rw [h1, h3]; exact hi.pback
  · rw [h1, h2]; exact hi.sback
  · rw [h1]; exact hi.uniq

end ExoVerif.Ledger

namespace ExoVerif.Ledger
open ExoVerif ExoVerif.KV

abbrev SameRecs (s s' : L) : Prop :=
  s'.recs = s.recs ∧ s'.sidx = s.sidx ∧ s'.pidx = s.pidx ∧ s'.holds = s.holds ∧ s'.height = s.height ∧
    s'.unbonding = s.unbonding

theorem SameRecs.trans {a b c : L} (h1 : SameRecs a b) (h2 : SameRecs b c) : SameRecs a c := by
  obtain ⟨a1, a2, a3, a4, a5, a6⟩ := h1
  obtain ⟨b1, b2, b3, b4, b5, b6⟩ := h2
  exact ⟨b1.trans a1, b2.trans a2, b3.trans a3, b4.trans a4, b5.trans a5, b6.trans a6⟩

theorem removeShareFromOperator_spec {s s' : L} {isU : Bool} {o : OID} {st : SID} {a0 : AID} {share : Dec}
    {removed : Int} (a : AID) (h : removeShareFromOperator s isU o st a0 share = .ok (s', removed)) :
    value s' a = value s a - (if a0 = a then removed else 0) ∧ SameRecs s s' := by
  unfold removeShareFromOperator at h
  simp only [bind, Except.bind, pure, Except.pure, throw, throwThe, MonadExceptOf.throw] at h
  split at h
  · cases h
  · split at h
    · cases h
    · rename_i p hp
      split at h
      · cases h
      · split at h
        · cases h
        · rename_i rem hrem
          split at h
          · cases h
          · rename_i s1 h1
            injection h with h
            injection h with ha hb
            subst ha; subst hb
            refine ⟨?_, updPool_recs h1⟩
            rw [value_updPool a h1]; split <;> omega

theorem pendStaker_spec {s s' : L} {isU : Bool} {st : SID} {a0 : AID} {removed : Int} (a : AID)
    (h : pendStaker s isU st a0 removed = .ok s') : value s' a = value s a ∧ SameRecs s s' := by
  unfold pendStaker at h
  split at h
  · refine ⟨?_, updStaker_recs h⟩
    rw [value_updStaker a h]; split <;> omega
  · injection h with h; subst h; exact ⟨rfl, rfl, rfl, rfl, rfl, rfl, rfl⟩

theorem removeShare_spec {s s' : L} {isU : Bool} {o : OID} {st : SID} {a0 : AID} {share : Dec}
    {removed : Int} (a : AID) (h : removeShare s isU o st a0 share = .ok (s', removed)) :
    value s' a = value s a - (if a0 = a then removed else 0) ∧ SameRecs s s' := by
  unfold removeShare at h
  simp only [bind, Except.bind, pure, Except.pure, throw, throwThe, MonadExceptOf.throw] at h
  split at h
  · cases h
  · split at h
    · cases h
    · rename_i p1 h1
      obtain ⟨s1, rem⟩ := p1
      obtain ⟨v1, r1⟩ := removeShareFromOperator_spec a h1
      simp only [] at h
      split at h
      · cases h
      · rename_i s2 h2
        split at h
        · cases h
        · rename_i p3 h3
          obtain ⟨s3, z⟩ := p3
          simp only [] at h
          split at h
          · cases h
          · rename_i s4 h4
            injection h with h
            injection h with ha hb
            subst ha; subst hb
            -- s2: optional staker pending update
            have v2 : value s2 a = value s1 a ∧ SameRecs s1 s2 := pendStaker_spec a h2
            have v3 := value_updDeleg a h3
            have r3 := updDeleg_recs h3
            have v4 : value s4 a = value s3 a ∧ SameRecs s3 s4 := by
              cases z
              · simp only [Bool.false_eq_true, if_false] at h4
                injection h4 with h4; subst h4; exact ⟨rfl, rfl, rfl, rfl, rfl, rfl, rfl⟩
              · simp only [if_true] at h4
                exact ⟨value_deleteStaker a h4, deleteStaker_recs h4⟩
            refine ⟨?_, (r1.trans v2.2).trans (SameRecs.trans r3 v4.2)⟩
            rw [v4.1, v3, v2.1, v1]

end ExoVerif.Ledger

namespace ExoVerif.Ledger
open ExoVerif ExoVerif.KV

/-- C01 + C03 for UndelegateFrom with a fresh nonce: value unchanged, exactly one new record with
amount = actual = the tokens removed from the pool, completion height = now + unbonding, stores consistent. -/
theorem undelegate_spec {s s' : L} {st : SID} {a0 : AID} {o : OID} {x : Int} {n : Nat} {hash : String}
    (hi : RecInv s) (hf : FreshNonce s n) (h : undelegate s st a0 o x n hash = .ok s') :
    (∀ a, value s' a = value s a) ∧ RecInv s' ∧
    ∃ r : URec, r.staker = st ∧ r.asset = a0 ∧ r.op = o ∧ r.nonce = n ∧ r.hash = hash ∧
      r.blockNumber = s.height ∧ r.completeBlock = s.height + s.unbonding ∧ r.actual = r.amount ∧
      find? s'.recs r.key = some r ∧ find? s.recs r.key = none ∧
      (∀ k, k ≠ r.key → find? s'.recs k = find? s.recs k) := by
  unfold undelegate at h
  simp only [bind, Except.bind, throw, throwThe, MonadExceptOf.throw] at h
  split at h
  · cases h
  · split at h
    · cases h
    · split at h
      · cases h
      · rename_i share hshare
        split at h
        · cases h
        · rename_i p1 h1
          obtain ⟨s1, removed⟩ := p1
          simp only [] at h
          have hsr : SameRecs s s1 := (removeShare_spec a0 h1).2
          obtain ⟨e1, e2, e3, e4, e5, e6⟩ := hsr
          have hi1 : RecInv s1 := recInv_congr hi e1 e2 e3
          have hf1 : FreshNonce s1 n := by intro k r hk; rw [e1] at hk; exact hf k r hk
          generalize hr : (URec.mk st a0 o hash n s1.height (s1.height + s1.unbonding) removed removed) = r at h
          have hrn : r.nonce = n := by rw [← hr]
          have hfr : FreshNonce s1 r.nonce := by rw [hrn]; exact hf1
          have hfresh1 : find? s1.recs r.key = none := (hi1.fresh_keys hfr).1 r.key rfl
          refine ⟨fun a => ?_, recInv_setRecord hi1 hfr h, r, ?_⟩
          · rw [value_setRecord a hfresh1 h, (removeShare_spec a h1).1]
            have : r.asset = a0 := by rw [← hr]
            have : r.actual = removed := by rw [← hr]
            rw [‹r.asset = a0›, ‹r.actual = removed›]; split <;> omega
          · have hs' : s' = { s1 with recs := KV.set s1.recs r.key r, sidx := KV.set s1.sidx (r.staker, r.asset, r.nonce) r.key, pidx := KV.set s1.pidx (r.completeBlock, r.nonce) r.key } := by
              unfold setRecord at h
              split at h
              · cases h
              · injection h with h; exact h.symm
            refine ⟨by rw [← hr], by rw [← hr], by rw [← hr], hrn, by rw [← hr], by rw [← hr, e5],
              by rw [← hr, e5, e6], by rw [← hr], ?_, by rw [← e1]; exact hfresh1, ?_⟩
            · rw [hs']; exact find?_set_same _ _ _
            · intro k hk; rw [hs']; simp only []; rw [find?_set_other _ _ _ _ hk, e1]

end ExoVerif.Ledger

namespace ExoVerif.Ledger
open ExoVerif ExoVerif.KV

def Live (s : L) (r : URec) : Prop := find? s.recs r.key = some r

/-- EndBlock's staker credit: what it does to value, record stores and the escrow -/
theorem creditStaker_spec {s s' : L} {r : URec} (a : AID) (h : creditStaker s r = .ok s') :
    SameRecs s s' ∧
    value s' a = value s a + (if r.asset = nativeAID then 0 else if r.asset = a then r.actual else 0) ∧
    (r.asset = nativeAID → s'.escrow = s.escrow - r.actual ∧ r.actual ≤ s.escrow ∧ s'.stakers = s.stakers) ∧
    (r.asset ≠ nativeAID → s'.escrow = s.escrow ∧
      (getD s'.stakers (r.staker, r.asset) zeroStaker).withdrawable
        = (getD s.stakers (r.staker, r.asset) zeroStaker).withdrawable + r.actual ∧
      (getD s'.stakers (r.staker, r.asset) zeroStaker).pending
        = (getD s.stakers (r.staker, r.asset) zeroStaker).pending - r.amount) := by
  unfold creditStaker at h
  by_cases hn : r.asset = nativeAID
  · simp only [hn, if_true] at h
    split at h
    · cases h
    · rename_i hlt
      injection h with h; subst h
      refine ⟨⟨rfl, rfl, rfl, rfl, rfl, rfl⟩, by simp [hn, value], fun _ => ⟨rfl, by omega, rfl⟩, fun h' => absurd hn h'⟩
  · simp only [hn, if_false] at h
    refine ⟨updStaker_recs h, ?_, fun h' => absurd h' hn, fun _ => ?_⟩
    · rw [value_updStaker a h]; simp [hn]
    · rw [updStaker_ok h]
      refine ⟨rfl, ?_, ?_⟩
      · simp only [getD_set_same]
      · simp only [getD_set_same]; omega

theorem completeRecord_spec {s s' : L} {r : URec} (hi : RecInv s) (hr : Live s r)
    (h : completeRecord s r = .ok s') :
    (∀ a, value s' a = value s a - (if r.asset = nativeAID ∧ r.asset = a then r.actual else 0)) ∧
    RecInv s' ∧ find? s'.recs r.key = none ∧
    (∀ k, k ≠ r.key → find? s'.recs k = find? s.recs k) ∧ s'.holds = s.holds ∧ s'.height = s.height ∧
    (r.asset = nativeAID → s'.escrow = s.escrow - r.actual ∧ r.actual ≤ s.escrow) ∧
    (r.asset ≠ nativeAID → s'.escrow = s.escrow ∧
      (getD s'.stakers (r.staker, r.asset) zeroStaker).withdrawable
        = (getD s.stakers (r.staker, r.asset) zeroStaker).withdrawable + r.actual ∧
      (getD s'.stakers (r.staker, r.asset) zeroStaker).pending
        = (getD s.stakers (r.staker, r.asset) zeroStaker).pending - r.amount) := by
  unfold completeRecord at h
  simp only [bind, Except.bind, pure, Except.pure] at h
  split at h
  · cases h
  · rename_i p1 h1
    obtain ⟨s1, z⟩ := p1
    simp only [] at h
    split at h
    · cases h
    · rename_i s2 h2
      split at h
      · cases h
      · rename_i s3 h3
        injection h with h; subst h
        obtain ⟨a1, a2, a3, a4, a5, a6⟩ := updDeleg_recs h1
        obtain ⟨⟨b1, b2, b3, b4, b5, b6⟩, _, cn, cl⟩ := creditStaker_spec r.asset h2
        obtain ⟨c1, c2, c3, c4, c5, c6⟩ := updPool_recs h3
        have e1 : s3.recs = s.recs := c1.trans (b1.trans a1)
        have e2 : s3.sidx = s.sidx := c2.trans (b2.trans a2)
        have e3 : s3.pidx = s.pidx := c3.trans (b3.trans a3)
        have hi3 : RecInv s3 := recInv_congr hi e1 e2 e3
        have hr3 : find? s3.recs r.key = some r := by rw [e1]; exact hr
        obtain ⟨_, _, _, _, hs3⟩ := updPool_ok h3
        obtain ⟨_, _, _, hs1⟩ := updDeleg_ok h1
        have hst3 : s3.stakers = s2.stakers := by rw [hs3]
        have hst1 : s1.stakers = s.stakers := by rw [hs1]
        have hes3 : s3.escrow = s2.escrow := by rw [hs3]
        have hes1 : s1.escrow = s.escrow := by rw [hs1]
        refine ⟨fun a => ?_, recInv_deleteRecord hi3 hr3, ?_, ?_, ?_, ?_, ?_, ?_⟩
        · rw [value_deleteRecord a hr3, value_updPool a h3, (creditStaker_spec a h2).2.1, value_updDeleg a h1]
          by_cases ha : r.asset = a
          · subst ha
            by_cases hn : r.asset = nativeAID
            · simp only [hn, if_true, and_self]; omega
            · simp only [hn, if_true, if_false, false_and]; omega
          · simp only [ha, if_false, and_false]
            by_cases hn : r.asset = nativeAID
            · simp only [hn, if_true]; omega
            · simp only [hn, if_false]; omega
        · show find? (erase s3.recs r.key) r.key = none
          exact find?_erase_same _ _ hi3.ndR
        · intro k hk
          show find? (erase s3.recs r.key) k = _
          rw [find?_erase_other _ _ _ hk, e1]
        · show s3.holds = s.holds
          exact c4.trans (b4.trans a4)
        · show s3.height = s.height
          exact c5.trans (b5.trans a5)
        · intro hn
          obtain ⟨x1, x2, _⟩ := cn hn
          show s3.escrow = _ ∧ _
          rw [hes3, x1, hes1]; exact ⟨rfl, by rw [← hes1]; exact x2⟩
        · intro hn
          obtain ⟨x1, x2, x3⟩ := cl hn
          show s3.escrow = _ ∧ (getD s3.stakers _ zeroStaker).withdrawable = _ ∧ (getD s3.stakers _ zeroStaker).pending = _
          rw [hes3, hst3, x1, x2, x3, hes1, hst1]; exact ⟨rfl, rfl, rfl⟩

end ExoVerif.Ledger

namespace ExoVerif.Ledger
open ExoVerif ExoVerif.KV

/-- what one iteration of the EndBlock loop does to a live record and to everything else -/
theorem endBlockRecord_spec {s : L} {r : URec} (hi : RecInv s) (hr : Live s r) :
    ((∀ a, a ≠ nativeAID → value (endBlockRecord s r) a = value s a) ∧
     (endBlockRecord s r).escrow - value (endBlockRecord s r) nativeAID = s.escrow - value s nativeAID) ∧
    RecInv (endBlockRecord s r) ∧
    (∀ k, k ≠ r.key → find? (endBlockRecord s r).recs k = find? s.recs k) ∧
    (endBlockRecord s r).holds = s.holds ∧ (endBlockRecord s r).height = s.height ∧
    (0 < getD s.holds r.key 0 →
        find? (endBlockRecord s r).recs r.key = some { r with completeBlock := s.height + 1 }) ∧
    (getD s.holds r.key 0 = 0 → ∀ s', completeRecord s r = .ok s' → endBlockRecord s r = s') ∧
    (getD s.holds r.key 0 = 0 → ∀ e, completeRecord s r = .error e → endBlockRecord s r = s) := by
  unfold endBlockRecord
  by_cases hh : 0 < getD s.holds r.key 0
  · simp only [hh, if_true]
    have hi1 := recInv_deleteRecord hi hr
    have hk' : ({ r with completeBlock := s.height + 1 } : URec).key = r.key := rfl
    have hfn : FreshNonce (deleteRecord s r) ({ r with completeBlock := s.height + 1 } : URec).nonce := by
      intro k r0 hk0
      show r0.nonce ≠ r.nonce
      have hkk : k ≠ r.key := by
        intro e; subst e
        have : find? (erase s.recs r.key) r.key = none := find?_erase_same _ _ hi.ndR
        rw [show (deleteRecord s r).recs = erase s.recs r.key from rfl, this] at hk0; cases hk0
      have hk1 : find? s.recs k = some r0 := by
        rw [show (deleteRecord s r).recs = erase s.recs r.key from rfl, find?_erase_other _ _ _ hkk] at hk0
        exact hk0
      intro e
      exact hkk (hi.uniq _ _ _ _ hk1 hr e)
    have hfresh : find? (deleteRecord s r).recs ({ r with completeBlock := s.height + 1 } : URec).key = none := by
      rw [hk']; exact find?_erase_same _ _ hi.ndR
    cases hset : setRecord (deleteRecord s r) { r with completeBlock := s.height + 1 } with
    | error e =>
      simp only []
      refine ⟨(by first | trivial | rfl | simp), hi, (by first | trivial | rfl | simp), (by first | trivial | rfl | simp), (by first | trivial | rfl | simp), fun _ => ?_, fun h0 => by omega, fun h0 => by omega⟩
      -- setRecord cannot fail here: completeBlock = height + 1 ≥ height
      unfold setRecord at hset
      split at hset
      · rename_i hlt
        have : (deleteRecord s r).height = s.height := rfl
        simp only [this] at hlt
        omega
      · cases hset
    | ok s2 =>
      simp only []
      have hs2 : s2 = { deleteRecord s r with recs := KV.set (deleteRecord s r).recs r.key { r with completeBlock := s.height + 1 }, sidx := KV.set (deleteRecord s r).sidx (r.staker, r.asset, r.nonce) r.key, pidx := KV.set (deleteRecord s r).pidx (s.height + 1, r.nonce) r.key } := by
        unfold setRecord at hset
        split at hset
        · cases hset
        · injection hset with hset; exact hset.symm
      have hval : ∀ a, value s2 a = value s a := by
        intro a
        rw [value_setRecord a hfresh hset, value_deleteRecord a hr]
        show _ - _ + (if r.asset = a then r.actual else 0) = _
        omega
      have hesc : s2.escrow = s.escrow := by rw [hs2]; rfl
      refine ⟨⟨fun a _ => hval a, by rw [hval, hesc]⟩, recInv_setRecord hi1 hfn hset, fun k hk => ?_, ?_, ?_, fun _ => ?_, fun h0 => by omega, fun h0 => by omega⟩
      · rw [hs2]
        show find? (KV.set (erase s.recs r.key) r.key _) k = _
        rw [find?_set_other _ _ _ _ hk, find?_erase_other _ _ _ hk]
      · rw [hs2]; rfl
      · rw [hs2]; rfl
      · rw [hs2]
        show find? (KV.set (erase s.recs r.key) r.key _) r.key = _
        rw [find?_set_same]
  · have h0 : getD s.holds r.key 0 = 0 := by omega
    simp only [hh, if_false]
    cases hc : completeRecord s r with
    | error e =>
      simp only []
      refine ⟨(by first | trivial | rfl | simp), hi, (by first | trivial | rfl | simp), (by first | trivial | rfl | simp), (by first | trivial | rfl | simp), ?_, ?_, ?_⟩
      · intro h; exact h.elim
      · intro _ s' hs'; cases hs'
      · intro _ _ _; trivial
    | ok s2 =>
      simp only []
      obtain ⟨v, i2, _, oth, hl, hg, cn, cl⟩ := completeRecord_spec hi hr hc
      have hv : (∀ a, a ≠ nativeAID → value s2 a = value s a) ∧
          s2.escrow - value s2 nativeAID = s.escrow - value s nativeAID := by
        refine ⟨fun a ha => ?_, ?_⟩
        · rw [v a]
          by_cases hn : r.asset = nativeAID
          · have : ¬ (r.asset = nativeAID ∧ r.asset = a) := fun h => ha (h.2 ▸ hn)
            simp [this]
          · have : ¬ (r.asset = nativeAID ∧ r.asset = a) := fun h => hn h.1
            simp [this]
        · rw [v nativeAID]
          by_cases hn : r.asset = nativeAID
          · obtain ⟨e1, _⟩ := cn hn
            simp only [hn, and_self, if_true, e1]; omega
          · obtain ⟨e1, _⟩ := cl hn
            have : ¬ (r.asset = nativeAID ∧ r.asset = nativeAID) := fun h => hn h.1
            simp only [this, if_false, e1]; omega
      refine ⟨hv, i2, oth, hl, hg, ?_, ?_, ?_⟩
      · intro h; exact h.elim
      · intro _ s' hs'; injection hs'
      · intro _ e he; cases he

end ExoVerif.Ledger

namespace ExoVerif.Ledger
open ExoVerif ExoVerif.KV

theorem foldl_endBlockRecord_spec (rs : List URec) (s : L) (hi : RecInv s)
    (hl : ∀ r ∈ rs, Live s r) (hd : rs.Pairwise (fun r1 r2 => r1.key ≠ r2.key)) :
    ((∀ a, a ≠ nativeAID → value (rs.foldl endBlockRecord s) a = value s a) ∧
     (rs.foldl endBlockRecord s).escrow - value (rs.foldl endBlockRecord s) nativeAID
       = s.escrow - value s nativeAID) ∧ RecInv (rs.foldl endBlockRecord s) ∧
    (∀ k, (∀ r ∈ rs, r.key ≠ k) → find? (rs.foldl endBlockRecord s).recs k = find? s.recs k) ∧
    (rs.foldl endBlockRecord s).holds = s.holds ∧ (rs.foldl endBlockRecord s).height = s.height ∧
    (∀ r ∈ rs, 0 < getD s.holds r.key 0 →
        find? (rs.foldl endBlockRecord s).recs r.key = some { r with completeBlock := s.height + 1 }) := by
  induction rs generalizing s with
  | nil => exact ⟨⟨fun _ _ => rfl, rfl⟩, hi, fun _ _ => rfl, rfl, rfl, fun r hr => by cases hr⟩
  | cons r0 rest ih =>
    simp only [List.foldl_cons]
    have hr0 : Live s r0 := hl r0 (by simp)
    obtain ⟨v1, i1, oth1, hh1, hg1, held1, _, _⟩ := endBlockRecord_spec hi hr0
    have hd' := List.pairwise_cons.1 hd
    have hl' : ∀ r ∈ rest, Live (endBlockRecord s r0) r := by
      intro r hr
      have hne : r.key ≠ r0.key := fun e => (hd'.1 r hr) e.symm
      show find? (endBlockRecord s r0).recs r.key = some r
      rw [oth1 r.key hne]; exact hl r (by simp [hr])
    obtain ⟨v2, i2, oth2, hh2, hg2, held2⟩ := ih (endBlockRecord s r0) i1 hl' hd'.2
    refine ⟨⟨fun a ha => by rw [v2.1 a ha, v1.1 a ha], by rw [v2.2, v1.2]⟩, i2, ?_, hh2.trans hh1, hg2.trans hg1, ?_⟩
    · intro k hk
      rw [oth2 k (fun r hr => hk r (by simp [hr])), oth1 k (fun e => hk r0 (by simp) e.symm)]
    · intro r hr hheld
      rcases List.mem_cons.1 hr with e | hin
      · subst e
        rw [oth2 r.key (fun r2 hr2 => fun e => (hd'.1 r2 hr2) e.symm)]
        exact held1 hheld
      · have := held2 r hin (by rw [hh1]; exact hheld)
        rw [hg1] at this; exact this

end ExoVerif.Ledger

namespace ExoVerif.Ledger
open ExoVerif ExoVerif.KV

/-- pointwise relation between two lists of equal length -/
inductive Zip2 {α β : Type} (R : α → β → Prop) : List α → List β → Prop
  | nil : Zip2 R [] []
  | cons {a b l1 l2} : R a b → Zip2 R l1 l2 → Zip2 R (a :: l1) (b :: l2)

theorem Zip2.mem_right {α β : Type} {R : α → β → Prop} {l1 : List α} {l2 : List β} (h : Zip2 R l1 l2)
    {b : β} (hb : b ∈ l2) : ∃ a ∈ l1, R a b := by
  induction h with
  | nil => cases hb
  | cons h1 _ ih =>
    rcases List.mem_cons.1 hb with e | e
    · subst e; exact ⟨_, by simp, h1⟩
    · obtain ⟨a, ha, hr⟩ := ih e; exact ⟨a, by simp [ha], hr⟩

theorem Zip2.mem_left {α β : Type} {R : α → β → Prop} {l1 : List α} {l2 : List β} (h : Zip2 R l1 l2)
    {a : α} (ha : a ∈ l1) : ∃ b ∈ l2, R a b := by
  induction h with
  | nil => cases ha
  | cons h1 _ ih =>
    rcases List.mem_cons.1 ha with e | e
    · subst e; exact ⟨_, by simp, h1⟩
    · obtain ⟨b, hb, hr⟩ := ih e; exact ⟨b, by simp [hb], hr⟩

/-- `lookupAll` succeeds iff every key resolves; the result lists the resolved records in order -/
theorem lookupAll_spec (recs : List (RecKey × URec)) (ks : List RecKey)
    (h : ∀ k ∈ ks, ∃ r, find? recs k = some r) :
    ∃ rs, lookupAll recs ks = some rs ∧ Zip2 (fun k r => find? recs k = some r) ks rs := by
  induction ks with
  | nil => exact ⟨[], rfl, Zip2.nil⟩
  | cons k rest ih =>
    obtain ⟨r, hr⟩ := h k (by simp)
    obtain ⟨rs, hrs, hf⟩ := ih (fun k' hk' => h k' (by simp [hk']))
    exact ⟨r :: rs, by simp [lookupAll, hr, hrs], Zip2.cons hr hf⟩

/-- the records due at the current height, as EndBlock sees them -/
theorem pendingRecords_spec {s : L} (hi : RecInv s) :
    ∃ rs, pendingRecords s = some rs ∧
      (∀ r ∈ rs, Live s r ∧ r.completeBlock = s.height) ∧
      rs.Pairwise (fun r1 r2 => r1.key ≠ r2.key) ∧
      (∀ r, Live s r → r.completeBlock = s.height → r ∈ rs) := by
  unfold pendingRecords dueKeys
  -- work with the filtered index entries
  generalize hdue : s.pidx.filter (fun e => e.1.1 = s.height) = due
  have hmem : ∀ e, e ∈ due ↔ e ∈ s.pidx ∧ e.1.1 = s.height := by
    intro e; rw [← hdue]; simp [List.mem_filter]
  have hres : ∀ e ∈ due, ∃ r, find? s.recs e.2 = some r ∧ (r.completeBlock, r.nonce) = e.1 := by
    intro e he
    have := (hmem e).1 he
    exact hi.pback e.1 e.2 (find?_of_mem _ _ _ hi.ndP (by simpa using this.1))
  obtain ⟨rs, hrs, hf⟩ := lookupAll_spec s.recs (due.map (·.2)) (by
    intro k hk
    obtain ⟨e, he, rfl⟩ := List.mem_map.1 hk
    obtain ⟨r, hr, _⟩ := hres e he
    exact ⟨r, hr⟩)
  refine ⟨rs, hrs, ?_, ?_, ?_⟩
  · -- every listed record is live and due
    intro r hr
    obtain ⟨k, hk, hkr⟩ := hf.mem_right hr
    obtain ⟨e, he, rfl⟩ := List.mem_map.1 hk
    obtain ⟨r', hr', hpk⟩ := hres e he
    rw [hkr] at hr'; injection hr' with hr'; subst hr'
    have hkey := (hi.keyed _ _ hkr).1
    refine ⟨by unfold Live; rw [hkey]; exact hkr, ?_⟩
    have := ((hmem e).1 he).2
    rw [← hpk] at this; exact this
  · -- pairwise distinct keys: distinct index entries carry distinct nonces
    have hnd : (due.map (·.1)).Nodup := by
      rw [← hdue]
      exact (List.Nodup.sublist (List.Sublist.map _ List.filter_sublist) hi.ndP)
    clear hrs hmem hdue
    induction due generalizing rs with
    | nil => cases hf; exact List.Pairwise.nil
    | cons e rest ih =>
      cases hf with
      | cons h1 hrest =>
        rename_i r rs'
        simp only [List.map_cons, List.nodup_cons] at hnd
        refine List.pairwise_cons.2 ⟨?_, ih (fun e' he' => hres e' (by simp [he'])) _ hrest hnd.2⟩
        intro r2 hr2 heq
        -- r2 comes from some entry e2 of rest with the same record key ⇒ same record ⇒ same index key
        obtain ⟨k2, hk2, hk2r⟩ := hrest.mem_right hr2
        obtain ⟨e2, he2, rfl⟩ := List.mem_map.1 hk2
        obtain ⟨ra, hra, hpa⟩ := hres e (by simp)
        obtain ⟨rb, hrb, hpb⟩ := hres e2 (by simp [he2])
        have h1' : find? s.recs e.2 = some r := h1
        rw [h1'] at hra; injection hra with hra; subst hra
        rw [hk2r] at hrb; injection hrb with hrb; subst hrb
        have hk1 := (hi.keyed _ _ h1').1
        have hk2' := (hi.keyed _ _ hk2r).1
        have : e.2 = e2.2 := by rw [← hk1, ← hk2', heq]
        rw [this, hk2r] at h1'; injection h1' with h1'; subst h1'
        have : e.1 = e2.1 := by rw [← hpa, ← hpb]
        exact hnd.1 (List.mem_map.2 ⟨e2, he2, this.symm⟩)
  · -- completeness: a live due record is listed
    intro r hlive hdueR
    obtain ⟨_, hp, _⟩ := hi.keyed _ _ hlive
    have hin : ((r.completeBlock, r.nonce), r.key) ∈ due := by
      rw [hmem]; exact ⟨find?_mem _ _ _ hp, hdueR⟩
    have hk : r.key ∈ due.map (·.2) := List.mem_map.2 ⟨_, hin, rfl⟩
    obtain ⟨r', hr', hrr⟩ := hf.mem_left hk
    have hlive' : find? s.recs r.key = some r := hlive
    rw [hlive'] at hrr; injection hrr with hrr; subst hrr; exact hr'

/-- x/delegation EndBlock as a whole -/
theorem endBlock_spec {s : L} (hi : RecInv s) :
    ((∀ a, a ≠ nativeAID → value (endBlock s) a = value s a) ∧
     (endBlock s).escrow - value (endBlock s) nativeAID = s.escrow - value s nativeAID) ∧ RecInv (endBlock s) ∧
    (endBlock s).holds = s.holds ∧ (endBlock s).height = s.height ∧
    (∀ r, Live s r → r.completeBlock ≠ s.height → Live (endBlock s) r) ∧
    (∀ r, Live s r → r.completeBlock = s.height → 0 < getD s.holds r.key 0 →
        find? (endBlock s).recs r.key = some { r with completeBlock := s.height + 1 }) := by
  obtain ⟨rs, hrs, hlive, hpair, hcomplete⟩ := pendingRecords_spec hi
  unfold endBlock
  rw [hrs]
  simp only []
  obtain ⟨v, i, oth, hh, hg, held⟩ := foldl_endBlockRecord_spec rs s hi (fun r hr => (hlive r hr).1) hpair
  refine ⟨v, i, hh, hg, ?_, ?_⟩
  · intro r hl hne
    show find? _ r.key = some r
    rw [oth r.key (fun r2 hr2 e => ?_)]
    · exact hl
    · -- r2 listed ⇒ live and due; same key ⇒ same record ⇒ r due: contradiction
      have h2 := hlive r2 hr2
      have : find? s.recs r2.key = some r2 := h2.1
      rw [e] at this
      have hl' : find? s.recs r.key = some r := hl
      rw [hl'] at this; injection this with this; subst this
      exact hne h2.2
  · intro r hl hdue hheld
    exact held r (hcomplete r hl hdue) hheld

end ExoVerif.Ledger

namespace ExoVerif.Ledger
open ExoVerif ExoVerif.KV

/-! ## the escrow account is only touched by native delegation and native completion -/

theorem updStaker_escrow {s s' : L} {st : SID} {a : AID} {dT dW dP : Int}
    (h : updStaker s st a dT dW dP = .ok s') : s'.escrow = s.escrow := by rw [updStaker_ok h]

theorem updPool_escrow {s s' : L} {o : OID} {a : AID} {dA dP : Int} {dS dO : Dec}
    (h : updPool s o a dA dP dS dO = .ok s') : s'.escrow = s.escrow := by
  obtain ⟨_, _, _, _, hs⟩ := updPool_ok h; rw [hs]

theorem updDeleg_escrow {s s' : L} {st : SID} {a : AID} {o : OID} {dS : Dec} {dW : Int} {z : Bool}
    (h : updDeleg s st a o dS dW = .ok (s', z)) : s'.escrow = s.escrow := by
  obtain ⟨_, _, _, hs⟩ := updDeleg_ok h; rw [hs]

theorem removeShare_escrow {s s' : L} {isU : Bool} {o : OID} {st : SID} {a0 : AID} {share : Dec}
    {removed : Int} (h : removeShare s isU o st a0 share = .ok (s', removed)) : s'.escrow = s.escrow := by
  unfold removeShare at h
  simp only [bind, Except.bind, pure, Except.pure, throw, throwThe, MonadExceptOf.throw] at h
  split at h
  · cases h
  · split at h
    · cases h
    · rename_i p1 h1
      obtain ⟨s1, rem⟩ := p1
      simp only [] at h
      have e1 : s1.escrow = s.escrow := by
        unfold removeShareFromOperator at h1
        simp only [bind, Except.bind, pure, Except.pure, throw, throwThe, MonadExceptOf.throw] at h1
        split at h1
        · cases h1
        · split at h1
          · cases h1
          · split at h1
            · cases h1
            · split at h1
              · cases h1
              · split at h1
                · cases h1
                · rename_i sx hx
                  injection h1 with h1; injection h1 with ha hb; subst ha
                  exact updPool_escrow hx
      split at h
      · cases h
      · rename_i s2 h2
        have e2 : s2.escrow = s1.escrow := by
          unfold pendStaker at h2
          split at h2
          · exact updStaker_escrow h2
          · injection h2 with h2; rw [← h2]
        split at h
        · cases h
        · rename_i p3 h3
          obtain ⟨s3, z⟩ := p3
          simp only [] at h
          have e3 := updDeleg_escrow h3
          split at h
          · cases h
          · rename_i s4 h4
            injection h with h; injection h with ha hb; subst ha
            have e4 : s4.escrow = s3.escrow := by
              cases z
              · simp only [Bool.false_eq_true, if_false] at h4
                injection h4 with h4; rw [← h4]
              · simp only [if_true] at h4
                unfold deleteStaker at h4
                split at h4
                · cases h4
                · injection h4 with h4; rw [← h4]
            rw [e4, e3, e2, e1]

theorem undelegate_escrow {s s' : L} {st : SID} {a0 : AID} {o : OID} {x : Int} {n : Nat} {hash : String}
    (h : undelegate s st a0 o x n hash = .ok s') : s'.escrow = s.escrow := by
  unfold undelegate at h
  simp only [bind, Except.bind, throw, throwThe, MonadExceptOf.throw] at h
  split at h
  · cases h
  · split at h
    · cases h
    · split at h
      · cases h
      · split at h
        · cases h
        · rename_i p1 h1
          obtain ⟨s1, removed⟩ := p1
          simp only [] at h
          have e1 := removeShare_escrow h1
          unfold setRecord at h
          split at h
          · cases h
          · injection h with h; rw [← h]; exact e1

end ExoVerif.Ledger
