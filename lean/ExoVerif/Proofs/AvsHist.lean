import ExoVerif.Proofs.Avs
/-!
Helper lemmas for the history-level C20 theorems (Props/C20Hist.lean):
  * the task store against the per-contract counter (keys are exactly 1..counter, records carry their key, an
    accepted creation never overwrites), and the immutability of a task's identity and windows over every step;
  * which step can turn an opted-in flag on; a generic "first step at which a predicate became true" lemma;
  * the clock of a task address (`epochOfTaskAddr`) over steps that do not touch the registry.
-/
namespace ExoVerif.Avs
open ExoVerif

theorem run_append (s : State) (a b : List Op) : run s (a ++ b) = run (run s a) b := by
  induction a generalizing s with
  | nil => rfl
  | cons o rest ih => simp only [List.cons_append, run, ih]

/-- a predicate that is false before a history and true after it became true at some step -/
theorem exists_flip (P : State → Prop) [DecidablePred P] (ops : List Op) (s : State)
    (h0 : ¬ P s) (h1 : P (run s ops)) :
    ∃ pre o post, ops = pre ++ o :: post ∧ ¬ P (run s pre) ∧ P (step (run s pre) o).1 := by
  induction ops generalizing s with
  | nil => exact absurd h1 h0
  | cons o rest ih =>
    by_cases hp : P (step s o).1
    · exact ⟨[], o, rest, rfl, h0, hp⟩
    · obtain ⟨pre, o', post, e1, e2, e3⟩ := ih (step s o).1 hp h1
      exact ⟨o :: pre, o', post, by rw [e1]; rfl, e2, e3⟩

/-! ## the task store against the counter -/

/-- what never changes in a task record after its creation: identity, windows, hash, name, opted-in snapshot -/
def SameTask (t t' : Task) : Prop :=
  t'.taskAddr = t.taskAddr ∧ t'.id = t.id ∧ t'.startingEpoch = t.startingEpoch ∧ t'.resp = t.resp ∧
  t'.stat = t.stat ∧ t'.chal = t.chal ∧ t'.optIn = t.optIn ∧ t'.hash = t.hash ∧ t'.name = t.name

theorem sameTask_refl (t : Task) : SameTask t t := ⟨rfl, rfl, rfl, rfl, rfl, rfl, rfl, rfl, rfl⟩

theorem sameTask_trans {a b c : Task} (h1 : SameTask a b) (h2 : SameTask b c) : SameTask a c := by
  obtain ⟨a1, a2, a3, a4, a5, a6, a7, a8, a9⟩ := h1
  obtain ⟨b1, b2, b3, b4, b5, b6, b7, b8, b9⟩ := h2
  exact ⟨b1.trans a1, b2.trans a2, b3.trans a3, b4.trans a4, b5.trans a5, b6.trans a6, b7.trans a7, b8.trans a8,
    b9.trans a9⟩

theorem statTask_same (s : State) (pw : Powers) (t t' : Task) (h : statTask s pw t = some t') : SameTask t t' := by
  unfold statTask at h
  split at h
  · simp at h
  · simp only [Option.some.injEq] at h
    subst h
    exact ⟨rfl, rfl, rfl, rfl, rfl, rfl, rfl, rfl, rfl⟩

/-- the task store and the counter: every stored record carries its key, its id lies in 1..counter of its
contract, and every id in 1..counter is stored -/
def TaskStoreInv (s : State) : Prop :=
  KV.NoDup s.tasks ∧
  (∀ k t, KV.find? s.tasks k = some t → t.taskAddr = k.1 ∧ t.id = k.2 ∧ 1 ≤ k.2 ∧ k.2 ≤ counter s k.1) ∧
  (∀ a i, 1 ≤ i → i ≤ counter s a → KV.has s.tasks (a, i) = true)

theorem taskStoreInv_init : TaskStoreInv init := by
  refine ⟨by simp [init, KV.NoDup, KV.keys], ?_, ?_⟩
  · intro k t h; simp [init] at h
  · intro a i h1 h2; simp [init, counter] at h2; omega

theorem taskStoreInv_congr {s s' : State} (h1 : s'.tasks = s.tasks) (h2 : s'.taskNum = s.taskNum)
    (hi : TaskStoreInv s) : TaskStoreInv s' := by
  unfold TaskStoreInv counter at *; rw [h1, h2]; exact hi

/-- AfterEpochEnd key by key: a record is either untouched or replaced by its own `statTask` image -/
theorem epochEnd_find (s : State) (id : String) (n : Int) (pw : Powers) (hnd : KV.NoDup s.tasks) (k : Addr × Nat) :
    KV.find? (epochEnd s id n pw).1.tasks k = KV.find? s.tasks k ∨
    ∃ t t', KV.find? s.tasks k = some t ∧ statTask s pw t = some t' ∧
      KV.find? (epochEnd s id n pw).1.tasks k = some t' := by
  obtain ⟨_, _, h2, h2', h3⟩ := epochEnd_spec s id n pw hnd
  by_cases hk : k ∈ (dueTasks s id n).map (·.1)
  · obtain ⟨kt, hkt, rfl⟩ := List.mem_map.1 hk
    have hmem : kt ∈ s.tasks := by
      simp only [dueTasks, List.mem_filter] at hkt; exact hkt.1
    have hf := KV.find?_of_memA _ kt hnd hmem
    cases hs : statTask s pw kt.2 with
    | none => left; exact h2' kt hkt hs
    | some t' => right; exact ⟨kt.2, t', hf, hs, h2 kt hkt t' hs⟩
  · left; exact h3 k hk

theorem taskStoreInv_epochEnd (s : State) (id : String) (n : Int) (pw : Powers) (hi : TaskStoreInv s) :
    TaskStoreInv (epochEnd s id n pw).1 := by
  obtain ⟨hnd, h1, h2⟩ := hi
  have hnum : (epochEnd s id n pw).1.taskNum = s.taskNum := (epochEnd_frame s id n pw).2.1
  have hc : ∀ a, counter (epochEnd s id n pw).1 a = counter s a := by intro a; unfold counter; rw [hnum]
  refine ⟨(epochEnd_spec s id n pw hnd).2.1, ?_, ?_⟩
  · intro k t hf
    rw [hc]
    rcases epochEnd_find s id n pw hnd k with h | ⟨t0, t', g1, g2, g3⟩
    · rw [h] at hf; exact h1 k t hf
    · rw [g3] at hf
      cases hf
      obtain ⟨b1, b2, _⟩ := statTask_same s pw t0 t g2
      obtain ⟨c1, c2, c3, c4⟩ := h1 k t0 g1
      exact ⟨b1.trans c1, b2.trans c2, c3, c4⟩
  · intro a i hi1 hi2
    rw [hc] at hi2
    have := h2 a i hi1 hi2
    rcases epochEnd_find s id n pw hnd (a, i) with h | ⟨t0, t', g1, g2, g3⟩
    · simp only [KV.has] at this ⊢; rw [h]; exact this
    · simp [KV.has, g3]

/-- an accepted creation writes a key that was absent -/
theorem create_key_fresh (s : State) (a : Addr) (hi : TaskStoreInv s) : KV.find? s.tasks (a, nextTaskId s a) = none := by
  cases hf : KV.find? s.tasks (a, nextTaskId s a) with
  | none => rfl
  | some t =>
    have := (hi.2.1 _ t hf).2.2.2
    rw [nextTaskId_eq] at this
    simp only [] at this
    omega

theorem taskStoreInv_create (s : State) (p : TaskParams) (t : Task) (hi : TaskStoreInv s)
    (h1 : t.id = nextTaskId s p.taskAddr) (h2 : t.taskAddr = p.taskAddr) : TaskStoreInv (afterCreate s p t) := by
  obtain ⟨hnd, g1, g2⟩ := hi
  have hn := nextTaskId_eq s p.taskAddr
  have hcs : counter (afterCreate s p t) p.taskAddr = counter s p.taskAddr + 1 := by
    simp only [afterCreate, counter, KV.find?_set_same, Option.getD_some]; exact hn
  have hco : ∀ a, a ≠ p.taskAddr → counter (afterCreate s p t) a = counter s a := by
    intro a ha; simp only [afterCreate, counter, KV.find?_set_other _ _ _ _ ha]
  refine ⟨KV.noDup_set _ _ _ hnd, ?_, ?_⟩
  · intro k t' hf
    simp only [afterCreate] at hf
    by_cases hk : k = (p.taskAddr, nextTaskId s p.taskAddr)
    · subst hk
      rw [KV.find?_set_same] at hf
      cases hf
      simp only []
      rw [hcs]
      exact ⟨h2, h1, by omega, by omega⟩
    · rw [KV.find?_set_other _ _ _ _ hk] at hf
      obtain ⟨c1, c2, c3, c4⟩ := g1 k t' hf
      refine ⟨c1, c2, c3, ?_⟩
      by_cases ha : k.1 = p.taskAddr
      · rw [ha, hcs]; rw [ha] at c4; omega
      · rw [hco _ ha]; exact c4
  · intro a i hi1 hi2
    simp only [afterCreate]
    rw [KV.has_set]
    by_cases ha : a = p.taskAddr
    · subst ha
      rw [hcs] at hi2
      by_cases hlast : i = counter s p.taskAddr + 1
      · simp [hlast, hn]
      · have := g2 p.taskAddr i hi1 (by omega)
        simp [this]
    · rw [hco _ ha] at hi2
      simp [g2 a i hi1 hi2]

theorem taskStoreInv_step (s : State) (o : Op) (hi : TaskStoreInv s) : TaskStoreInv (step s o).1 := by
  unfold step
  split
  · exact hi
  · cases o with
    | setEpochs e => exact hi
    | setEnv a b => exact hi
    | update p => have h := updateAVS_frame s p; exact taskStoreInv_congr h.2.2.2.2.2.2.2.1 h.1 hi
    | opt d a op avs u => have h := optAction_frame s d a op avs u; exact taskStoreInv_congr h.2.2.2.2.2.2.2.2.1 h.2.1 hi
    | task p =>
      rcases createTask_cases s p with h | ⟨t, h1, h2, h⟩
      · show TaskStoreInv (createTask s p).1; rw [h]; exact hi
      · show TaskStoreInv (createTask s p).1; rw [h]; exact taskStoreInv_create s p t hi h1 h2
    | bls op pk ok => have h := regBLS_frame s op pk ok; exact taskStoreInv_congr h.2.2.2.2.2.2.2.2.1 h.2.1 hi
    | submit i => have h := submit_frame s i; exact taskStoreInv_congr h.2.2.2.2.2.2.1 h.2.1 hi
    | challenge c => have h := challenge_frame s c; exact taskStoreInv_congr h.2.2.2.2.2.2.1 h.2.1 hi
    | epochEnd id n pw => exact taskStoreInv_epochEnd s id n pw hi

theorem taskStoreInv_run (ops : List Op) (s : State) (hi : TaskStoreInv s) : TaskStoreInv (run s ops) := by
  induction ops generalizing s with
  | nil => exact hi
  | cons o rest ih => simp only [run]; exact ih _ (taskStoreInv_step s o hi)

/-- one step never removes a task record and never changes its identity, windows, hash or opted-in snapshot -/
theorem task_kept_step (s : State) (o : Op) (hi : TaskStoreInv s) (k : Addr × Nat) (t : Task)
    (hf : KV.find? s.tasks k = some t) :
    ∃ t', KV.find? (step s o).1.tasks k = some t' ∧ SameTask t t' := by
  have same : ∀ s' : State, s'.tasks = s.tasks → ∃ t', KV.find? s'.tasks k = some t' ∧ SameTask t t' :=
    fun s' h => ⟨t, by rw [h]; exact hf, sameTask_refl t⟩
  unfold step
  split
  · exact same s rfl
  · cases o with
    | setEpochs e => exact same _ rfl
    | setEnv a b => exact same _ rfl
    | update p => exact same _ (updateAVS_frame s p).2.2.2.2.2.2.2.1
    | opt d a op avs u => exact same _ (optAction_frame s d a op avs u).2.2.2.2.2.2.2.2.1
    | task p =>
      rcases createTask_cases s p with h | ⟨t1, h1, h2, h⟩
      · show ∃ t', KV.find? (createTask s p).1.tasks k = some t' ∧ SameTask t t'
        rw [h]; exact same s rfl
      · show ∃ t', KV.find? (createTask s p).1.tasks k = some t' ∧ SameTask t t'
        rw [h]
        have hne : k ≠ (p.taskAddr, nextTaskId s p.taskAddr) := by
          intro e
          rw [e, create_key_fresh s p.taskAddr hi] at hf
          cases hf
        refine ⟨t, ?_, sameTask_refl t⟩
        simp only [afterCreate]
        rw [KV.find?_set_other _ _ _ _ hne]; exact hf
    | bls op pk ok => exact same _ (regBLS_frame s op pk ok).2.2.2.2.2.2.2.2.1
    | submit i => exact same _ (submit_frame s i).2.2.2.2.2.2.1
    | challenge c => exact same _ (challenge_frame s c).2.2.2.2.2.2.1
    | epochEnd id n pw =>
      rcases epochEnd_find s id n pw hi.1 k with h | ⟨t0, t', g1, g2, g3⟩
      · exact ⟨t, by show KV.find? (epochEnd s id n pw).1.tasks k = some t; rw [h]; exact hf, sameTask_refl t⟩
      · rw [hf] at g1; cases g1
        exact ⟨t', g3, statTask_same s pw t t' g2⟩

theorem task_kept_run (ops : List Op) (s : State) (hi : TaskStoreInv s) (k : Addr × Nat) (t : Task)
    (hf : KV.find? s.tasks k = some t) :
    ∃ t', KV.find? (run s ops).tasks k = some t' ∧ SameTask t t' := by
  induction ops generalizing s t with
  | nil => exact ⟨t, hf, sameTask_refl t⟩
  | cons o rest ih =>
    obtain ⟨t1, h1, s1⟩ := task_kept_step s o hi k t hf
    obtain ⟨t2, h2, s2⟩ := ih (step s o).1 (taskStoreInv_step s o hi) t1 h1
    exact ⟨t2, h2, sameTask_trans s1 s2⟩

/-! ## opted-in flags: only an accepted opt-in turns one on -/

theorem isOptedIn_set_other (s : State) (op op' : String) (avs avs' : Addr) (b : Bool) (h : (op, avs) ≠ (op', avs')) :
    isOptedIn { s with opted := KV.set s.opted (op', avs') b } op avs = isOptedIn s op avs := by
  simp only [isOptedIn, KV.find?_set_other _ _ _ _ h]

theorem optOutCore_opted (s : State) (op' : String) (avs' : Addr) (e1 e2 : String) (op : String) (avs : Addr)
    (h : isOptedIn (optOutCore s op' avs' e1 e2).1 op avs = true) : isOptedIn s op avs = true := by
  unfold optOutCore at h
  split at h
  · exact h
  · split at h
    · exact h
    · split at h
      · exact h
      · by_cases hk : (op, avs) = (op', avs')
        · cases hk; simp [isOptedIn, KV.find?_set_same] at h
        · rw [isOptedIn_set_other _ _ _ _ _ _ hk] at h; exact h

theorem optInCore_opted (s : State) (op' : String) (avs' : Addr) (u : Option Int) (e1 e2 : String)
    (h1 : e1 ≠ "ok") (h2 : e2 ≠ "ok") (op : String) (avs : Addr)
    (h : isOptedIn (optInCore s op' avs' u e1 e2).1 op avs = true) :
    isOptedIn s op avs = true ∨ ((op', avs') = (op, avs) ∧ (optInCore s op' avs' u e1 e2).2 = "ok") := by
  rcases optInCore_spec s op' avs' u e1 e2 h1 h2 with ⟨g, _⟩ | ⟨_, a, usd, _, _, _, _, g⟩
  · rw [g] at h; exact Or.inl h
  · rw [g] at h ⊢
    by_cases hk : (op, avs) = (op', avs')
    · exact Or.inr ⟨hk.symm, rfl⟩
    · rw [isOptedIn_set_other _ _ _ _ _ _ hk] at h; exact Or.inl h

/-- the only step that can turn the flag (op, avs) on is an accepted opt-in of `op` to `avs` -/
theorem opted_step (s : State) (o : Op) (op : String) (avs : Addr)
    (h0 : isOptedIn s op avs = false) (h1 : isOptedIn (step s o).1 op avs = true) :
    ∃ d u, o = .opt d 1 op avs u ∧ (step s o).2 = "ok" := by
  have absurd' : ∀ s' : State, s'.opted = s.opted → isOptedIn s' op avs = true → False := by
    intro s' he h
    simp only [isOptedIn, he] at h
    simp only [isOptedIn] at h0
    rw [h0] at h; cases h
  unfold step at h1 ⊢
  by_cases hh : s.halted = true
  · simp only [hh, if_true] at h1; rw [h0] at h1; cases h1
  · simp only [hh, Bool.false_eq_true, if_false] at h1 ⊢
    cases o with
    | setEpochs e => exact (absurd' _ rfl h1).elim
    | setEnv a b => exact (absurd' _ rfl h1).elim
    | update p => exact (absurd' _ (updateAVS_frame s p).2.2.2.2.2.2.2.2.2.2 h1).elim
    | task p => exact (absurd' _ (createTask_frame s p).2.2.2.2.2.2.2.2 h1).elim
    | bls a pk ok => exact (absurd' _ (regBLS_frame s a pk ok).2.2.2.2.2.2.2.2.2.2 h1).elim
    | submit i => exact (absurd' _ (submit_frame s i).2.2.2.2.2.2.2.2.2 h1).elim
    | challenge c => exact (absurd' _ (challenge_frame s c).2.2.2.2.2.2.2.2.2 h1).elim
    | epochEnd id n pw => exact (absurd' _ (epochEnd_frame s id n pw).2.2.2.2.2.2.2.2.2 h1).elim
    | opt d act op' avs' u =>
      simp only [] at h1 ⊢
      have hin : ∀ (hact : act = 1),
          isOptedIn (optInCore s op' avs' u "ErrOperatorNotExist" "ErrNoSuchAvs").1 op avs = true →
          (optAction s d act op' avs' u) = (optInCore s op' avs' u "ErrOperatorNotExist" "ErrNoSuchAvs") →
          ∃ d0 u0, Op.opt d act op' avs' u = Op.opt d0 1 op avs u0 ∧ (optAction s d act op' avs' u).2 = "ok" := by
        intro hact hi heq
        rcases optInCore_opted s op' avs' u _ _ (by decide) (by decide) op avs hi with g | ⟨g1, g2⟩
        · rw [h0] at g; cases g
        · cases g1; subst hact
          exact ⟨d, u, rfl, by rw [heq]; exact g2⟩
      have hout : isOptedIn (optOutCore s op' avs' "ErrOperatorNotExist" "ErrNoSuchAvs").1 op avs = true → False := by
        intro hi
        have := optOutCore_opted s op' avs' _ _ op avs hi
        rw [h0] at this; cases this
      unfold optAction at h1
      by_cases hd : d = true
      · simp only [hd, if_true] at h1
        by_cases hact : act = 1
        · simp only [hact, if_true] at h1
          exact hin hact h1 (by simp [optAction, hd, hact])
        · simp only [hact, if_false] at h1
          exact (hout h1).elim
      · simp only [hd, Bool.false_eq_true, if_false] at h1
        split at h1
        · exact (absurd' _ rfl h1).elim
        · split at h1
          · exact (absurd' _ rfl h1).elim
          · rename_i c1 c2
            by_cases hact : act = 1
            · simp only [hact, if_true] at h1
              exact hin hact h1 (by simp only [optAction, hd, Bool.false_eq_true, if_false, c1, c2, hact, if_true])
            · simp only [hact, if_false] at h1
              split at h1
              · exact (hout h1).elim
              · exact (absurd' _ rfl h1).elim

/-! ## the clock of a task address -/

/-- the operation does not touch the AVS registry -/
def Op.noUpdate : Op → Prop
  | .update _ => False
  | _ => True

instance (o : Op) : Decidable o.noUpdate := by cases o <;> simp only [Op.noUpdate] <;> infer_instance

/-- epochs only move forward: a `setEpochs` never lowers the number of an identifier and never drops one (C15).
Boolean, so that concrete histories can be checked by evaluation. -/
def Op.epochsForward (s : State) : Op → Bool
  | .setEpochs e => s.epochs.all (fun p => match KV.find? e p.1 with | some m => decide (p.2 ≤ m) | none => false)
  | _ => true

/-- every step of the history moves the epochs forward only -/
def ForwardHist : State → List Op → Bool
  | _, [] => true
  | s, o :: rest => o.epochsForward s && ForwardHist (step s o).1 rest

theorem epochsForward_spec (s : State) (e : List (String × Int)) (h : (Op.setEpochs e).epochsForward s = true) :
    ∀ id n, curEpoch s id = some n → ∃ m, KV.find? e id = some m ∧ n ≤ m := by
  intro id n hc
  have hm : (id, n) ∈ s.epochs := KV.find?_mem _ _ _ hc
  simp only [Op.epochsForward, List.all_eq_true] at h
  have := h (id, n) hm
  simp only [] at this
  cases hf : KV.find? e id with
  | none => rw [hf] at this; simp at this
  | some m => rw [hf] at this; exact ⟨m, rfl, by simpa using this⟩

theorem forwardHist_append (s : State) (a b : List Op) (h : ForwardHist s (a ++ b) = true) :
    ForwardHist s a = true ∧ ForwardHist (run s a) b = true := by
  induction a generalizing s with
  | nil => exact ⟨rfl, h⟩
  | cons o rest ih =>
    simp only [List.cons_append, ForwardHist, Bool.and_eq_true] at h
    obtain ⟨h1, h2⟩ := h
    obtain ⟨i1, i2⟩ := ih (step s o).1 h2
    exact ⟨by simp only [ForwardHist, Bool.and_eq_true]; exact ⟨h1, i1⟩, i2⟩

theorem optAction_epochs (s : State) (d : Bool) (a : Nat) (op : String) (avs : Addr) (u : Option Int) :
    (optAction s d a op avs u).1.epochs = s.epochs := by
  unfold optAction optInCore optOutCore; (repeat' split) <;> rfl

theorem createTask_epochs (s : State) (p : TaskParams) : (createTask s p).1.epochs = s.epochs := by
  unfold createTask; (repeat' split) <;> rfl

theorem regBLS_epochs (s : State) (op pk : String) (ok : Bool) : (regBLS s op pk ok).1.epochs = s.epochs := by
  unfold regBLS; (repeat' split) <;> rfl

theorem submit_epochs (s : State) (i : Submit) : (submit s i).1.epochs = s.epochs := by
  rcases submit_cases s i with h | ⟨h, _⟩ | ⟨h, _⟩ <;> simp [h, afterOne, afterTwo]

theorem challenge_epochs (s : State) (c : Challenge) : (challenge s c).1.epochs = s.epochs := by
  rcases challenge_cases s c with h | h <;> simp [h, afterChallenge]

theorem step_noUpdate_clock (s : State) (o : Op) (hn : o.noUpdate) (hf : o.epochsForward s = true) :
    (step s o).1.avss = s.avss ∧
    ∀ id n, curEpoch s id = some n → ∃ m, curEpoch (step s o).1 id = some m ∧ n ≤ m := by
  have same : ∀ s' : State, s'.avss = s.avss → s'.epochs = s.epochs →
      s'.avss = s.avss ∧ ∀ id n, curEpoch s id = some n → ∃ m, curEpoch s' id = some m ∧ n ≤ m := by
    intro s' h1 h2
    refine ⟨h1, fun id n h => ⟨n, ?_, Int.le_refl _⟩⟩
    simp only [curEpoch, h2] at h ⊢; exact h
  unfold step
  split
  · exact same s rfl rfl
  · cases o with
    | setEpochs e => exact ⟨rfl, fun id n h => epochsForward_spec s e hf id n h⟩
    | setEnv a b => exact same _ rfl rfl
    | update p => exact hn.elim
    | opt d a op avs u => exact same _ (optAction_frame s d a op avs u).1 (optAction_epochs s d a op avs u)
    | task p => exact same _ (createTask_frame s p).1 (createTask_epochs s p)
    | bls op pk ok => exact same _ (regBLS_frame s op pk ok).1 (regBLS_epochs s op pk ok)
    | submit i => exact same _ (submit_frame s i).1 (submit_epochs s i)
    | challenge c => exact same _ (challenge_frame s c).1 (challenge_epochs s c)
    | epochEnd id n pw => exact same _ rfl rfl

/-- over a history without registry updates in which epochs only move forward, the registry is unchanged and every
identifier's number only grows -/
theorem run_noUpdate_clock (ops : List Op) (s : State) (hn : ∀ o ∈ ops, o.noUpdate) (hf : ForwardHist s ops = true) :
    (run s ops).avss = s.avss ∧
    ∀ id n, curEpoch s id = some n → ∃ m, curEpoch (run s ops) id = some m ∧ n ≤ m := by
  induction ops generalizing s with
  | nil => exact ⟨rfl, fun id n h => ⟨n, h, Int.le_refl _⟩⟩
  | cons o rest ih =>
    simp only [ForwardHist, Bool.and_eq_true] at hf
    obtain ⟨f1, f2⟩ := hf
    obtain ⟨a1, a2⟩ := step_noUpdate_clock s o (hn o (by simp)) f1
    obtain ⟨b1, b2⟩ := ih (step s o).1 (fun q hq => hn q (by simp [hq])) f2
    refine ⟨by simp only [run]; rw [b1, a1], ?_⟩
    intro id n h
    obtain ⟨m, hm, hle⟩ := a2 id n h
    obtain ⟨m', hm', hle'⟩ := b2 id m hm
    exact ⟨m', hm', by omega⟩

theorem epochOfTaskAddr_mono (s s' : State) (t : Addr) (ha : s'.avss = s.avss)
    (he : ∀ id n, curEpoch s id = some n → ∃ m, curEpoch s' id = some m ∧ n ≤ m) (cur : Int)
    (h : epochOfTaskAddr s t = some cur) : ∃ cur', epochOfTaskAddr s' t = some cur' ∧ cur ≤ cur' := by
  have hb : avsByTaskAddr s' t = avsByTaskAddr s t := by simp only [avsByTaskAddr, ha]
  unfold epochOfTaskAddr at h ⊢
  rw [hb]
  cases hx : avsByTaskAddr s t with
  | none => rw [hx] at h; exact he _ _ h
  | some a => rw [hx] at h; exact he _ _ h

end ExoVerif.Avs
