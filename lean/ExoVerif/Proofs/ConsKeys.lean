import ExoVerif.Model.ConsKeys
/-! Helper lemmas for C07 / C16: the registry invariant and its preservation by every operation. -/
namespace ExoVerif.ConsKeys
open ExoVerif.VMap ExoVerif.ValSet

@[simp] theorem upd_same {α β : Type} [DecidableEq α] (f : α → β) (a : α) (b : β) : upd f a b a = b := by
  simp [upd]

theorem upd_other {α β : Type} [DecidableEq α] (f : α → β) (a x : α) (b : β) (h : x ≠ a) : upd f a b x = f x := by
  simp [upd, h]

theorem upd_apply {α β : Type} [DecidableEq α] (f : α → β) (a x : α) (b : β) :
    upd f a b x = if x = a then b else f x := rfl

/-- a consensus address is scheduled for pruning (waiting in a per-epoch queue or pending) -/
def sched (s : St) (k : Nat) : Prop := k ∈ s.pendingAddrs ∨ ∃ e, k ∈ s.addrsToPrune e

/-- the registry invariant -/
structure Inv (s : St) : Prop where
  /-- the two forward indexes agree -/
  fwdEq : ∀ op, s.fwd op = s.fwd2 op
  /-- an operator's current key maps back to it -/
  back : ∀ op k, s.fwd op = some k → s.rev k = some op
  /-- a key waiting to be pruned is nobody's current key … -/
  schedFree : ∀ k, sched s k → ∀ op, s.fwd op ≠ some k
  /-- … and is still resolvable (so nobody else can take it) -/
  schedRev : ∀ k, sched s k → (s.rev k).isSome = true
  /-- a key waits in at most one place -/
  disj : ∀ e k, k ∈ s.addrsToPrune e → k ∉ s.pendingAddrs ∧ ∀ e', e' ≠ e → k ∉ s.addrsToPrune e'

/-- Inv only looks at five fields -/
theorem Inv.congr {s t : St} (h : Inv s) (h1 : t.fwd = s.fwd) (h2 : t.fwd2 = s.fwd2) (h3 : t.rev = s.rev)
    (h4 : t.addrsToPrune = s.addrsToPrune) (h5 : t.pendingAddrs = s.pendingAddrs) : Inv t := by
  have hs : ∀ k, sched t k ↔ sched s k := by intro k; simp [sched, h4, h5]
  refine ⟨?_, ?_, ?_, ?_, ?_⟩
  · intro op; rw [h1, h2]; exact h.fwdEq op
  · intro op k; rw [h1, h3]; exact h.back op k
  · intro k hk op; rw [h1]; exact h.schedFree k ((hs k).1 hk) op
  · intro k hk; rw [h3]; exact h.schedRev k ((hs k).1 hk)
  · intro e k; rw [h4, h5]; exact h.disj e k

theorem Inv.injective {s : St} (h : Inv s) (op1 op2 k : Nat) (h1 : s.fwd op1 = some k) (h2 : s.fwd op2 = some k) :
    op1 = op2 := by
  have a := h.back op1 k h1
  have b := h.back op2 k h2
  rw [a] at b; exact Option.some.inj b

/-! ## operations -/

theorem inv_hookReplaced (s : St) (oldKey : Nat) (h : Inv s)
    (hfree : ∀ op, s.fwd op ≠ some oldKey) (hrev : (s.rev oldKey).isSome = true) (hns : ¬ sched s oldKey) :
    Inv (hookReplaced s oldKey) := by
  unfold hookReplaced
  split
  · -- scheduled for pruning at the completion epoch
    -- membership in the new queue
    have hmem : ∀ e k, k ∈ upd s.addrsToPrune (completionEpoch s) (s.addrsToPrune (completionEpoch s) ++ [oldKey]) e ↔
        (k ∈ s.addrsToPrune e ∨ (k = oldKey ∧ e = completionEpoch s)) := by
      intro e k
      by_cases he : e = completionEpoch s
      · subst he; simp [upd_apply]
      · simp [upd_apply, he]
    refine ⟨h.fwdEq, h.back, ?_, ?_, ?_⟩
    · intro k hk op
      rcases hk with hk | ⟨e, hk⟩
      · exact h.schedFree k (Or.inl hk) op
      · rcases (hmem e k).1 hk with hk | ⟨rfl, _⟩
        · exact h.schedFree k (Or.inr ⟨e, hk⟩) op
        · exact hfree op
    · intro k hk
      rcases hk with hk | ⟨e, hk⟩
      · exact h.schedRev k (Or.inl hk)
      · rcases (hmem e k).1 hk with hk | ⟨rfl, _⟩
        · exact h.schedRev k (Or.inr ⟨e, hk⟩)
        · exact hrev
    · intro e k hk
      show k ∉ s.pendingAddrs ∧ ∀ e', e' ≠ e → k ∉ upd s.addrsToPrune (completionEpoch s) (s.addrsToPrune (completionEpoch s) ++ [oldKey]) e'
      rcases (hmem e k).1 hk with hold | ⟨rfl, he⟩
      · have hd := h.disj e k hold
        refine ⟨hd.1, ?_⟩
        intro e' he' hm
        rcases (hmem e' k).1 hm with hm | ⟨rfl, _⟩
        · exact hd.2 e' he' hm
        · exact hns (Or.inr ⟨e, hold⟩)
      · refine ⟨fun hm => hns (Or.inl hm), ?_⟩
        intro e' he' hm
        rcases (hmem e' k).1 hm with hm | ⟨_, he2⟩
        · exact hns (Or.inr ⟨e', hm⟩)
        · exact he' (he2.trans he.symm)
  · -- not active: reverse lookup deleted at once
    refine ⟨h.fwdEq, ?_, h.schedFree, ?_, h.disj⟩
    · intro op k hk
      have hne : k ≠ oldKey := fun e => hfree op (e ▸ hk)
      simp only [upd_apply, hne, if_false]; exact h.back op k hk
    · intro k hk
      have hne : k ≠ oldKey := fun e => hns (e ▸ hk)
      simp only [upd_apply, hne, if_false]; exact h.schedRev k hk

theorem inv_setKeyCore (s : St) (op key : Nat) (h : Inv s) : Inv (setKeyCore s op key).2 := by
  unfold setKeyCore
  split
  · exact h
  · split
    · exact h
    · rename_i hrm hrev
      have hrev' : s.rev key = none := by
        cases hr : s.rev key with
        | none => rfl
        | some v => simp [hr] at hrev
      have hkns : ¬ sched s key := fun hk => by
        have := h.schedRev key hk; rw [hrev'] at this; cases this
      have hkfree : ∀ op', s.fwd op' ≠ some key := fun op' hf => by
        have := h.back op' key hf; rw [hrev'] at this; cases this
      -- the state after writing the three indexes, for any base state with the same five fields
      have core : ∀ t : St, Inv t → t.fwd = s.fwd → t.rev = s.rev → t.addrsToPrune = s.addrsToPrune →
          t.pendingAddrs = s.pendingAddrs →
          Inv { t with fwd := upd t.fwd op (some key), fwd2 := upd t.fwd2 op (some key), rev := upd t.rev key (some op) } := by
        intro t ht e1 e3 e4 e5
        have hs : ∀ k, sched t k ↔ sched s k := by intro k; simp [sched, e4, e5]
        refine ⟨?_, ?_, ?_, ?_, ht.disj⟩
        · intro o; simp only [upd_apply]; split
          · rfl
          · exact ht.fwdEq o
        · intro o k hk
          simp only [upd_apply] at hk ⊢
          split at hk
          · rename_i ho; subst ho; simp at hk; subst hk; simp
          · have hne : k ≠ key := fun e => hkfree o (by rw [← e1, ← e]; exact hk)
            simp only [hne, if_false]; exact ht.back o k hk
        · intro k hk o
          have hk' : sched s k := (hs k).1 hk
          simp only [upd_apply]
          split
          · intro e; simp at e; subst e; exact hkns hk'
          · exact ht.schedFree k hk o
        · intro k hk
          simp only [upd_apply]
          split
          · rfl
          · exact ht.schedRev k hk
      cases hf : s.fwd op with
      | none => simp only []; exact core s h rfl rfl rfl rfl
      | some pk =>
        simp only []
        split
        · exact h
        · rename_i hne
          by_cases hal : (s.prevKey op).isSome = true
          · simp only [hal, if_true]
            exact core s h rfl rfl rfl rfl
          · simp only [hal, Bool.false_eq_true, if_false]
            have hbase : Inv { s with prevKey := upd s.prevKey op (some pk) } := h.congr rfl rfl rfl rfl rfl
            have h2 := core { s with prevKey := upd s.prevKey op (some pk) } hbase rfl rfl rfl rfl
            apply inv_hookReplaced _ pk h2
            · intro o
              simp only [upd_apply]
              split
              · intro e; simp at e; exact hne e.symm
              · intro e
                rename_i ho
                exact ho (h.injective o op pk e hf)
            · have hb := h.back op pk hf
              have hpk : pk ≠ key := hne
              simp only [upd_apply, hpk, if_false, hb]; rfl
            · intro hk
              have hk' : sched s pk := by simpa [sched] using hk
              exact h.schedFree pk hk' op hf

theorem inv_optIn (s : St) (op key : Nat) (ok : Bool) (h : Inv s) : Inv (optIn s op key ok).2 := by
  unfold optIn
  split
  · exact h
  · split
    · exact h
    · split
      · exact h
      · have h1 : Inv { s with hasInfo := upd s.hasInfo op true, optedIn := upd s.optedIn op true,
                               jailed := upd s.jailed op false } := h.congr rfl rfl rfl rfl rfl
        have h2 := inv_setKeyCore _ op key h1
        dsimp only
        revert h2
        generalize setKeyCore _ op key = r
        intro h2
        obtain ⟨o, s2⟩ := r
        cases o <;> first | exact h2 | exact h

theorem inv_setKey (s : St) (op key : Nat) (h : Inv s) : Inv (setKey s op key).2 := by
  unfold setKey
  split
  · exact h
  · exact inv_setKeyCore s op key h

theorem inv_completeRemoval (s : St) (op : Nat) (h : Inv s) : Inv (completeRemoval s op) := by
  unfold completeRemoval
  split
  · exact h
  · split
    · exact h
    · cases hf : s.fwd op with
      | none => exact h
      | some key =>
        simp only []
        refine ⟨?_, ?_, ?_, ?_, h.disj⟩
        · intro o; simp only [upd_apply]; split
          · rfl
          · exact h.fwdEq o
        · intro o k hk
          simp only [upd_apply] at hk ⊢
          split at hk
          · cases hk
          · rename_i ho
            have hne : k ≠ key := fun e => ho (h.injective o op key (e ▸ hk) hf)
            simp only [hne, if_false]; exact h.back o k hk
        · intro k hk o
          simp only [upd_apply]
          split
          · intro e; cases e
          · exact h.schedFree k hk o
        · intro k hk
          have hne : k ≠ key := fun e => h.schedFree k hk op (e ▸ hf)
          simp only [upd_apply, hne, if_false]; exact h.schedRev k hk

theorem inv_foldl_completeRemoval (l : List Nat) (s : St) (h : Inv s) : Inv (l.foldl completeRemoval s) := by
  induction l generalizing s with
  | nil => exact h
  | cons a rest ih => exact ih _ (inv_completeRemoval s a h)

/-- opt-out keeps the invariant in both branches (scheduled / completed at once) -/
theorem inv_optOut (s : St) (op : Nat) (h : Inv s) : Inv (optOut s op).2 := by
  unfold optOut
  split
  · exact h
  · split
    · exact h
    · cases hf : s.fwd op with
      | none => exact h
      | some key =>
        simp only []
        repeat' split
        all_goals first
          | exact h.congr rfl rfl rfl rfl rfl
          | exact inv_completeRemoval _ op (h.congr rfl rfl rfl rfl rfl)

/-- completeRemoval touches neither the queues nor the pending lists -/
theorem completeRemoval_fields (t : St) (op : Nat) :
    (completeRemoval t op).addrsToPrune = t.addrsToPrune ∧ (completeRemoval t op).pendingAddrs = t.pendingAddrs ∧
    (completeRemoval t op).undelToMature = t.undelToMature ∧ (completeRemoval t op).optOutsToFinish = t.optOutsToFinish ∧
    (completeRemoval t op).pendingUndel = t.pendingUndel ∧ (completeRemoval t op).undelMaturity = t.undelMaturity := by
  unfold completeRemoval
  repeat' split
  all_goals exact ⟨rfl, rfl, rfl, rfl, rfl, rfl⟩

theorem inv_setJailed (s : St) (key : Nat) (b : Bool) (h : Inv s) : Inv (setJailed s key b) := by
  unfold setJailed
  split
  · exact h
  · split
    · exact h.congr rfl rfl rfl rfl rfl
    · exact h

theorem inv_undelegationStarted (s : St) (op rec : Nat) (h : Inv s) : Inv (undelegationStarted s op rec).2 := by
  unfold undelegationStarted
  simp only []
  repeat' split
  all_goals first | exact h | exact h.congr rfl rfl rfl rfl rfl

theorem inv_epochEndHook (s : St) (e : Int) (h : Inv s) : Inv (epochEndHook s e) := by
  unfold epochEndHook
  refine ⟨h.fwdEq, h.back, ?_, ?_, ?_⟩
  · intro k hk op
    rcases hk with hk | ⟨e', hk⟩
    · exact h.schedFree k (Or.inr ⟨e, hk⟩) op
    · simp only [upd_apply] at hk
      split at hk
      · cases hk
      · exact h.schedFree k (Or.inr ⟨e', hk⟩) op
  · intro k hk
    rcases hk with hk | ⟨e', hk⟩
    · exact h.schedRev k (Or.inr ⟨e, hk⟩)
    · simp only [upd_apply] at hk
      split at hk
      · cases hk
      · exact h.schedRev k (Or.inr ⟨e', hk⟩)
  · intro e' k hk
    simp only [upd_apply] at hk ⊢
    split at hk
    · cases hk
    · rename_i hne
      have hd := h.disj e' k hk
      refine ⟨hd.2 e (fun x => hne x.symm), ?_⟩
      intro e'' hne2
      split
      · simp
      · exact hd.2 e'' hne2

theorem releaseUndel_fields (l : List Nat) (s : St) :
    (l.foldl releaseUndel s).fwd = s.fwd ∧ (l.foldl releaseUndel s).fwd2 = s.fwd2 ∧
    (l.foldl releaseUndel s).rev = s.rev ∧ (l.foldl releaseUndel s).addrsToPrune = s.addrsToPrune ∧
    (l.foldl releaseUndel s).pendingAddrs = s.pendingAddrs := by
  induction l generalizing s with
  | nil => exact ⟨rfl, rfl, rfl, rfl, rfl⟩
  | cons a rest ih => simp only [List.foldl_cons]; exact ih (releaseUndel s a)

/-- pruning the pending addresses -/
theorem inv_prunePending (s : St) (h : Inv s) :
    Inv { s with rev := fun k => if k ∈ s.pendingAddrs then none else s.rev k, pendingAddrs := [] } := by
  refine ⟨h.fwdEq, ?_, ?_, ?_, ?_⟩
  · intro op k hk
    have : k ∉ s.pendingAddrs := fun hm => h.schedFree k (Or.inl hm) op hk
    simp only [this, if_false]; exact h.back op k hk
  · intro k hk op
    rcases hk with hk | ⟨e, hk⟩
    · cases hk
    · exact h.schedFree k (Or.inr ⟨e, hk⟩) op
  · intro k hk
    rcases hk with hk | ⟨e, hk⟩
    · cases hk
    · have : k ∉ s.pendingAddrs := (h.disj e k hk).1
      simp only [this, if_false]; exact h.schedRev k (Or.inr ⟨e, hk⟩)
  · intro e k hk
    exact ⟨by simp, (h.disj e k hk).2⟩

theorem inv_endBlock (s : St) (power : Nat → Int) (maxVals : Nat) (h : Inv s) : Inv (endBlock s power maxVals) := by
  unfold endBlock
  split
  · exact h.congr rfl rfl rfl rfl rfl
  · simp only []
    have h1 : Inv { s with prevKey := fun _ => none } := h.congr rfl rfl rfl rfl rfl
    obtain ⟨a1, a2, a3, a4, a5⟩ := releaseUndel_fields s.pendingUndel { s with prevKey := fun _ => none }
    have h2 : Inv { (s.pendingUndel.foldl releaseUndel { s with prevKey := fun _ => none }) with pendingUndel := [] } :=
      h1.congr a1 a2 a3 a4 a5
    have h3 := inv_foldl_completeRemoval
      ({ (s.pendingUndel.foldl releaseUndel { s with prevKey := fun _ => none }) with pendingUndel := [] } : St).pendingOptOuts _ h2
    have h3' := h3.congr (t := { (List.foldl completeRemoval
        { (s.pendingUndel.foldl releaseUndel { s with prevKey := fun _ => none }) with pendingUndel := [] }
        ({ (s.pendingUndel.foldl releaseUndel { s with prevKey := fun _ => none }) with pendingUndel := [] } : St).pendingOptOuts)
        with pendingOptOuts := [] }) rfl rfl rfl rfl rfl
    have h4 := inv_prunePending _ h3'
    exact h4.congr rfl rfl rfl rfl rfl

end ExoVerif.ConsKeys
