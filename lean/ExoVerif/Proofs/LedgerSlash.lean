import ExoVerif.Proofs.Ledger
import ExoVerif.Proofs.DecArith
/-! Lemmas about the slashing part of the ledger model (C04, and the slash step of C01). -/
namespace ExoVerif.Ledger
open ExoVerif ExoVerif.KV ExoVerif.Dec

/-- sum of the ghost entries recorded for asset `a` -/
def gsum (a : AID) : List (AID × Int) → Int
  | [] => 0
  | e :: rest => (if e.1 = a then e.2 else 0) + gsum a rest

theorem gsum_append (a : AID) (g1 g2 : List (AID × Int)) : gsum a (g1 ++ g2) = gsum a g1 + gsum a g2 := by
  induction g1 with
  | nil => simp [gsum]
  | cons e rest ih => simp only [List.cons_append, gsum, ih]; omega

/-- a slashable proportion: 0 ≤ p ≤ 1 -/
def UnitP (p : Dec) : Prop := 0 ≤ p.raw ∧ p.raw ≤ PREC

/-- SlashFromUndelegation: the cut is min(trunc(p·Amount), ActualCompletedAmount); what is left is
the old figure minus the cut; nothing but `actual` changes. -/
theorem slashFromUndelegation_spec (r : URec) (p : Dec) (hp : UnitP p) (ha : 0 ≤ r.amount) (hact : 0 ≤ r.actual) :
    (slashFromUndelegation r p).2 = min ((Dec.mulInt p r.amount).truncateInt) r.actual ∧
    (slashFromUndelegation r p).1 = { r with actual := r.actual - (slashFromUndelegation r p).2 } ∧
    0 ≤ (slashFromUndelegation r p).2 ∧ (slashFromUndelegation r p).2 ≤ r.actual := by
  have hb := truncate_mulInt_bounds p r.amount hp.1 hp.2 ha
  unfold slashFromUndelegation
  by_cases h0 : r.actual = 0
  · simp only [h0, if_true]
    refine ⟨by omega, ?_, by omega, by omega⟩
    cases r; simp_all
  · simp only [h0, if_false]
    by_cases h1 : r.actual ≤ (Dec.mulInt p r.amount).truncateInt
    · simp only [h1, if_true]
      refine ⟨by omega, ?_, hact, le_refl _⟩
      simp
    · simp only [h1, if_false]
      exact ⟨by omega, by trivial, hb.1, by omega⟩

/-- amounts of records are non-negative and a record never owes more than its original amount -/
def RecsNonneg (recs : List (RecKey × URec)) : Prop := ∀ e ∈ recs, 0 ≤ e.2.actual ∧ e.2.actual ≤ e.2.amount

theorem slashRecords_spec (recs : List (RecKey × URec)) (o : OID) (inf : Nat) (p : Dec) (a : AID)
    (hp : UnitP p) (hn : RecsNonneg recs) :
    sumP (rAt a) (slashRecords recs o inf p).1 = sumP (rAt a) recs - gsum a (slashRecords recs o inf p).2 ∧
    0 ≤ gsum a (slashRecords recs o inf p).2 ∧ RecsNonneg (slashRecords recs o inf p).1 ∧
    keys (slashRecords recs o inf p).1 = keys recs := by
  induction recs with
  | nil => simp [slashRecords, sumP, gsum, RecsNonneg, keys]
  | cons e rest ih =>
    obtain ⟨k, r⟩ := e
    have hr := hn (k, r) (by simp)
    have hrest : RecsNonneg rest := fun e he => hn e (by simp [he])
    obtain ⟨i1, i2, i3, i4⟩ := ih hrest
    simp only [slashRecords]
    by_cases hc : k.op = o ∧ inf ≤ k.height
    · simp only [hc, and_self, if_true]
      obtain ⟨c1, c2, c3, c4⟩ := slashFromUndelegation_spec r p hp (by simp at hr; omega) (by simpa using hr.1)
      refine ⟨?_, ?_, ?_, ?_⟩
      · simp only [sumP, gsum, i1, rAt, c2]
        split <;> omega
      · simp only [gsum]; split <;> omega
      · intro e he
        rcases List.mem_cons.1 he with h | h
        · subst h; simp only [c2]; simp at hr; omega
        · exact i3 e h
      · simp only [keys, List.map_cons] at i4 ⊢; rw [i4]
    · simp only [hc, if_false]
      refine ⟨?_, i2, ?_, ?_⟩
      · simp only [sumP, i1]; omega
      · intro e he
        rcases List.mem_cons.1 he with h | h
        · subst h; exact hr
        · exact i3 e h
      · simp only [keys, List.map_cons] at i4 ⊢; rw [i4]

/-- frame + exact cut for every record: records of other operators, or started before the
infraction, are untouched; an at-risk record loses min(trunc(p·amount), actual). -/
theorem slashRecords_find (recs : List (RecKey × URec)) (o : OID) (inf : Nat) (p : Dec) (k : RecKey) :
    find? (slashRecords recs o inf p).1 k =
      (find? recs k).map (fun r => if k.op = o ∧ inf ≤ k.height then (slashFromUndelegation r p).1 else r) := by
  induction recs with
  | nil => simp [slashRecords, find?]
  | cons e rest ih =>
    obtain ⟨k', r⟩ := e
    simp only [slashRecords]
    by_cases hc : k'.op = o ∧ inf ≤ k'.height
    · simp only [hc, and_self, if_true]
      by_cases hk : k' = k
      · subst hk; simp [find?, hc]
      · simp only [find?, hk, if_false]; exact ih
    · simp only [hc, if_false]
      by_cases hk : k' = k
      · subst hk; simp [find?, hc]
      · simp only [find?, hk, if_false]; exact ih

/-- the pool cut: trunc(p·amount), between 0 and the amount; the remaining amount is ≥ 0 -/
theorem cutPool_spec (pl : Pool) (p : Dec) (hl : Bool) (hp : UnitP p) (ha : 0 ≤ pl.amount) :
    (cutPool pl p hl).2 = (Dec.mulInt p pl.amount).truncateInt ∧
    (cutPool pl p hl).1.amount = pl.amount - (cutPool pl p hl).2 ∧
    0 ≤ (cutPool pl p hl).2 ∧ (cutPool pl p hl).2 ≤ pl.amount ∧
    (cutPool pl p hl).1.pending = pl.pending := by
  have hb := truncate_mulInt_bounds p pl.amount hp.1 hp.2 ha
  unfold cutPool
  simp only []
  split <;> exact ⟨rfl, rfl, hb.1, hb.2, rfl⟩

def PoolsNonneg (pools : List ((OID × AID) × Pool)) : Prop := ∀ e ∈ pools, 0 ≤ e.2.amount

theorem slashPools_spec (pools : List ((OID × AID) × Pool)) (o : OID) (p : Dec) (hl : (OID × AID) → Bool)
    (a : AID) (hp : UnitP p) (hn : PoolsNonneg pools) :
    sumP (pAt a) (pools.map (fun e => if e.1.1 = o then (e.1, (cutPool e.2 p (hl e.1)).1) else e))
      = sumP (pAt a) pools
        - gsum a ((pools.filter (fun e => e.1.1 = o)).map (fun e => (e.1.2, (cutPool e.2 p (hl e.1)).2))) ∧
    0 ≤ gsum a ((pools.filter (fun e => e.1.1 = o)).map (fun e => (e.1.2, (cutPool e.2 p (hl e.1)).2))) ∧
    PoolsNonneg (pools.map (fun e => if e.1.1 = o then (e.1, (cutPool e.2 p (hl e.1)).1) else e)) := by
  induction pools with
  | nil => simp [sumP, gsum, PoolsNonneg]
  | cons e rest ih =>
    have he := hn e (by simp)
    obtain ⟨i1, i2, i3⟩ := ih (fun e' he' => hn e' (by simp [he']))
    obtain ⟨c1, c2, c3, c4, _⟩ := cutPool_spec e.2 p (hl e.1) hp he
    by_cases hc : e.1.1 = o
    · rw [List.filter_cons_of_pos (by simpa using hc)]
      simp only [List.map_cons, hc, if_true, sumP, gsum, i1, pAt, c2]
      refine ⟨by split <;> omega, by split <;> omega, ?_⟩
      intro e' he'
      rcases List.mem_cons.1 he' with h | h
      · subst h; simp only [c2]; omega
      · exact i3 e' h
    · rw [List.filter_cons_of_neg (by simpa using hc)]
      simp only [List.map_cons, hc, if_false, sumP, i1]
      refine ⟨by omega, i2, ?_⟩
      intro e' he'
      rcases List.mem_cons.1 he' with h | h
      · subst h; exact he
      · exact i3 e' h
      
/-- C01/C04: a slash never creates value; it removes exactly what it books as slashed -/
theorem slashAssets_value (s : L) (o : OID) (inf : Nat) (p : Dec) (a : AID) (hp : UnitP p)
    (hr : RecsNonneg s.recs) (hpl : PoolsNonneg s.pools) :
    ∃ cut : Int, 0 ≤ cut ∧ value (slashAssets s o inf p) a = value s a - cut := by
  unfold slashAssets
  obtain ⟨p1, p2, _⟩ := slashPools_spec s.pools o p (fun k => has s.slist k) a hp hpl
  by_cases hh : inf < s.height
  · obtain ⟨r1, r2, _, _⟩ := slashRecords_spec s.recs o inf p a hp hr
    simp only [hh, if_true]
    refine ⟨gsum a (slashRecords s.recs o inf p).2 + gsum a ((s.pools.filter (fun e => e.1.1 = o)).map (fun e => (e.1.2, (cutPool e.2 p (has s.slist e.1)).2))), by omega, ?_⟩
    unfold value
    simp only []
    rw [p1, r1]; omega
  · simp only [hh, if_false]
    refine ⟨gsum a ((s.pools.filter (fun e => e.1.1 = o)).map (fun e => (e.1.2, (cutPool e.2 p (has s.slist e.1)).2))), p2, ?_⟩
    unfold value
    simp only []
    rw [p1]; omega

end ExoVerif.Ledger
