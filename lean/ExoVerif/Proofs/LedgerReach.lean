import ExoVerif.Proofs.LedgerSlash
/-! Composition lemmas for the reachable-state theorems of C01/C03: which operations keep the record
    stores' invariant and how each moves `value` and the ghost counters. Core Lean only. -/
namespace ExoVerif.Ledger
open ExoVerif ExoVerif.KV

theorem getD_ghostAdd (g : List (AID × Int)) (a0 a : AID) (x : Int) :
    getD (ghostAdd g a0 x) a 0 = getD g a 0 + (if a0 = a then x else 0) := by
  unfold ghostAdd
  by_cases h : a = a0
  · subst h; simp [getD_set_same]
  · rw [getD_set_other _ _ _ _ _ h]
    have : ¬ a0 = a := fun e => h e.symm
    simp [this]

theorem getD_foldl_ghostAdd (l : List (AID × Int)) (g : List (AID × Int)) (a : AID) :
    getD (l.foldl (fun g e => ghostAdd g e.1 e.2) g) a 0 = getD g a 0 + gsum a l := by
  induction l generalizing g with
  | nil => simp [gsum]
  | cons e rest ih =>
    simp only [List.foldl_cons, ih, getD_ghostAdd, gsum]; omega

/-- net balance the property talks about: value − deposits + withdrawals + slashed (ghost counters) -/
def net (s : L) (a : AID) : Int := value s a - getD s.gDep a 0 + getD s.gWd a 0 + getD s.gSlashed a 0

/-- association / dissociation only touch `OperatorShare` -/
theorem value_foldlM_opShare (es : List ((SID × AID × OID) × DelegRow)) (o : OID) (f : DelegRow → Dec)
    {s s' : L} (a : AID)
    (h : es.foldlM (fun s e => updPool s o e.1.2.1 0 0 Dec.zero (f e.2)) s = .ok s') :
    value s' a = value s a ∧ SameRecs s s' ∧ s'.gDep = s.gDep ∧ s'.gWd = s.gWd ∧ s'.gSlashed = s.gSlashed ∧
    s'.assoc = s.assoc := by
  induction es generalizing s with
  | nil =>
    simp only [List.foldlM_nil, pure, Except.pure] at h; injection h with h; subst h
    exact ⟨rfl, ⟨rfl, rfl, rfl, rfl, rfl, rfl⟩, rfl, rfl, rfl, rfl⟩
  | cons e rest ih =>
    simp only [List.foldlM_cons, bind, Except.bind] at h
    split at h
    · cases h
    · rename_i s1 h1
      obtain ⟨v, r, g1, g2, g3, g4⟩ := ih h
      obtain ⟨_, _, _, _, hs1⟩ := updPool_ok h1
      have v1 := value_updPool a h1
      have r1 := updPool_recs h1
      refine ⟨by rw [v, v1]; simp, SameRecs.trans r1 r, ?_, ?_, ?_, ?_⟩
      · rw [g1, hs1]
      · rw [g2, hs1]
      · rw [g3, hs1]
      · rw [g4, hs1]

end ExoVerif.Ledger

namespace ExoVerif.Ledger
open ExoVerif ExoVerif.KV

/-- slashing a record changes nothing but `actual` -/
theorem slashFromUndelegation_fields (r : URec) (p : Dec) :
    ∃ x : Int, (slashFromUndelegation r p).1 = { r with actual := x } := by
  unfold slashFromUndelegation
  split
  · exact ⟨r.actual, by cases r; rfl⟩
  · simp only []
    split
    · exact ⟨0, rfl⟩
    · exact ⟨_, rfl⟩

theorem slashAssets_recs_find (s : L) (o : OID) (inf : Nat) (p : Dec) (k : RecKey) :
    (find? (slashAssets s o inf p).recs k = none ↔ find? s.recs k = none) ∧
    (∀ r', find? (slashAssets s o inf p).recs k = some r' →
        ∃ r x, find? s.recs k = some r ∧ r' = { r with actual := x }) ∧
    (∀ r, find? s.recs k = some r → ∃ x, find? (slashAssets s o inf p).recs k = some { r with actual := x }) := by
  have hrec : (slashAssets s o inf p).recs =
      (if inf < s.height then (slashRecords s.recs o inf p).1 else s.recs) := by
    unfold slashAssets
    by_cases hh : inf < s.height <;> simp [hh]
  rw [hrec]
  by_cases hh : inf < s.height
  · simp only [hh, if_true, slashRecords_find]
    cases hf : find? s.recs k with
    | none => simp
    | some r =>
      simp only [Option.map_some]
      by_cases hc : k.op = o ∧ inf ≤ k.height
      · obtain ⟨x, hx⟩ := slashFromUndelegation_fields r p
        simp only [hc, and_self, if_true, hx]
        refine ⟨by simp, ?_, ?_⟩
        · intro r' h; injection h with h; exact ⟨r, x, rfl, h.symm⟩
        · intro r0 h; injection h with h; subst h; exact ⟨x, rfl⟩
      · simp only [hc, if_false]
        refine ⟨by simp, ?_, ?_⟩
        · intro r' h; injection h with h; exact ⟨r, r.actual, rfl, by rw [← h]⟩
        · intro r0 h; injection h with h; subst h; exact ⟨r.actual, by cases r; rfl⟩
  · rw [if_neg hh]
    refine ⟨Iff.rfl, ?_, ?_⟩
    · intro r' h; exact ⟨r', r'.actual, h, by cases r'; rfl⟩
    · intro r h; exact ⟨r.actual, by rw [h]⟩

theorem slashAssets_recs_keys (s : L) (o : OID) (inf : Nat) (p : Dec) :
    keys (slashAssets s o inf p).recs = keys s.recs := by
  have hrec : (slashAssets s o inf p).recs =
      (if inf < s.height then (slashRecords s.recs o inf p).1 else s.recs) := by
    unfold slashAssets
    by_cases hh : inf < s.height <;> simp [hh]
  rw [hrec]
  by_cases hh : inf < s.height
  · simp only [hh, if_true]
    -- keys are preserved by slashRecords (no nonneg hypothesis needed)
    generalize s.recs = recs
    induction recs with
    | nil => simp [slashRecords]
    | cons e rest ih =>
      obtain ⟨k, r⟩ := e
      simp only [slashRecords]
      split <;> simp only [keys, List.map_cons] at ih ⊢ <;> rw [ih]
  · simp [hh]

/-- a slash keeps the three undelegation stores consistent (it only lowers `actual`) -/
theorem recInv_slashAssets {s : L} (o : OID) (inf : Nat) (p : Dec) (hi : RecInv s) :
    RecInv (slashAssets s o inf p) := by
  have hfr : (slashAssets s o inf p).sidx = s.sidx ∧ (slashAssets s o inf p).pidx = s.pidx := by
    unfold slashAssets
    by_cases hh : inf < s.height <;> simp [hh]
  obtain ⟨hs, hp⟩ := hfr
  constructor
  · unfold NoDup; rw [slashAssets_recs_keys]; exact hi.ndR
  · rw [hs]; exact hi.ndS
  · rw [hp]; exact hi.ndP
  · intro k r' h
    obtain ⟨r, x, hr, he⟩ := (slashAssets_recs_find s o inf p k).2.1 r' h
    obtain ⟨a1, a2, a3⟩ := hi.keyed k r hr
    subst he
    rw [hs, hp]
    exact ⟨a1, a2, a3⟩
  · intro pk k h
    rw [hp] at h
    obtain ⟨r, hr, he⟩ := hi.pback pk k h
    obtain ⟨x, hx⟩ := (slashAssets_recs_find s o inf p k).2.2 r hr
    exact ⟨_, hx, he⟩
  · intro sk k h
    rw [hs] at h
    obtain ⟨r, hr, he⟩ := hi.sback sk k h
    obtain ⟨x, hx⟩ := (slashAssets_recs_find s o inf p k).2.2 r hr
    exact ⟨_, hx, he⟩
  · intro k1 k2 r1 r2 h1 h2 hn
    obtain ⟨q1, x1, hq1, e1⟩ := (slashAssets_recs_find s o inf p k1).2.1 r1 h1
    obtain ⟨q2, x2, hq2, e2⟩ := (slashAssets_recs_find s o inf p k2).2.1 r2 h2
    subst e1; subst e2
    exact hi.uniq k1 k2 q1 q2 hq1 hq2 hn

/-- the ghost "slashed" counter grows by exactly what the slash removes from the ledger value -/
theorem slashAssets_net (s : L) (o : OID) (inf : Nat) (p : Dec) (a : AID) (hp : UnitP p)
    (hr : RecsNonneg s.recs) (hpl : PoolsNonneg s.pools) :
    net (slashAssets s o inf p) a = net s a := by
  obtain ⟨p1, p2, _⟩ := slashPools_spec s.pools o p (fun k => has s.slist k) a hp hpl
  unfold net value slashAssets
  by_cases hh : inf < s.height
  · obtain ⟨r1, r2, _, _⟩ := slashRecords_spec s.recs o inf p a hp hr
    simp only [hh, if_true]
    rw [p1, r1, getD_foldl_ghostAdd, gsum_append]; omega
  · simp only [hh, if_false]
    rw [p1, getD_foldl_ghostAdd, gsum_append]; simp [gsum]; omega

end ExoVerif.Ledger

namespace ExoVerif.Ledger
open ExoVerif ExoVerif.KV

/-! ## the ghost counters are written by deposit / withdraw / slash only -/

def ghosts (s : L) : List (AID × Int) × List (AID × Int) × List (AID × Int) := (s.gDep, s.gWd, s.gSlashed)

theorem updStaker_ghosts {s s' : L} {st : SID} {a : AID} {dT dW dP : Int}
    (h : updStaker s st a dT dW dP = .ok s') : ghosts s' = ghosts s := by rw [updStaker_ok h]; rfl

theorem updPool_ghosts {s s' : L} {o : OID} {a : AID} {dA dP : Int} {dS dO : Dec}
    (h : updPool s o a dA dP dS dO = .ok s') : ghosts s' = ghosts s := by
  obtain ⟨_, _, _, _, hs⟩ := updPool_ok h; rw [hs]; rfl

theorem updDeleg_ghosts {s s' : L} {st : SID} {a : AID} {o : OID} {dS : Dec} {dW : Int} {z : Bool}
    (h : updDeleg s st a o dS dW = .ok (s', z)) : ghosts s' = ghosts s := by
  obtain ⟨_, _, _, hs⟩ := updDeleg_ok h; rw [hs]; rfl

theorem delegateCore_frame {s s' : L} {st : SID} {a0 : AID} {o : OID} {x : Int}
    (h : delegateCore s st a0 o x = .ok s') : ghosts s' = ghosts s ∧ SameRecs s s' := by
  unfold delegateCore at h
  simp only [bind, Except.bind, pure, Except.pure] at h
  split at h
  · cases h
  · split at h
    · cases h
    · rename_i s2 h2
      split at h
      · cases h
      · rename_i p3 h3
        obtain ⟨s3, z⟩ := p3
        injection h with h; subst h
        have g : ghosts (appendStaker s3 o a0 st) = ghosts s3 := by
          unfold appendStaker; simp only []; split <;> rfl
        have r : SameRecs s3 (appendStaker s3 o a0 st) := by
          unfold appendStaker; simp only []; split <;> exact ⟨rfl, rfl, rfl, rfl, rfl, rfl⟩
        exact ⟨by rw [g, updDeleg_ghosts h3, updPool_ghosts h2],
          SameRecs.trans (SameRecs.trans (updPool_recs h2) (updDeleg_recs h3)) r⟩

theorem delegate_frame {s s' : L} {st : SID} {a0 : AID} {o : OID} {x : Int}
    (h : delegate s st a0 o x = .ok s') : ghosts s' = ghosts s ∧ SameRecs s s' := by
  unfold delegate at h
  simp only [bind, Except.bind, pure, Except.pure, throw, throwThe, MonadExceptOf.throw] at h
  split at h
  · cases h
  · split at h
    · cases h
    · by_cases hn : a0 = nativeAID
      · simp only [hn, if_true] at h
        split at h
        · cases h
        · obtain ⟨g, r⟩ := delegateCore_frame h
          exact ⟨g, r⟩
      · simp only [hn, if_false] at h
        split at h
        · cases h
        · split at h
          · cases h
          · split at h
            · cases h
            · rename_i s1 h1
              obtain ⟨g, r⟩ := delegateCore_frame h
              exact ⟨by rw [g, updStaker_ghosts h1], SameRecs.trans (updStaker_recs h1) r⟩

theorem removeShare_ghosts {s s' : L} {isU : Bool} {o : OID} {st : SID} {a0 : AID} {share : Dec}
    {removed : Int} (h : removeShare s isU o st a0 share = .ok (s', removed)) : ghosts s' = ghosts s := by
  unfold removeShare at h
  simp only [bind, Except.bind, pure, Except.pure, throw, throwThe, MonadExceptOf.throw] at h
  split at h
  · cases h
  · split at h
    · cases h
    · rename_i p1 h1
      obtain ⟨s1, rem⟩ := p1
      simp only [] at h
      have e1 : ghosts s1 = ghosts s := by
        unfold removeShareFromOperator at h1
        simp only [bind, Except.bind, pure, Except.pure, throw, throwThe, MonadExceptOf.throw] at h1
        split at h1
        · cases h1
        · split at h1
          · cases h1
          · split at h1
            · cases h1
            · split at h1
              · cases h1
              · split at h1
                · cases h1
                · rename_i sx hx
                  injection h1 with h1; injection h1 with ha hb; subst ha
                  exact updPool_ghosts hx
      split at h
      · cases h
      · rename_i s2 h2
        have e2 : ghosts s2 = ghosts s1 := by
          unfold pendStaker at h2
          split at h2
          · exact updStaker_ghosts h2
          · injection h2 with h2; rw [← h2]
        split at h
        · cases h
        · rename_i p3 h3
          obtain ⟨s3, z⟩ := p3
          simp only [] at h
          have e3 := updDeleg_ghosts h3
          split at h
          · cases h
          · rename_i s4 h4
            injection h with h; injection h with ha hb; subst ha
            have e4 : ghosts s4 = ghosts s3 := by
              cases z
              · simp only [Bool.false_eq_true, if_false] at h4
                injection h4 with h4; rw [← h4]
              · simp only [if_true] at h4
                unfold deleteStaker at h4
                split at h4
                · cases h4
                · injection h4 with h4; rw [← h4]; rfl
            rw [e4, e3, e2, e1]

theorem undelegate_ghosts {s s' : L} {st : SID} {a0 : AID} {o : OID} {x : Int} {n : Nat} {hash : String}
    (h : undelegate s st a0 o x n hash = .ok s') : ghosts s' = ghosts s := by
  unfold undelegate at h
  simp only [bind, Except.bind, throw, throwThe, MonadExceptOf.throw] at h
  split at h
  · cases h
  · split at h
    · cases h
    · split at h
      · cases h
      · split at h
        · cases h
        · rename_i p1 h1
          obtain ⟨s1, removed⟩ := p1
          simp only [] at h
          have e1 := removeShare_ghosts h1
          unfold setRecord at h
          split at h
          · cases h
          · injection h with h; rw [← h]; exact e1

theorem completeRecord_ghosts {s s' : L} {r : URec} (h : completeRecord s r = .ok s') : ghosts s' = ghosts s := by
  unfold completeRecord at h
  simp only [bind, Except.bind, pure, Except.pure] at h
  split at h
  · cases h
  · rename_i p1 h1
    obtain ⟨s1, z⟩ := p1
    simp only [] at h
    split at h
    · cases h
    · rename_i s2 h2
      split at h
      · cases h
      · rename_i s3 h3
        injection h with h; subst h
        have e2 : ghosts s2 = ghosts s1 := by
          unfold creditStaker at h2
          split at h2
          · split at h2
            · cases h2
            · injection h2 with h2; rw [← h2]; rfl
          · exact updStaker_ghosts h2
        show ghosts (deleteRecord s3 r) = _
        have : ghosts (deleteRecord s3 r) = ghosts s3 := rfl
        rw [this, updPool_ghosts h3, e2, updDeleg_ghosts h1]

theorem endBlockRecord_ghosts (s : L) (r : URec) : ghosts (endBlockRecord s r) = ghosts s := by
  unfold endBlockRecord
  split
  · simp only []
    split
    · rename_i s2 hset
      unfold setRecord at hset
      split at hset
      · cases hset
      · injection hset with hset; rw [← hset]; rfl
    · rfl
  · split
    · rename_i s2 hc; exact completeRecord_ghosts hc
    · rfl

theorem endBlock_ghosts (s : L) : ghosts (nextBlock (endBlock s)) = ghosts s := by
  have : ghosts (endBlock s) = ghosts s := by
    unfold endBlock
    split
    · rfl
    · rename_i rs _
      clear * -
      induction rs generalizing s with
      | nil => rfl
      | cons r rest ih => simp only [List.foldl_cons]; rw [ih, endBlockRecord_ghosts]
  exact this

end ExoVerif.Ledger
