import ExoVerif.Model.EpochsOrder
/-! Helper lemmas for the subscriber-order theorems of C15 (`Props/C15Order.lean`). -/
namespace ExoVerif.Epochs

/-- a subscriber that moves no coins (operator, dogfood, AVS) -/
def Quiet (s : Sub) : Prop := s ≠ .distribution ∧ s ≠ .mint

theorem deliver_quiet (cfg : OrderCfg) (st : Pots × List Move) (s : Sub) (ev : Ev) (h : Quiet s) :
    deliver cfg st (s, ev) = st := by
  obtain ⟨h1, h2⟩ := h
  cases s <;> simp_all [deliver]

theorem deliver_start (cfg : OrderCfg) (st : Pots × List Move) (s : Sub) (id : String) (n : Int) :
    deliver cfg st (s, Ev.epochStart id n) = st := by
  cases s <;> simp [deliver]

theorem foldl_quiet (cfg : OrderCfg) (ev : Ev) (l : List Sub) (hl : ∀ s ∈ l, Quiet s)
    (st : Pots × List Move) :
    (l.map (fun s => (s, ev))).foldl (deliver cfg) st = st := by
  induction l generalizing st with
  | nil => rfl
  | cons s rest ih =>
    simp only [List.map_cons, List.foldl_cons]
    rw [deliver_quiet cfg st s ev (hl s (by simp))]
    exact ih (fun t ht => hl t (by simp [ht])) st

theorem foldl_start (cfg : OrderCfg) (id : String) (n : Int) (l : List Sub) (st : Pots × List Move) :
    (l.map (fun s => (s, Ev.epochStart id n))).foldl (deliver cfg) st = st := by
  induction l generalizing st with
  | nil => rfl
  | cons s rest ih =>
    simp only [List.map_cons, List.foldl_cons]
    rw [deliver_start]
    exact ih st

/-- the movement list is append-only: folding from a non-empty trace = prefixing that trace -/
theorem deliver_trace (cfg : OrderCfg) (p : Pots) (t : List Move) (d : Sub × Ev) :
    deliver cfg (p, t) d = ((deliver cfg (p, []) d).1, t ++ (deliver cfg (p, []) d).2) := by
  obtain ⟨s, ev⟩ := d
  cases s <;> cases ev <;> simp [deliver] <;> split <;> simp

theorem foldl_trace (cfg : OrderCfg) (ds : List (Sub × Ev)) (p : Pots) (t : List Move) :
    ds.foldl (deliver cfg) (p, t)
      = ((ds.foldl (deliver cfg) (p, [])).1, t ++ (ds.foldl (deliver cfg) (p, [])).2) := by
  induction ds generalizing p t with
  | nil => simp
  | cons d rest ih =>
    simp only [List.foldl_cons]
    rw [deliver_trace cfg p t d, ih, ih (deliver cfg (p, []) d).1 (deliver cfg (p, []) d).2]
    simp [List.append_assoc]

theorem sweeps_append (a b : List Move) : sweeps (a ++ b) = sweeps a ++ sweeps b := by
  induction a with
  | nil => rfl
  | cons m rest ih => cases m <;> simp [sweeps, ih]

end ExoVerif.Epochs
