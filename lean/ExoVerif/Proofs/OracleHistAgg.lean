import ExoVerif.Proofs.OracleHist
/-!
Part 6 of the history-level development (C12): the per-feeder aggregators held in the in-memory
context stay consistent along the State-level run — no final price yet, the reporting power is the
sum of the powers of the reports, one report per validator — so that whenever a message finalizes a
round, the recorded price is the median of the reporting validators' values and the reporters'
summed power strictly exceeds the threshold. Core Lean only.
-/
namespace ExoVerif.Oracle

def sumPower : List Report → Int
  | [] => 0
  | r :: t => r.power + sumPower t

theorem sumPower_append (l : List Report) (r : Report) : sumPower (l ++ [r]) = sumPower l + r.power := by
  induction l with
  | nil => simp [sumPower]
  | cons x t ih => simp only [List.cons_append, sumPower, ih]; omega

/-- a collecting aggregator: no final price yet, `reportPower` is the sum over its reports, and no
validator has two reports -/
structure AggOK (a : Aggregator) : Prop where
  nofinal : a.final = none
  power : a.reportPower = sumPower a.reports
  nodup : (a.reports.map (·.validator)).Nodup

/-- every worker of the context holds a consistent aggregator (or none: sealed workers) -/
def WInv (g : Agc) : Prop := ∀ kw ∈ g.workers, ∀ a, kw.2.a = some a → AggOK a

/-! ### aggregator.go: fillPrice, confirmDSPrice, aggregate -/

theorem fillSlots_frame (ds : List (Nat × String)) (reports : List Report) (srcs : List PSource) : ∀ (rep : Report),
    (fillSlots ds reports rep srcs).validator = rep.validator ∧ (fillSlots ds reports rep srcs).power = rep.power ∧
    (fillSlots ds reports rep srcs).price = rep.price := by
  induction srcs with
  | nil => intro rep; exact ⟨rfl, rfl, rfl⟩
  | cons ps rest ih =>
    intro rep
    unfold fillSlots
    repeat' split
    all_goals first | exact ih _ | (have := ih _; exact this)

theorem replaceReport_validators (rep : Report) (l : List Report) :
    (replaceReport rep l).map (·.validator) = l.map (·.validator) := by
  induction l with
  | nil => rfl
  | cons r t ih =>
    unfold replaceReport
    by_cases h : r.validator = rep.validator
    · simp [h]
    · simp [h, ih]

theorem replaceReport_power (rep : Report) (l : List Report) (r0 : Report)
    (hf : l.find? (fun r => decide (r.validator = rep.validator)) = some r0) (hp : r0.power = rep.power) :
    sumPower (replaceReport rep l) = sumPower l := by
  induction l with
  | nil => simp at hf
  | cons r t ih =>
    unfold replaceReport
    by_cases h : r.validator = rep.validator
    · simp only [List.find?_cons, h, decide_true, Option.some.injEq] at hf
      subst hf
      simp only [h, if_true, sumPower, hp]
    · simp only [List.find?_cons, h, decide_false] at hf
      simp only [h, if_false, sumPower, ih hf]

theorem Aggregator.fillPrice_ok (a : Aggregator) (srcs : List PSource) (v : Nat) (power : Int) (h : AggOK a) :
    AggOK (a.fillPrice srcs v power) ∧ (a.fillPrice srcs v power).total = a.total ∧ (a.fillPrice srcs v power).ds = a.ds := by
  unfold Aggregator.fillPrice
  cases hf : a.reports.find? (fun r => decide (r.validator = v)) with
  | some r =>
    simp only
    have hrv : r.validator = v := by
      have := List.find?_some hf
      simpa using this
    have hfr := fillSlots_frame a.ds a.reports srcs r
    refine ⟨⟨h.nofinal, ?_, ?_⟩, by simp, by simp⟩
    · simp only
      rw [replaceReport_power _ _ r (by rw [hfr.1, hrv]; exact hf) hfr.2.1.symm]
      exact h.power
    · simp only
      rw [replaceReport_validators]; exact h.nodup
  | none =>
    simp only
    have hnone : ∀ x ∈ a.reports, ¬ x.validator = v := by
      intro x hx
      have := List.find?_eq_none.mp hf x hx
      simpa using this
    have hfr := fillSlots_frame a.ds (a.reports ++ [{ validator := v, price := none, prices := [], power := power }]) srcs
      { validator := v, price := none, prices := [], power := power }
    have hfind : (a.reports ++ [({ validator := v, price := none, prices := [], power := power } : Report)]).find?
        (fun r => decide (r.validator = v)) = some { validator := v, price := none, prices := [], power := power } := by
      rw [List.find?_append, hf]
      simp
    refine ⟨⟨h.nofinal, ?_, ?_⟩, by simp, by simp⟩
    · simp only
      rw [replaceReport_power _ _ _ (by rw [hfr.1]; exact hfind) hfr.2.1.symm, sumPower_append, h.power]
    · simp only
      rw [replaceReport_validators, List.map_append]
      apply List.nodup_append.mpr
      refine ⟨h.nodup, by simp, ?_⟩
      intro x hx y hy
      simp only [List.map_cons, List.map_nil, List.mem_singleton] at hy
      subst hy
      obtain ⟨r, hr, he⟩ := List.mem_map.mp hx
      intro e
      exact hnone r hr (he.trans e)

theorem confirmReport_frame (c : Confirmed) (r : Report) :
    (confirmReport c r).validator = r.validator ∧ (confirmReport c r).power = r.power := by
  unfold confirmReport
  repeat' split
  all_goals exact ⟨rfl, rfl⟩

theorem sumPower_map_confirm (c : Confirmed) (l : List Report) : sumPower (l.map (confirmReport c)) = sumPower l := by
  induction l with
  | nil => rfl
  | cons r t ih => simp only [List.map_cons, sumPower, ih, (confirmReport_frame c r).2]

theorem validators_map_confirm (c : Confirmed) (l : List Report) :
    (l.map (confirmReport c)).map (·.validator) = l.map (·.validator) := by
  induction l with
  | nil => rfl
  | cons r t ih => simp only [List.map_cons, ih, (confirmReport_frame c r).1]

theorem Aggregator.confirmDS_ok (confs : List Confirmed) : ∀ (a : Aggregator), AggOK a →
    AggOK (a.confirmDS confs) ∧ (a.confirmDS confs).total = a.total := by
  induction confs with
  | nil => intro a h; exact ⟨h, rfl⟩
  | cons c cs ih =>
    intro a h
    unfold Aggregator.confirmDS
    simp only
    split
    · have h1 : AggOK { a with ds := aset c.sourceID c.detID a.ds, reports := a.reports.map (confirmReport c) } :=
        ⟨h.nofinal, by simp only; rw [sumPower_map_confirm]; exact h.power,
          by simp only; rw [validators_map_confirm]; exact h.nodup⟩
      exact ih _ h1
    · exact ih a h

theorem Aggregator.aggregate_nofinal (a : Aggregator) (x y : Int) (h : a.final = none)
    (h2 : (a.aggregate x y).final = none) : a.aggregate x y = a := by
  unfold Aggregator.aggregate at h2 ⊢
  simp only [h, Option.isSome_none, Bool.false_eq_true, if_false] at h2 ⊢
  split
  · rename_i hc
    simp [hc] at h2
  · rfl

/-- aggregator.go: aggregate sets a final price only over the threshold and with a confirmed
deterministic source, and the price is the median of the reports' values -/
theorem Aggregator.aggregate_final (a : Aggregator) (x y v : Int) (h : a.final = none)
    (h2 : (a.aggregate x y).final = some v) :
    exceedsThreshold a.reportPower a.total x y = true ∧ a.ds ≠ [] ∧ v = median (a.reports.map Report.aggregate) := by
  unfold Aggregator.aggregate at h2
  simp only [h, Option.isSome_none, Bool.false_eq_true, if_false] at h2
  by_cases hc : (exceedsThreshold a.reportPower a.total x y && decide (a.ds.length > 0)) = true
  · simp only [hc, if_true, Option.some.injEq] at h2
    simp only [Bool.and_eq_true, decide_eq_true_eq] at hc
    refine ⟨hc.1, ?_, h2.symm⟩
    intro hn; rw [hn] at hc; simp at hc
  · simp only [hc] at h2
    simp [h] at h2

/-! ### worker.go: do -/

theorem Worker.run_ok (w : Worker) (p : Params) (power : Int) (m : Msg)
    (h : ∀ a, w.a = some a → AggOK a) : ∀ a2, (w.run p power m).1.a = some a2 → AggOK a2 := by
  intro a2 h2
  unfold Worker.run at h2
  cases hf : w.f with
  | none => simp only [hf] at h2; exact h a2 h2
  | some f =>
    cases hc : w.c with
    | none => simp only [hf, hc] at h2; exact h a2 h2
    | some c =>
      cases ha : w.a with
      | none => simp only [hf, hc, ha] at h2; exact h a2 (by rw [ha]; exact h2)
      | some a =>
        simp only [hf, hc, ha] at h2
        have hok := h a ha
        split at h2
        · simp only [Option.some.injEq] at h2
          rw [← h2]
          have h1 := (Aggregator.fillPrice_ok a (f.filtrate m).2.2 m.creator power hok).1
          split
          · exact (Aggregator.confirmDS_ok _ _ h1).1
          · exact h1
        · simp only [Option.some.injEq] at h2
          rw [← h2]; exact hok


/-! ### context.go: FillPrice, SealRound, PrepareRoundEndBlock keep the workers consistent -/

def okWk (w : Worker) : Prop := ∀ a, w.a = some a → AggOK a

def WL (l : List (Nat × Worker)) : Prop := ∀ kw ∈ l, okWk kw.2

theorem mem_aset {κ α} [DecidableEq κ] (k : κ) (v : α) (l : List (κ × α)) (kw : κ × α) (h : kw ∈ aset k v l) :
    kw = (k, v) ∨ kw ∈ l := by
  induction l with
  | nil => simp only [aset, List.mem_singleton] at h; exact Or.inl h
  | cons hd t ih =>
    obtain ⟨k', v'⟩ := hd
    by_cases hk : k' = k
    · simp only [aset, hk, if_true, List.mem_cons] at h
      rcases h with h | h
      · exact Or.inl h
      · exact Or.inr (by simp [h])
    · simp only [aset, hk, if_false, List.mem_cons] at h
      rcases h with h | h
      · exact Or.inr (by simp [h])
      · rcases ih h with h1 | h1
        · exact Or.inl h1
        · exact Or.inr (by simp [h1])

theorem mem_adel {κ α} [DecidableEq κ] (k : κ) (l : List (κ × α)) (kw : κ × α) (h : kw ∈ adel k l) : kw ∈ l := by
  induction l with
  | nil => simp [adel] at h
  | cons hd t ih =>
    obtain ⟨k', v'⟩ := hd
    by_cases hk : k' = k
    · simp only [adel, hk, if_true] at h; simp [h]
    · simp only [adel, hk, if_false, List.mem_cons] at h
      rcases h with h | h
      · simp [h]
      · simp [ih h]

theorem WL_aset (k : Nat) (w : Worker) (l : List (Nat × Worker)) (h : WL l) (hw : okWk w) : WL (aset k w l) := by
  intro kw hkw
  rcases mem_aset k w l kw hkw with e | e
  · rw [e]; exact hw
  · exact h kw e

theorem WL_adel (k : Nat) (l : List (Nat × Worker)) (h : WL l) : WL (adel k l) :=
  fun kw hkw => h kw (mem_adel k l kw hkw)

theorem okWk_lookup (g : Agc) (p : Params) (fid : Nat) (h : WInv g) :
    okWk ((alookup fid g.workers).getD (newWorker p g fid)) := by
  cases hl : alookup fid g.workers with
  | some w =>
    simp only [Option.getD_some]
    exact h (fid, w) (alookup_mem fid w g.workers hl)
  | none =>
    simp only [Option.getD_none]
    intro a ha
    simp only [newWorker, Option.some.injEq] at ha
    rw [← ha]
    exact ⟨rfl, rfl, by simp⟩

theorem Agc.fillPrice_winv (g : Agc) (p : Params) (m : Msg) (h : WInv g) : WInv (g.fillPrice p m).1 := by
  have hw0 := okWk_lookup g p m.feederID h
  unfold Agc.fillPrice
  simp only
  generalize (alookup m.feederID g.workers).getD (newWorker p g m.feederID) = w at hw0 ⊢
  have hl0 : WL (aset m.feederID w g.workers) := WL_aset _ _ _ h hw0
  by_cases hs : w.sealed = true
  · simp only [hs, if_true]; exact hl0
  · have hs' : w.sealed = false := by simpa using hs
    simp only [hs', Bool.false_eq_true, if_false]
    have hrun := Worker.run_ok w p ((alookup m.creator g.vals).getD 0) m hw0
    rcases hr : w.run p ((alookup m.creator g.vals).getD 0) m with ⟨w1, filled⟩
    rw [hr] at hrun
    simp only at hrun ⊢
    by_cases hfl : filled.length > 0
    · simp only [hfl, if_true]
      cases ha : w1.a with
      | none =>
        simp only
        exact WL_aset _ _ _ hl0 (fun a h' => by rw [ha] at h'; cases h')
      | some a =>
        simp only
        cases hfin : (a.aggregate p.thA p.thB).final with
        | some fp =>
          simp only
          exact WL_aset _ _ _ hl0 (fun a' h' => by cases h')
        | none =>
          simp only
          apply WL_aset _ _ _ hl0
          intro a' h'
          simp only [Option.some.injEq] at h'
          rw [← h', Aggregator.aggregate_nofinal a _ _ (hrun a ha).nofinal hfin]
          exact hrun a ha
    · simp only [hfl, if_false]
      exact WL_aset _ _ _ hl0 hrun

/-- **a finalizing message**: the price it records is the median of the values of the reports of
the feeder's (consistent) aggregator, whose reporting power — the sum of the powers of the reports, one
per validator — strictly exceeds the threshold fraction of the aggregator's total, and a
deterministic-source round has been confirmed -/
theorem Agc.fillPrice_final_ok (g : Agc) (p : Params) (m : Msg) (g' : Agc) (it : FinalItem) (h : WInv g)
    (hf : g.fillPrice p m = (g', .final it)) :
    ∃ a, (((alookup m.feederID g.workers).getD (newWorker p g m.feederID)).run p
        ((alookup m.creator g.vals).getD 0) m).1.a = some a ∧ AggOK a ∧
      it.price = median (a.reports.map Report.aggregate) ∧
      exceedsThreshold (sumPower a.reports) a.total p.thA p.thB = true ∧ a.ds ≠ [] := by
  have hw0 := okWk_lookup g p m.feederID h
  unfold Agc.fillPrice at hf
  simp only at hf
  generalize (alookup m.feederID g.workers).getD (newWorker p g m.feederID) = w at hw0 hf ⊢
  by_cases hs : w.sealed = true
  · simp only [hs, if_true, Prod.mk.injEq] at hf; cases hf.2
  · have hs' : w.sealed = false := by simpa using hs
    simp only [hs', Bool.false_eq_true, if_false] at hf
    have hrun := Worker.run_ok w p ((alookup m.creator g.vals).getD 0) m hw0
    rcases hr : w.run p ((alookup m.creator g.vals).getD 0) m with ⟨w1, filled⟩
    rw [hr] at hrun hf
    simp only at hrun hf ⊢
    by_cases hfl : filled.length > 0
    · simp only [hfl, if_true] at hf
      cases ha : w1.a with
      | none => rw [ha] at hf; simp only [Prod.mk.injEq] at hf; cases hf.2
      | some a =>
        rw [ha] at hf
        simp only at hf
        cases hfin : (a.aggregate p.thA p.thB).final with
        | none => rw [hfin] at hf; simp only [Prod.mk.injEq] at hf; cases hf.2
        | some fp =>
          rw [hfin] at hf
          simp only [Prod.mk.injEq, FillRes.final.injEq] at hf
          have hok := hrun a ha
          obtain ⟨h1, h2, h3⟩ := Aggregator.aggregate_final a _ _ fp hok.nofinal hfin
          refine ⟨a, rfl, hok, ?_, ?_, h2⟩
          · rw [← hf.2]; exact h3
          · rw [← hok.power]; exact h1
    · simp only [hfl, if_false, Prod.mk.injEq] at hf; cases hf.2

/-! ### the invariant along the run -/

theorem sealOne_winv (p : Params) (h : Nat) (force : Bool) (g : Agc) (fid : Nat) (hw : WInv g) :
    WInv (sealOne p h force g fid).1 := by
  unfold sealOne
  have hd1 : WL (adel fid g.workers) := WL_adel _ _ hw
  have hd2 : WL (adel fid (adel fid g.workers)) := WL_adel _ _ hd1
  cases alookup fid g.rounds with
  | none => exact hw
  | some r =>
    simp only
    by_cases h1 : r.status = Status.open
    · by_cases h2 : ((decide (((p.feeder? fid).getD default).endBlock > 0) && decide (h ≥ ((p.feeder? fid).getD default).endBlock)) || decide (h - r.basedBlock ≥ p.maxNonce) || force) = true
      · simp only [h1, h2, if_true]
        repeat' split
        all_goals first | exact hd1 | exact hd2
      · simp only [h1, h2, if_true, Bool.false_eq_true, if_false]
        repeat' split
        all_goals first | exact hw | exact hd1
    · simp only [h1, if_false]
      repeat' split
      all_goals first | exact hw | exact hd1

theorem sealRound_winv (g : Agc) (p : Params) (h : Nat) (force : Bool) (hw : WInv g) :
    WInv (g.sealRound p h force).1 := by
  rw [sealRound_eq]
  generalize (g.rounds.map (·.1)) = l
  have key : ∀ (l : List Nat) (acc : Agc × List Nat × List Nat), WInv acc.1 →
      WInv (l.foldl (sealStep p h force) acc).1 := by
    intro l
    induction l with
    | nil => intro acc ha; exact ha
    | cons fid t ih =>
      intro acc ha
      rw [List.foldl_cons]
      apply ih
      exact sealOne_winv p h force acc.1 fid ha
  exact key l (g, [], []) hw

theorem prepareOne_winv (p : Params) (block : Nat) (g : Agc) (fid : Nat) (f : Feeder) (hw : WInv g) :
    WInv (prepareOne p block g fid f).1 := by
  unfold prepareOne
  have h1 : WL (adel fid g.workers) := WL_adel _ _ hw
  repeat' split
  all_goals first | exact hw | exact h1

theorem prepareLoop_winv (p : Params) (block : Nat) (fs : List Feeder) : ∀ (g : Agc) (i : Nat) (acc : List Nat),
    WInv g → WInv (prepareLoop p block g i fs acc).1 := by
  induction fs with
  | nil => intro g i acc h; exact h
  | cons f fs ih =>
    intro g i acc h
    unfold prepareLoop
    by_cases hi : i = 0
    · simp only [hi, if_true]; exact ih _ _ _ h
    · simp only [hi, if_false]
      exact ih _ _ _ (prepareOne_winv p block g i f h)

theorem prepareRound_winv (g : Agc) (block : Nat) (hw : WInv g) : WInv (g.prepareRound block).1 := by
  unfold Agc.prepareRound
  repeat' split
  · exact hw
  · exact hw
  · exact prepareLoop_winv _ _ _ _ _ _ hw

/-- the State-level invariant -/
def SWInv (s : State) : Prop := ∀ g, s.agc = some g → WInv g

theorem createPrice_swinv (p : Params) (s : State) (m : Msg) (hpf : PF p s) (h : SWInv s) : SWInv (createPrice s m).1 := by
  obtain ⟨g, hg, hp⟩ := hpf.agc
  by_cases hts : checkTimestamp s.blockTime m = true
  · cases hc : g.checkMsg p m with
    | some e =>
      rw [createPrice_check_fail s m g p e hg hp hts hc]
      exact h
    | none =>
      rw [createPrice_fill s m g p hg hp hts hc]
      have hw := Agc.fillPrice_winv g p m (h g hg)
      rcases hf : g.fillPrice p m with ⟨g', res⟩
      rw [hf] at hw
      cases res with
      | ignored => intro g2 hg2; cases hg2; exact hw
      | cached it => intro g2 hg2; cases hg2; exact hw
      | final it => intro g2 hg2; cases hg2; exact hw
  · have hts' : checkTimestamp s.blockTime m = false := by simpa using hts
    rw [createPrice_bad_ts s m hts']
    exact h

theorem runMsgs_swinv (p : Params) (ms : List Msg) : ∀ (s : State) (i : Nat), PF p s → SWInv s →
    SWInv (runMsgs s i ms).1 := by
  induction ms with
  | nil => intro s i _ h; exact h
  | cons m ms ih =>
    intro s i hpf h
    have h1 := createPrice_swinv p s m hpf h
    have h2 := createPrice_pf p s m hpf
    unfold runMsgs
    rcases hcp : createPrice s m with ⟨s', out⟩
    rw [hcp] at h1 h2
    cases out with
    | ok => exact ih s' (i + 1) h2.2.1 h1
    | err e => exact h1

theorem deliverTx_swinv (p : Params) (s : State) (tx : Tx) (hpf : PF p s) (h : SWInv s) : SWInv (deliverTx s tx).1 := by
  unfold deliverTx
  cases ha : anteHandle s tx with
  | error why => exact h
  | ok st =>
    simp only
    have h0 : PF p { s with store := st } := ⟨hpf.agc, hpf.cache⟩
    have h1 := runMsgs_swinv p tx.msgs { s with store := st } 0 h0 h
    rcases hr : runMsgs { s with store := st } 0 tx.msgs with ⟨s2, r⟩
    rw [hr] at h1
    cases r with
    | none => exact h1
    | some ie => exact h1

theorem runTxs_swinv (p : Params) (txs : List Tx) : ∀ (s : State), PF p s → SWInv s → SWInv (runTxs s txs).1 := by
  induction txs with
  | nil => intro s _ h; exact h
  | cons tx txs ih =>
    intro s hpf h
    simp only [runTxs]
    exact ih _ (deliverTx_pf p s tx hpf).2.1 (deliverTx_swinv p s tx hpf h)

theorem endTail_swinv (s : State) (g : Agc) (c : Cache) (updates : List (Nat × Int)) (force : Bool) (p : Params)
    (hw : WInv g) : SWInv (endTail s g c updates force p) := by
  unfold endTail
  simp only
  intro g2 hg2
  simp only [Option.some.injEq] at hg2
  rw [← hg2]
  apply prepareRound_winv
  have hfr := endCommit_frame (endStore1 s.store updates (g.sealRound p s.height force).2.2 (g.sealRound p s.height force).2.1
    ((g.sealRound p s.height force).1.vals.map (·.1)) p.maxSizePrices) (g.sealRound p s.height force).1 c p s.height
  intro kw hkw
  rw [hfr.2.2.2.2.1] at hkw
  exact sealRound_winv g p s.height force hw kw hkw

theorem endBlock_swinv (p : Params) (s s' : State) (updates : List (Nat × Int)) (hpf : PF p s) (h : SWInv s)
    (he : endBlock s updates = some s') : SWInv s' := by
  obtain ⟨g, hg, hp⟩ := hpf.agc
  have hf := endVals_frame g s.cacheD updates
  rw [endBlock_eq s updates g hg, hf.1, hp] at he
  simp only [Option.some.injEq] at he
  rw [← he]
  apply endTail_swinv
  intro kw hkw
  rw [hf.2.2.1] at hkw
  exact h g hg kw hkw

theorem runBlock_swinv (p : Params) (s s' : State) (b : Block) (outs : List TxOut) (hpf : PF p s) (h : SWInv s)
    (hr : runBlock s b = some (s', outs)) : SWInv s' := by
  unfold runBlock at hr
  have h0 : PF p (beginBlock s b.blockTime) := ⟨hpf.agc, hpf.cache⟩
  have hT := runTxs_pf p b.txs _ h0
  have hW := runTxs_swinv p b.txs _ h0 h
  cases he : endBlock (runTxs (beginBlock s b.blockTime) b.txs).1 b.updates with
  | none => simp [he] at hr
  | some s1 =>
    simp only [he, Option.some.injEq, Prod.mk.injEq] at hr
    rw [← hr.1]
    exact endBlock_swinv p _ _ b.updates hT.2.1 hW he

theorem runBlocks_swinv (p : Params) (bs : List Block) : ∀ (s s' : State) (outs : List (List TxOut)),
    PF p s → SWInv s → runBlocks s bs = some (s', outs) → SWInv s' := by
  induction bs with
  | nil =>
    intro s s' outs _ h hr
    simp only [runBlocks, Option.some.injEq, Prod.mk.injEq] at hr
    rw [← hr.1]; exact h
  | cons b bs ih =>
    intro s s' outs hpf h hr
    simp only [runBlocks] at hr
    cases hb : runBlock s b with
    | none => rw [hb] at hr; cases hr
    | some r1 =>
      obtain ⟨s1, o1⟩ := r1
      rw [hb] at hr
      simp only at hr
      cases hbs : runBlocks s1 bs with
      | none => rw [hbs] at hr; cases hr
      | some r2 =>
        obtain ⟨s2, o2⟩ := r2
        rw [hbs] at hr
        simp only [Option.some.injEq, Prod.mk.injEq] at hr
        rw [← hr.1]
        obtain ⟨s1', o1', hb', _, hpf1, _⟩ := runBlock_pf p s b hpf
        rw [hb] at hb'
        simp only [Option.some.injEq, Prod.mk.injEq] at hb'
        rw [← hb'.1] at hpf1
        exact ih s1 s2 o2 hpf1 (runBlock_swinv p s s1 b o1 hpf h hb) hbs

end ExoVerif.Oracle
